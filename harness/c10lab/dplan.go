package c10lab

import (
	"context"
	"encoding/json"
	"fmt"
	"io"
	"net/http"
	"sort"
	"strconv"
	"strings"
	"sync"
	"time"

	"github.com/tidwall/gjson"
	"github.com/wundergraph/astjson"

	"github.com/wundergraph/graphql-go-tools/v2/pkg/ast"
	"github.com/wundergraph/graphql-go-tools/v2/pkg/engine/datasource/httpclient"
	"github.com/wundergraph/graphql-go-tools/v2/pkg/engine/plan"
	"github.com/wundergraph/graphql-go-tools/v2/pkg/engine/postprocess"
	"github.com/wundergraph/graphql-go-tools/v2/pkg/engine/resolve"

	"gvh/common"
	gplan "gvh/plan"
)

// Desc mirrors resolve.DeferDescriptor.
type Desc struct {
	ID, Parent int
	Label      string
	Path       []string
}

// DPlan is a response plan (gvh/plan tree) whose fields carry defer ids, with its descriptors.
type DPlan struct {
	Root    *gplan.Node
	Defer   map[*gplan.Field]int
	Descs   []*Desc
	NoFetch map[int]bool // descriptors that own no fetch (probe: no DeferFetchGroup is created)
	Valid   bool         // built by the scope-respecting assignment
	// Fail: groups whose fetch phase fails HARD (ResolveFetchNode returns a Go error, the branch of
	// resolveDeferSingle that ends in ResolveDeferError): FailRate = the rate limiter returns an error,
	// FailAuth = the pre-fetch authorizer returns an error (both in the prepare phase, before any Load),
	// FailMerge = the subgraph answers a JSON array, which the merge phase cannot merge into the object.
	Fail map[int]int
	// Window: every Flush but the first is slow, and while it is in progress the fetch of one more blocked
	// group is released: anything written before the Flush returns shows render + flush is not atomic.
	Window bool
}

const (
	FailRate  = 1
	FailAuth  = 2
	FailMerge = 3
)

// DrawFailures marks one group (1/4: two) as failing hard, preferring groups that have a sibling (another
// defer with the same parent: the two run concurrently under a Parallel node).
func DrawFailures(r *common.Rand, p *DPlan) {
	p.Fail = map[int]int{}
	if len(p.Descs) == 0 {
		return
	}
	var withSib []*Desc
	for _, d := range p.Descs {
		for _, e := range p.Descs {
			if e.ID != d.ID && e.Parent == d.Parent {
				withSib = append(withSib, d)
				break
			}
		}
	}
	n := 1
	if r.Chance(1, 4) {
		n = 2
	}
	for k := 0; k < n; k++ {
		pool := p.Descs
		if len(withSib) > 0 && r.Chance(4, 5) {
			pool = withSib
		}
		p.Fail[pool[r.Pick(len(pool))].ID] = 1 + r.Pick(3)
	}
}

// HasFailingSibling: some failing group has a sibling defer.
func (p *DPlan) HasFailingSibling() bool {
	for _, d := range p.Descs {
		if p.Fail[d.ID] == 0 {
			continue
		}
		for _, e := range p.Descs {
			if e.ID != d.ID && e.Parent == d.Parent {
				return true
			}
		}
	}
	return false
}

type hardError string

func (e hardError) Error() string { return string(e) }

// failLimiter / failAuthorizer return a Go error for the data sources of the failing groups.
type failLimiter struct{ ids map[string]bool }

func (l *failLimiter) RateLimitPreFetch(_ *resolve.Context, info *resolve.FetchInfo, _ json.RawMessage) (*resolve.RateLimitDeny, error) {
	if info != nil && l.ids[info.DataSourceID] {
		return nil, hardError("rate limiter failed for " + info.DataSourceID)
	}
	return nil, nil
}
func (l *failLimiter) RenderResponseExtension(*resolve.Context, io.Writer) error { return nil }

type failAuthorizer struct{ ids map[string]bool }

func (a *failAuthorizer) AuthorizePreFetch(_ *resolve.Context, ds string, _ json.RawMessage, _ resolve.GraphCoordinate) (*resolve.AuthorizationDeny, error) {
	if a.ids[ds] {
		return nil, hardError("authorizer failed for " + ds)
	}
	return nil, nil
}
func (a *failAuthorizer) AuthorizeObjectField(*resolve.Context, string, json.RawMessage, resolve.GraphCoordinate) (*resolve.AuthorizationDeny, error) {
	return nil, nil
}
func (a *failAuthorizer) HasResponseExtensionData(*resolve.Context) bool           { return false }
func (a *failAuthorizer) RenderResponseExtension(*resolve.Context, io.Writer) error { return nil }

// ---------------------------------------------------------------- generator

type dgen struct {
	r     *common.Rand
	p     *DPlan
	next  int
	home  map[int][]string // id -> names path of the first object holding one of its fields
	cutAt map[int]int      // id -> number of names before/at the outermost list (-1 = no list)
	wild  bool
}

func sanitize(n *gplan.Node) {
	n.Unresolvable = false
	n.Inaccessible = nil
	for _, f := range n.Fields {
		f.Auth = nil
		sanitize(f.Value)
	}
	if n.Item != nil {
		sanitize(n.Item)
	}
}

func hasPrefix(a, b []string) bool {
	if len(a) > len(b) {
		return false
	}
	for i := range a {
		if a[i] != b[i] {
			return false
		}
	}
	return true
}

// GenDPlan: a random plan tree (gvh/plan generator, depth <= depth), then defer ids.  Valid
// assignment: a field either inherits the id of its enclosing field, opens a new defer whose
// parent is that id, or joins a defer already opened under the same parent whose home object is
// an ancestor-or-self of this object.  wild: ids are sprinkled without respecting the scope rule
// (the malformed stream: correspondence only).
func GenDPlan(r *common.Rand, depth int, wild bool) *DPlan {
	g := &gplan.Gen{R: r, MaxDepth: depth}
	root := g.Tree()
	sanitize(root)
	p := &DPlan{Root: root, Defer: map[*gplan.Field]int{}, NoFetch: map[int]bool{}, Valid: !wild}
	d := &dgen{r: r, p: p, home: map[int][]string{}, cutAt: map[int]int{}, wild: wild}
	d.walk(root, 0, nil, -1, false)
	sort.Slice(p.Descs, func(i, j int) bool { return p.Descs[i].ID < p.Descs[j].ID })
	return p
}

func (d *dgen) desc(id int) *Desc {
	for _, x := range d.p.Descs {
		if x.ID == id {
			return x
		}
	}
	return nil
}

func (d *dgen) walk(n *gplan.Node, ctx int, names []string, cut int, frozen bool) {
	switch n.Kind {
	case gplan.KArr:
		here := append(append([]string{}, names...), n.Path...)
		c := cut
		if c < 0 {
			c = len(here)
		}
		d.walk(n.Item, ctx, here, c, frozen)
	case gplan.KObj:
		here := append(append([]string{}, names...), n.Path...)
		for _, f := range n.Fields {
			id := ctx
			switch {
			case frozen:
			case d.wild && d.r.Chance(1, 3):
				if d.next > 0 && d.r.Chance(1, 2) {
					id = 1 + d.r.Pick(d.next)
				} else if d.r.Chance(1, 2) {
					id = 0
				} else {
					id = d.open(ctx, here, cut)
				}
			case d.r.Chance(1, 4):
				id = d.open(ctx, here, cut)
			case d.r.Chance(1, 5):
				// join a sibling defer opened under the same parent at this object or above
				var cands []int
				for _, x := range d.p.Descs {
					if x.Parent == ctx && hasPrefix(d.home[x.ID], here) {
						cands = append(cands, x.ID)
					}
				}
				if len(cands) > 0 {
					id = cands[d.r.Pick(len(cands))]
				}
			}
			if id != 0 {
				d.p.Defer[f] = id
			}
			d.walk(f.Value, id, here, cut, frozen)
		}
	}
}

func (d *dgen) open(ctx int, here []string, cut int) int {
	d.next++
	id := d.next
	path := append([]string{}, here...)
	if cut >= 0 && cut < len(path) {
		path = path[:cut]
	}
	x := &Desc{ID: id, Parent: ctx, Path: path}
	if d.r.Chance(1, 4) {
		x.Label = fmt.Sprintf("L%d", id)
	}
	d.p.Descs = append(d.p.Descs, x)
	d.home[id] = append([]string{}, here...)
	return id
}

// ---------------------------------------------------------------- S-expression dump (dnode)

func strs(xs []string) string {
	items := make([]string, len(xs))
	for i, x := range xs {
		items[i] = common.QS(x)
	}
	return "(" + strings.Join(items, " ") + ")"
}

func (p *DPlan) nodeSexp(n *gplan.Node) string {
	switch n.Kind {
	case gplan.KObj:
		fs := []string{"fields"}
		for _, f := range n.Fields {
			on := "(none)"
			if f.On != nil {
				on = "(some " + strs(f.On) + ")"
			}
			pon := "(none)"
			if f.ParentOn != nil {
				items := []string{"some"}
				for _, q := range f.ParentOn {
					items = append(items, common.L(common.I(q.Depth), strs(q.Names)))
				}
				pon = common.L(items...)
			}
			df := "(none)"
			if id, ok := p.Defer[f]; ok {
				df = common.L("some", common.I(id))
			}
			fs = append(fs, common.L("fld", common.QS(f.Name), on, pon, df, p.nodeSexp(f.Value)))
		}
		return common.L("obj", strs(n.Path), common.B(n.Nullable), common.QS(n.TypeName), strs(n.Possible), common.L(fs...))
	case gplan.KArr:
		return common.L("arr", strs(n.Path), common.B(n.Nullable), p.nodeSexp(n.Item))
	}
	return common.L("leaf", n.Sexp())
}

func (p *DPlan) Sexp() string { return p.nodeSexp(p.Root) }

func (p *DPlan) DescsSexp() string {
	items := []string{"descs"}
	for _, d := range p.Descs {
		items = append(items, common.L("d", common.I(d.ID), common.I(d.Parent), common.QS(d.Label), strs(d.Path)))
	}
	return common.L(items...)
}

func TreeSexp(t *resolve.DeferTreeNode) string {
	if t == nil {
		return "(none)"
	}
	var f func(t *resolve.DeferTreeNode) string
	f = func(t *resolve.DeferTreeNode) string {
		switch t.Kind {
		case resolve.DeferTreeNodeKindSingle:
			if t.Item == nil {
				return "(single 0)"
			}
			return common.L("single", common.I(t.Item.DeferID))
		case resolve.DeferTreeNodeKindSequence:
			items := []string{"seq"}
			for _, c := range t.ChildNodes {
				items = append(items, f(c))
			}
			return common.L(items...)
		default:
			items := []string{"par"}
			for _, c := range t.ChildNodes {
				items = append(items, f(c))
			}
			return common.L(items...)
		}
	}
	return common.L("some", f(t))
}

// ---------------------------------------------------------------- the real resolver

// build sets Field.Defer on the real resolve tree by walking both trees in parallel.
func (p *DPlan) build(n *gplan.Node, rn resolve.Node) {
	switch n.Kind {
	case gplan.KObj:
		o := rn.(*resolve.Object)
		for i, f := range n.Fields {
			if id, ok := p.Defer[f]; ok {
				o.Fields[i].Defer = &resolve.DeferField{DeferID: id}
			}
			p.build(f.Value, o.Fields[i].Value)
		}
	case gplan.KArr:
		p.build(n.Item, rn.(*resolve.Array).Item)
	}
}

// gateSource is a scripted data source: Load blocks until the coordinator releases it.
type gateSource struct {
	co   *coordinator
	id   int // defer id, 0 = primary
	data []byte
}

type coordinator struct {
	mu       sync.Mutex
	blocked  map[int]chan struct{}
	lastEv   time.Time
	inflight int
}

func (s *gateSource) Load(ctx context.Context, headers http.Header, input []byte) ([]byte, error) {
	if s.id != 0 && s.co != nil {
		ch := make(chan struct{})
		s.co.mu.Lock()
		s.co.blocked[s.id] = ch
		s.co.lastEv = time.Now()
		s.co.mu.Unlock()
		select {
		case <-ch:
		case <-ctx.Done():
			return nil, ctx.Err()
		}
		s.co.mu.Lock()
		s.co.inflight--
		s.co.lastEv = time.Now()
		s.co.mu.Unlock()
	}
	return s.data, nil
}

func (s *gateSource) LoadWithFiles(ctx context.Context, headers http.Header, input []byte, files []*httpclient.FileUpload) ([]byte, error) {
	return s.Load(ctx, headers, input)
}

// DRun is one execution of a hand-built deferred plan through the real Resolver.
type DRun struct {
	Err      error
	Panic    string
	Rec      *Recorder
	Tree     *resolve.DeferTreeNode
	Released []int // defer ids in the order their fetch was released
	TimedOut bool
}

var (
	resolverOnce sync.Once
	theResolver  *resolve.Resolver
)

func resolver() *resolve.Resolver {
	resolverOnce.Do(func() {
		theResolver = resolve.New(context.Background(), resolve.ResolverOptions{
			MaxConcurrency: 1024, PropagateSubgraphErrors: true, PropagateSubgraphStatusCodes: true,
		})
	})
	return theResolver
}

// Execute builds the GraphQLDeferResponse (real extractDeferFetches + buildDeferTree through
// postprocess.Processor) and runs Resolver.ResolveGraphQLDeferResponse.  primary is the JSON
// the primary fetch returns; slices[id] what the fetch of group id returns.  choose picks the
// next group to release among the blocked ones (sorted by id).
func (p *DPlan) Execute(primary string, slices map[int]string, choose func(step int, blocked []int) int) *DRun {
	out := &DRun{Rec: &Recorder{}}
	co := &coordinator{blocked: map[int]chan struct{}{}, lastEv: time.Now()}
	obj := p.Root.Build().(*resolve.Object)
	p.build(p.Root, obj)
	descs := map[int]resolve.DeferDescriptor{}
	rateFail, authFail := map[string]bool{}, map[string]bool{}
	var raw []*resolve.FetchItem
	raw = append(raw, &resolve.FetchItem{Fetch: &resolve.SingleFetch{
		FetchDependencies:  resolve.FetchDependencies{FetchID: 0},
		FetchConfiguration: resolve.FetchConfiguration{DataSource: &gateSource{id: 0, data: []byte(primary)}},
	}})
	for _, d := range p.Descs {
		var path []string
		if len(d.Path) > 0 {
			path = d.Path
		}
		descs[d.ID] = resolve.DeferDescriptor{ID: d.ID, ParentID: d.Parent, Label: d.Label, Path: path}
		if p.NoFetch[d.ID] {
			continue
		}
		body := "{}"
		if s, ok := slices[d.ID]; ok {
			body = s
		}
		sf := &resolve.SingleFetch{
			FetchDependencies:  resolve.FetchDependencies{FetchID: d.ID, DeferID: d.ID},
			FetchConfiguration: resolve.FetchConfiguration{DataSource: &gateSource{co: co, id: d.ID, data: []byte(body)}},
		}
		switch p.Fail[d.ID] {
		case FailRate:
			ds := fmt.Sprintf("g%d", d.ID)
			rateFail[ds] = true
			sf.Info = &resolve.FetchInfo{DataSourceID: ds, DataSourceName: ds, OperationType: ast.OperationTypeQuery}
		case FailAuth:
			ds := fmt.Sprintf("g%d", d.ID)
			authFail[ds] = true
			sf.Info = &resolve.FetchInfo{DataSourceID: ds, DataSourceName: ds, OperationType: ast.OperationTypeMutation,
				RootFields: []resolve.GraphCoordinate{{TypeName: "Mutation", FieldName: "f", HasAuthorizationRule: true}}}
		case FailMerge:
			sf.DataSource = &gateSource{co: co, id: d.ID, data: []byte(`[1]`)}
		}
		raw = append(raw, &resolve.FetchItem{Fetch: sf})
	}
	resp := &resolve.GraphQLDeferResponse{
		Response: &resolve.GraphQLResponse{
			Data: obj, RawFetches: raw,
			Info: &resolve.GraphQLResponseInfo{OperationType: ast.OperationTypeQuery},
		},
		DeferDescriptors: descs,
	}
	proc := postprocess.NewProcessor(
		postprocess.DisableDeduplicateSingleFetches(), postprocess.DisableMergeFields(),
		postprocess.DisableAddMissingNestedDependencies(), postprocess.DisableCollectAuthorizationCoordinates(),
		postprocess.DisableCreateConcreteSingleFetchTypes(), postprocess.DisableResolveInputTemplates())
	func() {
		defer func() {
			if r := recover(); r != nil {
				out.Panic = fmt.Sprint("postprocess: ", r)
			}
		}()
		proc.Process(&plan.DeferResponsePlan{Response: resp})
	}()
	if out.Panic != "" {
		return out
	}
	out.Tree = resp.DeferTree

	ctx, cancel := context.WithTimeout(context.Background(), 1500*time.Millisecond)
	defer cancel()
	out.Rec.onEvent = func(string) {
		co.mu.Lock()
		co.lastEv = time.Now()
		co.mu.Unlock()
	}
	if p.Window {
		out.Rec.SlowFlush = func(w *Recorder, nflush int) {
			// a slow Flush: meanwhile one more blocked group (if any shows up) gets its answer.  Under the
			// DataBuffer lock that group can only queue up behind the lock; the Flush ends a moment after its
			// Load returned, or as soon as somebody else has written and flushed.
			t0 := time.Now()
			released := false
			var idleSince time.Time
			for time.Since(t0) < 4*time.Millisecond {
				if w.Foreign() > 0 {
					// another group is writing: give it the time to flush as well (bounded)
					t1 := time.Now()
					for w.FlushCalls() <= nflush+1 && time.Since(t1) < 2*time.Millisecond {
						time.Sleep(20 * time.Microsecond)
					}
					return
				}
				co.mu.Lock()
				co.lastEv = time.Now() // keeps the ordinary release loop out of the way
				if !released && len(co.blocked) > 0 {
					var ids []int
					for id := range co.blocked {
						ids = append(ids, id)
					}
					sort.Ints(ids)
					id := ids[choose(1000+nflush, ids)%len(ids)]
					co.inflight++
					close(co.blocked[id])
					delete(co.blocked, id)
					out.Released = append(out.Released, id)
					released = true
				}
				idle := released && co.inflight == 0
				co.mu.Unlock()
				if idle {
					if idleSince.IsZero() {
						idleSince = time.Now()
					} else if time.Since(idleSince) > 500*time.Microsecond {
						return
					}
				}
				if !released && time.Since(t0) > 700*time.Microsecond {
					return
				}
				time.Sleep(20 * time.Microsecond)
			}
		}
	}
	finished := make(chan struct{})
	go func() {
		defer close(finished)
		defer func() {
			if r := recover(); r != nil {
				out.Panic = fmt.Sprint(r)
			}
		}()
		rctx := resolve.NewContext(ctx)
		if len(rateFail) > 0 {
			rctx.RateLimitOptions = resolve.RateLimitOptions{Enable: true}
			rctx.SetRateLimiter(&failLimiter{ids: rateFail})
		}
		if len(authFail) > 0 {
			rctx.SetAuthorizer(&failAuthorizer{ids: authFail})
		}
		_, out.Err = resolver().ResolveGraphQLDeferResponse(rctx, resp, out.Rec)
	}()
	step := 0
loop:
	for {
		select {
		case <-finished:
			break loop
		case <-ctx.Done():
			out.TimedOut = true
			co.mu.Lock()
			for id, ch := range co.blocked {
				close(ch)
				delete(co.blocked, id)
			}
			co.mu.Unlock()
			<-finished
			break loop
		case <-time.After(200 * time.Microsecond):
		}
		co.mu.Lock()
		if len(co.blocked) > 0 && co.inflight == 0 && time.Since(co.lastEv) >= 800*time.Microsecond {
			var ids []int
			for id := range co.blocked {
				ids = append(ids, id)
			}
			sort.Ints(ids)
			k := choose(step, ids) % len(ids)
			step++
			id := ids[k]
			co.inflight++
			close(co.blocked[id])
			delete(co.blocked, id)
			out.Released = append(out.Released, id)
			co.lastEv = time.Now()
		}
		co.mu.Unlock()
	}
	return out
}

// ---------------------------------------------------------------- frames for the comparison

func errKind(msg string) int {
	switch {
	case strings.HasPrefix(msg, "Cannot return null for non-nullable field"):
		return 1
	case strings.HasPrefix(msg, "Object cannot represent non-object value"):
		return 2
	case strings.Contains(msg, "for __typename field"):
		return 3
	case strings.HasPrefix(msg, "String cannot represent non-string value"):
		return 4
	case strings.HasPrefix(msg, "Bool cannot represent non-boolean value"):
		return 5
	case strings.HasPrefix(msg, "Int cannot represent non-integer value"):
		return 6
	case strings.HasPrefix(msg, "Float cannot represent non-float value"):
		return 7
	case strings.HasPrefix(msg, "Enum \""):
		return 8
	case strings.HasPrefix(msg, "Invalid value found for"):
		return 9
	case strings.HasPrefix(msg, "Array cannot represent non-array value"):
		return 10
	}
	return 99
}

func abstractErrors(raw string) string {
	var items []string
	gjson.Parse(raw).ForEach(func(_, item gjson.Result) bool {
		var ps []string
		item.Get("path").ForEach(func(_, pe gjson.Result) bool {
			if pe.Type == gjson.String {
				ps = append(ps, pe.Raw)
			} else {
				ps = append(ps, strconv.Itoa(int(pe.Int())))
			}
			return true
		})
		items = append(items, fmt.Sprintf(`{"k":%d,"path":[%s]}`, errKind(item.Get("message").String()), strings.Join(ps, ",")))
		return true
	})
	return "[" + strings.Join(items, ",") + "]"
}

// AbstractFrame replaces every errors array of a frame (top level, incremental items, completed
// entries; never below a "data" member) by its (kind, path) abstraction, leaving every other
// byte untouched.
func AbstractFrame(frame []byte) string {
	s := string(frame)
	if !gjson.Valid(s) {
		return s
	}
	var sb strings.Builder
	pos := 0
	skipWS := func() {
		for pos < len(s) && (s[pos] == ' ' || s[pos] == '\n' || s[pos] == '\t' || s[pos] == '\r') {
			pos++
		}
	}
	// scanString returns the raw text of the string token at pos
	scanString := func() string {
		st := pos
		pos++
		for pos < len(s) && s[pos] != '"' {
			if s[pos] == '\\' {
				pos++
			}
			pos++
		}
		pos++
		return s[st:pos]
	}
	// rawValue returns the raw text of the value at pos (no rewriting)
	var rawValue func() string
	rawValue = func() string {
		skipWS()
		st := pos
		switch s[pos] {
		case '"':
			scanString()
		case '{', '[':
			depth := 0
			for pos < len(s) {
				c := s[pos]
				if c == '"' {
					scanString()
					continue
				}
				if c == '{' || c == '[' {
					depth++
				}
				if c == '}' || c == ']' {
					depth--
					if depth == 0 {
						pos++
						break
					}
				}
				pos++
			}
		default:
			for pos < len(s) && !strings.ContainsRune(",}] \n\t\r", rune(s[pos])) {
				pos++
			}
		}
		return s[st:pos]
	}
	var value func()
	value = func() {
		skipWS()
		switch s[pos] {
		case '{':
			sb.WriteByte('{')
			pos++
			first := true
			for {
				skipWS()
				if s[pos] == '}' {
					pos++
					sb.WriteByte('}')
					return
				}
				if !first {
					pos++ // ','
					sb.WriteByte(',')
					skipWS()
				}
				first = false
				key := scanString()
				sb.WriteString(key)
				skipWS()
				pos++ // ':'
				sb.WriteByte(':')
				switch key {
				case `"errors"`:
					sb.WriteString(abstractErrors(rawValue()))
				case `"data"`:
					sb.WriteString(rawValue())
				default:
					value()
				}
			}
		case '[':
			sb.WriteByte('[')
			pos++
			first := true
			for {
				skipWS()
				if s[pos] == ']' {
					pos++
					sb.WriteByte(']')
					return
				}
				if !first {
					pos++
					sb.WriteByte(',')
				}
				first = false
				value()
			}
		default:
			sb.WriteString(rawValue())
		}
	}
	value()
	return sb.String()
}

// ---------------------------------------------------------------- data slices

// Slices splits the full payload into what the primary fetch and each group's fetch return:
// layer L keeps the fields marked L (their values restricted to layer L) plus the skeleton
// (objects, lists, __typename) of the unmarked / other-layer fields on the way.
func (p *DPlan) Slices(payload string) (string, map[int]string, error) {
	v, err := astjson.Parse(payload)
	if err != nil {
		return "", nil, err
	}
	out := map[int]string{}
	for _, d := range p.Descs {
		out[d.ID] = p.slice(d.ID, p.Root, v, false)
	}
	return p.slice(0, p.Root, v, false), out, nil
}

func (p *DPlan) slice(layer int, n *gplan.Node, v *astjson.Value, inside bool) string {
	if v == nil {
		return "null"
	}
	switch n.Kind {
	case gplan.KObj:
		if v.Type() != astjson.TypeObject {
			if inside {
				return string(v.MarshalTo(nil))
			}
			return "null"
		}
		var ms []string
		if tn := v.Get("__typename"); tn != nil {
			ms = append(ms, `"__typename":`+string(tn.MarshalTo(nil)))
		}
		seen := map[string]bool{"__typename": true}
		for _, f := range n.Fields {
			if len(f.Value.Path) != 1 {
				continue
			}
			k := f.Value.Path[0]
			if seen[k] {
				continue
			}
			cv := v.Get(k)
			if cv == nil {
				continue
			}
			id := p.Defer[f]
			switch {
			case id == layer:
				seen[k] = true
				ms = append(ms, strconv.Quote(k)+":"+p.sliceValue(layer, f.Value, cv, true))
			case f.Value.Kind == gplan.KObj || (f.Value.Kind == gplan.KArr && innermost(f.Value).Kind == gplan.KObj):
				seen[k] = true
				ms = append(ms, strconv.Quote(k)+":"+p.sliceValue(layer, f.Value, cv, false))
			}
		}
		return "{" + strings.Join(ms, ",") + "}"
	case gplan.KArr:
		return p.sliceValue(layer, n, v, inside)
	}
	return string(v.MarshalTo(nil))
}

// sliceValue: the value of a field (the node's own path was already applied by the caller)
func (p *DPlan) sliceValue(layer int, n *gplan.Node, v *astjson.Value, inside bool) string {
	switch n.Kind {
	case gplan.KObj:
		cp := *n
		cp.Path = nil
		return p.slice(layer, &cp, v, inside)
	case gplan.KArr:
		if v.Type() != astjson.TypeArray {
			if inside {
				return string(v.MarshalTo(nil))
			}
			return "null"
		}
		var items []string
		for _, it := range v.GetArray() {
			items = append(items, p.sliceValue(layer, n.Item, it, inside))
		}
		return "[" + strings.Join(items, ",") + "]"
	}
	if inside {
		return string(v.MarshalTo(nil))
	}
	return "null"
}

func innermost(n *gplan.Node) *gplan.Node {
	for n.Kind == gplan.KArr {
		n = n.Item
	}
	return n
}
