package c10lab

import (
	"bytes"
	"encoding/json"
	"fmt"
	"io"
	"sort"
	"strconv"
	"strings"

	fl "gvh/fedlab"
)

// ---------------------------------------------------------------- frames

type Pending struct {
	ID    string
	Path  []string
	Label string
}

type Incr struct {
	ID      string
	Data    *fl.J
	SubPath []*fl.J // strings (object keys) and numbers (list indices)
	Errors  bool
}

type Completed struct {
	ID     string
	Errors bool
}

type Frame struct {
	Raw       []byte
	J         *fl.J
	ParseErr  string
	Data      *fl.J // initial frame: the data member
	HasData   bool
	Errors    bool
	Pending   []Pending
	Incr      []Incr
	Completed []Completed
	HasNext   int // -1 absent, 0 false, 1 true
	Shape     string
}

// ParseFrame: one frame must be exactly one JSON document (frames_whole).
func ParseFrame(raw []byte) *Frame {
	f := &Frame{Raw: raw, HasNext: -1}
	dec := json.NewDecoder(bytes.NewReader(raw))
	var tmp json.RawMessage
	if err := dec.Decode(&tmp); err != nil {
		f.ParseErr = "not a JSON document: " + err.Error()
		return f
	}
	if _, err := dec.Token(); err != io.EOF {
		f.ParseErr = "more than one JSON document in a frame"
		return f
	}
	j, err := fl.ParseJSON(raw)
	if err != nil || j.Kind != fl.JObj {
		f.ParseErr = "frame is not a JSON object"
		return f
	}
	f.J = j
	seen := map[string]bool{}
	for _, m := range j.Members {
		if seen[m.Key] {
			f.ParseErr = "duplicate member " + m.Key
			return f
		}
		seen[m.Key] = true
		switch m.Key {
		case "data":
			f.Data, f.HasData = m.Val, true
		case "errors":
			f.Errors = m.Val.Kind == fl.JArr && len(m.Val.Items) > 0
		case "hasNext":
			switch m.Val.Kind {
			case fl.JTrue:
				f.HasNext = 1
			case fl.JFalse:
				f.HasNext = 0
			default:
				f.ParseErr = "hasNext is not a boolean"
			}
		case "pending":
			if m.Val.Kind != fl.JArr {
				f.ParseErr = "pending is not a list"
				return f
			}
			for _, p := range m.Val.Items {
				id := p.Get("id")
				path := p.Get("path")
				if id == nil || id.Kind != fl.JStr || path == nil || path.Kind != fl.JArr {
					f.ParseErr = "malformed pending entry"
					return f
				}
				pe := Pending{ID: id.Raw}
				for _, s := range path.Items {
					if s.Kind != fl.JStr {
						f.ParseErr = "pending path element is not a string"
						return f
					}
					pe.Path = append(pe.Path, s.Raw)
				}
				if l := p.Get("label"); l != nil {
					pe.Label = l.Raw
				}
				f.Pending = append(f.Pending, pe)
			}
		case "incremental":
			if m.Val.Kind != fl.JArr {
				f.ParseErr = "incremental is not a list"
				return f
			}
			for _, it := range m.Val.Items {
				id := it.Get("id")
				data := it.Get("data")
				if id == nil || id.Kind != fl.JStr || data == nil {
					f.ParseErr = "malformed incremental item"
					return f
				}
				in := Incr{ID: id.Raw, Data: data}
				if sp := it.Get("subPath"); sp != nil {
					if sp.Kind != fl.JArr {
						f.ParseErr = "subPath is not a list"
						return f
					}
					in.SubPath = sp.Items
				}
				if e := it.Get("errors"); e != nil {
					in.Errors = true
				}
				f.Incr = append(f.Incr, in)
			}
		case "completed":
			if m.Val.Kind != fl.JArr {
				f.ParseErr = "completed is not a list"
				return f
			}
			for _, c := range m.Val.Items {
				id := c.Get("id")
				if id == nil || id.Kind != fl.JStr {
					f.ParseErr = "malformed completed entry"
					return f
				}
				f.Completed = append(f.Completed, Completed{ID: id.Raw, Errors: c.Get("errors") != nil})
			}
		case "extensions":
		default:
			f.ParseErr = "unexpected member " + m.Key
		}
	}
	return f
}

// Stream is everything observed on the writer for one execution.
type Stream struct {
	Frames     []*Frame
	Flushes    [][]*Frame // per Flush call: the JSON documents it handed over (SplitFlush)
	Foreign    int        // writer calls that arrived while a Flush was in progress
	Completes  int
	Unflushed  int
	AfterDone  bool
	TimedOut   bool
	ExecErr    string
	Incomplete bool
}

func StreamOf(run *Run) *Stream {
	s := &Stream{Completes: run.Rec.Completes, Unflushed: len(run.Rec.Unflushed()), AfterDone: run.Rec.AfterDone, TimedOut: run.TimedOut}
	if run.Err != nil {
		s.ExecErr = strings.Join(strings.Fields(run.Err.Error()), " ") // one line (several reports are joined by newlines)
	}
	for _, raw := range run.Rec.Frames {
		s.Frames = append(s.Frames, ParseFrame(raw))
		s.Flushes = append(s.Flushes, SplitFlush(raw))
	}
	s.Foreign = run.Rec.Foreign()
	// a synchronous (non-deferred) response is written without any Flush
	if len(s.Frames) == 0 && s.Unflushed > 0 && s.Completes == 0 {
		s.Frames = append(s.Frames, ParseFrame(run.Rec.Unflushed()))
		s.Unflushed = 0
	}
	return s
}

// SplitFlush: the JSON documents one Flush handed over, each parsed as a frame.  Nothing at all gives
// the empty list; bytes that are not the start of a JSON document end the list with a frame that
// carries the parse error.
func SplitFlush(raw []byte) []*Frame {
	var out []*Frame
	dec := json.NewDecoder(bytes.NewReader(raw))
	for {
		var tmp json.RawMessage
		err := dec.Decode(&tmp)
		if err == io.EOF {
			return out
		}
		if err != nil {
			return append(out, &Frame{Raw: raw, HasNext: -1, ParseErr: "not a JSON document: " + err.Error()})
		}
		out = append(out, ParseFrame(tmp))
	}
}

// CheckFlushes (clause flush_atomic; Go twin of the extracted flushes_ok_b): render + flush of one frame is
// one critical section, so every Flush hands over exactly one frame -- never nothing, never two -- no
// writer call arrives while a Flush is in progress, and nothing is flushed after the frame that said hasNext:false.
func CheckFlushes(s *Stream) []Fail {
	var out []Fail
	bad := func(format string, a ...any) { out = append(out, Fail{"flush_atomic", fmt.Sprintf(format, a...)}) }
	final := -1
	for i, fl := range s.Flushes {
		if final >= 0 {
			bad("flush %d comes after the final frame (hasNext:false was handed over by flush %d)", i, final)
		}
		switch {
		case len(fl) == 0:
			bad("flush %d hands over nothing (an empty payload)", i)
		case len(fl) > 1:
			bad("flush %d hands over %d frames at once: %s", i, len(fl), trunc(string(s.Frames[i].Raw), 300))
		}
		for _, f := range fl {
			if f.ParseErr == "" && f.HasNext == 0 && final < 0 {
				final = i
			}
		}
	}
	if s.Foreign > 0 {
		bad("%d writer call(s) arrived while a Flush was in progress (render + flush is not one critical section)", s.Foreign)
	}
	return out
}

// Fail is one failed clause.
type Fail struct{ Clause, Detail string }

// CheckFramesWhole: each flushed frame is one valid JSON document of the expected shape, nothing
// is left unflushed, nothing happens after Complete.
func CheckFramesWhole(s *Stream) []Fail {
	var out []Fail
	for i, f := range s.Frames {
		if f.ParseErr != "" {
			out = append(out, Fail{"frames_whole", fmt.Sprintf("frame %d: %s: %s", i, f.ParseErr, trunc(string(f.Raw), 300))})
		}
	}
	if s.Unflushed > 0 {
		out = append(out, Fail{"frames_whole", fmt.Sprintf("%d bytes written after the last flush", s.Unflushed)})
	}
	if s.AfterDone {
		out = append(out, Fail{"frames_whole", "writer used after Complete"})
	}
	return out
}

// CheckProtocol is the Go twin of the extracted Coq checker stream_ok_b (the driver runs that one
// on the same frames; both verdicts must agree).
func CheckProtocol(s *Stream) []Fail {
	var out []Fail
	bad := func(format string, a ...any) { out = append(out, Fail{"stream_protocol", fmt.Sprintf(format, a...)}) }
	if s.TimedOut {
		bad("terminates: the execution did not finish (timeout)")
	}
	if len(s.Frames) == 0 {
		bad("no frame at all (exec error: %s)", s.ExecErr)
		return out
	}
	if len(s.Frames) > 1 || s.Frames[0].HasNext >= 0 {
		if s.Completes != 1 {
			bad("terminates: Complete called %d times", s.Completes)
		}
	}
	announced := map[string]int{}
	completed := map[string]int{}
	for i, f := range s.Frames {
		if f.ParseErr != "" {
			continue
		}
		last := i == len(s.Frames)-1
		if i == 0 {
			if !f.HasData && !f.Errors {
				bad("initial frame has neither data nor errors")
			}
			if len(f.Incr) > 0 || len(f.Completed) > 0 {
				bad("initial frame carries incremental/completed")
			}
		} else {
			if f.HasData {
				bad("frame %d carries a data member", i)
			}
			if len(f.Completed) == 0 {
				bad("frame %d completes nothing", i)
			}
		}
		for _, in := range f.Incr {
			if _, ok := announced[in.ID]; !ok {
				bad("frame %d delivers incremental data for unannounced id %s", i, in.ID)
			} else if _, done := completed[in.ID]; done {
				bad("frame %d delivers incremental data for already completed id %s", i, in.ID)
			}
		}
		for _, c := range f.Completed {
			if _, ok := announced[c.ID]; !ok {
				bad("frame %d completes unannounced id %s", i, c.ID)
			}
			if _, done := completed[c.ID]; done {
				bad("frame %d completes id %s a second time", i, c.ID)
			}
			completed[c.ID] = i
		}
		for _, p := range f.Pending {
			if _, ok := announced[p.ID]; ok {
				bad("frame %d announces id %s a second time", i, p.ID)
			}
			announced[p.ID] = i
		}
		if len(s.Frames) == 1 && f.HasNext < 0 {
			// a plain (non-incremental) response
			if len(f.Pending) > 0 {
				bad("plain response announces pending ids")
			}
			continue
		}
		switch {
		case f.HasNext < 0:
			bad("frame %d has no hasNext", i)
		case last && f.HasNext == 1:
			bad("hasNext is true on the last frame (%d)", i)
		case !last && f.HasNext == 0:
			bad("hasNext is false on frame %d which is not the last (%d frames)", i, len(s.Frames))
		}
	}
	var open []string
	for id := range announced {
		if _, ok := completed[id]; !ok {
			open = append(open, id)
		}
	}
	sort.Strings(open)
	if len(open) > 0 {
		bad("announced but never completed: %s", strings.Join(open, ","))
	}
	return out
}

// ---------------------------------------------------------------- the merger

func clone(j *fl.J) *fl.J {
	if j == nil {
		return nil
	}
	c := &fl.J{Kind: j.Kind, Raw: j.Raw}
	for _, x := range j.Items {
		c.Items = append(c.Items, clone(x))
	}
	for _, m := range j.Members {
		c.Members = append(c.Members, fl.Member{Key: m.Key, Val: clone(m.Val)})
	}
	return c
}

func pathString(p []string, sub []*fl.J) string {
	var parts []string
	for _, s := range p {
		parts = append(parts, s)
	}
	for _, s := range sub {
		parts = append(parts, s.String())
	}
	return "/" + strings.Join(parts, "/")
}

// mergeInto adds the members of src to the object dst; an existing key is merged recursively
// (objects member-wise, lists element-wise); two different leaves at one position are a conflict.
func mergeInto(dst, src *fl.J, where string) error {
	if dst.Kind != fl.JObj || src.Kind != fl.JObj {
		return fmt.Errorf("%s: not an object on both sides", where)
	}
	for _, m := range src.Members {
		cur := dst.Get(m.Key)
		if cur == nil {
			dst.Members = append(dst.Members, fl.Member{Key: m.Key, Val: clone(m.Val)})
			continue
		}
		if err := mergeValue(cur, m.Val, where+"/"+m.Key); err != nil {
			return err
		}
	}
	return nil
}

func mergeValue(cur, src *fl.J, where string) error {
	switch {
	case cur.Kind == fl.JObj && src.Kind == fl.JObj:
		return mergeInto(cur, src, where)
	case cur.Kind == fl.JArr && src.Kind == fl.JArr:
		if len(cur.Items) != len(src.Items) {
			return fmt.Errorf("%s: lists of different lengths", where)
		}
		for i := range cur.Items {
			if err := mergeValue(cur.Items[i], src.Items[i], where+"/"+strconv.Itoa(i)); err != nil {
				return err
			}
		}
		return nil
	default:
		if !cur.Equal(src) {
			return fmt.Errorf("%s: conflicting values %s / %s", where, trunc(cur.String(), 60), trunc(src.String(), 60))
		}
		return nil
	}
}

// Reconstruct applies every incremental item to the initial data at pending.path ++ subPath.
func Reconstruct(s *Stream) (*fl.J, []Fail) {
	var fails []Fail
	if len(s.Frames) == 0 || s.Frames[0].ParseErr != "" {
		return nil, []Fail{{"reconstruct", "no parsable initial frame"}}
	}
	data := clone(s.Frames[0].Data)
	paths := map[string][]string{}
	for _, f := range s.Frames {
		if f.ParseErr != "" {
			continue
		}
		for _, in := range f.Incr {
			p, ok := paths[in.ID]
			if !ok {
				fails = append(fails, Fail{"reconstruct", "incremental item for an id without a pending path: " + in.ID})
				continue
			}
			where := pathString(p, in.SubPath)
			cur := data
			okNav := true
			for _, k := range p {
				if cur == nil || cur.Kind != fl.JObj || cur.Get(k) == nil {
					okNav = false
					break
				}
				cur = cur.Get(k)
			}
			for _, el := range in.SubPath {
				if !okNav {
					break
				}
				switch el.Kind {
				case fl.JStr:
					if cur.Kind != fl.JObj || cur.Get(el.Raw) == nil {
						okNav = false
					} else {
						cur = cur.Get(el.Raw)
					}
				case fl.JNum:
					i, err := strconv.Atoi(el.Raw)
					if err != nil || cur.Kind != fl.JArr || i < 0 || i >= len(cur.Items) {
						okNav = false
					} else {
						cur = cur.Items[i]
					}
				default:
					okNav = false
				}
			}
			if !okNav || cur == nil {
				fails = append(fails, Fail{"reconstruct", "path ++ subPath addresses nothing in the data delivered so far: " + where})
				continue
			}
			if cur.Kind != fl.JObj {
				fails = append(fails, Fail{"reconstruct", "path ++ subPath addresses a non-object: " + where + " = " + trunc(cur.String(), 60)})
				continue
			}
			if err := mergeInto(cur, in.Data, where); err != nil {
				fails = append(fails, Fail{"reconstruct", "merge: " + err.Error()})
			}
		}
		for _, p := range f.Pending {
			paths[p.ID] = p.Path
		}
	}
	return data, fails
}

// FailedAnchors: descriptor paths of the defers that reported errors: completed with errors (no
// data) or delivered with errors on an incremental item (a null may have bubbled inside the
// fragment, beyond what the item shows).
func FailedAnchors(s *Stream) [][]string {
	paths := map[string][]string{}
	var out [][]string
	for _, f := range s.Frames {
		for _, c := range f.Completed {
			if c.Errors {
				out = append(out, paths[c.ID])
			}
		}
		for _, in := range f.Incr {
			if in.Errors {
				out = append(out, paths[in.ID])
			}
		}
		for _, p := range f.Pending {
			paths[p.ID] = p.Path
		}
	}
	return out
}

func isPrefix(a, b []string) bool {
	if len(a) > len(b) {
		return false
	}
	for i := range a {
		if a[i] != b[i] {
			return false
		}
	}
	return true
}

// Compare ref (the non-deferred result) with rec (the reconstruction).  Object members are
// compared as sets (the merge appends deferred members after the initial ones).  With failed
// defers: rec may lack members at or below a failed anchor, and ref may be null at a position
// from which a failed anchor is reached (the failure bubbled up to there in the one-shot
// execution).  Returns "" when equal.
func Compare(ref, rec *fl.J, failed [][]string) string {
	return cmp(ref, rec, nil, failed)
}

func cmp(ref, rec *fl.J, pos []string, failed [][]string) string {
	at := "/" + strings.Join(pos, "/")
	names := make([]string, 0, len(pos))
	for _, p := range pos {
		if _, err := strconv.Atoi(p); err != nil {
			names = append(names, p)
		}
	}
	if ref == nil || rec == nil {
		if ref == rec {
			return ""
		}
		return at + ": one side absent"
	}
	if ref.Kind == fl.JNull && rec.Kind != fl.JNull {
		for _, a := range failed {
			// anchors are cut at the outermost list, so a position below the anchor may also be
			// the place the failure bubbled to
			if isPrefix(names, a) || isPrefix(a, names) {
				return ""
			}
		}
		return at + ": null without @defer, " + trunc(rec.String(), 80) + " reconstructed"
	}
	if ref.Kind != rec.Kind {
		return at + ": " + trunc(ref.String(), 80) + " without @defer, " + trunc(rec.String(), 80) + " reconstructed"
	}
	switch ref.Kind {
	case fl.JObj:
		for _, m := range ref.Members {
			v := rec.Get(m.Key)
			if v == nil {
				ok := false
				for _, a := range failed {
					if isPrefix(a, names) {
						ok = true
					}
				}
				if !ok {
					return at + ": member " + m.Key + " missing in the reconstruction"
				}
				continue
			}
			if d := cmp(m.Val, v, append(append([]string{}, pos...), m.Key), failed); d != "" {
				return d
			}
		}
		for _, m := range rec.Members {
			if ref.Get(m.Key) == nil {
				return at + ": extra member " + m.Key + " in the reconstruction"
			}
		}
		seen := map[string]bool{}
		for _, m := range rec.Members {
			if seen[m.Key] {
				return at + ": duplicate member " + m.Key + " in the reconstruction"
			}
			seen[m.Key] = true
		}
	case fl.JArr:
		if len(ref.Items) != len(rec.Items) {
			return fmt.Sprintf("%s: list length %d without @defer, %d reconstructed", at, len(ref.Items), len(rec.Items))
		}
		for i := range ref.Items {
			if d := cmp(ref.Items[i], rec.Items[i], append(append([]string{}, pos...), strconv.Itoa(i)), failed); d != "" {
				return d
			}
		}
	default:
		if !ref.Equal(rec) {
			return at + ": " + trunc(ref.String(), 80) + " without @defer, " + trunc(rec.String(), 80) + " reconstructed"
		}
	}
	return ""
}

func trunc(s string, n int) string {
	if len(s) <= n {
		return s
	}
	return s[:n] + "..."
}

// ---------------------------------------------------------------- diagnosis of a mismatch position

// Silent counts the defers that were completed without any incremental item and without errors.
func Silent(s *Stream) (silent, failed int) {
	for i, f := range s.Frames {
		if i == 0 || f.ParseErr != "" {
			continue
		}
		for _, c := range f.Completed {
			if c.Errors {
				failed++
				continue
			}
			has := false
			for _, in := range f.Incr {
				if in.ID == c.ID {
					has = true
				}
			}
			if !has {
				silent++
			}
		}
	}
	return
}

// DiagnosePosition classifies the position "/a/0/b/..." of a reconstruction mismatch against the
// supergraph: "nested-list" when a field on the way is a list of lists (the pass-through seek of
// the renderer does not enter nested lists); "typed-list" when, before the first list field, a
// field is not defined on the static type of its parent (it was selected under a type condition
// on an abstract type: deferInfoCollector.outermostListFieldIndex gives up and the descriptor
// path is not cut at the list); "" otherwise.
func DiagnosePosition(sch *fl.Schema, pos string) string {
	var names []string
	for _, p := range strings.Split(strings.Trim(pos, "/"), "/") {
		if p == "" {
			continue
		}
		if _, err := strconv.Atoi(p); err == nil {
			continue
		}
		names = append(names, p)
	}
	// the static type of a position is not unique under type conditions: try every possible type
	type state struct {
		typ     string
		unknown bool // a field on the way was not defined on the static parent type
	}
	cur := []state{{typ: sch.Query}}
	sawList := false
	result := ""
	for _, n := range names {
		var next []state
		for _, st := range cur {
			td := sch.Type(st.typ)
			if td == nil {
				continue
			}
			if fd := td.Field(n); fd != nil {
				if fd.Type.IsList() {
					if fd.Type.Nullable().Of.IsList() {
						result = "nested-list"
					}
					if st.unknown && !sawList && result == "" {
						result = "typed-list"
					}
					sawList = true
				}
				next = append(next, state{typ: fd.Type.Base(), unknown: st.unknown})
				continue
			}
			// not on the static type: look at the possible types
			for _, pt := range sch.PossibleTypes(st.typ) {
				if ptd := sch.Type(pt); ptd != nil {
					if fd := ptd.Field(n); fd != nil {
						if fd.Type.IsList() {
							if fd.Type.Nullable().Of.IsList() {
								result = "nested-list"
							} else if !sawList && result == "" {
								result = "typed-list"
							}
							sawList = true
						}
						next = append(next, state{typ: fd.Type.Base(), unknown: true})
					}
				}
			}
		}
		cur = next
	}
	return result
}
