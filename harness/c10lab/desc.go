package c10lab

import (
	"bytes"
	"encoding/json"
	"fmt"
	"sort"
	"strconv"
	"strings"

	"github.com/wundergraph/graphql-go-tools/execution/graphql"
	"github.com/wundergraph/graphql-go-tools/v2/pkg/ast"
	"github.com/wundergraph/graphql-go-tools/v2/pkg/astnormalization"
	"github.com/wundergraph/graphql-go-tools/v2/pkg/astvalidation"
	"github.com/wundergraph/graphql-go-tools/v2/pkg/engine/plan"
	"github.com/wundergraph/graphql-go-tools/v2/pkg/engine/resolve"
	"github.com/wundergraph/graphql-go-tools/v2/pkg/operationreport"

	"gvh/common"
	fl "gvh/fedlab"
)

// ---------------------------------------------------------------- plan-level observable: DeferDescriptors
//
// The descriptor path of a @defer is computed at planning time (plan/defer_info_collector.go) from the
// ancestors of the selection set in which the defer id is met first, cut at the outermost list-typed field.
// DescInfo pairs, for one operation, (a) the ancestor chain of every defer id, read off the NORMALISED
// document by a plain recursive walk of this file (no astvisitor.Walker, no Walker.Path), and (b) the
// DeferDescriptors the real planner produced for the same document.  The Coq function C10.DescPath.defer_path
// maps (a) to the path; the driver compares it with (b).

// Anc is one ancestor of a selection set: a field (alias "" = none) or an inline fragment (Cond "" = none).
type Anc struct {
	Field bool
	Alias string
	Name  string
	Cond  string
}

type DeferChain struct {
	ID, Parent int
	Label      string
	Chain      []Anc   // ancestors of the FIRST selection set (document order) with a direct field child of this id
	More       [][]Anc // ancestors of the later selection sets with a direct field child of this id
}

type DescInfo struct {
	Root   string // name of the root operation type
	Chains []DeferChain
	Real   []resolve.DeferDescriptor // sorted by id; nil when the plan is not a defer plan
	Kind   string                    // "defer" | "sync"
}

// normalizeLikeExecute repeats the document pipeline of ExecutionEngine.Execute up to the planner.
func (l *Lab) normalizeLikeExecute(operation, opName string, variables []byte) (*graphql.Request, error) {
	req := &graphql.Request{OperationName: opName, Query: operation}
	if len(bytes.TrimSpace(variables)) > 0 {
		req.Variables = json.RawMessage(variables)
	}
	res, err := req.Normalize(l.Schema,
		astnormalization.WithRemoveFragmentDefinitions(),
		astnormalization.WithRemoveUnusedVariables(),
		astnormalization.WithInlineFragmentSpreads(),
		astnormalization.WithEnableDefer(),
		astnormalization.WithPrevalidationRules(
			astvalidation.DeferStreamOnValidOperations(),
			astvalidation.DeferStreamHaveUniqueLabels(),
			astvalidation.DirectivesAreDefined(),
			astvalidation.DirectivesAreInValidLocations(),
			astvalidation.DirectivesAreUniquePerLocation(),
			astvalidation.StreamAppliedToListFieldsOnly()),
	)
	if err != nil {
		return nil, err
	} else if !res.Successful {
		return nil, res.Errors
	}
	if vres, err := req.ValidateForSchema(l.Schema); err != nil {
		return nil, err
	} else if !vres.Valid {
		return nil, vres.Errors
	}
	if res, err = req.Normalize(l.Schema, astnormalization.WithExtractVariables()); err != nil {
		return nil, err
	} else if !res.Successful {
		return nil, res.Errors
	}
	var report operationreport.Report
	astnormalization.NewVariablesMapper().NormalizeOperation(req.Document(), l.Schema.Document(), &report)
	if report.HasErrors() {
		return nil, report
	}
	return req, nil
}

// chainsOf walks the selection tree of the (single / named) operation in document order; for every selection
// set, the direct field children carrying @__defer_internal are looked at and the first occurrence of an id
// records the ancestors of that selection set.
func chainsOf(doc *ast.Document, opName string) []DeferChain {
	opRef := -1
	for _, n := range doc.RootNodes {
		if n.Kind != ast.NodeKindOperationDefinition {
			continue
		}
		if opName == "" || doc.OperationDefinitionNameString(n.Ref) == opName {
			opRef = n.Ref
			break
		}
	}
	if opRef < 0 || !doc.OperationDefinitions[opRef].HasSelections {
		return nil
	}
	var out []DeferChain
	seen := map[int]int{}
	var walk func(set int, chain []Anc)
	walk = func(set int, chain []Anc) {
		refs := doc.SelectionSets[set].SelectionRefs
		here := map[int]bool{}
		for _, sr := range refs {
			sel := doc.Selections[sr]
			if sel.Kind != ast.SelectionKindField {
				continue
			}
			id, label, parent, ok := doc.FieldDeferInfo(sel.Ref)
			if !ok || here[id] {
				continue
			}
			here[id] = true
			if k, ok := seen[id]; ok {
				out[k].More = append(out[k].More, append([]Anc(nil), chain...))
				continue
			}
			seen[id] = len(out)
			out = append(out, DeferChain{ID: id, Parent: parent, Label: label, Chain: append([]Anc(nil), chain...)})
		}
		for _, sr := range refs {
			sel := doc.Selections[sr]
			switch sel.Kind {
			case ast.SelectionKindField:
				if !doc.Fields[sel.Ref].HasSelections {
					continue
				}
				a := Anc{Field: true, Name: doc.FieldNameString(sel.Ref)}
				if doc.FieldAliasIsDefined(sel.Ref) {
					a.Alias = doc.FieldAliasString(sel.Ref)
				}
				walk(doc.Fields[sel.Ref].SelectionSet, append(chain, a))
			case ast.SelectionKindInlineFragment:
				if !doc.InlineFragments[sel.Ref].HasSelections {
					continue
				}
				a := Anc{}
				if doc.InlineFragmentHasTypeCondition(sel.Ref) {
					a.Cond = doc.InlineFragmentTypeConditionNameString(sel.Ref)
				}
				walk(doc.InlineFragments[sel.Ref].SelectionSet, append(chain, a))
			}
		}
	}
	walk(doc.OperationDefinitions[opRef].SelectionSet, nil)
	return out
}

// Descriptors: the chains of the normalised document and the descriptors of the real planner.
func (l *Lab) Descriptors(operation, opName string, variables []byte) (*DescInfo, error) {
	req, err := l.normalizeLikeExecute(operation, opName, variables)
	if err != nil {
		return nil, err
	}
	doc := req.Document()
	info := &DescInfo{}
	info.Chains = chainsOf(doc, opName)
	info.Root = l.Config.Super.Query
	planner, err := plan.NewPlanner(l.planConfig)
	if err != nil {
		return nil, err
	}
	var report operationreport.Report
	var p plan.Plan
	func() {
		defer func() {
			if r := recover(); r != nil {
				err = fmt.Errorf("planner panic: %v", r)
			}
		}()
		p = planner.Plan(doc, l.Schema.Document(), opName, &report)
	}()
	if err != nil {
		return nil, err
	}
	if report.HasErrors() {
		return nil, report
	}
	switch pp := p.(type) {
	case *plan.DeferResponsePlan:
		info.Kind = "defer"
		for _, d := range pp.Response.DeferDescriptors {
			info.Real = append(info.Real, d)
		}
		sort.Slice(info.Real, func(i, j int) bool { return info.Real[i].ID < info.Real[j].ID })
	default:
		info.Kind = "sync"
	}
	return info, nil
}

// SchemaSexp: what the collector reads of the supergraph: per named type the fields with (list-ness, base
// type).  Leaf types and unions are listed without fields (NodeByName finds them).
func SchemaSexp(s *fl.Schema) string {
	parts := []string{"schema"}
	names := map[string]bool{}
	for _, td := range s.Types {
		fs := []string{"ty", common.QS(td.Name)}
		for _, fd := range td.Fields {
			fs = append(fs, common.L("f", common.QS(fd.Name), common.B(fd.Type.IsList()), common.QS(fd.Type.Base())))
		}
		parts = append(parts, common.L(fs...))
		names[td.Name] = true
	}
	for _, n := range []string{"String", "Int", "Float", "Boolean", "ID"} {
		if !names[n] {
			parts = append(parts, common.L("ty", common.QS(n)))
		}
	}
	return common.L(parts...)
}

func chainSexp(chain []Anc) string {
	parts := []string{"chain"}
	for _, a := range chain {
		if a.Field {
			al := common.L("none")
			if a.Alias != "" {
				al = common.L("some", common.QS(a.Alias))
			}
			parts = append(parts, common.L("fld", al, common.QS(a.Name)))
		} else {
			parts = append(parts, common.L("frag", common.QS(a.Cond)))
		}
	}
	return common.L(parts...)
}

func candidateOf(chain []Anc) []string {
	var out []string
	for _, a := range chain {
		if !a.Field {
			continue
		}
		if a.Alias != "" {
			out = append(out, a.Alias)
		} else {
			out = append(out, a.Name)
		}
	}
	return out
}

// InconsistentAnchors: the descriptor paths (real planner) that are not a prefix of the response position of
// every selection set holding fields of that defer -- the renderer's subPath ("runtime path minus the matched
// prefix of the descriptor path") then does not compose with the pending path.
func (i *DescInfo) InconsistentAnchors() []BadAnchor {
	var out []BadAnchor
	for _, d := range i.Real {
		for _, c := range i.Chains {
			if c.ID != d.ID {
				continue
			}
			bad := false
			mount := candidateOf(c.Chain)
			for _, ch := range append([][]Anc{c.Chain}, c.More...) {
				cand := candidateOf(ch)
				if !isPrefix(d.Path, cand) {
					bad = true
				}
				n := 0
				for n < len(mount) && n < len(cand) && mount[n] == cand[n] {
					n++
				}
				mount = mount[:n]
			}
			if bad {
				out = append(out, BadAnchor{Path: d.Path, Mount: mount})
			}
		}
	}
	return out
}

// DroppedPositions: the response positions (response keys joined by "/", no list indices) of the selection
// sets holding fields of a defer that is cancelled when an ancestor defer's anchor reads as dead although the
// defer itself is mounted above that anchor: the descriptor path of the parent is not a prefix of the child's
// (the parent's path was taken from a selection set below its real mount).  Descendants are included.
func (i *DescInfo) DroppedPositions() map[string]bool {
	byID := map[int]resolve.DeferDescriptor{}
	for _, d := range i.Real {
		byID[d.ID] = d
	}
	bad := map[int]bool{}
	for _, d := range i.Real {
		if p, ok := byID[d.ParentID]; ok && d.ParentID != d.ID && !isPrefix(p.Path, d.Path) {
			bad[d.ID] = true
		}
	}
	for changed := true; changed; {
		changed = false
		for _, d := range i.Real {
			if !bad[d.ID] && bad[d.ParentID] {
				bad[d.ID] = true
				changed = true
			}
		}
	}
	out := map[string]bool{}
	for _, c := range i.Chains {
		if !bad[c.ID] {
			continue
		}
		for _, ch := range append([][]Anc{c.Chain}, c.More...) {
			out[strings.Join(candidateOf(ch), "/")] = true
		}
	}
	return out
}

// BadAnchor: a descriptor path that is not a prefix of every selection set of its defer, and the common
// prefix of those selection sets (where the fragment is really mounted, or above).
type BadAnchor struct{ Path, Mount []string }

// Sexp: (c10desc (cfg "c") (op "text") (vars "json") SCHEMA (root "Query") (kind defer|sync)
//
//	(defers (d id parent "label" CHAIN (more CHAIN...))...) (real (r id parent "label" ("seg"...))...) (nt t|f))
func (i *DescInfo) Sexp(cfg, op, vars string, sch *fl.Schema) string {
	ds := []string{"defers"}
	nt := false
	for _, c := range i.Chains {
		more := []string{"more"}
		for _, m := range c.More {
			more = append(more, chainSexp(m))
		}
		ds = append(ds, common.L("d", strconv.Itoa(c.ID), strconv.Itoa(c.Parent), common.QS(c.Label), chainSexp(c.Chain), common.L(more...)))
		for _, a := range c.Chain {
			if a.Field && a.Alias != "" {
				nt = true
			}
		}
	}
	rs := []string{"real"}
	for _, d := range i.Real {
		segs := make([]string, len(d.Path))
		for k, s := range d.Path {
			segs[k] = common.QS(s)
		}
		rs = append(rs, common.L("r", strconv.Itoa(d.ID), strconv.Itoa(d.ParentID), common.QS(d.Label), common.L(segs...)))
	}
	return common.L("c10desc", common.L("cfg", common.QS(cfg)), common.L("op", common.QS(op)), common.L("vars", common.QS(vars)),
		SchemaSexp(sch), common.L("root", common.QS(i.Root)), common.L("kind", i.Kind), common.L(ds...), common.L(rs...), common.L("nt", common.B(nt)))
}
