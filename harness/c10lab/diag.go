package c10lab

import (
	"strconv"
	"strings"

	fl "gvh/fedlab"
)

// ---------------------------------------------------------------- structural diagnosis of a reconstruction mismatch
//
// The recorded findings are recognised on the OPERATION, at the response position of the mismatch, so that
// each key stays narrow whatever else the generator puts into the operation (aliases, fragments, directives):
//
//	typed-list   the member is selected inside an active @defer and a selection set between the fragment's mount and
//	             the member has, among its field ancestors, a list field below a field that is not defined on the un-narrowed static parent type
//	             (it was selected under a type condition on an abstract type): deferInfoCollector.
//	             outermostListFieldIndex() gives up at that field (-1) although a list follows with at least one
//	             field level between the list and the mount.  Fields are looked up by NAME (an alias anywhere on
//	             the chain does not make a position "typed-list").
//	merged       on the way to the member one response key (in one merged selection set) is selected by two field
//	             occurrences that sit in two different active @defer fragments, neither enclosing the other.
//	nested-list  a field on the way is a list of lists.
//
// Several tags are joined by "+".

type dstep struct {
	name       string
	listTrue   bool
	nestedTrue bool
	staticOK   bool
	listStatic bool
}

type dscope struct {
	at    *fl.Sel // the selection carrying the @defer
	mount int     // number of field ancestors of the fragment
}

type docc struct {
	sel     *fl.Sel
	ptrue   string // parent type, narrowed by type conditions
	pstatic string // parent type followed by field definitions only ("" = a lookup failed on the way)
	chain   []dstep
	scopes  []dscope
}

type dctx struct {
	ptrue, pstatic string
	chain          []dstep
	scopes         []dscope
}

func deferActive(s *fl.Sel, vars *fl.J) bool {
	for _, d := range s.Dirs {
		if d.Name != "defer" {
			continue
		}
		for _, a := range d.Args {
			if a.Name != "if" || a.Val == nil {
				continue
			}
			switch a.Val.Kind {
			case fl.VBool:
				return a.Val.Raw == "true"
			case fl.VVar:
				if vars != nil && vars.Kind == fl.JObj {
					if v := vars.Get(a.Val.Raw); v != nil && v.Kind == fl.JFalse {
						return false
					}
				}
				return true
			}
		}
		return true
	}
	return false
}

// DiagnoseOp classifies the position pos ("/a/0/b") + member of a reconstruction mismatch on the operation.
func DiagnoseOp(sch *fl.Schema, op *fl.Operation, vars *fl.J, pos, member string) string {
	return diagnoseOp(sch, op, vars, pos, member, false)
}

// DiagnoseOpSubtree: as DiagnoseOp, but the typed-list condition is also evaluated for every field selected below
// the position (a value that is null without @defer because a field of a dropped fragment failed there).
func DiagnoseOpSubtree(sch *fl.Schema, op *fl.Operation, vars *fl.J, pos string) string {
	return diagnoseOp(sch, op, vars, pos, "", true)
}

func diagnoseOp(sch *fl.Schema, op *fl.Operation, vars *fl.J, pos, member string, subtree bool) string {
	if op == nil || len(op.Sels) == 0 {
		return ""
	}
	var names []string
	for _, p := range strings.Split(strings.Trim(pos, "/"), "/") {
		if p == "" {
			continue
		}
		if _, err := strconv.Atoi(p); err == nil {
			continue
		}
		names = append(names, p)
	}
	if member == "" {
		if len(names) == 0 {
			return ""
		}
		member, names = names[len(names)-1], names[:len(names)-1]
	}
	frags := map[string]*fl.FragDef{}
	for _, f := range op.Frags {
		frags[f.Name] = f
	}
	var expand func(sels []*fl.Sel, c dctx, depth int) []docc
	expand = func(sels []*fl.Sel, c dctx, depth int) []docc {
		var out []docc
		if depth > 40 {
			return nil
		}
		for _, s := range sels {
			switch s.Kind {
			case fl.SField:
				out = append(out, docc{sel: s, ptrue: c.ptrue, pstatic: c.pstatic, chain: c.chain, scopes: c.scopes})
			case fl.SInline, fl.SSpread:
				cc := c
				body := s.Sels
				on := s.On
				if s.Kind == fl.SSpread {
					f := frags[s.Name]
					if f == nil {
						continue
					}
					body, on = f.Sels, f.On
				}
				if on != "" {
					cc.ptrue = on
				}
				if deferActive(s, vars) {
					cc.scopes = append(append([]dscope{}, c.scopes...), dscope{at: s, mount: len(c.chain)})
				}
				out = append(out, expand(body, cc, depth+1)...)
			}
		}
		return out
	}
	key := func(s *fl.Sel) string {
		if s.Alias != "" {
			return s.Alias
		}
		return s.Name
	}
	innermost := func(o docc) *fl.Sel {
		if len(o.scopes) == 0 {
			return nil
		}
		return o.scopes[len(o.scopes)-1].at
	}
	encloses := func(o docc, at *fl.Sel) bool {
		for _, sc := range o.scopes {
			if sc.at == at {
				return true
			}
		}
		return false
	}
	descend := func(o docc) []docc {
		td := sch.Type(o.ptrue)
		if td == nil {
			return nil
		}
		fd := td.Field(o.sel.Name)
		if fd == nil || len(o.sel.Sels) == 0 {
			return nil
		}
		st := dstep{name: o.sel.Name, listTrue: fd.Type.IsList()}
		if st.listTrue && fd.Type.Nullable().Of.IsList() {
			st.nestedTrue = true
		}
		pstatic := ""
		if o.pstatic != "" {
			if sd := sch.Type(o.pstatic); sd != nil {
				if sf := sd.Field(o.sel.Name); sf != nil {
					st.staticOK, st.listStatic = true, sf.Type.IsList()
					pstatic = sf.Type.Base()
				}
			}
		}
		chain := append(append([]dstep{}, o.chain...), st)
		return expand(o.sel.Sels, dctx{ptrue: fd.Type.Base(), pstatic: pstatic, chain: chain, scopes: o.scopes}, 0)
	}
	tags := map[string]bool{}
	cur := expand(op.Sels, dctx{ptrue: sch.Query, pstatic: sch.Query}, 0)
	for _, n := range names {
		var matched []docc
		for _, o := range cur {
			if key(o.sel) == n {
				matched = append(matched, o)
			}
		}
		for i := range matched {
			for j := i + 1; j < len(matched); j++ {
				a, b := innermost(matched[i]), innermost(matched[j])
				if a != nil && b != nil && a != b && !encloses(matched[i], b) && !encloses(matched[j], a) {
					tags["merged"] = true
				}
			}
		}
		var next []docc
		for _, o := range matched {
			next = append(next, descend(o)...)
		}
		cur = next
	}
	check := func(o docc) {
		for _, st := range o.chain {
			if st.nestedTrue {
				tags["nested-list"] = true
			}
		}
		// the collector computes the path at the first selection set in which a field stamped with the defer id
		// sits directly: anywhere from the fragment's mount down to the selection set of the member itself
		// (fields of the fragment that are also selected outside it lose the stamp)
		for _, sc := range o.scopes {
			for l := sc.mount; l <= len(o.chain); l++ {
				mount := o.chain[:l]
				goIdx, trueIdx := -1, -1
				for k, st := range mount {
					if !st.staticOK {
						break
					}
					if st.listStatic {
						goIdx = k
						break
					}
				}
				for k, st := range mount {
					if st.listTrue {
						trueIdx = k
						break
					}
				}
				if goIdx == -1 && trueIdx >= 0 && trueIdx+1 < len(mount) {
					tags["typed-list"] = true
				}
			}
		}
	}
	var sub func(occs []docc, depth int)
	sub = func(occs []docc, depth int) {
		if depth > 10 {
			return
		}
		for _, o := range occs {
			check(o)
			sub(descend(o), depth+1)
		}
	}
	for _, o := range cur {
		if key(o.sel) != member {
			continue
		}
		check(o)
		if subtree {
			sub(descend(o), 0)
		}
	}
	var out []string
	for _, t := range []string{"nested-list", "typed-list", "merged"} {
		if tags[t] {
			out = append(out, t)
		}
	}
	return strings.Join(out, "+")
}

// DiagnosePlanError classifies an operation whose planning fails only with @defer: "split-defer-scopes" when
// some composite field whose type is served by at least two subgraphs has, in its merged selection set, direct
// field children that belong to two different active @defer fragments (nested or siblings) -- the shape of the
// recorded finding defer-planner-empty-selection.
func DiagnosePlanError(cfg *fl.Config, op *fl.Operation, vars *fl.J) string {
	if op == nil || len(op.Sels) == 0 {
		return ""
	}
	sch := cfg.Super
	frags := map[string]*fl.FragDef{}
	for _, f := range op.Frags {
		frags[f.Name] = f
	}
	type occ struct {
		sel   *fl.Sel
		ptrue string
		scope *fl.Sel
	}
	var expand func(sels []*fl.Sel, ptrue string, scope *fl.Sel, depth int) []occ
	expand = func(sels []*fl.Sel, ptrue string, scope *fl.Sel, depth int) []occ {
		var out []occ
		if depth > 40 {
			return nil
		}
		for _, s := range sels {
			switch s.Kind {
			case fl.SField:
				out = append(out, occ{s, ptrue, scope})
			case fl.SInline, fl.SSpread:
				body, on := s.Sels, s.On
				if s.Kind == fl.SSpread {
					f := frags[s.Name]
					if f == nil {
						continue
					}
					body, on = f.Sels, f.On
				}
				pt, sc := ptrue, scope
				if on != "" {
					pt = on
				}
				if deferActive(s, vars) {
					sc = s
				}
				out = append(out, expand(body, pt, sc, depth+1)...)
			}
		}
		return out
	}
	split := func(typ string) bool {
		n := 0
		for _, g := range cfg.Subgraphs {
			if g.Type(typ) != nil {
				n++
			}
		}
		return n >= 2
	}
	found := false
	var level func(occs []occ, depth int)
	level = func(occs []occ, depth int) {
		if depth > 12 || found {
			return
		}
		groups := map[string][]occ{}
		var order []string
		for _, o := range occs {
			k := o.sel.Name
			if o.sel.Alias != "" {
				k = o.sel.Alias
			}
			if _, ok := groups[k]; !ok {
				order = append(order, k)
			}
			groups[k] = append(groups[k], o)
		}
		for _, k := range order {
			var children []occ
			base := ""
			for _, o := range groups[k] {
				if len(o.sel.Sels) == 0 {
					continue
				}
				td := sch.Type(o.ptrue)
				if td == nil {
					continue
				}
				fd := td.Field(o.sel.Name)
				if fd == nil {
					continue
				}
				base = fd.Type.Base()
				children = append(children, expand(o.sel.Sels, base, o.scope, 0)...)
			}
			if len(children) == 0 {
				continue
			}
			scopes := map[*fl.Sel]bool{}
			for _, c := range children {
				if c.scope != nil {
					scopes[c.scope] = true
				}
			}
			if len(scopes) >= 2 && split(base) {
				found = true
				return
			}
			level(children, depth+1)
		}
	}
	level(expand(op.Sels, sch.Query, nil, 0), 0)
	if found {
		return "split-defer-scopes"
	}
	return ""
}
