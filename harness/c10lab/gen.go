package c10lab

import (
	"fmt"
	"strings"

	"gvh/common"
	fl "gvh/fedlab"
)

// ---------------------------------------------------------------- universes

// GenUniverseHarsh: fedlab's key-consistent universe (nullable positions may be null / failing), then
// `harsh` extra mutations that also hit NON-NULL positions (resolver error or null object under a
// non-null type), so that null bubbling crosses deferred fragments.  Keys are never touched.
func GenUniverseHarsh(r *common.Rand, c *fl.Config, harsh int) *fl.Universe {
	k := fl.Knobs{"nulls": true, "errors": true}
	if r.Chance(1, 3) {
		k = fl.Knobs{}
	}
	u := fl.GenUniverse(r, k, c)
	stable := map[string]bool{}
	for _, g := range c.Subgraphs {
		for _, st := range g.Types {
			for _, key := range st.Keys {
				for _, f := range strings.Fields(strings.NewReplacer("{", " ", "}", " ").Replace(key)) {
					stable[st.Name+"."+f] = true
				}
			}
		}
	}
	for i := 0; i < harsh; i++ {
		e := common.PickOf(r, u.Ents)
		if len(e.Fields) == 0 {
			continue
		}
		fi := r.Pick(len(e.Fields))
		f := e.Fields[fi]
		if stable[e.Type+"."+f.Name] || f.Name == "id" {
			continue
		}
		switch r.Pick(3) {
		case 0:
			e.Fields[fi].Val = &fl.FVal{Kind: fl.FErr}
		case 1:
			td := c.Super.Type(e.Type)
			fd := td.Field(f.Name)
			if fd != nil && fd.Type.IsList() {
				e.Fields[fi].Val = &fl.FVal{Kind: fl.FLst}
			} else if fd != nil && !c.Super.IsLeaf(fd.Type.Base()) {
				e.Fields[fi].Val = &fl.FVal{Kind: fl.FNullRef}
			} else {
				e.Fields[fi].Val = &fl.FVal{Kind: fl.FSc, JSON: fl.JN()}
			}
		case 2:
			// an error inside a list
			if f.Val.Kind == fl.FLst && len(f.Val.Items) > 0 {
				f.Val.Items[r.Pick(len(f.Val.Items))] = &fl.FVal{Kind: fl.FErr}
			}
		}
	}
	return u
}

// ---------------------------------------------------------------- operations

type deferGen struct {
	r      *common.Rand
	c      *fl.Config
	op     *fl.Operation
	nfrag  int
	nlabel int
	nvar   int
	ndefer int
	vars   []fl.Member
	// density: chance (in 16ths) that a selection set gets a deferred wrapper
	density int
	inFrag  bool
	kinds   map[string]int
}

// Placement classes of the directed part of the generator (where a @defer is forced to sit relative to the
// list fields above it).
const (
	PlaceAny        = iota // no forced placement: the random wrappers only
	PlaceOnItems           // directly on the items of a list field
	PlaceBelowItems        // one or more object levels below the items of a list field
	PlaceBelowNested       // below two (or more) list levels: a list inside list items, or a list of lists
	PlaceTypeCond          // under a narrowing type condition (fragment on a member of an abstract type)
	PlaceTypeCondList      // under a narrowing type condition AND at least one object level below list items
	nPlace
)

var placeNames = []string{"any", "on_items", "below_items", "below_nested", "typecond", "typecond_list"}

// GenDeferOperation: a valid query from fedlab's operation generator drawn from the same feature space as the
// ordinary (C01) operations -- aliases, named and inline fragments, type conditions, __typename, duplicated
// fields, @skip/@include with literals and variables, depth up to 5 -- then
//  1. an alias pass (one of: none / list fields and their ancestors / any field / every composite field), with
//     one fresh alias per (response path, response key) so that fields that merged before still merge;
//  2. @defer on existing inline fragments / fragment spreads and on new wrappers (anonymous inline fragment,
//     inline fragment with the enclosing type as condition, new named fragment) around random subsets of
//     selection sets at every depth -- nested, sibling, inside lists, under abstract types, around entity
//     boundaries; a part carries label / if:true / if:false / if:$var;
//  3. a forced @defer wrapper at a selection set of a placement class chosen per operation (Place*): the base
//     operation is redrawn (up to 12 times) until it has such a selection set.
func GenDeferOperation(r *common.Rand, c *fl.Config, u *fl.Universe) (*fl.Operation, map[string]int) {
	kinds := map[string]int{}
	place := PlaceAny
	if r.Chance(2, 3) {
		place = 1 + r.Pick(nPlace-1)
	}
	var op *fl.Operation
	found := false
	// a class that the configuration cannot offer (no abstract type, no list below list items) gives way to the next one
	for shift := 0; shift < 3 && !found; shift++ {
		if shift > 0 {
			place = []int{PlaceBelowItems, PlaceOnItems}[shift-1]
		}
		for try := 0; try < 8 && !found; try++ {
			k := fl.Knobs{"fragments": true, "inlinefragments": true, "typename": true, "deep": true, "dupfields": true}
			if r.Chance(1, 2) {
				k["aliases"] = true
			}
			if r.Chance(1, 3) {
				k["skipinclude"] = true
				k["variables"] = true
			}
			op = fl.GenOperation(r, k, c, u)
			found = place == PlaceAny || len(sitesOf(c, op, place)) > 0
		}
	}
	if !found {
		kinds["place_unavailable"]++
		place = PlaceAny
	}
	kinds["place."+placeNames[place]]++
	g := &deferGen{r: r, c: c, op: op, density: 3 + r.Pick(8), kinds: kinds}
	if place != PlaceAny {
		g.density = 1 + r.Pick(6)
	}
	g.aliasPass(r.Pick(4))
	g.nfrag = len(op.Frags)
	if op.Variables != nil {
		g.vars = append(g.vars, op.Variables.Members...)
	}
	g.nvar = 100
	g.inFrag = true
	for _, f := range op.Frags {
		f.Sels = g.sels(f.On, f.Sels, 1)
	}
	g.inFrag = false
	op.Sels = g.sels(c.Super.Query, op.Sels, 0)
	if place != PlaceAny {
		if sites := sitesOf(c, op, place); len(sites) > 0 {
			st := common.PickOf(r, sites)
			g.inFrag = st.inFrag
			*st.sels = g.wrapSome(st.typ, *st.sels)
			g.inFrag = false
			if st.aliasAbove {
				kinds["forced_with_alias_above"]++
			}
			if st.aliasOnList {
				kinds["forced_with_aliased_list"]++
			}
		}
	}
	if g.ndefer == 0 {
		// force one
		op.Sels = []*fl.Sel{{Kind: fl.SInline, Sels: op.Sels, Dirs: []fl.Dir{g.deferDir()}}}
		g.kinds["wrap_root"]++
	}
	op.Variables = fl.JO(g.vars...)
	g.kinds["defers"] = g.ndefer
	for _, cl := range []int{PlaceOnItems, PlaceBelowItems, PlaceBelowNested, PlaceTypeCond, PlaceTypeCondList} {
		n, na := 0, 0
		for _, st := range sitesOf(c, op, cl) {
			if st.deferred {
				n++
				if st.aliasAbove {
					na++
				}
			}
		}
		if n > 0 {
			kinds["has_defer."+placeNames[cl]]++
		}
		if na > 0 {
			kinds["has_defer_alias_above."+placeNames[cl]]++
		}
	}
	return op, g.kinds
}

// site: one selection set of the operation with what lies above it.
type site struct {
	sels        *[]*fl.Sel
	typ         string
	inFrag      bool // inside a named fragment definition
	lists       int  // list levels above (a list of lists counts twice)
	below       int  // field levels between the innermost list field and this selection set (0 = the items)
	cond        bool // a narrowing type condition above
	aliasAbove  bool // an aliased field among the field ancestors
	aliasOnList bool // the outermost list field, or a field above it, is aliased
	deferred    bool // a direct child of this selection set is a fragment with @defer
}

func listDepth(t *fl.TypeRef) int {
	n := 0
	for t != nil {
		t = t.Nullable()
		if t.Kind != fl.TList {
			break
		}
		n++
		t = t.Of
	}
	return n
}

// sitesOf lists the selection sets of placement class cl (named fragments are entered at every spread).
func sitesOf(c *fl.Config, op *fl.Operation, cl int) []site {
	frags := map[string]*fl.FragDef{}
	for _, f := range op.Frags {
		frags[f.Name] = f
	}
	var out []site
	seen := map[*[]*fl.Sel]bool{}
	var walk func(sels *[]*fl.Sel, st site, depth int)
	walk = func(sels *[]*fl.Sel, st site, depth int) {
		if depth > 30 || len(*sels) == 0 {
			return
		}
		st.sels = sels
		st.deferred = false
		for _, s := range *sels {
			if s.Kind != fl.SField && hasDefer(s) {
				st.deferred = true
			}
		}
		ok := false
		switch cl {
		case PlaceOnItems:
			ok = st.lists >= 1 && st.below == 0
		case PlaceBelowItems:
			ok = st.lists >= 1 && st.below >= 1
		case PlaceBelowNested:
			ok = st.lists >= 2
		case PlaceTypeCond:
			ok = st.cond
		case PlaceTypeCondList:
			ok = st.cond && st.lists >= 1 && st.below >= 1
		}
		if ok && !seen[sels] {
			seen[sels] = true
			out = append(out, st)
		}
		td := c.Super.Type(st.typ)
		for _, s := range *sels {
			switch s.Kind {
			case fl.SField:
				if len(s.Sels) == 0 || td == nil {
					continue
				}
				fd := td.Field(s.Name)
				if fd == nil {
					continue
				}
				n := st
				n.typ = fd.Type.Base()
				if s.Alias != "" {
					n.aliasAbove = true
					if st.lists == 0 {
						n.aliasOnList = true // stays only if a list follows (checked through lists >= 1 by the users)
					}
				}
				if ld := listDepth(fd.Type); ld > 0 {
					n.lists += ld
					n.below = 0
				} else if st.lists > 0 {
					n.below++
				}
				walk(&s.Sels, n, depth+1)
			case fl.SInline:
				n := st
				if s.On != "" && s.On != st.typ {
					n.typ, n.cond = s.On, true
				}
				walk(&s.Sels, n, depth+1)
			case fl.SSpread:
				f := frags[s.Name]
				if f == nil {
					continue
				}
				n := st
				n.inFrag = true
				if f.On != st.typ {
					n.typ, n.cond = f.On, true
				}
				walk(&f.Sels, n, depth+1)
			}
		}
	}
	walk(&op.Sels, site{typ: c.Super.Query}, 0)
	return out
}

// aliasPass renames response keys: mode 0 none (what fedlab's own alias knob produced stays), 1 list-typed
// composite fields (2/3) and the composite fields above them (1/3), 2 any field (1/3), 3 every composite field.
// One fresh alias per (response path, old response key): occurrences that merged before still merge.  Inside a
// named fragment the path starts at the fragment (fresh aliases never collide with anything at a spread site).
func (g *deferGen) aliasPass(mode int) {
	g.kinds[fmt.Sprintf("alias_mode=%d", mode)]++
	if mode == 0 {
		return
	}
	assigned := map[string]string{}
	n := 0
	var walk func(typ string, sels []*fl.Sel, path string)
	var hasListBelow func(typ string, s *fl.Sel, depth int) bool
	hasListBelow = func(typ string, s *fl.Sel, depth int) bool {
		// is there a list-typed composite field in the subtree of the composite field s (of parent type typ)?
		if depth > 12 {
			return false
		}
		td := g.c.Super.Type(typ)
		for _, x := range s.Sels {
			switch x.Kind {
			case fl.SField:
				if td == nil || len(x.Sels) == 0 {
					continue
				}
				if fd := td.Field(x.Name); fd != nil {
					if fd.Type.IsList() || hasListBelow(fd.Type.Base(), x, depth+1) {
						return true
					}
				}
			case fl.SInline:
				t := typ
				if x.On != "" {
					t = x.On
				}
				if hasListBelow(t, &fl.Sel{Sels: x.Sels}, depth+1) {
					return true
				}
			}
		}
		return false
	}
	walk = func(typ string, sels []*fl.Sel, path string) {
		td := g.c.Super.Type(typ)
		for _, s := range sels {
			switch s.Kind {
			case fl.SField:
				key := s.Name
				if s.Alias != "" {
					key = s.Alias
				}
				var fd *fl.FieldDef
				if td != nil {
					fd = td.Field(s.Name)
				}
				composite := len(s.Sels) > 0 && fd != nil
				id := path + "/" + key
				al, done := assigned[id]
				if !done {
					want := false
					switch mode {
					case 1:
						if composite && fd.Type.IsList() {
							want = g.r.Chance(2, 3)
						} else if composite && hasListBelow(fd.Type.Base(), s, 0) {
							want = g.r.Chance(1, 3)
						}
					case 2:
						want = g.r.Chance(1, 3)
					case 3:
						want = composite
					}
					if want {
						n++
						al = fmt.Sprintf("a%d", n)
						g.kinds["aliased"]++
						if composite && fd.Type.IsList() {
							g.kinds["aliased_list"]++
						}
					}
					assigned[id] = al
				}
				if al != "" {
					s.Alias = al
				}
				if composite {
					walk(fd.Type.Base(), s.Sels, id)
				}
			case fl.SInline:
				t := typ
				if s.On != "" {
					t = s.On
				}
				walk(t, s.Sels, path)
			}
		}
	}
	for _, f := range g.op.Frags {
		walk(f.On, f.Sels, "frag:"+f.Name)
	}
	walk(g.c.Super.Query, g.op.Sels, "")
}

func (g *deferGen) deferDir() fl.Dir {
	g.ndefer++
	d := fl.Dir{Name: "defer"}
	switch g.r.Pick(10) {
	case 0:
		d.Args = append(d.Args, fl.Arg{Name: "if", Val: &fl.Value{Kind: fl.VBool, Raw: "false"}})
		g.kinds["if_false"]++
	case 1:
		d.Args = append(d.Args, fl.Arg{Name: "if", Val: &fl.Value{Kind: fl.VBool, Raw: "true"}})
		g.kinds["if_true"]++
	case 2:
		g.nvar++
		name := fmt.Sprintf("d%d", g.nvar)
		val := g.r.Chance(3, 4)
		t := fl.NonNull(fl.Named("Boolean"))
		if g.r.Chance(1, 2) {
			t = fl.Named("Boolean")
		}
		g.op.Vars = append(g.op.Vars, &fl.VarDef{Name: name, Type: t})
		g.vars = append(g.vars, fl.Member{Key: name, Val: fl.JB(val)})
		d.Args = append(d.Args, fl.Arg{Name: "if", Val: &fl.Value{Kind: fl.VVar, Raw: name}})
		g.kinds["if_var"]++
	}
	if !g.inFrag && g.r.Chance(1, 3) {
		g.nlabel++
		d.Args = append(d.Args, fl.Arg{Name: "label", Val: &fl.Value{Kind: fl.VStr, Raw: fmt.Sprintf("L%d", g.nlabel)}})
		g.kinds["label"]++
	}
	return d
}

func hasDefer(s *fl.Sel) bool {
	for _, d := range s.Dirs {
		if d.Name == "defer" {
			return true
		}
	}
	return false
}

func (g *deferGen) sels(typ string, in []*fl.Sel, depth int) []*fl.Sel {
	td := g.c.Super.Type(typ)
	// recurse first: inner defers exist before the outer wrapper is built (nesting)
	for _, s := range in {
		switch s.Kind {
		case fl.SField:
			if len(s.Sels) > 0 && td != nil {
				if fd := td.Field(s.Name); fd != nil {
					s.Sels = g.sels(fd.Type.Base(), s.Sels, depth+1)
				}
			}
		case fl.SInline:
			t := typ
			if s.On != "" {
				t = s.On
			}
			s.Sels = g.sels(t, s.Sels, depth+1)
			if !hasDefer(s) && g.r.Chance(g.density, 24) {
				s.Dirs = append(s.Dirs, g.deferDir())
				g.kinds["on_inline"]++
			}
		case fl.SSpread:
			if !hasDefer(s) && g.r.Chance(g.density, 24) {
				s.Dirs = append(s.Dirs, g.deferDir())
				g.kinds["on_spread"]++
			}
		}
	}
	out := in
	rounds := 1
	if g.r.Chance(1, 4) {
		rounds = 2 // sibling defers in one selection set
	}
	for round := 0; round < rounds; round++ {
		if len(out) == 0 || !g.r.Chance(g.density, 16) {
			continue
		}
		out = g.wrapSome(typ, out)
		if depth > 0 {
			g.kinds["nested_depth"]++
		}
	}
	return out
}

// wrapSome moves a random non-empty subset of the selections into a new deferred wrapper (anonymous inline
// fragment / inline fragment on the enclosing type / new named fragment) that takes the place of the first
// selection moved.
func (g *deferGen) wrapSome(typ string, out []*fl.Sel) []*fl.Sel {
	if len(out) == 0 {
		return out
	}
	td := g.c.Super.Type(typ)
	// choose a contiguous run (keeps the relative order of the rest) or a scattered subset
	var pick []bool
	if g.r.Chance(2, 3) {
		a := g.r.Pick(len(out))
		b := a + 1 + g.r.Pick(len(out)-a)
		pick = make([]bool, len(out))
		for i := a; i < b; i++ {
			pick[i] = true
		}
	} else {
		pick = make([]bool, len(out))
		n := 0
		for i := range out {
			if g.r.Chance(1, 2) {
				pick[i] = true
				n++
			}
		}
		if n == 0 {
			pick[g.r.Pick(len(out))] = true
		}
	}
	var inner, rest []*fl.Sel
	first := -1
	for i, s := range out {
		if pick[i] {
			if first < 0 {
				first = len(rest)
			}
			inner = append(inner, s)
		} else {
			rest = append(rest, s)
		}
	}
	var w *fl.Sel
	switch g.r.Pick(3) {
	case 0:
		w = &fl.Sel{Kind: fl.SInline, Sels: inner}
		g.kinds["wrap_anon"]++
	case 1:
		w = &fl.Sel{Kind: fl.SInline, On: typ, Sels: inner}
		g.kinds["wrap_typed"]++
	default:
		g.nfrag++
		name := fmt.Sprintf("D%d", g.nfrag)
		g.op.Frags = append(g.op.Frags, &fl.FragDef{Name: name, On: typ, Sels: inner})
		w = &fl.Sel{Kind: fl.SSpread, Name: name}
		g.kinds["wrap_named"]++
	}
	w.Dirs = []fl.Dir{g.deferDir()}
	if td != nil && (td.Kind == fl.KInterface || td.Kind == fl.KUnion) {
		g.kinds["under_abstract"]++
	}
	return append(append(append([]*fl.Sel{}, rest[:first]...), w), rest[first:]...)
}

// StripDefer returns a copy of the operation without any @defer directive.
func StripDefer(op *fl.Operation) *fl.Operation {
	c := op.Clone()
	var walk func(sels []*fl.Sel)
	walk = func(sels []*fl.Sel) {
		for _, s := range sels {
			var ds []fl.Dir
			for _, d := range s.Dirs {
				if d.Name != "defer" {
					ds = append(ds, d)
				}
			}
			s.Dirs = ds
			walk(s.Sels)
		}
	}
	walk(c.Sels)
	for _, f := range c.Frags {
		walk(f.Sels)
	}
	return c
}

// DeferIfFalse returns a copy in which every @defer has if:false (labels kept).
func DeferIfFalse(op *fl.Operation) *fl.Operation {
	c := op.Clone()
	var walk func(sels []*fl.Sel)
	walk = func(sels []*fl.Sel) {
		for _, s := range sels {
			for i, d := range s.Dirs {
				if d.Name == "defer" {
					var args []fl.Arg
					for _, a := range d.Args {
						if a.Name != "if" {
							args = append(args, a)
						}
					}
					args = append([]fl.Arg{{Name: "if", Val: &fl.Value{Kind: fl.VBool, Raw: "false"}}}, args...)
					s.Dirs = append([]fl.Dir{}, s.Dirs...)
					s.Dirs[i] = fl.Dir{Name: "defer", Args: args}
				}
			}
			walk(s.Sels)
		}
	}
	walk(c.Sels)
	for _, f := range c.Frags {
		walk(f.Sels)
	}
	return c
}

// UsedVars prunes variable definitions that are not used (StripDefer may orphan an if:$var).
func PruneVars(op *fl.Operation) {
	used := map[string]bool{}
	var val func(v *fl.Value)
	val = func(v *fl.Value) {
		if v == nil {
			return
		}
		if v.Kind == fl.VVar {
			used[v.Raw] = true
		}
		for _, x := range v.Items {
			val(x)
		}
		for _, f := range v.Fields {
			val(f.Val)
		}
	}
	var walk func(sels []*fl.Sel)
	walk = func(sels []*fl.Sel) {
		for _, s := range sels {
			for _, a := range s.Args {
				val(a.Val)
			}
			for _, d := range s.Dirs {
				for _, a := range d.Args {
					val(a.Val)
				}
			}
			walk(s.Sels)
		}
	}
	walk(op.Sels)
	for _, f := range op.Frags {
		walk(f.Sels)
	}
	var vd []*fl.VarDef
	for _, v := range op.Vars {
		if used[v.Name] {
			vd = append(vd, v)
		}
	}
	op.Vars = vd
}

// ---------------------------------------------------------------- shrinking

// Reductions lists one-step smaller variants of the operation (for the shrinker): named
// fragments inlined, a selection removed, a fragment unwrapped, a @defer or one of its arguments
// removed, an alias or a non-defer directive removed.
func Reductions(op *fl.Operation) []*fl.Operation {
	var out []*fl.Operation
	// inline every spread of one named fragment
	for fi := range op.Frags {
		c := op.Clone()
		f := c.Frags[fi]
		var walk func(sels []*fl.Sel)
		walk = func(sels []*fl.Sel) {
			for _, s := range sels {
				if s.Kind == fl.SSpread && s.Name == f.Name {
					s.Kind, s.On, s.Name = fl.SInline, f.On, ""
					s.Sels = cloneSelsDeep(f.Sels)
				}
				walk(s.Sels)
			}
		}
		walk(c.Sels)
		for _, g := range c.Frags {
			if g != f {
				walk(g.Sels)
			}
		}
		c.Frags = append(c.Frags[:fi:fi], c.Frags[fi+1:]...)
		out = append(out, c)
	}
	// structural edits addressed by pre-order index
	count := 0
	var cnt func(sels []*fl.Sel)
	cnt = func(sels []*fl.Sel) {
		for _, s := range sels {
			count++
			cnt(s.Sels)
		}
	}
	cnt(op.Sels)
	for _, f := range op.Frags {
		cnt(f.Sels)
	}
	for target := 0; target < count; target++ {
		for _, kind := range []string{"delete", "unwrap", "undefer", "noargs", "noalias", "nodirs", "nocond"} {
			c := op.Clone()
			n := 0
			applied := false
			var edit func(sels []*fl.Sel) []*fl.Sel
			edit = func(sels []*fl.Sel) []*fl.Sel {
				var res []*fl.Sel
				for _, s := range sels {
					me := n
					n++
					if me == target {
						switch kind {
						case "delete":
							if len(sels) > 1 {
								applied = true
								// skip the whole subtree
								var skip func(x []*fl.Sel)
								skip = func(x []*fl.Sel) {
									for _, y := range x {
										n++
										skip(y.Sels)
									}
								}
								skip(s.Sels)
								continue
							}
						case "unwrap":
							if s.Kind == fl.SInline {
								applied = true
								res = append(res, edit(s.Sels)...)
								continue
							}
						case "undefer":
							if hasDefer(s) {
								applied = true
								var ds []fl.Dir
								for _, d := range s.Dirs {
									if d.Name != "defer" {
										ds = append(ds, d)
									}
								}
								s.Dirs = ds
							}
						case "noargs":
							for i, d := range s.Dirs {
								if d.Name == "defer" && len(d.Args) > 0 {
									applied = true
									s.Dirs = append([]fl.Dir{}, s.Dirs...)
									s.Dirs[i] = fl.Dir{Name: "defer", Args: d.Args[1:]}
								}
							}
						case "noalias":
							if s.Kind == fl.SField && s.Alias != "" {
								applied = true
								s.Alias = ""
							}
						case "nodirs":
							var ds []fl.Dir
							for _, d := range s.Dirs {
								if d.Name == "defer" {
									ds = append(ds, d)
								}
							}
							if len(ds) != len(s.Dirs) {
								applied = true
								s.Dirs = ds
							}
						case "nocond":
							if s.Kind == fl.SInline && s.On != "" {
								applied = true
								s.On = ""
							}
						}
					}
					s.Sels = edit(s.Sels)
					res = append(res, s)
				}
				return res
			}
			c.Sels = edit(c.Sels)
			for _, f := range c.Frags {
				f.Sels = edit(f.Sels)
			}
			if applied {
				PruneVars(c)
				out = append(out, c)
			}
		}
	}
	return out
}

func cloneSelsDeep(sels []*fl.Sel) []*fl.Sel {
	out := make([]*fl.Sel, len(sels))
	for i, s := range sels {
		c := *s
		c.Sels = cloneSelsDeep(s.Sels)
		out[i] = &c
	}
	return out
}

// ---------------------------------------------------------------- universes from S-expressions (corpus)

func fvalOfSexp(x *fl.SX) (*fl.FVal, error) {
	switch x.Head() {
	case "sc":
		j, err := fl.JSONOfSexp(x.List[1])
		if err != nil {
			return nil, err
		}
		return &fl.FVal{Kind: fl.FSc, JSON: j}, nil
	case "ref":
		return &fl.FVal{Kind: fl.FRef, Type: x.List[1].Str, Key: x.List[2].Str}, nil
	case "nullref":
		return &fl.FVal{Kind: fl.FNullRef}, nil
	case "lst":
		out := &fl.FVal{Kind: fl.FLst}
		for _, it := range x.List[1:] {
			v, err := fvalOfSexp(it)
			if err != nil {
				return nil, err
			}
			out.Items = append(out.Items, v)
		}
		return out, nil
	case "err":
		return &fl.FVal{Kind: fl.FErr}, nil
	case "echo":
		return &fl.FVal{Kind: fl.FEcho}, nil
	case "lookup":
		return &fl.FVal{Kind: fl.FLookup, Type: x.List[1].Str, Arg: x.List[2].Str}, nil
	case "req":
		out := &fl.FVal{Kind: fl.FReq}
		for _, it := range x.List[1:] {
			out.Req = append(out.Req, it.Str)
		}
		return out, nil
	}
	return nil, fmt.Errorf("fval: %s", x.Head())
}

// UniverseOfSexp reads back Universe.Sexp().
func UniverseOfSexp(x *fl.SX) (*fl.Universe, error) {
	if x.Head() != "universe" {
		return nil, fmt.Errorf("not a universe")
	}
	u := &fl.Universe{}
	for _, ex := range x.List[1:] {
		if ex.Head() != "ent" || len(ex.List) < 3 {
			return nil, fmt.Errorf("bad entity")
		}
		e := &fl.Entity{Type: ex.List[1].Str, Key: ex.List[2].Str}
		for _, fx := range ex.List[3:] {
			v, err := fvalOfSexp(fx.List[2])
			if err != nil {
				return nil, err
			}
			e.Fields = append(e.Fields, fl.FV{Name: fx.List[1].Str, Val: v})
		}
		u.Ents = append(u.Ents, e)
	}
	return u, nil
}
