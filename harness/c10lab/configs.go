package c10lab

import (
	fl "gvh/fedlab"
)

func fields(names ...string) []*fl.SubField {
	var out []*fl.SubField
	for _, n := range names {
		out = append(out, &fl.SubField{Name: n})
	}
	return out
}

func idField() *fl.FieldDef { return &fl.FieldDef{Name: "id", Type: fl.NonNull(fl.Named("ID"))} }

// ConfigMono: one subgraph, no entities -- the layout of "defer on non entity field" in
// execution_engine_defer_test.go (Query.user: User!, User.info: Info!), widened by nullable
// variants, lists, an interface and a union so that defers can sit in lists and under abstract types.
func ConfigMono() *fl.Config { return configMono(false) }

// ConfigGrid: ConfigMono plus Query.grid: [[User]] (a list of lists).
func ConfigGrid() *fl.Config { return configMono(true) }

func configMono(grid bool) *fl.Config {
	super := &fl.Schema{Query: "Query", Types: []*fl.TypeDef{
		{Kind: fl.KObject, Name: "Query", Fields: []*fl.FieldDef{
			{Name: "user", Type: fl.NonNull(fl.Named("User"))},
			{Name: "me", Type: fl.Named("User")},
			{Name: "users", Type: fl.NonNull(fl.ListOf(fl.NonNull(fl.Named("User"))))},
			{Name: "team", Type: fl.ListOf(fl.Named("User"))},
			{Name: "node", Type: fl.Named("Node")},
			{Name: "nodes", Type: fl.ListOf(fl.NonNull(fl.Named("Node")))},
			{Name: "things", Type: fl.ListOf(fl.Named("Thing"))},
		}},
		{Kind: fl.KInterface, Name: "Node", Fields: []*fl.FieldDef{idField()}},
		{Kind: fl.KObject, Name: "User", Implements: []string{"Node"}, Fields: []*fl.FieldDef{
			idField(),
			{Name: "name", Type: fl.NonNull(fl.Named("String"))},
			{Name: "title", Type: fl.Named("String")},
			{Name: "nick", Type: fl.Named("String")},
			{Name: "info", Type: fl.NonNull(fl.Named("Info"))},
			{Name: "alt", Type: fl.Named("Info")},
			{Name: "friends", Type: fl.ListOf(fl.NonNull(fl.Named("User")))},
			{Name: "pet", Type: fl.Named("Pet")},
		}},
		{Kind: fl.KObject, Name: "Info", Fields: []*fl.FieldDef{
			{Name: "email", Type: fl.NonNull(fl.Named("String"))},
			{Name: "phone", Type: fl.Named("String")},
			{Name: "addr", Type: fl.Named("Address")},
		}},
		{Kind: fl.KObject, Name: "Address", Fields: []*fl.FieldDef{
			{Name: "city", Type: fl.NonNull(fl.Named("String"))},
			{Name: "zip", Type: fl.Named("String")},
		}},
		{Kind: fl.KObject, Name: "Pet", Implements: []string{"Node"}, Fields: []*fl.FieldDef{
			idField(),
			{Name: "kind", Type: fl.NonNull(fl.Named("String"))},
			{Name: "age", Type: fl.Named("Int")},
			{Name: "owner", Type: fl.Named("User")},
		}},
		{Kind: fl.KUnion, Name: "Thing", Members: []string{"User", "Pet"}},
	}}
	rootFields := []string{"user", "me", "users", "team", "node", "nodes", "things"}
	if grid {
		q := super.Types[0]
		q.Fields = append(q.Fields, &fl.FieldDef{Name: "grid", Type: fl.ListOf(fl.ListOf(fl.Named("User")))})
		rootFields = append(rootFields, "grid")
	}
	return &fl.Config{Super: super, Subgraphs: []*fl.Subgraph{
		{Name: "first", Unions: []string{"Thing"}, Types: []*fl.SubType{
			{Name: "Query", Fields: fields(rootFields...)},
			{Name: "Node", Fields: fields("id")},
			{Name: "User", Fields: fields("id", "name", "title", "nick", "info", "alt", "friends", "pet")},
			{Name: "Info", Fields: fields("email", "phone", "addr")},
			{Name: "Address", Fields: fields("city", "zip")},
			{Name: "Pet", Fields: fields("id", "kind", "age", "owner")},
		}},
	}}
}

// ConfigEntity: the layout of "entity - distributed fields" in execution_engine_defer_test.go
// (User @key(id) split over two subgraphs, the value type Info split as well: email in the
// first, phone in the second), widened by a nullable root, a list root and nullable fields.
func ConfigEntity() *fl.Config {
	super := &fl.Schema{Query: "Query", Types: []*fl.TypeDef{
		{Kind: fl.KObject, Name: "Query", Fields: []*fl.FieldDef{
			{Name: "user", Type: fl.NonNull(fl.Named("User"))},
			{Name: "me", Type: fl.Named("User")},
			{Name: "users", Type: fl.ListOf(fl.Named("User"))},
		}},
		{Kind: fl.KObject, Name: "User", Fields: []*fl.FieldDef{
			idField(),
			{Name: "name", Type: fl.NonNull(fl.Named("String"))},
			{Name: "title", Type: fl.Named("String")},
			{Name: "info", Type: fl.NonNull(fl.Named("Info"))},
			{Name: "boss", Type: fl.Named("User")},
		}},
		{Kind: fl.KObject, Name: "Info", Fields: []*fl.FieldDef{
			{Name: "email", Type: fl.NonNull(fl.Named("String"))},
			{Name: "phone", Type: fl.Named("String")},
		}},
	}}
	return &fl.Config{Super: super, Subgraphs: []*fl.Subgraph{
		{Name: "first", Types: []*fl.SubType{
			{Name: "Query", Fields: fields("user", "me", "users")},
			{Name: "User", Keys: []string{"id"}, Fields: fields("id", "info", "boss")},
			{Name: "Info", Fields: fields("email")},
		}},
		{Name: "second", Types: []*fl.SubType{
			{Name: "User", Keys: []string{"id"}, Fields: fields("id", "name", "title", "info")},
			{Name: "Info", Fields: fields("phone")},
		}},
	}}
}

// ConfigFed: three subgraphs (accounts / reviews / products) in the style of "defer across three
// federated subgraphs - article reviews authors": entity chains through lists, so that a
// deferred group has sequential fetches and defers sit around entity boundaries.
func ConfigFed() *fl.Config {
	super := &fl.Schema{Query: "Query", Types: []*fl.TypeDef{
		{Kind: fl.KObject, Name: "Query", Fields: []*fl.FieldDef{
			{Name: "me", Type: fl.Named("User")},
			{Name: "users", Type: fl.NonNull(fl.ListOf(fl.NonNull(fl.Named("User"))))},
			{Name: "topProducts", Type: fl.ListOf(fl.Named("Product"))},
			{Name: "latestReview", Type: fl.Named("Review")},
		}},
		{Kind: fl.KObject, Name: "User", Fields: []*fl.FieldDef{
			idField(),
			{Name: "name", Type: fl.Named("String")},
			{Name: "handle", Type: fl.NonNull(fl.Named("String"))},
			{Name: "reviews", Type: fl.ListOf(fl.Named("Review"))},
		}},
		{Kind: fl.KObject, Name: "Review", Fields: []*fl.FieldDef{
			idField(),
			{Name: "body", Type: fl.NonNull(fl.Named("String"))},
			{Name: "stars", Type: fl.Named("Int")},
			{Name: "author", Type: fl.Named("User")},
			{Name: "product", Type: fl.NonNull(fl.Named("Product"))},
		}},
		{Kind: fl.KObject, Name: "Product", Fields: []*fl.FieldDef{
			{Name: "sku", Type: fl.NonNull(fl.Named("ID"))},
			{Name: "title", Type: fl.NonNull(fl.Named("String"))},
			{Name: "price", Type: fl.Named("Int")},
			{Name: "reviews", Type: fl.ListOf(fl.NonNull(fl.Named("Review")))},
		}},
	}}
	return &fl.Config{Super: super, Subgraphs: []*fl.Subgraph{
		{Name: "accounts", Types: []*fl.SubType{
			{Name: "Query", Fields: fields("me", "users")},
			{Name: "User", Keys: []string{"id"}, Fields: fields("id", "name", "handle")},
		}},
		{Name: "reviews", Types: []*fl.SubType{
			{Name: "Query", Fields: fields("latestReview")},
			{Name: "User", Keys: []string{"id"}, Fields: fields("id", "reviews")},
			{Name: "Review", Keys: []string{"id"}, Fields: fields("id", "body", "stars", "author", "product")},
			{Name: "Product", Keys: []string{"sku"}, Fields: fields("sku", "reviews")},
		}},
		{Name: "products", Types: []*fl.SubType{
			{Name: "Query", Fields: fields("topProducts")},
			{Name: "Product", Keys: []string{"sku"}, Fields: fields("sku", "title", "price")},
		}},
	}}
}

var ConfigNames = []string{"mono", "entity", "fed", "grid"}

func ConfigByName(n string) *fl.Config {
	switch n {
	case "mono":
		return ConfigMono()
	case "entity":
		return ConfigEntity()
	case "fed":
		return ConfigFed()
	case "grid":
		return ConfigGrid()
	}
	return nil
}
