package c10lab

import (
	"fmt"

	"github.com/wundergraph/graphql-go-tools/v2/pkg/ast"
	"github.com/wundergraph/graphql-go-tools/v2/pkg/astparser"

	fl "gvh/fedlab"
)

// ParseOperation reads an operation text back into the fedlab operation structure (selection tree, aliases,
// type conditions, directives with their boolean / variable / string arguments).  Used for the structural
// diagnosis of a failure on corpus operations, which are stored as text.  Variable definitions and field
// arguments are not reproduced (the C10 configurations have no field arguments).
func ParseOperation(text string) (*fl.Operation, error) {
	doc, report := astparser.ParseGraphqlDocumentString(text)
	if report.HasErrors() {
		return nil, fmt.Errorf("parse: %s", report.Error())
	}
	d := &doc
	dirsOf := func(refs []int) []fl.Dir {
		var out []fl.Dir
		for _, dr := range refs {
			dir := fl.Dir{Name: d.DirectiveNameString(dr)}
			if d.Directives[dr].HasArguments {
				for _, ar := range d.Directives[dr].Arguments.Refs {
					v := d.ArgumentValue(ar)
					val := &fl.Value{Kind: fl.VNull}
					switch v.Kind {
					case ast.ValueKindBoolean:
						val = &fl.Value{Kind: fl.VBool, Raw: fmt.Sprint(bool(d.BooleanValue(v.Ref)))}
					case ast.ValueKindVariable:
						val = &fl.Value{Kind: fl.VVar, Raw: d.VariableValueNameString(v.Ref)}
					case ast.ValueKindString:
						val = &fl.Value{Kind: fl.VStr, Raw: d.StringValueContentString(v.Ref)}
					}
					dir.Args = append(dir.Args, fl.Arg{Name: d.ArgumentNameString(ar), Val: val})
				}
			}
			out = append(out, dir)
		}
		return out
	}
	var selsOf func(set int) []*fl.Sel
	selsOf = func(set int) []*fl.Sel {
		var out []*fl.Sel
		for _, sr := range d.SelectionSets[set].SelectionRefs {
			sel := d.Selections[sr]
			switch sel.Kind {
			case ast.SelectionKindField:
				s := &fl.Sel{Kind: fl.SField, Name: d.FieldNameString(sel.Ref)}
				if d.FieldAliasIsDefined(sel.Ref) {
					s.Alias = d.FieldAliasString(sel.Ref)
				}
				if d.Fields[sel.Ref].HasDirectives {
					s.Dirs = dirsOf(d.Fields[sel.Ref].Directives.Refs)
				}
				if d.Fields[sel.Ref].HasSelections {
					s.Sels = selsOf(d.Fields[sel.Ref].SelectionSet)
				}
				out = append(out, s)
			case ast.SelectionKindInlineFragment:
				s := &fl.Sel{Kind: fl.SInline}
				if d.InlineFragmentHasTypeCondition(sel.Ref) {
					s.On = d.InlineFragmentTypeConditionNameString(sel.Ref)
				}
				if d.InlineFragments[sel.Ref].HasDirectives {
					s.Dirs = dirsOf(d.InlineFragments[sel.Ref].Directives.Refs)
				}
				if d.InlineFragments[sel.Ref].HasSelections {
					s.Sels = selsOf(d.InlineFragments[sel.Ref].SelectionSet)
				}
				out = append(out, s)
			case ast.SelectionKindFragmentSpread:
				s := &fl.Sel{Kind: fl.SSpread, Name: d.FragmentSpreadNameString(sel.Ref)}
				if d.FragmentSpreads[sel.Ref].HasDirectives {
					s.Dirs = dirsOf(d.FragmentSpreads[sel.Ref].Directives.Refs)
				}
				out = append(out, s)
			}
		}
		return out
	}
	op := &fl.Operation{}
	gotOp := false
	for _, n := range d.RootNodes {
		switch n.Kind {
		case ast.NodeKindOperationDefinition:
			if gotOp {
				continue
			}
			gotOp = true
			op.Name = d.OperationDefinitionNameString(n.Ref)
			if d.OperationDefinitions[n.Ref].HasSelections {
				op.Sels = selsOf(d.OperationDefinitions[n.Ref].SelectionSet)
			}
		case ast.NodeKindFragmentDefinition:
			f := &fl.FragDef{Name: d.FragmentDefinitionNameString(n.Ref), On: d.FragmentDefinitionTypeNameString(n.Ref)}
			if d.FragmentDefinitions[n.Ref].HasSelections {
				f.Sels = selsOf(d.FragmentDefinitions[n.Ref].SelectionSet)
			}
			op.Frags = append(op.Frags, f)
		}
	}
	if !gotOp {
		return nil, fmt.Errorf("no operation in the document")
	}
	return op, nil
}
