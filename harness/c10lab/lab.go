// Package c10lab is the C10 (@defer) test bed: a real ExecutionEngine over semantic subgraphs
// (fedlab configuration + universe answered by bin/model_exec), a response writer that records
// every Write/Flush/Complete call, and a gate in the subgraph transport that holds the requests
// of the deferred phase and releases them one at a time in an enumerated / seeded order.
package c10lab

import (
	"bytes"
	"context"
	"encoding/json"
	"fmt"
	"io"
	"net/http"
	"sort"
	"strings"
	"sync"
	"sync/atomic"
	"time"

	"github.com/jensneuse/abstractlogger"

	"github.com/wundergraph/graphql-go-tools/execution/engine"
	"github.com/wundergraph/graphql-go-tools/execution/graphql"
	"github.com/wundergraph/graphql-go-tools/v2/pkg/astparser"
	"github.com/wundergraph/graphql-go-tools/v2/pkg/engine/datasource/graphql_datasource"
	"github.com/wundergraph/graphql-go-tools/v2/pkg/engine/plan"
	"github.com/wundergraph/graphql-go-tools/v2/pkg/engine/resolve"

	"gvh/fedlab"
)

// ---------------------------------------------------------------- the recording writer

// Call is one call the resolver made on the response writer.
type Call struct {
	Kind string // "write" | "flush" | "complete" | "error" | "heartbeat"
	Data []byte
}

// Recorder implements resolve.SubscriptionResponseWriter (a superset of DeferResponseWriter).
// Every call is logged; Frames are the byte strings committed by each Flush.  Concurrent calls
// are detected (the resolver promises that writes of different groups never overlap).
type Recorder struct {
	mu        sync.Mutex
	Calls     []Call
	Frames    [][]byte // what each Flush handed over (everything written since the previous Flush)
	cur       []byte
	Completes int
	Overlap   bool // a Write or a second Flush arrived while a Flush was in progress
	AfterDone bool // a call arrived after Complete
	onEvent   func(kind string)
	// SlowFlush, when set, makes a Flush slow (a slow client connection): it is called at the start of every
	// Flush but the first, before the buffered bytes are handed over, with the number of flushes so far.
	// Whatever other goroutines write in the meantime is handed over by this Flush as well -- render + flush
	// of one frame is promised to be one critical section, so nothing may arrive.
	SlowFlush func(w *Recorder, nflush int)
	inFlush   int32
	foreign   int32 // writer calls that arrived while a Flush was in progress
	flushes   int32 // Flush calls started
}

// Foreign: number of writer calls that arrived while a Flush was in progress.
func (w *Recorder) Foreign() int { return int(atomic.LoadInt32(&w.foreign)) }

// FlushCalls: number of Flush calls started so far.
func (w *Recorder) FlushCalls() int { return int(atomic.LoadInt32(&w.flushes)) }

func (w *Recorder) enter(kind string, data []byte) {
	w.mu.Lock()
	if w.Completes > 0 {
		w.AfterDone = true
	}
	w.Calls = append(w.Calls, Call{Kind: kind, Data: append([]byte(nil), data...)})
	w.mu.Unlock()
}

func (w *Recorder) Write(p []byte) (int, error) {
	if atomic.LoadInt32(&w.inFlush) > 0 {
		atomic.AddInt32(&w.foreign, 1)
		w.mu.Lock()
		w.Overlap = true
		w.mu.Unlock()
	}
	w.enter("write", p)
	w.mu.Lock()
	w.cur = append(w.cur, p...)
	w.mu.Unlock()
	return len(p), nil
}

func (w *Recorder) Flush() error {
	n := int(atomic.AddInt32(&w.flushes, 1)) - 1
	nested := atomic.AddInt32(&w.inFlush, 1) > 1
	if nested {
		atomic.AddInt32(&w.foreign, 1)
		w.mu.Lock()
		w.Overlap = true
		w.mu.Unlock()
	}
	w.enter("flush", nil)
	if w.SlowFlush != nil && n > 0 && !nested {
		w.SlowFlush(w, n)
	}
	w.mu.Lock()
	w.Frames = append(w.Frames, w.cur)
	w.cur = nil
	cb := w.onEvent
	w.mu.Unlock()
	atomic.AddInt32(&w.inFlush, -1)
	if cb != nil {
		cb("flush")
	}
	return nil
}

func (w *Recorder) Complete() {
	w.mu.Lock()
	w.Calls = append(w.Calls, Call{Kind: "complete"})
	w.Completes++
	cb := w.onEvent
	w.mu.Unlock()
	if cb != nil {
		cb("complete")
	}
}
func (w *Recorder) Heartbeat() error { w.enter("heartbeat", nil); return nil }
func (w *Recorder) Error(data []byte) {
	w.enter("error", data)
}

// Unflushed is what was written after the last Flush.
func (w *Recorder) Unflushed() []byte { w.mu.Lock(); defer w.mu.Unlock(); return w.cur }

var _ resolve.SubscriptionResponseWriter = (*Recorder)(nil)

// ---------------------------------------------------------------- the lab

// Req is one subgraph request of a run.
type Req struct {
	Index    int
	Subgraph string
	Query    string
	Vars     string
	Phase    int // 0 = before the first flush (primary fetches), 1 = deferred phase
	Response []byte
	release  chan struct{}
}

func (r *Req) Ident() string { return r.Subgraph + "|" + r.Query + "|" + r.Vars }

type Lab struct {
	Config   *fedlab.Config
	Universe *fedlab.Universe
	Engine   *engine.ExecutionEngine
	Exec     *fedlab.ExecServer
	Schema   *graphql.Schema
	id       string
	cancel   context.CancelFunc

	planConfig plan.Configuration

	mu  sync.Mutex
	run *runState
}

type runState struct {
	gate     bool
	reqs     []*Req
	blocked  []*Req
	flushed  int
	inflight int // requests being answered (between release and return)
	lastEv   time.Time
	done     bool
	cond     *sync.Cond
}

var labN struct {
	sync.Mutex
	n int
}

func NewLab(cfg *fedlab.Config, u *fedlab.Universe, exec *fedlab.ExecServer) (*Lab, error) {
	labN.Lock()
	labN.n++
	id := fmt.Sprintf("D%d", labN.n)
	labN.Unlock()
	l := &Lab{Config: cfg, Exec: exec, id: id}
	ctx, cancel := context.WithCancel(context.Background())
	l.cancel = cancel
	httpClient := &http.Client{Transport: transport{l}}
	subscriptionClient := graphql_datasource.NewGraphQLSubscriptionClient(ctx,
		graphql_datasource.WithUpgradeClient(httpClient), graphql_datasource.WithStreamingClient(httpClient))
	factory, err := graphql_datasource.NewFactory(ctx, httpClient, subscriptionClient)
	if err != nil {
		return nil, err
	}
	schema, err := graphql.NewSchemaFromString(cfg.Super.SDL())
	if err != nil {
		return nil, fmt.Errorf("supergraph schema: %w", err)
	}
	l.Schema = schema
	conf := engine.NewConfiguration(schema)
	for _, g := range cfg.Subgraphs {
		sdl := cfg.SubgraphSDL(g)
		schemaConfig, err := graphql_datasource.NewSchemaConfiguration(sdl,
			&graphql_datasource.FederationConfiguration{Enabled: true, ServiceSDL: sdl})
		if err != nil {
			return nil, fmt.Errorf("subgraph %s schema configuration: %w", g.Name, err)
		}
		dsConfig, err := graphql_datasource.NewConfiguration(graphql_datasource.ConfigurationInput{
			Fetch:               &graphql_datasource.FetchConfiguration{URL: g.URL(), Method: http.MethodPost},
			SchemaConfiguration: schemaConfig,
		})
		if err != nil {
			return nil, fmt.Errorf("subgraph %s configuration: %w", g.Name, err)
		}
		ds, err := plan.NewDataSourceConfiguration[graphql_datasource.Configuration](g.Name, factory, cfg.Metadata(g), dsConfig)
		if err != nil {
			return nil, fmt.Errorf("subgraph %s datasource: %w", g.Name, err)
		}
		conf.AddDataSource(ds)
		l.planConfig.DataSources = append(l.planConfig.DataSources, ds)
	}
	conf.SetFieldConfigurations(cfg.FieldConfigurations())
	l.planConfig.Fields = cfg.FieldConfigurations()
	l.planConfig.DefaultFlushIntervalMillis = engine.DefaultFlushIntervalInMilliseconds
	eng, err := engine.NewExecutionEngine(ctx, abstractlogger.Noop{}, conf, resolve.ResolverOptions{MaxConcurrency: 1024})
	if err != nil {
		return nil, err
	}
	l.Engine = eng
	if u != nil {
		if err := l.SetUniverse(u); err != nil {
			return nil, err
		}
	}
	return l, nil
}

func (l *Lab) superID() string          { return l.id + "_super" }
func (l *Lab) subID(name string) string { return l.id + "_" + name }

func (l *Lab) SetUniverse(u *fedlab.Universe) error {
	l.Universe = u
	if err := l.Exec.Def(l.superID(), l.Config.Super, u); err != nil {
		return err
	}
	for _, g := range l.Config.Subgraphs {
		if err := l.Exec.Def(l.subID(g.Name), l.Config.SubSchema(g), u); err != nil {
			return err
		}
	}
	return nil
}

func (l *Lab) Close() {
	l.cancel()
	l.Exec.Undef(l.superID())
	for _, g := range l.Config.Subgraphs {
		l.Exec.Undef(l.subID(g.Name))
	}
}

// Mono executes the operation over the whole supergraph in the reference executor.
func (l *Lab) Mono(operation, opName string, variables []byte) (*fedlab.ExecResult, error) {
	dump, err := fedlab.DumpOperation(operation)
	if err != nil {
		return nil, err
	}
	vars := fedlab.JO()
	if len(bytes.TrimSpace(variables)) > 0 {
		if vars, err = fedlab.ParseJSON(variables); err != nil {
			return nil, err
		}
	}
	return l.Exec.Exec(l.superID(), "mono", dump, opName, vars)
}

// Chooser picks which blocked request to release next: it gets the blocked requests sorted by
// Ident and returns an index; returning -1 releases all of them at once.
type Chooser func(step int, blocked []*Req) int

// Run is the outcome of one execution.
type Run struct {
	Err      error
	Rec      *Recorder
	Reqs     []*Req
	Choices  []int // branching factor met at each step (number of blocked requests)
	Picked   []int
	TimedOut bool
	Wall     time.Duration
}

const settle = 1500 * time.Microsecond

// Execute sends one operation through ExecutionEngine.Execute with a recording writer.  With
// choose == nil nothing is gated.  With a chooser, every subgraph request that arrives after the
// first Flush is held; whenever the system is quiescent (no request being answered, no event for
// the settle time) the chooser releases one.
func (l *Lab) Execute(operation, opName string, variables []byte, choose Chooser, timeout time.Duration) *Run {
	l.mu.Lock()
	rs := &runState{gate: choose != nil, lastEv: time.Now()}
	rs.cond = sync.NewCond(&l.mu)
	l.run = rs
	l.mu.Unlock()
	defer func() { l.mu.Lock(); l.run = nil; l.mu.Unlock() }()

	rec := &Recorder{}
	rec.onEvent = func(kind string) {
		l.mu.Lock()
		if kind == "flush" {
			rs.flushed++
		}
		rs.lastEv = time.Now()
		l.mu.Unlock()
	}
	if timeout == 0 {
		timeout = 10 * time.Second
	}
	ctx, cancel := context.WithTimeout(context.Background(), timeout)
	defer cancel()
	req := &graphql.Request{OperationName: opName, Query: operation}
	if len(bytes.TrimSpace(variables)) > 0 {
		req.Variables = json.RawMessage(variables)
	}
	out := &Run{Rec: rec}
	t0 := time.Now()
	finished := make(chan struct{})
	go func() {
		defer close(finished)
		defer func() {
			if p := recover(); p != nil {
				out.Err = fmt.Errorf("panic in Execute: %v", p)
			}
		}()
		out.Err = l.Engine.Execute(ctx, req, rec, nil...)
	}()
	step := 0
loop:
	for {
		select {
		case <-finished:
			break loop
		case <-ctx.Done():
			out.TimedOut = true
			l.mu.Lock()
			for _, b := range rs.blocked {
				close(b.release)
			}
			rs.blocked = nil
			l.mu.Unlock()
			<-finished
			break loop
		case <-time.After(settle / 3):
		}
		if choose == nil {
			continue
		}
		l.mu.Lock()
		if len(rs.blocked) > 0 && rs.inflight == 0 && time.Since(rs.lastEv) >= settle {
			sort.Slice(rs.blocked, func(i, j int) bool {
				if rs.blocked[i].Ident() != rs.blocked[j].Ident() {
					return rs.blocked[i].Ident() < rs.blocked[j].Ident()
				}
				return rs.blocked[i].Index < rs.blocked[j].Index
			})
			k := choose(step, rs.blocked)
			out.Choices = append(out.Choices, len(rs.blocked))
			out.Picked = append(out.Picked, k)
			step++
			if k < 0 {
				for _, b := range rs.blocked {
					rs.inflight++
					close(b.release)
				}
				rs.blocked = nil
			} else {
				k = k % len(rs.blocked)
				b := rs.blocked[k]
				rs.blocked = append(rs.blocked[:k:k], rs.blocked[k+1:]...)
				rs.inflight++
				close(b.release)
			}
			rs.lastEv = time.Now()
		}
		l.mu.Unlock()
	}
	out.Wall = time.Since(t0)
	l.mu.Lock()
	out.Reqs = append(out.Reqs, rs.reqs...)
	l.mu.Unlock()
	return out
}

// ---------------------------------------------------------------- the subgraph transport

type transport struct{ l *Lab }

func (t transport) RoundTrip(hr *http.Request) (*http.Response, error) {
	l := t.l
	var body []byte
	if hr.Body != nil {
		body, _ = io.ReadAll(hr.Body)
		hr.Body.Close()
	}
	r := &Req{Subgraph: strings.TrimSuffix(hr.URL.Hostname(), ".fedlab")}
	bj, err := fedlab.ParseJSON(body)
	if err == nil && bj.Kind == fedlab.JObj {
		if q := bj.Get("query"); q != nil && q.Kind == fedlab.JStr {
			r.Query = q.Raw
		}
		if v := bj.Get("variables"); v != nil {
			r.Vars = v.String()
		}
	}
	l.mu.Lock()
	rs := l.run
	gated := false
	if rs != nil {
		r.Index = len(rs.reqs)
		rs.reqs = append(rs.reqs, r)
		rs.lastEv = time.Now()
		if rs.flushed > 0 {
			r.Phase = 1
			if rs.gate {
				gated = true
				r.release = make(chan struct{})
				rs.blocked = append(rs.blocked, r)
			}
		}
	}
	l.mu.Unlock()
	if gated {
		select {
		case <-r.release:
		case <-hr.Context().Done():
			return nil, hr.Context().Err()
		}
	}
	r.Response = l.answer(r, bj)
	if rs != nil {
		l.mu.Lock()
		if gated {
			rs.inflight--
		}
		rs.lastEv = time.Now()
		l.mu.Unlock()
	}
	return &http.Response{
		Status: "200 OK", StatusCode: 200, Proto: "HTTP/1.1", ProtoMajor: 1, ProtoMinor: 1,
		Header: http.Header{"Content-Type": []string{"application/json"}},
		Body:   io.NopCloser(bytes.NewReader(r.Response)), ContentLength: int64(len(r.Response)), Request: hr,
	}, nil
}

func (l *Lab) answer(r *Req, bj *fedlab.J) []byte {
	fail := func(msg string) []byte {
		return []byte(fedlab.JO(fedlab.Member{Key: "errors", Val: fedlab.JA(fedlab.JO(fedlab.Member{Key: "message", Val: fedlab.JS(msg)}))}).String())
	}
	if bj == nil || bj.Kind != fedlab.JObj {
		return fail("request body is not a JSON object")
	}
	g := l.Config.Subgraph(r.Subgraph)
	if g == nil {
		return fail("unknown subgraph host " + r.Subgraph)
	}
	doc, report := astparser.ParseGraphqlDocumentString(r.Query)
	if report.HasErrors() {
		return fail("query does not parse: " + report.Error())
	}
	vars := bj.Get("variables")
	if vars == nil || vars.Kind != fedlab.JObj {
		vars = fedlab.JO()
	}
	opName := ""
	if on := bj.Get("operationName"); on != nil && on.Kind == fedlab.JStr {
		opName = on.Raw
	}
	res, err := l.Exec.Exec(l.subID(g.Name), "sub", fedlab.DumpDocument(&doc), opName, vars)
	if err != nil {
		return fail("fedlab: " + err.Error())
	}
	return res.HTTPBody()
}
