package plan

// Generator for plan trees whose nodes carry data paths of length 0..3 (Gen.Paths): field path
// mappings such as ["data","user"], empty paths (the value is the enclosing object itself: flattened /
// virtual objects), list items below a key, shared prefixes between siblings and segments equal to a
// sibling's key.  Used by C02 only; with Gen.Paths unset the generator in plan.go is untouched and its
// random stream is the one C10 and C14 were built on.
//
// Within one object value the data paths that are read (looking through flattened objects) are kept
// pairwise prefix-incomparable (coq/C02/Spec.v plan_wf); Gen.Overlap lifts that for a separate stream.

import "gvh/common"

var prefixPool = []string{"n", "m", "data", "a", "b", "c"}

// PathStats is filled while generating (Gen.Stats != nil).
type PathStats struct {
	Len           [4]int // nodes with a data path of length 0,1,2,3 (field values and list items)
	Flattened     int    // objects with an empty path in field position
	ItemWithPath  int    // list items with a non-empty path
	SharedPrefix  int    // sibling pairs sharing a proper prefix
	SegIsSibKey   int    // a later segment equal to a sibling's first key
	NullableMulti int    // nullable objects/lists with a path of two or more segments
	Overlapping   int    // sibling pairs with comparable paths (Overlap stream only)
}

type scope struct {
	used [][]string
}

func comparablePaths(a, b []string) bool {
	n := len(a)
	if len(b) < n {
		n = len(b)
	}
	for i := 0; i < n; i++ {
		if a[i] != b[i] {
			return false
		}
	}
	return true
}

func (s *scope) free(p []string) bool {
	for _, u := range s.used {
		if comparablePaths(u, p) {
			return false
		}
	}
	return true
}

func (g *Gen) note(sc *scope, p []string) {
	if g.Stats == nil {
		return
	}
	for _, u := range sc.used {
		if comparablePaths(u, p) {
			g.Stats.Overlapping++
			continue
		}
		if len(u) > 1 && len(p) > 1 && u[0] == p[0] {
			g.Stats.SharedPrefix++
		}
		for _, seg := range p[1:] {
			if len(u) > 0 && u[0] == seg {
				g.Stats.SegIsSibKey++
			}
		}
		if len(p) > 0 {
			for _, seg := range u[min(1, len(u)):] {
				if p[0] == seg {
					g.Stats.SegIsSibKey++
				}
			}
		}
	}
}

func (g *Gen) count(n *Node, asItem bool) {
	if g.Stats == nil || !hasPathKind(n) {
		return
	}
	l := len(n.Path)
	if l > 3 {
		l = 3
	}
	g.Stats.Len[l]++
	if asItem && len(n.Path) > 0 {
		g.Stats.ItemWithPath++
	}
	if !asItem && len(n.Path) == 0 && n.Kind == KObj {
		g.Stats.Flattened++
	}
	if (n.Kind == KObj || n.Kind == KArr) && n.Nullable && len(n.Path) >= 2 {
		g.Stats.NullableMulti++
	}
}

func hasPathKind(n *Node) bool {
	switch n.Kind {
	case KNull, KStatic, KEmptyObj, KEmptyArr:
		return false
	}
	return true
}

// fieldPath picks the data path of a field value: 55% [name], 20% two segments, 10% three, 15% empty.
func (g *Gen) fieldPath(name string) []string {
	last := name
	if g.R.Chance(1, 4) {
		last = common.PickOf(g.R, fieldNames)
	}
	switch k := g.R.Pick(20); {
	case k < 11:
		return []string{name}
	case k < 15:
		return []string{common.PickOf(g.R, prefixPool), last}
	case k < 17:
		return []string{common.PickOf(g.R, prefixPool), common.PickOf(g.R, prefixPool), last}
	}
	return nil
}

func (g *Gen) itemPath() []string {
	switch k := g.R.Pick(10); {
	case k < 7:
		return nil
	case k < 9:
		return []string{common.PickOf(g.R, prefixPool)}
	}
	return []string{common.PickOf(g.R, prefixPool), common.PickOf(g.R, fieldNames)}
}

func (g *Gen) nodeP(depth int, path []string, encl [][]string, asItem bool) *Node {
	var n *Node
	switch {
	case depth >= g.MaxDepth || g.R.Chance(2, 5):
		n = g.leaf(path)
	case g.R.Chance(1, 3):
		n = &Node{Kind: KArr, Path: path, Nullable: g.R.Chance(1, 2)}
		n.Item = g.nodeP(depth+1, g.itemPath(), encl, true)
	default:
		return g.objectP(depth, path, encl, nil, nil, asItem)
	}
	g.count(n, asItem)
	return n
}

// objectP: inherit != nil when the object is a field value with an empty path: it reads the value of
// parent, so its fields share parent's scope.
func (g *Gen) objectP(depth int, path []string, encl [][]string, inherit *scope, parent *Node, asItem bool) *Node {
	o := &Node{Kind: KObj, Path: path, Nullable: g.R.Chance(1, 2), TypeName: common.PickOf(g.R, typeNames)}
	var possible []string
	if inherit != nil && g.R.Chance(3, 4) {
		// same value as the parent: mostly the same runtime-type contract
		o.TypeName = parent.TypeName
		if g.R.Chance(1, 2) {
			possible = parent.Possible
		}
	} else {
		switch shape := g.R.Pick(4); {
		case g.TypeShapes:
			possible = g.typeShape(o)
		case shape == 0:
		case shape == 1:
			possible = []string{o.TypeName}
		default:
			o.TypeName = "I"
			k := 1 + g.R.Pick(3)
			perm := g.R.Perm(len(typeNames))
			for i := 0; i < k; i++ {
				possible = append(possible, typeNames[perm[i]])
			}
			if g.R.Chance(1, 4) {
				o.Inaccessible = []string{"X"}
			}
		}
	}
	o.Possible = possible
	if g.R.Chance(1, 60) {
		o.Unresolvable = true
	}
	g.count(o, asItem)
	sc := inherit
	if sc == nil {
		sc = &scope{}
	}
	encl2 := append([][]string{possible}, encl...)
	nf := 1 + g.R.Pick(4)
	if (len(possible) > 1 || g.R.Chance(1, 3) || (g.TypeShapes && g.R.Chance(1, 2))) && (g.Overlap || sc.free([]string{"__typename"})) {
		sc.used = append(sc.used, []string{"__typename"})
		tn := &Node{Kind: KStr, Path: []string{"__typename"}, Nullable: g.R.Chance(1, 5)}
		if g.TypeShapes {
			tn = g.typeNameLeaf()
		}
		g.count(tn, false)
		o.Fields = append(o.Fields, &Field{Name: "__typename", Value: tn})
	}
	used := map[string]bool{}
	for i := 0; i < nf; i++ {
		name := common.PickOf(g.R, fieldNames)
		if used[name] {
			continue
		}
		p := g.fieldPath(name)
		forced := false
		if g.Overlap && len(sc.used) > 0 && g.R.Chance(1, 2) {
			// read through a sibling: its path, an extension of it, or a proper prefix
			u := sc.used[g.R.Pick(len(sc.used))]
			if len(u) > 0 && u[0] == "__typename" {
				u = nil
			}
			switch k := g.R.Pick(4); {
			case k < 2 && len(u) < 3:
				p = append(append([]string{}, u...), common.PickOf(g.R, fieldNames))
			case k == 2 && len(u) > 1:
				p = append([]string{}, u[:len(u)-1]...)
			default:
				p = append([]string{}, u...)
			}
			forced = len(p) > 0
		}
		f := &Field{Name: name}
		switch {
		case len(p) == 0:
			if g.R.Chance(4, 5) && depth+1 < g.MaxDepth {
				f.Value = g.objectP(depth+1, nil, encl2, sc, o, false)
			} else if len(sc.used) == 0 || g.Overlap {
				// a leaf or list reading the enclosing object itself: alone in its scope
				g.note(sc, []string{})
				sc.used = append(sc.used, []string{})
				if g.R.Chance(1, 4) {
					f.Value = &Node{Kind: KArr, Nullable: g.R.Chance(1, 2), Item: g.nodeP(depth+2, g.itemPath(), encl2, true)}
				} else {
					f.Value = g.leaf(nil)
				}
				g.count(f.Value, false)
			} else {
				continue
			}
		default:
			if !forced {
				if !sc.free(p) {
					p = []string{name}
				}
				if !sc.free(p) {
					continue
				}
			}
			g.note(sc, p)
			sc.used = append(sc.used, p)
			f.Value = g.nodeP(depth+1, p, encl2, false)
		}
		used[name] = true
		if len(possible) > 0 && g.R.Chance(1, 3) {
			k := 1 + g.R.Pick(len(possible))
			f.On = append([]string{}, possible[:k]...)
			if g.R.Chance(1, 6) {
				f.On = append(f.On, "Z")
			}
		}
		if len(encl2) > 1 && g.R.Chance(1, 6) {
			d := 1 + g.R.Pick(len(encl2)-1)
			if len(encl2[d]) > 0 {
				f.ParentOn = []ParentOn{{Depth: d, Names: encl2[d][:1+g.R.Pick(len(encl2[d]))]}}
			}
		}
		if g.Auth && g.R.Chance(1, 3) && len(f.Value.Path) >= 1 {
			f.Auth = &Auth{ParentType: o.TypeName, FieldName: name}
		}
		o.Fields = append(o.Fields, f)
	}
	return o
}

// ---- payloads

// wrapped nests the node's value below its path: {"p0":{"p1":v}}
func (g *Gen) wrapped(n *Node) *jv {
	v := g.wellTypedP(n)
	for i := len(n.Path) - 1; i >= 0; i-- {
		v = &jv{kind: 'o', keys: []string{n.Path[i]}, items: []*jv{v}}
	}
	return v
}

func (j *jv) get(key string) *jv {
	for i, k := range j.keys {
		if k == key {
			return j.items[i]
		}
	}
	return nil
}

// place stores a well-typed value for the field value c below the object o
func (g *Gen) place(o *jv, c *Node) {
	if !hasPathKind(c) {
		return
	}
	if len(c.Path) == 0 {
		if c.Kind == KObj {
			g.fillObj(o, c)
		}
		return
	}
	cur := o
	for _, seg := range c.Path[:len(c.Path)-1] {
		next := cur.get(seg)
		if next == nil {
			next = &jv{kind: 'o'}
			cur.keys = append(cur.keys, seg)
			cur.items = append(cur.items, next)
		}
		if next.kind != 'o' {
			return
		}
		cur = next
	}
	last := c.Path[len(c.Path)-1]
	if cur.get(last) != nil {
		return
	}
	cur.keys = append(cur.keys, last)
	cur.items = append(cur.items, g.wellTypedP(c))
}

func (g *Gen) fillObj(o *jv, n *Node) {
	if o.get("__typename") == nil && (len(n.Possible) > 0 || g.R.Chance(1, 2)) {
		tn := n.TypeName
		if len(n.Possible) > 0 {
			tn = common.PickOf(g.R, n.Possible)
		}
		o.keys = append(o.keys, "__typename")
		o.items = append(o.items, &jv{kind: 's', raw: tn})
	}
	for _, f := range n.Fields {
		g.place(o, f.Value)
	}
}

func (g *Gen) wellTypedP(n *Node) *jv {
	switch n.Kind {
	case KArr:
		if n.Nullable && g.R.Chance(1, 8) {
			return &jv{kind: 'n'}
		}
		a := &jv{kind: 'a'}
		k := g.R.Pick(4)
		for i := 0; i < k; i++ {
			a.items = append(a.items, g.wrapped(n.Item))
		}
		return a
	case KObj:
		if n.Nullable && g.R.Chance(1, 8) {
			return &jv{kind: 'n'}
		}
		o := &jv{kind: 'o'}
		g.fillObj(o, n)
		return o
	}
	return g.wellTyped(n)
}
