// Package plan: response-plan trees (mirror of coq/C02/Model.v [node]) with a generator, an
// S-expression dump for the extracted model and a builder of the real resolve.Node tree.
package plan

import (
	"strconv"
	"strings"

	"gvh/common"

	"github.com/wundergraph/astjson"
	"github.com/wundergraph/graphql-go-tools/v2/pkg/engine/resolve"
)

type Kind int

const (
	KObj Kind = iota
	KArr
	KStr
	KBool
	KInt
	KFloat
	KBigInt
	KScalar
	KEnum
	KNull
	KStatic
	KEmptyObj
	KEmptyArr
)

type ParentOn struct {
	Depth int
	Names []string
}

type Field struct {
	Name     string
	On       []string // nil = no condition
	ParentOn []ParentOn
	Auth     *Auth
	Value    *Node
}

type Auth struct{ ParentType, FieldName string }

type Node struct {
	Kind         Kind
	Path         []string
	Nullable     bool
	TypeName     string
	Possible     []string
	Inaccessible []string
	Unresolvable bool
	Fields       []*Field
	Item         *Node
	Values       []string // enum
	InaccValues  []string
	Static       string
	IsTypeName   bool // KStr: resolve.String{IsTypeName: true} (only generated with Gen.TypeShapes)
}

func strs(xs []string) string {
	items := make([]string, len(xs))
	for i, x := range xs {
		items[i] = common.QS(x)
	}
	return "(" + strings.Join(items, " ") + ")"
}

// Sexp dumps the tree in the format read by the OCaml drivers.
func (n *Node) Sexp() string {
	switch n.Kind {
	case KObj:
		fs := []string{"fields"}
		for _, f := range n.Fields {
			on := "(none)"
			if f.On != nil {
				on = "(some " + strs(f.On) + ")"
			}
			pon := "(none)"
			if f.ParentOn != nil {
				items := []string{"some"}
				for _, p := range f.ParentOn {
					items = append(items, common.L(common.I(p.Depth), strs(p.Names)))
				}
				pon = common.L(items...)
			}
			auth := "(none)"
			if f.Auth != nil {
				auth = common.L("some", common.QS(f.Auth.ParentType), common.QS(f.Auth.FieldName))
			}
			fs = append(fs, common.L("fld", common.QS(f.Name), on, pon, auth, f.Value.Sexp()))
		}
		return common.L("obj", strs(n.Path), common.B(n.Nullable), common.QS(n.TypeName), strs(n.Possible), strs(n.Inaccessible), common.B(n.Unresolvable), common.L(fs...))
	case KArr:
		return common.L("arr", strs(n.Path), common.B(n.Nullable), n.Item.Sexp())
	case KStr:
		if n.IsTypeName {
			return common.L("str", strs(n.Path), common.B(n.Nullable), "(tn)")
		}
		return common.L("str", strs(n.Path), common.B(n.Nullable))
	case KBool:
		return common.L("bool", strs(n.Path), common.B(n.Nullable))
	case KInt:
		return common.L("int", strs(n.Path), common.B(n.Nullable))
	case KFloat:
		return common.L("float", strs(n.Path), common.B(n.Nullable))
	case KBigInt:
		return common.L("bigint", strs(n.Path), common.B(n.Nullable))
	case KScalar:
		return common.L("scalar", strs(n.Path), common.B(n.Nullable))
	case KEnum:
		return common.L("enum", strs(n.Path), common.B(n.Nullable), common.QS(n.TypeName), strs(n.Values), strs(n.InaccValues))
	case KNull:
		return "(null)"
	case KStatic:
		return common.L("static", common.QS(n.Static))
	case KEmptyObj:
		return "(emptyobj)"
	case KEmptyArr:
		return "(emptyarr)"
	}
	return "(bad)"
}

func set(xs []string) map[string]struct{} {
	if len(xs) == 0 {
		return nil
	}
	m := map[string]struct{}{}
	for _, x := range xs {
		m[x] = struct{}{}
	}
	return m
}

func bs(xs []string) [][]byte {
	if xs == nil {
		return nil
	}
	out := make([][]byte, len(xs))
	for i, x := range xs {
		out[i] = []byte(x)
	}
	return out
}

func path(p []string) []string {
	if len(p) == 0 {
		return nil
	}
	return p
}

// Build produces the real resolve.Node. dsID is used for authorization sources.
func (n *Node) Build() resolve.Node {
	switch n.Kind {
	case KObj:
		o := &resolve.Object{Nullable: n.Nullable, Path: path(n.Path), Unresolvable: n.Unresolvable, TypeName: n.TypeName,
			PossibleTypes: set(n.Possible), InaccessibleTypes: set(n.Inaccessible), SourceName: "sg"}
		for _, f := range n.Fields {
			rf := &resolve.Field{Name: []byte(f.Name), Value: f.Value.Build(), OnTypeNames: bs(f.On)}
			for _, p := range f.ParentOn {
				rf.ParentOnTypeNames = append(rf.ParentOnTypeNames, resolve.ParentOnTypeNames{Depth: p.Depth, Names: bs(p.Names)})
			}
			if f.Auth != nil {
				rf.Info = &resolve.FieldInfo{Name: f.Auth.FieldName, ExactParentTypeName: f.Auth.ParentType, HasAuthorizationRule: true,
					Source: resolve.TypeFieldSource{IDs: []string{"ds1"}, Names: []string{"sg"}}}
			}
			o.Fields = append(o.Fields, rf)
		}
		return o
	case KArr:
		return &resolve.Array{Path: path(n.Path), Nullable: n.Nullable, Item: n.Item.Build()}
	case KStr:
		return &resolve.String{Path: path(n.Path), Nullable: n.Nullable, IsTypeName: n.IsTypeName}
	case KBool:
		return &resolve.Boolean{Path: path(n.Path), Nullable: n.Nullable}
	case KInt:
		return &resolve.Integer{Path: path(n.Path), Nullable: n.Nullable}
	case KFloat:
		return &resolve.Float{Path: path(n.Path), Nullable: n.Nullable}
	case KBigInt:
		return &resolve.BigInt{Path: path(n.Path), Nullable: n.Nullable}
	case KScalar:
		return &resolve.Scalar{Path: path(n.Path), Nullable: n.Nullable}
	case KEnum:
		return &resolve.Enum{Path: path(n.Path), Nullable: n.Nullable, TypeName: n.TypeName, Values: n.Values, InaccessibleValues: n.InaccValues}
	case KNull:
		return &resolve.Null{}
	case KStatic:
		return &resolve.StaticString{Value: n.Static}
	case KEmptyObj:
		return &resolve.EmptyObject{}
	case KEmptyArr:
		return &resolve.EmptyArray{}
	}
	return nil
}

// JSONSexp dumps an astjson value: strings decoded, numbers raw, member order kept.
func JSONSexp(v *astjson.Value) string {
	if v == nil {
		return "(n)"
	}
	switch v.Type() {
	case astjson.TypeNull:
		return "(n)"
	case astjson.TypeTrue:
		return "(t)"
	case astjson.TypeFalse:
		return "(f)"
	case astjson.TypeNumber:
		return common.L("num", common.Q(v.MarshalTo(nil)))
	case astjson.TypeString:
		return common.L("s", common.Q(v.GetStringBytes()))
	case astjson.TypeArray:
		items := []string{"a"}
		for _, x := range v.GetArray() {
			items = append(items, JSONSexp(x))
		}
		return common.L(items...)
	case astjson.TypeObject:
		items := []string{"o"}
		o, _ := v.Object()
		o.Visit(func(k []byte, x *astjson.Value) {
			items = append(items, common.L(common.Q(k), JSONSexp(x)))
		})
		return common.L(items...)
	}
	return "(n)"
}

// ---------------------------------------------------------------- generator

var fieldNames = []string{"a", "b", "c", "d", "e", "f", "g"}
var typeNames = []string{"A", "B", "C", "D"}
var enumValues = []string{"RED", "GREEN", "BLUE"}

type Gen struct {
	R        *common.Rand
	MaxDepth int
	Auth     bool // attach authorization rules to some fields
	// Paths: data paths of length 0..3 on every node (paths.go). Unset: single-key field paths and
	// empty item paths, the random stream C10 and C14 were built on.
	Paths   bool
	Overlap bool       // with Paths: let sibling paths be prefixes of one another (outside plan_wf)
	Stats   *PathStats // with Paths: filled while generating
	// TypeShapes (typeshapes.go; C02 only, unset = the stream C10/C14 were built on): every
	// (TypeName, PossibleTypes) shape on objects incl. entity interfaces, String{IsTypeName:true} leaves for
	// __typename selections, and a payload mutation that puts every JSON kind (or nothing) at "__typename".
	TypeShapes bool
	TStats     *TypeStats
}

func (g *Gen) leaf(path []string) *Node {
	n := &Node{Path: path, Nullable: g.R.Chance(1, 2)}
	switch g.R.Pick(9) {
	case 0, 1:
		n.Kind = KStr
	case 2:
		n.Kind = KInt
	case 3:
		n.Kind = KFloat
	case 4:
		n.Kind = KBool
	case 5:
		n.Kind = KEnum
		n.TypeName = "Color"
		n.Values = enumValues
		if g.R.Chance(1, 2) {
			n.InaccValues = []string{"BLUE"}
		}
	case 6:
		n.Kind = KScalar
	case 7:
		n.Kind = KBigInt
	case 8:
		switch g.R.Pick(4) {
		case 0:
			return &Node{Kind: KNull}
		case 1:
			return &Node{Kind: KStatic, Static: "Static"}
		case 2:
			return &Node{Kind: KEmptyObj}
		default:
			return &Node{Kind: KEmptyArr}
		}
	}
	return n
}

// depthTypes: abstract-ness of the enclosing objects, innermost first (for ParentOnTypeNames)
func (g *Gen) node(depth int, path []string, encl [][]string) *Node {
	if depth >= g.MaxDepth || g.R.Chance(2, 5) {
		return g.leaf(path)
	}
	if g.R.Chance(1, 3) {
		return &Node{Kind: KArr, Path: path, Nullable: g.R.Chance(1, 2), Item: g.node(depth+1, nil, encl)}
	}
	return g.object(depth, path, encl)
}

func (g *Gen) object(depth int, path []string, encl [][]string) *Node {
	o := &Node{Kind: KObj, Path: path, Nullable: g.R.Chance(1, 2), TypeName: common.PickOf(g.R, typeNames)}
	var possible []string
	switch shape := g.R.Pick(4); {
	case g.TypeShapes:
		possible = g.typeShape(o)
	case shape == 0: // concrete, no possible types recorded
	case shape == 1: // concrete with itself
		possible = []string{o.TypeName}
	default: // abstract
		o.TypeName = "I"
		k := 1 + g.R.Pick(3)
		perm := g.R.Perm(len(typeNames))
		for i := 0; i < k; i++ {
			possible = append(possible, typeNames[perm[i]])
		}
		if g.R.Chance(1, 4) {
			o.Inaccessible = []string{"X"}
		}
	}
	o.Possible = possible
	if g.R.Chance(1, 60) {
		o.Unresolvable = true
	}
	encl2 := append([][]string{possible}, encl...)
	nf := 1 + g.R.Pick(4)
	if g.TypeShapes {
		if g.R.Chance(3, 5) {
			o.Fields = append(o.Fields, &Field{Name: "__typename", Value: g.typeNameLeaf()})
		}
	} else if len(possible) > 1 || g.R.Chance(1, 3) {
		o.Fields = append(o.Fields, &Field{Name: "__typename", Value: &Node{Kind: KStr, Path: []string{"__typename"}, Nullable: g.R.Chance(1, 5)}})
	}
	used := map[string]bool{}
	for i := 0; i < nf; i++ {
		name := common.PickOf(g.R, fieldNames)
		if used[name] {
			continue // response keys / data paths are unique within an object (the planner merges equal response names)
		}
		used[name] = true
		f := &Field{Name: name}
		// response key may differ from the data path (alias): data path is always the name here
		f.Value = g.node(depth+1, []string{name}, encl2)
		if len(possible) > 0 && g.R.Chance(1, 3) {
			k := 1 + g.R.Pick(len(possible))
			f.On = append([]string{}, possible[:k]...)
			if g.R.Chance(1, 6) {
				f.On = append(f.On, "Z")
			}
		}
		if len(encl2) > 1 && g.R.Chance(1, 6) {
			d := 1 + g.R.Pick(len(encl2)-1)
			if len(encl2[d]) > 0 {
				f.ParentOn = []ParentOn{{Depth: d, Names: encl2[d][:1+g.R.Pick(len(encl2[d]))]}}
			}
		}
		if g.Auth && g.R.Chance(1, 3) && len(f.Value.Path) == 1 {
			pt := o.TypeName
			f.Auth = &Auth{ParentType: pt, FieldName: name}
		}
		o.Fields = append(o.Fields, f)
	}
	return o
}

func (g *Gen) Tree() *Node {
	var root *Node
	if g.Paths {
		root = g.objectP(0, nil, nil, nil, nil, true)
	} else {
		root = g.object(0, nil, nil)
	}
	root.Nullable = false
	root.Unresolvable = false
	root.TypeName = "Query"
	root.Possible = nil
	root.Inaccessible = nil
	for _, f := range root.Fields {
		f.On = nil
		f.ParentOn = nil
	}
	return root
}

// ---- payloads: a JSON text built from the tree, then mutated

type jv struct {
	kind  byte // n t f # s a o
	raw   string
	items []*jv
	keys  []string
}

func (j *jv) String() string {
	switch j.kind {
	case 'n':
		return "null"
	case 't':
		return "true"
	case 'f':
		return "false"
	case '#':
		return j.raw
	case 's':
		return strconv.Quote(j.raw)
	case 'a':
		parts := make([]string, len(j.items))
		for i, x := range j.items {
			parts[i] = x.String()
		}
		return "[" + strings.Join(parts, ",") + "]"
	case 'o':
		parts := make([]string, len(j.items))
		for i, x := range j.items {
			parts[i] = strconv.Quote(j.keys[i]) + ":" + x.String()
		}
		return "{" + strings.Join(parts, ",") + "}"
	}
	return "null"
}

var strPool = []string{"x", "", "hello world", "q\"uote", "back\\slash", "tab\there", "nl\nx", "é世", "ctl\x01\x1f", "</script>"}
var numPool = []string{"0", "1", "-7", "42", "1.5", "1e3", "-0.25", "2147483648", "123456789012345678901234567890", "1E-2"}

func (g *Gen) scalar() *jv {
	switch g.R.Pick(5) {
	case 0:
		return &jv{kind: 's', raw: common.PickOf(g.R, strPool)}
	case 1:
		return &jv{kind: '#', raw: common.PickOf(g.R, numPool)}
	case 2:
		return &jv{kind: 't'}
	case 3:
		return &jv{kind: 'f'}
	}
	return &jv{kind: 'n'}
}

func (g *Gen) anyValue(d int) *jv {
	if d > 2 || g.R.Chance(1, 2) {
		return g.scalar()
	}
	if g.R.Chance(1, 2) {
		n := g.R.Pick(3)
		a := &jv{kind: 'a'}
		for i := 0; i < n; i++ {
			a.items = append(a.items, g.anyValue(d+1))
		}
		return a
	}
	o := &jv{kind: 'o'}
	n := g.R.Pick(3)
	for i := 0; i < n; i++ {
		o.keys = append(o.keys, common.PickOf(g.R, fieldNames))
		o.items = append(o.items, g.anyValue(d+1))
	}
	return o
}

// wellTyped builds a payload conforming to the node (value to be stored under the node's path by the caller)
func (g *Gen) wellTyped(n *Node) *jv {
	if g.Paths && (n.Kind == KArr || n.Kind == KObj) {
		return g.wellTypedP(n)
	}
	if n.Nullable && g.R.Chance(1, 8) {
		return &jv{kind: 'n'}
	}
	switch n.Kind {
	case KStr:
		return &jv{kind: 's', raw: common.PickOf(g.R, strPool)}
	case KInt:
		return &jv{kind: '#', raw: common.PickOf(g.R, numPool[:4])}
	case KFloat, KBigInt:
		return &jv{kind: '#', raw: common.PickOf(g.R, numPool)}
	case KBool:
		if g.R.Chance(1, 2) {
			return &jv{kind: 't'}
		}
		return &jv{kind: 'f'}
	case KEnum:
		vals := n.Values
		return &jv{kind: 's', raw: vals[g.R.Pick(2)]}
	case KScalar:
		return g.anyValue(0)
	case KArr:
		a := &jv{kind: 'a'}
		k := g.R.Pick(4)
		for i := 0; i < k; i++ {
			a.items = append(a.items, g.wellTyped(n.Item))
		}
		return a
	case KObj:
		o := &jv{kind: 'o'}
		if len(n.Possible) > 0 || g.R.Chance(1, 2) {
			tn := n.TypeName
			if len(n.Possible) > 0 {
				tn = common.PickOf(g.R, n.Possible)
			}
			o.keys = append(o.keys, "__typename")
			o.items = append(o.items, &jv{kind: 's', raw: tn})
		}
		seen := map[string]bool{"__typename": true}
		for _, f := range n.Fields {
			p := f.Value.Path
			if len(p) != 1 || seen[p[0]] {
				continue
			}
			seen[p[0]] = true
			o.keys = append(o.keys, p[0])
			o.items = append(o.items, g.wellTyped(f.Value))
		}
		return o
	}
	return &jv{kind: 'n'}
}

func collect(j *jv, acc *[]*jv) {
	*acc = append(*acc, j)
	for _, x := range j.items {
		collect(x, acc)
	}
}

// Mutate applies one random mutation somewhere in the payload; returns a label.
func (g *Gen) Mutate(root *jv) string {
	var all []*jv
	collect(root, &all)
	t := all[g.R.Pick(len(all))]
	if t == root {
		if len(all) == 1 {
			return "none"
		}
		t = all[1+g.R.Pick(len(all)-1)]
	}
	switch g.R.Pick(10) {
	case 0, 1:
		*t = jv{kind: 'n'}
		return "null"
	case 2:
		*t = *g.scalar()
		return "scalar"
	case 3:
		if t.kind == 'o' && len(t.keys) > 0 {
			i := g.R.Pick(len(t.keys))
			t.keys = append(t.keys[:i:i], t.keys[i+1:]...)
			t.items = append(t.items[:i:i], t.items[i+1:]...)
			return "delkey"
		}
		*t = jv{kind: 'n'}
		return "null"
	case 4:
		if t.kind == 'o' {
			for i, k := range t.keys {
				if k == "__typename" {
					switch g.R.Pick(4) {
					case 0:
						t.items[i] = &jv{kind: 's', raw: "Z"}
					case 1:
						t.items[i] = &jv{kind: 's', raw: "X"}
					case 2:
						t.items[i] = &jv{kind: '#', raw: "1"}
					default:
						t.items[i] = &jv{kind: 's', raw: common.PickOf(g.R, typeNames)}
					}
					return "typename"
				}
			}
		}
		*t = jv{kind: 's', raw: "PURPLE"}
		return "badenum"
	case 5:
		if t.kind == 's' {
			t.raw = common.PickOf(g.R, []string{"BLUE", "PURPLE", "RED"})
			return "enum"
		}
		*t = jv{kind: 'a'}
		return "emptyarr"
	case 6:
		if t.kind == 'a' {
			*t = jv{kind: 'o'}
			return "arr2obj"
		}
		old := *t
		*t = jv{kind: 'a', items: []*jv{&old}}
		return "wrap"
	case 7:
		if t.kind == 'o' {
			t.keys = append(t.keys, "__skipErrors")
			t.items = append(t.items, &jv{kind: 't'})
			return "skipErrors"
		}
		*t = jv{kind: 'o'}
		return "emptyobj"
	case 8:
		if t.kind == 'a' && len(t.items) > 0 {
			t.items[g.R.Pick(len(t.items))] = &jv{kind: 'n'}
			return "nullitem"
		}
		*t = jv{kind: '#', raw: "1.5"}
		return "num"
	}
	if t.kind == 'o' && len(t.keys) > 0 {
		// duplicate a key with another value (Get sees the first)
		i := g.R.Pick(len(t.keys))
		t.keys = append(t.keys, t.keys[i])
		t.items = append(t.items, g.scalar())
		return "dupkey"
	}
	*t = jv{kind: 'f'}
	return "bool"
}

// Payload returns JSON text for the tree and the list of mutation labels applied.
func (g *Gen) Payload(root *Node) (string, []string) {
	j := g.wellTyped(root)
	if j.kind != 'o' {
		j = &jv{kind: 'o'}
	}
	var labels []string
	k := 0
	switch g.R.Pick(6) {
	case 0, 1:
		k = 0
	case 2, 3:
		k = 1
	case 4:
		k = 2
	default:
		k = 3 + g.R.Pick(3)
	}
	for i := 0; i < k; i++ {
		labels = append(labels, g.Mutate(j))
	}
	if g.TypeShapes && g.R.Chance(3, 4) {
		labels = append(labels, g.mutateTypeName(j))
	}
	// root-level duplicate keys are collapsed by Init's MergeValues; keep the root duplicate free
	seen := map[string]bool{}
	var keys []string
	var items []*jv
	for i, key := range j.keys {
		if seen[key] {
			continue
		}
		seen[key] = true
		keys = append(keys, key)
		items = append(items, j.items[i])
	}
	j.keys, j.items = keys, items
	return j.String(), labels
}

// ---------------------------------------------------------------- reading back (replay)

func strsOrNil(x *common.Sexp) []string {
	if len(x.List) == 0 {
		return nil
	}
	return x.Strs()
}

// FromSexp rebuilds a plan tree from its S-expression dump.
func FromSexp(x *common.Sexp) *Node {
	l := x.List
	switch x.Head() {
	case "obj":
		n := &Node{Kind: KObj, Path: strsOrNil(l[1]), Nullable: l[2].Bool(), TypeName: string(l[3].Str),
			Possible: strsOrNil(l[4]), Inaccessible: strsOrNil(l[5]), Unresolvable: l[6].Bool()}
		for _, fx := range l[7].List[1:] {
			fl := fx.List
			f := &Field{Name: string(fl[1].Str), Value: FromSexp(fl[5])}
			if fl[2].Head() == "some" {
				f.On = fl[2].List[1].Strs()
				if f.On == nil {
					f.On = []string{}
				}
			}
			if fl[3].Head() == "some" {
				for _, p := range fl[3].List[1:] {
					d, _ := strconv.Atoi(p.List[0].Atom)
					f.ParentOn = append(f.ParentOn, ParentOn{Depth: d, Names: p.List[1].Strs()})
				}
			}
			if fl[4].Head() == "some" {
				f.Auth = &Auth{ParentType: string(fl[4].List[1].Str), FieldName: string(fl[4].List[2].Str)}
			}
			n.Fields = append(n.Fields, f)
		}
		return n
	case "arr":
		return &Node{Kind: KArr, Path: strsOrNil(l[1]), Nullable: l[2].Bool(), Item: FromSexp(l[3])}
	case "str", "bool", "int", "float", "bigint", "scalar":
		k := map[string]Kind{"str": KStr, "bool": KBool, "int": KInt, "float": KFloat, "bigint": KBigInt, "scalar": KScalar}[x.Head()]
		return &Node{Kind: k, Path: strsOrNil(l[1]), Nullable: l[2].Bool(), IsTypeName: k == KStr && len(l) > 3 && l[3].Head() == "tn"}
	case "enum":
		return &Node{Kind: KEnum, Path: strsOrNil(l[1]), Nullable: l[2].Bool(), TypeName: string(l[3].Str), Values: strsOrNil(l[4]), InaccValues: strsOrNil(l[5])}
	case "null":
		return &Node{Kind: KNull}
	case "static":
		return &Node{Kind: KStatic, Static: string(l[1].Str)}
	case "emptyobj":
		return &Node{Kind: KEmptyObj}
	case "emptyarr":
		return &Node{Kind: KEmptyArr}
	}
	return &Node{Kind: KNull}
}

// JSONText renders a JSON S-expression back to JSON text.
func JSONText(x *common.Sexp) string {
	switch x.Head() {
	case "n":
		return "null"
	case "t":
		return "true"
	case "f":
		return "false"
	case "num":
		return string(x.List[1].Str)
	case "s":
		return quoteJSON(x.List[1].Str)
	case "a":
		parts := []string{}
		for _, it := range x.List[1:] {
			parts = append(parts, JSONText(it))
		}
		return "[" + strings.Join(parts, ",") + "]"
	case "o":
		parts := []string{}
		for _, it := range x.List[1:] {
			parts = append(parts, quoteJSON(it.List[0].Str)+":"+JSONText(it.List[1]))
		}
		return "{" + strings.Join(parts, ",") + "}"
	}
	return "null"
}

func quoteJSON(b []byte) string {
	var sb strings.Builder
	sb.WriteByte('"')
	for _, c := range b {
		switch {
		case c == '"':
			sb.WriteString(`\"`)
		case c == '\\':
			sb.WriteString(`\\`)
		case c < 0x20:
			sb.WriteString("\\u00" + strconv.FormatUint(uint64(c)>>4, 16) + strconv.FormatUint(uint64(c)&15, 16))
		default:
			sb.WriteByte(c)
		}
	}
	sb.WriteByte('"')
	return sb.String()
}
