package plan

// Gen.TypeShapes (C02 only): the abstract-type guard of walkObject and the __typename leaf.
//
//   - every (TypeName, PossibleTypes) shape an Object can carry: no PossibleTypes, {own}, {own + others}
//     (entity interface: the planner adds the interface's own name next to the implementers; also a concrete
//     name listed with siblings), {others only} (interface / union), {one other} (single implementer / member),
//     each with and without InaccessibleTypes;
//   - `__typename` selections as resolve.String{IsTypeName: true} (what the planner emits), nullable or not,
//     on objects of every shape, hence also on list items and below nullable / non-null parents;
//   - a payload mutation that, at one object of the data, makes "__typename" missing / null / a valid,
//     unknown, inaccessible or empty string / a number / a boolean / an object / an array.
//
// With the option unset nothing here is reached and the random stream of plan.go / paths.go is unchanged.

import "gvh/common"

type TypeStats struct {
	Shapes         map[string]int // object nodes per (TypeName, PossibleTypes) shape
	TypeNameLeaves int            // String{IsTypeName:true} leaves
	NullableLeaves int
}

func (g *Gen) shapeStat(k string) {
	if g.TStats == nil {
		return
	}
	if g.TStats.Shapes == nil {
		g.TStats.Shapes = map[string]int{}
	}
	g.TStats.Shapes[k]++
}

// others returns k distinct type names different from own, in random order.
func (g *Gen) others(own string, k int) []string {
	var out []string
	for _, i := range g.R.Perm(len(typeNames)) {
		if typeNames[i] != own && len(out) < k {
			out = append(out, typeNames[i])
		}
	}
	return out
}

// typeShape sets o.TypeName / o.Inaccessible and returns PossibleTypes.
func (g *Gen) typeShape(o *Node) []string {
	var possible []string
	switch g.R.Pick(6) {
	case 0:
		g.shapeStat("none")
	case 1:
		possible = []string{o.TypeName}
		g.shapeStat("own")
	case 2:
		// own + others: entity interface ("I" listed next to its implementers) or a concrete name among siblings
		if g.R.Chance(2, 3) {
			o.TypeName = "I"
		}
		possible = g.others(o.TypeName, 1+g.R.Pick(2))
		at := g.R.Pick(len(possible) + 1)
		possible = append(possible[:at:at], append([]string{o.TypeName}, possible[at:]...)...)
		g.shapeStat("own+others")
	case 3, 4:
		o.TypeName = "I"
		possible = g.others("I", 2+g.R.Pick(2))
		g.shapeStat("others")
	default:
		if g.R.Chance(2, 3) {
			o.TypeName = "I"
		}
		possible = g.others(o.TypeName, 1)
		g.shapeStat("one-other")
	}
	if len(possible) > 0 && g.R.Chance(1, 4) {
		o.Inaccessible = []string{"X"}
	}
	return possible
}

func (g *Gen) typeNameLeaf() *Node {
	n := &Node{Kind: KStr, Path: []string{"__typename"}, Nullable: g.R.Chance(1, 4), IsTypeName: true}
	if g.TStats != nil {
		g.TStats.TypeNameLeaves++
		if n.Nullable {
			g.TStats.NullableLeaves++
		}
	}
	return n
}

// mutateTypeName rewrites "__typename" at one object of the payload; returns a label.
func (g *Gen) mutateTypeName(root *jv) string {
	var all, objs []*jv
	collect(root, &all)
	for _, x := range all {
		if x.kind == 'o' && (x != root || len(all) == 1 || g.R.Chance(1, 8)) {
			objs = append(objs, x)
		}
	}
	if len(objs) == 0 {
		return "tn:none"
	}
	t := objs[g.R.Pick(len(objs))]
	var v *jv
	label := ""
	switch g.R.Pick(12) {
	case 0, 1, 2:
		label = "tn:missing"
	case 3:
		v, label = &jv{kind: 'n'}, "tn:null"
	case 4:
		v, label = &jv{kind: 's', raw: common.PickOf(g.R, typeNames)}, "tn:name"
	case 5:
		v, label = &jv{kind: 's', raw: "I"}, "tn:iface"
	case 6:
		v, label = &jv{kind: 's', raw: common.PickOf(g.R, []string{"Z", "X", ""})}, "tn:unknown"
	case 7, 8:
		v, label = &jv{kind: '#', raw: common.PickOf(g.R, []string{"5", "0", "1.5"})}, "tn:num"
	case 9:
		v, label = &jv{kind: common.PickOf(g.R, []byte{'t', 'f'})}, "tn:bool"
	case 10:
		v, label = &jv{kind: 'o', keys: []string{"name"}, items: []*jv{{kind: 's', raw: "A"}}}, "tn:obj"
	default:
		v, label = &jv{kind: 'a', items: []*jv{{kind: 's', raw: "A"}}}, "tn:arr"
	}
	var keys []string
	var items []*jv
	placed := false
	for i, k := range t.keys {
		if k == "__typename" {
			if v != nil && !placed {
				keys, items, placed = append(keys, k), append(items, v), true
			}
			continue
		}
		keys, items = append(keys, k), append(items, t.items[i])
	}
	if v != nil && !placed {
		if g.R.Chance(1, 2) {
			keys, items = append([]string{"__typename"}, keys...), append([]*jv{v}, items...)
		} else {
			keys, items = append(keys, "__typename"), append(items, v)
		}
	}
	t.keys, t.items = keys, items
	return label
}
