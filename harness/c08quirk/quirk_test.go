// Package c08quirk reproduces, on the UNCHANGED tree, the string-prefix quirk of
// postprocess.addMissingNestedDependencies that coq/C08 models and proves harmless for C08
// (c08_prefix_test_covers_parents: no provider is ever missed; c08_prefix_test_exact_refuted: an extra
// edge can appear): strings.HasPrefix(ResponsePath, providedPath) treats "a.b" as a parent of "a.bc".
//
//	cd /verif/harness && GOFLAGS=-mod=mod GOPROXY=off GOWORK=off go test -tags verif -count=1 -v ./c08quirk/
package c08quirk

import (
	"fmt"
	"os"
	"os/exec"
	"strings"
	"testing"

	"github.com/wundergraph/graphql-go-tools/v2/pkg/engine/plan"
	"github.com/wundergraph/graphql-go-tools/v2/pkg/engine/postprocess"
	"github.com/wundergraph/graphql-go-tools/v2/pkg/engine/resolve"
)

func item(id int, responsePath string, mergePath []string, dependsOn ...int) *resolve.FetchItem {
	it := &resolve.FetchItem{
		Fetch: &resolve.SingleFetch{
			FetchDependencies: resolve.FetchDependencies{FetchID: id, DependsOnFetchIDs: dependsOn},
			FetchConfiguration: resolve.FetchConfiguration{
				Input:          fmt.Sprintf(`{"fetch":%d}`, id),
				PostProcessing: resolve.PostProcessingConfiguration{MergePath: mergePath},
			},
		},
		ResponsePath: responsePath,
	}
	if responsePath != "" {
		it.ResponsePathElements = strings.Split(responsePath, ".")
	}
	return it
}

func shape(n *resolve.FetchTreeNode) string {
	if n.Kind == resolve.FetchTreeNodeKindSingle {
		d := n.Item.Fetch.Dependencies()
		return fmt.Sprintf("%d%v", d.FetchID, d.DependsOnFetchIDs)
	}
	parts := make([]string, len(n.ChildNodes))
	for i, c := range n.ChildNodes {
		parts[i] = shape(c)
	}
	return string(n.Kind) + "(" + strings.Join(parts, " ") + ")"
}

func process(items []*resolve.FetchItem, opts ...postprocess.ProcessorOption) string {
	p := &plan.SynchronousResponsePlan{Response: &resolve.GraphQLResponse{RawFetches: items, Data: &resolve.Object{}}}
	postprocess.NewProcessor(opts...).Process(p)
	return shape(p.Response.Fetches)
}

// Fetch 1 merges its result at a.b (nested at a, merge path [b]).  Fetch 2 is nested at a.bc and has no declared
// dependencies; only the root fetch 0 writes above a.bc.  The stage also gives it a dependency on fetch 1, because
// "a.b" is a string prefix of "a.bc": 2 is sequenced behind 1 instead of running next to it.
func TestSiblingPrefixCreatesSpuriousDependency(t *testing.T) {
	got := process([]*resolve.FetchItem{
		item(0, "", nil),
		item(1, "a", []string{"b"}, 0),
		item(2, "a.bc", nil),
	})
	t.Logf("tree: %s", got)
	const quirk = "Sequence(0[] 1[0] 2[0 1])"
	const exact = "Sequence(0[] Parallel(1[0] 2[0]))"
	switch got {
	case quirk:
		t.Logf("quirk present: fetch 2 (at a.bc) waits for fetch 1 (provides a.b); segment-wise it would be %s", exact)
	case exact:
		t.Logf("quirk absent (segment-aware test)")
	default:
		t.Fatalf("unexpected tree %s", got)
	}
}

// The extra edge can close a cycle in a dependency list that is acyclic segment-wise: 3 (at a.bc) requires a field of
// 2 (at a.bc, no declared dependencies), 1 (at a, merging at a.b) requires a field of 3.  Declared: 1 -> {0,3}, 3 -> {2}.
// Segment-wise the stage adds 2 -> {0}: acyclic.  With the string test it adds 2 -> {0,1}: 2 -> 1 -> 3 -> 2, and
// orderSequenceByDependencies.nodeDependsOn (no cycle guard) overflows the stack: the process dies.
func TestSiblingPrefixCanCloseACycle(t *testing.T) {
	if os.Getenv("C08QUIRK_CHILD") == "1" {
		fmt.Println("tree:", process([]*resolve.FetchItem{
			item(0, "", nil),
			item(1, "a", []string{"b"}, 0, 3),
			item(2, "a.bc", nil),
			item(3, "a.bc", nil, 2),
		}))
		return
	}
	cmd := exec.Command(os.Args[0], "-test.run", "^TestSiblingPrefixCanCloseACycle$", "-test.v")
	cmd.Env = append(os.Environ(), "C08QUIRK_CHILD=1")
	out, err := cmd.CombinedOutput()
	text := string(out)
	if i := strings.Index(text, "goroutine "); i > 0 {
		text = text[:i]
	}
	t.Logf("child: err=%v output=%s", err, strings.TrimSpace(text))
	if err == nil {
		t.Logf("no crash: the list stayed acyclic (segment-aware test)")
		return
	}
	if !strings.Contains(string(out), "stack overflow") && !strings.Contains(string(out), "stack exceeds") {
		t.Fatalf("child failed for another reason")
	}
	t.Logf("quirk present: the completed list is cyclic and the process died with a stack overflow")
}
