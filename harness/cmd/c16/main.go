// c16: drives v2/pkg/engine/cache (Cache-Control lexer/parser) and v2/pkg/caching.TTL on
// generated header value lists and prints, per case, the implementation's observables.
package main

import (
	"bufio"
	"fmt"
	"net/http"
	"os"
	"sort"
	"strings"
	"time"

	"gvh/common"

	"github.com/wundergraph/graphql-go-tools/v2/pkg/caching"
	"github.com/wundergraph/graphql-go-tools/v2/pkg/engine/cache"
)

var names = []string{"max-age", "s-maxage", "no-store", "no-cache", "public", "private",
	"must-revalidate", "stale-while-revalidate", "immutable", "foo", "no-stor", "publicx", "Xpublic", "s-max-age"}

func randCase(r *common.Rand, s string) string {
	switch r.Pick(5) {
	case 0:
		return strings.ToUpper(s)
	case 1:
		b := []byte(s)
		for i := range b {
			if r.Chance(1, 2) && b[i] >= 'a' && b[i] <= 'z' {
				b[i] -= 32
			}
		}
		return string(b)
	}
	return s
}

var numbers = []string{"0", "1", "60", "300", "86400", "2147483647", "2147483648", "4294967296", "9223372036854775807",
	"9223372036854775808", "99999999999999999999999", "007", "00", "-1", "+60", "1.5", "1e3", "abc", "6 0", "60s", ""}

var ows = []string{"", " ", "\t", "  ", " \t "}

var listElems = []string{"Set-Cookie", "a", "b", "Authorization", "", " ", "x y", "S\xc3\xa9t", "\xc2\xa0foo", "foo\xe2\x80\x80", "\xe3\x80\x80", "a\\b", "\x85"}

func genArg(r *common.Rand) string {
	switch r.Pick(12) {
	case 0, 1, 2:
		return ""
	case 3, 4:
		return common.PickOf(r, ows) + "=" + common.PickOf(r, ows) + common.PickOf(r, numbers)
	case 5:
		return "=\"" + common.PickOf(r, numbers) + "\""
	case 6, 7:
		n := r.Pick(4)
		parts := make([]string, n)
		for i := range parts {
			parts[i] = common.PickOf(r, ows) + common.PickOf(r, listElems) + common.PickOf(r, ows)
		}
		return "=\"" + strings.Join(parts, ",") + "\""
	case 8:
		return "="
	case 9:
		// quoted-pair shapes
		return common.PickOf(r, []string{`="\""`, `="a\"b"`, `="\\"`, `="\"`, `="a\\"`, `="\", public, x="`})
	case 10:
		return "=" + common.PickOf(r, []string{"token", "a/b", "\"unterminated", "x\"", "\"a\"b", "\"a\" b", "\"a\"\"b\""})
	}
	return "=" + common.PickOf(r, numbers) + common.PickOf(r, []string{"", " x", "=1", " =2"})
}

var seps = []string{",", ", ", " , ", ",,", ", ,", "\t,\t", " ", ";", ",  "}

func genValue(r *common.Rand) string {
	var sb strings.Builder
	if r.Chance(1, 10) {
		sb.WriteString(common.PickOf(r, []string{"\t", "\r\n", "\n", " ", ","}))
	}
	n := r.Pick(5)
	for i := 0; i < n; i++ {
		if i > 0 {
			sb.WriteString(common.PickOf(r, seps))
		}
		sb.WriteString(randCase(r, common.PickOf(r, names)))
		sb.WriteString(genArg(r))
	}
	if r.Chance(1, 10) {
		sb.WriteString(common.PickOf(r, []string{"\t", "\r\n", "\n", " ", ",", "\x00", "\x7f"}))
	}
	return sb.String()
}

// mostly-valid: public plus a lifetime plus optional others
func genValid(r *common.Rand) string {
	parts := []string{}
	if r.Chance(9, 10) {
		parts = append(parts, randCase(r, "public"))
	}
	if r.Chance(1, 2) {
		parts = append(parts, randCase(r, "max-age")+"="+common.PickOf(r, numbers[:10]))
	}
	if r.Chance(1, 3) {
		parts = append(parts, randCase(r, "s-maxage")+"="+common.PickOf(r, numbers[:10]))
	}
	if r.Chance(1, 6) {
		parts = append(parts, randCase(r, common.PickOf(r, names))+genArg(r))
	}
	if r.Chance(1, 4) {
		parts = append(parts, common.PickOf(r, []string{"must-revalidate", "immutable", `ext="a, no-store"`, `ext="private"`, "stale-if-error=5"}))
	}
	r.Shuffle(len(parts), func(i, j int) { parts[i], parts[j] = parts[j], parts[i] })
	return strings.Join(parts, common.PickOf(r, seps[:6]))
}

var alphabet = []byte("\"\"\"\\\\,,,,==  \t\r\n\x00\x1f\x7f\x80\xc2\xa0abcpublicno-storemax-age0123456789;:()<>@/[]?{}")

func genRaw(r *common.Rand) string {
	n := r.Pick(24)
	b := make([]byte, n)
	for i := range b {
		b[i] = alphabet[r.Pick(len(alphabet))]
	}
	return string(b)
}

// mutate one byte of a mostly valid value
func mutate(r *common.Rand, s string) string {
	if len(s) == 0 {
		return s
	}
	b := []byte(s)
	i := r.Pick(len(b))
	switch r.Pick(4) {
	case 0:
		b[i] = alphabet[r.Pick(len(alphabet))]
	case 1:
		b = append(b[:i], b[i+1:]...)
	case 2:
		b = append(b[:i], append([]byte{alphabet[r.Pick(len(alphabet))]}, b[i:]...)...)
	case 3:
		b = append(b[:i], append([]byte{'"'}, b[i:]...)...)
	}
	return string(b)
}

func genCase(r *common.Rand) ([]string, int64) {
	nlines := 1
	if r.Chance(1, 4) {
		nlines = 2 + r.Pick(2)
	}
	if r.Chance(1, 40) {
		nlines = 0
	}
	vals := make([]string, nlines)
	for i := range vals {
		switch k := r.Pick(10); {
		case k < 4:
			vals[i] = genValid(r)
		case k < 7:
			vals[i] = genValue(r)
		case k < 9:
			vals[i] = mutate(r, genValid(r))
		default:
			vals[i] = genRaw(r)
		}
	}
	def := common.PickOf(r, []int64{0, -1, 1, int64(time.Second), int64(30 * time.Second), int64(time.Hour), 1 << 61})
	return vals, def
}

func optN(p *cache.DeltaSeconds) string {
	if p == nil {
		return "(none)"
	}
	return common.L("some", common.I64(int64(*p)))
}

func fields(f *cache.FieldNames) string {
	if f == nil {
		return "(none)"
	}
	var ns []string
	for n := range f.Fields() {
		ns = append(ns, n)
	}
	sort.Strings(ns)
	items := []string{"some"}
	for _, n := range ns {
		items = append(items, common.QS(n))
	}
	return common.L(items...)
}

func observe(vals []string, def int64) string {
	h := http.Header{}
	for _, v := range vals {
		h.Add("Cache-Control", v)
	}
	var ccs string
	func() {
		defer func() {
			if p := recover(); p != nil {
				ccs = common.L("cc", "panic", common.QS(fmt.Sprint(p)))
			}
		}()
		cc, err := cache.ParseCacheControlResponse(h)
		if err != nil {
			ccs = "(cc err)"
		} else {
			ccs = common.L("cc", "ok", optN(cc.MaxAge), optN(cc.SMaxAge), common.B(cc.NoStore), fields(cc.NoCache), common.B(cc.Public), fields(cc.Private))
		}
	}()
	var ttls string
	func() {
		defer func() {
			if p := recover(); p != nil {
				ttls = common.L("ttl", "panic", common.QS(fmt.Sprint(p)))
			}
		}()
		d, ok := caching.TTL(h, time.Duration(def))
		if ok {
			ttls = common.L("ttl", "t", common.I64(int64(d)))
		} else {
			ttls = "(ttl f)"
		}
	}()
	hs := []string{"hdr"}
	for _, v := range vals {
		hs = append(hs, common.QS(v))
	}
	return common.L("c16", common.L(hs...), common.I64(def), ttls, ccs)
}

func main() {
	if len(os.Args) < 2 {
		fmt.Fprintln(os.Stderr, "usage: c16 gen -seed S -n N -out F | c16 corpus -in F -out F")
		os.Exit(2)
	}
	a := common.Args(os.Args[2:])
	out := common.NewOut(a["out"])
	defer out.Close()
	switch os.Args[1] {
	case "gen":
		r := common.NewRand(common.ArgU64(a, "seed", 1))
		n := common.ArgInt(a, "n", 1000)
		for i := 0; i < n; i++ {
			vals, def := genCase(r)
			out.Line(observe(vals, def))
		}
	case "corpus":
		// corpus file: one case per line: default<TAB>value1<TAB>value2... with Go-quoted strings
		f, err := os.Open(a["in"])
		if err != nil {
			return
		}
		defer f.Close()
		sc := bufio.NewScanner(f)
		for sc.Scan() {
			line := sc.Text()
			if strings.HasPrefix(line, "#") || strings.TrimSpace(line) == "" {
				continue
			}
			parts := strings.Split(line, "\t")
			var def int64
			fmt.Sscan(parts[0], &def)
			var vals []string
			for _, p := range parts[1:] {
				var s string
				if _, err := fmt.Sscanf(p, "%q", &s); err != nil {
					fmt.Fprintln(os.Stderr, "bad corpus line:", line)
					os.Exit(2)
				}
				vals = append(vals, s)
			}
			out.Line(observe(vals, def))
		}
	}
}
