package main

import (
	"fmt"
	"os"

	"gvh/common"
	"gvh/e2e"
	"gvh/fedlab"
)

func main() {
	a := common.Args(os.Args[2:])
	seed := common.ArgU64(a, "seed", 1)
	n := common.ArgInt(a, "n", 20)
	knobs := fedlab.ParseKnobs(a["knobs"])
	exec, err := fedlab.NewExecServer("")
	if err != nil {
		panic(err)
	}
	defer exec.Close()
	for i := 0; i < n; i++ {
		c := fedlab.BuildCase(seed, i, 0, knobs, false)
		for _, mf := range []bool{false, true} {
			opts := fedlab.EngineOptions{MultiFetch: mf, ScheduleFetches: mf}
			lab, err := fedlab.NewLab(c.Cfg, c.Uni, exec, opts)
			if err != nil {
				fmt.Println("lab error", err)
				continue
			}
			pl, err := e2e.NewPlanner(lab, opts)
			if err != nil {
				panic(err)
			}
			t, _, err := pl.Plan(c.Op.Text(), c.Op.Name, []byte(c.Op.VariablesJSON()))
			if err != nil {
				fmt.Println("plan error", err)
				continue
			}
			res := lab.Run(c.Op.Text(), []byte(c.Op.VariablesJSON()), &fedlab.RunOptions{OperationName: c.Op.Name})
			fmt.Printf("case %d mf=%v maxpar=%d tree=%s reqs=%d\n", i, mf, t.MaxParallel(), t.Sexp(), len(res.Requests))
			for _, f := range t.Fetches() {
				fmt.Printf("   fetch %d %s %s path=%q deps=%v merged=%v q=%s\n", f.ID, f.Kind, f.Subgraph, f.Path, f.Deps, f.Merged, f.Query)
			}
			for _, r := range res.Requests {
				fmt.Printf("   req %d %s q=%s vars=%v\n", r.Index, r.Subgraph, r.Query, r.Variables)
			}
			pl.Close()
			lab.Close()
		}
	}
}
