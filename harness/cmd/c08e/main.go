// c08e: C08, schedule half, end to end on the federation lab.  For generated (configuration,
// universe, operation) whose REAL plan has at least two concurrently runnable subgraph requests,
// every subgraph response is held by a gate and the responses are released in enumerated
// completion orders.  Clauses (all on the implementation):
//
//	response_order_independent     data bytes identical in every order, equal to the ungated run, tree-equal to Lab.Mono; errors the same multiset
//	request_set_order_independent  the multiset of (Ident, variables) is the same in every order
//	issued_after_dependencies      data flow: a request arrives only after a response carrying each value of its representations was released
//	tree_respected_at_runtime      arrival/release log against DependsOnFetchIDs of the dumped real plan
//	exactly_once                   the dumped tree against the planner's raw fetch list (modulo dedup / MultiFetch merges)
//	deps_cover_reads               the plan hypothesis of coq/C08/ProofsSchedule.v evaluated on (plan, log)
//	writes_compatible              the other one
//
//	response_order_independent/whole, .../faults, request_set_order_independent/faults: see faults.go
//
// and the dumped trees are written in the line format of ocaml/c08/driver.ml so that the extracted
// respects_deps_b / exactly_once_b run on plans the real planner produced.
//
//	c08e gen  -seed S -n N [-from I] [-knobs K] [-tier quick|thorough] [-settle us] -out results.jsonl -trees trees.cases
//	c08e one  -seed S -index I [-knobs K] [-exact 1] [-mf 0|1] [-sched 0|1] [-v 1] [-faults 'off' | 'ropt=NAME;kinds=K1,K2']
//	c08e corpus -in corpus.tsv -out results.jsonl -trees trees.cases      (lines: seed, index, knobs, "mf,sched"[, faults])
package main

import (
	"encoding/json"
	"fmt"
	"os"
	"sort"
	"strings"
	"time"

	"gvh/common"
	"gvh/e2e"
	"gvh/fedlab"

	"github.com/wundergraph/graphql-go-tools/v2/pkg/engine/resolve"
)

type optSet struct{ MF, Sched bool }

func (o optSet) String() string { return fmt.Sprintf("mf=%s,sched=%s", common.B(o.MF), common.B(o.Sched)) }
func (o optSet) mode() string {
	switch {
	case o.Sched && o.MF:
		return "m"
	case o.Sched:
		return "s"
	case o.MF:
		return "M"
	default:
		return "w"
	}
}

type outcome struct {
	Seed       uint64         `json:"seed"`
	Index      int            `json:"index"`
	Knobs      string         `json:"knobs"`
	Opt        string         `json:"opt"`
	Status     string         `json:"status"` // checked | sequential | planerror | laberror | engineerror
	Detail     string         `json:"detail,omitempty"`
	Tree       string         `json:"tree,omitempty"`
	Raw        string         `json:"raw,omitempty"`
	Op         string         `json:"op,omitempty"`
	NReq       int            `json:"nreq"`
	NFetch     int            `json:"nfetch"`
	MaxPar     int            `json:"maxpar"`
	MaxHeld    int            `json:"maxheld"`
	Orders     int            `json:"orders"`
	Runs       int            `json:"runs"`
	Exhaustive bool           `json:"exhaustive"`
	Diverged   int            `json:"diverged"`
	Stats      map[string]int `json:"stats"`
	Violations []string       `json:"violations,omitempty"`
	Orderlog   []string       `json:"orderlog,omitempty"`
	Faults     string         `json:"faults,omitempty"`
	WallMs     int64          `json:"wall_ms"`
	Rerun      string         `json:"rerun"`
}

type config struct {
	maxDFS, maxRand int
	settle          time.Duration
	verbose         bool
}

// ---------------------------------------------------------------- data-flow providers

type objInfo struct {
	tn  string
	obj *fedlab.J
}

func collectObjs(j *fedlab.J, out *[]objInfo) {
	if j == nil {
		return
	}
	switch j.Kind {
	case fedlab.JArr:
		for _, x := range j.Items {
			collectObjs(x, out)
		}
	case fedlab.JObj:
		tn := ""
		if t := j.Get("__typename"); t != nil && t.Kind == fedlab.JStr {
			tn = t.Raw
		}
		*out = append(*out, objInfo{tn, j})
		for _, m := range j.Members {
			collectObjs(m.Val, out)
		}
	}
}

// subJSON: v is contained in w (objects: every member of v is contained in the member of w).
func subJSON(v, w *fedlab.J) bool {
	if v == nil || w == nil {
		return false
	}
	if v.Kind != w.Kind {
		return false
	}
	switch v.Kind {
	case fedlab.JObj:
		for _, m := range v.Members {
			if !subJSON(m.Val, w.Get(m.Key)) {
				return false
			}
		}
		return true
	case fedlab.JArr:
		if len(v.Items) != len(w.Items) {
			return false
		}
		for i := range v.Items {
			if !subJSON(v.Items[i], w.Items[i]) {
				return false
			}
		}
		return true
	default:
		return v.Equal(w)
	}
}

type need struct {
	what      string   // "rep i member k"
	providers []string // request keys whose response carries the value
}

// needsOf: for every (representation, member) of r the requests of the fault-free run whose
// response contains an object of that type with that member value.
func needsOf(r *fedlab.Request, all []*fedlab.Request, objs map[*fedlab.Request][]objInfo) (needs []need, unexplained []string) {
	var repLists [][]*fedlab.J
	if r.Variables != nil {
		for _, m := range r.Variables.Members {
			if strings.HasPrefix(m.Key, "representations") && m.Val.Kind == fedlab.JArr {
				repLists = append(repLists, m.Val.Items)
			}
		}
	}
	for _, reps := range repLists {
		for i, rep := range reps {
			if rep == nil || rep.Kind != fedlab.JObj {
				continue
			}
			tn := ""
			if t := rep.Get("__typename"); t != nil {
				tn = t.Raw
			}
			for _, m := range rep.Members {
				if m.Key == "__typename" {
					continue
				}
				if m.Val.Kind == fedlab.JNull {
					continue // a null required value is the absence of a value
				}
				var prov, provAny []string
				for _, d := range all {
					if d == r {
						continue
					}
					named, any := false, false
					for _, o := range objs[d] {
						if o.tn != "" && o.tn != tn {
							continue
						}
						if subJSON(m.Val, o.obj.Get(m.Key)) {
							named = true
							break
						}
						if !any {
							for _, om := range o.obj.Members {
								if subJSON(m.Val, om.Val) {
									any = true
									break
								}
							}
						}
					}
					if named {
						prov = append(prov, e2e.ReqKey(d))
					} else if any {
						provAny = append(provAny, e2e.ReqKey(d))
					}
				}
				what := fmt.Sprintf("%s rep %d %s=%s", tn, i, m.Key, fedlab.Trunc(m.Val.String(), 40))
				if len(prov) == 0 {
					prov = provAny
				}
				if len(prov) == 0 {
					unexplained = append(unexplained, what)
					continue
				}
				needs = append(needs, need{what, prov})
			}
		}
	}
	return
}

// ---------------------------------------------------------------- one (case, option set)

type env struct {
	exec *fedlab.ExecServer
	cfg  config
}

func errMultiset(j *fedlab.J) []string {
	var out []string
	if j != nil && j.Kind == fedlab.JArr {
		for _, e := range j.Items {
			out = append(out, e.String())
		}
	}
	sort.Strings(out)
	return out
}

func eqStrings(a, b []string) bool {
	if len(a) != len(b) {
		return false
	}
	for i := range a {
		if a[i] != b[i] {
			return false
		}
	}
	return true
}

func short(s string) string { return fedlab.Trunc(s, 160) }

func shortKey(k string) string {
	parts := strings.SplitN(k, "|", 3)
	if len(parts) == 3 {
		return parts[0] + ":" + fedlab.Trunc(parts[1], 60) + ":" + fedlab.Trunc(parts[2], 80)
	}
	return fedlab.Trunc(k, 120)
}

func reachable(byID map[int]*e2e.Fetch, from int) map[int]bool {
	seen := map[int]bool{}
	var walk func(id int)
	walk = func(id int) {
		f := byID[id]
		if f == nil {
			return
		}
		for _, d := range f.Deps {
			if !seen[d] {
				seen[d] = true
				walk(d)
			}
		}
	}
	walk(from)
	return seen
}

func (e *env) checkCase(c *fedlab.Case, lab *fedlab.Lab, pl *e2e.Planner, opt optSet, rnd *common.Rand, flab *fedlab.Lab, roptName string, fs faultSpec) *outcome {
	t0 := time.Now()
	o := &outcome{Seed: c.Seed, Index: c.Index, Knobs: c.Knobs.String(), Opt: opt.String(), Stats: map[string]int{}, Op: c.Op.Text()}
	o.Rerun = fmt.Sprintf("harness/bin/c08e one -seed %d -index %d -knobs %s -exact 1 -mf %d -sched %d -v 1", c.Seed, c.Index, c.Knobs.String(), b2i(opt.MF), b2i(opt.Sched))
	if fs.ropt != "" || len(fs.kinds) > 0 {
		o.Rerun += fmt.Sprintf(" -faults 'ropt=%s;kinds=%s'", fs.ropt, strings.Join(fs.kinds, ","))
	}
	defer func() { o.WallMs = time.Since(t0).Milliseconds() }()
	viol := func(clause, format string, a ...any) {
		if len(o.Violations) < 12 {
			o.Violations = append(o.Violations, clause+" "+fmt.Sprintf(format, a...))
		}
	}
	opText, opName, vars := c.Op.Text(), c.Op.Name, []byte(c.Op.VariablesJSON())

	tree, raw, err := pl.PlanWithRaw(opText, opName, vars)
	if err != nil {
		o.Status, o.Detail = "planerror", short(err.Error())
		return o
	}
	o.Tree, o.MaxPar = tree.Sexp(), tree.MaxParallel()
	fetches := tree.Fetches()
	o.NFetch = len(fetches)
	var rawParts []string
	for _, f := range raw {
		rawParts = append(rawParts, fmt.Sprintf("%d:%s", f.ID, joinInts(f.Deps)))
	}
	o.Raw = strings.Join(rawParts, " ")

	base := lab.Run(opText, vars, &fedlab.RunOptions{OperationName: opName})
	if base.Err != nil {
		o.Status, o.Detail = "engineerror", short(base.Err.Error())
		return o
	}
	o.NReq = len(base.Requests)
	mono, err := lab.Mono(opText, opName, vars)
	if err != nil {
		o.Status, o.Detail = "laberror", short(err.Error())
		return o
	}
	for _, r := range base.Requests {
		if r.ExecError != "" || r.ParseError != "" {
			o.Status, o.Detail = "laberror", short(r.ExecError+r.ParseError)
			return o
		}
	}

	// ---- static clauses on the dumped plan
	byID := map[int]*e2e.Fetch{}
	byIdent := map[string][]*e2e.Fetch{}
	for _, f := range fetches {
		if byID[f.ID] != nil {
			viol("exactly_once", "fetch id %d twice in the tree %s", f.ID, o.Tree)
		}
		byID[f.ID] = f
		id := f.Subgraph + "|" + f.Query
		byIdent[id] = append(byIdent[id], f)
	}
	e.checkExactlyOnce(raw, fetches, viol)

	if o.MaxPar < 2 || len(base.Requests) < 2 {
		o.Status = "sequential"
		// still: the ungated run against the monolith (cheap, and it anchors the baseline)
		if !base.Data.EqualUnordered(mono.Data) {
			viol("response_order_independent", "ungated run differs from Lab.Mono: %s", base.Data.FirstDiffUnordered(mono.Data, "data"))
		}
		return o
	}
	o.Status = "checked"

	// ---- baseline facts
	baseKeys := e2e.KeyMultiset(base.Requests)
	baseData := ""
	if base.Data != nil {
		baseData = base.Data.String()
	}
	baseErrs := errMultiset(base.Errors)
	baseCanon := canonOf(base)
	if !base.Data.EqualUnordered(mono.Data) {
		viol("response_order_independent", "ungated run differs from Lab.Mono: %s", base.Data.FirstDiffUnordered(mono.Data, "data"))
	}
	if (len(baseErrs) > 0) != (mono.NErrors > 0) {
		viol("response_order_independent", "ungated run has %d errors, Lab.Mono %d", len(baseErrs), mono.NErrors)
	}
	objs := map[*fedlab.Request][]objInfo{}
	for _, r := range base.Requests {
		if j, err := fedlab.ParseJSON(r.Response); err == nil {
			var os []objInfo
			collectObjs(j.Get("data"), &os)
			objs[r] = os
		}
	}
	needs := map[string][]need{}
	for _, r := range base.Requests {
		ns, un := needsOf(r, base.Requests, objs)
		needs[e2e.ReqKey(r)] = ns
		for _, u := range un {
			viol("issued_after_dependencies", "value of unknown origin in a request to %s: %s", r.Subgraph, u)
		}
		o.Stats["dataflow_needs"] += len(ns)
	}
	e.checkPlanHypotheses(o, base.Requests, needs, byID, byIdent, viol)

	// ---- gated runs
	checkRun := func(g *e2e.GateRun) {
		o.Orders++
		if g.Diverged {
			o.Diverged++
		}
		res := g.Result
		if res == nil {
			viol("response_order_independent", "gated run returned nothing")
			return
		}
		order := make([]string, len(g.Order))
		for i, k := range g.Order {
			order[i] = shortKey(k)
		}
		ordTxt := strings.Join(order, " < ")
		if e.cfg.verbose {
			o.Orderlog = append(o.Orderlog, ordTxt)
		}
		if res.Err != nil {
			viol("response_order_independent", "gated run failed: %s (order %s)", short(res.Err.Error()), ordTxt)
			return
		}
		data := ""
		if res.Data != nil {
			data = res.Data.String()
		}
		if data != baseData {
			if res.Data.EqualUnordered(base.Data) {
				viol("response_order_independent/bytes", "data bytes differ (same tree) under order %s", ordTxt)
			} else {
				viol("response_order_independent", "data differs from the ungated run at %s under order %s", res.Data.FirstDiffUnordered(base.Data, "data"), ordTxt)
			}
		}
		if es := errMultiset(res.Errors); !eqStrings(es, baseErrs) {
			viol("response_order_independent/errors", "errors %v vs ungated %v under order %s", es, baseErrs, ordTxt)
		} else if d := diffCanon(baseCanon, canonOf(res)); d != "" && data == baseData {
			// the WHOLE response: top-level members and their order, extensions, ... (errors as a multiset)
			viol("response_order_independent/whole", "the response differs from the ungated run outside data and errors: %s (order %s)", d, ordTxt)
		}
		o.Stats["whole_response_comparisons"]++
		// request multiset (single flight may merge two identical concurrent requests)
		keys := e2e.KeyMultiset(res.Requests)
		for k, n := range keys {
			if baseKeys[k] == 0 {
				viol("request_set_order_independent", "request only under order %s: %s", ordTxt, shortKey(k))
			} else if baseKeys[k] != n {
				o.Stats["singleflight_count_differs"]++
			}
		}
		for k := range baseKeys {
			if keys[k] == 0 {
				viol("request_set_order_independent", "request missing under order %s: %s", ordTxt, shortKey(k))
			}
		}
		// timing clauses
		relAt := map[string]time.Time{}    // key -> earliest release
		relIdent := map[string]time.Time{} // ident -> earliest release
		held := 0
		for _, ev := range g.Events {
			if ev.Released.IsZero() {
				continue
			}
			if t, ok := relAt[ev.Key]; !ok || ev.Released.Before(t) {
				relAt[ev.Key] = ev.Released
			}
			id := ev.Req.Ident()
			if t, ok := relIdent[id]; !ok || ev.Released.Before(t) {
				relIdent[id] = ev.Released
			}
		}
		for _, ch := range g.Choices {
			if len(ch.Alts) > held {
				held = len(ch.Alts)
			}
		}
		if held > o.MaxHeld {
			o.MaxHeld = held
		}
		for _, ev := range g.Events {
			arr := ev.Req.Arrived
			for _, nd := range needs[ev.Key] {
				ok := false
				for _, p := range nd.providers {
					if t, has := relAt[p]; has && t.Before(arr) {
						ok = true
						break
					}
				}
				o.Stats["dataflow_checks"]++
				if !ok {
					viol("issued_after_dependencies", "request %s arrived before any response carrying %s was released (order %s)", shortKey(ev.Key), nd.what, ordTxt)
				}
			}
			cands := byIdent[ev.Req.Ident()]
			if len(cands) == 0 {
				viol("tree_respected_at_runtime", "request matches no fetch of the dumped plan: %s", shortKey(ev.Key))
				continue
			}
			if len(cands) > 1 {
				o.Stats["ambiguous_fetch_match"]++
			}
			okAny, why := false, ""
			for _, f := range cands {
				ok := true
				for _, d := range f.Deps {
					df := byID[d]
					if df == nil {
						continue // dependency outside the tree constrains nothing
					}
					t, has := relIdent[df.Subgraph+"|"+df.Query]
					if !has {
						// is the dependency's request still to come in this run?
						continue
					}
					o.Stats["tree_dep_checks"]++
					if !t.Before(arr) {
						ok = false
						why = fmt.Sprintf("fetch %d depends on %d, whose response was released %v after the request arrived", f.ID, d, t.Sub(arr))
					}
				}
				if ok {
					okAny = true
					break
				}
			}
			if !okAny {
				viol("tree_respected_at_runtime", "%s (order %s, tree %s)", why, ordTxt, o.Tree)
			}
		}
		// a dependency whose request shows up only AFTER its dependant arrived
		arrIdent := map[string]time.Time{}
		for _, ev := range g.Events {
			id := ev.Req.Ident()
			if t, ok := arrIdent[id]; !ok || ev.Req.Arrived.Before(t) {
				arrIdent[id] = ev.Req.Arrived
			}
		}
		for _, f := range fetches {
			fa, ok := arrIdent[f.Subgraph+"|"+f.Query]
			if !ok || len(byIdent[f.Subgraph+"|"+f.Query]) > 1 {
				continue
			}
			for _, d := range f.Deps {
				df := byID[d]
				if df == nil || len(byIdent[df.Subgraph+"|"+df.Query]) > 1 {
					continue
				}
				if da, ok := arrIdent[df.Subgraph+"|"+df.Query]; ok && !da.Before(fa) {
					viol("tree_respected_at_runtime", "fetch %d arrived before its dependency %d arrived (order %s)", f.ID, d, ordTxt)
				}
			}
		}
	}
	runWith := func(prefix []string, pick e2e.Picker) *e2e.GateRun {
		o.Runs++
		return e2e.RunGated(lab, opText, opName, vars, prefix, pick, e.cfg.settle, len(base.Requests))
	}
	seen := map[string]bool{}
	var conc *concSet
	visit := func(g *e2e.GateRun) {
		if seen[g.Signature()] {
			return
		}
		seen[g.Signature()] = true
		checkRun(g)
		// the widest set of requests in flight at one decision (with the releases that lead there)
		if !g.Diverged {
			for j, ch := range g.Choices {
				if len(ch.Alts) >= 2 && (conc == nil || len(ch.Alts) > len(conc.alts)) {
					conc = &concSet{prefix: append([]string(nil), g.Order[:j]...), alts: append([]string(nil), ch.Alts...)}
				}
			}
		}
	}
	_, ex := e2e.Explore(e.cfg.maxDFS, runWith, visit)
	o.Exhaustive = ex
	if !ex {
		for i := 0; i < e.cfg.maxRand; i++ {
			g := runWith(nil, func(step int, alts []string) int { return rnd.Pick(len(alts)) })
			visit(g)
		}
	}
	if !fs.off {
		e.faultPhase(c, flab, roptName, opt, o, conc, len(base.Requests), fs, viol)
	}
	return o
}

func b2i(b bool) int {
	if b {
		return 1
	}
	return 0
}

func joinInts(xs []int) string {
	s := make([]string, len(xs))
	for i, x := range xs {
		s[i] = fmt.Sprint(x)
	}
	return strings.Join(s, ",")
}

// exactly_once: every raw fetch of the planner is a leaf of the tree, or merged into one
// (MergedFetchIDs), or a duplicate (same subgraph, query, path) of a raw fetch that is; and the
// tree has no leaf the planner did not produce.
func (e *env) checkExactlyOnce(raw []*e2e.Fetch, leaves []*e2e.Fetch, viol func(string, string, ...any)) {
	where := map[int]int{}
	for _, f := range leaves {
		where[f.ID]++
		for _, m := range f.Merged {
			if m != f.ID {
				where[m]++
			}
		}
	}
	rawIDs := map[int]*e2e.Fetch{}
	for _, f := range raw {
		rawIDs[f.ID] = f
	}
	for _, f := range raw {
		switch where[f.ID] {
		case 1:
		case 0:
			dup := false
			for _, g := range raw {
				if g.ID != f.ID && where[g.ID] > 0 && g.Subgraph == f.Subgraph && g.Query == f.Query && g.Path == f.Path {
					dup = true
				}
			}
			if !dup {
				viol("exactly_once", "planned fetch %d (%s %q) is not in the tree", f.ID, f.Subgraph, f.Path)
			}
		default:
			viol("exactly_once", "planned fetch %d appears %d times in the tree", f.ID, where[f.ID])
		}
	}
	for _, f := range leaves {
		if rawIDs[f.ID] == nil {
			viol("exactly_once", "tree leaf %d is not a planned fetch", f.ID)
		}
	}
}

// entityKey identifies the entity a representation denotes (type + id when present).
func entityKey(rep *fedlab.J) string {
	if rep == nil || rep.Kind != fedlab.JObj {
		return ""
	}
	tn := ""
	if t := rep.Get("__typename"); t != nil {
		tn = t.Raw
	}
	if id := rep.Get("id"); id != nil {
		return tn + "#" + id.String()
	}
	return ""
}

func commonMembersAgree(a, b *fedlab.J, path string) string {
	if a == nil || b == nil {
		return ""
	}
	if a.Kind == fedlab.JObj && b.Kind == fedlab.JObj {
		for _, m := range a.Members {
			if w := b.Get(m.Key); w != nil {
				if d := commonMembersAgree(m.Val, w, path+"."+m.Key); d != "" {
					return d
				}
			}
		}
		return ""
	}
	if a.Kind == fedlab.JArr && b.Kind == fedlab.JArr && len(a.Items) == len(b.Items) {
		for i := range a.Items {
			if d := commonMembersAgree(a.Items[i], b.Items[i], fmt.Sprintf("%s[%d]", path, i)); d != "" {
				return d
			}
		}
		return ""
	}
	if !a.Equal(b) {
		return path + ": " + fedlab.Trunc(a.String(), 60) + " vs " + fedlab.Trunc(b.String(), 60)
	}
	return ""
}

// checkPlanHypotheses evaluates the two hypotheses of completion_order_irrelevant on the real
// plan and the fault-free request log:
//
//	deps_cover_reads  every value a request read (a member of a representation) was written by a
//	                  fetch in deps*(f) (one of the responses carrying it belongs to such a fetch)
//	writes_compatible two fetches unordered by the dependency relation that write the same entity
//	                  at the same path agree on every common member
func (e *env) checkPlanHypotheses(o *outcome, reqs []*fedlab.Request, needs map[string][]need, byID map[int]*e2e.Fetch, byIdent map[string][]*e2e.Fetch, viol func(string, string, ...any)) {
	fetchOfKey := map[string][]*e2e.Fetch{}
	for _, r := range reqs {
		fetchOfKey[e2e.ReqKey(r)] = byIdent[r.Ident()]
	}
	for _, r := range reqs {
		cands := byIdent[r.Ident()]
		if len(cands) != 1 {
			continue
		}
		f := cands[0]
		anc := reachable(byID, f.ID)
		for _, nd := range needs[e2e.ReqKey(r)] {
			ok := false
			for _, p := range nd.providers {
				for _, g := range fetchOfKey[p] {
					if anc[g.ID] {
						ok = true
					}
				}
			}
			o.Stats["deps_cover_reads_checks"]++
			if !ok {
				viol("deps_cover_reads", "fetch %d reads %s, which no fetch in deps*(%d)=%v delivers (tree %s)", f.ID, nd.what, f.ID, keysOf(anc), o.Tree)
			}
		}
	}
	type ent struct {
		key string
		obj *fedlab.J
	}
	// a writer: one fetch (or one entry of a merged fetch) with the entities its response delivered
	type writer struct {
		f    *e2e.Fetch
		path string
		ents []ent
	}
	var writers []writer
	for _, r := range reqs {
		cands := byIdent[r.Ident()]
		if len(cands) != 1 {
			continue
		}
		f := cands[0]
		j, err := fedlab.ParseJSON(r.Response)
		if err != nil {
			continue
		}
		data := j.Get("data")
		if data == nil || data.Kind != fedlab.JObj {
			continue
		}
		if !r.IsEntityFetch {
			writers = append(writers, writer{f, f.Path, []ent{{"<root>", data}}})
			continue
		}
		for _, m := range data.Members {
			repsName, path := "representations", f.Path
			if m.Key != "_entities" {
				repsName = "representations_" + m.Key
				for _, en := range f.Entries {
					if en.Alias == m.Key {
						path = en.Path
					}
				}
			}
			var reps []*fedlab.J
			if r.Variables != nil {
				if rv := r.Variables.Get(repsName); rv != nil {
					reps = rv.Items
				}
			}
			if m.Val.Kind != fedlab.JArr || len(reps) != len(m.Val.Items) {
				continue
			}
			w := writer{f: f, path: path}
			for i, it := range m.Val.Items {
				if k := entityKey(reps[i]); k != "" && it.Kind == fedlab.JObj {
					w.ents = append(w.ents, ent{k, it})
				}
			}
			writers = append(writers, w)
		}
	}
	descend := func(x *fedlab.J, rest []string) []*fedlab.J {
		cur := []*fedlab.J{x}
		for _, seg := range rest {
			var next []*fedlab.J
			for _, c := range cur {
				if c.Kind == fedlab.JArr {
					for _, it := range c.Items {
						if seg == "@" {
							next = append(next, it)
						} else if v := it.Get(seg); v != nil {
							next = append(next, v)
						}
					}
					continue
				}
				if seg == "@" {
					continue
				}
				if v := c.Get(seg); v != nil {
					next = append(next, v)
				}
			}
			cur = next
		}
		var out []*fedlab.J
		for _, c := range cur {
			if c.Kind == fedlab.JArr {
				out = append(out, c.Items...)
			} else {
				out = append(out, c)
			}
		}
		return out
	}
	for i := 0; i < len(writers); i++ {
		for j := i + 1; j < len(writers); j++ {
			wa, wb := writers[i], writers[j]
			if wa.f == wb.f {
				continue
			}
			if reachable(byID, wa.f.ID)[wb.f.ID] || reachable(byID, wb.f.ID)[wa.f.ID] {
				continue
			}
			if len(wa.path) > len(wb.path) {
				wa, wb = wb, wa
			}
			var rest []string
			switch {
			case wa.path == wb.path:
			case wa.path == "":
				rest = strings.Split(wb.path, ".")
			case strings.HasPrefix(wb.path, wa.path+"."):
				rest = strings.Split(wb.path[len(wa.path)+1:], ".")
			default:
				continue // disjoint subtrees
			}
			checked := false
			for _, x := range wa.ents {
				if len(rest) == 0 {
					for _, y := range wb.ents {
						if x.key == y.key {
							checked = true
							if d := commonMembersAgree(x.obj, y.obj, y.key); d != "" {
								viol("writes_compatible", "unordered fetches %d and %d write different values at %s %s", wa.f.ID, wb.f.ID, wb.path, d)
							}
						}
					}
					continue
				}
				for _, xo := range descend(x.obj, rest) {
					if xo == nil || xo.Kind != fedlab.JObj {
						continue
					}
					for _, y := range wb.ents {
						if entityKey(xo) == y.key {
							checked = true
							if d := commonMembersAgree(xo, y.obj, y.key); d != "" {
								viol("writes_compatible", "unordered fetches %d and %d write different values at %s %s", wa.f.ID, wb.f.ID, wb.path, d)
							}
						}
					}
				}
			}
			if checked {
				o.Stats["writes_compatible_pairs"]++
				if len(rest) > 0 {
					o.Stats["writes_compatible_prefix_pairs"]++
				}
			}
		}
	}
}

func keysOf(m map[int]bool) []int {
	var ks []int
	for k := range m {
		ks = append(ks, k)
	}
	sort.Ints(ks)
	return ks
}

// ---------------------------------------------------------------- commands

func (e *env) cfgFor(tier string) {
	if tier == "thorough" {
		e.cfg.maxDFS, e.cfg.maxRand = 720, 200
	} else {
		e.cfg.maxDFS, e.cfg.maxRand = 24, 8
	}
}

func optSets(tier string, which string) []optSet {
	all := []optSet{{false, false}, {true, true}, {false, true}, {true, false}}
	switch which {
	case "all":
		return all
	case "":
		if tier == "thorough" {
			return all
		}
		return all[:2]
	}
	var out []optSet
	for _, p := range strings.Split(which, ";") {
		var mf, sc int
		fmt.Sscanf(p, "%d,%d", &mf, &sc)
		out = append(out, optSet{mf == 1, sc == 1})
	}
	return out
}

// driverLine renders (plan, tree) in the line format of ocaml/c08/driver.ml:
//
//	(c08 dag (dag (f ID (DEPS) SRC)...) (res MODE TREE TREE TREE))   TREE leaves (S id (deps) (merged))
//
// The dag is the planner's RAW fetch list (before post-processing) with the fetches removed by
// deduplicateSingleFetches dropped and their dependants redirected to the survivor; SRC marks the
// entity fetches (merge candidates of createMultiFetch: datasource index, one envelope).
func driverLine(tree *e2e.Tree, raw []*e2e.Fetch, opt optSet, subIdx map[string]int) string {
	alive := map[int]bool{}
	leafByID := map[int]*e2e.Fetch{}
	mergedInto := map[int]int{}
	for _, f := range tree.Fetches() {
		alive[f.ID] = true
		leafByID[f.ID] = f
		for _, m := range f.Merged {
			mergedInto[m] = f.ID
		}
		for _, m := range f.Merged {
			alive[m] = true
		}
	}
	rep := map[int]int{}
	for _, f := range raw {
		if alive[f.ID] {
			continue
		}
		for _, g := range raw {
			if alive[g.ID] && g.Subgraph == f.Subgraph && g.Query == f.Query && g.Path == f.Path {
				rep[f.ID] = g.ID
				break
			}
		}
	}
	nums := func(xs []int) string {
		s := make([]string, len(xs))
		for i, x := range xs {
			s[i] = fmt.Sprint(x)
		}
		return strings.Join(s, " ")
	}
	var fs []string
	for _, f := range raw {
		if _, gone := rep[f.ID]; gone {
			continue
		}
		var ds []int
		seen := map[int]bool{}
		deps := f.Deps
		if lf := leafByID[f.ID]; lf != nil && len(lf.Merged) == 0 {
			// the post-processed record of an unmerged fetch carries the dependencies that
			// addMissingNestedDependencies added (the sort key of orderSequenceByDependencies);
			// a leaf dependency that is just the merged carrier of a raw one is not added again
			deps = append([]int(nil), f.Deps...)
			carried := map[int]bool{}
			for _, d := range f.Deps {
				carried[d] = true
				if r, ok := rep[d]; ok {
					carried[r] = true
				}
				if m, ok := mergedInto[d]; ok {
					carried[m] = true
				}
			}
			for _, d := range lf.Deps {
				if !carried[d] {
					deps = append(deps, d)
				}
			}
		}
		for _, d := range deps {
			if r, ok := rep[d]; ok {
				d = r
			}
			if d != f.ID && !seen[d] {
				seen[d] = true
				ds = append(ds, d)
			}
		}
		src := "-"
		if opt.MF && f.Entity {
			src = fmt.Sprintf("(%d 0)", subIdx[f.Subgraph])
		}
		fs = append(fs, fmt.Sprintf("(f %d (%s) %s)", f.ID, nums(ds), src))
	}
	var show func(t *e2e.Tree) string
	show = func(t *e2e.Tree) string {
		if t.Kind == "S" {
			return fmt.Sprintf("(S %d (%s) (%s))", t.Fetch.ID, nums(t.Fetch.Deps), nums(t.Fetch.Merged))
		}
		parts := []string{t.Kind}
		for _, c := range t.Children {
			parts = append(parts, show(c))
		}
		return "(" + strings.Join(parts, " ") + ")"
	}
	t := show(tree)
	return fmt.Sprintf("(c08 dag (dag %s) (res %s %s %s %s))", strings.Join(fs, " "), opt.mode(), t, t, t)
}

func (e *env) runCases(cases []*fedlab.Case, exact bool, opts []optSet, out, trees *common.Out, fs faultSpec) (nChecked int) {
	enc := func(o *outcome) {
		b, _ := json.Marshal(o)
		out.Line(string(b))
	}
	type key struct {
		cfg int
		k   string
	}
	var lab, flab *fedlab.Lab
	var pl *e2e.Planner
	labKey, roptName := "", ""
	closeLab := func() {
		if pl != nil {
			pl.Close()
			pl = nil
		}
		if flab != nil {
			flab.Close()
			flab = nil
		}
		if lab != nil {
			lab.Close()
			lab = nil
		}
	}
	defer closeLab()
	for _, opt := range opts {
		for _, c := range cases {
			k := fmt.Sprintf("%d/%d/%s/%s", c.Seed, c.CfgIdx(), c.Knobs.String(), opt)
			if k != labKey {
				closeLab()
				eo := fedlab.EngineOptions{MultiFetch: opt.MF, ScheduleFetches: opt.Sched}
				var err error
				lab, err = fedlab.NewLab(c.Cfg, c.Uni, e.exec, eo)
				if err != nil {
					enc(&outcome{Seed: c.Seed, Index: c.Index, Knobs: c.Knobs.String(), Opt: opt.String(), Status: "laberror", Detail: short(err.Error())})
					lab, labKey = nil, ""
					continue
				}
				pl, err = e2e.NewPlanner(lab, eo)
				if err != nil {
					enc(&outcome{Seed: c.Seed, Index: c.Index, Knobs: c.Knobs.String(), Opt: opt.String(), Status: "laberror", Detail: short(err.Error())})
					closeLab()
					labKey = ""
					continue
				}
				labKey = k
				// the fault laboratory: the same configuration and engine option set under a generated
				// resolver option set (built lazily would save little: most configurations have a checked case)
				if !fs.off {
					var ro resolve.ResolverOptions
					ro, roptName = pickRopt(c.Seed, c.CfgIdx(), opt, fs.ropt)
					feo := eo
					feo.Resolver = ro
					if flab, err = fedlab.NewLab(c.Cfg, c.Uni, e.exec, feo); err != nil {
						enc(&outcome{Seed: c.Seed, Index: c.Index, Knobs: c.Knobs.String(), Opt: opt.String(), Status: "laberror", Detail: "fault lab: " + short(err.Error())})
						flab = nil
					}
				}
			}
			rnd := common.NewRand(c.Seed*1000003 + uint64(c.Index)*17 + uint64(b2i(opt.MF))*2 + uint64(b2i(opt.Sched)))
			o := e.checkCase(c, lab, pl, opt, rnd, flab, roptName, fs)
			enc(o)
			if o.Tree != "" && trees != nil {
				if t, raw, err := pl.PlanWithRaw(c.Op.Text(), c.Op.Name, []byte(c.Op.VariablesJSON())); err == nil {
					subIdx := map[string]int{}
					for i, g := range c.Cfg.Subgraphs {
						subIdx[g.Name] = i
					}
					trees.Line(driverLine(t, raw, opt, subIdx))
				}
			}
			if o.Status == "checked" {
				nChecked++
			}
		}
	}
	return
}

func main() {
	if len(os.Args) < 2 {
		fmt.Println("usage: c08e gen|one|corpus ...")
		os.Exit(2)
	}
	a := common.Args(os.Args[2:])
	tier := a["tier"]
	if tier == "" {
		tier = "quick"
	}
	exec, err := fedlab.NewExecServer("")
	if err != nil {
		fmt.Fprintln(os.Stderr, "executor:", err)
		os.Exit(2)
	}
	defer exec.Close()
	e := &env{exec: exec}
	e.cfgFor(tier)
	if v := common.ArgInt(a, "maxdfs", 0); v > 0 {
		e.cfg.maxDFS = v
	}
	if v := common.ArgInt(a, "maxrand", -1); v >= 0 {
		e.cfg.maxRand = v
	}
	e.cfg.settle = time.Duration(common.ArgInt(a, "settle", 1500)) * time.Microsecond
	e.cfg.verbose = a["v"] == "1"
	knobs := fedlab.ParseKnobs(a["knobs"])
	switch os.Args[1] {
	case "gen":
		seed := common.ArgU64(a, "seed", 1)
		n := common.ArgInt(a, "n", 100)
		from := common.ArgInt(a, "from", 0)
		out := common.NewOut(a["out"])
		defer out.Close()
		var trees *common.Out
		if a["trees"] != "" {
			trees = common.NewOut(a["trees"])
			defer trees.Close()
		}
		var cases []*fedlab.Case
		for i := from; i < from+n; i++ {
			cases = append(cases, fedlab.BuildCase(seed, i, 0, knobs, false))
		}
		t0 := time.Now()
		nc := e.runCases(cases, false, optSets(tier, a["opts"]), out, trees, parseFaultSpec(a["faults"]))
		fmt.Fprintf(os.Stderr, "c08e gen: %d cases x %d option sets, %d with concurrent requests, %.1fs\n", len(cases), len(optSets(tier, a["opts"])), nc, time.Since(t0).Seconds())
	case "one":
		seed := common.ArgU64(a, "seed", 1)
		idx := common.ArgInt(a, "index", 0)
		c := fedlab.BuildCase(seed, idx, 0, knobs, a["exact"] == "1")
		opts := []optSet{{a["mf"] == "1", a["sched"] == "1"}}
		if a["mf"] == "" && a["sched"] == "" {
			opts = optSets("thorough", "all")
		}
		out := common.NewOut("")
		trees := common.NewOut("")
		e.runCases([]*fedlab.Case{c}, true, opts, out, trees, parseFaultSpec(a["faults"]))
		out.Close()
		trees.Close()
	case "corpus":
		// lines: seed TAB index TAB knobs TAB mf,sched
		b, err := os.ReadFile(a["in"])
		if err != nil {
			fmt.Fprintln(os.Stderr, err)
			os.Exit(2)
		}
		out := common.NewOut(a["out"])
		defer out.Close()
		var trees *common.Out
		if a["trees"] != "" {
			trees = common.NewOut(a["trees"])
			defer trees.Close()
		}
		for _, line := range strings.Split(string(b), "\n") {
			line = strings.TrimSpace(line)
			if line == "" || strings.HasPrefix(line, "#") {
				continue
			}
			p := strings.Split(line, "\t")
			if len(p) < 4 {
				continue
			}
			var seed uint64
			var idx int
			fmt.Sscan(p[0], &seed)
			fmt.Sscan(p[1], &idx)
			c := fedlab.BuildCase(seed, idx, 0, fedlab.ParseKnobs(p[2]), true)
			fs := faultSpec{}
			if len(p) >= 5 {
				fs = parseFaultSpec(p[4])
			}
			e.runCases([]*fedlab.Case{c}, true, optSets(tier, p[3]), out, trees, fs)
		}
	default:
		fmt.Println("unknown command")
		os.Exit(2)
	}
}
