// Fault mixes under resolver option sets (added after seeded regression C08-m6).
//
// The completion-order clause of C08 is about the WHOLE response (data, errors, extensions) and the
// loader carries state that is shared by every fetch of a tree and written in the merge phase, i.e.
// in completion order (errors, skipValueCompletion, erroredFetchIDs, taintedObjs, subgraphErrors).
// Which of that state is touched depends on the resolver's options (Apollo compatibility flags,
// error propagation modes, ...) and on how the subgraphs answer (no data / errors / partial data).
// So, for every checked case, a second laboratory is built whose engine runs under a GENERATED
// resolver option set, a fault mix is drawn over requests that are in flight at the same time
// (parallel siblings), and the faulted responses are released in every relative order (plus seeded
// random orders).  Clauses:
//
//	response_order_independent/faults     the whole response is identical in every completion order: the same
//	                                      top-level members in the same order, data and extensions byte-equal,
//	                                      errors the same multiset (the property's wording for errors)
//	request_set_order_independent/faults  the same multiset of subgraph requests in every completion order
package main

import (
	"fmt"
	"sort"
	"strings"
	"sync"
	"time"

	"gvh/common"
	"gvh/e2e"
	"gvh/fedlab"

	"github.com/wundergraph/graphql-go-tools/v2/pkg/engine/resolve"
)

// ---------------------------------------------------------------- resolver option sets

type ropt struct {
	name   string
	weight int
	ro     resolve.ResolverOptions
}

// resolverOptionSets: named presets of resolve.ResolverOptions (the resolver-side option sets an
// integrator chooses from) plus "rand", whose bits are drawn per laboratory.
func resolverOptionSets() []ropt {
	apollo := resolve.ResolvableOptions{ApolloCompatibilityValueCompletionInExtensions: true, ApolloCompatibilitySuppressFetchErrors: true}
	return []ropt{
		{"default", 2, resolve.ResolverOptions{}},
		{"apollo", 4, resolve.ResolverOptions{ResolvableOptions: apollo}},
		{"apollo-propagate", 2, resolve.ResolverOptions{ResolvableOptions: apollo, PropagateSubgraphErrors: true,
			SubgraphErrorPropagationMode: resolve.SubgraphErrorPropagationModePassThrough, RewriteSubgraphErrorPaths: true}},
		{"apollo-vc", 1, resolve.ResolverOptions{ResolvableOptions: resolve.ResolvableOptions{ApolloCompatibilityValueCompletionInExtensions: true}}},
		{"apollo-suppress", 1, resolve.ResolverOptions{ResolvableOptions: resolve.ResolvableOptions{ApolloCompatibilitySuppressFetchErrors: true, ApolloCompatibilityTruncateFloatValues: true}}},
		{"wrapped", 1, resolve.ResolverOptions{PropagateSubgraphErrors: true, SubgraphErrorPropagationMode: resolve.SubgraphErrorPropagationModeWrapped,
			AttachServiceNameToErrorExtensions: true, DefaultErrorExtensionCode: "DOWNSTREAM_SERVICE_ERROR", PropagateSubgraphStatusCodes: true}},
		{"passthrough", 1, resolve.ResolverOptions{PropagateSubgraphErrors: true, SubgraphErrorPropagationMode: resolve.SubgraphErrorPropagationModePassThrough,
			RewriteSubgraphErrorPaths: true, AllowAllErrorExtensionFields: true, OmitSubgraphErrorLocations: true}},
		{"router-http", 1, resolve.ResolverOptions{PropagateSubgraphErrors: true, ApolloRouterCompatibilitySubrequestHTTPError: true,
			SubgraphErrorPropagationMode: resolve.SubgraphErrorPropagationModeWrapped, OmitSubgraphErrorExtensions: true}},
		{"validate-external", 1, resolve.ResolverOptions{PropagateSubgraphErrors: true, ValidateRequiredExternalFields: true,
			SubgraphErrorPropagationMode: resolve.SubgraphErrorPropagationModePassThrough}},
		// forwarding of subgraph "extensions" members to the client: first_write / last_write are defined over the order
		// in which responses are MERGED, i.e. the completion order (KNOWN_FINDINGS key extension-forwarding-order: only a
		// differing VALUE of a key that two fetches in flight together returned; anything else, e.g. the key order, is a violation)
		{"custom-ext", 1, resolve.ResolverOptions{AllowCustomExtensionProperties: true}},
		{"custom-ext-last", 1, resolve.ResolverOptions{AllowCustomExtensionProperties: true,
			ResolvableOptions: resolve.ResolvableOptions{ExtensionForwardingAlgorithm: resolve.ExtensionForwardingAlgorithmLastWrite}}},
		{"rand", 2, resolve.ResolverOptions{}},
	}
}

func randResolverOptions(r *common.Rand) (resolve.ResolverOptions, string) {
	var ro resolve.ResolverOptions
	var bits []string
	flag := func(name string, p *bool) {
		if r.Chance(1, 2) {
			*p = true
			bits = append(bits, name)
		}
	}
	flag("vc", &ro.ResolvableOptions.ApolloCompatibilityValueCompletionInExtensions)
	flag("suppress", &ro.ResolvableOptions.ApolloCompatibilitySuppressFetchErrors)
	flag("truncf", &ro.ResolvableOptions.ApolloCompatibilityTruncateFloatValues)
	flag("prop", &ro.PropagateSubgraphErrors)
	flag("status", &ro.PropagateSubgraphStatusCodes)
	flag("rewrite", &ro.RewriteSubgraphErrorPaths)
	flag("omitloc", &ro.OmitSubgraphErrorLocations)
	flag("omitext", &ro.OmitSubgraphErrorExtensions)
	flag("allext", &ro.AllowAllErrorExtensionFields)
	flag("svc", &ro.AttachServiceNameToErrorExtensions)
	flag("routerhttp", &ro.ApolloRouterCompatibilitySubrequestHTTPError)
	flag("valext", &ro.ValidateRequiredExternalFields)
	if r.Chance(1, 2) {
		ro.SubgraphErrorPropagationMode = resolve.SubgraphErrorPropagationModePassThrough
		bits = append(bits, "passthrough")
	}
	if r.Chance(1, 3) {
		ro.DefaultErrorExtensionCode = "DOWNSTREAM_SERVICE_ERROR"
		bits = append(bits, "code")
	}
	return ro, "rand(" + strings.Join(bits, "+") + ")"
}

func hash64(xs ...uint64) uint64 {
	h := uint64(0x9e3779b97f4a7c15)
	for _, x := range xs {
		h ^= x + 0x9e3779b97f4a7c15 + (h << 6) + (h >> 2)
		h *= 0xbf58476d1ce4e5b9
		h ^= h >> 29
	}
	return h
}

// pickRopt: the option set of the fault laboratory of (seed, configuration, engine option set);
// name != "" pins a preset (corpus / replay).
func pickRopt(seed uint64, cfgIdx int, opt optSet, name string) (resolve.ResolverOptions, string) {
	sets := resolverOptionSets()
	r := common.NewRand(hash64(seed, uint64(cfgIdx), uint64(b2i(opt.MF)), uint64(b2i(opt.Sched)), 0xfa17))
	pick := func(s ropt) (resolve.ResolverOptions, string) {
		if s.name == "rand" {
			return randResolverOptions(r)
		}
		return s.ro, s.name
	}
	if name != "" {
		for _, s := range sets {
			if s.name == name {
				return pick(s)
			}
		}
	}
	total := 0
	for _, s := range sets {
		total += s.weight
	}
	x := r.IntN(total)
	for _, s := range sets {
		if x < s.weight {
			return pick(s)
		}
		x -= s.weight
	}
	return sets[0].ro, sets[0].name
}

// ---------------------------------------------------------------- fault kinds

const (
	fErrorsNoData   = "errors_nodata"   // {"errors":[..]}
	fErrorsDataNull = "errors_datanull" // {"errors":[..],"data":null}
	fEmptyObj       = "empty_obj"       // {}                    no data, no errors
	fDataNull       = "data_null"       // {"data":null}         no data, no errors
	fErrorsPartial  = "errors_partial"  // the semantic data plus an errors member
	fDropMember     = "drop_member"     // the semantic data without one leaf member (a missing field)
	fNullMember     = "null_member"     // ... with one leaf member set to null
	fWithExtensions = "with_extensions" // the semantic answer plus "extensions":{"served_by":<subgraph>,"<subgraph>":true}
)

type wkind struct {
	kind   string
	weight int
}

var faultKinds = []wkind{
	{fErrorsNoData, 4}, {fEmptyObj, 3}, {fDataNull, 2}, {fErrorsDataNull, 1}, {fErrorsPartial, 2}, {fDropMember, 2}, {fNullMember, 1},
	{e2e.KEntNull, 1}, {e2e.KTransport, 1}, {e2e.K500Empty, 1}, {e2e.KEntMissing, 1}, {fWithExtensions, 2},
}

// firstLeaf finds the first object (depth first) with a scalar member other than __typename / id
// and returns it with the member's index.
func firstLeaf(j *fedlab.J) (*fedlab.J, int) {
	if j == nil {
		return nil, -1
	}
	switch j.Kind {
	case fedlab.JArr:
		for _, x := range j.Items {
			if o, i := firstLeaf(x); o != nil {
				return o, i
			}
		}
	case fedlab.JObj:
		for i, m := range j.Members {
			if m.Key == "__typename" || m.Key == "id" || m.Val == nil {
				continue
			}
			if m.Val.Kind != fedlab.JObj && m.Val.Kind != fedlab.JArr && m.Val.Kind != fedlab.JNull {
				return j, i
			}
		}
		for _, m := range j.Members {
			if o, i := firstLeaf(m.Val); o != nil {
				return o, i
			}
		}
	}
	return nil, -1
}

func faultApplicable(kind string, req *fedlab.Request) bool {
	switch kind {
	case fDropMember, fNullMember:
		body, err := fedlab.ParseJSON(req.Response)
		if err != nil {
			return false
		}
		o, _ := firstLeaf(body.Get("data"))
		return o != nil
	case fErrorsPartial:
		body, err := fedlab.ParseJSON(req.Response)
		return err == nil && body.Get("data") != nil && body.Get("errors") == nil
	case e2e.KEntNull, e2e.KEntMissing, e2e.KTransport, e2e.K500Empty:
		return e2e.Applicable(kind, req)
	}
	return true
}

func faultAction(kind string, req *fedlab.Request) (*fedlab.Action, error) {
	msg := fedlab.JO(fedlab.Member{Key: "message", Val: fedlab.JS("injected: boom at " + req.Subgraph)})
	errs := fedlab.Member{Key: "errors", Val: fedlab.JA(msg)}
	ok := func(body string) (*fedlab.Action, error) {
		return &fedlab.Action{Status: 200, Body: []byte(body)}, nil
	}
	switch kind {
	case fErrorsNoData:
		return ok(fedlab.JO(errs).String())
	case fErrorsDataNull:
		return ok(fedlab.JO(errs, fedlab.Member{Key: "data", Val: fedlab.JN()}).String())
	case fEmptyObj:
		return ok(`{}`)
	case fDataNull:
		return ok(`{"data":null}`)
	case fErrorsPartial, fDropMember, fNullMember, fWithExtensions:
		body, err := fedlab.ParseJSON(req.Response)
		if err != nil {
			return nil, err
		}
		switch kind {
		case fErrorsPartial:
			body.Members = append(body.Members, errs)
		case fWithExtensions:
			body.Members = append(body.Members, fedlab.Member{Key: "extensions", Val: fedlab.JO(
				fedlab.Member{Key: "served_by", Val: fedlab.JS(req.Subgraph)}, fedlab.Member{Key: req.Subgraph, Val: fedlab.JS("seen")})})
		default:
			o, i := firstLeaf(body.Get("data"))
			if o == nil {
				return nil, fmt.Errorf("no leaf member in the body")
			}
			if kind == fDropMember {
				o.Members = append(o.Members[:i:i], o.Members[i+1:]...)
			} else {
				o.Members[i].Val = fedlab.JN()
			}
		}
		return ok(body.String())
	}
	a, err := e2e.ActionFor(kind, req)
	if err != nil {
		return nil, err
	}
	return &a, nil
}

// ---------------------------------------------------------------- the whole response, canonically

// canonResponse: the top-level members in their order; "errors" as a sorted multiset; everything
// else byte for byte.  Returned as (key, text) pairs.
func canonResponse(raw []byte) ([][2]string, error) {
	j, err := fedlab.ParseJSON(raw)
	if err != nil {
		return nil, err
	}
	if j.Kind != fedlab.JObj {
		return [][2]string{{"<value>", j.String()}}, nil
	}
	var out [][2]string
	for _, m := range j.Members {
		if m.Key == "errors" && m.Val != nil && m.Val.Kind == fedlab.JArr {
			out = append(out, [2]string{m.Key, "[" + strings.Join(errMultiset(m.Val), ",") + "]"})
			continue
		}
		out = append(out, [2]string{m.Key, m.Val.String()})
	}
	return out, nil
}

func canonOf(res *fedlab.Result) [][2]string {
	if res == nil {
		return [][2]string{{"<nothing>", ""}}
	}
	if res.Err != nil {
		return [][2]string{{"<execute error>", short(res.Err.Error())}}
	}
	c, err := canonResponse(res.Response)
	if err != nil {
		return [][2]string{{"<not json>", short(string(res.Response))}}
	}
	return c
}

// diffCanon describes the first difference between two canonical responses ("" when equal).
func diffCanon(a, b [][2]string) string {
	keys := func(c [][2]string) string {
		ks := make([]string, len(c))
		for i, m := range c {
			ks[i] = m[0]
		}
		return strings.Join(ks, ",")
	}
	if keys(a) != keys(b) {
		extra := ""
		am := map[string]string{}
		for _, m := range a {
			am[m[0]] = m[1]
		}
		for _, m := range b {
			if _, ok := am[m[0]]; !ok {
				extra = fmt.Sprintf(" (%s only in the second: %s)", m[0], fedlab.Trunc(m[1], 200))
			}
			delete(am, m[0])
		}
		for k, v := range am {
			extra += fmt.Sprintf(" (%s only in the first: %s)", k, fedlab.Trunc(v, 200))
		}
		return fmt.Sprintf("top-level members [%s] vs [%s]%s", keys(a), keys(b), extra)
	}
	for i := range a {
		if a[i][1] != b[i][1] {
			return fmt.Sprintf("member %q differs: %s vs %s", a[i][0], fedlab.Trunc(a[i][1], 300), fedlab.Trunc(b[i][1], 300))
		}
	}
	return ""
}

// forwardedValueConflict: the two responses differ ONLY in the value of forwarded extension keys that at least two
// of the concurrently held fetches returned (same members in the same order everywhere, the same extension keys in the
// same order).  Returns those keys ("" otherwise: any other difference is not the recorded finding).
func forwardedValueConflict(a, b [][2]string, providers map[string]int) string {
	if len(a) != len(b) {
		return ""
	}
	var ea, eb string
	for i := range a {
		if a[i][0] != b[i][0] {
			return ""
		}
		if a[i][0] == "extensions" {
			ea, eb = a[i][1], b[i][1]
			continue
		}
		if a[i][1] != b[i][1] {
			return ""
		}
	}
	ja, err1 := fedlab.ParseJSON([]byte(ea))
	jb, err2 := fedlab.ParseJSON([]byte(eb))
	if err1 != nil || err2 != nil || ja.Kind != fedlab.JObj || jb.Kind != fedlab.JObj || len(ja.Members) != len(jb.Members) {
		return ""
	}
	var keys []string
	for i := range ja.Members {
		ma, mb := ja.Members[i], jb.Members[i]
		if ma.Key != mb.Key {
			return ""
		}
		if ma.Val.String() == mb.Val.String() {
			continue
		}
		if providers[ma.Key] < 2 {
			return ""
		}
		keys = append(keys, ma.Key)
	}
	return strings.Join(keys, ",")
}

// ---------------------------------------------------------------- the fault phase of one case

// faultSpec pins the fault laboratory (corpus lines, replays); the zero value derives everything.
type faultSpec struct {
	ropt  string
	kinds []string
	off   bool
}

func parseFaultSpec(s string) faultSpec {
	var fs faultSpec
	for _, p := range strings.Split(s, ";") {
		p = strings.TrimSpace(p)
		switch {
		case p == "off":
			fs.off = true
		case strings.HasPrefix(p, "ropt="):
			fs.ropt = p[5:]
		case strings.HasPrefix(p, "kinds="):
			fs.kinds = strings.Split(p[6:], ",")
		}
	}
	return fs
}

type concSet struct {
	prefix []string // keys released (fault-free) before the decision
	alts   []string // distinct keys held at the decision
}

func permutations(xs []string) [][]string {
	if len(xs) <= 1 {
		return [][]string{append([]string(nil), xs...)}
	}
	var out [][]string
	for i := range xs {
		rest := append(append([]string(nil), xs[:i]...), xs[i+1:]...)
		for _, p := range permutations(rest) {
			out = append(out, append([]string{xs[i]}, p...))
		}
	}
	return out
}

// noDataFamily: the answers that take mergeResult's "no data" paths (each through a different branch).
var noDataFamily = []wkind{{fErrorsNoData, 2}, {fErrorsDataNull, 1}, {fEmptyObj, 2}, {fDataNull, 1}, {e2e.KTransport, 1}, {e2e.K500Empty, 1}}

// faultPhase: two mixes per checked case -- "any" (2-3 concurrent requests, kinds drawn from all
// fault kinds) and "nodata" (two concurrent requests answered by two DIFFERENT members of the
// no-data family: with / without errors, transport failure, status 500) -- or the one pinned by fs.
func (e *env) faultPhase(c *fedlab.Case, flab *fedlab.Lab, roptName string, opt optSet, o *outcome, cs *concSet, nBase int, fs faultSpec,
	viol func(string, string, ...any)) {
	if flab == nil || cs == nil || len(cs.alts) < 2 {
		return
	}
	rnd := common.NewRand(hash64(c.Seed, uint64(c.Index), uint64(b2i(opt.MF)), uint64(b2i(opt.Sched)), 0xfa02))
	o.Stats["fault_cases"]++
	o.Stats["fault_ropt:"+strings.SplitN(roptName, "(", 2)[0]]++
	if len(fs.kinds) > 0 {
		e.faultMix(c, flab, roptName, o, cs, fs, "pinned", rnd, viol)
		return
	}
	e.faultMix(c, flab, roptName, o, cs, fs, "any", rnd, viol)
	rnd2 := common.NewRand(hash64(c.Seed, uint64(c.Index), uint64(b2i(opt.MF)), uint64(b2i(opt.Sched)), 0xfa03))
	e.faultMix(c, flab, roptName, o, cs, fs, "nodata", rnd2, viol)
}

func (e *env) faultMix(c *fedlab.Case, flab *fedlab.Lab, roptName string, o *outcome, cs *concSet, fs faultSpec, mode string, rnd *common.Rand,
	viol func(string, string, ...any)) {
	opText, opName, vars := c.Op.Text(), c.Op.Name, []byte(c.Op.VariablesJSON())

	// the semantic answers of the concurrent requests (to build the faulted bodies deterministically)
	// come with the request in the hook; here only the assignment key -> kind is drawn
	alts := append([]string(nil), cs.alts...)
	sort.Strings(alts)
	m := 2
	if mode == "any" && len(alts) >= 3 && rnd.Chance(2, 5) {
		m = 3
	}
	family := faultKinds
	if mode == "nodata" {
		family = noDataFamily
	}
	if len(fs.kinds) > 0 {
		m = len(fs.kinds)
		if m > len(alts) {
			m = len(alts)
		}
	}
	// targets: m of the concurrent keys
	idx := make([]int, len(alts))
	for i := range idx {
		idx[i] = i
	}
	if len(fs.kinds) == 0 {
		for i := len(idx) - 1; i > 0; i-- {
			j := rnd.IntN(i + 1)
			idx[i], idx[j] = idx[j], idx[i]
		}
	}
	targets := make([]string, m)
	for i := 0; i < m; i++ {
		targets[i] = alts[idx[i]]
	}
	sort.Strings(targets)
	total := 0
	for _, k := range family {
		total += k.weight
	}
	want := map[string]string{} // key -> kind drawn (applicability is decided when the request is seen)
	var drawn []string
	for i, t := range targets {
		kind := ""
		if len(fs.kinds) > 0 {
			kind = fs.kinds[i]
		} else {
			for try := 0; try < 8; try++ {
				x := rnd.IntN(total)
				for _, k := range family {
					if x < k.weight {
						kind = k.kind
						break
					}
					x -= k.weight
				}
				if mode != "nodata" || len(drawn) == 0 || kind != drawn[0] {
					break
				}
			}
		}
		if mode == "any" && i == 0 && strings.HasPrefix(roptName, "custom-ext") {
			kind = fWithExtensions // a forwarding preset is only exercised by answers that carry extensions
		}
		want[t] = kind
		drawn = append(drawn, kind)
	}
	applied := map[string]string{}
	var amu sync.Mutex
	appliedKind := func(k string) string {
		amu.Lock()
		defer amu.Unlock()
		return applied[k]
	}
	fault := func(key string, req *fedlab.Request) *fedlab.Action {
		kind, ok := want[key]
		if !ok {
			return nil
		}
		if !faultApplicable(kind, req) {
			kind = fErrorsNoData // always applicable
		}
		a, err := faultAction(kind, req)
		if err != nil {
			return nil
		}
		amu.Lock()
		applied[key] = kind
		amu.Unlock()
		return a
	}
	o.Stats["fault_mixes:"+mode]++
	var desc []string
	for i, t := range targets {
		desc = append(desc, drawn[i]+"@"+shortKey(t))
	}
	faultsTxt := "ropt=" + roptName + "; mix=" + mode + "; " + strings.Join(desc, "; ")
	if o.Faults != "" {
		o.Faults += " || "
	}
	o.Faults += faultsTxt
	for _, k := range drawn {
		o.Stats["fault_kind:"+k]++
	}

	type frun struct {
		order string
		canon [][2]string
		keys  map[string]int
	}
	var ref *frun
	expect := 1 << 20 // first run: unknown, the controller waits for quiet before every free decision
	run := func(prefix []string, pick e2e.Picker) {
		o.Runs++
		o.Stats["fault_runs"]++
		g := e2e.RunGatedOpts(flab, opText, opName, vars, prefix, pick, e2e.GateOptions{Settle: e.cfg.settle, ExpectTotal: expect,
			AfterRelease: 400 * time.Microsecond, Fault: fault})
		if g.Result == nil {
			viol("response_order_independent/faults", "gated run under faults returned nothing")
			return
		}
		order := make([]string, len(g.Order))
		for i, k := range g.Order {
			order[i] = shortKey(k)
			if kd := appliedKind(k); kd != "" {
				order[i] = "[" + kd + "]" + order[i]
			}
		}
		r := &frun{order: strings.Join(order, " < "), canon: canonOf(g.Result), keys: e2e.KeyMultiset(g.Result.Requests)}
		if e.cfg.verbose {
			o.Orderlog = append(o.Orderlog, "faults: "+r.order+" => "+fedlab.Trunc(string(g.Result.Response), 400))
		}
		if g.Diverged {
			o.Stats["fault_runs_diverged"]++
			return
		}
		if ref == nil {
			ref = r
			expect = len(g.Result.Requests)
			return
		}
		o.Stats["fault_order_comparisons"]++
		if d := diffCanon(ref.canon, r.canon); d != "" {
			mark := ""
			if strings.HasPrefix(roptName, "custom-ext") {
				// providers of a forwarded extension key: the concurrently held requests answered with_extensions
				prov := map[string]int{}
				amu.Lock()
				for k, kd := range applied {
					if kd == fWithExtensions {
						prov["served_by"]++
						prov[strings.SplitN(k, "|", 2)[0]]++
					}
				}
				amu.Unlock()
				if ks := forwardedValueConflict(ref.canon, r.canon, prov); ks != "" {
					mark = " [forwarded-extension-value-conflict keys=" + ks + "]"
				}
			}
			viol("response_order_independent/faults", "resolver options %s, faults %s: the response depends on the completion order%s: %s || order A: %s || order B: %s",
				roptName, faultsTxt, mark, d, ref.order, r.order)
		}
		for k := range r.keys {
			if ref.keys[k] == 0 {
				viol("request_set_order_independent/faults", "resolver options %s, faults %s: request only under order %s: %s", roptName, faultsTxt, r.order, shortKey(k))
			}
		}
		for k := range ref.keys {
			if r.keys[k] == 0 {
				viol("request_set_order_independent/faults", "resolver options %s, faults %s: request missing under order %s (sent under %s): %s", roptName, faultsTxt, r.order, ref.order, shortKey(k))
			}
		}
	}
	perms := permutations(targets)
	for _, p := range perms {
		run(append(append([]string(nil), cs.prefix...), p...), nil)
	}
	// seeded random orders on top of the permutations: quick 1 for the no-data mix (0 for the others), thorough 6
	nRand := 0
	if mode == "nodata" || mode == "pinned" {
		nRand = 1
	}
	if e.cfg.maxDFS > 100 {
		nRand = 6
	}
	for i := 0; i < nRand; i++ {
		run(append([]string(nil), cs.prefix...), func(step int, alts []string) int { return rnd.Pick(len(alts)) })
	}
}
