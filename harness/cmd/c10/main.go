package main

import (
	"fmt"
	"os"

	"gvh/c10lab"
	"gvh/fedlab"
)

func main() {
	cfg, u := fedlab.Example()
	ex, err := fedlab.NewExecServer("")
	if err != nil {
		panic(err)
	}
	lab, err := c10lab.NewLab(cfg, u, ex)
	if err != nil {
		fmt.Println("newlab:", err)
		os.Exit(1)
	}
	ops := os.Args[1:]
	for _, op := range ops {
		run := lab.Execute(op, "", nil, func(step int, b []*c10lab.Req) int { return 0 }, 0)
		fmt.Println("OP:", op, "err:", run.Err, "timeout:", run.TimedOut, run.Wall)
		for i, f := range run.Rec.Frames {
			fmt.Printf("  F%d %s\n", i, f)
		}
		fmt.Println("  completes:", run.Rec.Completes, "unflushed:", string(run.Rec.Unflushed()), "choices", run.Choices)
		for _, q := range run.Reqs {
			fmt.Printf("   [%d p%d] %s %s %s -> %s\n", q.Index, q.Phase, q.Subgraph, q.Query, q.Vars, q.Response)
		}
	}
}
