// c10: @defer -- direct spec checks on the real ExecutionEngine (mode spec) and frame-level
// correspondence of the real Resolver with the Coq model on hand-built deferred plans (mode corr).
//
//	c10 spec -seed S -n N -orders K [-cfg mono,entity,fed] [-workers W] -out FILE
//	c10 probe -cfg C -useed S [-harsh H] -op 'query' [-vars '{}'] [-orders K]
//	c10 replay -in corpus-file -out FILE
//	c10 corr -seed S -n N -out FILE
//
// spec: one line per (operation, universe, completion order):
//
//	(c10spec (cfg "c") (useed n harsh) (op "text") (vars "json") (picks n...) (frames (fr (p id...) (i id...) (c id...) (hn t|f|n))...)
//	         (term t|f) (ndefer n) (go (clause "detail")...) (nt t|f))
package main

import (
	"fmt"
	"os"
	"regexp"
	"sort"
	"strconv"
	"strings"
	"sync"
	"time"

	"github.com/wundergraph/astjson"

	"gvh/c10lab"
	"gvh/common"
	fl "gvh/fedlab"
	gplan "gvh/plan"
)

type opCase struct {
	cfg    string
	useed  uint64
	harsh  int
	op     *fl.Operation
	kinds  map[string]int
	lines  []string
	report []string
	stats  map[string]int
	fails  []c10lab.Fail
	keepUniverse bool
	idx int
	rawOp, rawVars string // corpus: operation given as text
	parsed     *fl.Operation
	parsedVars *fl.J
	dropped    map[string]bool    // positions of the fields of defers that a dead ancestor anchor below their mount cancels
	badAnchors []c10lab.BadAnchor // descriptor paths that are not a prefix of every selection set of their defer
}

func (oc *opCase) ensureParsed(text, vars string) {
	if oc.parsed == nil {
		oc.parsed, _ = c10lab.ParseOperation(text)
		oc.parsedVars, _ = fl.ParseJSON([]byte(vars))
	}
}

var memberRe = regexp.MustCompile(`^/[^:]*: (?:extra |duplicate )?member (\S+)`)

type worker struct {
	exec *fl.ExecServer
	labs map[string]*c10lab.Lab
}

func newWorker(cfgs []string) *worker {
	ex, err := fl.NewExecServer("")
	if err != nil {
		fmt.Fprintln(os.Stderr, "exec server:", err)
		os.Exit(2)
	}
	w := &worker{exec: ex, labs: map[string]*c10lab.Lab{}}
	for _, c := range cfgs {
		lab, err := c10lab.NewLab(c10lab.ConfigByName(c), nil, ex)
		if err != nil {
			fmt.Fprintln(os.Stderr, "lab", c, ":", err)
			os.Exit(2)
		}
		w.labs[c] = lab
	}
	return w
}

func frameSummary(s *c10lab.Stream) string {
	return common.L(append([]string{"frames"}, sumsOf(s.Frames)...)...)
}

// flushSummary: per Flush call the summaries of the frames it handed over:  (flushes (fl FR...)...)
func flushSummary(s *c10lab.Stream) string {
	items := []string{"flushes"}
	for _, fl := range s.Flushes {
		items = append(items, common.L(append([]string{"fl"}, sumsOf(fl)...)...))
	}
	items = append(items, common.L("foreign", strconv.Itoa(s.Foreign)))
	return common.L(items...)
}

func sumsOf(frames []*c10lab.Frame) []string {
	var fr []string
	for _, f := range frames {
		if f.ParseErr != "" {
			fr = append(fr, "(bad)")
			continue
		}
		p, i, c := []string{"p"}, []string{"i"}, []string{"c"}
		for _, x := range f.Pending {
			p = append(p, num(x.ID))
		}
		for _, x := range f.Incr {
			i = append(i, num(x.ID))
		}
		for _, x := range f.Completed {
			c = append(c, num(x.ID))
		}
		hn := "n"
		if f.HasNext == 1 {
			hn = "t"
		} else if f.HasNext == 0 {
			hn = "f"
		}
		fr = append(fr, common.L("fr", common.L(p...), common.L(i...), common.L(c...), common.L("hn", hn)))
	}
	return fr
}

// ids are decimal strings in the wire format; anything else is mapped to 0 (never announced)
func num(id string) string {
	if n, err := strconv.Atoi(id); err == nil && n > 0 {
		return strconv.Itoa(n)
	}
	return "0"
}

type orderPlan struct {
	maxOrders int
	allIfLE   int // enumerate all orders when the first run shows at most this many announced ids
	randomN   int
}

// runOne executes the deferred operation under one chooser and evaluates every clause.
func runOne(lab *c10lab.Lab, oc *opCase, text, vars string, chooser c10lab.Chooser, refs *refs) (*c10lab.Run, *c10lab.Stream, []c10lab.Fail) {
	run := lab.Execute(text, oc.op.Name, []byte(vars), chooser, 8*time.Second)
	s := c10lab.StreamOf(run)
	var fails []c10lab.Fail
	if len(s.Frames) == 0 {
		// no frame: a planning / validation error.  Compare with the non-deferred query.
		if refs.gwErr == "" {
			oc.ensureParsed(text, vars)
			fails = append(fails, c10lab.Fail{Clause: "exec_error", Detail: "the query fails only with @defer: " + s.ExecErr +
				" [diag=" + c10lab.DiagnosePlanError(lab.Config, oc.parsed, oc.parsedVars) + "]"})
		}
		return run, s, fails
	}
	fails = append(fails, c10lab.CheckFramesWhole(s)...)
	fails = append(fails, c10lab.CheckFlushes(s)...)
	fails = append(fails, c10lab.CheckProtocol(s)...)
	if s.Frames[0].ParseErr == "" {
		rec, mf := c10lab.Reconstruct(s)
		fails = append(fails, mf...)
		failed := c10lab.FailedAnchors(s)
		if rec != nil && len(mf) == 0 {
			if refs.mono != nil && refs.monoInvalid == "" {
				if d := c10lab.Compare(refs.mono, rec, failed); d != "" {
					fails = append(fails, c10lab.Fail{Clause: "reconstruct/mono", Detail: d})
				}
			}
			if refs.gwErr == "" && refs.gw != nil {
				if d := c10lab.Compare(refs.gw, rec, failed); d != "" {
					fails = append(fails, c10lab.Fail{Clause: "reconstruct/gateway", Detail: d})
				}
			}
		}
	}
	if len(fails) > 0 {
		silent, failedN := c10lab.Silent(s)
		d0 := "obj"
		if s.Frames[0].ParseErr == "" && (s.Frames[0].Data == nil || s.Frames[0].Data.Kind == fl.JNull) {
			d0 = "null"
		}
		var lost []string
		for i := range fails {
			if !strings.HasPrefix(fails[i].Clause, "reconstruct") {
				continue
			}
			diag := ""
			if strings.HasPrefix(fails[i].Detail, "/") {
				pos := strings.SplitN(fails[i].Detail, ":", 2)[0]
				member := ""
				if m := memberRe.FindStringSubmatch(fails[i].Detail); m != nil {
					member = m[1]
				}
				oc.ensureParsed(text, vars)
				if strings.Contains(fails[i].Detail, ": null without @defer, ") {
					diag = c10lab.DiagnoseOpSubtree(lab.Config.Super, oc.parsed, oc.parsedVars, pos)
				} else {
					diag = c10lab.DiagnoseOp(lab.Config.Super, oc.parsed, oc.parsedVars, pos, member)
				}
				if diag == "" && member != "" && strings.Contains(fails[i].Detail, "missing in the reconstruction") {
					var names []string
					for _, x := range strings.Split(strings.Trim(pos, "/"), "/") {
						if _, err := strconv.Atoi(x); err != nil && x != "" {
							names = append(names, x)
						}
					}
					if oc.dropped[strings.Join(names, "/")] {
						diag = "anchor-below-mount"
					}
				}
			} else if strings.Contains(fails[i].Detail, "addresses nothing in the data delivered so far: /") {
				// pending path ++ subPath does not exist: is the pending path one of the anchors that the plan-level
				// check found inconsistent (a defer whose fields surface in several selection sets)?
				where := fails[i].Detail
				where = where[strings.Index(where, ": /")+3:]
				var segs []string
				for _, x := range strings.Split(where, "/") {
					segs = append(segs, strings.Trim(x, "\""))
				}
				for _, a := range oc.badAnchors {
					if len(segs) > len(a.Path) && strings.Join(segs[:len(a.Path)], "/") == strings.Join(a.Path, "/") {
						diag = "anchor-first-occurrence"
						// the item was meant for mount ++ subPath: what it carried is missing from now on
						lost = append(lost, strings.Join(append(append([]string{}, a.Mount...), segs[len(a.Path):]...), "/")+"/")
					}
				}
				if diag == "" {
					for _, l := range lost {
						if strings.HasPrefix(strings.Join(segs, "/")+"/", l) {
							diag = "anchor-first-occurrence"
						}
					}
				}
			}
			fails[i].Detail += fmt.Sprintf(" [d0=%s silent=%d failed=%d monoerr=%d diag=%s]", d0, silent, failedN, refs.monoErrors, diag)
		}
	}
	return run, s, fails
}

type refs struct {
	mono        *fl.J
	monoErrors  int
	monoInvalid string
	gw          *fl.J
	gwErr       string
	gwRaw       string
	ifFalse     *fl.J
	ifFalseRaw  string
	ifFalseErr  string
}

func announcedIDs(s *c10lab.Stream) int {
	ids := map[string]bool{}
	for _, f := range s.Frames {
		for _, p := range f.Pending {
			ids[p.ID] = true
		}
	}
	return len(ids)
}

func hasNestedAnnouncement(s *c10lab.Stream) bool {
	for i, f := range s.Frames {
		if i > 0 && len(f.Pending) > 0 {
			return true
		}
	}
	return false
}

func q(s string) string { return common.QS(s) }

func processOp(w *worker, oc *opCase, plan orderPlan, rseed uint64) {
	lab := w.labs[oc.cfg]
	oc.stats = map[string]int{}
	if !oc.keepUniverse {
		r := common.NewRand(oc.useed)
		u := c10lab.GenUniverseHarsh(r, lab.Config, oc.harsh)
		if err := lab.SetUniverse(u); err != nil {
			oc.report = append(oc.report, "set universe: "+err.Error())
			return
		}
		if oc.op == nil {
			oc.op, oc.kinds = c10lab.GenDeferOperation(r, lab.Config, u)
		}
	}
	var text, vars, ndText, iffText, ndName, iffName string
	if oc.rawOp != "" {
		text, vars = oc.rawOp, oc.rawVars
		ndText, iffText = stripDeferText(text), ifFalseText(text)
		oc.op = &fl.Operation{}
	} else {
		text = oc.op.Text()
		vars = oc.op.VariablesJSON()
		nd := c10lab.StripDefer(oc.op)
		c10lab.PruneVars(nd)
		ndText, ndName = nd.Text(), nd.Name
		iff := c10lab.DeferIfFalse(oc.op)
		c10lab.PruneVars(iff)
		iffText, iffName = iff.Text(), iff.Name
	}

	// plan level: the ancestor chains of the normalised document and the real DeferDescriptors
	if di, err := lab.Descriptors(text, oc.op.Name, []byte(vars)); err == nil {
		oc.lines = append(oc.lines, di.Sexp(oc.cfg, text, vars, lab.Config.Super))
		oc.badAnchors = di.InconsistentAnchors()
		oc.dropped = di.DroppedPositions()
		oc.stats["desc_lines"]++
		oc.stats["desc_defers"] += len(di.Chains)
	} else {
		oc.stats["desc_unavailable"]++
	}

	rf := &refs{}
	if m, err := lab.Mono(ndText, ndName, []byte(vars)); err != nil {
		rf.monoInvalid = err.Error()
	} else {
		rf.mono, rf.monoErrors, rf.monoInvalid = m.Data, m.NErrors, m.Invalid
	}
	gwRun := lab.Execute(ndText, ndName, []byte(vars), nil, 8*time.Second)
	gws := c10lab.StreamOf(gwRun)
	if len(gws.Frames) != 1 || gws.Frames[0].ParseErr != "" {
		rf.gwErr = "no single frame: " + gws.ExecErr
	} else {
		rf.gw, rf.gwRaw = gws.Frames[0].Data, string(gws.Frames[0].Raw)
	}
	ifRun := lab.Execute(iffText, iffName, []byte(vars), nil, 8*time.Second)
	ifs := c10lab.StreamOf(ifRun)
	var opFails []c10lab.Fail
	if rf.gwErr == "" {
		if len(ifs.Frames) != 1 || ifs.Frames[0].ParseErr != "" {
			opFails = append(opFails, c10lab.Fail{Clause: "if_false", Detail: fmt.Sprintf("@defer(if:false) gives %d frames / %s", len(ifs.Frames), ifs.ExecErr)})
		} else {
			f := ifs.Frames[0]
			if f.HasNext == 1 || len(f.Pending) > 0 {
				opFails = append(opFails, c10lab.Fail{Clause: "if_false", Detail: "@defer(if:false) still announces incremental delivery: " + string(f.Raw)})
			}
			if d := c10lab.Compare(rf.gw, f.Data, nil); d != "" {
				opFails = append(opFails, c10lab.Fail{Clause: "if_false", Detail: "data differs from the query without @defer: " + d})
			}
		}
	} else {
		oc.stats["nodefer_fails"]++
	}
	if rf.gwErr == "" && rf.monoInvalid == "" && rf.mono != nil && rf.gw != nil {
		if d := c10lab.Compare(rf.mono, rf.gw, nil); d != "" {
			oc.stats["c01_mono_vs_gateway_differs"]++
		}
	}

	emit := func(run *c10lab.Run, s *c10lab.Stream, fails []c10lab.Fail) {
		picks := []string{"picks"}
		for _, p := range run.Picked {
			picks = append(picks, strconv.Itoa(p))
		}
		oc.fails = append(oc.fails, opFails...)
		oc.fails = append(oc.fails, fails...)
		gof := []string{"go"}
		for _, f := range append(append([]c10lab.Fail{}, opFails...), fails...) {
			gof = append(gof, common.L(f.Clause, q(f.Detail)))
		}
		n := announcedIDs(s)
		nt := n >= 2 || hasNestedAnnouncement(s)
		term := !s.TimedOut
		useed := common.L("useed", strconv.FormatUint(oc.useed, 10), strconv.Itoa(oc.harsh))
		if oc.keepUniverse && lab.Universe != nil {
			useed = lab.Universe.Sexp() // corpus / shrink: the universe itself
		}
		line := common.L("c10spec", common.L("cfg", q(oc.cfg)), useed,
			common.L("op", q(text)), common.L("vars", q(vars)), common.L(picks...), frameSummary(s), flushSummary(s),
			common.L("term", common.B(term)), common.L("compl", strconv.Itoa(s.Completes)), common.L("ndefer", strconv.Itoa(n)), common.L(gof...), common.L("nt", common.B(nt)))
		oc.lines = append(oc.lines, line)
		if len(fails)+len(opFails) > 0 {
			var sb strings.Builder
			fmt.Fprintf(&sb, "FAIL idx=%d cfg=%s useed=%d harsh=%d picks=%v\n  op: %s\n  vars: %s\n", oc.idx, oc.cfg, oc.useed, oc.harsh, run.Picked, text, vars)
			for _, f := range append(append([]c10lab.Fail{}, opFails...), fails...) {
				fmt.Fprintf(&sb, "  %s: %s\n", f.Clause, f.Detail)
			}
			for i, f := range s.Frames {
				fmt.Fprintf(&sb, "  F%d %s\n", i, f.Raw)
			}
			if s.ExecErr != "" {
				fmt.Fprintf(&sb, "  exec error: %s\n", s.ExecErr)
			}
			fmt.Fprintf(&sb, "  nodefer: %s\n  mono: %s (errors %d)\n", rf.gwRaw, rf.mono.String(), rf.monoErrors)
			oc.report = append(oc.report, sb.String())
		}
		opFails = nil // op-level failures are reported once
	}

	// first order: always the first blocked request
	run, s, fails := runOne(lab, oc, text, vars, func(int, []*c10lab.Req) int { return 0 }, rf)
	emit(run, s, fails)
	oc.stats["orders"]++
	n := announcedIDs(s)
	oc.stats["announced"] = n
	if len(s.Frames) == 0 || len(run.Choices) == 0 {
		return
	}
	budget := plan.maxOrders - 1
	seen := map[string]bool{fmt.Sprint(run.Picked): true}
	// all at once (real concurrency under the DataBuffer lock)
	if budget > 0 {
		run2, s2, f2 := runOne(lab, oc, text, vars, func(int, []*c10lab.Req) int { return -1 }, rf)
		emit(run2, s2, f2)
		oc.stats["orders"]++
		budget--
	}
	exhaustive := n <= plan.allIfLE
	prevPicked, prevChoices := run.Picked, run.Choices
	rr := common.NewRand(rseed)
	for budget > 0 {
		var chooser c10lab.Chooser
		if exhaustive {
			// next choice list in DFS order
			i := len(prevPicked) - 1
			for i >= 0 && prevPicked[i]+1 >= prevChoices[i] {
				i--
			}
			if i < 0 {
				break
			}
			prefix := append(append([]int{}, prevPicked[:i]...), prevPicked[i]+1)
			chooser = func(step int, b []*c10lab.Req) int {
				if step < len(prefix) {
					return prefix[step]
				}
				return 0
			}
		} else {
			chooser = func(step int, b []*c10lab.Req) int { return rr.Pick(len(b)) }
		}
		run3, s3, f3 := runOne(lab, oc, text, vars, chooser, rf)
		budget--
		if len(run3.Choices) == 0 {
			break
		}
		prevPicked, prevChoices = run3.Picked, run3.Choices
		key := fmt.Sprint(run3.Picked)
		if seen[key] && !exhaustive {
			continue
		}
		seen[key] = true
		emit(run3, s3, f3)
		oc.stats["orders"]++
	}
}

func main() {
	if len(os.Args) < 2 {
		fmt.Fprintln(os.Stderr, "usage: c10 spec|probe|replay|corr ...")
		os.Exit(2)
	}
	mode := os.Args[1]
	a := common.Args(os.Args[2:])
	switch mode {
	case "spec":
		specMode(a)
	case "probe":
		probeMode(a)
	case "corr":
		corrMode(a)
	case "shrink":
		shrinkMode(a)
	case "replay":
		replayMode(a)
	case "witness":
		witnessMode(a)
	default:
		fmt.Fprintln(os.Stderr, "unknown mode", mode)
		os.Exit(2)
	}
}

func specMode(a map[string]string) {
	seed := common.ArgU64(a, "seed", 1)
	n := common.ArgInt(a, "n", 100)
	orders := common.ArgInt(a, "orders", 6)
	allLE := common.ArgInt(a, "all", 0)
	workers := common.ArgInt(a, "workers", 8)
	cfgs := c10lab.ConfigNames
	if v, ok := a["cfg"]; ok {
		cfgs = strings.Split(v, ",")
	}
	out := common.NewOut(a["out"])
	defer out.Close()
	cases := make([]*opCase, n)
	for i := range cases {
		r := common.NewRand(seed*1000003 + uint64(i))
		cfg := cfgs[i%3%len(cfgs)]
		if len(cfgs) > 3 && i%13 == 12 {
			cfg = cfgs[3]
		}
		cases[i] = &opCase{idx: i, cfg: cfg, useed: seed*7919 + uint64(i)*31 + 1, harsh: []int{0, 0, 1, 2, 4}[r.Pick(5)]}
	}
	var wg sync.WaitGroup
	ch := make(chan int)
	for k := 0; k < workers; k++ {
		wg.Add(1)
		go func() {
			defer wg.Done()
			w := newWorker(cfgs)
			defer w.exec.Close()
			for i := range ch {
				processOp(w, cases[i], orderPlan{maxOrders: orders, allIfLE: allLE}, seed*31+uint64(i))
			}
		}()
	}
	for i := range cases {
		ch <- i
	}
	close(ch)
	wg.Wait()
	tot := map[string]int{}
	rep := os.Stderr
	if p, ok := a["report"]; ok {
		f, err := os.Create(p)
		if err == nil {
			rep = f
			defer f.Close()
		}
	}
	for _, c := range cases {
		for _, l := range c.lines {
			out.Line(l)
		}
		for _, r := range c.report {
			fmt.Fprintln(rep, r)
		}
		for k, v := range c.stats {
			tot[k] += v
		}
		for k, v := range c.kinds {
			tot["gen."+k] += v
		}
		tot[fmt.Sprintf("announced=%d", min(c.stats["announced"], 6))]++
		cl := map[string]bool{}
		for _, f := range c.fails {
			cl[classOf(f)] = true
		}
		for k := range cl {
			tot["FAILCLASS "+k+" ;"]++
		}
	}
	keys := make([]string, 0, len(tot))
	for k := range tot {
		keys = append(keys, k)
	}
	sort.Strings(keys)
	var sb strings.Builder
	for _, k := range keys {
		fmt.Fprintf(&sb, "%s=%d ", k, tot[k])
	}
	fmt.Fprintln(os.Stderr, "DIST", sb.String())
	if p, ok := a["dist"]; ok {
		os.WriteFile(p, []byte(strings.ReplaceAll(strings.TrimSpace(sb.String()), " gen.", "\ngen.")), 0o644)
	}
}

func probeMode(a map[string]string) {
	cfg := a["cfg"]
	if cfg == "" {
		cfg = "mono"
	}
	w := newWorker([]string{cfg})
	defer w.exec.Close()
	lab := w.labs[cfg]
	useed := common.ArgU64(a, "useed", 1)
	harsh := common.ArgInt(a, "harsh", 0)
	r := common.NewRand(useed)
	u := c10lab.GenUniverseHarsh(r, lab.Config, harsh)
	if err := lab.SetUniverse(u); err != nil {
		panic(err)
	}
	if _, ok := a["showu"]; ok {
		fmt.Println(u.Sexp())
	}
	op := a["op"]
	vars := a["vars"]
	orders := common.ArgInt(a, "orders", 1)
	for k := 0; k < orders; k++ {
		kk := k
		run := lab.Execute(op, "", []byte(vars), func(step int, b []*c10lab.Req) int {
			if kk == orders-1 && orders > 1 {
				return -1
			}
			return kk
		}, 0)
		s := c10lab.StreamOf(run)
		fmt.Println("picks", run.Picked, "choices", run.Choices, "err", run.Err, "completes", s.Completes)
		for i, f := range s.Frames {
			fmt.Printf("  F%d %s\n", i, f.Raw)
		}
		for _, q := range run.Reqs {
			fmt.Printf("   [%d p%d] %s %s %s -> %s\n", q.Index, q.Phase, q.Subgraph, q.Query, q.Vars, q.Response)
		}
		for _, f := range append(c10lab.CheckFramesWhole(s), c10lab.CheckProtocol(s)...) {
			fmt.Println("  FAIL", f.Clause, f.Detail)
		}
		rec, mf := c10lab.Reconstruct(s)
		for _, f := range mf {
			fmt.Println("  FAIL", f.Clause, f.Detail)
		}
		if rec != nil {
			fmt.Println("  reconstructed:", rec.String())
		}
	}
	if nd, ok := a["nodefer"]; ok {
		m, err := lab.Mono(nd, "", []byte(vars))
		if err == nil {
			fmt.Println("  mono:", m.Data.String(), "errors", m.NErrors, m.Invalid)
		} else {
			fmt.Println("  mono err:", err)
		}
		run := lab.Execute(nd, "", []byte(vars), nil, 0)
		for i, f := range run.Rec.Frames {
			fmt.Printf("  ND%d %s\n", i, f)
		}
		fmt.Println("  nodefer err:", run.Err)
	}
}

// corr: hand-built deferred plans through the real postprocess (extractDeferFetches, buildDeferTree)
// and the real Resolver.ResolveGraphQLDeferResponse; one line per (plan, payload, release order):
//
//	(c10corr DESCS (tree T) (root DNODE) (data JSON) (trace (f g) (r g)...) (frames "bytes"...) SUMS
//	         (mode full|slice) (valid t|f) (status ok|panic|error|timeout) (compl n) (nofetch id...) (mut "labels"))
func corrMode(a map[string]string) {
	seed := common.ArgU64(a, "seed", 1)
	n := common.ArgInt(a, "n", 100)
	out := common.NewOut(a["out"])
	defer out.Close()
	r := common.NewRand(seed)
	dist := map[string]int{}
	for i := 0; i < n; {
		wild := r.Chance(1, 6)
		p := c10lab.GenDPlan(r, 3+r.Pick(2), wild)
		if len(p.Descs) == 0 {
			continue
		}
		// probe: a descriptor that owns no fetch
		if r.Chance(1, 25) {
			p.NoFetch[p.Descs[r.Pick(len(p.Descs))].ID] = true
			dist["nofetch"]++
		}
		g := &gplan.Gen{R: r, MaxDepth: 4}
		payloads := 1 + r.Pick(2)
		for k := 0; k < payloads && i < n; k++ {
			payload, labels := g.Payload(p.Root)
			mode := "full"
			primary := payload
			slices := map[int]string{}
			if len(labels) == 0 && r.Chance(1, 2) {
				pr, sl, err := p.Slices(payload)
				if err == nil {
					mode, primary, slices = "slice", pr, sl
				}
			}
			// hard fetch failures (full mode only: the model renders on the data after all fetches) and slow flushes
			p.Fail, p.Window = map[int]int{}, false
			if !wild && mode == "full" && len(p.NoFetch) == 0 && r.Chance(1, 4) {
				c10lab.DrawFailures(r, p)
				p.Window = r.Chance(4, 5)
				dist["hardfail.plans"]++
			} else if r.Chance(1, 12) {
				p.Window = true
			}
			orders := 1 + r.Pick(3)
			for o := 0; o < orders && i < n; o++ {
				rr := common.NewRand(seed*977 + uint64(i))
				run := p.Execute(primary, slices, func(step int, blocked []int) int { return rr.Pick(len(blocked)) })
				if p.Window {
					dist["window.runs"]++
				}
				for _, k := range p.Fail {
					dist[fmt.Sprintf("hardfail.kind%d", k)]++
				}
				if len(p.Fail) > 0 && p.HasFailingSibling() {
					dist["hardfail.with_sibling"]++
				}
				line := corrLine(p, payload, mode, labels, run)
				if line != "" {
					out.Line(line)
					i++
					dist["mode."+mode]++
					if wild {
						dist["wild"]++
					}
					dist[fmt.Sprintf("descs=%d", min(len(p.Descs), 6))]++
					dist[fmt.Sprintf("frames=%d", min(len(run.Rec.Frames), 6))]++
					if len(labels) > 0 {
						dist["mutated"]++
					}
				}
			}
		}
	}
	keys := make([]string, 0, len(dist))
	for k := range dist {
		keys = append(keys, k)
	}
	sort.Strings(keys)
	var sb strings.Builder
	for _, k := range keys {
		fmt.Fprintf(&sb, "%s=%d ", k, dist[k])
	}
	fmt.Fprintln(os.Stderr, "DIST", sb.String())
}

func corrLine(p *c10lab.DPlan, payload, mode string, labels []string, run *c10lab.DRun) string {
	pv, err := astjson.Parse(payload)
	if err != nil {
		return ""
	}
	status := "ok"
	switch {
	case run.Panic != "":
		status = "panic"
	case run.TimedOut:
		status = "timeout"
	case run.Err != nil:
		status = "error"
	}
	s := &c10lab.Stream{Completes: run.Rec.Completes, Unflushed: len(run.Rec.Unflushed()), AfterDone: run.Rec.AfterDone, TimedOut: run.TimedOut,
		Foreign: run.Rec.Foreign()}
	frames := []string{"frames"}
	for _, raw := range run.Rec.Frames {
		s.Frames = append(s.Frames, c10lab.ParseFrame(raw))
		s.Flushes = append(s.Flushes, c10lab.SplitFlush(raw))
		frames = append(frames, common.QS(c10lab.AbstractFrame(raw)))
	}
	// every release is followed by the render of that group (the coordinator waits for quiescence)
	// under load two releases can overtake each other: when every frame parses, the order of the
	// completed ids in the frames is the render order; otherwise (a torn frame) the release order
	order := run.Released
	var fromFrames []int
	allParsed := true
	for i, f := range s.Frames {
		if f.ParseErr != "" {
			allParsed = false
		}
		if i == 0 {
			continue
		}
		for _, c := range f.Completed {
			if n, err := strconv.Atoi(c.ID); err == nil {
				fromFrames = append(fromFrames, n)
			}
		}
	}
	if allParsed && (len(fromFrames) == len(run.Released) || (len(p.Fail) > 0 && len(fromFrames) >= len(run.Released))) {
		order = fromFrames
	}
	trace := []string{"trace"}
	for _, id := range order {
		if p.Fail[id] != 0 {
			// the fetch phase of this group ends with a Go error; the terminal frame is rendered under the lock
			trace = append(trace, common.L("x", common.I(id)))
			continue
		}
		trace = append(trace, common.L("f", common.I(id)), common.L("r", common.I(id)))
	}
	fl := []string{"fail"}
	var fids []int
	for id := range p.Fail {
		fids = append(fids, id)
	}
	sort.Ints(fids)
	for _, id := range fids {
		fl = append(fl, common.L(common.I(id), common.I(p.Fail[id])))
	}
	if mode == "slice" {
		// a slice the resolver could not merge (list/null skeleton clash) is an artefact of the slicing
		for _, fr := range frames[1:] {
			if strings.Contains(fr, `\22k\22:99`) {
				return ""
			}
		}
	}
	nof := []string{"nofetch"}
	for id := range p.NoFetch {
		nof = append(nof, common.I(id))
	}
	gof := []string{"go"}
	for _, f := range append(append(c10lab.CheckFramesWhole(s), c10lab.CheckFlushes(s)...), c10lab.CheckProtocol(s)...) {
		gof = append(gof, common.L(f.Clause, q(f.Detail)))
	}
	recon := common.L("none", q("no parsable frames"))
	if len(s.Frames) > 0 && s.Frames[0].ParseErr == "" {
		rec, mf := c10lab.Reconstruct(s)
		if len(mf) > 0 {
			recon = common.L("none", q(mf[0].Detail))
		} else if rec != nil {
			recon = common.L("some", rec.Sexp())
		}
	}
	return common.L("c10corr", p.DescsSexp(), common.L("tree", c10lab.TreeSexp(run.Tree)), common.L("root", p.Sexp()),
		common.L("data", gplan.JSONSexp(pv)), common.L(trace...), common.L(frames...), frameSummary(s), flushSummary(s), common.L(fl...), common.L("window", common.B(p.Window)),
		common.L("mode", mode), common.L("valid", common.B(p.Valid)), common.L("status", status), common.L("compl", common.I(run.Rec.Completes)),
		common.L(nof...), common.L(gof...), common.L("recon", recon), common.L("mut", q(strings.Join(labels, ","))), common.L("panic", q(run.Panic)))
}

// ---------------------------------------------------------------- shrinking

var digits = strings.NewReplacer("0", "", "1", "", "2", "", "3", "", "4", "", "5", "", "6", "", "7", "", "8", "", "9", "")

// classOf: the clause plus a coarse class of the detail (numbers and values removed).
func classOf(f c10lab.Fail) string {
	d := f.Detail
	for _, cut := range []string{" = ", " without @defer, ", "reconstructed", ": member ", "label \""} {
		if i := strings.Index(d, cut); i >= 0 {
			if cut == ": member " {
				d = "member missing/extra"
			} else {
				d = d[:i] + cut
			}
		}
	}
	if i := strings.LastIndex(d, ": "); i >= 0 && strings.HasPrefix(d, "/") {
		d = d[i+2:]
	}
	d = digits.Replace(d)
	if len(d) > 60 {
		d = d[:60]
	}
	return f.Clause + "|" + d
}

func shrinkMode(a map[string]string) {
	seed := common.ArgU64(a, "seed", 1)
	idx := common.ArgInt(a, "idx", 0)
	orders := common.ArgInt(a, "orders", 4)
	cfgs := c10lab.ConfigNames
	if v, ok := a["cfg"]; ok {
		cfgs = strings.Split(v, ",")
	}
	want := a["class"]
	w := newWorker(cfgs)
	defer w.exec.Close()
	r := common.NewRand(seed*1000003 + uint64(idx))
	cfgName := cfgs[idx%3%len(cfgs)]
	if len(cfgs) > 3 && idx%13 == 12 {
		cfgName = cfgs[3]
	}
	oc := &opCase{cfg: cfgName, useed: seed*7919 + uint64(idx)*31 + 1, harsh: []int{0, 0, 1, 2, 4}[r.Pick(5)]}
	plan := orderPlan{maxOrders: orders}
	processOp(w, oc, plan, seed*31+uint64(idx))
	classes := map[string]bool{}
	for _, f := range oc.fails {
		classes[classOf(f)] = true
	}
	fmt.Println("classes of the original failure:")
	for c := range classes {
		fmt.Println("  ", c)
	}
	target := ""
	for c := range classes {
		if want == "" || strings.Contains(c, want) {
			target = c
			break
		}
	}
	if target == "" {
		fmt.Println("no failure of the wanted class")
		return
	}
	fmt.Println("shrinking for class:", target)
	lab := w.labs[oc.cfg]
	evals := 0
	stillFails := func(op *fl.Operation) bool {
		evals++
		t := &opCase{cfg: oc.cfg, useed: oc.useed, harsh: oc.harsh, op: op, keepUniverse: true}
		processOp(w, t, plan, 1)
		for _, f := range t.fails {
			if classOf(f) == target {
				return true
			}
		}
		return false
	}
	cur := oc.op
	// universe reductions: drop harsh mutations
	for changed := true; changed; {
		changed = false
		for _, cand := range c10lab.Reductions(cur) {
			if stillFails(cand) {
				cur = cand
				changed = true
				break
			}
		}
	}
	// universe: try to repair failing / null positions one at a time
	u := lab.Universe
	for _, e := range u.Ents {
		for i := range e.Fields {
			old := e.Fields[i].Val
			if old.Kind != fl.FErr && old.Kind != fl.FNullRef && !(old.Kind == fl.FSc && old.JSON.Kind == fl.JNull) {
				continue
			}
			var repl *fl.FVal
			td := lab.Config.Super.Type(e.Type)
			fd := td.Field(e.Fields[i].Name)
			if fd == nil || !lab.Config.Super.IsLeaf(fd.Type.Base()) || fd.Type.IsList() {
				continue
			}
			repl = &fl.FVal{Kind: fl.FSc, JSON: fl.JS("x")}
			if fd.Type.Base() == "Int" {
				repl = &fl.FVal{Kind: fl.FSc, JSON: fl.JNumRaw("1")}
			}
			e.Fields[i].Val = repl
			lab.SetUniverse(u)
			if !stillFails(cur) {
				e.Fields[i].Val = old
				lab.SetUniverse(u)
			}
		}
	}
	fmt.Println("evaluations:", evals)
	fmt.Println("MINIMAL cfg:", oc.cfg)
	fmt.Println("op:", cur.Text())
	fmt.Println("vars:", cur.VariablesJSON())
	fmt.Println("universe:", u.Sexp())
	fmt.Println("CORPUS " + common.L("c10case", common.L("cfg", q(oc.cfg)), u.Sexp(), common.L("op", q(cur.Text())), common.L("vars", q(cur.VariablesJSON())), common.L("note", q(target))))
	t := &opCase{cfg: oc.cfg, useed: oc.useed, harsh: oc.harsh, op: cur, keepUniverse: true}
	processOp(w, t, plan, 1)
	for _, rep := range t.report {
		fmt.Println(rep)
	}
}

// ---------------------------------------------------------------- corpus replay

var deferRe = regexp.MustCompile(`@defer(\([^)]*\))?`)

// stripDeferText / ifFalseText: the text-level twins of StripDefer / DeferIfFalse for corpus
// operations (which use no variable in @defer).
func stripDeferText(op string) string { return deferRe.ReplaceAllString(op, "") }
func ifFalseText(op string) string   { return deferRe.ReplaceAllString(op, "@defer(if: false)") }

// replay: every line of the corpus file is
//
//	(c10case (cfg "name") UNIVERSE (op "text") (vars "json") (note "..."))
func replayMode(a map[string]string) {
	data, err := os.ReadFile(a["in"])
	if err != nil {
		fmt.Fprintln(os.Stderr, err)
		os.Exit(2)
	}
	out := common.NewOut(a["out"])
	defer out.Close()
	orders := common.ArgInt(a, "orders", 4)
	w := newWorker(c10lab.ConfigNames)
	defer w.exec.Close()
	for _, line := range strings.Split(string(data), "\n") {
		line = strings.TrimSpace(line)
		if line == "" || strings.HasPrefix(line, ";") {
			continue
		}
		x, err := fl.ParseSexp(line)
		if err != nil || x.Head() != "c10case" || len(x.List) < 5 {
			fmt.Fprintln(os.Stderr, "bad corpus line:", err)
			os.Exit(2)
		}
		cfg := x.List[1].List[1].Str
		u, err := c10lab.UniverseOfSexp(x.List[2])
		if err != nil {
			fmt.Fprintln(os.Stderr, "bad corpus universe:", err)
			os.Exit(2)
		}
		lab := w.labs[cfg]
		if err := lab.SetUniverse(u); err != nil {
			fmt.Fprintln(os.Stderr, "set universe:", err)
			os.Exit(2)
		}
		oc := &opCase{cfg: cfg, keepUniverse: true, rawOp: x.List[3].List[1].Str, rawVars: x.List[4].List[1].Str}
		processOp(w, oc, orderPlan{maxOrders: orders, allIfLE: 3}, 1)
		for _, l := range oc.lines {
			out.Line(l)
		}
		if rp, ok := a["report"]; ok {
			f, _ := os.OpenFile(rp, os.O_APPEND|os.O_CREATE|os.O_WRONLY, 0o644)
			for _, r := range oc.report {
				fmt.Fprintln(f, r)
			}
			f.Close()
		}
	}
}

// witness: the two renderer-level witnesses of coq/C10/Properties.v (errors_reported_refuted,
// null_data_pending_refuted) through the real Resolver; the lines go through the same driver.
func witnessMode(a map[string]string) {
	out := common.NewOut(a["out"])
	defer out.Close()
	str := func(name string, nullable bool) *gplan.Node {
		return &gplan.Node{Kind: gplan.KStr, Path: []string{name}, Nullable: nullable}
	}
	// { a { ... @defer { x } } }   x: String!
	fx := &gplan.Field{Name: "x", Value: str("x", false)}
	p2 := &c10lab.DPlan{
		Root: &gplan.Node{Kind: gplan.KObj, TypeName: "Query", Fields: []*gplan.Field{
			{Name: "a", Value: &gplan.Node{Kind: gplan.KObj, Path: []string{"a"}, Nullable: true, TypeName: "A", Fields: []*gplan.Field{fx}}}}},
		Defer: map[*gplan.Field]int{fx: 1}, Descs: []*c10lab.Desc{{ID: 1, Path: []string{"a"}}}, NoFetch: map[int]bool{}, Valid: true,
	}
	// { a ... @defer { b } }   a: String!
	fb := &gplan.Field{Name: "b", Value: str("b", true)}
	p3 := &c10lab.DPlan{
		Root: &gplan.Node{Kind: gplan.KObj, TypeName: "Query", Fields: []*gplan.Field{{Name: "a", Value: str("a", false)}, fb}},
		Defer: map[*gplan.Field]int{fb: 1}, Descs: []*c10lab.Desc{{ID: 1}}, NoFetch: map[int]bool{}, Valid: true,
	}
	// corpus of hand-built plans with hard fetch failures and slow flushes (corpus/C10/hardfail_plans.txt):
	//   (c10plan (shape siblings|nested) (fail (id kind)...) (window t|f) (orders n))
	// siblings: { a ... @defer { b } ... @defer { e } }      nested: { a ... @defer { b { c ... @defer { d } ... @defer { e } } } }
	if pf, ok := a["plans"]; ok {
		data, err := os.ReadFile(pf)
		if err != nil {
			fmt.Fprintln(os.Stderr, err)
			os.Exit(2)
		}
		for _, line := range strings.Split(string(data), "\n") {
			line = strings.TrimSpace(line)
			if line == "" || strings.HasPrefix(line, ";") {
				continue
			}
			x, err := fl.ParseSexp(line)
			if err != nil || x.Head() != "c10plan" || len(x.List) < 5 {
				fmt.Fprintln(os.Stderr, "bad plan corpus line:", line)
				os.Exit(2)
			}
			var p *c10lab.DPlan
			var payload string
			switch x.List[1].List[1].Atom {
			case "siblings":
				f1 := &gplan.Field{Name: "b", Value: str("b", true)}
				f2 := &gplan.Field{Name: "e", Value: str("e", true)}
				p = &c10lab.DPlan{
					Root:  &gplan.Node{Kind: gplan.KObj, TypeName: "Query", Fields: []*gplan.Field{{Name: "a", Value: str("a", true)}, f1, f2}},
					Defer: map[*gplan.Field]int{f1: 1, f2: 2}, Descs: []*c10lab.Desc{{ID: 1}, {ID: 2}}, NoFetch: map[int]bool{}, Valid: true,
				}
				payload = `{"a":"x","b":"y","e":"z"}`
			default:
				fc := &gplan.Field{Name: "c", Value: str("c", true)}
				fd := &gplan.Field{Name: "d", Value: str("d", true)}
				fe := &gplan.Field{Name: "e", Value: str("e", true)}
				fbb := &gplan.Field{Name: "b", Value: &gplan.Node{Kind: gplan.KObj, Path: []string{"b"}, Nullable: true, TypeName: "B", Fields: []*gplan.Field{fc, fd, fe}}}
				p = &c10lab.DPlan{
					Root:  &gplan.Node{Kind: gplan.KObj, TypeName: "Query", Fields: []*gplan.Field{{Name: "a", Value: str("a", true)}, fbb}},
					Defer: map[*gplan.Field]int{fbb: 1, fc: 1, fd: 2, fe: 3},
					Descs: []*c10lab.Desc{{ID: 1}, {ID: 2, Parent: 1, Path: []string{"b"}}, {ID: 3, Parent: 1, Path: []string{"b"}}}, NoFetch: map[int]bool{}, Valid: true,
				}
				payload = `{"a":"x","b":{"c":"y","d":"z","e":"w"}}`
			}
			p.Fail = map[int]int{}
			for _, e := range x.List[2].List[1:] {
				id, _ := strconv.Atoi(e.List[0].Atom)
				k, _ := strconv.Atoi(e.List[1].Atom)
				p.Fail[id] = k
			}
			p.Window = x.List[3].List[1].Atom == "t"
			orders, _ := strconv.Atoi(x.List[4].List[1].Atom)
			for o := 0; o < orders; o++ {
				oo := o
				run := p.Execute(payload, nil, func(step int, blocked []int) int { return (oo + step) % len(blocked) })
				if line := corrLine(p, payload, "full", nil, run); line != "" {
					out.Line(line)
				}
			}
		}
	}
	for _, w := range []struct {
		p    *c10lab.DPlan
		data string
	}{{p2, `{"a":{"x":null}}`}, {p3, `{"a":null,"b":"x"}`}} {
		run := w.p.Execute(w.data, nil, func(int, []int) int { return 0 })
		for i, f := range run.Rec.Frames {
			fmt.Fprintf(os.Stderr, "witness frame %d: %s\n", i, f)
		}
		if line := corrLine(w.p, w.data, "full", nil, run); line != "" {
			out.Line(line)
		}
	}
}
