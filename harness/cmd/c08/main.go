// c08: drives the REAL fetch-tree organisation stages of v2/pkg/engine/postprocess
// (orderSequenceByDependencies, createParallelNodes, scheduleFetches incl. validateSchedule and
// the legacy fallback, flattenFetchTree) through the exported postprocess.Processor on generated
// dependency DAGs of resolve.SingleFetch items, and prints the resulting tree shapes.
//
// Every other stage of Processor.Process is switched off by its exported option or is a no-op on
// these fetches (no operation name, no SubgraphOperation, no entity flags, no response data).
//
// One output line per DAG:
//
//	(c08 KIND (dag (f ID (DEP...) SRC)...) (res MODE TREE TREE TREE)...)
//
// SRC: - for a plain fetch, (DS ENV) for an entity fetch that createMultiFetch may merge with
// others of the same wave and datasource DS (ENV: request envelope; a differing one aborts the merge).
//
// KIND: dag (acyclic, unique ids) | dup (malformed: duplicate ids, at most 12 fetches).
// MODE: w = legacy waves; s = scheduler; m = MultiFetch stage + scheduler (waves, merge, flatten,
// schedule); t = scheduler on a subscription plan (root carries a Trigger); M = MultiFetch stage on
// the legacy waves.
// TREE: (S id (deps) (merged ids)) | (Q tree...) | (P tree...) | (panic "msg"); (merged ids) is
// MultiEntityFetch.MergedFetchIDs, empty for every other fetch; the same DAG is processed
// three times per mode from fresh copies (the scheduler iterates Go maps).
package main

import (
	"bufio"
	"bytes"
	"fmt"
	"os"
	"os/exec"
	"runtime/debug"
	"strconv"
	"strings"

	"gvh/common"

	"github.com/wundergraph/graphql-go-tools/v2/pkg/ast"
	"github.com/wundergraph/graphql-go-tools/v2/pkg/astparser"
	"github.com/wundergraph/graphql-go-tools/v2/pkg/engine/plan"
	"github.com/wundergraph/graphql-go-tools/v2/pkg/engine/postprocess"
	"github.com/wundergraph/graphql-go-tools/v2/pkg/engine/resolve"
)

type fetch struct {
	id   int
	deps []int
	// merge candidate of createMultiFetch: an entity fetch against datasource ds whose request
	// envelope is env (cand == false: a plain root fetch)
	cand    bool
	ds, env int
	// path attributes (kind paths / pathodd only): FetchItem.ResponsePathElements (ResponsePath is their
	// Join with ".") and PostProcessing.MergePath
	rp, mp []string
}

// ---------------------------------------------------------------- implementation side

// entity builds a fetch that createMultiFetch.isCandidate accepts (cf. create_multi_fetch_test.go):
// entity / batch entity SingleFetch, SubgraphOperation with an _entities document, exactly one
// representations fragment pointing at a ResolvableObjectVariable, FetchInfo with the datasource.
func entity(f fetch, deps []int, paths bool) *resolve.FetchItem {
	src := fmt.Sprintf(`query($representations: [_Any!]!){_entities(representations: $representations){... on User {__typename f%d}}}`, f.id)
	doc, report := astparser.ParseGraphqlDocumentString(src)
	if report.HasErrors() {
		panic("harness: " + report.Error())
	}
	sf := &resolve.SingleFetch{
		FetchDependencies: resolve.FetchDependencies{FetchID: f.id, DependsOnFetchIDs: deps},
		Info: &resolve.FetchInfo{DataSourceID: fmt.Sprintf("ds%d", f.ds), DataSourceName: fmt.Sprintf("ds%d", f.ds),
			OperationType: ast.OperationTypeQuery},
		FetchConfiguration: resolve.FetchConfiguration{
			RequiresEntityBatchFetch: f.id%2 == 0,
			RequiresEntityFetch:      f.id%2 == 1,
			Variables: resolve.NewVariables(resolve.NewResolvableObjectVariable(&resolve.Object{
				Nullable: true,
				Fields: []*resolve.Field{
					{Name: []byte("__typename"), Value: &resolve.String{Path: []string{"__typename"}}},
					{Name: []byte("id"), Value: &resolve.String{Path: []string{"id"}}},
				},
			})),
			SubgraphOperation: &resolve.SubgraphOperation{
				Document:  &doc,
				Variables: []resolve.SubgraphVariable{{Name: "representations", Value: []byte("[$$0$$]")}},
				Envelope:  resolve.SubgraphRequestEnvelope{Method: "POST", URL: fmt.Sprintf("http://ds%d/e%d", f.ds, f.env)},
			},
		},
	}
	if paths {
		return pathItem(sf, f)
	}
	return resolve.FetchItemWithPath(sf, "user", resolve.ObjectPath("user"))
}

func items(dag []fetch) []*resolve.FetchItem { return itemsOf(dag, false) }

func itemsOf(dag []fetch, paths bool) []*resolve.FetchItem {
	out := make([]*resolve.FetchItem, len(dag))
	for i, f := range dag {
		var deps []int
		if f.deps != nil {
			deps = append([]int{}, f.deps...)
		}
		if f.cand {
			out[i] = entity(f, deps, paths)
			continue
		}
		sf := &resolve.SingleFetch{
			FetchDependencies: resolve.FetchDependencies{FetchID: f.id, DependsOnFetchIDs: deps},
			Info: &resolve.FetchInfo{DataSourceID: fmt.Sprintf("root%d", f.id), DataSourceName: fmt.Sprintf("root%d", f.id),
				OperationType: ast.OperationTypeQuery},
		}
		if paths {
			// pairwise different inputs: deduplicateSingleFetches (which runs in the real pipeline) finds nothing
			sf.Input = fmt.Sprintf(`{"fetch":%d}`, f.id)
			out[i] = pathItem(sf, f)
			continue
		}
		out[i] = &resolve.FetchItem{Fetch: sf}
	}
	return out
}

func processor(mode string) *postprocess.Processor {
	opts := []postprocess.ProcessorOption{
		postprocess.DisableDeduplicateSingleFetches(),
		postprocess.DisableMergeFields(),
		postprocess.DisableAddMissingNestedDependencies(),
		postprocess.DisableCollectAuthorizationCoordinates(),
		postprocess.DisableCreateConcreteSingleFetchTypes(),
	}
	switch mode {
	case "w":
		opts = append(opts, postprocess.DisableResolveInputTemplates())
	case "s", "t":
		opts = append(opts, postprocess.DisableResolveInputTemplates(), postprocess.EnableScheduleFetches())
	case "m":
		// the MultiFetch stage is forced off by DisableResolveInputTemplates, so that stage stays on
		opts = append(opts, postprocess.EnableScheduleFetches(), postprocess.EnableMultiFetch())
	case "M":
		opts = append(opts, postprocess.EnableMultiFetch())
	}
	return postprocess.NewProcessor(opts...)
}

func printTree(n *resolve.FetchTreeNode, sb *strings.Builder) {
	if n == nil {
		sb.WriteString("(nil)")
		return
	}
	switch n.Kind {
	case resolve.FetchTreeNodeKindSingle:
		if n.Item == nil || n.Item.Fetch == nil {
			sb.WriteString("(nofetch)")
			return
		}
		d := n.Item.Fetch.Dependencies()
		sb.WriteString("(S ")
		sb.WriteString(strconv.Itoa(d.FetchID))
		sb.WriteString(" (")
		for i, x := range d.DependsOnFetchIDs {
			if i > 0 {
				sb.WriteByte(' ')
			}
			sb.WriteString(strconv.Itoa(x))
		}
		sb.WriteString(") (")
		if m, ok := n.Item.Fetch.(*resolve.MultiEntityFetch); ok {
			for i, x := range m.MergedFetchIDs {
				if i > 0 {
					sb.WriteByte(' ')
				}
				sb.WriteString(strconv.Itoa(x))
			}
		}
		sb.WriteString("))")
	case resolve.FetchTreeNodeKindSequence, resolve.FetchTreeNodeKindParallel:
		if n.Kind == resolve.FetchTreeNodeKindSequence {
			sb.WriteString("(Q")
		} else {
			sb.WriteString("(P")
		}
		for _, c := range n.ChildNodes {
			sb.WriteByte(' ')
			printTree(c, sb)
		}
		sb.WriteByte(')')
	default:
		sb.WriteString("(kind " + common.QS(string(n.Kind)) + ")")
	}
}

func runOnce(mode string, dag []fetch) (out string) {
	defer func() {
		if p := recover(); p != nil {
			out = common.L("panic", common.QS(fmt.Sprint(p)))
		}
	}()
	announce(mode)
	p := processor(mode)
	response := &resolve.GraphQLResponse{RawFetches: items(dag)}
	if mode == "t" {
		response.Data = &resolve.Object{Fields: []*resolve.Field{{
			Name: []byte("ev"),
			Info: &resolve.FieldInfo{Name: "ev", FetchID: 100000,
				Source: resolve.TypeFieldSource{IDs: []string{"ds"}, Names: []string{"ds"}}},
		}}}
		pl := &plan.SubscriptionResponsePlan{Response: &resolve.GraphQLSubscription{Response: response}}
		p.Process(pl)
		if response.Fetches == nil || response.Fetches.Trigger == nil {
			return common.L("panic", common.QS("harness: no trigger on the root"))
		}
	} else {
		p.Process(&plan.SynchronousResponsePlan{Response: response})
	}
	var sb strings.Builder
	printTree(response.Fetches, &sb)
	return sb.String()
}

var modes = []string{"w", "s", "m", "t", "M"}

func observe(kind string, dag []fetch) string {
	parts := []string{"c08", kind}
	fs := []string{"dag"}
	for _, f := range dag {
		ds := make([]string, len(f.deps))
		for i, d := range f.deps {
			ds[i] = strconv.Itoa(d)
		}
		src := "-"
		if f.cand {
			src = common.L(strconv.Itoa(f.ds), strconv.Itoa(f.env))
		}
		fs = append(fs, common.L("f", strconv.Itoa(f.id), common.L(ds...), src))
	}
	parts = append(parts, common.L(fs...))
	for _, m := range modes {
		parts = append(parts, common.L("res", m, runOnce(m, dag), runOnce(m, dag), runOnce(m, dag)))
	}
	return common.L(parts...)
}

// terminates reports whether nodeDependsOn (which has no cycle guard and resolves an id to the
// FIRST node carrying it) terminates on this list; the Go process cannot recover from the stack
// overflow otherwise.
func terminates(dag []fetch) bool {
	first := map[int]int{}
	for i, f := range dag {
		if _, ok := first[f.id]; !ok {
			first[f.id] = i
		}
	}
	state := make([]int, len(dag)) // 0 new, 1 on stack, 2 done
	var visit func(i int) bool
	visit = func(i int) bool {
		if state[i] == 1 {
			return false
		}
		if state[i] == 2 {
			return true
		}
		state[i] = 1
		for _, d := range dag[i].deps {
			if j, ok := first[d]; ok {
				if !visit(j) {
					return false
				}
			}
		}
		state[i] = 2
		return true
	}
	for i := range dag {
		if !visit(i) {
			return false
		}
	}
	return true
}

// ---------------------------------------------------------------- generator

// nodeDependsOn re-walks every dependency path (no memoisation): keep the number of paths small
const maxPaths = 1500

type shape int

// genMergeGroups: plans built around merge groups of createMultiFetch whose members have OVERLAPPING
// dependency lists in a fixed (unshuffled) order: a shared prefix followed by distinct tails
// ([0 1] / [0 2]), ordered sub-lists of the providers that overlap in the middle ([0 1 3] / [1 2]),
// repeated entries inside one list ([0 0 1]), a tail member whose list is a strict prefix of an earlier
// one. unionDependencies has to keep every entry's first occurrence, in member (= id) order, whatever
// precedes it in the list. Providers are roots or a root plus a layer behind it; all members of a
// group then share a wave in the legacy organisation; a few dependants hang off members (redirect of
// merged-away ids) and providers.
func genMergeGroups(r *common.Rand) []fetch {
	np := 2 + r.Pick(4)
	layered := r.Chance(1, 3)
	type proto struct {
		deps []int // positions
		cand bool
		ds   int
	}
	var ps []proto
	for i := 0; i < np; i++ {
		p := proto{}
		if layered && i > 0 && r.Chance(2, 3) {
			p.deps = []int{0}
		}
		ps = append(ps, p)
	}
	// providers that every member may list without leaving the last wave of providers
	ng := 1 + r.Pick(2)
	var memberPos []int
	for g := 0; g < ng; g++ {
		nm := 2 + r.Pick(3)
		order := r.Perm(np)
		plen := 1 + r.Pick(min(np-1, 2))
		prefix := order[:plen]
		rest := order[plen:]
		style := r.Pick(3)
		for m := 0; m < nm; m++ {
			var deps []int
			switch style {
			case 0, 1: // shared prefix (sometimes cut short), then a tail of the member's own
				k := plen
				if r.Chance(1, 4) {
					k = 1 + r.Pick(plen)
				}
				deps = append(deps, prefix[:k]...)
				if len(rest) > 0 && (style == 0 || r.Chance(3, 4)) {
					t := r.Pick(len(rest))
					deps = append(deps, rest[t])
					if r.Chance(1, 3) {
						deps = append(deps, rest[(t+1+r.Pick(len(rest)))%len(rest)])
					}
				}
			default: // ordered sub-list of all providers, each kept with probability 1/2 (at least one)
				for _, p := range order {
					if r.Chance(1, 2) {
						deps = append(deps, p)
					}
				}
				if len(deps) == 0 {
					deps = append(deps, order[r.Pick(np)])
				}
			}
			// repeated entries are legal; remove accidental repeats first so that they stay rare and deliberate
			seen := map[int]bool{}
			uniq := deps[:0]
			for _, d := range deps {
				if !seen[d] {
					seen[d] = true
					uniq = append(uniq, d)
				}
			}
			deps = uniq
			if r.Chance(1, 5) {
				at := r.Pick(len(deps) + 1)
				dup := deps[r.Pick(len(deps))]
				deps = append(deps[:at], append([]int{dup}, deps[at:]...)...)
			}
			memberPos = append(memberPos, len(ps))
			ps = append(ps, proto{deps: deps, cand: true, ds: g})
		}
	}
	for k := r.Pick(4); k > 0; k-- {
		p := proto{deps: []int{memberPos[r.Pick(len(memberPos))]}}
		if r.Chance(1, 2) {
			p.deps = append(p.deps, r.Pick(np))
		}
		if r.Chance(1, 3) {
			p.cand, p.ds = true, r.Pick(ng+1)
		}
		ps = append(ps, p)
	}
	n := len(ps)
	id := make([]int, n)
	for i := range id {
		id[i] = i
	}
	absent := []int{n, n + 1}
	if r.Chance(1, 2) {
		perm := r.Perm(n + 2 + r.Pick(3))
		id, absent = perm[:n], perm[n:]
	}
	oddEnv := r.Chance(1, 10)
	dag := make([]fetch, n)
	for i, p := range ps {
		f := fetch{id: id[i], cand: p.cand, ds: p.ds}
		for _, d := range p.deps {
			f.deps = append(f.deps, id[d])
		}
		if p.cand && r.Chance(1, 8) {
			at := r.Pick(len(f.deps) + 1)
			f.deps = append(f.deps[:at], append([]int{absent[r.Pick(len(absent))]}, f.deps[at:]...)...)
		}
		if p.cand && oddEnv && r.Chance(1, 4) {
			f.env = 1
		}
		dag[i] = f
	}
	if r.Chance(1, 2) {
		r.Shuffle(n, func(a, b int) { dag[a], dag[b] = dag[b], dag[a] })
	}
	return dag
}

func genDAG(r *common.Rand) []fetch {
	if r.Chance(1, 5) {
		return genMergeGroups(r)
	}
	n := 1 + r.Pick(8)
	switch r.Pick(10) {
	case 0, 1, 2:
		n = 6 + r.Pick(10)
	case 3, 4:
		n = 14 + r.Pick(17) // up to 30
	}
	// deps by position in generation order (a topological order)
	deps := make([][]int, n)
	paths := make([]int, n)
	add := func(i, d int) {
		for _, x := range deps[i] {
			if x == d {
				return
			}
		}
		if paths[i]+paths[d] > maxPaths {
			return
		}
		deps[i] = append(deps[i], d)
		paths[i] += paths[d]
	}
	style := r.Pick(8)
	width := 1 + r.Pick(4)
	for i := 0; i < n; i++ {
		paths[i] = 1
		if i == 0 {
			continue
		}
		switch style {
		case 0: // chains and forks: one dependency, near
			if r.Chance(5, 6) {
				add(i, i-1-r.Pick(min(i, 3)))
			}
		case 1: // layered: dependencies from the previous layer
			layer := i / width
			if layer > 0 {
				k := 1 + r.Pick(3)
				for j := 0; j < k; j++ {
					add(i, (layer-1)*width+r.Pick(width))
				}
			}
		case 2: // fan-out from few roots, then joins
			if i < 1+r.Pick(2) {
				break
			}
			if i < n*2/3 {
				add(i, r.Pick(min(i, 2)))
			} else {
				k := 2 + r.Pick(3)
				for j := 0; j < k; j++ {
					add(i, r.Pick(i))
				}
			}
		case 3: // several independent components
			comp := i % width
			if i >= width && r.Chance(4, 5) {
				prev := i - width*(1+r.Pick(min(i/width, 2)))
				if prev >= 0 && prev%width == comp {
					add(i, prev)
				}
				if r.Chance(1, 3) && i-2*width >= 0 {
					add(i, i-2*width)
				}
			}
		default: // random sparse
			k := r.Pick(4)
			if r.Chance(1, 4) {
				k = 0
			}
			for j := 0; j < k; j++ {
				if r.Chance(2, 3) {
					add(i, i-1-r.Pick(min(i, 4)))
				} else {
					add(i, r.Pick(i))
				}
			}
		}
		if r.Chance(1, 12) {
			add(i, r.Pick(i))
		}
	}
	// ids: injective, not in order, with gaps
	space := n + 1 + r.Pick(n+4)
	perm := r.Perm(space)
	id := perm[:n]
	absent := perm[n:]
	if r.Chance(1, 4) { // plain 0..n-1 in generation order, as the planner numbers them
		for i := range id {
			id[i] = i
		}
		absent = absent[:0]
		for k := 0; k < 4; k++ {
			absent = append(absent, n+k)
		}
	}
	dag := make([]fetch, n)
	for i := 0; i < n; i++ {
		f := fetch{id: id[i]}
		for _, d := range deps[i] {
			f.deps = append(f.deps, id[d])
		}
		// dependencies satisfied outside the tree
		if len(absent) > 0 && r.Chance(1, 6) {
			f.deps = append(f.deps, absent[r.Pick(len(absent))])
			if r.Chance(1, 4) {
				f.deps = append(f.deps, absent[r.Pick(len(absent))])
			}
		}
		// a repeated entry is legal in DependsOnFetchIDs
		if len(f.deps) > 0 && r.Chance(1, 25) {
			f.deps = append(f.deps, f.deps[r.Pick(len(f.deps))])
		}
		r.Shuffle(len(f.deps), func(a, b int) { f.deps[a], f.deps[b] = f.deps[b], f.deps[a] })
		dag[i] = f
	}
	// entity fetches: few datasources so that several land in one wave; members of a group then
	// have different, overlapping dependency lists in the (already shuffled) order above
	if entityShare := r.Pick(4); entityShare > 0 {
		nds := 1 + r.Pick(3)
		oddEnv := r.Chance(1, 6)
		for i := range dag {
			if r.Pick(4) < entityShare {
				dag[i].cand = true
				dag[i].ds = r.Pick(nds)
				if oddEnv && r.Chance(1, 5) {
					dag[i].env = 1
				}
			}
		}
	}
	// list order: the planner emits fetches in discovery order, not sorted
	switch r.Pick(4) {
	case 0:
	case 1:
		for a, b := 0, n-1; a < b; a, b = a+1, b-1 {
			dag[a], dag[b] = dag[b], dag[a]
		}
	default:
		r.Shuffle(n, func(a, b int) { dag[a], dag[b] = dag[b], dag[a] })
	}
	return dag
}

// malformed stream: a fetch listed twice (newFetchDAG rejects the duplicate id, the legacy
// pipeline runs); what depended on the overwritten fetch now depends on an absent id
func genDup(r *common.Rand) []fetch {
	for {
		dag := genDAG(r)
		if len(dag) > 12 {
			dag = dag[:12]
		}
		for i := range dag {
			dag[i].cand = false // the merge stage identifies members by node, the model by id
		}
		if len(dag) < 2 {
			continue
		}
		k := 1 + r.Pick(2)
		for j := 0; j < k; j++ {
			a, b := r.Pick(len(dag)), r.Pick(len(dag))
			if a != b {
				// an exact copy: the comparator reads the slice it is sorting (nodeByFetchID), so
				// two different fetches under one id would make the result depend on the sort's
				// intermediate states
				dag[a] = fetch{id: dag[b].id, deps: append([]int(nil), dag[b].deps...)}
			}
		}
		if terminates(dag) {
			return dag
		}
	}
}

func parseCorpusLine(line string) (string, []fetch, error) {
	// KIND<TAB>id:dep,dep id: id:dep@ds.env ...   (@ds.env marks a mergeable entity fetch)
	parts := strings.SplitN(line, "\t", 2)
	if len(parts) != 2 {
		return "", nil, fmt.Errorf("bad corpus line")
	}
	var dag []fetch
	for _, tok := range strings.Fields(parts[1]) {
		// path attributes: ~RESPONSEPATH[~MERGEPATH], segments joined with "/" (kind paths / pathodd)
		var rp, mp []string
		if t := strings.IndexByte(tok, '~'); t >= 0 {
			pm := strings.SplitN(tok[t+1:], "~", 2)
			rp = decSegs(pm[0])
			if len(pm) == 2 {
				mp = decSegs(pm[1])
			}
			tok = tok[:t]
		}
		src := ""
		if at := strings.IndexByte(tok, '@'); at >= 0 {
			src, tok = tok[at+1:], tok[:at]
		}
		kv := strings.SplitN(tok, ":", 2)
		id, err := strconv.Atoi(kv[0])
		if err != nil || len(kv) != 2 {
			return "", nil, fmt.Errorf("bad fetch %q", tok)
		}
		f := fetch{id: id, rp: rp, mp: mp}
		if src != "" {
			de := strings.SplitN(src, ".", 2)
			f.cand = true
			f.ds, _ = strconv.Atoi(de[0])
			if len(de) == 2 {
				f.env, _ = strconv.Atoi(de[1])
			}
		}
		if kv[1] != "" {
			for _, d := range strings.Split(kv[1], ",") {
				x, err := strconv.Atoi(d)
				if err != nil {
					return "", nil, fmt.Errorf("bad dep %q", tok)
				}
				f.deps = append(f.deps, x)
			}
		}
		dag = append(dag, f)
	}
	return parts[0], dag, nil
}

// ---------------------------------------------------------------- crash isolation
//
// A stack overflow in the Processor (the unguarded nodeDependsOn recursion on a cyclic list) is a
// fatal error: no recover, the process dies.  So the cases are observed in a CHILD process (same
// binary, -child 1 -from I): for every case it first prints a header line with the input, then the
// full result line.  When the child dies the parent knows the case (the header without a result),
// reports it as (c08 KIND (dag ...) (crash MODE "reason")) -- spec clause no_crash, the fetch list is
// the replay -- and starts a new child behind it, so the remaining cases still run.

type caseGen struct {
	next func() (kind string, dag []fetch, paths bool, ok bool)
}

func dagPrefix(kind string, dag []fetch, paths bool) string {
	fs := []string{"dag"}
	for _, f := range dag {
		ds := make([]string, len(f.deps))
		for i, d := range f.deps {
			ds[i] = strconv.Itoa(d)
		}
		src := "-"
		if f.cand {
			src = common.L(strconv.Itoa(f.ds), strconv.Itoa(f.env))
		}
		if paths {
			fs = append(fs, common.L("f", strconv.Itoa(f.id), common.L(ds...), src, quoteAll("rp", f.rp), quoteAll("mp", f.mp)))
		} else {
			fs = append(fs, common.L("f", strconv.Itoa(f.id), common.L(ds...), src))
		}
	}
	return "(c08 " + kind + " " + common.L(fs...)
}

func generator(mode string, a map[string]string) *caseGen {
	switch mode {
	case "gen":
		r := common.NewRand(common.ArgU64(a, "seed", 1))
		n, i := common.ArgInt(a, "n", 1000), 0
		return &caseGen{next: func() (string, []fetch, bool, bool) {
			if i >= n {
				return "", nil, false, false
			}
			i++
			if r.Chance(1, 12) {
				return "dup", genDup(r), false, true
			}
			return "dag", genDAG(r), false, true
		}}
	case "genp":
		r := common.NewRand(common.ArgU64(a, "seed", 1) ^ 0x70617468)
		n, i := common.ArgInt(a, "n", 1000), 0
		return &caseGen{next: func() (string, []fetch, bool, bool) {
			if i >= n {
				return "", nil, false, false
			}
			i++
			if r.Chance(1, 10) {
				return "pathodd", genPaths(r, true), true, true
			}
			return "paths", genPaths(r, false), true, true
		}}
	case "corpus":
		var lines []string
		if f, err := os.Open(a["in"]); err == nil {
			sc := bufio.NewScanner(f)
			sc.Buffer(make([]byte, 1<<20), 1<<26)
			for sc.Scan() {
				line := sc.Text()
				if strings.HasPrefix(line, "#") || strings.TrimSpace(line) == "" {
					continue
				}
				lines = append(lines, line)
			}
			f.Close()
		}
		i := 0
		return &caseGen{next: func() (string, []fetch, bool, bool) {
			if i >= len(lines) {
				return "", nil, false, false
			}
			line := lines[i]
			i++
			kind, dag, err := parseCorpusLine(line)
			if err != nil {
				fmt.Fprintln(os.Stderr, err, ":", line)
				os.Exit(2)
			}
			return kind, dag, kind == "paths" || kind == "pathodd", true
		}}
	}
	return nil
}

// currentMode: the organise mode the child is running (written to stderr before every Processor call)
func child(mode string, a map[string]string) {
	inChild = true
	debug.SetMaxStack(48 << 20) // the recursion of a valid list is at most a few dozen frames deep
	from := common.ArgInt(a, "from", 0)
	g := generator(mode, a)
	w := bufio.NewWriterSize(os.Stdout, 1<<16)
	defer w.Flush()
	for i := 0; ; i++ {
		kind, dag, paths, ok := g.next()
		if !ok {
			return
		}
		if i < from {
			continue
		}
		fmt.Fprintf(w, "H\t%d\t%s\n", i, dagPrefix(kind, dag, paths))
		w.Flush()
		var line string
		if paths {
			line = observePaths(kind, dag)
		} else {
			line = observe(kind, dag)
		}
		fmt.Fprintf(w, "L\t%d\t%s\n", i, line)
		w.Flush()
	}
}

const maxCrashes = 150

func parent(mode string, a map[string]string, out *common.Out) {
	self, err := os.Executable()
	if err != nil {
		self = os.Args[0]
	}
	from, crashes := 0, 0
	for {
		args := []string{mode}
		for k, v := range a {
			if k != "out" && k != "from" && k != "child" {
				args = append(args, "-"+k, v)
			}
		}
		args = append(args, "-child", "1", "-from", strconv.Itoa(from))
		cmd := exec.Command(self, args...)
		stdout, _ := cmd.StdoutPipe()
		var errBuf tailBuffer
		cmd.Stderr = &errBuf
		if err := cmd.Start(); err != nil {
			fmt.Fprintln(os.Stderr, "c08: cannot start the child process:", err)
			os.Exit(2)
		}
		sc := bufio.NewScanner(stdout)
		sc.Buffer(make([]byte, 1<<20), 1<<28)
		pendingIdx, pendingHdr := -1, ""
		for sc.Scan() {
			parts := strings.SplitN(sc.Text(), "\t", 3)
			if len(parts) != 3 {
				continue
			}
			idx, _ := strconv.Atoi(parts[1])
			switch parts[0] {
			case "H":
				pendingIdx, pendingHdr = idx, parts[2]
			case "L":
				out.Line(parts[2])
				pendingIdx = -1
				from = idx + 1
			}
		}
		werr := cmd.Wait()
		if werr == nil && pendingIdx < 0 {
			return
		}
		if pendingIdx < 0 {
			// died between two cases (or before the first header): nothing to attribute it to
			fmt.Fprintln(os.Stderr, "c08: child process failed outside a case:", werr, errBuf.head())
			os.Exit(3)
		}
		crashes++
		out.Line(pendingHdr + " " + common.L("crash", errBuf.mode(), common.QS(errBuf.head())) + ")")
		from = pendingIdx + 1
		if crashes >= maxCrashes {
			fmt.Fprintf(os.Stderr, "c08: %d cases killed the process; the cases from index %d on are not run\n", crashes, from)
			return
		}
	}
}

// tailBuffer keeps the first KB of the child's stderr (the reason of a fatal error comes first; the
// goroutine dump behind it is large) and the last MODE marker.
type tailBuffer struct {
	first []byte
	carry []byte
	last  string
}

// inChild: the process is a child; every Processor call is announced on stderr (C08MODE m)
var inChild bool

func announce(mode string) {
	if inChild {
		fmt.Fprintf(os.Stderr, "C08MODE %s\n", mode)
	}
}

func (t *tailBuffer) Write(p []byte) (int, error) {
	t.carry = append(t.carry, p...)
	for {
		j := bytes.IndexByte(t.carry, '\n')
		if j < 0 {
			if len(t.carry) > 1<<16 {
				t.carry = t.carry[:0]
			}
			return len(p), nil
		}
		line := t.carry[:j+1]
		if bytes.HasPrefix(line, []byte("C08MODE ")) {
			t.last = strings.TrimSpace(string(line[8:]))
		} else if len(t.first) < 1024 {
			t.first = append(t.first, line[:min(len(line), 1024-len(t.first))]...)
		}
		t.carry = t.carry[j+1:]
	}
}

func (t *tailBuffer) head() string {
	s := string(t.first)
	for _, key := range []string{"fatal error: ", "panic: "} {
		if i := strings.Index(s, key); i >= 0 {
			s = s[i:]
			if j := strings.IndexByte(s, '\n'); j >= 0 {
				s = s[:j]
			}
			return s
		}
	}
	if j := strings.IndexByte(s, '\n'); j >= 0 {
		s = s[:j]
	}
	return s
}

func (t *tailBuffer) mode() string {
	if t.last == "" {
		return "x"
	}
	return t.last
}

func main() {
	if len(os.Args) < 2 {
		fmt.Fprintln(os.Stderr, "usage: c08 gen -seed S -n N -out F | c08 genp -seed S -n N -out F | c08 corpus -in F -out F")
		os.Exit(2)
	}
	a := common.Args(os.Args[2:])
	mode := os.Args[1]
	if mode != "gen" && mode != "genp" && mode != "corpus" {
		fmt.Fprintln(os.Stderr, "unknown mode", mode)
		os.Exit(2)
	}
	if a["child"] == "1" {
		child(mode, a)
		return
	}
	out := common.NewOut(a["out"])
	defer out.Close()
	parent(mode, a, out)
}
