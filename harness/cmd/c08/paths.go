// Path cases (kind paths / pathodd): fetch lists with response paths and merge paths, run through the
// REAL postprocess.Processor with the option sets the execution engine uses
// (execution/engine/execution_engine.go: none, EnableMultiFetch, EnableScheduleFetches, both) and the
// real stage order -- mergeFields, createFetchTree, collectAuthorizationCoordinates, dedupe,
// appendFetchID, addMissingNestedDependencies, organizeFetchTree, renderSubgraphInputs,
// resolveInputTemplates, createConcreteSingleFetchTypes.  Nothing is switched off.
//
//	(c08 paths (dag (f ID (DEP...) SRC (rp "seg"...) (mp "seg"...))...) (res MODE TREE TREE TREE)...)
//
// MODE f: the two tree-building stages switched off (DisableOrderSequenceByDependencies,
// DisableCreateParallelNodes): the flat Sequence in list order, i.e. the OUTPUT OF THE STAGE
// addMissingNestedDependencies; w, s, M, m as for the other kinds but with the engine's option sets.
package main

import (
	"os"
	"runtime/debug"
	"sort"
	"strconv"
	"strings"

	"gvh/common"

	"github.com/wundergraph/graphql-go-tools/v2/pkg/engine/plan"
	"github.com/wundergraph/graphql-go-tools/v2/pkg/engine/postprocess"
	"github.com/wundergraph/graphql-go-tools/v2/pkg/engine/resolve"
)

// pathItem: the FetchItem as plan/path_builder_visitor.go fetchItem() builds it: ResponsePath is the
// Join of the elements, FetchPath has one element per segment ("@" marks the items of an array).
func pathItem(sf *resolve.SingleFetch, f fetch) *resolve.FetchItem {
	if len(f.mp) > 0 {
		sf.PostProcessing.MergePath = append([]string{}, f.mp...)
	}
	item := &resolve.FetchItem{Fetch: sf, ResponsePath: strings.Join(f.rp, ".")}
	if len(f.rp) > 0 {
		item.ResponsePathElements = append([]string{}, f.rp...)
	}
	for i, seg := range f.rp {
		if seg == "@" {
			continue
		}
		if i+1 < len(f.rp) && f.rp[i+1] == "@" {
			item.FetchPath = append(item.FetchPath, resolve.ArrayPath(seg))
		} else {
			item.FetchPath = append(item.FetchPath, resolve.ObjectPath(seg))
		}
	}
	return item
}

func processorPaths(mode string) *postprocess.Processor {
	switch mode {
	case "f":
		return postprocess.NewProcessor(postprocess.DisableOrderSequenceByDependencies(), postprocess.DisableCreateParallelNodes())
	case "s":
		return postprocess.NewProcessor(postprocess.EnableScheduleFetches())
	case "M":
		return postprocess.NewProcessor(postprocess.EnableMultiFetch())
	case "m":
		return postprocess.NewProcessor(postprocess.EnableMultiFetch(), postprocess.EnableScheduleFetches())
	}
	return postprocess.NewProcessor()
}

func runOncePaths(mode string, dag []fetch) (out string) {
	defer func() {
		if p := recover(); p != nil {
			if os.Getenv("C08_TRACE") != "" {
				debug.PrintStack()
			}
			out = common.L("panic", common.QS(strings.SplitN(strings.TrimSpace(strings.ReplaceAll(fmtAny(p), "\n", " ")), " goroutine", 2)[0]))
		}
	}()
	announce(mode)
	// an (empty) response object and Info, as every real plan has: mergeFields and collectAuthorizationCoordinates run
	response := &resolve.GraphQLResponse{RawFetches: itemsOf(dag, true), Info: &resolve.GraphQLResponseInfo{}, Data: &resolve.Object{}}
	processorPaths(mode).Process(&plan.SynchronousResponsePlan{Response: response})
	var sb strings.Builder
	printTree(response.Fetches, &sb)
	return sb.String()
}

func fmtAny(p any) string {
	if e, ok := p.(error); ok {
		return e.Error()
	}
	if s, ok := p.(string); ok {
		return s
	}
	return "panic"
}

var pathModes = []string{"f", "w", "s", "M", "m"}

func quoteAll(tag string, xs []string) string {
	parts := []string{tag}
	for _, x := range xs {
		parts = append(parts, common.QS(x))
	}
	return common.L(parts...)
}

func observePaths(kind string, dag []fetch) string {
	parts := []string{"c08", kind}
	fs := []string{"dag"}
	for _, f := range dag {
		ds := make([]string, len(f.deps))
		for i, d := range f.deps {
			ds[i] = strconv.Itoa(d)
		}
		src := "-"
		if f.cand {
			src = common.L(strconv.Itoa(f.ds), strconv.Itoa(f.env))
		}
		fs = append(fs, common.L("f", strconv.Itoa(f.id), common.L(ds...), src, quoteAll("rp", f.rp), quoteAll("mp", f.mp)))
	}
	parts = append(parts, common.L(fs...))
	for _, m := range pathModes {
		parts = append(parts, common.L("res", m, runOncePaths(m, dag), runOncePaths(m, dag), runOncePaths(m, dag)))
	}
	return common.L(parts...)
}

// completedForFilter repeats the string test of the stage, ONLY to keep cyclic inputs away from the
// process (nodeDependsOn has no cycle guard: a cyclic list overflows the Go stack, which cannot be
// recovered).  It is not an oracle: the stage's output is compared with the extracted Coq model.
func completedForFilter(dag []fetch) []fetch {
	provided := func(g fetch) string {
		mp := strings.Join(g.mp, ".")
		if rp := strings.Join(g.rp, "."); rp != "" {
			return rp + "." + mp
		}
		return mp
	}
	out := make([]fetch, len(dag))
	for i, f := range dag {
		out[i] = f
		rp := strings.Join(f.rp, ".")
		if rp == "" || len(f.deps) != 0 {
			continue
		}
		var deps []int
		for j, g := range dag {
			if i != j && strings.HasPrefix(rp, provided(g)) {
				deps = append(deps, g.id)
			}
		}
		out[i].deps = deps
	}
	return out
}

// ---------------------------------------------------------------- generator

var segPool = []string{"a", "ab", "abc", "b", "bc", "c", "user", "users", "u", "x"}

func isPrefix(p, s []string) bool {
	if len(p) > len(s) {
		return false
	}
	for i := range p {
		if p[i] != s[i] {
			return false
		}
	}
	return true
}

// writesAbove: segment-wise, as coq/C08/SpecPaths.v writes_above (used to pick declared dependencies
// the way a planner would; the verdict comes from the extracted checker)
func writesAbove(g, f fetch) bool {
	pp := append(append([]string{}, g.rp...), g.mp...)
	if !isPrefix(pp, f.rp) {
		return false
	}
	return !(len(g.mp) == 0 && len(g.rp) == len(f.rp))
}

func genPaths(r *common.Rand, odd bool) []fetch {
	if !odd && r.Chance(1, 8) {
		// the merge-group plans of the DAG stream (overlapping dependency lists: shared prefix, own tail,
		// repeated entries) on the real pipeline: roots merge at a field of their own, every other fetch is
		// nested at a position of its own and declares its dependencies (nothing left to the completion stage)
		dag := genMergeGroups(r)
		for i := range dag {
			if len(dag[i].deps) == 0 {
				dag[i].mp = []string{"p" + strconv.Itoa(dag[i].id)}
			} else {
				dag[i].rp = []string{"n" + strconv.Itoa(dag[i].id)}
			}
		}
		return dag
	}
	for {
		dag := genPathsOnce(r, odd)
		if terminates(completedForFilter(dag)) {
			return dag
		}
	}
}

func genPathsOnce(r *common.Rand, odd bool) []fetch {
	n := 2 + r.Pick(7)
	switch r.Pick(10) {
	case 0, 1:
		n = 8 + r.Pick(9)
	case 2:
		n = 16 + r.Pick(9)
	}
	// few names, so that siblings like a / ab / abc and b / bc meet
	k := 2 + r.Pick(4)
	perm := r.Perm(len(segPool))
	names := make([]string, k)
	for i := range names {
		names[i] = segPool[perm[i]]
	}
	if r.Chance(1, 2) {
		names[0], names[1] = "b", "bc"
	}
	name := func() string { return names[r.Pick(len(names))] }
	// object positions: a tree of response paths; "@" only inside a path (the planner drops a trailing "@")
	positions := [][]string{{}}
	seen := map[string]bool{"": true}
	for i, np := 0, 2+r.Pick(n+2); i < np; i++ {
		parent := positions[r.Pick(len(positions))]
		if r.Chance(1, 2) {
			parent = positions[len(positions)-1] // deep chains
		}
		child := append(append([]string{}, parent...), name())
		if r.Chance(1, 5) {
			child = append(child, "@", name())
		}
		if key := strings.Join(child, "/"); !seen[key] && len(child) <= 7 {
			seen[key] = true
			positions = append(positions, child)
		}
	}
	// an extension of p by one or two segments that leads towards another position, else a random name
	towards := func(p []string) []string {
		var cands [][]string
		for _, q := range positions {
			if len(q) > len(p) && isPrefix(p, q) && q[len(p)] != "@" {
				cands = append(cands, q)
			}
		}
		if len(cands) == 0 || r.Chance(1, 6) {
			return []string{name()}
		}
		q := cands[r.Pick(len(cands))]
		m := []string{q[len(p)]}
		if len(q) > len(p)+1 && q[len(p)+1] != "@" && r.Chance(1, 4) {
			m = append(m, q[len(p)+1])
		}
		return m
	}
	fs := make([]fetch, n)
	for i := range fs {
		f := fetch{}
		if i == 0 || r.Chance(1, 6) || len(positions) == 1 {
			if r.Chance(1, 3) {
				f.mp = towards(nil)
			}
		} else {
			f.rp = append([]string{}, positions[1+r.Pick(len(positions)-1)]...)
			if r.Chance(1, 4) {
				f.mp = towards(f.rp)
			}
		}
		fs[i] = f
	}
	// generation order: shorter response paths first, so every fetch that writes above another one
	// (its response path is strictly shorter) is generated earlier
	sort.SliceStable(fs, func(a, b int) bool { return len(fs[a].rp) < len(fs[b].rp) })
	deps := make([][]int, n) // by generation index
	add := func(i, d int) {
		if i == d {
			return
		}
		for _, x := range deps[i] {
			if x == d {
				return
			}
		}
		deps[i] = append(deps[i], d)
	}
	for i := 1; i < n; i++ {
		f := fs[i]
		if len(f.rp) == 0 {
			if r.Chance(1, 4) {
				add(i, r.Pick(i))
			}
			continue
		}
		var above []int
		for j := 0; j < i; j++ {
			if writesAbove(fs[j], f) {
				above = append(above, j)
			}
		}
		switch c := r.Pick(100); {
		case c < 42: // left to addMissingNestedDependencies
		case c < 67: // the fetch that provided the keys: the nearest writer above
			if len(above) > 0 {
				best := above[0]
				for _, j := range above {
					if len(fs[j].rp)+len(fs[j].mp) >= len(fs[best].rp)+len(fs[best].mp) {
						best = j
					}
				}
				add(i, best)
				if r.Chance(1, 3) {
					add(i, r.Pick(i))
				}
			}
		case c < 90: // every writer above, declared directly
			for _, j := range above {
				add(i, j)
			}
			if r.Chance(1, 4) {
				add(i, r.Pick(i))
			}
		case c < 97: // anything earlier (possibly not covering the writers above)
			add(i, r.Pick(i))
			if r.Chance(1, 3) {
				add(i, r.Pick(i))
			}
		default: // a dependency on a fetch nested deeper (e.g. a required nested field); filtered if cyclic
			add(i, r.Pick(n))
		}
	}
	space := n + 1 + r.Pick(n+4)
	idperm := r.Perm(space)
	id := idperm[:n]
	absent := idperm[n:]
	if r.Chance(1, 3) {
		for i := range id {
			id[i] = i
		}
		absent = []int{n, n + 1, n + 2}
	}
	entityShare := r.Pick(4)
	nds := 1 + r.Pick(3)
	for i := range fs {
		fs[i].id = id[i]
		for _, d := range deps[i] {
			fs[i].deps = append(fs[i].deps, id[d])
		}
		if len(absent) > 0 {
			if len(fs[i].deps) > 0 && r.Chance(1, 10) {
				fs[i].deps = append(fs[i].deps, absent[r.Pick(len(absent))])
			} else if len(fs[i].deps) == 0 && len(fs[i].rp) > 0 && r.Chance(1, 30) {
				// only a dependency satisfied outside the tree: the stage skips this fetch
				fs[i].deps = append(fs[i].deps, absent[r.Pick(len(absent))])
			}
		}
		r.Shuffle(len(fs[i].deps), func(a, b int) { fs[i].deps[a], fs[i].deps[b] = fs[i].deps[b], fs[i].deps[a] })
		if len(fs[i].rp) > 0 && len(fs[i].mp) == 0 && r.Pick(4) < entityShare {
			fs[i].cand = true
			fs[i].ds = r.Pick(nds)
		}
	}
	if odd {
		// malformed stream: an empty segment, a segment that contains the separator, a lone dot
		for k, m := 0, 1+r.Pick(2); k < m; k++ {
			i := r.Pick(n)
			weird := []string{"", "a.b", ".", "b."}[r.Pick(4)]
			switch {
			case len(fs[i].rp) > 0 && r.Chance(2, 3):
				fs[i].rp[r.Pick(len(fs[i].rp))] = weird
			case len(fs[i].mp) > 0:
				fs[i].mp[r.Pick(len(fs[i].mp))] = weird
			default:
				fs[i].mp = []string{weird}
				fs[i].cand = false
			}
		}
	}
	switch r.Pick(4) {
	case 0:
	case 1:
		for a, b := 0, n-1; a < b; a, b = a+1, b-1 {
			fs[a], fs[b] = fs[b], fs[a]
		}
	default:
		r.Shuffle(n, func(a, b int) { fs[a], fs[b] = fs[b], fs[a] })
	}
	return fs
}

// ---------------------------------------------------------------- corpus tokens

// segments are joined with "/"; an empty segment is written %e
func encSegs(xs []string) string {
	out := make([]string, len(xs))
	for i, x := range xs {
		if x == "" {
			x = "%e"
		}
		out[i] = x
	}
	return strings.Join(out, "/")
}

func decSegs(s string) []string {
	if s == "" {
		return nil
	}
	xs := strings.Split(s, "/")
	for i := range xs {
		if xs[i] == "%e" {
			xs[i] = ""
		}
	}
	return xs
}
