// c17: introspection generator / converter / engine introspection on generated schemas.
package main

import (
	"bytes"
	"encoding/json"
	"fmt"
	"os"

	"gvh/common"
	"gvh/schemadump"

	"github.com/wundergraph/graphql-go-tools/v2/pkg/ast"
	"github.com/wundergraph/graphql-go-tools/v2/pkg/astparser"
	"github.com/wundergraph/graphql-go-tools/v2/pkg/asttransform"
	"github.com/wundergraph/graphql-go-tools/v2/pkg/introspection"
	"github.com/wundergraph/graphql-go-tools/v2/pkg/operationreport"
)

func guard(f func()) (panicked string) {
	defer func() {
		if p := recover(); p != nil {
			panicked = fmt.Sprint(p)
		}
	}()
	f()
	return ""
}

// pipeline results for one SDL text
type result struct {
	parseErr  string
	parsed    *schemadump.Schema
	exts      int
	mergeErr  string
	merged    *schemadump.Schema
	genErr    string // "panic: ..." or report text
	json      []byte
	convErr   string
	converted *schemadump.Schema
	doc       *ast.Document
}

func pipeline(sdl string) *result {
	r := &result{}
	doc, report := astparser.ParseGraphqlDocumentString(sdl)
	if report.HasErrors() {
		r.parseErr = report.Error()
		return r
	}
	r.parsed, r.exts = schemadump.FromDocument(&doc)
	if p := guard(func() {
		if err := asttransform.MergeDefinitionWithBaseSchema(&doc); err != nil {
			r.mergeErr = err.Error()
		}
	}); p != "" {
		r.mergeErr = "panic: " + p
	}
	if r.mergeErr != "" {
		return r
	}
	r.doc = &doc
	r.merged, _ = schemadump.FromDocument(&doc)
	var data introspection.Data
	if p := guard(func() {
		gen := introspection.NewGenerator()
		rep := operationreport.Report{}
		gen.Generate(&doc, &rep, &data)
		if rep.HasErrors() {
			r.genErr = rep.Error()
		}
	}); p != "" {
		r.genErr = "panic: " + p
	}
	if r.genErr != "" {
		return r
	}
	js, err := json.Marshal(data)
	if err != nil {
		r.genErr = "marshal: " + err.Error()
		return r
	}
	r.json = js
	if p := guard(func() {
		conv := introspection.JsonConverter{}
		out, err := conv.GraphQLDocument(bytes.NewReader(js))
		if err != nil {
			r.convErr = "error: " + err.Error()
			return
		}
		r.converted, _ = schemadump.FromDocument(out)
	}); p != "" {
		r.convErr = "panic: " + p
	}
	return r
}

func main() {
	if len(os.Args) < 2 {
		fmt.Fprintln(os.Stderr, "usage: c17 gen -seed S -n N -out F | c17 corpus -in F -out F | c17 probe FILE")
		os.Exit(2)
	}
	switch os.Args[1] {
	case "probe":
		b, err := os.ReadFile(os.Args[2])
		if err != nil {
			panic(err)
		}
		r := pipeline(string(b))
		fmt.Println("parseErr:", r.parseErr, "mergeErr:", r.mergeErr, "genErr:", r.genErr, "convErr:", r.convErr, "exts:", r.exts)
		if r.parsed != nil {
			fmt.Println("PARSED:", r.parsed.Sexp())
		}
		if r.json != nil {
			var buf bytes.Buffer
			json.Indent(&buf, r.json, "", " ")
			fmt.Println("JSON:", buf.String())
		}
		if r.converted != nil {
			fmt.Println("CONVERTED SDL:\n" + r.converted.SDL(&schemadump.SDLOpts{SchemaBlock: true}))
		}
		return
	}
	_ = common.Args
}
