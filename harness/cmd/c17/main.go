// c17: introspection generator / converter / engine introspection on generated schemas.
//
// One case per output line:
//   (c17 mode (schema S) parse-check (merged M|err) (gen (json J)|(panic)|(err)) (conv (schema C)|(error)|(panic)|(skipped)) (engine ok|(mismatch "…")|(skipped "…")) (features "f"…))
// S is the generator-side tree (for corpus cases: the dump of the parsed document); parse-check is
// `(parse ok)` when the dump of Go's parse of the emitted SDL equals S, the document carries no
// extension and its root nodes come in the order schema / directives / types; `(parse no-block)` is the
// same for a document without schema definition (directives / types).
// JSON object member order is Go's struct order (encoding/json), preserved by a token-level reader.
package main

import (
	"bufio"
	"bytes"
	"encoding/json"
	"fmt"
	"io"
	"os"
	"sort"
	"strings"

	"gvh/common"
	sd "gvh/schemadump"

	"github.com/wundergraph/graphql-go-tools/v2/pkg/ast"
	"github.com/wundergraph/graphql-go-tools/v2/pkg/astparser"
	"github.com/wundergraph/graphql-go-tools/v2/pkg/asttransform"
	"github.com/wundergraph/graphql-go-tools/v2/pkg/introspection"
	"github.com/wundergraph/graphql-go-tools/v2/pkg/operationreport"
)

func guard(f func()) (panicked string) {
	defer func() {
		if p := recover(); p != nil {
			panicked = fmt.Sprint(p)
		}
	}()
	f()
	return ""
}

// JSON text -> S-expression, member order preserved, numbers raw
func jsonSexp(js []byte) (string, error) {
	dec := json.NewDecoder(bytes.NewReader(js))
	dec.UseNumber()
	var rec func() (string, error)
	rec = func() (string, error) {
		t, err := dec.Token()
		if err != nil {
			return "", err
		}
		switch v := t.(type) {
		case json.Delim:
			switch v {
			case '{':
				items := []string{"o"}
				for dec.More() {
					k, err := dec.Token()
					if err != nil {
						return "", err
					}
					val, err := rec()
					if err != nil {
						return "", err
					}
					if k.(string) == "description" && strings.HasPrefix(val, "(s ") {
						val = `(s "")` // descriptions are out of scope of the model
					}
					items = append(items, common.L(common.QS(k.(string)), val))
				}
				if _, err := dec.Token(); err != nil {
					return "", err
				}
				return common.L(items...), nil
			case '[':
				items := []string{"a"}
				for dec.More() {
					val, err := rec()
					if err != nil {
						return "", err
					}
					items = append(items, val)
				}
				if _, err := dec.Token(); err != nil {
					return "", err
				}
				return common.L(items...), nil
			}
			return "", fmt.Errorf("unexpected delimiter %v", v)
		case string:
			return common.L("s", common.QS(v)), nil
		case json.Number:
			return common.L("num", common.QS(v.String())), nil
		case bool:
			if v {
				return "(t)", nil
			}
			return "(f)", nil
		case nil:
			return "(n)", nil
		}
		return "", fmt.Errorf("unexpected token %v", t)
	}
	s, err := rec()
	if err != nil {
		return "", err
	}
	if _, err := dec.Token(); err != io.EOF {
		return "", fmt.Errorf("trailing data")
	}
	return s, nil
}

type result struct {
	parseErr  string
	parsed    *sd.Schema
	exts      int
	orderOK   bool
	noBlock   bool // no schema definition, otherwise in order
	mergeErr  string
	merged    *sd.Schema
	genErr    string // "panic" | "err"
	genMsg    string
	json      []byte
	data      *introspection.Data
	convErr   string // "error" | "panic"
	convMsg   string
	converted *sd.Schema
}

func rootOrderOK(doc *ast.Document) bool {
	stage := 0
	for i, n := range doc.RootNodes {
		switch n.Kind {
		case ast.NodeKindSchemaDefinition:
			if i != 0 {
				return false
			}
		case ast.NodeKindDirectiveDefinition:
			if stage > 1 {
				return false
			}
			stage = 1
		default:
			stage = 2
		}
	}
	return len(doc.RootNodes) > 0 && doc.RootNodes[0].Kind == ast.NodeKindSchemaDefinition
}

// a document without schema definition (the default root operation type names apply): directive
// definitions, then types
func noBlockOrderOK(doc *ast.Document) bool {
	stage := 0
	for _, n := range doc.RootNodes {
		switch n.Kind {
		case ast.NodeKindSchemaDefinition:
			return false
		case ast.NodeKindDirectiveDefinition:
			if stage > 1 {
				return false
			}
			stage = 1
		default:
			stage = 2
		}
	}
	return len(doc.RootNodes) > 0
}

func pipeline(sdl string) *result {
	r := &result{}
	doc, report := astparser.ParseGraphqlDocumentString(sdl)
	if report.HasErrors() {
		r.parseErr = report.Error()
		return r
	}
	r.parsed, r.exts = sd.FromDocument(&doc)
	r.orderOK = rootOrderOK(&doc)
	r.noBlock = noBlockOrderOK(&doc)
	if p := guard(func() {
		if err := asttransform.MergeDefinitionWithBaseSchema(&doc); err != nil {
			r.mergeErr = err.Error()
		}
	}); p != "" {
		r.mergeErr = "panic: " + p
	}
	if r.mergeErr != "" {
		return r
	}
	r.merged, _ = sd.FromDocument(&doc)
	var data introspection.Data
	if p := guard(func() {
		gen := introspection.NewGenerator()
		rep := operationreport.Report{}
		gen.Generate(&doc, &rep, &data)
		if rep.HasErrors() {
			r.genErr, r.genMsg = "err", rep.Error()
		}
	}); p != "" {
		r.genErr, r.genMsg = "panic", p
	}
	if r.genErr != "" {
		return r
	}
	js, err := json.Marshal(data)
	if err != nil {
		r.genErr, r.genMsg = "err", "marshal: "+err.Error()
		return r
	}
	r.json = js
	r.data = &data
	if p := guard(func() {
		conv := introspection.JsonConverter{}
		out, err := conv.GraphQLDocument(bytes.NewReader(js))
		if err != nil {
			r.convErr, r.convMsg = "error", err.Error()
			return
		}
		r.converted, _ = sd.FromDocument(out)
	}); p != "" {
		r.convErr, r.convMsg = "panic", p
	}
	return r
}

// one case line; s == nil means "take S from the parse" (corpus)
func observe(mode string, s *sd.Schema, sdl string, feats map[string]int, withEngine bool, r *common.Rand) string {
	res := pipeline(sdl)
	if res.parseErr != "" {
		return common.L("c17", mode, "(parse-error)", common.QS(res.parseErr), common.QS(sdl))
	}
	parseCheck := "(parse ok)"
	if s == nil {
		s = res.parsed
	} else if s.Sexp() != res.parsed.Sexp() {
		parseCheck = common.L("parse", "tree-differs", res.parsed.Sexp())
	}
	if res.exts > 0 {
		parseCheck = common.L("parse", "extensions")
	} else if res.noBlock && parseCheck == "(parse ok)" {
		parseCheck = "(parse no-block)" // the model is run with blk = false
	} else if !res.orderOK {
		parseCheck = common.L("parse", "root-order")
	}
	merged, gen, conv, eng := "", "", "(conv (skipped))", common.L("engine", common.L("skipped", common.QS("off")))
	if res.mergeErr != "" {
		merged = common.L("merged", common.L("err", common.QS(res.mergeErr)))
		gen = "(gen (skipped))"
	} else {
		merged = common.L("merged", res.merged.Sexp())
		switch res.genErr {
		case "":
			js, err := jsonSexp(res.json)
			if err != nil {
				gen = common.L("gen", common.L("err", common.QS("json: "+err.Error())))
			} else {
				gen = common.L("gen", common.L("json", js))
			}
			switch res.convErr {
			case "":
				conv = common.L("conv", res.converted.Sexp())
			default:
				conv = common.L("conv", common.L(res.convErr, common.QS(res.convMsg)))
			}
			if withEngine {
				eng = common.L("engine", engineCheck(sdl, res, r))
			}
		default:
			gen = common.L("gen", common.L(res.genErr, common.QS(res.genMsg)))
		}
	}
	fs := []string{"features"}
	var keys []string
	for k := range feats {
		keys = append(keys, k)
	}
	sort.Strings(keys)
	for _, k := range keys {
		fs = append(fs, common.QS(k))
	}
	return common.L("c17", mode, s.Sexp(), parseCheck, merged, gen, conv, eng, common.L(fs...))
}

func main() {
	if len(os.Args) < 2 {
		fmt.Fprintln(os.Stderr, "usage: c17 gen -seed S -n N -out F [-engine every]| c17 corpus -in F -out F | c17 probe FILE")
		os.Exit(2)
	}
	switch os.Args[1] {
	case "probe":
		b, err := os.ReadFile(os.Args[2])
		if err != nil {
			panic(err)
		}
		r := pipeline(string(b))
		fmt.Println("parseErr:", r.parseErr, "mergeErr:", r.mergeErr, "genErr:", r.genErr, r.genMsg, "convErr:", r.convErr, r.convMsg, "exts:", r.exts)
		if r.parsed != nil {
			fmt.Println("PARSED:", r.parsed.Sexp())
		}
		if r.json != nil {
			var buf bytes.Buffer
			json.Indent(&buf, r.json, "", " ")
			fmt.Println("JSON:", buf.String())
		}
		if r.converted != nil {
			fmt.Println("CONVERTED SDL:\n" + r.converted.SDL(&sd.SDLOpts{SchemaBlock: true}))
		}
		if len(os.Args) > 4 {
			vars := ""
			if len(os.Args) > 5 {
				vars = os.Args[5]
			}
			fmt.Println("RESPONSE:", engineRun(string(b), os.Args[4], vars))
		} else if len(os.Args) > 3 {
			fmt.Println("ENGINE:", engineCheck(string(b), r, common.NewRand(1)))
		}
		return
	}
	a := common.Args(os.Args[2:])
	out := common.NewOut(a["out"])
	defer out.Close()
	switch os.Args[1] {
	case "gen":
		r := common.NewRand(common.ArgU64(a, "seed", 1))
		n := common.ArgInt(a, "n", 500)
		every := common.ArgInt(a, "engine", 0)
		// the empty document ties the base schema itself
		out.Line(observe("base", nil, "schema { query: Query }\n", nil, false, r))
		for i := 0; i < n; i++ {
			mode := "clean"
			k := r.Pick(20)
			switch {
			case k < 9:
			case k < 18:
				mode = "lossy"
			default:
				mode = "malformed"
			}
			s, feats := genSchema(r, mode != "clean")
			if mode == "malformed" {
				feats["malformed_"+malform(r, s)]++
			}
			// 1 in 8: the same types as a document without schema definition -- no root is declared, the
			// default root operation type names (Query / Mutation / Subscription) apply
			block := true
			if mode != "malformed" && s.Query == "Query" && r.Chance(1, 8) {
				block = false
				s.Query, s.Mutation, s.Subscription = "", "", ""
				feats["no_schema_definition"]++
			}
			sdl := s.SDL(&sd.SDLOpts{R: r, SchemaBlock: block})
			out.Line(observe(mode, s, sdl, feats, every > 0 && i%every == 0, r))
		}
	case "corpus":
		f, err := os.Open(a["in"])
		if err != nil {
			return
		}
		defer f.Close()
		sc := bufio.NewScanner(f)
		sc.Buffer(make([]byte, 1<<20), 1<<24)
		var cur strings.Builder
		r := common.NewRand(7)
		flush := func() {
			if strings.TrimSpace(cur.String()) != "" {
				out.Line(observe("corpus", nil, cur.String(), nil, true, r))
			}
			cur.Reset()
		}
		for sc.Scan() {
			line := sc.Text()
			if strings.HasPrefix(line, "---") {
				flush()
				continue
			}
			if strings.HasPrefix(line, "#") {
				continue
			}
			cur.WriteString(line + "\n")
		}
		flush()
	}
}
