package main

import (
	"fmt"
	"strings"

	"gvh/common"
	sd "gvh/schemadump"
)

// Random well-formed schemas built as a schemadump.Schema tree.  mode:
//   clean  – inside the hypotheses of the round-trip theorem; since their repair this includes interfaces
//            implementing interfaces, repeatable directives, deprecated arguments / input fields,
//            @specifiedBy, reason: null, directive/type name collisions, non-root objects named
//            Mutation / Subscription and block-string defaults ending in a quote or backslash
//   lossy  – additionally one of: @oneOf, escapes / quotes in deprecation reasons, redeclared built-ins
//            (1 in 6: any)
//   malformed – one well-formedness rule broken (unresolved type, missing root, duplicate name …)
type sgen struct {
	r     *common.Rand
	lossy bool
	only  string // the single lossy construct of this case; "" = any
	s     *sd.Schema

	scalars, enums, inputs, ifaces, objects, unions []string
	enumVals                                        map[string][]string
	inputDefs                                       map[string]*sd.TD
	dirs                                            []sd.DD
	features                                        map[string]int
}

var builtinScalars = []string{"Int", "Float", "String", "Boolean", "ID"}

var allLocations = []string{"QUERY", "MUTATION", "SUBSCRIPTION", "FIELD", "FRAGMENT_DEFINITION", "FRAGMENT_SPREAD",
	"INLINE_FRAGMENT", "VARIABLE_DEFINITION", "SCHEMA", "SCALAR", "OBJECT", "FIELD_DEFINITION",
	"ARGUMENT_DEFINITION", "INTERFACE", "UNION", "ENUM", "ENUM_VALUE", "INPUT_OBJECT", "INPUT_FIELD_DEFINITION"}

func (g *sgen) feat(n string) { g.features[n]++ }

// on reports whether the lossy construct `what` may be used in this case
// (constructs whose loss has been repaired are ordinary features now and appear in every mode)
func (g *sgen) on(what string) bool {
	if repaired[what] {
		return g.r.Chance(1, 3)
	}
	return g.lossy && (g.only == "" || g.only == what)
}

var repaired = map[string]bool{"iface": true, "repeatable": true, "ivdep": true, "specified": true, "null": true, "collision": true, "rootname": true, "blockquote": true}
var lossyKinds = []string{"oneof", "escapes", "builtin"}

func (g *sgen) wrap(base string, maxDepth int) *sd.Ty {
	t := sd.Named(base)
	d := g.r.Pick(maxDepth + 1)
	if g.r.Chance(1, 3) {
		d = 0
	}
	for i := 0; i < d; i++ {
		if t.Kind != 2 && g.r.Chance(1, 2) {
			t = sd.NonNull(t)
		} else {
			t = sd.List(t)
		}
	}
	return t
}

var plainStrings = []string{"abc", "hello world", "", "with, comma", "brack]et [x", "cur}ly {y", "co:lon", "#hash", "caf\xc3\xa9 \xc3\xbc", "$dollar -minus 1.5e3", "true", "a  b"}
var escapedStrings = []string{`a\"b`, `tab\tx`, `nl\nx`, `back\\slash`, `\u00e9 x`, `q\\\"`, `\"`, `\\`, `end\\`, `x\/y`}
var blockStrings = []string{"block text", "multi\nline", "multi\n  indented\nlines", `has "quote" inside`, `esc \""" triple`, "x", `back\slash`, "tab\there"}
var blockTrailingQuote = []string{`say "hi"`, `"`, `a""`, `a\`, `end\\`, `x\"`, `"q" "`}

func (g *sgen) strVal() *sd.Val {
	switch k := g.r.Pick(10); {
	case k < 5:
		return &sd.Val{Kind: "str", Raw: common.PickOf(g.r, plainStrings)}
	case k < 7:
		g.feat("default_string_escapes")
		return &sd.Val{Kind: "str", Raw: common.PickOf(g.r, escapedStrings)}
	case k < 9 || !g.on("blockquote"):
		g.feat("default_block_string")
		return &sd.Val{Kind: "str", Raw: common.PickOf(g.r, blockStrings), Block: true}
	}
	g.feat("default_block_trailing_quote")
	return &sd.Val{Kind: "str", Raw: common.PickOf(g.r, blockTrailingQuote), Block: true}
}

var intRaws = []string{"0", "7", "-3", "42", "123456789012345678901234567890", "-0", "007"}
var floatRaws = []string{"1.5", "-0.25", "3.0e10", "2E5", "1.5e+3", "6.02E-23", "-9.99e9", "0.0"}

// a value of (roughly) the given type; depth bounds nested input objects
func (g *sgen) value(t *sd.Ty, depth int) *sd.Val {
	switch t.Kind {
	case 2:
		return g.valueNN(t.Of, depth)
	}
	if g.r.Chance(1, 8) {
		return &sd.Val{Kind: "null"}
	}
	return g.valueNN(t, depth)
}

func (g *sgen) valueNN(t *sd.Ty, depth int) *sd.Val {
	switch t.Kind {
	case 2:
		return g.valueNN(t.Of, depth)
	case 1:
		n := g.r.Pick(4)
		v := &sd.Val{Kind: "list"}
		for i := 0; i < n; i++ {
			v.Items = append(v.Items, g.value(t.Of, depth))
		}
		g.feat("default_list")
		return v
	}
	switch t.Name {
	case "Int":
		return &sd.Val{Kind: "int", Raw: common.PickOf(g.r, intRaws)}
	case "Float":
		g.feat("default_float")
		return &sd.Val{Kind: "float", Raw: common.PickOf(g.r, floatRaws)}
	case "String":
		return g.strVal()
	case "Boolean":
		return &sd.Val{Kind: "bool", B: g.r.Chance(1, 2)}
	case "ID":
		if g.r.Chance(1, 2) {
			return &sd.Val{Kind: "int", Raw: common.PickOf(g.r, intRaws)}
		}
		return g.strVal()
	}
	if vs, ok := g.enumVals[t.Name]; ok {
		g.feat("default_enum")
		return &sd.Val{Kind: "enum", Raw: common.PickOf(g.r, vs)}
	}
	if in, ok := g.inputDefs[t.Name]; ok {
		v := &sd.Val{Kind: "obj"}
		g.feat("default_object")
		if depth <= 0 {
			return v
		}
		for i := range in.InputFields {
			f := &in.InputFields[i]
			if g.r.Chance(2, 3) {
				v.Fields = append(v.Fields, sd.ObjField{Name: f.Name, Val: g.value(f.Type, depth-1)})
			}
		}
		return v
	}
	// custom scalar: anything
	switch g.r.Pick(5) {
	case 0:
		return &sd.Val{Kind: "int", Raw: common.PickOf(g.r, intRaws)}
	case 1:
		return g.strVal()
	case 2:
		return &sd.Val{Kind: "obj", Fields: []sd.ObjField{{Name: "k", Val: &sd.Val{Kind: "list", Items: []*sd.Val{{Kind: "bool", B: true}, {Kind: "null"}}}}}}
	case 3:
		return &sd.Val{Kind: "list"}
	}
	return &sd.Val{Kind: "float", Raw: common.PickOf(g.r, floatRaws)}
}

var plainReasons = []string{"use other", "", "gone in v2, see docs", "No longer supported", "x: [y] {z}"}

func (g *sgen) deprecated(forceClean bool) sd.Dir {
	d := sd.Dir{Name: "deprecated"}
	k := g.r.Pick(10)
	switch {
	case k < 3:
		g.feat("deprecated_no_reason")
	case k < 8 || !g.on("escapes") || forceClean:
		g.feat("deprecated_reason")
		v := &sd.Val{Kind: "str", Raw: common.PickOf(g.r, plainReasons)}
		if g.r.Chance(1, 6) {
			v.Block = true
			if g.r.Chance(1, 2) {
				v.Raw = "two\nlines"
			}
			if v.Raw == "" {
				v.Raw = "b"
			}
		}
		d.Args = []sd.Arg{{Name: "reason", Val: v}}
	case k == 8:
		g.feat("deprecated_reason_escapes")
		d.Args = []sd.Arg{{Name: "reason", Val: &sd.Val{Kind: "str", Raw: common.PickOf(g.r, escapedStrings)}}}
	default:
		g.feat("deprecated_reason_block_quotes")
		d.Args = []sd.Arg{{Name: "reason", Val: &sd.Val{Kind: "str", Raw: common.PickOf(g.r, []string{`block "r"`, "cr\rinside", `back\slash`}), Block: true}}}
	}
	return d
}

// applied custom directives (never visible in introspection)
func (g *sgen) customDirs(loc string) []sd.Dir {
	var out []sd.Dir
	for i := range g.dirs {
		d := &g.dirs[i]
		ok := false
		for _, l := range d.Locations {
			if l == loc {
				ok = true
			}
		}
		if !ok || !g.r.Chance(1, 4) {
			continue
		}
		n := 1
		if d.Repeatable && g.r.Chance(1, 2) {
			n = 2
		}
		for j := 0; j < n; j++ {
			ad := sd.Dir{Name: d.Name}
			for k := range d.Args {
				if g.r.Chance(1, 2) {
					ad.Args = append(ad.Args, sd.Arg{Name: d.Args[k].Name, Val: g.value(d.Args[k].Type, 1)})
				}
			}
			out = append(out, ad)
			g.feat("applied_custom_directive")
		}
	}
	return out
}

func (g *sgen) inputTypeName() string {
	pool := append([]string{}, builtinScalars...)
	pool = append(pool, g.scalars...)
	pool = append(pool, g.enums...)
	pool = append(pool, g.inputs...)
	pool = append(pool, g.enums...)
	return common.PickOf(g.r, pool)
}

func (g *sgen) outputTypeName() string {
	pool := append([]string{}, builtinScalars...)
	pool = append(pool, g.scalars...)
	pool = append(pool, g.enums...)
	pool = append(pool, g.ifaces...)
	pool = append(pool, g.objects...)
	pool = append(pool, g.objects...)
	pool = append(pool, g.unions...)
	return common.PickOf(g.r, pool)
}

func (g *sgen) inputValue(name string, loc string) sd.IV {
	iv := sd.IV{Name: name, Type: g.wrap(g.inputTypeName(), 4)}
	if g.r.Chance(1, 2) {
		iv.Default = g.value(iv.Type, 2)
		g.feat("default_value")
	}
	if g.on("ivdep") && g.r.Chance(1, 4) {
		iv.Dirs = append(iv.Dirs, g.deprecated(false))
		g.feat("deprecated_input_value")
	}
	iv.Dirs = append(iv.Dirs, g.customDirs(loc)...)
	return iv
}

func (g *sgen) field(name string) sd.FD {
	f := sd.FD{Name: name, Type: g.wrap(g.outputTypeName(), 4)}
	na := g.r.Pick(4)
	if g.r.Chance(1, 2) {
		na = 0
	}
	for i := 0; i < na; i++ {
		f.Args = append(f.Args, g.inputValue(fmt.Sprintf("a%d", i), "ARGUMENT_DEFINITION"))
	}
	if g.r.Chance(1, 5) {
		f.Dirs = append(f.Dirs, g.deprecated(false))
	}
	f.Dirs = append(f.Dirs, g.customDirs("FIELD_DEFINITION")...)
	return f
}

func genSchema(r *common.Rand, lossy bool) (*sd.Schema, map[string]int) {
	only := ""
	if lossy && !r.Chance(1, 6) {
		only = common.PickOf(r, lossyKinds)
	}
	g := &sgen{r: r, lossy: lossy, only: only, s: &sd.Schema{}, enumVals: map[string][]string{}, inputDefs: map[string]*sd.TD{}, features: map[string]int{}}
	s := g.s
	pfx := ""
	if r.Chance(1, 10) {
		pfx = "_x9" // names with underscores and digits
	}
	for i, n := 0, r.Pick(3); i < n; i++ {
		g.scalars = append(g.scalars, fmt.Sprintf("%sSc%d", pfx, i))
	}
	for i, n := 0, 1+r.Pick(2); i < n; i++ {
		g.enums = append(g.enums, fmt.Sprintf("%sEn%d", pfx, i))
	}
	for i, n := 0, 1+r.Pick(3); i < n; i++ {
		g.inputs = append(g.inputs, fmt.Sprintf("%sIn%d", pfx, i))
	}
	nIfaces := 1 + r.Pick(3)
	if r.Chance(1, 4) {
		nIfaces = 2 + r.Pick(3) // room for chains of interfaces implementing interfaces
	}
	for i := 0; i < nIfaces; i++ {
		g.ifaces = append(g.ifaces, fmt.Sprintf("%sIf%d", pfx, i))
	}
	for i, n := 0, 1+r.Pick(3); i < n; i++ {
		g.objects = append(g.objects, fmt.Sprintf("%sOb%d", pfx, i))
	}
	for i, n := 0, r.Pick(3); i < n; i++ {
		g.unions = append(g.unions, fmt.Sprintf("%sUn%d", pfx, i))
	}
	// roots
	s.Query = "Query"
	if r.Chance(1, 3) {
		s.Query = "RootQ"
	}
	if r.Chance(1, 2) {
		s.Mutation = "Mutation"
		if r.Chance(1, 3) {
			s.Mutation = "Mut"
		}
	}
	if r.Chance(1, 3) {
		s.Subscription = "Subscription"
		if r.Chance(1, 3) {
			s.Subscription = "Sub"
		}
	}
	roots := []string{s.Query}
	if s.Mutation != "" {
		roots = append(roots, s.Mutation)
	}
	if s.Subscription != "" {
		roots = append(roots, s.Subscription)
	}
	if g.on("rootname") && r.Chance(1, 2) {
		// an ordinary object that happens to carry a default root name
		for _, n := range []string{"Mutation", "Subscription"} {
			if s.Mutation != n && s.Subscription != n && r.Chance(1, 2) {
				g.objects = append(g.objects, n)
				g.feat("nonroot_default_root_name")
			}
		}
	}
	if g.on("collision") && r.Chance(1, 4) {
		g.objects = append(g.objects, "schema")
		g.feat("type_named_schema")
	}

	// directive definitions
	for i, n := 0, r.Pick(4); i < n; i++ {
		d := sd.DD{Name: fmt.Sprintf("%sdir%d", pfx, i)}
		if g.on("collision") && r.Chance(1, 2) {
			d.Name = common.PickOf(r, append(append([]string{}, g.ifaces...), g.objects...))
			g.feat("directive_type_name_collision")
		}
		for _, l := range allLocations {
			if r.Chance(1, 4) {
				d.Locations = append(d.Locations, l)
			}
		}
		if len(d.Locations) == 0 {
			d.Locations = []string{common.PickOf(r, allLocations)}
		}
		if len(d.Locations) > 1 {
			g.feat("directive_multi_location")
		}
		if g.on("repeatable") && r.Chance(1, 2) {
			d.Repeatable = true
			g.feat("directive_repeatable")
		}
		dup := false
		for _, e := range g.dirs {
			if e.Name == d.Name {
				dup = true
			}
		}
		if !dup {
			g.dirs = append(g.dirs, d)
		}
	}
	if g.on("builtin") && r.Chance(1, 2) {
		switch r.Pick(3) {
		case 0:
			g.dirs = append(g.dirs, sd.DD{Name: "oneOf", Locations: []string{"INPUT_OBJECT"}})
		case 1:
			g.dirs = append(g.dirs, sd.DD{Name: "specifiedBy", Locations: []string{"SCALAR"}, Args: []sd.IV{{Name: "url", Type: sd.NonNull(sd.Named("String"))}}})
		case 2:
			g.scalars = append(g.scalars, common.PickOf(r, builtinScalars))
		}
		g.feat("builtin_redeclared")
	}

	// enums first (values needed for defaults)
	var enumTDs []sd.TD
	for _, n := range g.enums {
		t := sd.TD{Kind: "enum", Name: n}
		for i, k := 0, 1+r.Pick(4); i < k; i++ {
			ev := sd.EV{Name: fmt.Sprintf("V%d_%s", i, strings.ToUpper(strings.TrimLeft(n, "_")))}
			if r.Chance(1, 3) {
				ev.Dirs = append(ev.Dirs, g.deprecated(false))
				g.feat("deprecated_enum_value")
			}
			t.EnumValues = append(t.EnumValues, ev)
			g.enumVals[n] = append(g.enumVals[n], ev.Name)
		}
		enumTDs = append(enumTDs, t)
	}
	// input objects: field types first (so that defaults can refer to the definitions), then defaults
	var inputTDs []*sd.TD
	for _, n := range g.inputs {
		t := &sd.TD{Kind: "input", Name: n}
		for i, k := 0, 1+r.Pick(4); i < k; i++ {
			t.InputFields = append(t.InputFields, sd.IV{Name: fmt.Sprintf("i%d", i), Type: g.wrap(g.inputTypeName(), 4)})
		}
		g.inputDefs[n] = t
		inputTDs = append(inputTDs, t)
	}
	// directive arguments (may use input types)
	for i := range g.dirs {
		if g.dirs[i].Name == "oneOf" || g.dirs[i].Name == "specifiedBy" {
			continue
		}
		for j, k := 0, r.Pick(3); j < k; j++ {
			iv := sd.IV{Name: fmt.Sprintf("d%d", j), Type: g.wrap(g.inputTypeName(), 3)}
			if r.Chance(1, 2) {
				iv.Default = g.value(iv.Type, 2)
				g.feat("default_value")
			}
			if g.on("ivdep") && r.Chance(1, 4) {
				iv.Dirs = append(iv.Dirs, g.deprecated(false))
				g.feat("deprecated_input_value")
			}
			g.dirs[i].Args = append(g.dirs[i].Args, iv)
		}
	}
	for _, t := range inputTDs {
		for i := range t.InputFields {
			f := &t.InputFields[i]
			if r.Chance(1, 2) {
				f.Default = g.value(f.Type, 2)
				g.feat("default_value")
			}
			if g.on("ivdep") && r.Chance(1, 4) {
				f.Dirs = append(f.Dirs, g.deprecated(false))
				g.feat("deprecated_input_value")
			}
			f.Dirs = append(f.Dirs, g.customDirs("INPUT_FIELD_DEFINITION")...)
		}
		if g.on("oneof") && r.Chance(1, 2) {
			t.Dirs = append(t.Dirs, sd.Dir{Name: "oneOf"})
			g.feat("oneof")
		}
		t.Dirs = append(t.Dirs, g.customDirs("INPUT_OBJECT")...)
	}
	for i := range enumTDs {
		enumTDs[i].Dirs = g.customDirs("ENUM")
	}

	// interfaces: own fields; in lossy mode If(k) may implement earlier interfaces (transitively closed)
	ifaceFields := map[string][]sd.FD{}
	ifaceImpl := map[string][]string{}
	var ifaceTDs []sd.TD
	g.objects = append(g.objects, roots...) // make roots referable from fields
	for k, n := range g.ifaces {
		var impl []string
		if g.on("iface") && k > 0 && r.Chance(2, 3) {
			p := g.ifaces[r.Pick(k)]
			impl = append(impl, p)
			for _, q := range ifaceImpl[p] {
				impl = append(impl, q)
			}
			g.feat("interface_implements_interface")
			if len(impl) > 1 {
				g.feat("interface_chain")
			}
		}
		var fs []sd.FD
		for _, p := range impl {
			for _, f := range ifaceFields[p] {
				dup := false
				for _, e := range fs {
					if e.Name == f.Name {
						dup = true
					}
				}
				if !dup {
					fs = append(fs, f)
				}
			}
		}
		for i, c := 0, 1+r.Pick(3); i < c; i++ {
			fs = append(fs, g.field(fmt.Sprintf("f%d_%d", k, i)))
		}
		ifaceFields[n] = fs
		ifaceImpl[n] = impl
		ifaceTDs = append(ifaceTDs, sd.TD{Kind: "interface", Name: n, Implements: impl, Fields: fs, Dirs: g.customDirs("INTERFACE")})
	}
	// objects
	var objectTDs []sd.TD
	seen := map[string]bool{}
	for _, n := range g.objects {
		if seen[n] {
			continue
		}
		seen[n] = true
		t := sd.TD{Kind: "object", Name: n}
		if r.Chance(1, 2) {
			p := common.PickOf(r, g.ifaces)
			t.Implements = append([]string{p}, ifaceImpl[p]...)
			if r.Chance(1, 3) {
				q := common.PickOf(r, g.ifaces)
				for _, x := range append([]string{q}, ifaceImpl[q]...) {
					dup := false
					for _, e := range t.Implements {
						if e == x {
							dup = true
						}
					}
					if !dup {
						t.Implements = append(t.Implements, x)
					}
				}
			}
			g.feat("object_implements")
		}
		for _, p := range t.Implements {
			for _, f := range ifaceFields[p] {
				dup := false
				for _, e := range t.Fields {
					if e.Name == f.Name {
						dup = true
					}
				}
				if !dup {
					t.Fields = append(t.Fields, f)
				}
			}
		}
		for i, c := 0, 1+r.Pick(3); i < c; i++ {
			t.Fields = append(t.Fields, g.field(fmt.Sprintf("o%d", i)))
		}
		t.Dirs = g.customDirs("OBJECT")
		objectTDs = append(objectTDs, t)
	}
	var unionTDs []sd.TD
	for _, n := range g.unions {
		t := sd.TD{Kind: "union", Name: n, Dirs: g.customDirs("UNION")}
		for _, o := range g.objects {
			if r.Chance(1, 2) {
				dup := false
				for _, e := range t.Members {
					if e == o {
						dup = true
					}
				}
				if !dup {
					t.Members = append(t.Members, o)
				}
			}
		}
		if len(t.Members) == 0 {
			t.Members = []string{g.objects[0]}
		}
		unionTDs = append(unionTDs, t)
	}
	var scalarTDs []sd.TD
	for _, n := range g.scalars {
		t := sd.TD{Kind: "scalar", Name: n, Dirs: g.customDirs("SCALAR")}
		if g.on("specified") && r.Chance(1, 2) {
			t.Dirs = append(t.Dirs, sd.Dir{Name: "specifiedBy", Args: []sd.Arg{{Name: "url", Val: &sd.Val{Kind: "str", Raw: "https://example.com/spec"}}}})
			g.feat("specified_by")
		}
		scalarTDs = append(scalarTDs, t)
	}
	// assemble in a shuffled order of kinds
	var all []sd.TD
	all = append(all, scalarTDs...)
	all = append(all, enumTDs...)
	for _, t := range inputTDs {
		all = append(all, *t)
	}
	all = append(all, ifaceTDs...)
	all = append(all, objectTDs...)
	all = append(all, unionTDs...)
	r.Shuffle(len(all), func(i, j int) { all[i], all[j] = all[j], all[i] })
	s.Types = all
	s.Directives = g.dirs
	if g.on("null") && r.Chance(1, 4) {
		// reason: null panics the generator
		for i := range s.Types {
			if s.Types[i].Kind == "enum" {
				s.Types[i].EnumValues[0].Dirs = []sd.Dir{{Name: "deprecated", Args: []sd.Arg{{Name: "reason", Val: &sd.Val{Kind: "null"}}}}}
				g.feat("deprecated_reason_null")
				break
			}
		}
	}
	maxd := 0
	for i := range s.Types {
		for _, f := range s.Types[i].Fields {
			if d := f.Type.Depth(); d > maxd {
				maxd = d
			}
			for _, a := range f.Args {
				if d := a.Type.Depth(); d > maxd {
					maxd = d
				}
			}
		}
		for _, f := range s.Types[i].InputFields {
			if d := f.Type.Depth(); d > maxd {
				maxd = d
			}
		}
	}
	g.features[fmt.Sprintf("max_wrap_depth_%d", maxd)]++
	return s, g.features
}

// break one well-formedness rule
func malform(r *common.Rand, s *sd.Schema) string {
	switch r.Pick(6) {
	case 0: // unresolved field type
		for i := range s.Types {
			if s.Types[i].Kind == "object" && len(s.Types[i].Fields) > 0 {
				s.Types[i].Fields[0].Type = sd.List(sd.Named("Nowhere"))
				return "unresolved_type"
			}
		}
	case 1: // root type missing
		s.Query = "NoSuchRoot"
		return "missing_query_root"
	case 2: // duplicate type
		if len(s.Types) > 0 {
			s.Types = append(s.Types, s.Types[r.Pick(len(s.Types))])
			return "duplicate_type"
		}
	case 3: // mutation root missing
		s.Mutation = "NoSuchMutation"
		return "missing_mutation_root"
	case 4: // reason of a non-string kind
		for i := range s.Types {
			if s.Types[i].Kind == "enum" {
				v := common.PickOf(r, []*sd.Val{{Kind: "int", Raw: "-5"}, {Kind: "enum", Raw: "WHY"}, {Kind: "bool", B: true}, {Kind: "float", Raw: "-1.5"}, {Kind: "list"}})
				s.Types[i].EnumValues[0].Dirs = []sd.Dir{{Name: "deprecated", Args: []sd.Arg{{Name: "reason", Val: v}}}}
				return "reason_not_string"
			}
		}
	case 5: // unresolved argument type
		for i := range s.Types {
			if s.Types[i].Kind == "input" {
				s.Types[i].InputFields[0].Type = sd.NonNull(sd.Named("Missing"))
				return "unresolved_input_type"
			}
		}
	}
	return "none"
}
