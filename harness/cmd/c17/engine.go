package main

// Engine part of C17: an execution engine is built over the schema (no data source besides the
// built-in introspection one), introspection operations are executed, and `data` is compared with
// the projection of the Generator's own JSON through the same operation.  The projection is a
// direct reading of the GraphQL spec for the introspection fields: selection by response name,
// lists element-wise, null stays null, absent (omitempty) members read as null,
// fields/enumValues/inputFields/args drop deprecated elements unless includeDeprecated is true.

import (
	"context"
	"encoding/json"
	"fmt"
	"reflect"
	"strings"

	"github.com/jensneuse/abstractlogger"

	"gvh/common"

	"github.com/wundergraph/graphql-go-tools/execution/engine"
	"github.com/wundergraph/graphql-go-tools/execution/graphql"
	"github.com/wundergraph/graphql-go-tools/v2/pkg/engine/resolve"
)

// selection tree; Inc: nil = no includeDeprecated argument, otherwise its value; IncVar: pass it as variable
type sel struct {
	Name   string
	Alias  string
	Inc    *bool
	IncVar bool
	Arg    string // literal argument text for __type(name: "...")
	Frag   string // when set: a fragment spread of that name (Name empty)
	Sub    []sel
}

type operation struct {
	Root  []sel
	Frags map[string][]sel // all on __Type / __InputValue; type condition taken from fragTypes
	Vars  map[string]bool
}

var fragTypes = map[string]string{"FullType": "__Type", "InputValue": "__InputValue", "TypeRef": "__Type"}

func bp(b bool) *bool { return &b }

func typeRefSel(depth int) []sel {
	s := []sel{{Name: "kind"}, {Name: "name"}}
	if depth > 0 {
		s = append(s, sel{Name: "ofType", Sub: typeRefSel(depth - 1)})
	}
	return s
}

// the standard introspection query; inc = value of every includeDeprecated argument (nil: omitted)
func fullQuery(inc *bool, asVar bool, typenames bool) *operation {
	tn := func(s []sel) []sel {
		if typenames {
			return append([]sel{{Name: "__typename"}}, s...)
		}
		return s
	}
	inputValue := tn([]sel{{Name: "name"}, {Name: "description"}, {Name: "type", Sub: []sel{{Frag: "TypeRef"}}}, {Name: "defaultValue"}, {Name: "isDeprecated"}, {Name: "deprecationReason"}})
	fullType := tn([]sel{{Name: "kind"}, {Name: "name"}, {Name: "description"}, {Name: "specifiedByURL"},
		{Name: "fields", Inc: inc, IncVar: asVar, Sub: tn([]sel{{Name: "name"}, {Name: "description"},
			{Name: "args", Inc: inc, IncVar: asVar, Sub: []sel{{Frag: "InputValue"}}},
			{Name: "type", Sub: []sel{{Frag: "TypeRef"}}}, {Name: "isDeprecated"}, {Name: "deprecationReason"}})},
		{Name: "inputFields", Inc: inc, IncVar: asVar, Sub: []sel{{Frag: "InputValue"}}},
		{Name: "interfaces", Sub: []sel{{Frag: "TypeRef"}}},
		{Name: "enumValues", Inc: inc, IncVar: asVar, Sub: tn([]sel{{Name: "name"}, {Name: "description"}, {Name: "isDeprecated"}, {Name: "deprecationReason"}})},
		{Name: "possibleTypes", Sub: []sel{{Frag: "TypeRef"}}}})
	op := &operation{Frags: map[string][]sel{"FullType": fullType, "InputValue": inputValue, "TypeRef": typeRefSel(7)}}
	op.Root = []sel{{Name: "__schema", Sub: tn([]sel{
		{Name: "queryType", Sub: []sel{{Name: "name"}}},
		{Name: "mutationType", Sub: []sel{{Name: "name"}}},
		{Name: "subscriptionType", Sub: []sel{{Name: "name"}}},
		{Name: "types", Sub: []sel{{Frag: "FullType"}}},
		{Name: "directives", Sub: tn([]sel{{Name: "name"}, {Name: "description"}, {Name: "locations"}, {Name: "isRepeatable"},
			{Name: "args", Inc: inc, IncVar: asVar, Sub: []sel{{Frag: "InputValue"}}}})},
	})}}
	if asVar && inc != nil {
		op.Vars = map[string]bool{"inc": *inc}
	}
	return op
}

func typeQuery(names []string, inc *bool) *operation {
	op := &operation{Frags: map[string][]sel{"TypeRef": typeRefSel(4)}}
	for i, n := range names {
		op.Root = append(op.Root, sel{Name: "__type", Alias: fmt.Sprintf("t%d", i), Arg: n, Sub: []sel{
			{Name: "kind"}, {Name: "name"},
			{Name: "fields", Inc: inc, Sub: []sel{{Name: "name"}, {Name: "isDeprecated"}, {Name: "type", Sub: []sel{{Frag: "TypeRef"}}},
				{Name: "args", Inc: inc, Sub: []sel{{Name: "name"}, {Name: "defaultValue"}}}}},
			{Name: "enumValues", Inc: inc, Sub: []sel{{Name: "name"}, {Name: "deprecationReason"}}},
			{Name: "inputFields", Inc: inc, Sub: []sel{{Name: "name"}, {Name: "defaultValue"}, {Name: "type", Sub: []sel{{Frag: "TypeRef"}}}}},
			{Name: "interfaces", Sub: []sel{{Name: "name"}}},
			{Name: "possibleTypes", Sub: []sel{{Name: "name"}, {Name: "kind"}}},
			{Name: "ofType", Sub: []sel{{Name: "name"}}},
			{Name: "specifiedByURL"},
		}})
	}
	return op
}

// nested aliases (response names differ from field names below the root field)
func aliasQuery(typeName string) *operation {
	return &operation{Frags: map[string][]sel{}, Root: []sel{
		{Name: "__type", Alias: "t", Arg: typeName, Sub: []sel{{Name: "name", Alias: "n"}, {Name: "kind"},
			{Name: "fields", Alias: "fs", Inc: bp(true), Sub: []sel{{Name: "name", Alias: "fieldName"}}}}},
		{Name: "__schema", Sub: []sel{{Name: "queryType", Alias: "q", Sub: []sel{{Name: "name", Alias: "nn"}, {Name: "name"}}}}},
	}}
}

func printSel(sb *strings.Builder, ss []sel, indent string) {
	for _, s := range ss {
		if s.Frag != "" {
			sb.WriteString(indent + "..." + s.Frag + "\n")
			continue
		}
		sb.WriteString(indent)
		if s.Alias != "" {
			sb.WriteString(s.Alias + ": ")
		}
		sb.WriteString(s.Name)
		if s.Arg != "" {
			sb.WriteString("(name: " + fmt.Sprintf("%q", s.Arg) + ")")
		} else if s.Inc != nil {
			if s.IncVar {
				sb.WriteString("(includeDeprecated: $inc)")
			} else {
				sb.WriteString(fmt.Sprintf("(includeDeprecated: %v)", *s.Inc))
			}
		}
		if len(s.Sub) > 0 {
			sb.WriteString(" {\n")
			printSel(sb, s.Sub, indent+"  ")
			sb.WriteString(indent + "}")
		}
		sb.WriteString("\n")
	}
}

func (op *operation) text() string {
	var sb strings.Builder
	sb.WriteString("query Q")
	if op.Vars != nil {
		sb.WriteString("($inc: Boolean)")
	}
	sb.WriteString(" {\n")
	printSel(&sb, op.Root, "  ")
	sb.WriteString("}\n")
	for _, n := range []string{"FullType", "InputValue", "TypeRef"} {
		if f, ok := op.Frags[n]; ok && strings.Contains(sb.String(), "..."+n) {
			sb.WriteString("fragment " + n + " on " + fragTypes[n] + " {\n")
			printSel(&sb, f, "  ")
			sb.WriteString("}\n")
		}
	}
	// fragments used only by other fragments
	for _, n := range []string{"InputValue", "TypeRef"} {
		if f, ok := op.Frags[n]; ok && !strings.Contains(sb.String(), "fragment "+n+" ") && strings.Contains(sb.String(), "..."+n) {
			sb.WriteString("fragment " + n + " on " + fragTypes[n] + " {\n")
			printSel(&sb, f, "  ")
			sb.WriteString("}\n")
		}
	}
	return sb.String()
}

var filtered = map[string]map[string]bool{
	"__Type":      {"fields": true, "enumValues": true, "inputFields": true},
	"__Field":     {"args": true},
	"__Directive": {"args": true},
}

func (op *operation) project(v any, ss []sel, out map[string]any) {
	obj, _ := v.(map[string]any)
	parentType, _ := obj["__typename"].(string)
	for _, s := range ss {
		if s.Frag != "" {
			op.project(v, op.Frags[s.Frag], out)
			continue
		}
		key := s.Name
		if s.Alias != "" {
			key = s.Alias
		}
		val, present := obj[s.Name]
		if !present {
			val = nil
		}
		if len(s.Sub) == 0 {
			out[key] = val
			continue
		}
		switch x := val.(type) {
		case nil:
			out[key] = nil
		case []any:
			items := []any{}
			for _, e := range x {
				if filtered[parentType][s.Name] {
					em, _ := e.(map[string]any)
					dep, _ := em["isDeprecated"].(bool)
					if dep && (s.Inc == nil || !*s.Inc) {
						continue
					}
				}
				m := map[string]any{}
				op.project(e, s.Sub, m)
				items = append(items, m)
			}
			out[key] = items
		default:
			m := map[string]any{}
			op.project(x, s.Sub, m)
			out[key] = m
		}
	}
}

func (op *operation) expected(data map[string]any) map[string]any {
	out := map[string]any{}
	schema, _ := data["__schema"].(map[string]any)
	for _, s := range op.Root {
		key := s.Name
		if s.Alias != "" {
			key = s.Alias
		}
		switch s.Name {
		case "__schema":
			m := map[string]any{}
			op.project(schema, s.Sub, m)
			out[key] = m
		case "__type":
			var found any
			types, _ := schema["types"].([]any)
			for _, t := range types { // Schema.TypeByName: the last type of that name
				if tm, ok := t.(map[string]any); ok && tm["name"] == s.Arg {
					found = t
				}
			}
			if found == nil {
				out[key] = nil
			} else {
				m := map[string]any{}
				op.project(found, s.Sub, m)
				out[key] = m
			}
		}
	}
	return out
}

func firstDiff(path string, a, b any) string {
	if reflect.DeepEqual(a, b) {
		return ""
	}
	switch x := a.(type) {
	case map[string]any:
		y, ok := b.(map[string]any)
		if !ok {
			return fmt.Sprintf("%s: engine=%T expected=%T", path, a, b)
		}
		for k, v := range x {
			w, ok := y[k]
			if !ok {
				return fmt.Sprintf("%s.%s: only in engine", path, k)
			}
			if d := firstDiff(path+"."+k, v, w); d != "" {
				return d
			}
		}
		for k := range y {
			if _, ok := x[k]; !ok {
				return fmt.Sprintf("%s.%s: missing in engine", path, k)
			}
		}
	case []any:
		y, ok := b.([]any)
		if !ok {
			return fmt.Sprintf("%s: engine=list expected=%T", path, b)
		}
		if len(x) != len(y) {
			names := func(l []any) string {
				var ns []string
				for _, e := range l {
					if m, ok := e.(map[string]any); ok {
						ns = append(ns, fmt.Sprint(m["name"]))
					}
				}
				return strings.Join(ns, ",")
			}
			return fmt.Sprintf("%s: engine has %d items [%s], expected %d [%s]", path, len(x), names(x), len(y), names(y))
		}
		for i := range x {
			if d := firstDiff(fmt.Sprintf("%s[%d]", path, i), x[i], y[i]); d != "" {
				return d
			}
		}
	}
	ja, _ := json.Marshal(a)
	jb, _ := json.Marshal(b)
	if len(ja) > 80 {
		ja = ja[:80]
	}
	if len(jb) > 80 {
		jb = jb[:80]
	}
	return fmt.Sprintf("%s: engine=%s expected=%s", path, ja, jb)
}

func engineCheck(sdl string, res *result, r *common.Rand) (verdict string) {
	defer func() {
		if p := recover(); p != nil {
			verdict = common.L("mismatch", common.QS(fmt.Sprintf("panic: %v", p)))
		}
	}()
	schema, err := graphql.NewSchemaFromString(sdl)
	if err != nil {
		return common.L("skipped", common.QS("schema: "+err.Error()))
	}
	ctx, cancel := context.WithCancel(context.Background())
	defer cancel()
	eng, err := engine.NewExecutionEngine(ctx, abstractlogger.NoopLogger, engine.NewConfiguration(schema), resolve.ResolverOptions{MaxConcurrency: 8})
	if err != nil {
		return common.L("mismatch", common.QS("engine construction failed although the generator succeeded: "+err.Error()))
	}
	var data map[string]any
	if err := json.Unmarshal(res.json, &data); err != nil {
		return common.L("skipped", common.QS("json"))
	}
	// operations: the standard query (includeDeprecated true), one of its variants, and __type lookups
	ops := []*operation{fullQuery(bp(true), false, false)}
	variant := ""
	switch r.Pick(4) {
	case 0:
		ops = append(ops, fullQuery(nil, false, true))
		variant = "full-default"
	case 1:
		ops = append(ops, fullQuery(bp(false), false, false))
		variant = "full-literal-false"
	case 2:
		ops = append(ops, fullQuery(bp(true), true, true))
		variant = "full-variable-true"
	case 3:
		ops = append(ops, fullQuery(bp(false), true, false))
		variant = "full-variable-false"
	}
	var names []string
	types, _ := data["__schema"].(map[string]any)["types"].([]any)
	for i := 0; i < 3 && len(types) > 0; i++ {
		names = append(names, fmt.Sprint(types[r.Pick(len(types))].(map[string]any)["name"]))
	}
	names = append(names, "NoSuchType", "__Type")
	incs := []*bool{nil, bp(true), bp(false)}
	ops = append(ops, typeQuery(names, incs[r.Pick(3)]))
	kinds := []string{"full", variant, "types", "alias"}
	ops = append(ops, aliasQuery(names[0]))
	var fails []string
	for i, op := range ops {
		fail := func(m string) { fails = append(fails, common.L("mismatch", common.QS("op="+kinds[i]+" "+m))) }
		req := graphql.Request{OperationName: "Q", Query: op.text()}
		if op.Vars != nil {
			vb, _ := json.Marshal(op.Vars)
			req.Variables = vb
		}
		w := graphql.NewEngineResultWriter()
		if err := eng.Execute(ctx, &req, &w); err != nil {
			fail(fmt.Sprintf("execute error: %v", err))
			continue
		}
		var resp map[string]any
		if err := json.Unmarshal(w.Bytes(), &resp); err != nil {
			fail("response is not JSON")
			continue
		}
		if e, ok := resp["errors"]; ok && e != nil {
			eb, _ := json.Marshal(e)
			if len(eb) > 200 {
				eb = eb[:200]
			}
			fail(fmt.Sprintf("errors %s", eb))
			continue
		}
		if d := firstDiff("data", resp["data"], any(op.expected(data))); d != "" {
			fail(d)
		}
	}
	if len(fails) == 0 {
		return "ok"
	}
	return strings.Join(fails, " ")
}

// engineRun executes one operation text and returns the raw response (probe helper)
func engineRun(sdl, query, vars string) string {
	schema, err := graphql.NewSchemaFromString(sdl)
	if err != nil {
		return "schema: " + err.Error()
	}
	ctx, cancel := context.WithCancel(context.Background())
	defer cancel()
	eng, err := engine.NewExecutionEngine(ctx, abstractlogger.NoopLogger, engine.NewConfiguration(schema), resolve.ResolverOptions{MaxConcurrency: 8})
	if err != nil {
		return "engine: " + err.Error()
	}
	req := graphql.Request{Query: query}
	if vars != "" {
		req.Variables = []byte(vars)
	}
	w := graphql.NewEngineResultWriter()
	if err := eng.Execute(ctx, &req, &w); err != nil {
		return "execute: " + err.Error()
	}
	return w.String()
}
