package main

import (
	"gvh/common"
)

func engineCheck(sdl string, res *result, r *common.Rand) string {
	return common.L("skipped", common.QS("todo"))
}
