package main

import (
	"bytes"
	"context"
	"fmt"
	"io"
	"net/http"
	"os"

	"github.com/jensneuse/abstractlogger"

	"github.com/wundergraph/graphql-go-tools/execution/engine"
	"github.com/wundergraph/graphql-go-tools/execution/graphql"
	"github.com/wundergraph/graphql-go-tools/v2/pkg/engine/datasource/graphql_datasource"
	"github.com/wundergraph/graphql-go-tools/v2/pkg/engine/plan"
	"github.com/wundergraph/graphql-go-tools/v2/pkg/engine/resolve"
)

const schemaSDL = `
scalar Any
enum Color { RED GREEN BLUE }
input In { s: String, i: Int, f: Float, b: Boolean, e: Color, l: [String], n: In, any: Any, li: [In], ll: [[Int]] }
type Query { f(a: Any, s: String, i: In, l: [In], x: Int, y: Int): String g(a: Any, b: Any): String }
schema { query: Query }
`

type rt struct{ bodies [][]byte }

func (r *rt) RoundTrip(req *http.Request) (*http.Response, error) {
	var b []byte
	if req.Body != nil {
		b, _ = io.ReadAll(req.Body)
	}
	r.bodies = append(r.bodies, b)
	return &http.Response{StatusCode: 200, Header: http.Header{"Content-Type": []string{"application/json"}},
		Body: io.NopCloser(bytes.NewBufferString(`{"data":{"f":"ok","g":"ok"}}`))}, nil
}

func main() {
	schema, err := graphql.NewSchemaFromString(schemaSDL)
	if err != nil {
		panic(err)
	}
	tr := &rt{}
	client := &http.Client{Transport: tr}
	ctx := context.Background()
	factory, err := graphql_datasource.NewFactory(ctx, client, graphql_datasource.NewGraphQLSubscriptionClient(ctx,
		graphql_datasource.WithUpgradeClient(client), graphql_datasource.WithStreamingClient(client)))
	if err != nil {
		panic(err)
	}
	sc, err := graphql_datasource.NewSchemaConfiguration(schemaSDL, nil)
	if err != nil {
		panic(err)
	}
	cc, err := graphql_datasource.NewConfiguration(graphql_datasource.ConfigurationInput{
		Fetch:               &graphql_datasource.FetchConfiguration{URL: "https://example.com/", Method: "POST"},
		SchemaConfiguration: sc,
	})
	if err != nil {
		panic(err)
	}
	ds, err := plan.NewDataSourceConfiguration[graphql_datasource.Configuration]("id", factory,
		&plan.DataSourceMetadata{RootNodes: []plan.TypeField{{TypeName: "Query", FieldNames: []string{"f", "g"}}}}, cc)
	if err != nil {
		panic(err)
	}
	conf := engine.NewConfiguration(schema)
	conf.SetDataSources([]plan.DataSource{ds})
	args := func(names ...string) []plan.ArgumentConfiguration {
		var out []plan.ArgumentConfiguration
		for _, n := range names {
			out = append(out, plan.ArgumentConfiguration{Name: n, SourceType: plan.FieldArgumentSource, RenderConfig: plan.RenderArgumentAsGraphQLValue})
		}
		return out
	}
	conf.SetFieldConfigurations(plan.FieldConfigurations{
		{TypeName: "Query", FieldName: "f", Path: []string{"f"}, Arguments: args("a", "s", "i", "l", "x", "y")},
		{TypeName: "Query", FieldName: "g", Path: []string{"g"}, Arguments: args("a", "b")},
	})
	eng, err := engine.NewExecutionEngine(ctx, abstractlogger.Noop{}, conf, resolve.ResolverOptions{MaxConcurrency: 16})
	if err != nil {
		panic(err)
	}
	for i := 1; i+1 < len(os.Args); i += 2 {
		q, v := os.Args[i], os.Args[i+1]
		fmt.Printf("== %q vars=%q\n", q, v)
		req := graphql.Request{Query: q}
		if v != "" {
			req.Variables = []byte(v)
		}
		tr.bodies = nil
		w := graphql.NewEngineResultWriter()
		err := eng.Execute(ctx, &req, &w)
		fmt.Printf("err=%v resp=%s\n", err, w.String())
		fmt.Printf("norm vars=%q\n", req.Variables)
		for _, b := range tr.bodies {
			fmt.Printf("upstream: %s\n", b)
		}
	}
}
