// c11: runs the real single-flight code of v2/pkg/engine/resolve under a cooperative scheduler
// and prints, per schedule, the trace of (command, status changes) and the per-actor outcomes.
//
// Modes
//
//	inb     InboundRequestSingleFlight through a replica of the caller logic of
//	        Resolver.ArenaResolveGraphQLResponse (GetOrCreate / Data != nil => follower / FinishOk / FinishErr)
//	inbe2e  Resolver.ArenaResolveGraphQLResponse itself, subgraph de-duplication disabled,
//	        one fetch whose DataSource is a gate controlled by the scheduler
//	sube2e  SubgraphRequestSingleFlight through Loader.loadByContext, reached through
//	        Resolver.ArenaResolveGraphQLResponse with inbound de-duplication disabled
//
// Every actor is a goroutine wrapped in a recover (the request boundary: what net/http does for every
// handler).  It parks at the verif yield points (resolve.SetVerifYield), at the gate (its own work /
// DataSource.Load: answered with bytes, an error, or a PANIC on the actor's goroutine) and, in the two
// inbound modes, inside the Write of its own client writer (answered with ok, with the writer's own error,
// or with a panic) until the scheduler releases it; "blocked in the select of
// GetOrCreate / loadByContext" is read off the goroutine's wait state.  Between two commands of the
// scheduler at most the released actor and the actors it wakes run.
package main

import (
	"bytes"
	"context"
	"errors"
	"fmt"
	"net/http"
	"os"
	"reflect"
	"runtime"
	"strconv"
	"strings"
	"sync"
	"sync/atomic"
	"time"
	"unsafe"

	"gvh/common"

	"github.com/wundergraph/graphql-go-tools/v2/pkg/ast"
	"github.com/wundergraph/graphql-go-tools/v2/pkg/engine/datasource/httpclient"
	"github.com/wundergraph/graphql-go-tools/v2/pkg/engine/resolve"
)

// ---------------------------------------------------------------- requests

type reqSpec struct {
	key   int    // abstract key; mapped to the key ingredients by keyParts
	op    string // query | mutation | subscription
	dedup bool
	ok    []byte
	fail  []byte
	can   []byte
}

func (r reqSpec) elig() bool { return r.op == "query" && r.dedup }

// the three ingredients of a key; neighbouring abstract keys differ in exactly one of them
func keyParts(k int) (a, b, c int) {
	switch k % 4 {
	case 0:
		return 1, 1, 1
	case 1:
		return 2, 1, 1
	case 2:
		return 1, 2, 1
	default:
		return 1, 1, 2
	}
}

func okBody(tag string) []byte { return []byte(`{"data":{"field":"` + tag + `"}}`) }

func mkReq(i int, key int, op string, dedup bool, failBody []byte) reqSpec {
	tag := "k" + strconv.Itoa(key)
	if op != "query" {
		tag = op[:1] + strconv.Itoa(i) // a mutation's result is its own
	}
	return reqSpec{key: key, op: op, dedup: dedup, ok: okBody(tag), fail: failBody, can: failBody}
}

// ---------------------------------------------------------------- errors, contexts

type upErr struct{ id int }

func (e upErr) Error() string { return fmt.Sprintf("upstream failure of work %d", e.id) }

type ctxErr struct{ id int }

func (e ctxErr) Error() string        { return fmt.Sprintf("context of actor %d canceled", e.id) }
func (e ctxErr) Is(target error) bool { return target == context.Canceled }

// wrErr is the failure of actor id's own client writer (broken pipe, write deadline, stream reset ...)
type wrErr struct{ id int }

func (e wrErr) Error() string { return fmt.Sprintf("write to the client of actor %d: broken pipe", e.id) }

// injected is the value of a panic that the scheduler injected into actor id's own work or own writer
type injected struct{ id int }

type actorKey struct{}

// actorCtx reports its own cancellation with an error that names the actor
type actorCtx struct {
	context.Context
	id int
}

func (c *actorCtx) Err() error {
	if c.Context.Err() != nil {
		return ctxErr{c.id}
	}
	return nil
}

func classify(err error) string {
	var u upErr
	if errors.As(err, &u) {
		return common.L("err", "up", common.I(u.id))
	}
	var c ctxErr
	if errors.As(err, &c) {
		return common.L("err", "ctx", common.I(c.id))
	}
	return common.L("err", "other", common.QS(err.Error()))
}

// outcome of a call that handed out to the actor's own writer and returned err
func (a *actor) outcome(err error) string {
	if a.mutated {
		return common.L("err", "other", common.QS("the buffer handed to the writer changed while the writer was parked"))
	}
	var w wrErr
	if errors.As(err, &w) {
		return common.L("wrerr", common.I(w.id), common.Q(a.out.Bytes()))
	}
	if err != nil {
		return classify(err)
	}
	return common.L("wrote", common.Q(a.out.Bytes()))
}

// ---------------------------------------------------------------- actors and scheduler

const (
	stNew int32 = iota
	stRunning
	stParked
	stDone
)

type answer struct {
	kind string // ok failbody canbody errup errctx
}

type actor struct {
	id       int
	req      reqSpec
	goid     atomic.Uint64
	state    atomic.Int32
	point    atomic.Value // string, valid while parked
	resume   chan answer
	ctx      *actorCtx
	cancel   context.CancelFunc
	canceled bool
	executed bool   // its own work / Load was entered
	ans      string // how the own work was answered
	out      bytes.Buffer
	wrote    bool   // the own client writer was called
	wr       string // how the Write on the own writer was answered
	mutated  bool   // the slice handed to Write changed while the writer was parked
	result   string // S-expression of the outcome once done
	shared   bool
	loadRes  string // sube2e: outcome seen by OnFinished
	lastSeen string // last status reported in the trace
}

type sched struct {
	mode   string
	actors []*actor
	byGoid sync.Map // goid -> *actor
	nonce  int
	res    *resolve.Resolver
	sf     *resolve.InboundRequestSingleFlight
	note   []string
	reg0   int // table entries before the schedule started
}

func curGoid() uint64 {
	var buf [64]byte
	n := runtime.Stack(buf[:], false)
	// "goroutine 123 [running]:"
	s := string(buf[:n])
	s = strings.TrimPrefix(s, "goroutine ")
	i := strings.IndexByte(s, ' ')
	if i < 0 {
		return 0
	}
	id, _ := strconv.ParseUint(s[:i], 10, 64)
	return id
}

var stackBuf = make([]byte, 1<<20)

// goroutine wait states by id
func goStates() map[uint64]string {
	n := runtime.Stack(stackBuf, true)
	m := map[uint64]string{}
	s := stackBuf[:n]
	for len(s) > 0 {
		i := bytes.Index(s, []byte("goroutine "))
		if i < 0 {
			break
		}
		if i > 0 && s[i-1] != '\n' {
			s = s[i+10:]
			continue
		}
		s = s[i+10:]
		j := bytes.IndexByte(s, ' ')
		if j < 0 {
			break
		}
		id, err := strconv.ParseUint(string(s[:j]), 10, 64)
		if err != nil {
			continue
		}
		k := bytes.IndexByte(s, ']')
		if k < 0 || j+2 > k {
			break
		}
		m[id] = string(s[j+2 : k])
		s = s[k:]
	}
	return m
}

var curSched atomic.Pointer[sched] // the schedule being executed (schedules run one at a time)

func (a *actor) park(point string) answer {
	a.point.Store(point)
	a.state.Store(stParked)
	ans := <-a.resume
	return ans
}

func yieldHook(point string) {
	s := curSched.Load()
	if s == nil {
		return
	}
	v, ok := s.byGoid.Load(curGoid())
	if !ok {
		return
	}
	a := v.(*actor)
	var p string
	switch point {
	case "c11.inbound.after_loadorstore", "c11.subgraph.after_loadorstore":
		p = "y1"
	case "c11.inbound.finishok.before_close":
		p = "y2"
	case "c11.subgraph.finish.before_close":
		p = "y3"
	default:
		return
	}
	if (s.mode == "sube2e") != strings.HasPrefix(point, "c11.subgraph") {
		return // the other table's points are not scheduled in this mode
	}
	a.park(p)
	a.state.Store(stRunning)
}

// gate: the actor's own work.  Returns bytes or an error as the scheduler decides.
func (s *sched) gate(a *actor, name string) ([]byte, error) {
	a.executed = true
	ans := a.park(name)
	a.state.Store(stRunning)
	a.ans = ans.kind
	switch ans.kind {
	case "ok":
		return a.req.ok, nil
	case "failbody":
		return a.req.fail, nil
	case "canbody":
		return a.req.can, nil
	case "errup":
		return nil, upErr{a.id}
	case "errctx":
		return nil, a.ctx.Err()
	case "panic":
		panic(injected{a.id})
	}
	panic("bad answer " + ans.kind)
}

// gatedWriter is the actor's own client writer: every Write parks inside the call
type gatedWriter struct {
	s *sched
	a *actor
}

func (w gatedWriter) Write(p []byte) (int, error) {
	a := w.a
	if g := curGoid(); g != a.goid.Load() {
		w.s.byGoid.Store(g, a)
		a.goid.Store(g)
	}
	a.wrote = true
	a.out.Write(p)
	snap := append([]byte(nil), p...)
	ans := a.park("write")
	a.state.Store(stRunning)
	a.wr = ans.kind
	if !bytes.Equal(snap, p) {
		a.mutated = true
	}
	switch ans.kind {
	case "ok":
		return len(p), nil
	case "fail":
		return 0, wrErr{a.id}
	case "panic":
		panic(injected{a.id})
	}
	panic("bad write answer " + ans.kind)
}

// ---------------------------------------------------------------- the tables' sizes (no accessor: reflection)

func syncMapLen(v reflect.Value) int {
	m := (*sync.Map)(unsafe.Pointer(v.UnsafeAddr()))
	n := 0
	m.Range(func(_, _ any) bool { n++; return true })
	return n
}

func shardsLen(table reflect.Value, field string) int {
	n := 0
	sh := table.Elem().FieldByName("shards")
	for i := 0; i < sh.Len(); i++ {
		n += syncMapLen(sh.Index(i).FieldByName(field))
	}
	return n
}

// registered returns the number of keys in the single-flight table that the mode exercises
func (s *sched) registered() int {
	switch s.mode {
	case "inb":
		return shardsLen(reflect.ValueOf(s.sf), "m")
	case "inbe2e":
		return shardsLen(reflect.ValueOf(s.res).Elem().FieldByName("inboundRequestSingleFlight"), "m")
	default:
		return shardsLen(reflect.ValueOf(s.res).Elem().FieldByName("subgraphRequestSingleFlight"), "items")
	}
}

type gatedDS struct{}

func (gatedDS) Load(ctx context.Context, headers http.Header, input []byte) ([]byte, error) {
	s := curSched.Load()
	id, _ := ctx.Value(actorKey{}).(int)
	a := s.actors[id]
	if g := curGoid(); g != a.goid.Load() {
		// the fetch runs on another goroutine than the actor's: follow it
		s.byGoid.Store(g, a)
		a.goid.Store(g)
	}
	name := "work"
	if s.mode == "sube2e" {
		name = "load"
	}
	data, err := s.gate(a, name)
	// end to end a failure body is what the engine renders for a failed load
	switch a.ans {
	case "failbody":
		return nil, upErr{a.id}
	case "canbody":
		return nil, a.ctx.Err()
	}
	return data, err
}
func (d gatedDS) LoadWithFiles(ctx context.Context, headers http.Header, input []byte, files []*httpclient.FileUpload) ([]byte, error) {
	return d.Load(ctx, headers, input)
}

type hdrBuilder struct{ h uint64 }

func (b hdrBuilder) HeadersForSubgraph(string) (http.Header, uint64) { return nil, b.h }
func (b hdrBuilder) HashAll() uint64                                { return b.h }

type hooks struct{ s *sched }

func (h hooks) OnLoad(ctx context.Context, ds resolve.DataSourceInfo) context.Context { return ctx }
func (h hooks) OnFinished(ctx context.Context, ds resolve.DataSourceInfo, info *resolve.ResponseInfo) {
	id, ok := ctx.Value(actorKey{}).(int)
	if !ok {
		return
	}
	a := h.s.actors[id]
	var se *resolve.SubgraphError
	if info.Err != nil {
		a.loadRes = classify(info.Err)
		if strings.HasPrefix(a.loadRes, "(err other") && errors.As(info.Err, &se) && se.Reason == "empty response" &&
			info.GetResponseBody() == "" {
			// loadByContext returned neither bytes nor an error (res.out = nil, res.err = nil): the loader reports that
			// as an "empty response" of the subgraph
			a.loadRes = common.L("wrote", common.QS(""))
		}
	} else {
		a.loadRes = common.L("wrote", common.QS(info.GetResponseBody()))
	}
}

func opType(op string) ast.OperationType {
	switch op {
	case "mutation":
		return ast.OperationTypeMutation
	case "subscription":
		return ast.OperationTypeSubscription
	}
	return ast.OperationTypeQuery
}

func (s *sched) response(a *actor) *resolve.GraphQLResponse {
	rootOp, fetchOp := ast.OperationTypeQuery, ast.OperationTypeQuery
	dsID, input := "ds", `{"q":1,"n":`+strconv.Itoa(s.nonce)+`}`
	if s.mode == "inbe2e" {
		rootOp = opType(a.req.op)
	} else {
		fetchOp = opType(a.req.op)
		k1, k2, _ := keyParts(a.req.key)
		dsID = "ds" + strconv.Itoa(k1) + "-" + strconv.Itoa(s.nonce) // a fresh fetchKey per schedule: the size-hint table is cold
		input = `{"q":` + strconv.Itoa(k2) + `,"n":` + strconv.Itoa(s.nonce) + `}`
	}
	fetch := &resolve.SingleFetch{
		FetchConfiguration: resolve.FetchConfiguration{
			DataSource: gatedDS{},
			Input:      input,
			PostProcessing: resolve.PostProcessingConfiguration{
				SelectResponseDataPath:   []string{"data"},
				SelectResponseErrorsPath: []string{"errors"},
			},
		},
		InputTemplate: resolve.InputTemplate{Segments: []resolve.TemplateSegment{{SegmentType: resolve.StaticSegmentType, Data: []byte(input)}}},
		Info: &resolve.FetchInfo{DataSourceID: dsID, DataSourceName: "svc", OperationType: fetchOp,
			RootFields: []resolve.GraphCoordinate{{TypeName: "Query", FieldName: "field"}}},
	}
	return &resolve.GraphQLResponse{
		Fetches: resolve.SingleWithPath(fetch, "query"),
		Data: &resolve.Object{Nullable: true, Fields: []*resolve.Field{{Name: []byte("field"),
			Value: &resolve.String{Path: []string{"field"}, Nullable: true}}}},
		Info: &resolve.GraphQLResponseInfo{OperationType: rootOp},
	}
}

func (s *sched) resolveCtx(a *actor) *resolve.Context {
	c := resolve.NewContext(a.ctx)
	k1, k2, k3 := keyParts(a.req.key)
	switch s.mode {
	case "inb", "inbe2e":
		c.Request.ID = uint64(s.nonce)*16 + uint64(k1)
		c.VariablesHash = uint64(k2)
		c.SubgraphHeadersBuilder = hdrBuilder{uint64(k3)}
		c.ExecutionOptions.DisableInboundRequestDeduplication = !a.req.dedup
		c.ExecutionOptions.DisableSubgraphRequestDeduplication = true
	case "sube2e":
		c.Request.ID = uint64(s.nonce)*16 + uint64(a.id) + 1
		if k3 != 1 {
			c.SubgraphHeadersBuilder = hdrBuilder{uint64(k3)}
		}
		c.ExecutionOptions.DisableInboundRequestDeduplication = true
		c.ExecutionOptions.DisableSubgraphRequestDeduplication = !a.req.dedup
		c.LoaderHooks = hooks{s}
	}
	return c
}

// the body of one actor
func (s *sched) runActor(a *actor) {
	defer func() {
		// the request boundary: a panic ends this request only
		if r := recover(); r != nil {
			if in, ok := r.(injected); ok && in.id == a.id {
				a.result = "(crash)"
			} else {
				a.result = common.L("panic", common.QS(fmt.Sprint(r)))
			}
		}
		a.state.Store(stDone)
	}()
	g := curGoid()
	a.goid.Store(g)
	s.byGoid.Store(g, a)
	a.state.Store(stRunning)
	w := gatedWriter{s, a}
	switch s.mode {
	case "inb":
		// replica of the caller logic of Resolver.ArenaResolveGraphQLResponse
		c := s.resolveCtx(a)
		response := &resolve.GraphQLResponse{Info: &resolve.GraphQLResponseInfo{OperationType: opType(a.req.op)}}
		inflight, err := s.sf.GetOrCreate(c, response)
		if err != nil {
			a.result = classify(err)
			return
		}
		if inflight != nil && inflight.Data != nil { // follower
			_, err = w.Write(inflight.Data)
			a.shared = true // what the real caller reports through the returned info (ResolveDeduplicated)
			a.result = a.outcome(err)
			return
		}
		defer s.sf.Abandon(inflight)
		data, err := s.gate(a, "work")
		if err != nil {
			s.sf.FinishErr(inflight, err)
			a.result = classify(err)
			return
		}
		_, err = w.Write(data)
		a.result = a.outcome(err)
		s.sf.FinishOk(inflight, data)
	case "inbe2e":
		c := s.resolveCtx(a)
		info, err := s.res.ArenaResolveGraphQLResponse(c, s.response(a), w)
		a.shared = info != nil && info.ResolveDeduplicated
		a.result = a.outcome(err)
	case "sube2e":
		c := s.resolveCtx(a)
		_, err := s.res.ArenaResolveGraphQLResponse(c, s.response(a), &a.out)
		switch {
		case a.loadRes != "":
			a.result = a.loadRes
			a.shared = !a.executed && strings.HasPrefix(a.loadRes, "(wrote")
		case err != nil:
			a.result = common.L("err", "other", common.QS("resolve: "+err.Error()))
		default:
			a.result = common.L("err", "other", common.QS("OnFinished not called; body "+a.out.String()))
		}
	}
}

func (a *actor) status(states map[uint64]string) (string, bool) {
	switch a.state.Load() {
	case stNew:
		return "new", true
	case stParked:
		return common.L("at", a.point.Load().(string)), true
	case stDone:
		return common.L("ret", a.result), true
	}
	if states != nil {
		if st, ok := states[a.goid.Load()]; ok && strings.HasPrefix(st, "select") {
			return "blocked", true
		}
	}
	return "", false
}

// settle waits until every actor is parked, blocked in a select, or done.
func (s *sched) settle() []string {
	deadline := time.Now().Add(5 * time.Second)
	spins := 0
	for {
		var states map[uint64]string
		if spins > 20 {
			states = goStates()
		}
		all := true
		out := make([]string, len(s.actors))
		for i, a := range s.actors {
			st, ok := a.status(states)
			if !ok {
				all = false
				break
			}
			out[i] = st
		}
		if all && states != nil {
			// confirm "blocked" verdicts on a second look
			blocked := false
			for _, st := range out {
				if st == "blocked" {
					blocked = true
				}
			}
			if blocked {
				runtime.Gosched()
				states2 := goStates()
				for i, a := range s.actors {
					st, ok := a.status(states2)
					if !ok || st != out[i] {
						all = false
					}
				}
			}
		}
		if all {
			return out
		}
		spins++
		if spins < 200 {
			runtime.Gosched()
		} else {
			time.Sleep(20 * time.Microsecond)
		}
		if time.Now().After(deadline) {
			st := goStates()
			for i, a := range s.actors {
				if v, ok := a.status(st); ok {
					out[i] = v
				} else {
					out[i] = common.L("stuck", common.QS(st[a.goid.Load()]))
				}
			}
			return out
		}
	}
}

type cmd struct {
	op   string // start rel ans wr cancel
	i    int
	kind string
}

func (c cmd) String() string {
	if c.op == "ans" || c.op == "wr" {
		return common.L(c.op, common.I(c.i), c.kind)
	}
	return common.L(c.op, common.I(c.i))
}

type genOpts struct {
	plan      []string // per actor planned answer kind (exhaustive) or nil (all kinds offered)
	wplan     []string // per actor planned answer of its own writer (nil with plan != nil: ok)
	cancelMax int
}

var writeAnswers = []string{"ok", "fail", "panic"}

func answersFor(mode string) []string {
	switch mode {
	case "inb":
		return []string{"ok", "failbody", "errup"}
	case "inbe2e":
		return []string{"ok", "failbody"}
	default:
		return []string{"ok", "errup"}
	}
}

func ctxVariant(mode, kind string) string {
	switch mode {
	case "inb":
		if kind == "errup" {
			return "errctx"
		}
		return "canbody"
	case "inbe2e":
		return "canbody"
	default:
		return "errctx"
	}
}

func (s *sched) options(st []string, o genOpts, cancels int) []cmd {
	var opts []cmd
	for i, a := range s.actors {
		switch {
		case st[i] == "new":
			opts = append(opts, cmd{"start", i, ""})
		case st[i] == "(at work)" || st[i] == "(at load)":
			var kinds []string
			if o.plan != nil {
				kinds = []string{o.plan[i]}
			} else {
				kinds = append(answersFor(s.mode), "panic")
			}
			seen := map[string]bool{}
			for _, k := range kinds {
				if !seen[k] {
					seen[k] = true
					opts = append(opts, cmd{"ans", i, k})
				}
				if a.canceled && k != "panic" {
					v := ctxVariant(s.mode, k)
					if !seen[v] {
						seen[v] = true
						opts = append(opts, cmd{"ans", i, v})
					}
				}
			}
		case st[i] == "(at write)":
			switch {
			case o.wplan != nil:
				opts = append(opts, cmd{"wr", i, o.wplan[i]})
			case o.plan != nil:
				opts = append(opts, cmd{"wr", i, "ok"})
			default:
				for _, k := range writeAnswers {
					opts = append(opts, cmd{"wr", i, k})
				}
			}
		case strings.HasPrefix(st[i], "(at "):
			opts = append(opts, cmd{"rel", i, ""})
		}
	}
	if cancels < o.cancelMax {
		for i, a := range s.actors {
			if !a.canceled && !strings.HasPrefix(st[i], "(ret") {
				opts = append(opts, cmd{"cancel", i, ""})
			}
		}
	}
	return opts
}

func (s *sched) apply(c cmd) bool {
	a := s.actors[c.i]
	switch c.op {
	case "start":
		if a.state.Load() != stNew {
			return false
		}
		a.state.Store(stRunning)
		go s.runActor(a)
	case "rel":
		if a.state.Load() != stParked {
			return false
		}
		if p := a.point.Load().(string); p == "work" || p == "load" || p == "write" {
			return false
		}
		a.state.Store(stRunning)
		a.resume <- answer{}
	case "wr":
		if a.state.Load() != stParked || a.point.Load().(string) != "write" {
			return false
		}
		if c.kind != "ok" && c.kind != "fail" && c.kind != "panic" {
			return false
		}
		a.state.Store(stRunning)
		a.resume <- answer{c.kind}
	case "ans":
		if a.state.Load() != stParked {
			return false
		}
		if p := a.point.Load().(string); p != "work" && p != "load" {
			return false
		}
		if (c.kind == "canbody" || c.kind == "errctx") && !a.canceled {
			return false
		}
		a.state.Store(stRunning)
		a.resume <- answer{c.kind}
	case "cancel":
		if a.canceled {
			return false
		}
		a.canceled = true
		a.cancel()
	}
	return true
}

var (
	sharedResolver *resolve.Resolver
	nonceCounter   int
)

func newSched(mode string, reqs []reqSpec) *sched {
	nonceCounter++
	s := &sched{mode: mode, nonce: nonceCounter}
	if mode == "inb" {
		s.sf = resolve.NewRequestSingleFlight(1 + nonceCounter%3)
	} else {
		if sharedResolver == nil {
			sharedResolver = resolve.New(context.Background(), resolve.ResolverOptions{MaxConcurrency: 64, PropagateSubgraphErrors: true})
		}
		s.res = sharedResolver
	}
	for i, r := range reqs {
		base := context.WithValue(context.Background(), actorKey{}, i)
		cctx, cancel := context.WithCancel(base)
		a := &actor{id: i, req: r, resume: make(chan answer), ctx: &actorCtx{cctx, i}, cancel: cancel}
		s.actors = append(s.actors, a)
	}
	return s
}

// runSchedule executes one schedule; choose picks among the applicable commands (nil options = stop).
func runSchedule(mode string, reqs []reqSpec, o genOpts, choose func(opts []cmd) (cmd, bool)) string {
	s := newSched(mode, reqs)
	curSched.Store(s)
	defer func() {
		// never leave goroutines behind: cancel everything, release whoever is parked
		for _, a := range s.actors {
			a.cancel()
		}
		for k := 0; k < 50; k++ {
			busy := false
			for _, a := range s.actors {
				switch a.state.Load() {
				case stParked:
					busy = true
					a.state.Store(stRunning)
					p := a.point.Load().(string)
					if p == "work" || p == "load" || p == "write" {
						a.resume <- answer{"ok"}
					} else {
						a.resume <- answer{}
					}
				case stRunning:
					busy = true
				}
			}
			if !busy {
				break
			}
			time.Sleep(200 * time.Microsecond)
		}
		curSched.Store(nil)
	}()
	s.reg0 = s.registered()
	st := s.settle()
	for i, a := range s.actors {
		a.lastSeen = st[i]
	}
	var trace []string
	cancels := 0
	for steps := 0; steps < 200; steps++ {
		opts := s.options(st, o, cancels)
		if len(opts) == 0 {
			break
		}
		c, ok := choose(opts)
		if !ok {
			break
		}
		if !s.apply(c) {
			trace = append(trace, common.L("inapplicable", c.String()))
			break
		}
		if c.op == "cancel" {
			cancels++
		}
		st = s.settle()
		items := []string{c.String()}
		for i, a := range s.actors {
			if st[i] != a.lastSeen {
				items = append(items, common.L(common.I(i), st[i]))
				a.lastSeen = st[i]
			}
		}
		trace = append(trace, common.L(items...))
	}
	var rs, fin []string
	for _, r := range reqs {
		rs = append(rs, common.L(common.I(r.key), r.op, common.B(r.dedup), common.Q(r.ok), common.Q(r.fail), common.Q(r.can)))
	}
	for i, a := range s.actors {
		res := "none"
		if a.state.Load() == stDone {
			res = a.result
		}
		ans := "-"
		if a.executed && a.ans != "" {
			ans = a.ans
		}
		wr := "-"
		if a.wrote && a.wr != "" {
			wr = a.wr
		}
		fin = append(fin, common.L(common.I(i), res, common.B(a.shared), common.B(a.canceled), ans, wr))
	}
	// keys of this schedule that are still in the table now that nothing can move any more
	reg := s.registered() - s.reg0
	if reg < 0 {
		reg = 0
	}
	return common.L("c11", mode, common.L(append([]string{"reqs"}, rs...)...),
		common.L(append([]string{"trace"}, trace...)...), common.L(append([]string{"final"}, fin...)...),
		common.L("reg", common.I(reg)))
}

// ---------------------------------------------------------------- calibration of the failure body

func calibrate(mode string) []byte {
	if mode == "inb" {
		mode = "inbe2e"
	}
	r := resolve.New(context.Background(), resolve.ResolverOptions{MaxConcurrency: 4, PropagateSubgraphErrors: true})
	s := &sched{mode: mode, res: r}
	base := context.WithValue(context.Background(), actorKey{}, 0)
	cctx, cancel := context.WithCancel(base)
	defer cancel()
	a := &actor{id: 0, req: reqSpec{op: "query", dedup: false}, resume: make(chan answer, 1), ctx: &actorCtx{cctx, 0}, cancel: cancel}
	s.actors = []*actor{a}
	curSched.Store(s)
	defer curSched.Store(nil)
	a.resume <- answer{"errup"}
	var out bytes.Buffer
	if _, err := r.ArenaResolveGraphQLResponse(s.resolveCtx(a), s.response(a), &out); err != nil {
		panic(err)
	}
	return append([]byte(nil), out.Bytes()...)
}

// ---------------------------------------------------------------- generators

// stateless depth-first enumeration of all schedules of a request set
func enumerate(mode string, reqs []reqSpec, o genOpts, limit int, emit func(string)) int {
	var stack []int // chosen option index per step
	var widths []int
	n := 0
	for {
		step := 0
		widths = widths[:0]
		line := runSchedule(mode, reqs, o, func(opts []cmd) (cmd, bool) {
			pick := 0
			if step < len(stack) {
				pick = stack[step]
			} else {
				stack = append(stack, 0)
			}
			if pick >= len(opts) {
				pick = len(opts) - 1
			}
			widths = append(widths, len(opts))
			step++
			return opts[pick], true
		})
		emit(line)
		n++
		if limit > 0 && n >= limit {
			return n
		}
		stack = stack[:step]
		// advance to the next leaf
		for len(stack) > 0 {
			last := len(stack) - 1
			if stack[last]+1 < widths[last] {
				stack[last]++
				break
			}
			stack = stack[:last]
		}
		if len(stack) == 0 {
			return n
		}
	}
}

func randomReqs(r *common.Rand, n int, fail []byte) []reqSpec {
	reqs := make([]reqSpec, n)
	nkeys := 1 + r.Pick(2)
	for i := range reqs {
		key := r.Pick(nkeys)
		if r.Chance(1, 6) {
			key = r.Pick(4)
		}
		op := "query"
		switch r.Pick(10) {
		case 0:
			op = "mutation"
		case 1:
			op = "subscription"
		}
		reqs[i] = mkReq(i, key, op, !r.Chance(1, 10), fail)
	}
	return reqs
}

func randomSchedule(mode string, r *common.Rand, reqs []reqSpec) string {
	return runSchedule(mode, reqs, genOpts{cancelMax: 2}, func(opts []cmd) (cmd, bool) {
		// cancellations are rarer than progress
		// ... and so are failing writers and panics
		for tries := 0; tries < 4; tries++ {
			c := opts[r.Pick(len(opts))]
			rare := c.op == "cancel" || ((c.op == "wr" || c.op == "ans") && (c.kind == "fail" || c.kind == "panic"))
			if !rare || r.Chance(1, 3) {
				return c, true
			}
		}
		return opts[r.Pick(len(opts))], true
	})
}

// ---------------------------------------------------------------- replay of a given script

type sx struct {
	atom string
	str  bool
	list []sx
	isl  bool
}

func parseSx(s string) (sx, error) {
	pos := 0
	var item func() (sx, error)
	skip := func() {
		for pos < len(s) && (s[pos] == ' ' || s[pos] == '\t' || s[pos] == '\n') {
			pos++
		}
	}
	item = func() (sx, error) {
		skip()
		if pos >= len(s) {
			return sx{}, errors.New("eof")
		}
		switch s[pos] {
		case '(':
			pos++
			var l []sx
			for {
				skip()
				if pos >= len(s) {
					return sx{}, errors.New("eof in list")
				}
				if s[pos] == ')' {
					pos++
					return sx{list: l, isl: true}, nil
				}
				it, err := item()
				if err != nil {
					return sx{}, err
				}
				l = append(l, it)
			}
		case '"':
			pos++
			var b []byte
			for pos < len(s) && s[pos] != '"' {
				if s[pos] == '\\' && pos+2 < len(s) {
					v, err := strconv.ParseUint(s[pos+1:pos+3], 16, 8)
					if err != nil {
						return sx{}, err
					}
					b = append(b, byte(v))
					pos += 3
				} else {
					b = append(b, s[pos])
					pos++
				}
			}
			pos++
			return sx{atom: string(b), str: true}, nil
		default:
			st := pos
			for pos < len(s) && !strings.ContainsRune(" \t\n()\"", rune(s[pos])) {
				pos++
			}
			return sx{atom: s[st:pos]}, nil
		}
	}
	return item()
}

func replayLine(line string, fails map[string][]byte) (string, error) {
	x, err := parseSx(line)
	if err == nil && x.isl && len(x.list) > 0 && x.list[0].atom == "c11h" {
		return replayHint(x)
	}
	if err != nil || !x.isl || len(x.list) < 4 || x.list[0].atom != "c11" {
		return "", fmt.Errorf("not a c11 case: %v", err)
	}
	mode := x.list[1].atom
	fail := fails[mode]
	var reqs []reqSpec
	for i, r := range x.list[2].list[1:] {
		key, _ := strconv.Atoi(r.list[0].atom)
		rs := mkReq(i, key, r.list[1].atom, r.list[2].atom == "t", fail)
		reqs = append(reqs, rs)
	}
	var script []cmd
	for _, t := range x.list[3].list[1:] {
		c := t
		if t.isl && len(t.list) > 0 && t.list[0].isl {
			c = t.list[0] // trace item: (CMD (i status)...)
		}
		if !c.isl || len(c.list) < 2 {
			continue
		}
		i, _ := strconv.Atoi(c.list[1].atom)
		k := ""
		if len(c.list) > 2 {
			k = c.list[2].atom
		}
		if c.list[0].atom == "inapplicable" {
			continue
		}
		script = append(script, cmd{c.list[0].atom, i, k})
	}
	// script commands that are not applicable on this tree are skipped (a schedule recorded on another
	// version of the code); afterwards the schedule is driven to quiescence without further cancellations
	pos := 0
	out := runSchedule(mode, reqs, genOpts{cancelMax: 99}, func(opts []cmd) (cmd, bool) {
		for pos < len(script) {
			c := script[pos]
			pos++
			for _, o := range opts {
				if o == c {
					return c, true
				}
			}
		}
		for _, o := range opts {
			if o.op != "cancel" {
				return o, true
			}
		}
		return cmd{}, false
	})
	return out, nil
}

// ---------------------------------------------------------------- main

func main() {
	if len(os.Args) < 2 {
		fmt.Fprintln(os.Stderr, "usage: c11 gen|replay ...")
		os.Exit(2)
	}
	args := common.Args(os.Args[2:])
	resolve.SetVerifYield(yieldHook)
	initFetchSizeType()
	fails := map[string][]byte{"inb": calibrate("inb"), "inbe2e": calibrate("inbe2e"), "sube2e": calibrate("sube2e")}
	out := common.NewOut(args["out"])
	defer out.Close()
	switch os.Args[1] {
	case "replay":
		data, err := os.ReadFile(args["in"])
		if err != nil {
			fmt.Fprintln(os.Stderr, err)
			os.Exit(1)
		}
		for _, line := range strings.Split(string(data), "\n") {
			line = strings.TrimSpace(line)
			if line == "" || strings.HasPrefix(line, "#") {
				continue
			}
			res, err := replayLine(line, fails)
			if err != nil {
				fmt.Fprintln(os.Stderr, err)
				os.Exit(1)
			}
			out.Line(res)
		}
	case "gen":
		seed := common.ArgU64(args, "seed", 1)
		tier := args["tier"]
		nrand := common.ArgInt(args, "n", 300)
		r := common.NewRand(seed)
		total := 0
		emit := func(l string) { out.Line(l); total++ }
		for _, mode := range []string{"inb", "inbe2e", "sube2e"} {
			fail := fails[mode]
			q := func(i, key int, op string, dedup bool) reqSpec { return mkReq(i, key, op, dedup, fail) }
			kinds := answersFor(mode)
			// all schedules of two same-key queries, for every pair of planned answers, at most one cancellation
			for _, k0 := range kinds {
				for _, k1 := range kinds {
					if tier != "thorough" && mode != "inb" && k0 != k1 && k1 != "ok" {
						continue
					}
					enumerate(mode, []reqSpec{q(0, 0, "query", true), q(1, 0, "query", true)},
						genOpts{plan: []string{k0, k1}, cancelMax: 1}, 0, emit)
				}
			}
			// request sets that must not share: different key ingredient, mutation, subscription, disabled
			for _, rs := range [][]reqSpec{
				{q(0, 0, "query", true), q(1, 1, "query", true)},
				{q(0, 0, "query", true), q(1, 2, "query", true)},
				{q(0, 0, "query", true), q(1, 3, "query", true)},
				{q(0, 0, "mutation", true), q(1, 0, "mutation", true)},
				{q(0, 0, "query", true), q(1, 0, "subscription", true)},
				{q(0, 0, "query", true), q(1, 0, "query", false)},
				{q(0, 0, "query", false), q(1, 0, "query", true)},
			} {
				enumerate(mode, rs, genOpts{plan: []string{"ok", "ok"}, cancelMax: 0}, 0, emit)
			}
			// --- leader-side failures after the shared work succeeded, private writers, panics.  The two requests
			// are interchangeable, so "actor 0 has the failing writer / the panicking work" covers the leader and
			// the follower (the DFS starts them in both orders).
			same := []reqSpec{q(0, 0, "query", true), q(1, 0, "query", true)}
			if mode != "sube2e" {
				// a client Write that fails / panics, work ok: all interleavings, with one cancellation for the failing writer
				enumerate(mode, same, genOpts{plan: []string{"ok", "ok"}, wplan: []string{"fail", "ok"}, cancelMax: 1}, 0, emit)
				enumerate(mode, same, genOpts{plan: []string{"ok", "ok"}, wplan: []string{"panic", "ok"}, cancelMax: 0}, 0, emit)
				if tier == "thorough" {
					enumerate(mode, same, genOpts{plan: []string{"ok", "ok"}, wplan: []string{"fail", "fail"}, cancelMax: 1}, 0, emit)
					enumerate(mode, same, genOpts{plan: []string{"ok", "ok"}, wplan: []string{"panic", "fail"}, cancelMax: 1}, 0, emit)
					enumerate(mode, same, genOpts{plan: []string{kinds[1], "ok"}, wplan: []string{"fail", "ok"}, cancelMax: 1}, 0, emit)
				}
			}
			// the shared work panics (recovered at the request boundary): followers waiting at that moment,
			// identical requests arriving afterwards
			cm := 0
			if mode != "inb" || tier == "thorough" {
				cm = 1
			}
			enumerate(mode, same, genOpts{plan: []string{"panic", "ok"}, cancelMax: cm}, 0, emit)
			enumerate(mode, same, genOpts{plan: []string{"panic", "panic"}, cancelMax: 0}, 0, emit)
			if tier == "thorough" {
				enumerate(mode, same, genOpts{plan: []string{"panic", kinds[1]}, cancelMax: 1}, 0, emit)
				enumerate(mode, []reqSpec{q(0, 0, "query", true), q(1, 0, "query", true), q(2, 0, "query", true)},
					genOpts{plan: []string{"panic", "ok", "ok"}, cancelMax: 0}, 20000, emit)
			}
			if tier == "thorough" {
				// three same-key queries, no cancellation, all interleavings
				enumerate(mode, []reqSpec{q(0, 0, "query", true), q(1, 0, "query", true), q(2, 0, "query", true)},
					genOpts{plan: []string{"ok", "ok", "ok"}, cancelMax: 0}, 20000, emit)
			}
			for k := 0; k < nrand; k++ {
				n := 3 + r.Pick(2)
				emit(randomSchedule(mode, r, randomReqs(r, n, fail)))
			}
		}
		// the size-hint table of the subgraph single flight (hint.go)
		genHint(r, tier, nrand/2, emit)
		fmt.Fprintf(os.Stderr, "c11: %d schedules\n", total)
	case "stress":
		seed := common.ArgU64(args, "seed", 1)
		for k := 0; k < common.ArgInt(args, "rounds", 4); k++ {
			out.Line(runStress(seed+uint64(k), common.ArgInt(args, "n", 20000), 2+k%3))
		}
	}
}
