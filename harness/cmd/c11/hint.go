package main

// subtab: the SIZE-HINT table of SubgraphRequestSingleFlight (shard.sizes) driven through a replica of the caller
// logic of Loader.loadByContext: GetOrCreateItem (leader: reads the hint) / the leader's load (gate) / item.response
// := bytes / Finish.  All actors of a schedule have different sfKeys (they are all leaders); actors with the same
// abstract fetch kind share one fetchKey (same data source id and root fields, other input / other headers hash), the
// table is fresh (cold) for every schedule.
//
// The window "Finish has published the empty entry (LoadOrStore) and has not yet recorded its first sample" lies
// inside Finish, after close(item.loaded), where /repo has no verif yield point.  The scheduler opens it with a
// parking point of its own: an actor parks before it calls Finish (point "fin"); the command (pub i) performs the
// LoadOrStore(FetchKey, &fetchSize{}) of that Finish on the actor's behalf (the very operation, on the real table,
// with a zero value of the real entry type), the actor is then at "finp"; (rel i) runs the real Finish, which finds
// the entry and records into it.  For every other actor this is indistinguishable from the real order
// (Delete(sfKey), close(loaded), LoadOrStore, record): Delete / close only concern the finisher's own sfKey, which no
// other actor of the schedule uses.
//
// stress: the real window, with nothing but GetOrCreateItem / Finish called from several goroutines on cold fetch
// kinds (thorough tier, -race build).

import (
	"fmt"
	"reflect"
	"runtime"
	"strconv"
	"strings"
	"sync"
	"unsafe"

	"gvh/common"

	"github.com/wundergraph/graphql-go-tools/v2/pkg/ast"
	"github.com/wundergraph/graphql-go-tools/v2/pkg/engine/resolve"
)

type hintReq struct {
	fk   int // abstract fetch kind (data source id)
	sf   int // distinguishes the requests of one kind: other input (even) / other headers hash (odd)
	hlen int // length of the response the leader's load returns when answered "ok"
}

type hintActor struct {
	*actor
	hr    hintReq
	item  *resolve.SingleFlightItem
	fkey  uint64 // real FetchKey
	shard int
	hint  int64
	pub   bool
}

type hintSched struct {
	sched
	sf     *resolve.SubgraphRequestSingleFlight
	shards int
	ha     []*hintActor
	seq    int
}

var hintSeq int

func hintFetchItem(seq int, r hintReq) (*resolve.FetchItem, []byte, uint64) {
	fetch := &resolve.SingleFetch{Info: &resolve.FetchInfo{
		DataSourceID: fmt.Sprintf("kind%d-%d", r.fk, seq), DataSourceName: "svc", OperationType: ast.OperationTypeQuery,
		RootFields: []resolve.GraphCoordinate{{TypeName: "Query", FieldName: "field"}}}}
	input := []byte(`{"q":` + strconv.Itoa(r.sf/2) + `}`)
	extra := uint64(0)
	if r.sf%2 == 1 {
		extra = uint64(1000 + r.sf)
	}
	return &resolve.FetchItem{Fetch: fetch}, input, extra
}

func sizesMap(sf *resolve.SubgraphRequestSingleFlight, shard int) *sync.Map {
	v := reflect.ValueOf(sf).Elem().FieldByName("shards").Index(shard).FieldByName("sizes")
	return (*sync.Map)(unsafe.Pointer(v.UnsafeAddr()))
}

// the type *fetchSize is not exported: take it from an entry that a real Finish created
var fetchSizePtrType reflect.Type

func initFetchSizeType() {
	sf := resolve.NewSingleFlight(1)
	fi, in, ex := hintFetchItem(0, hintReq{})
	it, _ := sf.GetOrCreateItem(fi, in, ex)
	sf.Finish(it)
	sizesMap(sf, 0).Range(func(_, v any) bool { fetchSizePtrType = reflect.TypeOf(v); return false })
	if fetchSizePtrType == nil || fetchSizePtrType.Kind() != reflect.Ptr {
		panic("c11: cannot determine the entry type of the size table")
	}
}

func setResponse(it *resolve.SingleFlightItem, data []byte) {
	f := reflect.ValueOf(it).Elem().FieldByName("response")
	*(*[]byte)(unsafe.Pointer(f.UnsafeAddr())) = data
}

func sizeHintOf(it *resolve.SingleFlightItem) int64 {
	return reflect.ValueOf(it).Elem().FieldByName("sizeHint").Int()
}

func (s *hintSched) runHintActor(h *hintActor) {
	a := h.actor
	defer func() {
		if r := recover(); r != nil {
			a.result = common.L("panic", common.QS(fmt.Sprint(r)))
		}
		a.state.Store(stDone)
	}()
	g := curGoid()
	a.goid.Store(g)
	a.state.Store(stRunning)
	fi, in, ex := hintFetchItem(s.seq, h.hr)
	item, shared := s.sf.GetOrCreateItem(fi, in, ex)
	if shared {
		a.result = common.L("err", "other", common.QS("two requests of the schedule share one sfKey"))
		return
	}
	h.item = item
	h.hint = sizeHintOf(item)
	ans := a.park("load")
	a.state.Store(stRunning)
	a.ans = ans.kind
	if ans.kind == "ok" {
		setResponse(item, make([]byte, h.hr.hlen))
	}
	a.park("fin")
	a.state.Store(stRunning)
	s.sf.Finish(item)
	a.result = "(done)"
}

func (s *hintSched) hstatus(i int) (string, bool) {
	h := s.ha[i]
	st, ok := h.actor.status(nil)
	if ok && st == "(at fin)" && h.pub {
		return "(at finp)", true
	}
	return st, ok
}

func (s *hintSched) hsettle() []string {
	out := make([]string, len(s.ha))
	for spins := 0; ; spins++ {
		all := true
		for i := range s.ha {
			st, ok := s.hstatus(i)
			if !ok {
				all = false
				break
			}
			out[i] = st
		}
		if all {
			return out
		}
		if spins > 2000000 {
			for i := range s.ha {
				if st, ok := s.hstatus(i); ok {
					out[i] = st
				} else {
					out[i] = common.L("stuck", common.QS("running"))
				}
			}
			return out
		}
		runtime.Gosched()
	}
}

func (s *hintSched) hoptions(st []string, answers []string) []cmd {
	var opts []cmd
	for i, h := range s.ha {
		switch st[i] {
		case "new":
			opts = append(opts, cmd{"start", i, ""})
		case "(at load)":
			for _, k := range answers {
				opts = append(opts, cmd{"ans", i, k})
			}
		case "(at fin)":
			opts = append(opts, cmd{"rel", i, ""})
			if _, ok := sizesMap(s.sf, h.shard).Load(h.fkey); !ok {
				opts = append(opts, cmd{"pub", i, ""})
			}
		case "(at finp)":
			opts = append(opts, cmd{"rel", i, ""})
		}
	}
	return opts
}

func (s *hintSched) happly(c cmd) bool {
	h := s.ha[c.i]
	a := h.actor
	switch c.op {
	case "start":
		if a.state.Load() != stNew {
			return false
		}
		a.state.Store(stRunning)
		go s.runHintActor(h)
	case "ans":
		if a.state.Load() != stParked || a.point.Load().(string) != "load" || (c.kind != "ok" && c.kind != "empty") {
			return false
		}
		a.state.Store(stRunning)
		a.resume <- answer{c.kind}
	case "pub":
		if a.state.Load() != stParked || a.point.Load().(string) != "fin" || h.pub {
			return false
		}
		// the LoadOrStore of Finish, on the actor's behalf
		if _, loaded := sizesMap(s.sf, h.shard).LoadOrStore(h.fkey, reflect.New(fetchSizePtrType.Elem()).Interface()); loaded {
			return false
		}
		h.pub = true
	case "rel":
		if a.state.Load() != stParked || a.point.Load().(string) != "fin" {
			return false
		}
		a.state.Store(stRunning)
		a.resume <- answer{}
	default:
		return false
	}
	return true
}

// runHint executes one schedule of the size-hint table.
func runHint(reqs []hintReq, shards int, answers []string, maxSteps int, choose func(opts []cmd) (cmd, bool)) string {
	hintSeq++
	s := &hintSched{sf: resolve.NewSingleFlight(shards), shards: shards, seq: hintSeq}
	s.mode = "subtab"
	scratch := resolve.NewSingleFlight(1)
	for i, r := range reqs {
		a := &actor{id: i, resume: make(chan answer)}
		fi, in, ex := hintFetchItem(s.seq, r)
		it, _ := scratch.GetOrCreateItem(fi, in, ex)
		h := &hintActor{actor: a, hr: r, fkey: it.FetchKey, shard: int(it.SFKey % uint64(shards))}
		scratch.Finish(it)
		s.ha = append(s.ha, h)
	}
	defer func() {
		for k := 0; k < 1000; k++ {
			busy := false
			for _, h := range s.ha {
				switch h.actor.state.Load() {
				case stParked:
					busy = true
					h.actor.state.Store(stRunning)
					h.actor.resume <- answer{"ok"}
				case stRunning:
					busy = true
				}
			}
			if !busy {
				break
			}
			runtime.Gosched()
		}
	}()
	st := s.hsettle()
	last := append([]string(nil), st...)
	var trace []string
	for steps := 0; steps < maxSteps; steps++ {
		opts := s.hoptions(st, answers)
		if len(opts) == 0 {
			break
		}
		c, ok := choose(opts)
		if !ok {
			break
		}
		if !s.happly(c) {
			trace = append(trace, common.L("inapplicable", c.String()))
			break
		}
		st = s.hsettle()
		items := []string{c.String()}
		for i := range s.ha {
			if st[i] != last[i] {
				items = append(items, common.L(common.I(i), st[i]))
				last[i] = st[i]
			}
		}
		trace = append(trace, common.L(items...))
	}
	// effective table key of an actor: (fetch kind, shard of its sfKey) -- the size table is per shard
	eff := func(h *hintActor) int { return h.hr.fk*8 + h.shard }
	var rs, fin, sz []string
	for _, h := range s.ha {
		rs = append(rs, common.L(common.I(eff(h)), common.I(h.hr.fk), common.I(h.hr.sf), common.I(h.hr.hlen)))
	}
	for i, h := range s.ha {
		res := "none"
		if h.actor.state.Load() == stDone {
			res = h.actor.result
		}
		fin = append(fin, common.L(common.I(i), res, strconv.FormatInt(h.hint, 10)))
	}
	seen := map[int]bool{}
	for _, h := range s.ha {
		if seen[eff(h)] {
			continue
		}
		seen[eff(h)] = true
		if v, ok := sizesMap(s.sf, h.shard).Load(h.fkey); ok {
			e := reflect.ValueOf(v).Elem()
			sz = append(sz, common.L(common.I(eff(h)), strconv.FormatInt(e.FieldByName("count").Int(), 10),
				strconv.FormatInt(e.FieldByName("totalBytes").Int(), 10)))
		}
	}
	return common.L("c11h", common.L("shards", common.I(shards)), common.L(append([]string{"reqs"}, rs...)...),
		common.L(append([]string{"trace"}, trace...)...), common.L(append([]string{"final"}, fin...)...),
		common.L(append([]string{"sizes"}, sz...)...))
}

func enumerateHint(reqs []hintReq, shards int, answers []string, limit int, emit func(string)) int {
	var stack, widths []int
	n := 0
	for {
		step := 0
		widths = widths[:0]
		line := runHint(reqs, shards, answers, 400, func(opts []cmd) (cmd, bool) {
			pick := 0
			if step < len(stack) {
				pick = stack[step]
			} else {
				stack = append(stack, 0)
			}
			if pick >= len(opts) {
				pick = len(opts) - 1
			}
			widths = append(widths, len(opts))
			step++
			return opts[pick], true
		})
		emit(line)
		n++
		if limit > 0 && n >= limit {
			return n
		}
		stack = stack[:step]
		for len(stack) > 0 {
			last := len(stack) - 1
			if stack[last]+1 < widths[last] {
				stack[last]++
				break
			}
			stack = stack[:last]
		}
		if len(stack) == 0 {
			return n
		}
	}
}

func genHint(r *common.Rand, tier string, nrand int, emit func(string)) {
	ok := []string{"ok"}
	both := []string{"ok", "empty"}
	// two different sfKeys sharing one fetchKey on a cold table: all interleavings (other input; other headers hash)
	enumerateHint([]hintReq{{0, 0, 120}, {0, 2, 80}}, 1, ok, 0, emit)
	enumerateHint([]hintReq{{0, 0, 64}, {0, 1, 0}}, 1, both, 0, emit)
	// three leaders, two kinds
	lim := 500
	if tier == "thorough" {
		lim = 30000
	}
	enumerateHint([]hintReq{{0, 0, 100}, {0, 2, 40}, {1, 4, 7}}, 1, ok, lim, emit)
	enumerateHint([]hintReq{{0, 0, 100}, {0, 2, 40}, {0, 4, 10}}, 1, ok, lim, emit)
	// the rolling window: 53 leaders of one kind finish one after the other (fold at 50), the last ones overlap
	var many []hintReq
	for i := 0; i < 53; i++ {
		many = append(many, hintReq{0, 2 * i, 1000 + 37*i})
	}
	emit(runHint(many, 1, ok, 400, func(opts []cmd) (cmd, bool) {
		// run the lowest actor that can move; publish separately once in a while
		best := opts[0]
		for _, o := range opts {
			if o.i < best.i || (o.i == best.i && o.op == "pub" && o.i%17 == 3) {
				best = o
			}
		}
		return best, true
	}))
	for k := 0; k < nrand; k++ {
		n := 3 + r.Pick(3)
		reqs := make([]hintReq, n)
		for i := range reqs {
			reqs[i] = hintReq{fk: r.Pick(2), sf: 2*i + r.Pick(2), hlen: r.Pick(300)}
			if r.Chance(1, 3) {
				reqs[i].fk = 0
			}
		}
		shards := 1 + r.Pick(2)
		emit(runHint(reqs, shards, both, 400, func(opts []cmd) (cmd, bool) {
			// prefer opening the window and electing into it
			for tries := 0; tries < 3; tries++ {
				c := opts[r.Pick(len(opts))]
				if c.op == "rel" && r.Chance(1, 2) {
					continue
				}
				return c, true
			}
			return opts[r.Pick(len(opts))], true
		}))
	}
}

func replayHint(x sx) (string, error) {
	// (c11h (shards n) (reqs (eff fk sf len)...) (trace ...) ...)
	if len(x.list) < 4 {
		return "", fmt.Errorf("not a c11h case")
	}
	shards, _ := strconv.Atoi(x.list[1].list[1].atom)
	var reqs []hintReq
	for _, r := range x.list[2].list[1:] {
		fk, _ := strconv.Atoi(r.list[1].atom)
		sf, _ := strconv.Atoi(r.list[2].atom)
		hl, _ := strconv.Atoi(r.list[3].atom)
		reqs = append(reqs, hintReq{fk, sf, hl})
	}
	var script []cmd
	for _, t := range x.list[3].list[1:] {
		c := t
		if t.isl && len(t.list) > 0 && t.list[0].isl {
			c = t.list[0]
		}
		if !c.isl || len(c.list) < 2 || c.list[0].atom == "inapplicable" {
			continue
		}
		i, _ := strconv.Atoi(c.list[1].atom)
		k := ""
		if len(c.list) > 2 {
			k = c.list[2].atom
		}
		script = append(script, cmd{c.list[0].atom, i, k})
	}
	pos := 0
	return runHint(reqs, shards, []string{"ok", "empty"}, 400, func(opts []cmd) (cmd, bool) {
		for pos < len(script) {
			c := script[pos]
			pos++
			for _, o := range opts {
				if o == c {
					return c, true
				}
			}
		}
		// drive to quiescence without opening further windows
		for _, o := range opts {
			if o.op != "pub" && o.kind != "empty" {
				return o, true
			}
		}
		return opts[0], true
	}), nil
}

// stress: GetOrCreateItem / Finish from several goroutines on cold fetch kinds; only a panic is a failure
func runStress(seed uint64, iters, workers int) string {
	sf := resolve.NewSingleFlight(1 + int(seed%2))
	panics := 0
	first := ""
	var mu sync.Mutex
	elect := func(fi *resolve.FetchItem, in []byte) (it *resolve.SingleFlightItem, shared bool) {
		defer func() {
			if r := recover(); r != nil {
				mu.Lock()
				panics++
				if first == "" {
					first = fmt.Sprint(r)
				}
				mu.Unlock()
				it = nil
			}
		}()
		return sf.GetOrCreateItem(fi, in, 0)
	}
	for iter := 0; iter < iters; iter++ {
		fi, _, _ := hintFetchItem(1<<20+iter, hintReq{fk: int(seed % 1000)})
		leader, _ := elect(fi, []byte("leader"))
		if leader == nil {
			continue
		}
		setResponse(leader, make([]byte, 64))
		start := make(chan struct{})
		var wg sync.WaitGroup
		wg.Add(1 + workers)
		go func() { defer wg.Done(); <-start; sf.Finish(leader) }()
		for w := 0; w < workers; w++ {
			w := w
			go func() {
				defer wg.Done()
				<-start
				for j := 0; j < 8; j++ {
					it, shared := elect(fi, []byte{'o', byte(w), byte(j)})
					if it == nil {
						return
					}
					if !shared { // a follower never looks at the size hint (the leader writes it after publishing the item)
						h := sizeHintOf(it)
						setResponse(it, make([]byte, 32))
						sf.Finish(it)
						if h > 0 {
							return // the first finisher has recorded its sample: the window is over
						}
					}
				}
			}()
		}
		close(start)
		wg.Wait()
	}
	return common.L("c11s", common.L("iters", common.I(iters)), common.L("workers", common.I(workers)),
		common.L("panics", common.I(panics), common.QS(first)))
}

var _ = strings.HasPrefix
