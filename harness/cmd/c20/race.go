package main

// race mode: one DataSource (one compiled plan), many concurrent Loads of an operation over an
// abstract type whose concrete type varies per call (the mock's randomPet).  Every answer must be
// internally consistent: a Cat carries meowVolume and no barkVolume, a Dog the converse.
// marshalResponseJSON builds validFields by append(message.Fields, ...); message.Fields is created
// with spare capacity by the plan visitor, so concurrent Loads write fragment fields into one shared
// backing array.

import (
	"context"
	"fmt"
	"os"
	"strings"
	"sync"

	"github.com/tidwall/gjson"

	"github.com/wundergraph/graphql-go-tools/v2/pkg/astparser"
	grpcds "github.com/wundergraph/graphql-go-tools/v2/pkg/engine/datasource/grpc_datasource"
)

func (e *Env) raceMode(seed uint64, n int) int {
	q := `query Q {randomPet {id ... on Cat {meowVolume} ... on Dog {barkVolume}}}`
	doc, rep := astparser.ParseGraphqlDocumentString(q)
	if rep.HasErrors() {
		panic(rep.Error())
	}
	ds, err := grpcds.NewDataSource(grpcds.NewGRPCTransport(e.conn), grpcds.DataSourceConfig{Operation: &doc, Definition: &e.schemaDoc,
		SubgraphName: "Products", Compiler: e.compiler, Mapping: e.mapping})
	if err != nil {
		panic(err)
	}
	input := []byte(`{"query":"` + q + `","body":{"variables":{}}}`)
	check := func(out []byte) string {
		pet := gjson.GetBytes(out, "data.randomPet")
		id := pet.Get("id").String()
		hasM, hasB := pet.Get("meowVolume").Exists(), pet.Get("barkVolume").Exists()
		switch {
		case strings.HasPrefix(id, "cat") && hasM && !hasB, strings.HasPrefix(id, "dog") && hasB && !hasM:
			return ""
		}
		return string(out)
	}
	run := func(workers int) (bad int, example string) {
		var mu sync.Mutex
		var wg sync.WaitGroup
		for w := 0; w < workers; w++ {
			wg.Add(1)
			go func() {
				defer wg.Done()
				for i := 0; i < n; i++ {
					out, err := ds.Load(context.Background(), nil, input)
					if err != nil {
						out = []byte("error: " + err.Error())
					}
					if x := check(out); x != "" {
						mu.Lock()
						bad++
						example = x
						mu.Unlock()
					}
				}
			}()
		}
		wg.Wait()
		return
	}
	b1, ex1 := run(1)
	b8, ex8 := run(8)
	fmt.Fprintf(os.Stdout, "sequential: %d inconsistent of %d %s\nconcurrent(8): %d inconsistent of %d %s\n", b1, n, ex1, b8, 8*n, ex8)
	if b1 != 0 || b8 != 0 {
		return 3
	}
	return 0
}
