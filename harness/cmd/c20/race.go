package main

func (e *Env) raceMode(seed uint64, n int) int { return 0 }
