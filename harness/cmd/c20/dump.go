package main

// Dumpers (trusted, kept small): RPC plan message -> S-expression, protobuf message (through
// protoreflect, the same interface json_builder.go reads it through) -> S-expression value tree,
// JSON bytes -> S-expression.

import (
	"bytes"
	"encoding/json"
	"fmt"
	"sort"
	"strconv"
	"strings"

	protoref "google.golang.org/protobuf/reflect/protoreflect"

	"gvh/common"

	grpcds "github.com/wundergraph/graphql-go-tools/v2/pkg/engine/datasource/grpc_datasource"
)

// ---------------------------------------------------------------- plan
func dumpField(f *grpcds.RPCField, seen map[*grpcds.RPCMessage]bool) string {
	md := "none"
	if f.ListMetadata != nil {
		lv := make([]string, 0, len(f.ListMetadata.LevelInfo))
		for _, l := range f.ListMetadata.LevelInfo {
			lv = append(lv, common.B(l.Optional))
		}
		md = common.L("md", common.I(f.ListMetadata.NestingLevel), common.L(lv...))
	}
	sub := "none"
	if f.Message != nil {
		sub = dumpPlanMessage(f.Message, seen)
	}
	return common.L("f", common.QS(f.Name), common.QS(f.Alias), common.QS(f.JSONPath), common.QS(f.StaticValue),
		common.B(f.Optional), common.B(f.ProtoTypeName == grpcds.DataTypeMessage), common.B(f.IsListType), common.B(f.Repeated), md, sub)
}

func dumpPlanMessage(m *grpcds.RPCMessage, seen map[*grpcds.RPCMessage]bool) string {
	if seen[m] {
		panic("cyclic response plan message " + m.Name)
	}
	seen[m] = true
	defer delete(seen, m)
	oneof := "none"
	switch m.OneOfType {
	case grpcds.OneOfTypeInterface:
		oneof = "iface"
	case grpcds.OneOfTypeUnion:
		oneof = "union"
	}
	mem := make([]string, 0, len(m.MemberTypes))
	for _, s := range m.MemberTypes {
		mem = append(mem, common.QS(s))
	}
	fs := []string{"fields"}
	for i := range m.Fields {
		fs = append(fs, dumpField(&m.Fields[i], seen))
	}
	keys := make([]string, 0, len(m.FragmentFields))
	for k := range m.FragmentFields {
		keys = append(keys, k)
	}
	sort.Strings(keys)
	fr := []string{"frags"}
	for _, k := range keys {
		part := []string{common.QS(k)}
		ff := m.FragmentFields[k]
		for i := range ff {
			part = append(part, dumpField(&ff[i], seen))
		}
		fr = append(fr, common.L(part...))
	}
	return common.L("msg", common.QS(m.Name), oneof, common.L(mem...), common.L(fs...), common.L(fr...))
}

// ---------------------------------------------------------------- protobuf value tree
func dumpScalar(fd protoref.FieldDescriptor, v protoref.Value) string {
	switch fd.Kind() {
	case protoref.BoolKind:
		return common.L("b", common.B(v.Bool()))
	case protoref.StringKind:
		return common.L("str", common.QS(v.String()))
	case protoref.Int32Kind:
		return common.L("i32", common.QS(strconv.Itoa(int(v.Int()))))
	case protoref.Int64Kind:
		return common.L("i64", common.QS(strconv.FormatInt(v.Int(), 10)))
	case protoref.Uint32Kind, protoref.Uint64Kind:
		return common.L("u", common.QS(strconv.FormatUint(v.Uint(), 10)))
	case protoref.FloatKind, protoref.DoubleKind:
		// the textual form astjson.FloatValue gives a float64 (strconv 'g', shortest); number
		// formatting is not modelled
		return common.L("fl", common.QS(strconv.FormatFloat(v.Float(), 'g', -1, 64)))
	case protoref.BytesKind:
		return common.L("by", common.Q(v.Bytes()))
	case protoref.EnumKind:
		ev := fd.Enum().Values().ByNumber(v.Enum())
		if ev == nil {
			return common.L("en", common.QS(string(fd.Enum().Name())), "none")
		}
		return common.L("en", common.QS(string(fd.Enum().Name())), common.QS(string(ev.Name())))
	}
	return "other"
}

func dumpProto(m protoref.Message) string {
	d := m.Descriptor()
	var oo []string
	for i := 0; i < d.Oneofs().Len(); i++ {
		o := d.Oneofs().Get(i)
		w := m.WhichOneof(o)
		if w == nil {
			oo = append(oo, common.L(common.QS(string(o.Name())), "none"))
		} else {
			oo = append(oo, common.L(common.QS(string(o.Name())), common.QS(string(w.Name()))))
		}
	}
	parts := []string{"m", common.QS(string(d.Name())), common.L(oo...)}
	for i := 0; i < d.Fields().Len(); i++ {
		fd := d.Fields().Get(i)
		var val string
		switch {
		case fd.IsMap():
			panic("map field in response message: not modelled")
		case fd.IsList():
			l := m.Get(fd).List()
			if fd.Kind() == protoref.MessageKind || fd.Kind() == protoref.GroupKind {
				items := []string{"lm"}
				for k := 0; k < l.Len(); k++ {
					items = append(items, dumpProto(l.Get(k).Message()))
				}
				val = common.L(items...)
			} else {
				items := []string{"ls"}
				for k := 0; k < l.Len(); k++ {
					items = append(items, dumpScalar(fd, l.Get(k)))
				}
				val = common.L(items...)
			}
		case fd.Kind() == protoref.MessageKind || fd.Kind() == protoref.GroupKind:
			sub := m.Get(fd).Message()
			if !sub.IsValid() {
				val = "absent"
			} else {
				val = common.L("pm", dumpProto(sub))
			}
		default:
			val = common.L("sc", dumpScalar(fd, m.Get(fd)))
		}
		parts = append(parts, common.L("fe", common.QS(string(fd.Name())), common.I(int(fd.Number())), val))
	}
	return common.L(parts...)
}

// ---------------------------------------------------------------- JSON
func jsonToSexp(data []byte) (string, error) {
	dec := json.NewDecoder(bytes.NewReader(data))
	dec.UseNumber()
	var sb strings.Builder
	if err := jsonValue(dec, &sb); err != nil {
		return "", err
	}
	if _, err := dec.Token(); err == nil {
		return "", fmt.Errorf("trailing data after JSON value")
	}
	return sb.String(), nil
}

func jsonValue(dec *json.Decoder, sb *strings.Builder) error {
	tok, err := dec.Token()
	if err != nil {
		return err
	}
	return jsonFromToken(dec, tok, sb)
}

func jsonFromToken(dec *json.Decoder, tok json.Token, sb *strings.Builder) error {
	switch t := tok.(type) {
	case nil:
		sb.WriteString("n")
	case bool:
		sb.WriteString(common.B(t))
	case json.Number:
		sb.WriteString(common.L("num", common.QS(string(t))))
	case string:
		sb.WriteString(common.L("s", common.QS(t)))
	case json.Delim:
		switch t {
		case '[':
			sb.WriteString("(a")
			for dec.More() {
				sb.WriteString(" ")
				if err := jsonValue(dec, sb); err != nil {
					return err
				}
			}
			if _, err := dec.Token(); err != nil {
				return err
			}
			sb.WriteString(")")
		case '{':
			sb.WriteString("(o")
			for dec.More() {
				kt, err := dec.Token()
				if err != nil {
					return err
				}
				ks, ok := kt.(string)
				if !ok {
					return fmt.Errorf("object key is not a string")
				}
				sb.WriteString(" (" + common.QS(ks) + " ")
				if err := jsonValue(dec, sb); err != nil {
					return err
				}
				sb.WriteString(")")
			}
			if _, err := dec.Token(); err != nil {
				return err
			}
			sb.WriteString(")")
		default:
			return fmt.Errorf("unexpected delimiter %v", t)
		}
	default:
		return fmt.Errorf("unexpected token %v", tok)
	}
	return nil
}
