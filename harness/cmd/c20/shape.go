package main

// Expected response shape of an operation, computed from the operation tree and the schema
// alone (GraphQL CollectFields semantics, June-2018 spec section 6.3.2) -- deliberately without
// any code of the library under test.  The shape is what the S1 (shape) and S2 (consistency)
// spec checkers, extracted from Coq, evaluate the implementation's JSON against.
//
//   sel  := (sel V...)                       one variant per possible concrete object type
//   V    := (v ("T") (k "key" uid TY)...)
//   TY   := (nn TY) | (l TY) | (sc Name) | (en "V"...) | (tn) | (ob sel)
//         | (ents ("T"...) TY)   the _entities list: item i is an object of the i-th representation's type

import (
	"strings"

	"github.com/tidwall/gjson"

	"gvh/common"
)

type collected struct {
	key    string
	fields []*Node
	parent string // type the first field was selected on (for the field definition lookup)
}

func (g *Gen) collect(op *Op, items []*Node, parent, concrete string, visited map[string]bool, acc *[]*collected) {
	for _, n := range items {
		switch n.Kind {
		case "f":
			found := false
			for _, c := range *acc {
				if c.key == n.Key() {
					c.fields = append(c.fields, n)
					found = true
					break
				}
			}
			if !found {
				*acc = append(*acc, &collected{key: n.Key(), fields: []*Node{n}, parent: parent})
			}
		case "i":
			cond := n.Cond
			if cond == "" {
				cond = parent
			}
			if g.S.TypeApplies(cond, concrete) {
				g.collect(op, n.Sel, cond, concrete, visited, acc)
			}
		case "s":
			if visited[n.Name] {
				continue
			}
			visited[n.Name] = true
			for _, f := range op.Frags {
				if f.Name == n.Name && g.S.TypeApplies(f.Cond, concrete) {
					g.collect(op, f.Sel, f.Cond, concrete, visited, acc)
				}
			}
		}
	}
}

// shapeOfSel: the selection sets `sets` (all selected on a value of static type typeName).
func (g *Gen) shapeOfSel(op *Op, sets [][]*Node, parents []string, typeName string, ctx string) string {
	// the datasource always returns __typename for the objects of _entities (scaffoldEntityLookup):
	// that member is part of the federation contract, so it is expected even when not selected
	implicitTypename := typeName == "_Entity"
	var variants []string
	for _, concrete := range g.S.PossibleOf(typeName) {
		var acc []*collected
		visited := map[string]bool{}
		for i, s := range sets {
			g.collect(op, s, parents[i], concrete, visited, &acc)
		}
		parts := []string{"v", common.L(common.QS(concrete))}
		for _, c := range acc {
			first := c.fields[0]
			var ty string
			if first.Name == "__typename" {
				ty = "(tn)"
			} else {
				fd := g.S.Field(concrete, first.Name)
				if fd == nil {
					ty = "(sc other)"
				} else {
					var subs [][]*Node
					var subParents []string
					for _, f := range c.fields {
						if f.Sel != nil {
							subs = append(subs, f.Sel)
							subParents = append(subParents, fd.Type.Base())
						}
					}
					ty = g.shapeOfType(op, fd.Type, subs, subParents, childCtx(g.S, ctx, fd))
					if first.Name == "_entities" {
						// [_Entity!]!: exactly one entity per representation, in representation order
						var names []string
						gjson.ParseBytes(op.Values["representations"]).ForEach(func(_, v gjson.Result) bool {
							names = append(names, common.QS(v.Get("__typename").String()))
							return true
						})
						item := g.shapeOfType(op, fd.Type.Of.Of, subs, subParents, childCtx(g.S, ctx, fd))
						ty = common.L("ents", common.L(names...), item)
					}
				}
			}
			tag := "plain"
			if fd := g.S.Field(concrete, first.Name); fd != nil {
				if fd.Resolver {
					tag = "resolver"
				} else if fd.Requires != "" {
					tag = "requires"
				}
			}
			tag += ":" + ctx
			// where the service's datum for this key lives (for the S3 projection clause): the protobuf field
			// name the configured GRPCMapping gives the GraphQL field, and for a root field the RPC whose
			// response carries it -- from schema and mapping only, never from the compiled plan
			proto, rpc := first.Name, ""
			if g.M != nil {
				if tn, ok := g.M.FindFieldMapping(concrete, first.Name); ok {
					proto = tn
				}
				switch typeName {
				case "Query":
					rpc = g.M.QueryRPCs[first.Name].RPC
				case "Mutation":
					rpc = g.M.MutationRPCs[first.Name].RPC
				}
			}
			parts = append(parts, common.L("k", common.QS(c.key), common.I(first.UID), ty, tag, common.QS(proto), common.QS(rpc)))
		}
		if implicitTypename {
			has := false
			for _, c := range acc {
				if c.key == "__typename" {
					has = true
				}
			}
			if !has {
				parts = append(parts, common.L("k", common.QS("__typename"), "0", "(tn)", "plain:"))
			}
		}
		variants = append(variants, common.L(parts...))
	}
	return "(sel " + strings.Join(variants, " ") + ")"
}

// childCtx extends the position context of a field's sub-selection: a = the value is of an abstract
// type, n = it sits in a nullable or nested list (list wrapper message), r = it is the result of a
// field resolver, p = plain field below a field resolver's result, o = nullable object, l = plain list.
// Only used to describe failures.
func childCtx(s *Schema, ctx string, fd *FieldDef) string {
	if fd.Name == "_entities" {
		return ctx + "e"
	}
	t := fd.Type
	if fd.Resolver {
		ctx += "r"
	} else if fd.Requires == "" && strings.Contains(ctx, "r") {
		// p = a plain (non-resolver) field somewhere below the result of a field resolver
		ctx += "p"
	}
	if fd.Requires != "" {
		ctx += "q"
	}
	if s.IsAbstract(t.Base()) {
		ctx += "a"
	}
	wraps, nullableOuter := 0, !t.NonNull()
	for x := t; x.Kind != "named"; x = x.Of {
		if x.Kind == "list" {
			wraps++
		}
	}
	switch {
	case wraps > 1 || (wraps == 1 && nullableOuter):
		ctx += "n"
	case wraps == 1:
		ctx += "l"
	case nullableOuter:
		ctx += "o"
	}
	return ctx
}

func (g *Gen) shapeOfType(op *Op, t *TypeRef, subs [][]*Node, subParents []string, ctx string) string {
	switch t.Kind {
	case "nonnull":
		if td := g.S.Types[t.Of.Name]; t.Of.Kind == "named" && td != nil && td.Kind == "enum" {
			// Enum!: a protobuf enum number without a mapped GraphQL value (e.g. *_UNSPECIFIED) is
			// rendered as null by design; which number the service sends is its data.  Not enforced.
			return g.shapeOfType(op, t.Of, subs, subParents, ctx)
		}
		if t.Of.Kind == "named" && g.S.IsComposite(t.Of.Name) {
			// T! of an object / abstract type: whether the protobuf message is present is the
			// service's data; the builder renders an absent message as null.  Not enforced.
			return g.shapeOfType(op, t.Of, subs, subParents, ctx)
		}
		if t.Of.Kind == "list" && t.Of.Of.Kind != "named" && !(t.Of.Of.Kind == "nonnull" && t.Of.Of.Of.Kind == "named") {
			// [[..]]!: a nested list travels in a wrapper message; an absent wrapper is rendered as
			// null without the non-null check of flattenListStructure ever running.  Not enforced.
			return g.shapeOfType(op, t.Of, subs, subParents, ctx)
		}
		return common.L("nn", g.shapeOfType(op, t.Of, subs, subParents, ctx))
	case "list":
		return common.L("l", g.shapeOfType(op, t.Of, subs, subParents, ctx))
	}
	td := g.S.Types[t.Name]
	if td == nil {
		return common.L("sc", t.Name)
	}
	switch td.Kind {
	case "enum":
		parts := []string{"en"}
		for _, v := range td.Values {
			parts = append(parts, common.QS(v))
		}
		return common.L(parts...)
	case "object", "interface", "union":
		return common.L("ob", g.shapeOfSel(op, subs, subParents, t.Name, ctx))
	}
	return common.L("sc", t.Name)
}

func (g *Gen) ShapeOf(op *Op) string {
	return g.shapeOfSel(op, [][]*Node{op.Root}, []string{op.RootType()}, op.RootType(), "")
}
