package main

// Operation trees, their printer, the schema-driven generator and the reformulations.
// Every field instance of a generated base operation carries a uid; reformulations preserve
// uids (an alias-renamed, moved or duplicated field keeps the uid of the field it came from),
// which is what the consistency check (S2) aligns response positions by.

import (
	"encoding/json"
	"fmt"
	"sort"
	"strings"

	"gvh/common"

	grpcds "github.com/wundergraph/graphql-go-tools/v2/pkg/engine/datasource/grpc_datasource"
)

type Arg struct {
	Name string `json:"n"`
	Var  string `json:"v"`
}

// Node is one selection: field ("f"), inline fragment ("i") or fragment spread ("s").
type Node struct {
	Kind  string  `json:"k"`
	UID   int     `json:"u,omitempty"`
	Name  string  `json:"n,omitempty"` // field name or spread name
	Alias string  `json:"a,omitempty"`
	Args  []Arg   `json:"g,omitempty"`
	Cond  string  `json:"c,omitempty"` // inline fragment type condition
	Sel   []*Node `json:"s,omitempty"`
}

func (n *Node) Key() string {
	if n.Alias != "" {
		return n.Alias
	}
	return n.Name
}

type FragDef struct {
	Name string  `json:"n"`
	Cond string  `json:"c"`
	Sel  []*Node `json:"s"`
}
type VarDef struct {
	Name string `json:"n"`
	Type string `json:"t"`
}
type FedCfg struct {
	Type  string `json:"t"`
	Field string `json:"f,omitempty"`
	Sel   string `json:"s"`
}
type Op struct {
	Label   string                     `json:"label"`
	Kind    string                     `json:"kind"` // query | mutation
	VarDefs []VarDef                   `json:"vars,omitempty"`
	Root    []*Node                    `json:"root"`
	Frags   []*FragDef                 `json:"frags,omitempty"`
	Values  map[string]json.RawMessage `json:"values,omitempty"`
	Fed     []FedCfg                   `json:"fed,omitempty"`
	Raw     bool                       `json:"raw,omitempty"` // hand the operation to the datasource without normalisation
}

func (o *Op) RootType() string {
	if o.Kind == "mutation" {
		return "Mutation"
	}
	return "Query"
}

func cloneNodes(ns []*Node) []*Node {
	if ns == nil {
		return nil
	}
	out := make([]*Node, len(ns))
	for i, n := range ns {
		c := *n
		c.Args = append([]Arg(nil), n.Args...)
		c.Sel = cloneNodes(n.Sel)
		out[i] = &c
	}
	return out
}
func (o *Op) Clone() *Op {
	c := *o
	c.VarDefs = append([]VarDef(nil), o.VarDefs...)
	c.Root = cloneNodes(o.Root)
	c.Frags = nil
	for _, f := range o.Frags {
		c.Frags = append(c.Frags, &FragDef{Name: f.Name, Cond: f.Cond, Sel: cloneNodes(f.Sel)})
	}
	c.Fed = append([]FedCfg(nil), o.Fed...)
	return &c
}

// ---------------------------------------------------------------- printing
func printSel(sb *strings.Builder, ns []*Node) {
	sb.WriteString("{")
	for i, n := range ns {
		if i > 0 {
			sb.WriteString(" ")
		}
		switch n.Kind {
		case "f":
			if n.Alias != "" {
				sb.WriteString(n.Alias + ": ")
			}
			sb.WriteString(n.Name)
			if len(n.Args) > 0 {
				sb.WriteString("(")
				for j, a := range n.Args {
					if j > 0 {
						sb.WriteString(", ")
					}
					sb.WriteString(a.Name + ": $" + a.Var)
				}
				sb.WriteString(")")
			}
			if n.Sel != nil {
				sb.WriteString(" ")
				printSel(sb, n.Sel)
			}
		case "i":
			sb.WriteString("...")
			if n.Cond != "" {
				sb.WriteString(" on " + n.Cond)
			}
			sb.WriteString(" ")
			printSel(sb, n.Sel)
		case "s":
			sb.WriteString("..." + n.Name)
		}
	}
	sb.WriteString("}")
}

func (o *Op) Print() string {
	var sb strings.Builder
	sb.WriteString(o.Kind + " Q")
	if len(o.VarDefs) > 0 {
		sb.WriteString("(")
		for i, v := range o.VarDefs {
			if i > 0 {
				sb.WriteString(", ")
			}
			sb.WriteString("$" + v.Name + ": " + v.Type)
		}
		sb.WriteString(")")
	}
	sb.WriteString(" ")
	printSel(&sb, o.Root)
	for _, f := range o.Frags {
		sb.WriteString(" fragment " + f.Name + " on " + f.Cond + " ")
		printSel(&sb, f.Sel)
	}
	return sb.String()
}

func (o *Op) VarsJSON() string {
	keys := make([]string, 0, len(o.Values))
	used := map[string]bool{}
	for _, v := range o.VarDefs {
		used[v.Name] = true
	}
	for k := range o.Values {
		if used[k] {
			keys = append(keys, k)
		}
	}
	sort.Strings(keys)
	var sb strings.Builder
	sb.WriteString("{")
	for i, k := range keys {
		if i > 0 {
			sb.WriteString(",")
		}
		kb, _ := json.Marshal(k)
		sb.Write(kb)
		sb.WriteString(":")
		sb.Write(o.Values[k])
	}
	sb.WriteString("}")
	return sb.String()
}

// ---------------------------------------------------------------- traversal helpers
func (g *Gen) childType(parent string, n *Node, op *Op) string {
	switch n.Kind {
	case "f":
		if n.Name == "__typename" {
			return ""
		}
		fd := g.S.Field(parent, n.Name)
		if fd == nil {
			return ""
		}
		return fd.Type.Base()
	case "i":
		if n.Cond == "" {
			return parent
		}
		return n.Cond
	case "s":
		for _, f := range op.Frags {
			if f.Name == n.Name {
				return f.Cond
			}
		}
	}
	return ""
}

type selRef struct {
	items  *[]*Node
	parent string // type the items are selected on
	depth  int
	owner  *Node // nil for root / fragment definitions
	inCall bool  // inside the selection of a field-resolver or @requires field
}

// allSelSets lists every selection set of the operation (including fragment definitions).
func (g *Gen) allSelSets(op *Op) []selRef {
	var out []selRef
	var walk func(items *[]*Node, parent string, depth int, owner *Node, inCall bool)
	walk = func(items *[]*Node, parent string, depth int, owner *Node, inCall bool) {
		out = append(out, selRef{items, parent, depth, owner, inCall})
		for _, n := range *items {
			if n.Sel != nil {
				d := depth
				ic := inCall
				if n.Kind == "f" {
					d++
					if fd := g.S.Field(parent, n.Name); fd != nil && (fd.Resolver || fd.Requires != "") {
						ic = true
					}
				}
				walk(&n.Sel, g.childType(parent, n, op), d, n, ic)
			}
		}
	}
	walk(&op.Root, op.RootType(), 0, nil, false)
	for _, f := range op.Frags {
		walk(&f.Sel, f.Cond, 1, nil, true)
	}
	return out
}

func opDepth(ns []*Node) int {
	d := 0
	for _, n := range ns {
		x := 0
		if n.Sel != nil {
			x = opDepth(n.Sel)
		}
		if n.Kind == "f" {
			x++
		}
		if x > d {
			d = x
		}
	}
	return d
}

func usedVars(op *Op) map[string]bool {
	u := map[string]bool{}
	var walk func(ns []*Node)
	walk = func(ns []*Node) {
		for _, n := range ns {
			for _, a := range n.Args {
				u[a.Var] = true
			}
			walk(n.Sel)
		}
	}
	walk(op.Root)
	for _, f := range op.Frags {
		walk(f.Sel)
	}
	return u
}

func pruneVars(op *Op) {
	u := usedVars(op)
	var out []VarDef
	for _, v := range op.VarDefs {
		if u[v.Name] {
			out = append(out, v)
		}
	}
	op.VarDefs = out
}

// ---------------------------------------------------------------- generator
type Gen struct {
	S       *Schema
	M       *grpcds.GRPCMapping // configured GraphQL -> protobuf names (for the shape's S3 annotations)
	R       *common.Rand
	uid     int
	varN    int
	aliasN  int
	fragN   int
	MaxD    int
	NoResol bool
	Safe    bool // profile: avoid the constructions with known defects (see tools/props/c20.py)
	// ResolverOK: may a field-resolver field be selected at a position with this context (see childCtx)?
	ResolverOK func(ctx string) bool
}

// fields whose RPC the mock service does not implement (the service, not the datasource, fails)
var unimplemented = map[string]bool{"Subcategory.featuredCategory": true}

var strPool = []string{"1", "2", "3", "test", "popularity_score", "unavailable", "A", "electronics", "", "x y", "999"}
var idPool = []string{"1", "2", "3", "4", "7", "42", "999", "abc"}
var intPool = []int{0, 1, 2, 3, 5, 10, 100}
var floatPool = []float64{0, 0.5, 1, 2.5, 10, 99.99, 1000}

func (g *Gen) genValue(t *TypeRef, depth int) any {
	switch t.Kind {
	case "nonnull":
		return g.genValueNN(t.Of, depth)
	}
	if g.R.Chance(1, 5) || depth > 3 {
		return nil
	}
	return g.genValueNN(t, depth)
}

func (g *Gen) genValueNN(t *TypeRef, depth int) any {
	switch t.Kind {
	case "nonnull":
		return g.genValueNN(t.Of, depth)
	case "list":
		n := g.R.Pick(4)
		if depth > 3 {
			n = g.R.Pick(2)
		}
		out := make([]any, 0, n)
		for i := 0; i < n; i++ {
			out = append(out, g.genValue(t.Of, depth+1))
		}
		return out
	}
	switch t.Name {
	case "String":
		return common.PickOf(g.R, strPool)
	case "ID":
		return common.PickOf(g.R, idPool)
	case "Int":
		return common.PickOf(g.R, intPool)
	case "Float":
		return common.PickOf(g.R, floatPool)
	case "Boolean":
		return g.R.Chance(1, 2)
	}
	td := g.S.Types[t.Name]
	if td == nil {
		return nil
	}
	switch td.Kind {
	case "enum":
		return common.PickOf(g.R, td.Values)
	case "input":
		m := map[string]any{}
		for _, f := range td.Inputs {
			v := g.genValue(f.Type, depth+1)
			if v == nil && !f.Type.NonNull() && g.R.Chance(1, 2) {
				continue // omitted rather than explicit null
			}
			m[f.Name] = v
		}
		return m
	}
	return common.PickOf(g.R, strPool)
}

func (g *Gen) newVar(op *Op, t *TypeRef) string {
	g.varN++
	name := fmt.Sprintf("v%d", g.varN)
	op.VarDefs = append(op.VarDefs, VarDef{Name: name, Type: t.String()})
	b, _ := json.Marshal(g.genValue(t, 0))
	op.Values[name] = b
	return name
}

func (g *Gen) newField(op *Op, fd *FieldDef, depth int, ctx string) *Node {
	g.uid++
	n := &Node{Kind: "f", UID: g.uid, Name: fd.Name}
	for _, a := range fd.Args {
		if !a.Type.NonNull() && g.R.Chance(1, 3) {
			continue
		}
		n.Args = append(n.Args, Arg{Name: a.Name, Var: g.newVar(op, a.Type)})
	}
	base := fd.Type.Base()
	if g.S.IsComposite(base) {
		n.Sel = g.genSel(op, base, depth+1, false, childCtx(g.S, ctx, fd))
	}
	return n
}

func (g *Gen) typenameField() *Node {
	g.uid++
	return &Node{Kind: "f", UID: g.uid, Name: "__typename"}
}

// selectable fields of a type outside of the entity root: no @external / @requires fields.
func (g *Gen) candidates(t *TypeDef, depth int, entityRoot bool, ctx string) []*FieldDef {
	var out []*FieldDef
	for _, f := range t.Fields {
		if strings.HasPrefix(f.Name, "__") || f.Name == "_entities" || f.Name == "_service" {
			continue
		}
		if f.External || unimplemented[t.Name+"."+f.Name] {
			continue
		}
		if f.Requires != "" && !entityRoot {
			continue
		}
		if f.Resolver && (g.NoResol || (g.ResolverOK != nil && !g.ResolverOK(ctx))) {
			continue
		}
		if depth >= g.MaxD && g.S.IsComposite(f.Type.Base()) {
			continue
		}
		out = append(out, f)
	}
	return out
}

func (g *Gen) pickFields(op *Op, t *TypeDef, depth int, entityRoot bool, min int, ctx string) []*Node {
	c := g.candidates(t, depth, entityRoot, ctx)
	if len(c) == 0 {
		return nil
	}
	k := min + g.R.Pick(4)
	if k > len(c) {
		k = len(c)
	}
	perm := g.R.Perm(len(c))
	idx := append([]int(nil), perm[:k]...)
	sort.Ints(idx)
	var out []*Node
	for _, i := range idx {
		out = append(out, g.newField(op, c[i], depth, ctx))
	}
	return out
}

func (g *Gen) genSel(op *Op, typeName string, depth int, entityRoot bool, ctx string) []*Node {
	t := g.S.Types[typeName]
	var out []*Node
	switch t.Kind {
	case "object":
		out = g.pickFields(op, t, depth, entityRoot, 1, ctx)
		if g.R.Chance(1, 5) || len(out) == 0 {
			out = append(out, g.typenameField())
		}
	case "interface", "union":
		if t.Kind == "interface" {
			out = g.pickFields(op, t, depth, false, 0, ctx)
		}
		if g.R.Chance(1, 2) {
			out = append(out, g.typenameField())
		}
		for _, m := range t.Possible {
			if g.R.Chance(2, 3) {
				sel := g.pickFields(op, g.S.Types[m], depth, false, 1, ctx)
				if g.R.Chance(1, 6) {
					sel = append(sel, g.typenameField())
				}
				if len(sel) > 0 {
					out = append(out, &Node{Kind: "i", Cond: m, Sel: sel})
				}
			}
		}
		if len(out) == 0 {
			out = append(out, g.typenameField())
		}
		if g.R.Chance(1, 3) {
			g.R.Shuffle(len(out), func(i, j int) { out[i], out[j] = out[j], out[i] })
		}
	}
	return out
}

func (g *Gen) rootCandidates(rootType string) []*FieldDef {
	var out []*FieldDef
	for _, f := range g.S.Types[rootType].Fields {
		if strings.HasPrefix(f.Name, "_") {
			continue
		}
		out = append(out, f)
	}
	return out
}

// GenOp generates a base operation.  mode: "query" | "mutation" | "entity".
func (g *Gen) GenOp(mode string) *Op {
	g.MaxD = 2 + g.R.Pick(4)
	g.NoResol = g.R.Chance(1, 4)
	if g.Safe {
		// known findings: a field resolver below a union / interface value (a), or below a plain field of
		// another field resolver's result (p)
		g.ResolverOK = func(ctx string) bool { return !strings.ContainsAny(ctx, "ap") }
	} else {
		g.ResolverOK = nil
	}
	op := &Op{Kind: "query", Values: map[string]json.RawMessage{}}
	switch mode {
	case "mutation":
		op.Kind = "mutation"
		c := g.rootCandidates("Mutation")
		op.Root = []*Node{g.newField(op, common.PickOf(g.R, c), 0, "")}
	case "entity":
		g.genEntityOp(op)
	default:
		c := g.rootCandidates("Query")
		n := 1
		if g.R.Chance(1, 4) {
			n = 2
		}
		if g.R.Chance(1, 20) {
			n = 3
		}
		seen := map[string]bool{}
		for i := 0; i < n; i++ {
			fd := common.PickOf(g.R, c)
			if seen[fd.Name] {
				continue
			}
			seen[fd.Name] = true
			op.Root = append(op.Root, g.newField(op, fd, 0, ""))
		}
	}
	return op
}

// ---- entity operations
func (g *Gen) genEntityOp(op *Op) {
	var ent []string
	for _, e := range g.S.Types["_Entity"].Possible {
		if e != "Warehouse" { // the mock's LookupWarehouseById deliberately returns one entity too few
			ent = append(ent, e)
		}
	}
	var chosen []string
	for _, e := range ent {
		if g.R.Chance(1, 2) {
			chosen = append(chosen, e)
		}
	}
	if len(chosen) == 0 {
		chosen = []string{common.PickOf(g.R, ent)}
	}
	if len(chosen) > 2 {
		chosen = chosen[:2]
	}
	// (follow-up calls -- @requires fields, field resolvers -- on a batch over two entity types were a
	// finding, repaired: they are generated in every profile)
	plainOnly := false
	g.uid++
	root := &Node{Kind: "f", UID: g.uid, Name: "_entities", Args: []Arg{{Name: "representations", Var: "representations"}}}
	op.VarDefs = append(op.VarDefs, VarDef{Name: "representations", Type: "[_Any!]!"})
	needed := map[string][]string{} // type -> @requires selections whose externals must be in the representations
	for _, e := range chosen {
		t := g.S.Types[e]
		sel := g.pickFields(op, t, 1, !plainOnly, 1, "e")
		if g.R.Chance(1, 3) {
			sel = append(sel, g.typenameField())
		}
		root.Sel = append(root.Sel, &Node{Kind: "i", Cond: e, Sel: sel})
		op.Fed = append(op.Fed, FedCfg{Type: e, Sel: t.Key})
		for _, f := range t.Fields {
			if f.Requires != "" {
				op.Fed = append(op.Fed, FedCfg{Type: e, Field: f.Name, Sel: f.Requires})
			}
		}
		for _, n := range sel {
			if fd := g.S.Field(e, n.Name); fd != nil && fd.Requires != "" {
				needed[e] = append(needed[e], fd.Requires)
			}
		}
	}
	// (no __typename directly under _entities: the federation plan visitor dereferences a nil
	// response message there -- NewDataSource panics; the engine's own planner never emits it)
	op.Root = []*Node{root}
	nrep := 1 + g.R.Pick(4)
	var reps []any
	for i := 0; i < nrep; i++ {
		e := common.PickOf(g.R, chosen)
		rep := map[string]any{"__typename": e, "id": common.PickOf(g.R, idPool[:6])}
		for _, rs := range needed[e] {
			sel, err := parseFieldSet(rs)
			if err != nil {
				continue
			}
			g.fillFromSel(rep, e, sel)
		}
		reps = append(reps, rep)
	}
	b, _ := json.Marshal(reps)
	op.Values["representations"] = b
}

// fillFromSel adds values for the selected fields of concrete type typeName to obj.
func (g *Gen) fillFromSel(obj map[string]any, typeName string, sel []*Node) {
	for _, n := range sel {
		switch n.Kind {
		case "f":
			if n.Name == "__typename" {
				obj["__typename"] = typeName
				continue
			}
			if ex, ok := obj[n.Name]; ok {
				// a second @requires selection over the same external field: complete the value
				if fd := g.S.Field(typeName, n.Name); fd != nil && n.Sel != nil {
					g.mergeInto(ex, fd.Type.Base(), n.Sel)
				}
				continue
			}
			fd := g.S.Field(typeName, n.Name)
			if fd == nil {
				continue
			}
			obj[n.Name] = g.genOutValue(fd.Type, n.Sel, 0)
		case "i":
			if n.Cond == "" || g.S.TypeApplies(n.Cond, typeName) {
				g.fillFromSel(obj, typeName, n.Sel)
			}
		}
	}
}

func (g *Gen) mergeInto(v any, base string, sel []*Node) {
	switch x := v.(type) {
	case map[string]any:
		concrete := base
		if g.S.IsAbstract(base) {
			if tn, ok := x["__typename"].(string); ok {
				concrete = tn
			}
		}
		g.fillFromSel(x, concrete, sel)
	case []any:
		for _, it := range x {
			g.mergeInto(it, base, sel)
		}
	}
}

func (g *Gen) genOutValue(t *TypeRef, sel []*Node, depth int) any {
	switch t.Kind {
	case "nonnull":
		return g.genOutValueNN(t.Of, sel, depth)
	}
	if g.R.Chance(1, 6) {
		return nil
	}
	return g.genOutValueNN(t, sel, depth)
}
func (g *Gen) genOutValueNN(t *TypeRef, sel []*Node, depth int) any {
	switch t.Kind {
	case "nonnull":
		return g.genOutValueNN(t.Of, sel, depth)
	case "list":
		n := g.R.Pick(4)
		out := make([]any, 0, n)
		for i := 0; i < n; i++ {
			out = append(out, g.genOutValue(t.Of, sel, depth+1))
		}
		return out
	}
	if g.S.IsComposite(t.Name) {
		poss := g.S.PossibleOf(t.Name)
		m := common.PickOf(g.R, poss)
		obj := map[string]any{}
		if g.S.IsAbstract(t.Name) {
			obj["__typename"] = m
		}
		g.fillFromSel(obj, m, sel)
		return obj
	}
	return g.genValueNN(t, depth)
}

// parseFieldSet parses a federation field set ("a b { c } ... on T { d }") into nodes.
func parseFieldSet(s string) ([]*Node, error) {
	toks := tokenizeFieldSet(s)
	pos := 0
	var parse func() ([]*Node, error)
	parse = func() ([]*Node, error) {
		var out []*Node
		for pos < len(toks) {
			t := toks[pos]
			switch {
			case t == "}":
				return out, nil
			case t == "...":
				pos++
				cond := ""
				if pos < len(toks) && toks[pos] == "on" {
					pos++
					cond = toks[pos]
					pos++
				}
				if pos >= len(toks) || toks[pos] != "{" {
					return nil, fmt.Errorf("expected { in field set")
				}
				pos++
				sel, err := parse()
				if err != nil {
					return nil, err
				}
				pos++ // }
				out = append(out, &Node{Kind: "i", Cond: cond, Sel: sel})
			case t == "{":
				return nil, fmt.Errorf("unexpected { in field set")
			default:
				pos++
				n := &Node{Kind: "f", Name: t}
				if pos < len(toks) && toks[pos] == "{" {
					pos++
					sel, err := parse()
					if err != nil {
						return nil, err
					}
					pos++
					n.Sel = sel
				}
				out = append(out, n)
			}
		}
		return out, nil
	}
	return parse()
}

func tokenizeFieldSet(s string) []string {
	var toks []string
	i := 0
	for i < len(s) {
		c := s[i]
		switch {
		case c == ' ' || c == '\n' || c == '\t' || c == ',':
			i++
		case c == '{' || c == '}':
			toks = append(toks, string(c))
			i++
		case strings.HasPrefix(s[i:], "..."):
			toks = append(toks, "...")
			i += 3
		default:
			j := i
			for j < len(s) && (s[j] == '_' || (s[j] >= '0' && s[j] <= '9') || (s[j] >= 'a' && s[j] <= 'z') || (s[j] >= 'A' && s[j] <= 'Z')) {
				j++
			}
			if j == i {
				j = i + 1
			}
			toks = append(toks, s[i:j])
			i = j
		}
	}
	return toks
}

// ---------------------------------------------------------------- reformulations
func (g *Gen) isEntityRootSel(op *Op, r selRef) bool {
	return r.owner != nil && r.owner.Kind == "f" && r.owner.Name == "_entities"
}

func (g *Gen) rfAlias(op *Op) {
	var walk func(ns []*Node)
	walk = func(ns []*Node) {
		for _, n := range ns {
			if n.Kind == "f" && n.Name != "_entities" && g.R.Chance(1, 2) {
				g.aliasN++
				n.Alias = fmt.Sprintf("a%d", g.aliasN)
			}
			walk(n.Sel)
		}
	}
	walk(op.Root)
	for _, f := range op.Frags {
		walk(f.Sel)
	}
}

func (g *Gen) rfReorder(op *Op) {
	for _, r := range g.allSelSets(op) {
		items := *r.items
		g.R.Shuffle(len(items), func(i, j int) { items[i], items[j] = items[j], items[i] })
	}
}

func (g *Gen) rfDuplicate(op *Op) {
	sets := g.allSelSets(op)
	for tries := 0; tries < 8; tries++ {
		r := common.PickOf(g.R, sets)
		var fields []*Node
		for _, n := range *r.items {
			if n.Kind == "f" && n.Name != "_entities" {
				fields = append(fields, n)
			}
		}
		if len(fields) == 0 {
			continue
		}
		src := common.PickOf(g.R, fields)
		c := cloneNodes([]*Node{src})[0]
		if g.R.Chance(1, 2) {
			g.aliasN++
			c.Alias = fmt.Sprintf("a%d", g.aliasN)
		}
		pos := g.R.Pick(len(*r.items) + 1)
		items := append([]*Node(nil), (*r.items)[:pos]...)
		items = append(items, c)
		items = append(items, (*r.items)[pos:]...)
		*r.items = items
		return
	}
}

func (g *Gen) rfFragment(op *Op) {
	sets := g.allSelSets(op)
	for tries := 0; tries < 8; tries++ {
		r := common.PickOf(g.R, sets)
		if r.parent == "" || len(*r.items) == 0 || r.depth == 0 {
			continue // the datasource does not support fragments on the operation root type
		}
		if g.isEntityRootSel(op, r) {
			continue
		}
		items := *r.items
		var moved, kept []*Node
		for _, n := range items {
			if g.R.Chance(1, 2) {
				moved = append(moved, n)
			} else {
				kept = append(kept, n)
			}
		}
		if len(moved) == 0 {
			moved, kept = items[:1], items[1:]
		}
		var repl *Node
		if g.R.Chance(1, 2) {
			repl = &Node{Kind: "i", Cond: r.parent, Sel: moved}
			if g.R.Chance(1, 4) {
				repl.Cond = "" // "... { }" without type condition
			}
		} else {
			g.fragN++
			name := fmt.Sprintf("F%d", g.fragN)
			op.Frags = append(op.Frags, &FragDef{Name: name, Cond: r.parent, Sel: moved})
			repl = &Node{Kind: "s", Name: name}
		}
		pos := g.R.Pick(len(kept) + 1)
		out := append([]*Node(nil), kept[:pos]...)
		out = append(out, repl)
		out = append(out, kept[pos:]...)
		*r.items = out
		return
	}
}

func (g *Gen) rfSubset(op *Op) {
	for _, r := range g.allSelSets(op) {
		if g.isEntityRootSel(op, r) {
			continue
		}
		items := *r.items
		if len(items) < 2 {
			continue
		}
		var kept []*Node
		for _, n := range items {
			if !g.R.Chance(1, 3) {
				kept = append(kept, n)
			}
		}
		if len(kept) == 0 {
			kept = []*Node{common.PickOf(g.R, items)}
		}
		*r.items = kept
	}
	// drop fragment definitions that are no longer spread anywhere
	used := map[string]bool{}
	var walk func(ns []*Node)
	walk = func(ns []*Node) {
		for _, n := range ns {
			if n.Kind == "s" {
				if !used[n.Name] {
					used[n.Name] = true
					for _, f := range op.Frags {
						if f.Name == n.Name {
							walk(f.Sel)
						}
					}
				}
			}
			walk(n.Sel)
		}
	}
	walk(op.Root)
	var fr []*FragDef
	for _, f := range op.Frags {
		if used[f.Name] {
			fr = append(fr, f)
		}
	}
	op.Frags = fr
	pruneVars(op)
}

var rfNames = []string{"alias", "reorder", "duplicate", "fragment", "subset"}

// Reformulate applies 1-3 random reformulation steps to a copy of op.
func (g *Gen) Reformulate(op *Op) *Op {
	c := op.Clone()
	k := 1 + g.R.Pick(3)
	var names []string
	for i := 0; i < k; i++ {
		w := g.R.Pick(len(rfNames))
		names = append(names, rfNames[w])
		switch w {
		case 0:
			g.rfAlias(c)
		case 1:
			g.rfReorder(c)
		case 2:
			g.rfDuplicate(c)
		case 3:
			g.rfFragment(c)
		case 4:
			g.rfSubset(c)
		}
	}
	c.Label = strings.Join(names, "+")
	return c
}
