// c20: drives the gRPC datasource (v2/pkg/engine/datasource/grpc_datasource) against the repo's own
// mapped schema and in-process mock service (v2/pkg/grpctest) through DataSource.Load, on generated
// operations and their reformulations, and prints per group of runs: the expected shape of every
// operation (from operation + schema), the JSON Load returned, the compiled response plan of every
// RPC call in execution order and the raw protobuf response of every call as a value tree.
//
//	c20 gen    -seed S -n N -out FILE
//	c20 corpus -in FILE -out FILE          (FILE: one JSON group {"ops":[...]} per line)
//	c20 race   -seed S -n N                (concurrent Load on one DataSource vs sequential; exit 3 on difference)
package main

import (
	"bufio"
	"context"
	"encoding/json"
	"fmt"
	"hash/fnv"
	"net"
	"os"
	"runtime/debug"
	"sort"
	"strings"
	"sync"

	"github.com/tidwall/gjson"
	"google.golang.org/grpc"
	"google.golang.org/grpc/credentials/insecure"
	"google.golang.org/grpc/test/bufconn"
	"google.golang.org/protobuf/proto"
	protoref "google.golang.org/protobuf/reflect/protoreflect"

	"gvh/common"

	"github.com/wundergraph/graphql-go-tools/v2/pkg/ast"
	"github.com/wundergraph/graphql-go-tools/v2/pkg/astnormalization"
	"github.com/wundergraph/graphql-go-tools/v2/pkg/astparser"
	"github.com/wundergraph/graphql-go-tools/v2/pkg/astprinter"
	"github.com/wundergraph/graphql-go-tools/v2/pkg/astvalidation"
	grpcds "github.com/wundergraph/graphql-go-tools/v2/pkg/engine/datasource/grpc_datasource"
	"github.com/wundergraph/graphql-go-tools/v2/pkg/engine/plan"
	"github.com/wundergraph/graphql-go-tools/v2/pkg/grpctest"
	"github.com/wundergraph/graphql-go-tools/v2/pkg/grpctest/mapping"
	"github.com/wundergraph/graphql-go-tools/v2/pkg/grpctest/productv1"
	"github.com/wundergraph/graphql-go-tools/v2/pkg/operationreport"
)

// ---------------------------------------------------------------- environment
type Env struct {
	schemaDoc ast.Document
	schema    *Schema
	compiler  *grpcds.RPCCompiler
	mapping   *grpcds.GRPCMapping
	conn      *grpc.ClientConn
	cleanup   func()
}

func setup() *Env {
	e := &Env{}
	doc, err := grpctest.GraphQLSchema()
	if err != nil {
		panic(err)
	}
	e.schemaDoc = doc
	e.schema = BuildSchema(&e.schemaDoc)
	e.mapping = mapping.DefaultGRPCMapping()
	ps, err := grpctest.ProtoSchema()
	if err != nil {
		panic(err)
	}
	e.compiler, err = grpcds.NewProtoCompiler(ps, e.mapping)
	if err != nil {
		panic(err)
	}
	lis := bufconn.Listen(1024 * 1024)
	// a panic inside the mock service is the service failing, not the datasource
	server := grpc.NewServer(grpc.UnaryInterceptor(func(ctx context.Context, req any, _ *grpc.UnaryServerInfo, h grpc.UnaryHandler) (resp any, err error) {
		defer func() {
			if r := recover(); r != nil {
				err = fmt.Errorf("mock service panic: %v", r)
			}
		}()
		return h(ctx, req)
	}))
	productv1.RegisterProductServiceServer(server, &grpctest.MockService{})
	go func() { _ = server.Serve(lis) }()
	conn, err := grpc.NewClient("passthrough:///bufnet",
		grpc.WithTransportCredentials(insecure.NewCredentials()),
		grpc.WithContextDialer(func(context.Context, string) (net.Conn, error) { return lis.Dial() }),
		grpc.WithLocalDNSResolution())
	if err != nil {
		panic(err)
	}
	e.conn = conn
	e.cleanup = func() { conn.Close(); server.Stop(); lis.Close() }
	return e
}

// memoTransport makes the service a function of (method, request) for the lifetime of one group:
// the first call goes to the real service over gRPC, later identical calls are answered from the
// record.  (The mock service draws some values at random; "the service data" of the property is
// one fixed answer per request.)  It also keeps the raw responses for the plan/protobuf dump.
type memoEntry struct {
	id   int
	wire []byte
	err  error
}
type memoTransport struct {
	mutSeed uint64 // != 0: the service's answers are perturbed (see mutateMsg)
	inner   grpcds.RPCTransport
	mu      sync.Mutex
	memo    map[string]*memoEntry
	order   []*memoEntry
	dumps   map[int]string
	svcErr  int
}

func newMemo(inner grpcds.RPCTransport) *memoTransport {
	return &memoTransport{inner: inner, memo: map[string]*memoEntry{}, dumps: map[int]string{}}
}

func (t *memoTransport) Invoke(ctx context.Context, method string, in, out protoref.Message) error {
	kb, err := proto.MarshalOptions{Deterministic: true}.Marshal(in.Interface())
	if err != nil {
		return err
	}
	key := method + "\x00" + string(kb)
	t.mu.Lock()
	e, ok := t.memo[key]
	t.mu.Unlock()
	if ok {
		if e.err != nil {
			t.mu.Lock()
			t.svcErr++
			t.mu.Unlock()
			return e.err
		}
		return proto.Unmarshal(e.wire, out.Interface())
	}
	err = t.inner.Invoke(ctx, method, in, out)
	ne := &memoEntry{err: err}
	if err == nil && t.mutSeed != 0 {
		h := fnv.New64a()
		h.Write([]byte(key))
		mutateMsg(out, common.NewRand(t.mutSeed^h.Sum64()), 0)
	}
	if err == nil {
		ne.wire, err = proto.MarshalOptions{Deterministic: true}.Marshal(out.Interface())
		if err != nil {
			return err
		}
	}
	t.mu.Lock()
	if ex, ok := t.memo[key]; ok {
		ne = ex
	} else {
		ne.id = len(t.order)
		t.memo[key] = ne
		t.order = append(t.order, ne)
	}
	if ne.err != nil {
		t.svcErr++
	}
	t.mu.Unlock()
	if ne.err != nil {
		return ne.err
	}
	// answer from the record even the first time, so that every run sees the very same bytes
	proto.Reset(out.Interface())
	return proto.Unmarshal(ne.wire, out.Interface())
}

func (t *memoTransport) idOf(method string, in protoref.Message) int {
	kb, _ := proto.MarshalOptions{Deterministic: true}.Marshal(in.Interface())
	t.mu.Lock()
	defer t.mu.Unlock()
	if e, ok := t.memo[method+"\x00"+string(kb)]; ok {
		return e.id
	}
	return -1
}

// mutateMsg perturbs an answer of the service in ways a real service could answer: message fields
// left unset (also the set member of a oneof, also list wrappers), lists cut short, enum numbers the
// schema does not declare.  This is the "malformed" stream: it drives the builder's null / absent /
// default / error branches; such groups are checked for model correspondence and consistency only.
func mutateMsg(m protoref.Message, r *common.Rand, depth int) {
	var fds []protoref.FieldDescriptor
	m.Range(func(fd protoref.FieldDescriptor, _ protoref.Value) bool { fds = append(fds, fd); return true })
	sort.Slice(fds, func(i, j int) bool { return fds[i].Number() < fds[j].Number() })
	for _, fd := range fds {
		switch {
		case fd.IsMap():
		case fd.IsList():
			l := m.Mutable(fd).List()
			if l.Len() > 0 && r.Chance(1, 6) {
				l.Truncate(r.Pick(l.Len()))
			}
			if fd.Kind() == protoref.MessageKind {
				for i := 0; i < l.Len(); i++ {
					mutateMsg(l.Get(i).Message(), r, depth+1)
				}
			}
		case fd.Kind() == protoref.MessageKind:
			if depth > 0 && r.Chance(1, 8) {
				m.Clear(fd)
			} else {
				mutateMsg(m.Mutable(fd).Message(), r, depth+1)
			}
		case fd.Kind() == protoref.EnumKind:
			if r.Chance(1, 8) {
				m.Set(fd, protoref.ValueOfEnum(protoref.EnumNumber(4242)))
			}
		}
	}
}

// ---------------------------------------------------------------- one run
type runResult struct {
	sexp    string
	outcome string // ok | errors | planerr | invalid | badjson
	ncalls  int
	kinds   map[string]int
}

func pathSexp(p ast.Path) string {
	parts := make([]string, 0, len(p))
	for _, it := range p {
		if it.Kind == ast.FieldName {
			parts = append(parts, common.QS(string(it.FieldName)))
		} else {
			parts = append(parts, common.QS(fmt.Sprintf("#%d", it.ArrayIndex)))
		}
	}
	return common.L(parts...)
}

var kindNames = map[grpcds.CallKind]string{grpcds.CallKindStandard: "std", grpcds.CallKindEntity: "entity", grpcds.CallKindResolve: "resolve", grpcds.CallKindRequired: "required"}

func (e *Env) prepare(op *Op) (doc *ast.Document, text string, vars string, err error) {
	text = op.Print()
	vars = op.VarsJSON()
	d, rep := astparser.ParseGraphqlDocumentString(text)
	if rep.HasErrors() {
		return nil, text, vars, fmt.Errorf("parse: %s", rep.Error())
	}
	report := &operationreport.Report{}
	if !op.Raw {
		d.Input.Variables = []byte(vars)
		norm := astnormalization.NewWithOpts(
			astnormalization.WithExtractVariables(),
			astnormalization.WithRemoveFragmentDefinitions(),
			astnormalization.WithRemoveUnusedVariables(),
			astnormalization.WithInlineFragmentSpreads(),
		)
		norm.NormalizeOperation(&d, &e.schemaDoc, report)
		if report.HasErrors() {
			return nil, text, vars, fmt.Errorf("normalize: %s", report.Error())
		}
		if len(d.Input.Variables) > 0 {
			vars = string(d.Input.Variables)
		}
	}
	astvalidation.DefaultOperationValidator().Validate(&d, &e.schemaDoc, report)
	if report.HasErrors() {
		return nil, text, vars, fmt.Errorf("validate: %s", report.Error())
	}
	if !op.Raw {
		printed, perr := astprinter.PrintString(&d)
		if perr != nil {
			return nil, text, vars, fmt.Errorf("print: %v", perr)
		}
		text = printed
		d2, rep2 := astparser.ParseGraphqlDocumentString(printed)
		if rep2.HasErrors() {
			return nil, text, vars, fmt.Errorf("reparse: %s", rep2.Error())
		}
		d = d2
	}
	return &d, text, vars, nil
}

// entityFeature: none | single | multi (entity operation that looks up >= 2 entity types)
func entityFeature(op *Op) string {
	n := 0
	for _, f := range op.Fed {
		if f.Field == "" {
			n++
		}
	}
	switch {
	case n == 0:
		return "none"
	case n == 1:
		return "single"
	}
	return "multi"
}

func fedConfigs(op *Op) plan.FederationFieldConfigurations {
	var out plan.FederationFieldConfigurations
	for _, f := range op.Fed {
		out = append(out, plan.FederationFieldConfiguration{TypeName: f.Type, FieldName: f.Field, SelectionSet: f.Sel})
	}
	return out
}

func (e *Env) run(g *Gen, op *Op, memo *memoTransport) runResult {
	res := runResult{kinds: map[string]int{}}
	shape := g.ShapeOf(op)
	head := []string{"run", common.QS(op.Label), common.B(op.Raw)}
	doc, text, vars, err := e.prepare(op)
	if err != nil {
		res.outcome = "invalid"
		res.sexp = common.L(append(head, common.L("q", common.QS(op.Print())), common.L("invalid", common.QS(err.Error())))...)
		return res
	}
	head = append(head, common.L("q", common.QS(text)), common.L("vars", common.QS(vars)), common.L("shape", shape), common.L("feat", entityFeature(op)))
	cfg := grpcds.DataSourceConfig{Operation: doc, Definition: &e.schemaDoc, SubgraphName: "Products",
		Compiler: e.compiler, Mapping: e.mapping, FederationConfigs: fedConfigs(op)}
	ds, err := func() (d *grpcds.DataSource, err error) {
		defer func() {
			if r := recover(); r != nil {
				err = fmt.Errorf("panic: %v", r)
			}
		}()
		return grpcds.NewDataSource(memo, cfg)
	}()
	if err != nil {
		res.outcome = "planerr"
		res.sexp = common.L(append(head, common.L("planerr", common.QS(err.Error())))...)
		return res
	}
	input := `{"query":` + jsonString(text) + `,"body":{"variables":` + vars + `}}`
	before := memo.svcErr
	out, lerr := func() (o []byte, err error) {
		defer func() {
			if r := recover(); r != nil {
				err = fmt.Errorf("panic: %v", r)
				if os.Getenv("C20_STACK") != "" {
					fmt.Fprintf(os.Stderr, "PANIC %v\n%s\n", r, debug.Stack())
				}
			}
		}()
		return ds.Load(context.Background(), nil, []byte(input))
	}()
	svcErr := memo.svcErr > before
	if lerr != nil {
		res.outcome = "loaderr"
		res.sexp = common.L(append(head, common.L("loaderr", common.QS(lerr.Error())))...)
		return res
	}
	js, jerr := jsonToSexp(out)
	if jerr != nil {
		res.outcome = "badjson"
		res.sexp = common.L(append(head, common.L("badjson", common.Q(out)))...)
		return res
	}
	head = append(head, common.L("out", js), common.L("svcerr", common.B(svcErr)))
	if gjson.GetBytes(out, "errors").Exists() {
		res.outcome = "errors"
	} else {
		res.outcome = "ok"
	}
	// shadow execution through the public API with the same (memoised) transport: yields, for every
	// call in the order Load merges them, the response plan and the raw protobuf answer
	calls, cerr := e.shadow(op, text, vars, memo)
	if cerr != nil {
		head = append(head, common.L("nocalls", common.QS(cerr.Error())))
	} else {
		parts := []string{"calls"}
		for _, c := range calls {
			parts = append(parts, c.sexp)
			res.kinds[c.kind]++
		}
		res.ncalls = len(calls)
		head = append(head, common.L(parts...))
	}
	res.sexp = common.L(head...)
	return res
}

type shadowCall struct {
	sexp string
	kind string
}

func (e *Env) shadow(op *Op, text, vars string, memo *memoTransport) (out []shadowCall, err error) {
	d, rep := astparser.ParseGraphqlDocumentString(text)
	if rep.HasErrors() {
		return nil, fmt.Errorf("reparse: %s", rep.Error())
	}
	defer func() {
		if r := recover(); r != nil {
			out, err = nil, fmt.Errorf("panic: %v", r)
		}
	}()
	planner, err := grpcds.NewPlanner("Products", e.mapping, fedConfigs(op))
	if err != nil {
		return nil, err
	}
	p, err := planner.PlanOperation(&d, &e.schemaDoc)
	if err != nil {
		return nil, err
	}
	variables := gjson.Parse(`{"body":{"variables":` + vars + `}}`).Get("body.variables")
	reps := variables.Get("representations").Array()
	graph := grpcds.NewDependencyGraph(p)
	err = graph.TopologicalSortResolve(func(nodes []grpcds.FetchItem) error {
		serviceCalls, err := e.compiler.CompileFetches(graph, nodes, variables)
		if err != nil {
			return err
		}
		for i := range serviceCalls {
			sc := &serviceCalls[i]
			if err := memo.Invoke(context.Background(), sc.MethodFullName(), sc.Input, sc.Output); err != nil {
				return err
			}
			id := memo.idOf(sc.MethodFullName(), sc.Input)
			if _, ok := memo.dumps[id]; !ok {
				memo.dumps[id] = dumpProto(sc.Output)
			}
			idx := []string{}
			if sc.RPC.Kind == grpcds.CallKindEntity {
				for k, r := range reps {
					if r.Get("__typename").String() == sc.RPC.RequestedEntityType {
						idx = append(idx, common.I(k))
					}
				}
			}
			kind := kindNames[sc.RPC.Kind]
			// a follow-up call (@requires, field resolver) of an entity lookup: the positions of the
			// representations of the entity type it belongs to (what Load hands to mergeWithPath)
			ents := "none"
			if sc.RPC.Kind == grpcds.CallKindResolve || sc.RPC.Kind == grpcds.CallKindRequired {
				if et := entityTypeOf(p, sc.RPC); et != "" {
					pos := []string{"ents"}
					for k, r := range reps {
						if r.Get("__typename").String() == et {
							pos = append(pos, common.I(k))
						}
					}
					ents = common.L(pos...)
				}
			}
			out = append(out, shadowCall{kind: kind, sexp: common.L("call", kind, pathSexp(sc.RPC.ResponsePath),
				dumpPlanMessage(&sc.RPC.Response, map[*grpcds.RPCMessage]bool{}), common.I(id), common.L(idx...),
				common.I(len(reps)), common.QS(sc.MethodName), ents)})
		}
		return nil
	})
	return out, err
}

// entityTypeOf: the entity type whose representations a call works on, from the public plan alone: the
// requested type of an entity lookup, the member type of the key message of a @requires call, and for a
// field resolver the type of the lookup it (transitively) depends on; "" outside of an entity lookup.
func entityTypeOf(p *grpcds.RPCExecutionPlan, c *grpcds.RPCCall) string {
	switch c.Kind {
	case grpcds.CallKindEntity:
		return c.RequestedEntityType
	case grpcds.CallKindRequired:
		if ctx := c.Request.Fields.ByName("context"); ctx != nil && ctx.Message != nil {
			if key := ctx.Message.Fields.ByName("key"); key != nil && key.Message != nil && len(key.Message.MemberTypes) == 1 {
				return key.Message.MemberTypes[0]
			}
		}
	case grpcds.CallKindResolve:
		for _, id := range c.DependentCalls {
			for i := range p.Calls {
				if p.Calls[i].ID == id {
					return entityTypeOf(p, &p.Calls[i])
				}
			}
		}
	}
	return ""
}

func jsonString(s string) string {
	b, _ := json.Marshal(s)
	return string(b)
}

// percentage of groups generated with the unrestricted ("wild") profile
var wildNum = 20

// percentage of groups whose service answers are perturbed
var mutNum = 15

// ---------------------------------------------------------------- groups
type Group struct {
	Ops     []*Op  `json:"ops"`
	MutSeed uint64 `json:"mut,omitempty"` // != 0: perturb the service's answers with this seed
}

func (e *Env) enumsSexp() string {
	names := make([]string, 0, len(e.mapping.EnumValues))
	for k := range e.mapping.EnumValues {
		names = append(names, k)
	}
	sort.Strings(names)
	parts := []string{"enums"}
	for _, n := range names {
		p := []string{common.QS(n)}
		for _, ev := range e.mapping.EnumValues[n] {
			p = append(p, common.L(common.QS(ev.Value), common.QS(ev.TargetValue)))
		}
		parts = append(parts, common.L(p...))
	}
	return common.L(parts...)
}

type stats struct {
	outcomes map[string]int
	kinds    map[string]int
	labels   map[string]int
	depth    map[int]int
	modes    map[string]int
	calls    int
	runs     int
}

func newStats() *stats {
	return &stats{outcomes: map[string]int{}, kinds: map[string]int{}, labels: map[string]int{}, depth: map[int]int{}, modes: map[string]int{}}
}

func (e *Env) runGroup(g *Gen, grp *Group, st *stats) string {
	memo := newMemo(grpcds.NewGRPCTransport(e.conn))
	memo.mutSeed = grp.MutSeed
	head := "c20"
	if grp.MutSeed != 0 {
		head = "c20m"
		st.modes["perturbed-answers"]++
	}
	var runs []string
	nontrivial := false
	depth := opDepth(grp.Ops[0].Root)
	if depth >= 3 {
		nontrivial = true
	}
	for i, op := range grp.Ops {
		r := e.run(g, op, memo)
		runs = append(runs, r.sexp)
		st.outcomes[r.outcome]++
		st.runs++
		st.calls += r.ncalls
		for k, v := range r.kinds {
			st.kinds[k] += v
		}
		if i > 0 {
			for _, l := range strings.Split(op.Label, "+") {
				st.labels[l]++
				if l != "reorder" {
					nontrivial = true
				}
			}
		}
	}
	st.depth[depth]++
	ids := make([]int, 0, len(memo.dumps))
	for id := range memo.dumps {
		ids = append(ids, id)
	}
	sort.Ints(ids)
	resps := []string{"resps"}
	for _, id := range ids {
		resps = append(resps, common.L(common.I(id), memo.dumps[id]))
	}
	ob, _ := json.Marshal(grp)
	return common.L(head, common.B(nontrivial), e.enumsSexp(), common.L(resps...), common.L(append([]string{"runs"}, runs...)...),
		common.L("ops", common.Q(ob)))
}

func (e *Env) genGroup(g *Gen, st *stats) *Group {
	mode := "query"
	switch x := g.R.Pick(20); {
	case x < 3:
		mode = "mutation"
	case x < 6:
		mode = "entity"
	}
	mut := uint64(0)
	if g.R.Chance(mutNum, 100) {
		mut = g.R.Uint64() | 1
	}
	g.Safe = mut != 0 || !g.R.Chance(wildNum, 100)
	if g.Safe {
		st.modes["profile-safe"]++
	} else {
		st.modes["profile-wild"]++
	}
	st.modes[mode]++
	g.uid, g.varN, g.aliasN, g.fragN = 0, 0, 0, 0
	base := g.GenOp(mode)
	base.Label = "base"
	grp := &Group{Ops: []*Op{base}, MutSeed: mut}
	n := 2 + g.R.Pick(2)
	for i := 0; i < n; i++ {
		grp.Ops = append(grp.Ops, g.Reformulate(base))
	}
	return grp
}

func main() {
	if len(os.Args) < 2 {
		fmt.Fprintln(os.Stderr, "usage: c20 gen|corpus|race ...")
		os.Exit(2)
	}
	args := common.Args(os.Args[2:])
	env := setup()
	defer env.cleanup()
	st := newStats()
	switch os.Args[1] {
	case "gen":
		seed := common.ArgU64(args, "seed", 1)
		n := common.ArgInt(args, "n", 100)
		out := common.NewOut(args["out"])
		g := &Gen{S: env.schema, M: env.mapping, R: common.NewRand(seed)}
		wildNum = common.ArgInt(args, "wild", wildNum)
		mutNum = common.ArgInt(args, "mut", mutNum)
		for i := 0; i < n; i++ {
			grp := env.genGroup(g, st)
			out.Line(env.runGroup(g, grp, st))
		}
		out.Close()
	case "corpus":
		f, err := os.Open(args["in"])
		if err != nil {
			panic(err)
		}
		out := common.NewOut(args["out"])
		g := &Gen{S: env.schema, M: env.mapping, R: common.NewRand(1)}
		sc := bufio.NewScanner(f)
		sc.Buffer(make([]byte, 1<<20), 1<<26)
		for sc.Scan() {
			line := strings.TrimSpace(sc.Text())
			if line == "" || strings.HasPrefix(line, "#") {
				continue
			}
			var grp Group
			if err := json.Unmarshal([]byte(line), &grp); err != nil || len(grp.Ops) == 0 {
				panic(fmt.Sprintf("bad corpus line: %v", err))
			}
			out.Line(env.runGroup(g, &grp, st))
		}
		f.Close()
		out.Close()
	case "race":
		os.Exit(env.raceMode(common.ArgU64(args, "seed", 1), common.ArgInt(args, "n", 50)))
	default:
		fmt.Fprintln(os.Stderr, "unknown mode")
		os.Exit(2)
	}
	sb, _ := json.Marshal(map[string]any{"outcomes": st.outcomes, "call_kinds": st.kinds, "reformulations": st.labels,
		"base_depth": st.depth, "modes": st.modes, "calls": st.calls, "runs": st.runs})
	fmt.Fprintln(os.Stderr, "STATS "+string(sb))
}
