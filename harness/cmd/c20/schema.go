package main

// A small read-only index over the GraphQL schema (ast.Document) that the generator, the
// CollectFields implementation and the shape computation work on.  Built once.

import (
	"sort"

	"github.com/wundergraph/graphql-go-tools/v2/pkg/ast"
)

type TypeRef struct {
	Kind string // "named" | "list" | "nonnull"
	Name string
	Of   *TypeRef
}

func (t *TypeRef) String() string {
	switch t.Kind {
	case "list":
		return "[" + t.Of.String() + "]"
	case "nonnull":
		return t.Of.String() + "!"
	}
	return t.Name
}
func (t *TypeRef) Base() string {
	for t.Kind != "named" {
		t = t.Of
	}
	return t.Name
}
func (t *TypeRef) NonNull() bool { return t.Kind == "nonnull" }

type ArgDef struct {
	Name string
	Type *TypeRef
}

type FieldDef struct {
	Name       string
	Type       *TypeRef
	Args       []ArgDef
	Resolver   bool   // has arguments or @connect__fieldResolver (on a non-root type)
	Requires   string // @requires(fields: ...) selection, "" if none
	External   bool
	ParentType string
}

type TypeDef struct {
	Name     string
	Kind     string // object | interface | union | enum | input | scalar
	Fields   []*FieldDef
	Possible []string // interface / union: concrete object types (sorted as the document yields them)
	Ifaces   []string // object: implemented interfaces
	Values   []string // enum
	Inputs   []ArgDef // input object fields
	Key      string   // @key(fields: ...) of an entity, "" otherwise
}

type Schema struct {
	Types map[string]*TypeDef
	Names []string
}

func (s *Schema) Field(typeName, field string) *FieldDef {
	t := s.Types[typeName]
	if t == nil {
		return nil
	}
	for _, f := range t.Fields {
		if f.Name == field {
			return f
		}
	}
	return nil
}

// TypeApplies: does a fragment with type condition cond apply to concrete object type obj?
func (s *Schema) TypeApplies(cond, obj string) bool {
	if cond == obj {
		return true
	}
	t := s.Types[cond]
	if t == nil {
		return false
	}
	for _, p := range t.Possible {
		if p == obj {
			return true
		}
	}
	return false
}

// PossibleOf returns the concrete object types of a composite type.
func (s *Schema) PossibleOf(name string) []string {
	t := s.Types[name]
	if t == nil {
		return nil
	}
	if t.Kind == "object" {
		return []string{name}
	}
	return t.Possible
}

func buildTypeRef(doc *ast.Document, ref int) *TypeRef {
	t := doc.Types[ref]
	switch t.TypeKind {
	case ast.TypeKindNamed:
		return &TypeRef{Kind: "named", Name: doc.Input.ByteSliceString(t.Name)}
	case ast.TypeKindList:
		return &TypeRef{Kind: "list", Of: buildTypeRef(doc, t.OfType)}
	case ast.TypeKindNonNull:
		return &TypeRef{Kind: "nonnull", Of: buildTypeRef(doc, t.OfType)}
	}
	return &TypeRef{Kind: "named", Name: "?"}
}

func buildFieldDefs(doc *ast.Document, parent string, refs []int, isRoot bool) []*FieldDef {
	var out []*FieldDef
	for _, fr := range refs {
		fd := &FieldDef{Name: doc.FieldDefinitionNameString(fr), Type: buildTypeRef(doc, doc.FieldDefinitionType(fr)), ParentType: parent}
		if doc.FieldDefinitions[fr].HasArgumentsDefinitions {
			for _, ar := range doc.FieldDefinitions[fr].ArgumentsDefinition.Refs {
				fd.Args = append(fd.Args, ArgDef{Name: doc.InputValueDefinitionNameString(ar), Type: buildTypeRef(doc, doc.InputValueDefinitionType(ar))})
			}
		}
		if !isRoot && (len(fd.Args) > 0 || doc.FieldDefinitionHasNamedDirective(fr, "connect__fieldResolver")) {
			fd.Resolver = true
		}
		if dref, ok := doc.FieldDefinitionDirectiveByName(fr, ast.ByteSlice("requires")); ok {
			if v, ok := doc.DirectiveArgumentValueByName(dref, []byte("fields")); ok {
				fd.Requires = doc.ValueContentString(v)
			}
		}
		fd.External = doc.FieldDefinitionHasNamedDirective(fr, "external")
		out = append(out, fd)
	}
	return out
}

func BuildSchema(doc *ast.Document) *Schema {
	s := &Schema{Types: map[string]*TypeDef{}}
	for _, n := range doc.RootNodes {
		switch n.Kind {
		case ast.NodeKindObjectTypeDefinition:
			name := doc.ObjectTypeDefinitionNameString(n.Ref)
			td := &TypeDef{Name: name, Kind: "object"}
			o := doc.ObjectTypeDefinitions[n.Ref]
			isRoot := name == "Query" || name == "Mutation" || name == "Subscription"
			if o.HasFieldDefinitions {
				td.Fields = buildFieldDefs(doc, name, o.FieldsDefinition.Refs, isRoot)
			}
			for _, ir := range o.ImplementsInterfaces.Refs {
				td.Ifaces = append(td.Ifaces, doc.TypeNameString(ir))
			}
			if o.HasDirectives {
				for _, dr := range o.Directives.Refs {
					if doc.DirectiveNameString(dr) == "key" {
						if v, ok := doc.DirectiveArgumentValueByName(dr, []byte("fields")); ok {
							td.Key = doc.ValueContentString(v)
						}
					}
				}
			}
			s.Types[name] = td
		case ast.NodeKindInterfaceTypeDefinition:
			name := doc.InterfaceTypeDefinitionNameString(n.Ref)
			td := &TypeDef{Name: name, Kind: "interface"}
			i := doc.InterfaceTypeDefinitions[n.Ref]
			if i.HasFieldDefinitions {
				td.Fields = buildFieldDefs(doc, name, i.FieldsDefinition.Refs, false)
			}
			td.Possible, _ = doc.InterfaceTypeDefinitionImplementedByObjectWithNames(n.Ref)
			s.Types[name] = td
		case ast.NodeKindUnionTypeDefinition:
			name := doc.UnionTypeDefinitionNameString(n.Ref)
			td := &TypeDef{Name: name, Kind: "union"}
			td.Possible, _ = doc.UnionTypeDefinitionMemberTypeNames(n.Ref)
			s.Types[name] = td
		case ast.NodeKindEnumTypeDefinition:
			name := doc.EnumTypeDefinitionNameString(n.Ref)
			td := &TypeDef{Name: name, Kind: "enum"}
			for _, vr := range doc.EnumTypeDefinitions[n.Ref].EnumValuesDefinition.Refs {
				td.Values = append(td.Values, doc.EnumValueDefinitionNameString(vr))
			}
			s.Types[name] = td
		case ast.NodeKindInputObjectTypeDefinition:
			name := doc.InputObjectTypeDefinitionNameString(n.Ref)
			td := &TypeDef{Name: name, Kind: "input"}
			for _, ir := range doc.InputObjectTypeDefinitions[n.Ref].InputFieldsDefinition.Refs {
				td.Inputs = append(td.Inputs, ArgDef{Name: doc.InputValueDefinitionNameString(ir), Type: buildTypeRef(doc, doc.InputValueDefinitionType(ir))})
			}
			s.Types[name] = td
		case ast.NodeKindScalarTypeDefinition:
			name := doc.ScalarTypeDefinitionNameString(n.Ref)
			s.Types[name] = &TypeDef{Name: name, Kind: "scalar"}
		}
	}
	for n := range s.Types {
		s.Names = append(s.Names, n)
	}
	sort.Strings(s.Names)
	return s
}

func (s *Schema) IsComposite(name string) bool {
	t := s.Types[name]
	return t != nil && (t.Kind == "object" || t.Kind == "interface" || t.Kind == "union")
}
func (s *Schema) IsAbstract(name string) bool {
	t := s.Types[name]
	return t != nil && (t.Kind == "interface" || t.Kind == "union")
}
