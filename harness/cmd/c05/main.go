// c05: drives v2/pkg/lexer, v2/pkg/astparser (Parse, ParseWithLimits) and v2/pkg/astprinter on
// generated inputs and prints, per case, the implementation's observables:
//
//	(c05 class "input" L F
//	   (toks (kind start end lineStart charStart lineEnd charEnd)…)      lexer.Read until EOF
//	   (lim ok|depth|fields|panic totalDepth totalFields)                ParseWithLimits verdict + stats
//	   (parse ok|err|panic)                                              Parse verdict
//	   (dump "sexp")                                                     gqldump of the parsed document ("" unless ok)
//	   (cdump "sexp")                                                    the same with block-string descriptions by value
//	   (rt c (p1 "…") (acc ok|err|panic) (dump2 "…") (p2 "…"))           compact print, re-parse, re-dump (by value), re-print
//	   (rt i (p1 "…") (acc …) (dump2 "…") (p2 "…")))                     same with PrintIndent("  ")
//
// Modes: gen -seed S -n N -out F | corpus -in FILE -out F | one -doc 'text' [-L n -F n] | deep -site S -n N
package main

import (
	"bytes"
	"bufio"
	"fmt"
	"os"
	"strconv"
	"strings"

	"gvh/common"
	"gvh/gqldump"

	"github.com/wundergraph/graphql-go-tools/v2/pkg/ast"
	"github.com/wundergraph/graphql-go-tools/v2/pkg/astparser"
	"github.com/wundergraph/graphql-go-tools/v2/pkg/astprinter"
	"github.com/wundergraph/graphql-go-tools/v2/pkg/lexer"
	"github.com/wundergraph/graphql-go-tools/v2/pkg/lexer/keyword"
	"github.com/wundergraph/graphql-go-tools/v2/pkg/operationreport"
)

// ---------------------------------------------------------------------------------- observables

func lexAll(in []byte) (out string) {
	defer func() {
		if r := recover(); r != nil {
			out = "(toks panic " + common.QS(fmt.Sprint(r)) + ")"
		}
	}()
	var input ast.Input
	input.ResetInputBytes(in)
	lx := &lexer.Lexer{}
	lx.SetInput(&input)
	var sb strings.Builder
	sb.WriteString("(toks")
	for i := 0; i <= len(in)+1; i++ {
		t := lx.Read()
		if t.Keyword == keyword.EOF {
			sb.WriteByte(')')
			return sb.String()
		}
		fmt.Fprintf(&sb, " (%d %d %d %d %d %d %d)", int(t.Keyword), t.Literal.Start, t.Literal.End,
			t.TextPosition.LineStart, t.TextPosition.CharStart, t.TextPosition.LineEnd, t.TextPosition.CharEnd)
	}
	return "(toks nonterminating)"
}

func parseLimits(in []byte, L, F int) (out string) {
	defer func() {
		if r := recover(); r != nil {
			out = "(lim panic 0 0)"
		}
	}()
	doc := ast.NewSmallDocument()
	doc.Input.ResetInputBytes(in)
	rep := operationreport.Report{}
	p := astparser.NewParser()
	stats, err := p.ParseWithLimits(astparser.TokenizerLimits{MaxDepth: L, MaxFields: F}, doc, &rep)
	v := "ok"
	if err != nil {
		switch err.(type) {
		case astparser.ErrDepthLimitExceeded:
			v = "depth"
		case astparser.ErrFieldsLimitExceeded:
			v = "fields"
		default:
			v = "other"
		}
	}
	return fmt.Sprintf("(lim %s %d %d)", v, stats.TotalDepth, stats.TotalFields)
}

// parse returns (verdict, document); document is nil unless verdict == "ok".
func parse(in []byte) (verdict string, doc *ast.Document) {
	defer func() {
		if r := recover(); r != nil {
			verdict, doc = "panic", nil
		}
	}()
	d := ast.NewSmallDocument()
	d.Input.ResetInputBytes(in)
	rep := operationreport.Report{}
	p := astparser.NewParser()
	p.Parse(d, &rep)
	if rep.HasErrors() {
		return "err", nil
	}
	return "ok", d
}

func dump(doc *ast.Document) (out string) {
	defer func() {
		if r := recover(); r != nil {
			out = "(dumppanic " + common.QS(fmt.Sprint(r)) + ")"
		}
	}()
	return gqldump.DumpDocument(doc)
}

func cdump(doc *ast.Document) (out string) {
	defer func() {
		if r := recover(); r != nil {
			out = "(dumppanic " + common.QS(fmt.Sprint(r)) + ")"
		}
	}()
	return gqldump.DumpDocumentCanon(doc)
}

func printDoc(doc *ast.Document, indent bool) (out []byte, ok bool) {
	defer func() {
		if r := recover(); r != nil {
			out, ok = []byte(fmt.Sprint("PANIC ", r)), false
		}
	}()
	var buf bytes.Buffer
	var err error
	if indent {
		err = astprinter.PrintIndent(doc, []byte("  "), &buf)
	} else {
		err = astprinter.Print(doc, &buf)
	}
	if err != nil {
		return []byte("ERR " + err.Error()), false
	}
	return buf.Bytes(), true
}

func roundTrip(doc *ast.Document, indent bool) string {
	tag := "c"
	if indent {
		tag = "i"
	}
	p1, ok := printDoc(doc, indent)
	if !ok {
		return common.L("rt", tag, common.L("p1", common.Q(p1)), "(acc printpanic)", `(dump2 "")`, `(p2 "")`)
	}
	v2, d2 := parse(p1)
	dump2, p2 := "", []byte{}
	if v2 == "ok" {
		dump2 = cdump(d2)
		p2, ok = printDoc(d2, indent)
		if !ok {
			v2 = "printpanic"
		}
	}
	return common.L("rt", tag, common.L("p1", common.Q(p1)), common.L("acc", v2), common.L("dump2", common.QS(dump2)), common.L("p2", common.Q(p2)))
}

func observe(class string, in []byte, L, F int) string {
	v, doc := parse(in)
	d, cd, rtc, rti := "", "", `(rt c (p1 "") (acc none) (dump2 "") (p2 ""))`, `(rt i (p1 "") (acc none) (dump2 "") (p2 ""))`
	if v == "ok" {
		d = dump(doc)
		cd = cdump(doc)
		rtc = roundTrip(doc, false)
		rti = roundTrip(doc, true)
	}
	return common.L("c05", class, common.Q(in), common.I(L), common.I(F), lexAll(in), parseLimits(in, L, F),
		common.L("parse", v), common.L("dump", common.QS(d)), common.L("cdump", common.QS(cd)), rtc, rti)
}

// ---------------------------------------------------------------------------------- generators

type gen struct{ r *common.Rand }

var nameMain = []string{"a", "b", "c", "id", "name", "user", "users", "friends", "node", "edges", "x1", "_x", "__typename", "Foo", "Bar", "hero"}
var nameOdd = []string{"query", "mutation", "subscription", "fragment", "on", "true", "false", "null", "type", "input", "enum", "schema",
	"extend", "a-b", "x-1", "\xc3\xa9", "implements", "repeatable", "directive", "scalar", "union", "interface", "q", "Query"}

func (g *gen) name() string {
	if g.r.Chance(1, 6) {
		return common.PickOf(g.r, nameOdd)
	}
	return common.PickOf(g.r, nameMain)
}
func (g *gen) plainName() string { return common.PickOf(g.r, nameMain) }

var ints = []string{"0", "1", "12", "007", "2147483648", "99999999999999999999", "-1", "-0", "-12"}
var floats = []string{"1.5", "0.0", "1e3", "1E3", "1.", "1.e", "1.5e3", "1.5e-3", "2.5E+7", "1.5-3", "1.5+", "3e", "-1.5", "-2e5", "1e-5", "2E+5"}
var strs = []string{`""`, `"a"`, `"hello world"`, `"a\"b"`, `"a\\"`, `"a\\\"b"`, `"é"`, `"é"`, `"a#b"`, `"a,b"`, `"{x}"`, `"..."`, `"\n"`, `"a'b"`, `"$x"`,
	`"a\` + "\n" + `b"`}
var blocks = []string{`""""""`, `"""a"""`, `"""a b"""`, "\"\"\"\n  a\n  b\n\"\"\"", `"""a\"""b"""`, `""" a """`, `"""a"b"""`, `"""a""b"""`, `"""#x"""`,
	"\"\"\"\n\n  x\n\n\"\"\"", `"""\\"""`, "\"\"\"a\tb\"\"\"", "\"\"\"l1\n    l2\n  l3\"\"\""}

// string literals whose lexing is peculiar (trailing quote / backslash / NUL / interleaved whitespace)
var strEdge = []string{`"""a" """`, `"""a\ """`, `""" "a"""`, `"""a " """`, `""" " " """`, `"""a "" """`, "\"a\x00b\"", "\"\"\"a\x00b\"\"\"", "\"a\x00", "\"\"\"a\x00",
	"\"a\n", "\"a\r", "\"a\\\n\"", `""" ""a"""`, `"""a\\ """`, "\"\"\"a\\\n\"\"\"", `"""a """`, `"""\"""`, `"a\\` + "\x00" + `"`}

func (g *gen) str() string {
	switch g.r.Pick(10) {
	case 0, 1, 2:
		return common.PickOf(g.r, blocks)
	case 3:
		return common.PickOf(g.r, strEdge)
	}
	return common.PickOf(g.r, strs)
}

// value appends the tokens of a value.
func (g *gen) value(t *[]string, depth int, constOnly bool) {
	k := g.r.Pick(13)
	if depth <= 0 && k >= 10 {
		k = g.r.Pick(10)
	}
	switch k {
	case 0, 1:
		if constOnly {
			*t = append(*t, common.PickOf(g.r, ints))
		} else {
			*t = append(*t, "$"+g.name())
		}
	case 2, 3:
		*t = append(*t, common.PickOf(g.r, ints))
	case 4:
		*t = append(*t, common.PickOf(g.r, floats))
	case 5, 6:
		*t = append(*t, g.str())
	case 7:
		*t = append(*t, common.PickOf(g.r, []string{"true", "false", "null"}))
	case 8, 9:
		*t = append(*t, common.PickOf(g.r, []string{"RED", "GREEN", "a", "on", "query", "fragment", "Enum_1", "e"}))
	case 10, 11:
		*t = append(*t, "[")
		for i, n := 0, g.r.Pick(4); i < n; i++ {
			g.value(t, depth-1, constOnly)
		}
		*t = append(*t, "]")
	default:
		*t = append(*t, "{")
		for i, n := 0, g.r.Pick(3); i < n; i++ {
			*t = append(*t, g.name(), ":")
			g.value(t, depth-1, constOnly)
		}
		*t = append(*t, "}")
	}
}

func (g *gen) args(t *[]string, constOnly bool) {
	if !g.r.Chance(1, 3) {
		return
	}
	*t = append(*t, "(")
	n := 1 + g.r.Pick(3)
	if g.r.Chance(1, 25) {
		n = 0
	}
	for i := 0; i < n; i++ {
		*t = append(*t, g.name(), ":")
		g.value(t, 2, constOnly)
	}
	*t = append(*t, ")")
}

func (g *gen) dirs(t *[]string, constOnly bool) {
	if !g.r.Chance(1, 4) {
		return
	}
	for i, n := 0, 1+g.r.Pick(2); i < n; i++ {
		*t = append(*t, "@", common.PickOf(g.r, []string{"include", "skip", "d", "deprecated", "on", "query", "key"}))
		g.args(t, constOnly)
	}
}

// tokens that can start neither a named nor a list type
var notAType = []string{"!", "5", "1.5", "\"x\"", "\"\"\"x\"\"\"", "{", "}", "=", ")", "(", "@", "$a", ":", "|", "&", "...", "]", "-"}

func (g *gen) typeRef(t *[]string, depth int) {
	if g.r.Chance(1, 60) {
		// "<not a type>!": the parser has to report, not to index with the invalid type reference
		*t = append(*t, common.PickOf(g.r, notAType), "!")
		return
	}
	if depth > 0 && g.r.Chance(1, 4) {
		*t = append(*t, "[")
		g.typeRef(t, depth-1)
		*t = append(*t, "]")
	} else {
		*t = append(*t, common.PickOf(g.r, []string{"Int", "String", "ID", "Boolean", "Float", "Foo", "query", "on", "type"}))
	}
	if g.r.Chance(1, 3) {
		*t = append(*t, "!")
		if g.r.Chance(1, 12) {
			*t = append(*t, "!")
		}
	}
}

func (g *gen) selSet(t *[]string, depth int, width int) {
	*t = append(*t, "{")
	n := 1 + g.r.Pick(width)
	for i := 0; i < n; i++ {
		switch k := g.r.Pick(10); {
		case k < 7 || depth <= 0:
			if g.r.Chance(1, 5) {
				*t = append(*t, g.name(), ":")
			}
			*t = append(*t, g.name())
			g.args(t, false)
			g.dirs(t, false)
			if depth > 0 && g.r.Chance(2, 5) {
				g.selSet(t, depth-1, width)
			}
		case k < 8:
			nm := g.name()
			if nm == "on" {
				nm = "F"
			}
			*t = append(*t, "...", nm)
			g.dirs(t, false)
		default:
			*t = append(*t, "...")
			if g.r.Chance(2, 3) {
				*t = append(*t, "on", g.name())
			}
			g.dirs(t, false)
			if !g.r.Chance(1, 12) || len(*t) > 0 && (*t)[len(*t)-1] == "..." {
				g.selSet(t, depth-1, width)
			}
		}
	}
	*t = append(*t, "}")
}

func (g *gen) operation(t *[]string, depth, width int) {
	switch g.r.Pick(6) {
	case 0:
		// anonymous shorthand
	default:
		*t = append(*t, common.PickOf(g.r, []string{"query", "query", "mutation", "subscription"}))
		if g.r.Chance(3, 4) {
			*t = append(*t, g.name())
		}
		if g.r.Chance(1, 3) {
			*t = append(*t, "(")
			for i, n := 0, g.r.Pick(4); i < n; i++ {
				if g.r.Chance(1, 15) {
					*t = append(*t, g.str())
				}
				*t = append(*t, "$"+g.name(), ":")
				g.typeRef(t, 2)
				if g.r.Chance(1, 3) {
					*t = append(*t, "=")
					g.value(t, 2, true)
				}
				g.dirs(t, true)
			}
			*t = append(*t, ")")
		}
		g.dirs(t, false)
	}
	g.selSet(t, depth, width)
}

func (g *gen) fragment(t *[]string, depth, width int) {
	nm := g.name()
	if nm == "on" && !g.r.Chance(1, 4) {
		nm = "Frag"
	}
	*t = append(*t, "fragment", nm, "on", g.name())
	g.dirs(t, false)
	g.selSet(t, depth, width)
}

func (g *gen) execDoc() []string {
	var t []string
	n := 1 + g.r.Pick(3)
	for i := 0; i < n; i++ {
		if g.r.Chance(1, 20) {
			t = append(t, g.str()) // description (September 2025 executable descriptions)
			t = append(t, "query", "D")
			g.selSet(&t, 1, 3)
			continue
		}
		if g.r.Chance(1, 4) {
			g.fragment(&t, 2, 4)
		} else {
			g.operation(&t, 3, 4)
		}
	}
	return t
}

// ---- SDL
func (g *gen) desc(t *[]string) {
	if g.r.Chance(1, 3) {
		if g.r.Chance(1, 2) {
			*t = append(*t, common.PickOf(g.r, blocks))
		} else {
			*t = append(*t, common.PickOf(g.r, strs))
		}
	}
}

func (g *gen) inputValueDefs(t *[]string, open, close string) {
	*t = append(*t, open)
	for i, n := 0, g.r.Pick(4); i < n; i++ {
		g.desc(t)
		*t = append(*t, g.plainName(), ":")
		g.typeRef(t, 2)
		if g.r.Chance(1, 3) {
			*t = append(*t, "=")
			g.value(t, 2, true)
		}
		g.dirs(t, true)
	}
	*t = append(*t, close)
}

func (g *gen) fieldDefs(t *[]string) {
	*t = append(*t, "{")
	for i, n := 0, g.r.Pick(4); i < n; i++ {
		g.desc(t)
		*t = append(*t, g.name())
		if g.r.Chance(1, 3) {
			g.inputValueDefs(t, "(", ")")
		}
		*t = append(*t, ":")
		g.typeRef(t, 2)
		g.dirs(t, true)
	}
	*t = append(*t, "}")
}

func (g *gen) sdlDef(t *[]string) {
	ext := g.r.Chance(1, 5)
	if ext {
		*t = append(*t, "extend")
	} else {
		g.desc(t)
	}
	switch g.r.Pick(8) {
	case 0:
		*t = append(*t, "schema")
		g.dirs(t, true)
		if !ext || g.r.Chance(2, 3) {
			*t = append(*t, "{")
			for i, n := 0, g.r.Pick(4); i < n; i++ {
				*t = append(*t, common.PickOf(g.r, []string{"query", "mutation", "subscription"}), ":", g.plainName())
			}
			*t = append(*t, "}")
		}
	case 1, 2:
		*t = append(*t, common.PickOf(g.r, []string{"type", "type", "interface"}), g.name())
		if g.r.Chance(1, 3) {
			*t = append(*t, "implements")
			if g.r.Chance(1, 6) {
				*t = append(*t, "&")
			}
			*t = append(*t, g.plainName())
			for g.r.Chance(1, 3) {
				*t = append(*t, "&", g.plainName())
			}
		}
		g.dirs(t, true)
		if g.r.Chance(5, 6) {
			g.fieldDefs(t)
		}
	case 3:
		*t = append(*t, "scalar", g.name())
		g.dirs(t, true)
	case 4:
		*t = append(*t, "union", g.name())
		g.dirs(t, true)
		if g.r.Chance(4, 5) {
			*t = append(*t, "=")
			if g.r.Chance(1, 5) {
				*t = append(*t, "|")
			}
			*t = append(*t, g.plainName())
			for g.r.Chance(1, 2) {
				*t = append(*t, "|", g.plainName())
			}
		}
	case 5:
		*t = append(*t, "enum", g.name())
		g.dirs(t, true)
		if g.r.Chance(5, 6) {
			*t = append(*t, "{")
			for i, n := 0, g.r.Pick(4); i < n; i++ {
				g.desc(t)
				*t = append(*t, common.PickOf(g.r, []string{"RED", "GREEN", "BLUE", "a", "on"}))
				g.dirs(t, true)
			}
			*t = append(*t, "}")
		}
	case 6:
		*t = append(*t, "input", g.name())
		g.dirs(t, true)
		if g.r.Chance(5, 6) {
			g.inputValueDefs(t, "{", "}")
		}
	default:
		if ext {
			*t = append(*t, "scalar", g.name(), "@", "d")
			return
		}
		*t = append(*t, "directive", "@", g.name())
		if g.r.Chance(1, 2) {
			g.inputValueDefs(t, "(", ")")
		}
		if g.r.Chance(1, 4) {
			*t = append(*t, "repeatable")
		}
		*t = append(*t, "on")
		locs := []string{"QUERY", "MUTATION", "SUBSCRIPTION", "FIELD", "FRAGMENT_DEFINITION", "FRAGMENT_SPREAD", "INLINE_FRAGMENT", "VARIABLE_DEFINITION",
			"SCHEMA", "SCALAR", "OBJECT", "FIELD_DEFINITION", "ARGUMENT_DEFINITION", "INTERFACE", "UNION", "ENUM", "ENUM_VALUE", "INPUT_OBJECT", "INPUT_FIELD_DEFINITION", "NOWHERE"}
		if g.r.Chance(1, 6) {
			*t = append(*t, "|")
		}
		*t = append(*t, locs[g.r.Pick(len(locs)-1+g.r.Pick(2))])
		for g.r.Chance(1, 2) {
			*t = append(*t, "|", locs[g.r.Pick(len(locs)-1)])
		}
	}
}

// sdlExtDoc: type / interface EXTENSIONS whose fields take arguments, placed after (or before) input object,
// object, enum, scalar and directive definitions in varying order -- the printer keeps the argument
// delimiters as state across definitions.
func (g *gen) sdlExtDoc() []string {
	var t []string
	lead := func() {
		switch g.r.Pick(7) {
		case 0:
			t = append(t, "input", g.plainName())
			g.inputValueDefs(&t, "{", "}")
		case 1:
			t = append(t, "extend", "input", g.plainName())
			g.inputValueDefs(&t, "{", "}")
		case 2:
			t = append(t, "enum", g.plainName(), "{", "RED", "GREEN", "}")
		case 3:
			t = append(t, "scalar", g.plainName())
		case 4:
			t = append(t, "type", g.plainName())
			g.fieldDefs(&t)
		case 5:
			t = append(t, "directive", "@", g.plainName())
			g.inputValueDefs(&t, "(", ")")
			t = append(t, "on", "FIELD")
		default:
			t = append(t, "union", g.plainName(), "=", g.plainName())
		}
	}
	for i, n := 0, g.r.Pick(4); i < n; i++ {
		lead()
	}
	for i, n := 0, 1+g.r.Pick(2); i < n; i++ {
		t = append(t, "extend", common.PickOf(g.r, []string{"interface", "interface", "type"}), g.plainName())
		if g.r.Chance(1, 3) {
			t = append(t, "implements", g.plainName())
			if g.r.Chance(1, 2) {
				t = append(t, "&", g.plainName())
			}
		}
		g.dirs(&t, true)
		t = append(t, "{")
		for j, m := 0, 1+g.r.Pick(3); j < m; j++ {
			g.desc(&t)
			t = append(t, g.plainName())
			if !g.r.Chance(1, 4) {
				t = append(t, "(")
				for k, a := 0, 1+g.r.Pick(3); k < a; k++ {
					g.desc(&t)
					t = append(t, g.plainName(), ":")
					g.typeRef(&t, 2)
					if g.r.Chance(1, 3) {
						t = append(t, "=")
						g.value(&t, 1, true)
					}
					g.dirs(&t, true)
				}
				t = append(t, ")")
			}
			t = append(t, ":")
			g.typeRef(&t, 2)
			g.dirs(&t, true)
		}
		t = append(t, "}")
		if g.r.Chance(1, 3) {
			lead()
		}
	}
	return t
}

func (g *gen) sdlDoc() []string {
	if g.r.Chance(1, 4) {
		return g.sdlExtDoc()
	}
	var t []string
	for i, n := 0, 1+g.r.Pick(4); i < n; i++ {
		if g.r.Chance(1, 8) {
			g.operation(&t, 2, 3)
		} else {
			g.sdlDef(&t)
		}
	}
	return t
}

// ---- rendering tokens to bytes with varied insignificant separators
var sepReq = []string{" ", " ", " ", "\n", ",", "\t", ", ", "\r\n", "  ", " #c\n", "\n#x\n#y\n", "\r"}
var sepOpt = []string{"", "", "", "", " ", "\n", ",", " ", "#z\n"}

func wordy(c byte) bool {
	return c >= 'a' && c <= 'z' || c >= 'A' && c <= 'Z' || c >= '0' && c <= '9' || c == '_' || c == '-' || c == '.' || c == '+' || c >= 0x80
}

func (g *gen) render(toks []string, style int) []byte {
	var sb bytes.Buffer
	if g.r.Chance(1, 40) {
		sb.WriteString(common.PickOf(g.r, []string{"\xef\xbb\xbf", " ", "\n", "#lead\n", ","}))
	}
	for i, t := range toks {
		if i > 0 {
			prev := toks[i-1]
			need := len(prev) > 0 && len(t) > 0 && wordy(prev[len(prev)-1]) && wordy(t[0])
			if len(prev) > 0 && len(t) > 0 && prev[len(prev)-1] == '"' && t[0] == '"' {
				need = true
			}
			if prev == "..." && len(t) > 0 && t[0] == '.' {
				need = true
			}
			switch {
			case style == 0: // canonical single spaces
				if need || !(prev == "(" || t == ")" || t == ":" || prev == "@" || t == "!" || prev == "[" || t == "]" || prev == "...") {
					sb.WriteByte(' ')
				}
			case need && !g.r.Chance(1, 60):
				sb.WriteString(common.PickOf(g.r, sepReq))
			case need:
			default:
				sb.WriteString(common.PickOf(g.r, sepOpt))
			}
		}
		sb.WriteString(t)
	}
	if g.r.Chance(1, 20) {
		sb.WriteString(common.PickOf(g.r, []string{"\n", " ", "#end", "#end\n", ",", "\x00", "\x00{a}"}))
	}
	return sb.Bytes()
}

var mutToks = []string{"{", "}", "(", ")", "[", "]", ":", "!", "@", "$", "...", ".", "=", "|", "&", "-", "#", "\"", "\"\"\"", "\\", "on", "query", "fragment", "1", "1.5", "a", "\x00", ",", "$a", "..", "....", "type", "extend", "\"x\""}

// breakType replaces the token at a type position (the token after a ':' that is followed by a type-ish
// continuation) by a token that cannot start a type and makes sure a '!' follows; sometimes the input is
// cut right after the bang.
func (g *gen) breakType(toks []string) []string {
	var cands []int
	for i := 0; i+1 < len(toks); i++ {
		if toks[i] == ":" {
			n := toks[i+1]
			if n == "[" || (len(n) > 0 && (n[0] >= 'A' && n[0] <= 'Z' || n[0] >= 'a' && n[0] <= 'z')) {
				cands = append(cands, i+1)
			}
		}
	}
	if len(cands) == 0 {
		return toks
	}
	i := cands[g.r.Pick(len(cands))]
	out := append([]string(nil), toks[:i]...)
	out = append(out, common.PickOf(g.r, notAType), "!")
	if g.r.Chance(1, 4) {
		return out // truncated right after the bang
	}
	rest := toks[i+1:]
	if len(rest) > 0 && rest[0] == "!" {
		rest = rest[1:]
	}
	return append(out, rest...)
}

func (g *gen) mutate(toks []string) []string {
	if g.r.Chance(1, 5) {
		return g.breakType(toks)
	}
	out := append([]string(nil), toks...)
	for k, n := 0, 1+g.r.Pick(2); k < n && len(out) > 0; k++ {
		i := g.r.Pick(len(out))
		switch g.r.Pick(5) {
		case 0:
			out = append(out[:i], out[i+1:]...)
		case 1:
			out = append(out[:i+1], out[i:]...)
		case 2:
			j := g.r.Pick(len(out))
			out[i], out[j] = out[j], out[i]
		case 3:
			out[i] = common.PickOf(g.r, mutToks)
		default:
			out = append(out[:i], append([]string{common.PickOf(g.r, mutToks)}, out[i:]...)...)
		}
	}
	return out
}

var rawAlpha = []string{"\"", "\"", "\\", "#", "\x00", "0", "1", "9", ".", "e", "E", "-", "+", "\"\"\"", "{", "}", "(", ")", ":", "$", "@", "!", "[", "]", "|", "&", "=",
	" ", " ", "\n", "\r", ",", "\t", "a", "b", "_", "query", "on", "\xc3\xa9", "\xef\xbb\xbf", "\xff", "\x80", "...", "..", "x", "true", "fragment", "'", "/", "%", "\x7f", "\x01"}

func (g *gen) raw() []byte {
	var sb bytes.Buffer
	for i, n := 0, 1+g.r.Pick(24); i < n; i++ {
		sb.WriteString(common.PickOf(g.r, rawAlpha))
	}
	return sb.Bytes()
}

// limit-oriented documents: nesting and field counts around the limits, keyword-named things inside selection sets
func (g *gen) limDoc() ([]string, int, int) {
	var t []string
	depth, width := 1+g.r.Pick(4), 1+g.r.Pick(4)
	nd := 1 + g.r.Pick(3)
	for i := 0; i < nd; i++ {
		if g.r.Chance(1, 4) {
			g.fragment(&t, depth, width)
		} else {
			g.operation(&t, depth, width)
		}
	}
	L, F := 0, 0
	if g.r.Chance(2, 3) {
		L = 1 + g.r.Pick(6)
	}
	if g.r.Chance(2, 3) {
		F = 1 + g.r.Pick(14)
	}
	return t, L, F
}

func (g *gen) limits() (int, int) {
	L, F := 0, 0
	if g.r.Chance(1, 2) {
		L = 1 + g.r.Pick(8)
	}
	if g.r.Chance(1, 2) {
		F = 1 + g.r.Pick(30)
	}
	return L, F
}

func (g *gen) one() (class string, in []byte, L, F int) {
	L, F = g.limits()
	switch k := g.r.Pick(20); {
	case k < 6:
		return "gram", g.render(g.execDoc(), g.r.Pick(3)), L, F
	case k < 9:
		return "sdl", g.render(g.sdlDoc(), g.r.Pick(3)), L, F
	case k < 13:
		var t []string
		if g.r.Chance(3, 4) {
			t = g.execDoc()
		} else {
			t = g.sdlDoc()
		}
		return "mut", g.render(g.mutate(t), g.r.Pick(3)), L, F
	case k < 16:
		return "raw", g.raw(), L, F
	default:
		t, l, f := g.limDoc()
		return "lim", g.render(t, g.r.Pick(2)), l, f
	}
}

// ---------------------------------------------------------------------------------- deep-nesting probe (outside the model)

func deep(site string, n int) {
	var doc string
	switch site {
	case "list":
		doc = "{a(x:" + strings.Repeat("[", n) + strings.Repeat("]", n) + ")}"
	case "type":
		doc = "query($a:" + strings.Repeat("[", n) + "Int" + strings.Repeat("]", n) + "){a}"
	default:
		doc = strings.Repeat("{a", n) + strings.Repeat("}", n)
	}
	v, _ := parse([]byte(doc))
	fmt.Println("deep", site, n, v)
}

// ---------------------------------------------------------------------------------- main

func main() {
	if len(os.Args) < 2 {
		fmt.Fprintln(os.Stderr, "usage: c05 gen|corpus|one|deep ...")
		os.Exit(2)
	}
	a := common.Args(os.Args[2:])
	switch os.Args[1] {
	case "gen":
		seed := common.ArgU64(a, "seed", 1)
		n := common.ArgInt(a, "n", 100)
		out := common.NewOut(a["out"])
		defer out.Close()
		g := &gen{r: common.NewRand(seed)}
		for i := 0; i < n; i++ {
			class, in, L, F := g.one()
			out.Line(observe(class, in, L, F))
		}
	case "corpus":
		f, err := os.Open(a["in"])
		if err != nil {
			panic(err)
		}
		defer f.Close()
		out := common.NewOut(a["out"])
		defer out.Close()
		sc := bufio.NewScanner(f)
		sc.Buffer(make([]byte, 1<<20), 1<<26)
		for sc.Scan() {
			line := sc.Text()
			if strings.HasPrefix(line, "#") || strings.TrimSpace(line) == "" {
				continue
			}
			parts := strings.SplitN(line, "\t", 3)
			if len(parts) != 3 {
				panic("corpus line: " + line)
			}
			L, _ := strconv.Atoi(parts[0])
			F, _ := strconv.Atoi(parts[1])
			s, err := strconv.Unquote(parts[2])
			if err != nil {
				panic("corpus unquote: " + line)
			}
			out.Line(observe("corpus", []byte(s), L, F))
		}
	case "one":
		s, err := strconv.Unquote(a["doc"])
		if err != nil {
			s = a["doc"]
		}
		fmt.Println(observe("one", []byte(s), common.ArgInt(a, "L", 0), common.ArgInt(a, "F", 0)))
	case "deep":
		deep(a["site"], common.ArgInt(a, "n", 100000))
	}
}
