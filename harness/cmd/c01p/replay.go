package main

import (
	"encoding/json"
	"fmt"
	"os"
	"path/filepath"
	"sort"

	"gvh/common"
	"gvh/fedlab"
)

// savedPair is a self-contained (configuration, operation) pair with the universes it is run on.
type savedPair struct {
	Seed   uint64             `json:"seed"`
	Cfg    int                `json:"cfg"`
	Op     int                `json:"op"`
	Src    string             `json:"src"`
	Knobs  string             `json:"knobs"`
	Note   string             `json:"note,omitempty"`
	Config *fedlab.Config     `json:"config"`
	Unis   []*fedlab.Universe `json:"universes"`
	Oper   *fedlab.Operation  `json:"operation"`
}

func buildPair(a map[string]string) (*savedPair, error) {
	seed := common.ArgU64(a, "seed", 1)
	ci := common.ArgInt(a, "cfg", 0)
	idx := common.ArgInt(a, "op", 0)
	src := a["src"]
	if src == "" {
		src = "fedlab"
	}
	unis := common.ArgInt(a, "unis", 1)
	ufrom := common.ArgInt(a, "ufrom", 0)
	max := fedlab.ParseKnobs(a["knobs"])
	k := max
	if a["exact"] != "1" {
		k = fedlab.KnobsFor(seed, ci, max)
	}
	cfg := fedlab.BuildConfig(seed, ci, k)
	u0 := fedlab.BuildUniverse(seed, ci, 0, k, cfg)
	var op *fedlab.Operation
	if src == "directed" {
		r := common.NewRand(seed*1000003 + uint64(ci)*7919 + uint64(idx)*104729 + 17)
		op = directedOp(r, cfg, idx%3)
	} else {
		op = fedlab.BuildOperation(seed, ci*fedlab.OpsPerConfig+idx, k, cfg, u0)
	}
	if op == nil {
		return nil, fmt.Errorf("no such operation")
	}
	sp := &savedPair{Seed: seed, Cfg: ci, Op: idx, Src: src, Knobs: k.String(), Config: cfg, Oper: op, Note: a["note"]}
	for u := ufrom; u < ufrom+unis; u++ {
		sp.Unis = append(sp.Unis, fedlab.BuildUniverse(seed, ci, u, k, cfg))
	}
	return sp, nil
}

func cmdSave(a map[string]string) {
	sp, err := buildPair(a)
	if err != nil {
		fmt.Fprintln(os.Stderr, err)
		os.Exit(2)
	}
	b, _ := json.MarshalIndent(sp, "", " ")
	if err := os.WriteFile(a["out"], b, 0o644); err != nil {
		fmt.Fprintln(os.Stderr, err)
		os.Exit(2)
	}
}

// pairLine plans and runs one saved pair and renders its case line.
func pairLine(sp *savedPair, exec *fedlab.ExecServer, tag string) string {
	id := fmt.Sprintf("(id %d %d %d %s %s)", sp.Seed, sp.Cfg, sp.Op, common.QS(sp.Knobs), common.QS(tag))
	p, err := newPlanner(sp.Config)
	if err != nil {
		return common.L("c01p", id, common.L("laberror", common.QS("planner: "+err.Error())))
	}
	defer p.close()
	if len(sp.Unis) == 0 {
		return common.L("c01p", id, common.L("laberror", common.QS("no universe")))
	}
	lab, err := fedlab.NewLab(sp.Config, sp.Unis[0], exec, fedlab.EngineOptions{})
	if err != nil {
		return common.L("c01p", id, common.L("laberror", common.QS("lab: "+err.Error())))
	}
	defer lab.Close()
	cs := configSexp(sp.Config)
	op := sp.Oper
	if op.Variables == nil {
		op.Variables = fedlab.JO()
	}
	raw := common.L("rawop", common.QS(op.Text()), common.QS(op.Name), op.Variables.Sexp())
	rp, err := p.plan(op.Text(), op.Name, []byte(op.VariablesJSON()))
	if err != nil {
		return common.L("c01p", id, cs, raw, common.L("planerror", common.QS(fedlab.Trunc(err.Error(), 300))))
	}
	runs := []string{"runs"}
	for u, uni := range sp.Unis {
		rs, _ := runSexp(lab, uni, u, op)
		runs = append(runs, rs)
	}
	return common.L("c01p", id, cs, raw, planSexp(rp), common.L(runs...))
}

// cmdReplay: -in is one saved pair or a directory of *.json; one case line per pair.
func cmdReplay(a map[string]string) {
	in := a["in"]
	var files []string
	if st, err := os.Stat(in); err == nil && st.IsDir() {
		files, _ = filepath.Glob(filepath.Join(in, "*.json"))
		sort.Strings(files)
	} else if err == nil {
		files = []string{in}
	}
	out := common.NewOut(a["out"])
	defer out.Close()
	exec, err := fedlab.NewExecServer("")
	if err != nil {
		fmt.Fprintln(os.Stderr, "exec:", err)
		os.Exit(2)
	}
	defer exec.Close()
	for _, f := range files {
		b, err := os.ReadFile(f)
		sp := &savedPair{}
		if err == nil {
			err = json.Unmarshal(b, sp)
		}
		if err != nil || sp.Config == nil || sp.Oper == nil {
			out.Line(common.L("c01p", "(id 0 0 0 \"\" \"corpus\")", common.L("laberror", common.QS(fmt.Sprintf("%s: %v", f, err)))))
			continue
		}
		out.Line(pairLine(sp, exec, "corpus:"+filepath.Base(f)))
	}
}
