package main

import (
	"fmt"
	"os"
	"sort"
	"strings"
	"time"

	"gvh/common"
	"gvh/fedlab"
)

// ---------------------------------------------------------------- configuration facts for the validator

// flatKey: "id ck" -> [id ck]; a key with a nested selection is not expressible as a list of leaves.
func flatKey(text string) ([]string, bool) {
	if strings.ContainsAny(text, "{}") {
		return nil, false
	}
	return strings.Fields(text), true
}

// keysSexp: (keys ("T" ("id")) ("T" ("id" "ck")) ...) every flat key any subgraph declares; (nestedkeys "T"...) for the rest.
func keysSexp(cfg *fedlab.Config) (string, string) {
	seen := map[string]bool{}
	keys := []string{"keys"}
	nested := []string{"nestedkeys"}
	for _, g := range cfg.Subgraphs {
		for _, t := range g.Types {
			for _, k := range t.Keys {
				id := t.Name + "|" + k
				if seen[id] {
					continue
				}
				seen[id] = true
				if fs, ok := flatKey(k); ok {
					keys = append(keys, common.L(common.QS(t.Name), strsSX(fs)))
				} else {
					nested = append(nested, common.QS(t.Name))
				}
			}
		}
	}
	return common.L(keys...), common.L(nested...)
}

// nestedKey: "id nk { code }" -> leaf part [id], nested part [(nk [code])]; ok only for one level of nesting.
func nestedKey(text string) (leaves []string, nested [][2]interface{}, ok bool) {
	toks := strings.Fields(strings.NewReplacer("{", " { ", "}", " } ").Replace(text))
	i := 0
	for i < len(toks) {
		t := toks[i]
		if t == "{" || t == "}" {
			return nil, nil, false
		}
		if i+1 < len(toks) && toks[i+1] == "{" {
			j := i + 2
			var inner []string
			for j < len(toks) && toks[j] != "}" {
				if toks[j] == "{" || (j+1 < len(toks) && toks[j+1] == "{") {
					return nil, nil, false
				}
				inner = append(inner, toks[j])
				j++
			}
			if j >= len(toks) || len(inner) == 0 {
				return nil, nil, false
			}
			nested = append(nested, [2]interface{}{t, inner})
			i = j + 1
			continue
		}
		leaves = append(leaves, t)
		i++
	}
	return leaves, nested, len(nested) > 0
}

// nkeyDeclsSexp: (nkeydecls ("T" ("id") (("nk" ("code")))) ...) every key with one level of nesting any subgraph declares.
func nkeyDeclsSexp(cfg *fedlab.Config) string {
	seen := map[string]bool{}
	out := []string{"nkeydecls"}
	for _, g := range cfg.Subgraphs {
		for _, t := range g.Types {
			for _, k := range t.Keys {
				id := t.Name + "|" + k
				if seen[id] {
					continue
				}
				seen[id] = true
				if _, flat := flatKey(k); flat {
					continue
				}
				leaves, nested, ok := nestedKey(k)
				if !ok {
					continue
				}
				ns := []string{}
				for _, x := range nested {
					ns = append(ns, common.L(common.QS(x[0].(string)), strsSX(x[1].([]string))))
				}
				out = append(out, common.L(common.QS(t.Name), strsSX(leaves), common.L(ns...)))
			}
		}
	}
	return common.L(out...)
}

func requiresSexp(cfg *fedlab.Config) string {
	out := []string{"requires"}
	seen := map[string]bool{}
	for _, g := range cfg.Subgraphs {
		for _, t := range g.Types {
			for _, f := range t.Fields {
				if f.Requires == "" || seen[t.Name+"."+f.Name] {
					continue
				}
				seen[t.Name+"."+f.Name] = true
				fs, ok := flatKey(f.Requires)
				if !ok {
					fs = []string{"<nested>"}
				}
				out = append(out, common.L(common.QS(t.Name), common.QS(f.Name), strsSX(fs)))
			}
		}
	}
	return common.L(out...)
}

func configSexp(cfg *fedlab.Config) string {
	subs := []string{"subs"}
	for _, g := range cfg.Subgraphs {
		subs = append(subs, common.L(common.QS(g.Name), cfg.SubSchema(g).Sexp()))
	}
	k, nk := keysSexp(cfg)
	return common.L("config", common.L("super", cfg.Super.Sexp()), common.L(subs...), k, nk, requiresSexp(cfg), nkeyDeclsSexp(cfg))
}

// ---------------------------------------------------------------- directed operations

// directedOp generates an operation aimed at the fragment of the plan theorem: a few root fields, under an
// object-typed root field leaf fields of the type drawn from all its owners in a random order.
func directedOp(r *common.Rand, cfg *fedlab.Config, style int) *fedlab.Operation {
	op := &fedlab.Operation{Variables: fedlab.JO()}
	q := cfg.Super.Type(cfg.Super.Query)
	if q == nil || len(q.Fields) == 0 {
		return nil
	}
	used := map[string]bool{}
	n := 1 + r.Pick(3)
	for i := 0; i < n; i++ {
		fd := common.PickOf(r, q.Fields)
		s := &fedlab.Sel{Kind: fedlab.SField, Name: fd.Name}
		key := fd.Name
		if used[key] {
			key = fmt.Sprintf("r%d", i)
			s.Alias = key
		}
		used[key] = true
		if !argsFor(r, cfg, fd, s) {
			continue
		}
		if !cfg.Super.IsLeaf(fd.Type.Base()) {
			s.Sels = directedSels(r, cfg, fd.Type.Base(), style, 0)
			if len(s.Sels) == 0 {
				continue
			}
		}
		op.Sels = append(op.Sels, s)
	}
	if len(op.Sels) == 0 {
		return nil
	}
	return op
}

func argsFor(r *common.Rand, cfg *fedlab.Config, fd *fedlab.FieldDef, s *fedlab.Sel) bool {
	for _, a := range fd.Args {
		required := a.Type.IsNonNull() && a.Default == nil
		if !required && r.Chance(1, 2) {
			continue
		}
		var v *fedlab.Value
		t := a.Type.Nullable()
		if t.Kind != fedlab.TNamed {
			if required {
				return false
			}
			continue
		}
		switch t.Name {
		case "Int":
			v = &fedlab.Value{Kind: fedlab.VInt, Raw: fmt.Sprint(r.Pick(50))}
		case "String", "ID":
			v = &fedlab.Value{Kind: fedlab.VStr, Raw: fmt.Sprintf("w%d", r.Pick(9))}
		case "Boolean":
			v = &fedlab.Value{Kind: fedlab.VBool, Raw: fmt.Sprint(r.Chance(1, 2))}
		case "Float":
			v = &fedlab.Value{Kind: fedlab.VFloat, Raw: "1.5"}
		default:
			if td := cfg.Super.Type(t.Name); td != nil && td.Kind == fedlab.KEnum && len(td.Values) > 0 {
				v = &fedlab.Value{Kind: fedlab.VEnum, Raw: common.PickOf(r, td.Values)}
			} else if required {
				return false
			} else {
				continue
			}
		}
		s.Args = append(s.Args, fedlab.Arg{Name: a.Name, Val: v})
	}
	return true
}

func directedSels(r *common.Rand, cfg *fedlab.Config, typ string, style, depth int) []*fedlab.Sel {
	td := cfg.Super.Type(typ)
	if td == nil || td.Kind != fedlab.KObject {
		// abstract type: typename plus one fragment per possible type
		var out []*fedlab.Sel
		if td == nil {
			return nil
		}
		out = append(out, &fedlab.Sel{Kind: fedlab.SField, Name: "__typename"})
		for _, m := range cfg.Super.PossibleTypes(typ) {
			if inner := directedSels(r, cfg, m, style, depth+1); len(inner) > 0 && r.Chance(2, 3) {
				out = append(out, &fedlab.Sel{Kind: fedlab.SInline, On: m, Sels: inner})
			}
		}
		return out
	}
	var leaf, comp []*fedlab.FieldDef
	for _, fd := range td.Fields {
		if cfg.Super.IsLeaf(fd.Type.Base()) {
			leaf = append(leaf, fd)
		} else {
			comp = append(comp, fd)
		}
	}
	var out []*fedlab.Sel
	seen := map[string]bool{}
	n := 1 + r.Pick(4)
	for i := 0; i < n && len(leaf) > 0; i++ {
		fd := common.PickOf(r, leaf)
		if seen[fd.Name] {
			continue
		}
		seen[fd.Name] = true
		s := &fedlab.Sel{Kind: fedlab.SField, Name: fd.Name}
		if !argsFor(r, cfg, fd, s) {
			continue
		}
		if style >= 1 && r.Chance(1, 6) {
			s.Alias = fmt.Sprintf("a%d", i)
		}
		out = append(out, s)
	}
	if style >= 1 && r.Chance(1, 5) {
		out = append(out, &fedlab.Sel{Kind: fedlab.SField, Name: "__typename"})
	}
	if style >= 2 && depth < 2 && len(comp) > 0 && r.Chance(1, 2) {
		fd := common.PickOf(r, comp)
		s := &fedlab.Sel{Kind: fedlab.SField, Name: fd.Name}
		if argsFor(r, cfg, fd, s) {
			s.Sels = directedSels(r, cfg, fd.Type.Base(), style, depth+1)
			if len(s.Sels) > 0 {
				out = append(out, s)
			}
		}
	}
	r.Shuffle(len(out), func(a, b int) { out[a], out[b] = out[b], out[a] })
	return out
}

// ---------------------------------------------------------------- case lines

func reqSexp(q *fedlab.Request) string {
	vars := "(n)"
	if q.Variables != nil {
		vars = q.Variables.Sexp()
	}
	doc := "(noquery)"
	if q.ParseError == "" && q.Query != "" {
		doc = dumpQuery(q.Query)
	}
	resp := "(n)"
	if j, err := fedlab.ParseJSON(q.Response); err == nil {
		resp = j.Sexp()
	}
	return common.L("req", common.I(q.Index), common.QS(q.Subgraph), doc, vars, resp)
}

func runSexp(lab *fedlab.Lab, u *fedlab.Universe, uniIdx int, op *fedlab.Operation) (string, bool) {
	if err := lab.SetUniverse(u); err != nil {
		return common.L("run", common.I(uniIdx), common.L("laberror", common.QS(err.Error()))), false
	}
	vars := []byte(op.VariablesJSON())
	ref, err := lab.Mono(op.Text(), op.Name, vars)
	if err != nil || ref.Invalid != "" {
		msg := "invalid"
		if err != nil {
			msg = err.Error()
		} else {
			msg = ref.Invalid
		}
		return common.L("run", common.I(uniIdx), common.L("laberror", common.QS("mono: "+msg))), false
	}
	res := lab.Run(op.Text(), vars, &fedlab.RunOptions{OperationName: op.Name})
	if res.Err != nil {
		return common.L("run", common.I(uniIdx), common.L("gatewayerror", common.QS(fedlab.Trunc(res.Err.Error(), 300)))), false
	}
	reqs := []string{"requests"}
	rs := append([]*fedlab.Request(nil), res.Requests...)
	sort.SliceStable(rs, func(a, b int) bool { return rs[a].Index < rs[b].Index })
	for _, q := range rs {
		reqs = append(reqs, reqSexp(q))
	}
	gw := res.Data
	if gw == nil {
		gw = fedlab.JN()
	}
	nerr := 0
	if res.HasErrors() {
		nerr = len(res.Errors.Items)
	}
	agree := gw.EqualUnordered(ref.Data) && (nerr > 0) == (ref.NErrors > 0)
	return common.L("run", common.I(uniIdx), common.L("universe", u.Sexp()), common.L(reqs...),
		common.L("gateway", gw.Sexp(), common.I(nerr)), common.L("mono", ref.Data.Sexp(), common.I(ref.NErrors))), agree
}

func planSexp(rp *rplan) string {
	fs := []string{"fetches"}
	for _, f := range rp.Fetches {
		fs = append(fs, f.sexp())
	}
	vars := "(o)"
	if j, err := fedlab.ParseJSON([]byte(rp.NormVars)); err == nil {
		vars = j.Sexp()
	}
	return common.L("plan", common.L("op", rp.NormSX), common.L("vars", vars), common.L("tree", rp.Tree), common.L(fs...),
		common.L("response", rp.Response))
}

// cmdGen: one line per (configuration, operation) pair.
//   -seed S -from C -n N     configurations C .. C+N-1
//   -fedops K                the first K fedlab operations of each configuration (0..5)
//   -dirops K                K directed operations per configuration
//   -unis U                  end-to-end runs on universes 0..U-1 ; -search M: on disagreement-free rejected
//                            pairs the driver may ask for more (c01p search)
func cmdGen(a map[string]string) {
	seed := common.ArgU64(a, "seed", 1)
	from := common.ArgInt(a, "from", 0)
	n := common.ArgInt(a, "n", 20)
	fedops := common.ArgInt(a, "fedops", 5)
	dirops := common.ArgInt(a, "dirops", 5)
	unis := common.ArgInt(a, "unis", 1)
	max := fedlab.ParseKnobs(a["knobs"])
	out := common.NewOut(a["out"])
	defer out.Close()
	exec, err := fedlab.NewExecServer("")
	if err != nil {
		fmt.Fprintln(os.Stderr, "exec:", err)
		os.Exit(2)
	}
	defer exec.Close()
	t0 := time.Now()
	pairs := 0
	for ci := from; ci < from+n; ci++ {
		k := max
		if a["exact"] != "1" {
			k = fedlab.KnobsFor(seed, ci, max)
		}
		cfg := fedlab.BuildConfig(seed, ci, k)
		unisL := make([]*fedlab.Universe, unis)
		for u := 0; u < unis; u++ {
			unisL[u] = fedlab.BuildUniverse(seed, ci, u, k, cfg)
		}
		p, err := newPlanner(cfg)
		if err != nil {
			out.Line(common.L("c01p", fmt.Sprintf("(id %d %d 0 %s %s)", seed, ci, common.QS(k.String()), common.QS("config")), common.L("laberror", common.QS("planner: "+err.Error()))))
			continue
		}
		lab, err := fedlab.NewLab(cfg, unisL[0], exec, fedlab.EngineOptions{})
		if err != nil {
			p.close()
			out.Line(common.L("c01p", fmt.Sprintf("(id %d %d 0 %s %s)", seed, ci, common.QS(k.String()), common.QS("config")), common.L("laberror", common.QS("lab: "+err.Error()))))
			continue
		}
		cs := configSexp(cfg)
		type gop struct {
			src string
			idx int
			op  *fedlab.Operation
		}
		var ops []gop
		for j := 0; j < fedops && j < fedlab.OpsPerConfig; j++ {
			ops = append(ops, gop{"fedlab", j, fedlab.BuildOperation(seed, ci*fedlab.OpsPerConfig+j, k, cfg, unisL[0])})
		}
		for j := 0; j < dirops; j++ {
			r := common.NewRand(seed*1000003 + uint64(ci)*7919 + uint64(j)*104729 + 17)
			if op := directedOp(r, cfg, j%3); op != nil {
				ops = append(ops, gop{"directed", j, op})
			}
		}
		for _, g := range ops {
			pairs++
			id := fmt.Sprintf("(id %d %d %d %s %s)", seed, ci, g.idx, common.QS(k.String()), common.QS(g.src))
			raw := common.L("rawop", common.QS(g.op.Text()), common.QS(g.op.Name), g.op.Variables.Sexp())
			rp, err := p.plan(g.op.Text(), g.op.Name, []byte(g.op.VariablesJSON()))
			if err != nil {
				out.Line(common.L("c01p", id, cs, raw, common.L("planerror", common.QS(fedlab.Trunc(err.Error(), 300)))))
				continue
			}
			runs := []string{"runs"}
			for u := 0; u < unis; u++ {
				rs, _ := runSexp(lab, unisL[u], u, g.op)
				runs = append(runs, rs)
			}
			out.Line(common.L("c01p", id, cs, raw, planSexp(rp), common.L(runs...)))
		}
		lab.Close()
		p.close()
	}
	fmt.Fprintf(os.Stderr, "c01p gen: %d pairs in %.1fs\n", pairs, time.Since(t0).Seconds())
}

// cmdSearch: universe search for one pair: runs universes ufrom..ufrom+unis-1 and reports the first on which
// gateway and monolith disagree (data modulo member order, or errors present on one side only).
func cmdSearch(a map[string]string) {
	seed := common.ArgU64(a, "seed", 1)
	ci := common.ArgInt(a, "cfg", 0)
	src := a["src"]
	idx := common.ArgInt(a, "op", 0)
	ufrom := common.ArgInt(a, "ufrom", 0)
	unis := common.ArgInt(a, "unis", 20)
	max := fedlab.ParseKnobs(a["knobs"])
	k := max
	if a["exact"] != "1" {
		k = fedlab.KnobsFor(seed, ci, max)
	}
	cfg := fedlab.BuildConfig(seed, ci, k)
	u0 := fedlab.BuildUniverse(seed, ci, 0, k, cfg)
	var op *fedlab.Operation
	if src == "directed" {
		r := common.NewRand(seed*1000003 + uint64(ci)*7919 + uint64(idx)*104729 + 17)
		op = directedOp(r, cfg, idx%3)
	} else {
		op = fedlab.BuildOperation(seed, ci*fedlab.OpsPerConfig+idx, k, cfg, u0)
	}
	if op == nil {
		fmt.Println("(search (error \"no such operation\"))")
		return
	}
	exec, err := fedlab.NewExecServer("")
	if err != nil {
		fmt.Println("(search (error \"exec\"))")
		return
	}
	defer exec.Close()
	lab, err := fedlab.NewLab(cfg, u0, exec, fedlab.EngineOptions{})
	if err != nil {
		fmt.Println("(search (error " + common.QS(err.Error()) + "))")
		return
	}
	defer lab.Close()
	for u := ufrom; u < ufrom+unis; u++ {
		uni := fedlab.BuildUniverse(seed, ci, u, k, cfg)
		rs, agree := runSexp(lab, uni, u, op)
		if !agree {
			fmt.Println(common.L("search", common.L("disagree", common.I(u)), common.L("rawop", common.QS(op.Text())), rs))
			return
		}
	}
	fmt.Println(common.L("search", common.L("agree", common.I(unis))))
}
