// Command c01p: translation validation of real plans for property C01.
//   c01p show   -seed S -cfg C -op J [-src directed] [-knobs K -exact 1]   print operation, real plan, requests of one pair
//   c01p gen    -seed S -from C -n N -fedops 5 -dirops 5 -unis U -knobs K -out F   one case line per (configuration, operation)
//   c01p search -seed S -cfg C -src fedlab|directed -op J -ufrom A -unis N      first universe on which gateway != monolith
//   c01p save   ... -unis U -out file.json    self-contained pair (configuration, universes, operation)
//   c01p replay -in file|dir -out F           re-plan and re-run saved pairs
package main

import (
	"fmt"
	"os"

	"gvh/common"
	"gvh/fedlab"
)

func cmdShow(a map[string]string) {
	seed := common.ArgU64(a, "seed", 1)
	idx := common.ArgInt(a, "index", 0)
	if _, ok := a["cfg"]; ok {
		idx = common.ArgInt(a, "cfg", 0)*fedlab.OpsPerConfig + common.ArgInt(a, "op", 0)%fedlab.OpsPerConfig
	}
	c := fedlab.BuildCase(seed, idx, common.ArgInt(a, "uni", 0), fedlab.ParseKnobs(a["knobs"]), a["exact"] == "1")
	if a["src"] == "directed" {
		j := common.ArgInt(a, "op", 0)
		r := common.NewRand(seed*1000003 + uint64(c.CfgIdx())*7919 + uint64(j)*104729 + 17)
		c.Op = directedOp(r, c.Cfg, j%3)
	}
	fmt.Println("knobs:", c.Knobs.String())
	fmt.Println("--- supergraph\n" + c.Cfg.Super.SDL())
	for _, g := range c.Cfg.Subgraphs {
		fmt.Println("--- subgraph " + g.Name + "\n" + c.Cfg.SubgraphSDL(g))
	}
	fmt.Println("--- operation\n" + c.Op.Text() + "\nvariables " + c.Op.VariablesJSON())
	p, err := newPlanner(c.Cfg)
	if err != nil {
		fmt.Println("planner:", err)
		os.Exit(2)
	}
	defer p.close()
	rp, err := p.plan(c.Op.Text(), c.Op.Name, []byte(c.Op.VariablesJSON()))
	if err != nil {
		fmt.Println("plan error:", err)
		os.Exit(1)
	}
	fmt.Println("--- normalised\n" + rp.NormOp + "\nvariables " + rp.NormVars)
	fmt.Println("--- fetch tree " + rp.Tree)
	for _, f := range rp.Fetches {
		fmt.Printf("fetch %d deps=%v %s on %s at %q\n  query: %s\n  vars: %s\n  repr: %s\n  data=%v merge=%v %s\n", f.ID, f.Deps, f.Kind, f.Subgraph, f.Path, f.Query, f.VarsText, f.Repr, f.DataPath, f.MergePath, f.Flags)
	}
	fmt.Println("--- response tree\n" + rp.Response)
	exec, err := fedlab.NewExecServer("")
	if err != nil {
		fmt.Println("exec:", err)
		os.Exit(2)
	}
	defer exec.Close()
	lab, err := fedlab.NewLab(c.Cfg, c.Uni, exec, fedlab.EngineOptions{})
	if err != nil {
		fmt.Println("lab:", err)
		os.Exit(2)
	}
	defer lab.Close()
	res := lab.Run(c.Op.Text(), []byte(c.Op.VariablesJSON()), &fedlab.RunOptions{OperationName: c.Op.Name})
	for _, q := range res.Requests {
		v := ""
		if q.Variables != nil {
			v = q.Variables.String()
		}
		fmt.Printf("request %d %s: %s | %s\n  -> %s\n", q.Index, q.Subgraph, q.Query, v, q.Response)
	}
	fmt.Println("gateway:", string(res.Response), res.Err)
	ref, err := lab.Mono(c.Op.Text(), c.Op.Name, []byte(c.Op.VariablesJSON()))
	if err == nil {
		fmt.Println("mono:   ", ref.Data.String(), ref.NErrors)
	}
}

func main() {
	if len(os.Args) < 2 {
		fmt.Fprintln(os.Stderr, "usage: c01p show|gen ...")
		os.Exit(2)
	}
	a := common.Args(os.Args[2:])
	switch os.Args[1] {
	case "show":
		cmdShow(a)
	case "gen":
		cmdGen(a)
	case "search":
		cmdSearch(a)
	case "save":
		cmdSave(a)
	case "replay", "corpus":
		cmdReplay(a)
	default:
		fmt.Fprintln(os.Stderr, "unknown command", os.Args[1])
		os.Exit(2)
	}
}
