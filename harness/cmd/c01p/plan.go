package main

// Planning an operation with the engine's own recipe (execution/engine/execution_engine.go
// Execute / getCachedPlan: normalise, validate, extract variables, map variables, plan.Planner,
// postprocess.Processor) over the data sources of a fedlab configuration, and a structured dump of
// the REAL plan: fetch tree (id, dependencies, subgraph, upstream query, representation template,
// response path, post-processing paths) and the response tree.  Copy of the recipe in
// harness/e2e/plan.go (kept here so that c01p depends on gvh/fedlab only).

import (
	"bytes"
	"context"
	"encoding/json"
	"fmt"
	"net/http"
	"strings"

	"gvh/common"
	"gvh/fedlab"

	"github.com/wundergraph/graphql-go-tools/execution/graphql"
	"github.com/wundergraph/graphql-go-tools/v2/pkg/astnormalization"
	"github.com/wundergraph/graphql-go-tools/v2/pkg/astparser"
	"github.com/wundergraph/graphql-go-tools/v2/pkg/astprinter"
	"github.com/wundergraph/graphql-go-tools/v2/pkg/astvalidation"
	"github.com/wundergraph/graphql-go-tools/v2/pkg/engine/datasource/graphql_datasource"
	"github.com/wundergraph/graphql-go-tools/v2/pkg/engine/datasource/introspection_datasource"
	"github.com/wundergraph/graphql-go-tools/v2/pkg/engine/plan"
	"github.com/wundergraph/graphql-go-tools/v2/pkg/engine/postprocess"
	"github.com/wundergraph/graphql-go-tools/v2/pkg/engine/resolve"
	"github.com/wundergraph/graphql-go-tools/v2/pkg/operationreport"
)

type planner struct {
	cfg    *fedlab.Config
	schema *graphql.Schema
	conf   plan.Configuration
	cancel context.CancelFunc
}

func newPlanner(cfg *fedlab.Config) (*planner, error) {
	ctx, cancel := context.WithCancel(context.Background())
	p := &planner{cfg: cfg, cancel: cancel}
	schema, err := graphql.NewSchemaFromString(cfg.Super.SDL())
	if err != nil {
		cancel()
		return nil, err
	}
	p.schema = schema
	httpClient := &http.Client{}
	sub := graphql_datasource.NewGraphQLSubscriptionClient(ctx, graphql_datasource.WithUpgradeClient(httpClient), graphql_datasource.WithStreamingClient(httpClient))
	factory, err := graphql_datasource.NewFactory(ctx, httpClient, sub)
	if err != nil {
		cancel()
		return nil, err
	}
	for _, g := range cfg.Subgraphs {
		sdl := cfg.SubgraphSDL(g)
		sc, err := graphql_datasource.NewSchemaConfiguration(sdl, &graphql_datasource.FederationConfiguration{Enabled: true, ServiceSDL: sdl})
		if err != nil {
			cancel()
			return nil, err
		}
		dsc, err := graphql_datasource.NewConfiguration(graphql_datasource.ConfigurationInput{
			Fetch:               &graphql_datasource.FetchConfiguration{URL: g.URL(), Method: http.MethodPost},
			SchemaConfiguration: sc,
		})
		if err != nil {
			cancel()
			return nil, err
		}
		ds, err := plan.NewDataSourceConfiguration[graphql_datasource.Configuration](g.Name, factory, cfg.Metadata(g), dsc)
		if err != nil {
			cancel()
			return nil, err
		}
		p.conf.DataSources = append(p.conf.DataSources, ds)
	}
	p.conf.Fields = cfg.FieldConfigurations()
	p.conf.DefaultFlushIntervalMillis = 1000
	icf, err := introspection_datasource.NewIntrospectionConfigFactory(schema.Document())
	if err != nil {
		cancel()
		return nil, err
	}
	p.conf.DataSources = append(p.conf.DataSources, icf.BuildDataSourceConfigurations()...)
	p.conf.Fields = append(p.conf.Fields, icf.BuildFieldConfigurations()...)
	return p, nil
}

func (p *planner) close() { p.cancel() }

// rfetch is one fetch of the real plan.
type rfetch struct {
	ID       int
	Deps     []int
	Kind     string // single | entity | batch | other:<T>
	Subgraph string
	Path     string // FetchItem.ResponsePath
	FetchPath []resolve.FetchItemPathElement
	Query    string // upstream operation text
	QuerySX  string // ... dumped to the FEDLAB.md document form
	VarsText string // static text of the "variables" part of the request template (variable segments as $$k$$)
	Repr     string // S-expression of the representation template(s) (entity / batch)
	DataPath []string
	MergePath []string
	Flags    string
}

type rplan struct {
	NormOp   string // the operation the planner saw (normalised, variables extracted), printed
	NormSX   string
	NormVars string // variables after extraction
	Fetches  []*rfetch
	Tree     string // Q/P/S structure
	Response string // S-expression of the response tree
}

func (p *planner) plan(operation, operationName string, variables []byte) (*rplan, error) {
	req := &graphql.Request{Query: operation, OperationName: operationName}
	if len(bytes.TrimSpace(variables)) > 0 {
		req.Variables = json.RawMessage(variables)
	}
	nres, err := req.Normalize(p.schema, astnormalization.WithRemoveFragmentDefinitions(),
		astnormalization.WithRemoveUnusedVariables(), astnormalization.WithInlineFragmentSpreads(),
		astnormalization.WithEnableDefer(),
		astnormalization.WithPrevalidationRules(
			astvalidation.DeferStreamOnValidOperations(),
			astvalidation.DeferStreamHaveUniqueLabels(),
			astvalidation.DirectivesAreDefined(),
			astvalidation.DirectivesAreInValidLocations(),
			astvalidation.DirectivesAreUniquePerLocation(),
			astvalidation.StreamAppliedToListFieldsOnly()))
	if err != nil {
		return nil, err
	}
	if !nres.Successful {
		return nil, nres.Errors
	}
	if vres, err := req.ValidateForSchema(p.schema); err != nil {
		return nil, err
	} else if !vres.Valid {
		return nil, vres.Errors
	}
	if nres, err = req.Normalize(p.schema, astnormalization.WithExtractVariables()); err != nil {
		return nil, err
	} else if !nres.Successful {
		return nil, nres.Errors
	}
	var report operationreport.Report
	remap := astnormalization.NewVariablesMapper().NormalizeOperation(req.Document(), p.schema.Document(), &report)
	if report.HasErrors() {
		return nil, report
	}
	out := &rplan{}
	if s, err := astprinter.PrintString(req.Document()); err == nil {
		out.NormOp = s
	}
	out.NormSX = fedlab.DumpDocument(req.Document())
	out.NormVars = string(req.Document().Input.Variables)
	// the variables as the planned operation names them (resolve.Context.RemapVariables: new name -> old name)
	if vj, err := fedlab.ParseJSON(req.Document().Input.Variables); err == nil && vj.Kind == fedlab.JObj {
		names := make([]string, 0, len(remap))
		for nw := range remap {
			names = append(names, nw)
		}
		sortStrings(names)
		var ms []fedlab.Member
		for _, nw := range names {
			if v := vj.Get(remap[nw]); v != nil {
				ms = append(ms, fedlab.Member{Key: nw, Val: v})
			}
		}
		for _, m := range vj.Members {
			if _, renamed := remap[m.Key]; !renamed {
				isOld := false
				for _, old := range remap {
					if old == m.Key {
						isOld = true
					}
				}
				if !isOld {
					ms = append(ms, m)
				}
			}
		}
		out.NormVars = fedlab.JO(ms...).String()
	}
	pl, err := plan.NewPlanner(p.conf)
	if err != nil {
		return nil, err
	}
	rp := pl.Plan(req.Document(), p.schema.Document(), operationName, &report, plan.IncludeQueryPlanInResponse())
	if report.HasErrors() {
		return nil, report
	}
	sp, ok := rp.(*plan.SynchronousResponsePlan)
	if !ok {
		return nil, fmt.Errorf("not a synchronous plan: %T", rp)
	}
	postprocess.NewProcessor().Process(rp)
	var sb strings.Builder
	if err := dumpFetchTree(sp.Response.Fetches, &sb, out); err != nil {
		return nil, err
	}
	out.Tree = sb.String()
	out.Response = dumpNode(sp.Response.Data)
	return out, nil
}

func templateText(t resolve.InputTemplate) string {
	var sb strings.Builder
	k := 0
	var walk func(segs []resolve.TemplateSegment)
	walk = func(segs []resolve.TemplateSegment) {
		for _, s := range segs {
			switch {
			case s.SegmentType == resolve.StaticSegmentType:
				sb.Write(s.Data)
			case s.VariableKind == resolve.ContextVariableKind:
				sb.WriteString("$$ctx:" + strings.Join(s.VariableSourcePath, ".") + "$$")
			default:
				sb.WriteString(fmt.Sprintf("$$%d:%d$$", k, s.VariableKind))
			}
			k++
		}
	}
	walk(t.Segments)
	return sb.String()
}

// bodyParts splits the static request text {"method":..,"url":..,"body":{"query":"..","variables":{..}}}.
func bodyParts(text string) (query, vars string) {
	i := strings.Index(text, `"query":"`)
	if i < 0 {
		return "", ""
	}
	rest := text[i+len(`"query":`):]
	dec := json.NewDecoder(strings.NewReader(rest))
	var s string
	if err := dec.Decode(&s); err != nil {
		return "", ""
	}
	query = s
	after := rest[dec.InputOffset():]
	if j := strings.Index(after, `"variables":`); j >= 0 {
		vars = after[j+len(`"variables":`):]
	}
	return
}

func reprTemplate(t resolve.InputTemplate) string {
	items := []string{"tmpl", common.B(t.SetTemplateOutputToNullOnVariableNull)}
	for _, s := range t.Segments {
		if s.SegmentType == resolve.StaticSegmentType {
			items = append(items, common.L("static", common.Q(s.Data)))
			continue
		}
		if r, ok := s.Renderer.(*resolve.GraphQLVariableResolveRenderer); ok && r != nil {
			items = append(items, common.L("resolve", dumpNode(r.Node)))
		} else {
			items = append(items, common.L("var", common.I(int(s.VariableKind)), common.QS(strings.Join(s.VariableSourcePath, "."))))
		}
	}
	return common.L(items...)
}

func strsSX(xs []string) string {
	items := make([]string, len(xs))
	for i, x := range xs {
		items[i] = common.QS(x)
	}
	return "(" + strings.Join(items, " ") + ")"
}

func bstrsSX(xs [][]byte) string {
	items := make([]string, len(xs))
	for i, x := range xs {
		items[i] = common.Q(x)
	}
	return "(" + strings.Join(items, " ") + ")"
}

// dumpNode: response-tree / representation-template node.
//   (obj (path..) nullable "TypeName" (possible..) (fld "name" <(on ..)|(any)> <(parenton (d names)..)> node)..)
//   (arr (path..) nullable item) | (leaf kind (path..) nullable) | (static "v") | (null) | ...
func dumpNode(n resolve.Node) string {
	switch x := n.(type) {
	case *resolve.Object:
		if x == nil {
			return "(nil)"
		}
		items := []string{"obj", strsSX(x.Path), common.B(x.Nullable), common.QS(x.TypeName)}
		poss := []string{}
		for k := range x.PossibleTypes {
			poss = append(poss, k)
		}
		sortStrings(poss)
		items = append(items, strsSX(poss))
		for _, f := range x.Fields {
			on := "(any)"
			if f.OnTypeNames != nil {
				on = common.L("on", bstrsSX(f.OnTypeNames))
			}
			pon := []string{"parenton"}
			for _, p := range f.ParentOnTypeNames {
				pon = append(pon, common.L(common.I(p.Depth), bstrsSX(p.Names)))
			}
			items = append(items, common.L("fld", common.Q(f.Name), on, common.L(pon...), dumpNode(f.Value)))
		}
		return common.L(items...)
	case *resolve.Array:
		if x == nil {
			return "(nil)"
		}
		return common.L("arr", strsSX(x.Path), common.B(x.Nullable), dumpNode(x.Item))
	case *resolve.String:
		return common.L("leaf", "str", strsSX(x.Path), common.B(x.Nullable))
	case *resolve.Boolean:
		return common.L("leaf", "bool", strsSX(x.Path), common.B(x.Nullable))
	case *resolve.Integer:
		return common.L("leaf", "int", strsSX(x.Path), common.B(x.Nullable))
	case *resolve.Float:
		return common.L("leaf", "float", strsSX(x.Path), common.B(x.Nullable))
	case *resolve.BigInt:
		return common.L("leaf", "bigint", strsSX(x.Path), common.B(x.Nullable))
	case *resolve.Scalar:
		return common.L("leaf", "scalar", strsSX(x.Path), common.B(x.Nullable))
	case *resolve.Enum:
		return common.L("leaf", "enum", strsSX(x.Path), common.B(x.Nullable))
	case *resolve.StaticString:
		return common.L("static", common.QS(x.Value))
	case *resolve.Null:
		return "(null)"
	case *resolve.EmptyObject:
		return "(emptyobj)"
	case *resolve.EmptyArray:
		return "(emptyarr)"
	case nil:
		return "(nil)"
	}
	return common.L("other", common.QS(fmt.Sprintf("%T", n)))
}

func sortStrings(xs []string) {
	for i := 1; i < len(xs); i++ {
		for j := i; j > 0 && xs[j] < xs[j-1]; j-- {
			xs[j], xs[j-1] = xs[j-1], xs[j]
		}
	}
}

func dumpQuery(text string) string {
	doc, report := astparser.ParseGraphqlDocumentString(text)
	if report.HasErrors() {
		return common.L("parseerror", common.QS(report.Error()))
	}
	return fedlab.DumpDocument(&doc)
}

func dumpFetchTree(n *resolve.FetchTreeNode, sb *strings.Builder, out *rplan) error {
	if n == nil {
		sb.WriteString("(Q)")
		return nil
	}
	switch n.Kind {
	case resolve.FetchTreeNodeKindSingle:
		f := &rfetch{Path: n.Item.ResponsePath, FetchPath: n.Item.FetchPath}
		deps := n.Item.Fetch.Dependencies()
		f.ID, f.Deps = deps.FetchID, append([]int(nil), deps.DependsOnFetchIDs...)
		if info := n.Item.Fetch.FetchInfo(); info != nil {
			f.Subgraph = info.DataSourceName
		}
		switch x := n.Item.Fetch.(type) {
		case *resolve.SingleFetch:
			f.Kind = "single"
			text := x.Input
			if text == "" || len(x.InputTemplate.Segments) > 0 {
				text = templateText(x.InputTemplate)
			}
			f.Query, f.VarsText = bodyParts(text)
			f.DataPath, f.MergePath = x.PostProcessing.SelectResponseDataPath, x.PostProcessing.MergePath
			f.Flags = fmt.Sprintf("(flags (entity %s) (batch %s))", common.B(x.RequiresEntityFetch), common.B(x.RequiresEntityBatchFetch))
		case *resolve.EntityFetch:
			f.Kind = "entity"
			f.Query, f.VarsText = bodyParts(templateText(x.Input.Header))
			f.VarsText += "<item>" + templateText(x.Input.Footer)
			f.Repr = common.L("reprs", reprTemplate(x.Input.Item))
			f.DataPath, f.MergePath = x.PostProcessing.SelectResponseDataPath, x.PostProcessing.MergePath
			f.Flags = fmt.Sprintf("(flags (skiperr %s))", common.B(x.Input.SkipErrItem))
		case *resolve.BatchEntityFetch:
			f.Kind = "batch"
			f.Query, f.VarsText = bodyParts(templateText(x.Input.Header))
			f.VarsText += "<items sep=" + templateText(x.Input.Separator) + ">" + templateText(x.Input.Footer)
			rs := []string{"reprs"}
			for _, it := range x.Input.Items {
				rs = append(rs, reprTemplate(it))
			}
			f.Repr = common.L(rs...)
			f.DataPath, f.MergePath = x.PostProcessing.SelectResponseDataPath, x.PostProcessing.MergePath
			f.Flags = fmt.Sprintf("(flags (skipnull %s) (skipempty %s) (skiperr %s))", common.B(x.Input.SkipNullItems), common.B(x.Input.SkipEmptyObjectItems), common.B(x.Input.SkipErrItems))
		default:
			f.Kind = fmt.Sprintf("other:%T", x)
		}
		if f.Query != "" {
			f.QuerySX = dumpQuery(f.Query)
		}
		out.Fetches = append(out.Fetches, f)
		fmt.Fprintf(sb, "(S %d)", f.ID)
		return nil
	case resolve.FetchTreeNodeKindSequence, resolve.FetchTreeNodeKindParallel:
		if n.Kind == resolve.FetchTreeNodeKindParallel {
			sb.WriteString("(P")
		} else {
			sb.WriteString("(Q")
		}
		for _, c := range n.ChildNodes {
			sb.WriteString(" ")
			if err := dumpFetchTree(c, sb, out); err != nil {
				return err
			}
		}
		sb.WriteString(")")
		return nil
	}
	return fmt.Errorf("unexpected fetch tree node kind %q", n.Kind)
}

func (f *rfetch) sexp() string {
	deps := make([]string, len(f.Deps))
	for i, d := range f.Deps {
		deps[i] = common.I(d)
	}
	fp := []string{"fetchpath"}
	for _, e := range f.FetchPath {
		fp = append(fp, common.L(string(e.Kind), strsSX(e.Path), strsSX(e.TypeNames)))
	}
	q := f.QuerySX
	if q == "" {
		q = "(noquery)"
	}
	r := f.Repr
	if r == "" {
		r = "(reprs)"
	}
	return common.L("fetch", common.I(f.ID), "("+strings.Join(deps, " ")+")", f.Kind, common.QS(f.Subgraph), common.QS(f.Path),
		common.L(fp...), common.QS(f.Query), q, common.QS(f.VarsText), r,
		common.L("datapath", strsSX(f.DataPath)), common.L("mergepath", strsSX(f.MergePath)), f.Flags)
}
