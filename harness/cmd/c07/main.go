// c07: runs generated resolve-level plans (loaderlab) through the real resolve.Resolver, fault
// free and under sets of injected subgraph faults, and prints per plan one case line with every
// run's observables (requests, response bytes, parsed data, error kinds).
package main

import (
	"bufio"
	"fmt"
	"os"
	"sort"
	"strconv"
	"strings"

	"gvh/common"
	"gvh/loaderlab"
	"gvh/plan"

	"github.com/wundergraph/astjson"
	"github.com/wundergraph/graphql-go-tools/v2/pkg/engine/resolve"
)

// fault: a kind, and for FPartial what exactly the subgraph does
type fault struct {
	K loaderlab.FaultKind
	P *loaderlab.Partial
}

func (f fault) String() string {
	if f.K == loaderlab.FPartial && f.P != nil {
		return f.P.Name()
	}
	return f.K.String()
}

type faultSet map[int]fault

func one(fid int, k loaderlab.FaultKind) faultSet { return faultSet{fid: fault{K: k}} }

func (fs faultSet) ids() []int {
	ids := make([]int, 0, len(fs))
	for id := range fs {
		ids = append(ids, id)
	}
	sort.Ints(ids)
	return ids
}

func (fs faultSet) sexp() string {
	items := []string{"faults"}
	for _, id := range fs.ids() {
		items = append(items, common.L(common.I(id), fs[id].String()))
	}
	return common.L(items...)
}

func (fs faultSet) config() loaderlab.RunConfig {
	cfg := loaderlab.RunConfig{Faults: map[int]loaderlab.FaultKind{}, Partials: map[int]*loaderlab.Partial{}}
	for id, f := range fs {
		cfg.Faults[id] = f.K
		if f.P != nil {
			cfg.Partials[id] = f.P
		}
	}
	return cfg
}

// partialsSexp: what the partial-data faults of the run did, for the model (nulls, errors entries) and for the
// spec (the failed objects of the reference data, as the lab derives them from the request the subgraph saw):
// (partials (fid (x "f") (proper b) (nulls k..) (errs <json>..) (failed <loc>..)) ..)
func partialsSexp(p *loaderlab.Plan, fs faultSet, res *loaderlab.Result) string {
	items := []string{"partials"}
	for _, id := range fs.ids() {
		pf := fs[id].P
		if fs[id].K != loaderlab.FPartial || pf == nil {
			continue
		}
		nulls := []string{"nulls"}
		errs := []string{"errs"}
		for _, k := range pf.Idx {
			if pf.Variant != "nonnull" {
				nulls = append(nulls, common.I(k))
			}
			errs = append(errs, jsonSexpOfText(pf.ErrorEntry(k)))
		}
		failed := []string{"failed"}
		for i := range res.Requests {
			if res.Requests[i].FetchID == id {
				failed = append(failed, p.FailedLocs(p.Fetches[id], &res.Requests[i])...)
			}
		}
		items = append(items, common.L(common.I(id), common.L("x", common.QS(pf.Field)), common.L("proper", common.B(pf.Proper())),
			common.L(nulls...), common.L(errs...), common.L(failed...)))
	}
	return common.L(items...)
}

func jsonSexpOfText(s string) string {
	v, err := astjson.Parse(s)
	if err != nil {
		return "(n)"
	}
	return plan.JSONSexp(v)
}

func runSexp(p *loaderlab.Plan, fs faultSet, res *loaderlab.Result) string {
	status := "ok"
	switch {
	case res.TimedOut:
		status = "timeout"
	case res.Panic != "":
		status = "panic"
	case res.Err != nil:
		status = "error"
	}
	out := res.Out
	o := loaderlab.Observation{DataSexp: "(none)"}
	if status == "ok" {
		o = p.Observe(out)
	}
	errs := append([]string{"errs"}, o.Errs...)
	reqs := []string{"reqs"}
	rs := append([]loaderlab.Request{}, res.Requests...)
	sort.SliceStable(rs, func(i, j int) bool { return rs[i].FetchID < rs[j].FetchID })
	for _, rq := range rs {
		hdr, ftr := "=", "="
		reps := []string{"reps"}
		if rq.BadInput {
			hdr, ftr = common.Q(rq.Input), `""`
		}
		for _, r := range rq.Reps {
			reps = append(reps, common.QS(r))
		}
		reqs = append(reqs, common.L("rq", common.I(rq.FetchID), common.QS(rq.DS), hdr, ftr, common.L(reps...)))
	}
	detail := ""
	if res.Err != nil {
		detail = res.Err.Error()
	}
	if res.Panic != "" {
		detail = res.Panic
	}
	return common.L("run", fs.sexp(), common.L("st", status, common.QS(detail)), common.L("out", common.Q(out)), common.L("valid", common.B(o.Valid)),
		common.L("env", common.B(o.Env)), common.L("nerr", common.I(o.NErr)), common.L(errs...), common.L("data", o.DataSexp), common.L("draw", common.QS(o.DataRaw)), common.L(reqs...),
		common.L("us", common.I64(res.Elapsed.Microseconds())), partialsSexp(p, fs, res))
}

type planOpts struct {
	depth                            int
	requires, nullableReq, errEnts bool
	chains, depSingles             bool
	taint, vre                     bool // taint: the generator's Taint option; vre: ResolverOptions.ValidateRequiredExternalFields
}

func optsFor(r *common.Rand, mode string) planOpts {
	o := planOpts{depth: 2 + r.Pick(3)}
	o.requires = r.Chance(2, 3)
	o.nullableReq = o.requires && r.Chance(1, 4)
	o.errEnts = r.Chance(1, 8)
	switch mode {
	case "strict": // no probes of the requires/nullable corner
		o.nullableReq = false
	case "chain": // @requires chains / DAGs (a dependant of a SKIPPED fetch that does not depend on the failed one), dependent Single fetches
		o.requires = true
		o.chains = true
		o.nullableReq = r.Chance(5, 6)
		o.depSingles = r.Chance(1, 2)
	case "taint": // nullable @requires inputs, lists with duplicates / null items, mostly with ValidateRequiredExternalFields
		o.requires, o.nullableReq, o.errEnts, o.taint = true, true, false, true
		o.vre = r.Chance(4, 5)
	}
	return o
}

func makePlan(seed uint64, idx int, mode string) (*loaderlab.Plan, *common.Rand, planOpts) {
	r := common.NewRand(seed*1000003 + uint64(idx)*7919 + 17)
	o := optsFor(r, mode)
	g := &loaderlab.Gen{R: r, Opt: loaderlab.GenOptions{MaxDepth: o.depth, Requires: o.requires, NullableReq: o.nullableReq, ErrEntities: o.errEnts,
		ReqChains: o.chains, DepSingles: o.depSingles, Taint: o.taint, UnknownEntities: o.taint && r.Chance(1, 3)}}
	u := g.Universe()
	return g.Plan(u), r, o
}

var allKinds = func() []loaderlab.FaultKind {
	var ks []loaderlab.FaultKind
	for k := loaderlab.FTransport; k <= loaderlab.FNaNData; k++ {
		ks = append(ks, k)
	}
	return ks
}()

func pickKind(r *common.Rand, fk loaderlab.FKind) loaderlab.FaultKind {
	for {
		var k loaderlab.FaultKind
		if r.Chance(5, 6) {
			k = loaderlab.FTransport + loaderlab.FaultKind(r.Pick(int(loaderlab.FCountMore-loaderlab.FTransport)+1))
		} else {
			k = common.PickOf(r, allKinds)
		}
		if k == loaderlab.FNullEntities && skipNullEntities {
			continue
		}
		if k.Applicable(fk) {
			return k
		}
	}
}

var crumbPath string

func crumb(seed uint64, idx int, mode string, fs faultSet) {
	if crumbPath == "" {
		return
	}
	ids := make([]int, 0, len(fs))
	for id := range fs {
		ids = append(ids, id)
	}
	sort.Ints(ids)
	parts := make([]string, 0, len(ids))
	for _, id := range ids {
		parts = append(parts, strconv.Itoa(id)+":"+fs[id].String())
	}
	_ = os.WriteFile(crumbPath, []byte(fmt.Sprintf("%d\t%d\t%s\t%s\n", seed, idx, mode, strings.Join(parts, ","))), 0o644)
}

var curMode = "mixed"

func planLine(lab0 *loaderlab.Lab, p *loaderlab.Plan, r *common.Rand, sets []faultSet, seed uint64, idx int, o planOpts) (string, int) {
	lab := labFor(lab0, o)
	answers := map[string]loaderlab.Answer{}
	var order []string
	note := func(res *loaderlab.Result) {
		for _, a := range res.Answers {
			k := strconv.Itoa(a.FetchID) + "\x00" + a.Rep
			if _, ok := answers[k]; !ok {
				answers[k] = a
				order = append(order, k)
			}
		}
	}
	runs := []string{"runs"}
	crumb(seed, idx, curMode, faultSet{})
	base := p.Run(lab, loaderlab.RunConfig{})
	note(base)
	runs = append(runs, runSexp(p, faultSet{}, base))
	for _, fs := range sets {
		crumb(seed, idx, curMode, fs)
		res := p.Run(lab, fs.config())
		note(res)
		runs = append(runs, runSexp(p, fs, res))
	}
	or := []string{"oracle"}
	for _, k := range order {
		a := answers[k]
		if p.Fetches[a.FetchID].Kind == loaderlab.FSingle {
			or = append(or, common.L("root", common.I(a.FetchID), jsonSexpOfText(a.Entity), common.I(a.NErrs)))
		} else {
			or = append(or, common.L("ans", common.I(a.FetchID), common.QS(a.Rep), jsonSexpOfText(a.Entity), common.I(a.NErrs)))
		}
	}
	meta := common.L("meta", common.I64(int64(seed)), common.I(idx), common.I(o.depth), common.B(o.requires), common.B(o.nullableReq), common.B(o.errEnts), curMode)
	return common.L("c07", meta, p.Sexp(), common.L("prov", p.ProvSexp(p.Root)), common.L("ref", jsonSexpOfText(p.RefData())),
		common.L(or...), common.L(runs...), common.L("taint", common.L("vre", common.B(o.vre)), p.CoordsSexp())), len(runs) - 1
}

// the lab (resolver) for the plan's option set
var labVRE *loaderlab.Lab

func labFor(lab *loaderlab.Lab, o planOpts) *loaderlab.Lab {
	if !o.vre {
		return lab
	}
	if labVRE == nil {
		labVRE = loaderlab.NewLab(resolve.ResolverOptions{ValidateRequiredExternalFields: true})
	}
	return labVRE
}

// taintFaultSets: per fetch that asks for a nullable @requires input (FetchReasons), the partial-data fault at every
// position of the fault-free request (singly, some pairs, all), the proper path variants and the malformed stream;
// a few hard faults and combinations beside them
func taintFaultSets(p *loaderlab.Plan, r *common.Rand, base *loaderlab.Result, tier string) []faultSet {
	var sets []faultSet
	var req []int
	nreps := map[int]int{}
	for _, rq := range base.Requests {
		if _, ok := nreps[rq.FetchID]; !ok {
			req = append(req, rq.FetchID)
		}
		nreps[rq.FetchID] = len(rq.Reps)
	}
	sort.Ints(req)
	part := func(fid int, variant, field string, idx ...int) faultSet {
		return faultSet{fid: fault{K: loaderlab.FPartial, P: &loaderlab.Partial{Variant: variant, Field: field, Idx: idx}}}
	}
	var taintable []int
	for _, fid := range req {
		f := p.Fetches[fid]
		if f.Kind == loaderlab.FSingle {
			continue
		}
		var fields []string
		for _, rs := range f.Reasons {
			if rs.Nullable {
				fields = append(fields, rs.Field)
			}
		}
		if len(fields) == 0 {
			continue
		}
		taintable = append(taintable, fid)
		n := nreps[fid]
		lim := n
		if lim > 6 && tier != "thorough" {
			lim = 6
		}
		for _, x := range fields {
			for k := 0; k < lim; k++ {
				sets = append(sets, part(fid, "ok", x, k))
			}
			if n >= 2 {
				a := r.Pick(n)
				b := (a + 1 + r.Pick(n-1)) % n
				sets = append(sets, part(fid, "ok", x, a, b))
				all := make([]int, n)
				for i := range all {
					all[i] = i
				}
				sets = append(sets, part(fid, "ok", x, all...))
			}
			if n > 0 {
				for _, v := range loaderlab.PartialVariants[1:] {
					sets = append(sets, part(fid, v, x, r.Pick(n)))
				}
				sets = append(sets, part(fid, "ok", x, n+r.Pick(3))) // a position the response does not have
			}
		}
	}
	// hard faults under the option, and combinations with a partial fault
	for i := 0; i < 6 && len(req) > 0; i++ {
		fid := common.PickOf(r, req)
		sets = append(sets, one(fid, pickKind(r, p.Fetches[fid].Kind)))
	}
	for i := 0; i < 4 && len(taintable) > 0 && len(req) > 1; i++ {
		fid := common.PickOf(r, taintable)
		f := p.Fetches[fid]
		fs := part(fid, "ok", f.Reasons[0].Field, r.Pick(nreps[fid]+1))
		other := common.PickOf(r, req)
		if other != fid {
			if r.Chance(1, 2) && p.Fetches[other].Kind != loaderlab.FSingle && len(p.Fetches[other].Reasons) > 0 {
				fs[other] = fault{K: loaderlab.FPartial, P: &loaderlab.Partial{Variant: "ok", Field: p.Fetches[other].Reasons[0].Field, Idx: []int{r.Pick(nreps[other] + 1)}}}
			} else {
				fs[other] = fault{K: pickKind(r, p.Fetches[other].Kind)}
			}
		}
		sets = append(sets, fs)
	}
	return sets
}

func requestedFetches(p *loaderlab.Plan, lab *loaderlab.Lab) []int {
	return requestedIn(p.Run(lab, loaderlab.RunConfig{}))
}

func requestedIn(base *loaderlab.Result) []int {
	seen := map[int]bool{}
	var out []int
	for _, rq := range base.Requests {
		if !seen[rq.FetchID] {
			seen[rq.FetchID] = true
			out = append(out, rq.FetchID)
		}
	}
	sort.Ints(out)
	return out
}

// nullableReq: with a nullable @requires field a null entity (a legitimate "not found" answer) legitimately
// makes the dependent fetch see null, so that probe is left out for such plans
var skipNullEntities bool

// abortKinds: also inject the kinds after which the resolve used to return an error (loaderlab.FaultKind.Aborts; repaired eb6ed70)
var abortKinds = true

// shapeRot rotates the variants of the shape faults from plan to plan (seed and index of the plan)
var shapeRot int

func faultSets(p *loaderlab.Plan, r *common.Rand, req []int, tier string) []faultSet {
	var sets []faultSet
	for _, fid := range req {
		for _, k := range allKinds {
			if k == loaderlab.FNullEntities && skipNullEntities {
				continue
			}
			if k.Applicable(p.Fetches[fid].Kind) {
				sets = append(sets, one(fid, k))
			}
		}
	}
	// the selected data path holds null / a wrong kind / nothing: per requested fetch every shape plain (no errors entry,
	// status 200) and one more variant of it (errors entry / 500 / both, rotating); `_entities` items of a wrong kind
	// and `data` of a wrong kind on a root fetch abort the resolve (finding wrong-kind-data-aborts-response): only with -abortkinds
	for _, fid := range req {
		fk := p.Fetches[fid].Kind
		for sh := range loaderlab.ShapeNames {
			for _, v := range []int{0, 1 + (fid+sh+shapeRot)%3} {
				if fk == loaderlab.FSingle && sh == 3 && skipNullEntities {
					continue // `data: {}` of a root fetch is an answer, not a failure: a dependent fetch legitimately runs
				}
				if k := loaderlab.FShape(sh, v); k.Applicable(fk) && (abortKinds || !k.Aborts(fk)) {
					sets = append(sets, one(fid, k))
				}
			}
		}
		if abortKinds && fk != loaderlab.FSingle {
			for it := range loaderlab.ItemNames {
				sets = append(sets, one(fid, loaderlab.FItems(it, (fid+it+shapeRot)%4)))
			}
		}
	}
	// pairs: a shape fault on one fetch, an ordinary kind on another (own random stream: the older sets stay as they were)
	if len(req) >= 2 {
		r2 := common.NewRand(uint64(shapeRot)*0x9E3779B97F4A7C15 + uint64(len(sets)))
		for i := 0; i < 6; i++ {
			perm := r2.Perm(len(req))
			a, b := req[perm[0]], req[perm[1]]
			k := loaderlab.FShape(r2.Pick(len(loaderlab.ShapeNames)), r2.Pick(4))
			if !k.Applicable(p.Fetches[a].Kind) || (k.Aborts(p.Fetches[a].Kind) && !abortKinds) || (p.Fetches[a].Kind == loaderlab.FSingle && skipNullEntities) {
				continue
			}
			fs := faultSet{a: fault{K: k}}
			if r2.Chance(1, 2) {
				fs[b] = fault{K: loaderlab.FTransport + loaderlab.FaultKind(r2.Pick(int(loaderlab.FNullData-loaderlab.FTransport)+1))}
			} else if k2 := loaderlab.FShape(r2.Pick(4), r2.Pick(4)); k2.Applicable(p.Fetches[b].Kind) && !(p.Fetches[b].Kind == loaderlab.FSingle && skipNullEntities) {
				fs[b] = fault{K: k2}
			}
			sets = append(sets, fs)
		}
	}
	if len(req) < 2 {
		return sets
	}
	random := func(n int) {
		for i := 0; i < n; i++ {
			k := 2 + r.Pick(3)
			if k > len(req) {
				k = len(req)
			}
			perm := r.Perm(len(req))
			fs := faultSet{}
			for _, j := range perm[:k] {
				fs[req[j]] = fault{K: pickKind(r, p.Fetches[req[j]].Kind)}
			}
			sets = append(sets, fs)
		}
	}
	if tier == "thorough" {
		if len(req) <= 6 {
			for mask := 1; mask < 1<<len(req); mask++ {
				if mask&(mask-1) == 0 {
					continue
				}
				for rep := 0; rep < 2; rep++ {
					fs := faultSet{}
					for j := range req {
						if mask&(1<<j) != 0 {
							fs[req[j]] = fault{K: pickKind(r, p.Fetches[req[j]].Kind)}
						}
					}
					sets = append(sets, fs)
				}
			}
		} else {
			random(2000)
		}
	} else {
		random(30)
	}
	return sets
}

func parseFaults(s string) faultSet {
	fs := faultSet{}
	for _, part := range strings.Split(s, ",") {
		kv := strings.SplitN(strings.TrimSpace(part), ":", 2)
		if len(kv) != 2 {
			continue
		}
		id, err := strconv.Atoi(kv[0])
		if err != nil {
			continue
		}
		if pf := loaderlab.ParsePartial(kv[1]); pf != nil {
			fs[id] = fault{K: loaderlab.FPartial, P: pf}
		} else {
			fs[id] = fault{K: loaderlab.FaultKindByName(kv[1])}
		}
	}
	return fs
}


// probeNullThenObject: two entity fetches anchored at the same object both select the object field
// `p`; the first answers p:null (with an error), the second an object.  MergeValues(null, object)
// is ErrMergeDifferentTypes, so the outcome depends on the merge order.
func probeNullThenObject(lab *loaderlab.Lab, firstNull bool) {
	s := &loaderlab.Schema{NSub: 3}
	bT := &loaderlab.TypeDef{Name: "B", Fields: []*loaderlab.FieldDef{{Name: "x", Scalar: plan.KStr, Owner: 1}, {Name: "y", Scalar: plan.KStr, Owner: 2}}}
	pF := &loaderlab.FieldDef{Name: "p", Target: "B", Nullable: true, Owner: 1}
	aT := &loaderlab.TypeDef{Name: "A", Fields: []*loaderlab.FieldDef{pF}}
	aF := &loaderlab.FieldDef{Name: "a", Target: "A", Nullable: true, Owner: 0}
	qT := &loaderlab.TypeDef{Name: "Query", Fields: []*loaderlab.FieldDef{aF}}
	s.Types = []*loaderlab.TypeDef{aT, bT}
	s.Query = qT
	s.Index()
	u := &loaderlab.Universe{Schema: s, Ents: map[string]*loaderlab.Ent{}, ErrOn: map[string]bool{}}
	u.Ents["B/1"] = &loaderlab.Ent{Type: "B", ID: "1", Vals: map[string]any{"x": `"ex"`, "y": `"why"`}}
	u.Ents["A/1"] = &loaderlab.Ent{Type: "A", ID: "1", Vals: map[string]any{"p": &loaderlab.Ref{Type: "B", ID: "1"}}}
	u.Root = &loaderlab.Ent{Type: "Query", Vals: map[string]any{"a": &loaderlab.Ref{Type: "A", ID: "1"}}}
	nullSub, objSub := 1, 2
	u.ErrOn["A/1/"+strconv.Itoa(nullSub)] = true // subgraph 1 answers p:null + an error for A/1
	f0 := &loaderlab.Fetch{ID: 0, Kind: loaderlab.FSingle, Sub: 0, Type: "Query", Sel: &loaderlab.Sel{Type: "Query"}}
	f0.Sel.Field(aF).Sub.Key = true
	mk := func(id, sub int, leaf *loaderlab.FieldDef) *loaderlab.Fetch {
		f := &loaderlab.Fetch{ID: id, Kind: loaderlab.FEntity, Sub: sub, Type: "A", Deps: []int{0}, Path: []loaderlab.PathElem{{Name: "a"}}, Sel: &loaderlab.Sel{Type: "A"}}
		f.Sel.Field(pF).Sub.Field(leaf)
		return f
	}
	f1, f2 := mk(1, nullSub, bT.Fields[0]), mk(2, objSub, bT.Fields[1])
	order := []*loaderlab.Fetch{f1, f2}
	if !firstNull {
		order = []*loaderlab.Fetch{f2, f1}
	}
	root := &plan.Node{Kind: plan.KObj, TypeName: "Query", Fields: []*plan.Field{{Name: "a", Value: &plan.Node{Kind: plan.KObj, Path: []string{"a"}, Nullable: true, TypeName: "A",
		Fields: []*plan.Field{{Name: "p", Value: &plan.Node{Kind: plan.KObj, Path: []string{"p"}, Nullable: true, TypeName: "B",
			Fields: []*plan.Field{{Name: "x", Value: &plan.Node{Kind: plan.KStr, Path: []string{"x"}, Nullable: true}}, {Name: "y", Value: &plan.Node{Kind: plan.KStr, Path: []string{"y"}, Nullable: true}}}}}}}}}}
	p := &loaderlab.Plan{U: u, Root: root, Fetches: []*loaderlab.Fetch{f0, f1, f2}, Prov: map[*plan.Field]int{}}
	p.Tree = &loaderlab.TNode{Kind: "seq", Kids: []*loaderlab.TNode{{Kind: "single", Fetch: f0}, {Kind: "single", Fetch: order[0]}, {Kind: "single", Fetch: order[1]}}}
	p.Finalize(false)
	res := p.Run(lab, loaderlab.RunConfig{})
	fmt.Printf("order=%v\n  out=%s\n  err=%v\n", []int{order[0].ID, order[1].ID}, res.Out, res.Err)
	for _, rq := range res.Requests {
		fmt.Printf("  f%d body=%s\n", rq.FetchID, rq.Body)
	}
}

func main() {
	if len(os.Args) < 2 {
		fmt.Fprintln(os.Stderr, "usage: c07 gen -seed S -n N -tier quick|thorough -mode mixed|strict|chain -out F | c07 corpus -in F -out F | c07 show -seed S -idx I [-faults 1:transport,..]")
		os.Exit(2)
	}
	a := common.Args(os.Args[2:])
	lab := loaderlab.NewLab(resolve.ResolverOptions{})
	defer lab.Close()
	seed := common.ArgU64(a, "seed", 1)
	mode := a["mode"]
	if mode == "" {
		mode = "mixed"
	}
	curMode = mode
	abortKinds = a["abortkinds"] != "0" // since eb6ed70 these kinds are ordinary reported failures: on by default
	if a["out"] != "" && a["out"] != "-" {
		crumbPath = a["out"] + ".current"
	}
	switch os.Args[1] {
	case "gen":
		out := common.NewOut(a["out"])
		defer out.Close()
		n := common.ArgInt(a, "n", 50)
		tier := a["tier"]
		total := 0
		for idx := 0; idx < n; idx++ {
			p, r, o := makePlan(seed, idx, mode)
			skipNullEntities = o.nullableReq || o.depSingles // a null entity is no failure: a dependent Single fetch legitimately runs
			shapeRot = int((seed+uint64(idx))%1000003)
			crumb(seed, idx, mode, faultSet{})
			var sets []faultSet
			if o.taint {
				sets = taintFaultSets(p, r, p.Run(labFor(lab, o), loaderlab.RunConfig{}), tier)
			} else {
				sets = faultSets(p, r, requestedFetches(p, lab), tier)
			}
			line, k := planLine(lab, p, r, sets, seed, idx, o)
			out.Line(line)
			total += k
		}
		fmt.Fprintf(os.Stderr, "runs=%d\n", total)
	case "corpus":
		// corpus file: seed<TAB>idx<TAB>mode<TAB>faults
		out := common.NewOut(a["out"])
		defer out.Close()
		f, err := os.Open(a["in"])
		if err != nil {
			return
		}
		defer f.Close()
		sc := bufio.NewScanner(f)
		for sc.Scan() {
			line := sc.Text()
			if strings.HasPrefix(line, "#") || strings.TrimSpace(line) == "" {
				continue
			}
			parts := strings.Split(line, "\t")
			if len(parts) < 4 {
				continue
			}
			s, _ := strconv.ParseUint(parts[0], 10, 64)
			idx, _ := strconv.Atoi(parts[1])
			p, r, o := makePlan(s, idx, parts[2])
			curMode = parts[2]
			cl, _ := planLine(lab, p, r, []faultSet{parseFaults(parts[3])}, s, idx, o)
			out.Line(cl)
		}
	case "probe-null-object":
		probeNullThenObject(lab, true)
		probeNullThenObject(lab, false)
	case "show":
		idx := common.ArgInt(a, "idx", 0)
		p, _, o := makePlan(seed, idx, mode)
		fmt.Println(p.Sexp())
		fmt.Println("ref:", p.RefData())
		fmt.Println("vre:", o.vre, p.CoordsSexp())
		fs := parseFaults(a["faults"])
		res := p.Run(labFor(lab, o), fs.config())
		fmt.Printf("out=%s\nerr=%v panic=%q\n", res.Out, res.Err, res.Panic)
		for _, rq := range res.Requests {
			fmt.Printf("  req f%d %s fault=%s status=%d\n     in=%s\n     body=%s\n", rq.FetchID, rq.DS, rq.Fault, rq.Status, rq.Input, rq.Body)
		}
	}
}
