package main

// Trigger identity on the implementation (C13 "shared iff same (input, headers)").
//
// The scripted data source of the schedule harness hands out trigger ids of its own; here the REAL
// graphql_datasource.SubscriptionSource (obtained from the real planner, over a fake
// GraphQLSubscriptionClient) is driven through the real Resolver:
//
//	ident set : every subscription spec is subscribed alone on a fresh Resolver; the rendered upstream input and
//	            the forwarded headers that reach SubscriptionSource.Start are recorded (they are the output of
//	            Resolver.subscriptionInput: template + initial_payload + extensions, and of the headers builder) and
//	            the trigger id is recomputed from them exactly as Resolver.prepareTrigger does, with the real
//	            SubscriptionSource.HashTriggerInput.  Clause: ids equal <-> (input, headers hash) equal, pairwise.
//	ident pair: two specs that are equal, or differ in exactly one component, are subscribed on ONE Resolver; the
//	            number of upstream subscriptions opened (client.Subscribe calls) and the messages every writer
//	            receives are recorded.  Clause: one upstream <-> rendered (input, headers) equal; no cross-talk.

import (
	"bytes"
	"context"
	"encoding/binary"
	"fmt"
	"net/http"
	"regexp"
	"sort"
	"strings"
	"sync"
	"time"

	"github.com/cespare/xxhash/v2"
	"github.com/wundergraph/astjson"

	"gvh/common"

	"github.com/wundergraph/graphql-go-tools/v2/pkg/ast"
	"github.com/wundergraph/graphql-go-tools/v2/pkg/astnormalization"
	"github.com/wundergraph/graphql-go-tools/v2/pkg/astparser"
	"github.com/wundergraph/graphql-go-tools/v2/pkg/asttransform"
	"github.com/wundergraph/graphql-go-tools/v2/pkg/engine/datasource/graphql_datasource"
	"github.com/wundergraph/graphql-go-tools/v2/pkg/engine/plan"
	"github.com/wundergraph/graphql-go-tools/v2/pkg/engine/postprocess"
	"github.com/wundergraph/graphql-go-tools/v2/pkg/engine/resolve"
	"github.com/wundergraph/graphql-go-tools/v2/pkg/operationreport"
)

const identSDL = `
schema { query: Query subscription: Subscription }
type Query { q: Int }
type Subscription { counter(id: Int, tag: String): Counter other: Counter }
type Counter { count: Int name: String }
`

// ---- one subscription spec = the components the trigger identity is made of
type identSpec struct {
	Name    string
	Cfg     int    // index into identConfigs (url, header, use_sse, sse_method_post, ws_sub_protocol, forwarded-header rules)
	Op      int    // index into identOps (body.query)
	Vars    string // body.variables
	Ext     string // body.extensions ("" = none)
	Init    string // initial_payload ("" = none)
	Headers string // client request headers "K=V;K=V" (the headers builder forwards the configured ones)
}

type identCfg struct {
	name string
	sub  graphql_datasource.SubscriptionConfiguration
}

func identConfigs() []identCfg {
	base := func() graphql_datasource.SubscriptionConfiguration {
		return graphql_datasource.SubscriptionConfiguration{
			URL:                        "wss://sub.example/graphql",
			Header:                     http.Header{"X-Static": []string{"1"}},
			ForwardedClientHeaderNames: []string{"Authorization"},
		}
	}
	mk := func(name string, f func(c *graphql_datasource.SubscriptionConfiguration)) identCfg {
		c := base()
		f(&c)
		return identCfg{name: name, sub: c}
	}
	return []identCfg{
		mk("base", func(c *graphql_datasource.SubscriptionConfiguration) {}),
		mk("url", func(c *graphql_datasource.SubscriptionConfiguration) { c.URL = "wss://sub2.example/graphql" }),
		mk("header", func(c *graphql_datasource.SubscriptionConfiguration) {
			c.Header = http.Header{"X-Static": []string{"2"}}
		}),
		mk("use_sse", func(c *graphql_datasource.SubscriptionConfiguration) { c.UseSSE = true }),
		mk("sse_method_post", func(c *graphql_datasource.SubscriptionConfiguration) { c.UseSSE = true; c.SSEMethodPost = true }),
		mk("ws_sub_protocol", func(c *graphql_datasource.SubscriptionConfiguration) { c.WsSubProtocol = "graphql-transport-ws" }),
		mk("ws_sub_protocol2", func(c *graphql_datasource.SubscriptionConfiguration) { c.WsSubProtocol = "graphql-ws" }),
		mk("forwarded_names", func(c *graphql_datasource.SubscriptionConfiguration) {
			c.ForwardedClientHeaderNames = []string{"Authorization", "X-Tenant"}
		}),
		mk("forwarded_regex", func(c *graphql_datasource.SubscriptionConfiguration) {
			c.ForwardedClientHeaderRegularExpressions = []graphql_datasource.RegularExpression{{Pattern: regexp.MustCompile("^X-Fwd-.*")}}
		}),
		mk("forwarded_regex_negated", func(c *graphql_datasource.SubscriptionConfiguration) {
			c.ForwardedClientHeaderRegularExpressions = []graphql_datasource.RegularExpression{{Pattern: regexp.MustCompile("^X-Fwd-.*"), NegateMatch: true}}
		}),
	}
}

var identOps = []string{
	`subscription S($id: Int) { counter(id: $id) { count } }`,
	`subscription S($id: Int) { counter(id: $id) { count name } }`,
	`subscription S($id: Int) { counter(id: $id, tag: "x") { count } }`,
	`subscription S { other { count } }`,
	`subscription S($id: Int) { counter(id: $id, tag: "y") { count } }`,
}

// ---- fake upstream client
type fakeSub struct {
	opts    graphql_datasource.GraphQLSubscriptionOptions
	updater resolve.SubscriptionUpdater
}

type fakeClient struct {
	mu   sync.Mutex
	subs []*fakeSub
}

func (c *fakeClient) Subscribe(ctx *resolve.Context, options graphql_datasource.GraphQLSubscriptionOptions, updater resolve.SubscriptionUpdater) error {
	c.mu.Lock()
	c.subs = append(c.subs, &fakeSub{opts: options, updater: updater})
	c.mu.Unlock()
	return nil
}

// ---- the real SubscriptionSource, wrapped only to see what reaches Start
type startRec struct {
	input   []byte
	headers http.Header
}

type spySource struct {
	inner resolve.SubscriptionDataSource
	mu    sync.Mutex
	recs  []startRec
}

func (s *spySource) HashTriggerInput(input []byte, xxh *xxhash.Digest) error {
	return s.inner.HashTriggerInput(input, xxh)
}

func (s *spySource) Start(ctx *resolve.Context, headers http.Header, input []byte, updater resolve.SubscriptionUpdater) error {
	s.mu.Lock()
	s.recs = append(s.recs, startRec{input: append([]byte(nil), input...), headers: headers.Clone()})
	s.mu.Unlock()
	return s.inner.Start(ctx, headers, input, updater)
}

// ---- forwarded client headers: what a router's SubgraphHeadersBuilder does with the configured rules
type fwdBuilder struct {
	client http.Header
	cfg    graphql_datasource.SubscriptionConfiguration
}

func (b fwdBuilder) forwarded() http.Header {
	out := http.Header{}
	for k, v := range b.client {
		keep := false
		for _, n := range b.cfg.ForwardedClientHeaderNames {
			if http.CanonicalHeaderKey(n) == http.CanonicalHeaderKey(k) {
				keep = true
			}
		}
		for _, re := range b.cfg.ForwardedClientHeaderRegularExpressions {
			if re.Pattern.MatchString(k) != re.NegateMatch {
				keep = true
			}
		}
		if keep {
			out[k] = v
		}
	}
	return out
}

func (b fwdBuilder) hash() uint64 {
	h := b.forwarded()
	if len(h) == 0 {
		return 0
	}
	keys := make([]string, 0, len(h))
	for k := range h {
		keys = append(keys, k)
	}
	sort.Strings(keys)
	d := xxhash.New()
	for _, k := range keys {
		_, _ = d.WriteString(k)
		_, _ = d.WriteString("\x00")
		for _, v := range h[k] {
			_, _ = d.WriteString(v)
			_, _ = d.WriteString("\x01")
		}
	}
	return d.Sum64()
}

func (b fwdBuilder) HeadersForSubgraph(string) (http.Header, uint64) { return b.forwarded(), b.hash() }
func (b fwdBuilder) HashAll() uint64                                 { return b.hash() }

func parseHeaders(s string) http.Header {
	h := http.Header{}
	for _, kv := range strings.Split(s, ";") {
		if i := strings.Index(kv, "="); i > 0 {
			h.Add(kv[:i], kv[i+1:])
		}
	}
	return h
}

// ---- planning with the real planner
type identLab struct {
	def    *ast.Document
	cfgs   []identCfg
	client *fakeClient
}

func newIdentLab() *identLab {
	def, rep := astparser.ParseGraphqlDocumentString(identSDL)
	if rep.HasErrors() {
		panic(rep.Error())
	}
	if err := asttransform.MergeDefinitionWithBaseSchema(&def); err != nil {
		panic(err)
	}
	return &identLab{def: &def, cfgs: identConfigs(), client: &fakeClient{}}
}

// a plan keeps references into its planner: one planner per plan, as the engine does
func (l *identLab) plannerFor(ci int) *plan.Planner {
	ctx := context.Background()
	factory, err := graphql_datasource.NewFactory(ctx, &http.Client{}, l.client)
	if err != nil {
		panic(err)
	}
	sc, err := graphql_datasource.NewSchemaConfiguration(identSDL, nil)
	if err != nil {
		panic(err)
	}
	sub := l.cfgs[ci].sub
	cc, err := graphql_datasource.NewConfiguration(graphql_datasource.ConfigurationInput{
		Fetch:               &graphql_datasource.FetchConfiguration{URL: "https://sub.example/graphql", Method: "POST"},
		Subscription:        &sub,
		SchemaConfiguration: sc,
	})
	if err != nil {
		panic(err)
	}
	ds, err := plan.NewDataSourceConfiguration[graphql_datasource.Configuration]("sg", factory,
		&plan.DataSourceMetadata{
			RootNodes:  []plan.TypeField{{TypeName: "Query", FieldNames: []string{"q"}}, {TypeName: "Subscription", FieldNames: []string{"counter", "other"}}},
			ChildNodes: []plan.TypeField{{TypeName: "Counter", FieldNames: []string{"count", "name"}}},
		}, cc)
	if err != nil {
		panic(err)
	}
	conf := plan.Configuration{
		DataSources:                  []plan.DataSource{ds},
		DefaultFlushIntervalMillis:   0,
		DisableResolveFieldPositions: true,
		Fields: plan.FieldConfigurations{
			{TypeName: "Subscription", FieldName: "counter", Path: []string{"counter"}, Arguments: []plan.ArgumentConfiguration{
				{Name: "id", SourceType: plan.FieldArgumentSource}, {Name: "tag", SourceType: plan.FieldArgumentSource}}},
		},
	}
	p, err := plan.NewPlanner(conf)
	if err != nil {
		panic(err)
	}
	return p
}

// planSub returns the subscription plan of (config, operation) with the real SubscriptionSource behind a spy.
func (l *identLab) planSub(ci, oi int, vars string) (*resolve.GraphQLSubscription, *spySource, []byte, error) {
	op, rep := astparser.ParseGraphqlDocumentString(identOps[oi])
	if rep.HasErrors() {
		return nil, nil, nil, fmt.Errorf("parse: %s", rep.Error())
	}
	op.Input.Variables = []byte(vars)
	var report operationreport.Report
	norm := astnormalization.NewWithOpts(astnormalization.WithExtractVariables(), astnormalization.WithRemoveFragmentDefinitions(), astnormalization.WithRemoveUnusedVariables())
	norm.NormalizeOperation(&op, l.def, &report)
	if report.HasErrors() {
		return nil, nil, nil, fmt.Errorf("normalize: %s", report.Error())
	}
	pl := l.plannerFor(ci).Plan(&op, l.def, "S", &report)
	if report.HasErrors() {
		return nil, nil, nil, fmt.Errorf("plan: %s", report.Error())
	}
	postprocess.NewProcessor().Process(pl)
	sp, ok := pl.(*plan.SubscriptionResponsePlan)
	if !ok {
		return nil, nil, nil, fmt.Errorf("not a subscription plan: %T", pl)
	}
	spy := &spySource{inner: sp.Response.Trigger.Source}
	sp.Response.Trigger.Source = spy
	return sp.Response, spy, append([]byte(nil), op.Input.Variables...), nil
}

type identWriter struct {
	mu   sync.Mutex
	msgs []string
	buf  bytes.Buffer
}

func (w *identWriter) Write(p []byte) (int, error) {
	w.mu.Lock()
	defer w.mu.Unlock()
	return w.buf.Write(p)
}
func (w *identWriter) Flush() error {
	w.mu.Lock()
	w.msgs = append(w.msgs, w.buf.String())
	w.buf.Reset()
	w.mu.Unlock()
	return nil
}
func (w *identWriter) Complete()         {}
func (w *identWriter) Error(data []byte) {}
func (w *identWriter) Heartbeat() error  { return nil }

func (l *identLab) newCtx(sp identSpec, vars []byte) *resolve.Context {
	c := resolve.NewContext(context.Background())
	v, err := astjson.ParseBytes(vars)
	if err == nil {
		c.Variables = v
	}
	if sp.Ext != "" {
		c.Extensions = []byte(sp.Ext)
	}
	if sp.Init != "" {
		c.InitialPayload = []byte(sp.Init)
	}
	c.SubgraphHeadersBuilder = fwdBuilder{client: parseHeaders(sp.Headers), cfg: l.cfgs[sp.Cfg].sub}
	return c
}

// settle waits until no goroutine of the process can move on its own (sched.WaitQuiescent reads goroutine states).
// Under heavy CPU load one attempt may run into WaitQuiescent's own deadline: retry instead of reading a count early.
func settle(s *Sched) {
	for i := 0; i < 8; i++ {
		if s.WaitQuiescent() {
			return
		}
	}
}

// solo subscribes one spec alone and returns what reached Start: (rendered input, forwarded headers hash, trigger id).
func (l *identLab) solo(sp identSpec) (input []byte, hh uint64, id uint64, err error) {
	l.client = &fakeClient{}
	subPlan, spy, nvars, err := l.planSub(sp.Cfg, sp.Op, sp.Vars)
	if err != nil {
		return nil, 0, 0, err
	}
	sched := NewSched(func(gid int64, point string) string { return fmt.Sprintf("g%d", gid) })
	sched.FreeRun()
	resolve.SetVerifYield(nil)
	rctx, cancel := context.WithCancel(context.Background())
	defer cancel()
	res := resolve.New(rctx, resolve.ResolverOptions{MaxConcurrency: 64, SubscriptionHeartbeatInterval: time.Hour})
	c := l.newCtx(sp, nvars)
	w := &identWriter{}
	if err := res.AsyncResolveGraphQLSubscription(c, subPlan, w, resolve.SubscriptionIdentifier{ConnectionID: 1, SubscriptionID: 1}); err != nil {
		return nil, 0, 0, err
	}
	settle(sched)
	spy.mu.Lock()
	defer spy.mu.Unlock()
	if len(spy.recs) != 1 {
		return nil, 0, 0, fmt.Errorf("Start called %d times for a single subscriber", len(spy.recs))
	}
	input = spy.recs[0].input
	_, hh = c.SubgraphHeadersBuilder.HeadersForSubgraph("sg")
	// Resolver.prepareTrigger: id := xxhash( HashTriggerInput(input) ++ little-endian headers hash (if non-zero) )
	d := xxhash.New()
	if err := spy.inner.HashTriggerInput(input, d); err != nil {
		return nil, 0, 0, err
	}
	if hh != 0 {
		var b [8]byte
		binary.LittleEndian.PutUint64(b[:], hh)
		_, _ = d.Write(b[:])
	}
	return input, hh, d.Sum64(), nil
}

// pair subscribes a then b on one resolver; returns upstream subscriptions opened and cross-talk count.
func (l *identLab) pair(a, b identSpec) (starts int, cross int, err error) {
	l.client = &fakeClient{}
	pa, _, va, err := l.planSub(a.Cfg, a.Op, a.Vars)
	if err != nil {
		return 0, 0, err
	}
	pb, _, vb, err := l.planSub(b.Cfg, b.Op, b.Vars)
	if err != nil {
		return 0, 0, err
	}
	sched := NewSched(func(gid int64, point string) string { return fmt.Sprintf("g%d", gid) })
	sched.FreeRun()
	resolve.SetVerifYield(nil)
	rctx, cancel := context.WithCancel(context.Background())
	defer cancel()
	res := resolve.New(rctx, resolve.ResolverOptions{MaxConcurrency: 64, SubscriptionHeartbeatInterval: time.Hour})
	wa, wb := &identWriter{}, &identWriter{}
	if err := res.AsyncResolveGraphQLSubscription(l.newCtx(a, va), pa, wa, resolve.SubscriptionIdentifier{ConnectionID: 1, SubscriptionID: 1}); err != nil {
		return 0, 0, err
	}
	settle(sched)
	if err := res.AsyncResolveGraphQLSubscription(l.newCtx(b, vb), pb, wb, resolve.SubscriptionIdentifier{ConnectionID: 2, SubscriptionID: 2}); err != nil {
		return 0, 0, err
	}
	settle(sched)
	l.client.mu.Lock()
	subs := append([]*fakeSub(nil), l.client.subs...)
	l.client.mu.Unlock()
	starts = len(subs)
	// one event per upstream, tagged with the index of the upstream
	for i, s := range subs {
		s.updater.Update([]byte(fmt.Sprintf(`{"data":{"counter":{"count":%d,"name":"n"},"other":{"count":%d}}}`, 100+i, 100+i)))
	}
	settle(sched)
	count := func(w *identWriter, tag int) int {
		w.mu.Lock()
		defer w.mu.Unlock()
		n := 0
		for _, m := range w.msgs {
			if strings.Contains(m, fmt.Sprintf(`"count":%d`, 100+tag)) {
				n++
			}
		}
		return n
	}
	// with two upstreams, upstream 0 belongs to a and upstream 1 to b: a message of the other one is cross-talk;
	// with one upstream both receive its event by design
	if starts == 2 {
		cross = count(wa, 1) + count(wb, 0)
	}
	_ = res.UnsubscribeClient(1)
	_ = res.UnsubscribeClient(2)
	settle(sched)
	return starts, cross, nil
}

// ---- spec families
func identSpecs(r *common.Rand, nrand int) (all []identSpec, pairs [][3]string) {
	base := identSpec{Name: "base", Cfg: 0, Op: 0, Vars: `{"id":1}`, Headers: "Authorization=u1;X-Tenant=t1;X-Fwd-A=f1;Accept=a"}
	byName := map[string]identSpec{}
	add := func(s identSpec) {
		if _, ok := byName[s.Name]; !ok {
			byName[s.Name] = s
			all = append(all, s)
		}
	}
	add(base)
	v := func(name string, f func(s *identSpec)) identSpec {
		s := base
		s.Name = name
		f(&s)
		add(s)
		return s
	}
	one := func(comp string, a, b identSpec) { pairs = append(pairs, [3]string{a.Name, b.Name, comp}) }
	same := v("same", func(s *identSpec) {})
	one("equal", base, same)
	cfgs := identConfigs()
	for ci := 1; ci < len(cfgs); ci++ {
		ci := ci
		s := v("cfg:"+cfgs[ci].name, func(s *identSpec) { s.Cfg = ci })
		one(cfgs[ci].name, base, s)
	}
	// sse_method_post against use_sse, the two sub protocols against each other
	one("sse_method_post", byName["cfg:use_sse"], byName["cfg:sse_method_post"])
	one("ws_sub_protocol", byName["cfg:ws_sub_protocol"], byName["cfg:ws_sub_protocol2"])
	one("body.query", base, v("query:fields", func(s *identSpec) { s.Op = 1 }))
	one("body.query", base, v("query:literal-arg", func(s *identSpec) { s.Op = 2 }))
	one("body.query", base, v("query:other-field", func(s *identSpec) { s.Op = 3; s.Vars = `{}` }))
	one("body.query/literal value", v("query:literal-arg2", func(s *identSpec) { s.Op = 2 }), v("query:literal-arg-y", func(s *identSpec) { s.Op = 4 }))
	one("body.variables", base, v("vars:2", func(s *identSpec) { s.Vars = `{"id":2}` }))
	one("body.variables", base, v("vars:null", func(s *identSpec) { s.Vars = `{"id":null}` }))
	one("body.variables/spelling", base, v("vars:spaced", func(s *identSpec) { s.Vars = `{ "id" : 1 }` }))
	e1 := v("ext:1", func(s *identSpec) { s.Ext = `{"persistedQuery":{"version":1,"sha256Hash":"aa"}}` })
	e2 := v("ext:2", func(s *identSpec) { s.Ext = `{"persistedQuery":{"version":1,"sha256Hash":"bb"}}` })
	one("body.extensions", base, e1)
	one("body.extensions", e1, e2)
	one("equal", e1, v("ext:1again", func(s *identSpec) { s.Ext = e1.Ext }))
	i1 := v("init:alice", func(s *identSpec) { s.Init = `{"token":"alice"}` })
	i2 := v("init:bob", func(s *identSpec) { s.Init = `{"token":"bob"}` })
	one("initial_payload", base, i1)
	one("initial_payload", i1, i2)
	one("equal", i1, v("init:alice-again", func(s *identSpec) { s.Init = i1.Init }))
	one("initial_payload+extensions", v("init+ext:a", func(s *identSpec) { s.Init = i1.Init; s.Ext = e1.Ext }),
		v("init+ext:b", func(s *identSpec) { s.Init = i2.Init; s.Ext = e1.Ext }))
	one("forwarded header value", base, v("hdr:auth", func(s *identSpec) { s.Headers = "Authorization=u2;X-Tenant=t1;X-Fwd-A=f1;Accept=a" }))
	one("client header that is not forwarded", base, v("hdr:accept", func(s *identSpec) { s.Headers = "Authorization=u1;X-Tenant=t1;X-Fwd-A=f1;Accept=b" }))
	one("client header that is not forwarded", base, v("hdr:tenant-unforwarded", func(s *identSpec) { s.Headers = "Authorization=u1;X-Tenant=t2;X-Fwd-A=f1;Accept=a" }))
	one("forwarded header value (names rule)", byName["cfg:forwarded_names"],
		v("hdr:tenant-forwarded", func(s *identSpec) { s.Cfg = 7; s.Headers = "Authorization=u1;X-Tenant=t2;X-Fwd-A=f1;Accept=a" }))
	one("forwarded header value (regex rule)", byName["cfg:forwarded_regex"],
		v("hdr:fwd-regex", func(s *identSpec) { s.Cfg = 8; s.Headers = "Authorization=u1;X-Tenant=t1;X-Fwd-A=f2;Accept=a" }))
	one("forwarded header value (negated regex rule)", byName["cfg:forwarded_regex_negated"],
		v("hdr:fwd-negregex", func(s *identSpec) { s.Cfg = 9; s.Headers = "Authorization=u1;X-Tenant=t1;X-Fwd-A=f1;Accept=b" }))
	one("no forwarded header at all", v("hdr:none", func(s *identSpec) { s.Headers = "Accept=a" }), v("hdr:none2", func(s *identSpec) { s.Headers = "Accept=b" }))
	// random specs: every component drawn from a small pool; compared pairwise in the ident set, a few as pairs
	varsPool := []string{`{"id":1}`, `{"id":2}`, `{"id":null}`}
	extPool := []string{"", e1.Ext, e2.Ext}
	initPool := []string{"", i1.Init, i2.Init, `{"token":"alice","v":1}`}
	hdrPool := []string{base.Headers, "Authorization=u2;X-Tenant=t1;X-Fwd-A=f1;Accept=a", "Authorization=u1;X-Tenant=t2;X-Fwd-A=f2;Accept=b", "Accept=a"}
	var rnd []identSpec
	for i := 0; i < nrand; i++ {
		s := identSpec{Name: fmt.Sprintf("r%d", i), Cfg: r.Pick(len(cfgs)), Op: r.Pick(3), Vars: common.PickOf(r, varsPool),
			Ext: common.PickOf(r, extPool), Init: common.PickOf(r, initPool), Headers: common.PickOf(r, hdrPool)}
		add(s)
		rnd = append(rnd, s)
	}
	for i := 0; i+1 < len(rnd) && i < 8; i += 2 {
		// make the second one a copy of the first with one random component redrawn
		b := rnd[i]
		b.Name = rnd[i+1].Name + "m"
		comp := ""
		switch r.Pick(5) {
		case 0:
			b.Cfg, comp = r.Pick(len(cfgs)), "config"
		case 1:
			b.Vars, comp = common.PickOf(r, varsPool), "body.variables"
		case 2:
			b.Ext, comp = common.PickOf(r, extPool), "body.extensions"
		case 3:
			b.Init, comp = common.PickOf(r, initPool), "initial_payload"
		default:
			b.Headers, comp = common.PickOf(r, hdrPool), "client headers"
		}
		add(b)
		one("random:"+comp, rnd[i], b)
	}
	return all, pairs
}

func runIdent(out *common.Out, seed uint64, nrand int) {
	r := common.NewRand(seed*7919 + 13)
	lab := newIdentLab()
	specs, pairs := identSpecs(r, nrand)
	byName := map[string]identSpec{}
	type obsT struct {
		input []byte
		hh    uint64
		id    uint64
	}
	obs := map[string]obsT{}
	var items []string
	for _, sp := range specs {
		byName[sp.Name] = sp
		in, hh, id, err := lab.solo(sp)
		if err != nil {
			out.Line(common.L("identerr", common.QS(sp.Name), common.QS(err.Error())))
			continue
		}
		obs[sp.Name] = obsT{in, hh, id}
		items = append(items, common.L("obs", common.QS(sp.Name), common.Q(in), fmt.Sprintf("%d", hh), fmt.Sprintf("%d", id)))
	}
	out.Line("(identset " + strings.Join(items, " ") + ")")
	for _, p := range pairs {
		a, b := byName[p[0]], byName[p[1]]
		oa, oka := obs[a.Name]
		ob, okb := obs[b.Name]
		if !oka || !okb {
			continue
		}
		starts, cross, err := lab.pair(a, b)
		if err != nil {
			out.Line(common.L("identerr", common.QS(a.Name+"/"+b.Name), common.QS(err.Error())))
			continue
		}
		out.Line(common.L("identpair", common.QS(p[2]),
			common.L("a", common.QS(a.Name), common.Q(oa.input), fmt.Sprintf("%d", oa.hh), fmt.Sprintf("%d", oa.id)),
			common.L("b", common.QS(b.Name), common.Q(ob.input), fmt.Sprintf("%d", ob.hh), fmt.Sprintf("%d", ob.id)),
			common.L("starts", common.I(starts)), common.L("cross", common.I(cross))))
	}
}
