package main

// Cooperative scheduler: every actor is a goroutine that parks at each yield point (the verifYield
// call sites in package resolve, and the gates of the scripted data source) and is released one at
// a time.  After a release the scheduler waits until the whole process is quiescent: every
// goroutine other than the scheduler is parked at a yield, finished, or blocked in a lock /
// WaitGroup / select (read off runtime.Stack).

import (
	"bytes"
	"fmt"
	"regexp"
	"runtime"
	"strconv"
	"sync"
	"time"
)

const (
	stRunning = iota
	stParked
	stFinished
	stBlocked
)

type Actor struct {
	name    string
	gid     int64
	state   int
	point   string
	release chan struct{}
	panicv  string
	// last reported (state, point), to compute status changes of bystanders
	repState int
	repPoint string
	seen     bool
}

type Sched struct {
	mu       sync.Mutex
	actors   map[string]*Actor
	byGid    map[int64]*Actor
	order    []string
	free     bool // free-run: yields do not park (teardown)
	namer    func(gid int64, point string) string
	selfGid  int64
	stackBuf []byte
	polls    int
	// goroutines that existed before this scheduler (left-overs of the previous run in the same process whose
	// teardown had not finished, e.g. under CPU load: its heartbeat loop, its shutdown goroutine) are not actors of
	// this run: the verifYield hook is process-global, so their yields arrive here and must pass through.
	// (goroutine ids are unique but NOT monotonic -- they are handed out in per-P batches -- hence a set.)
	foreign map[int64]bool
}

func goid() int64 {
	var buf [64]byte
	n := runtime.Stack(buf[:], false)
	// "goroutine 123 ["
	b := buf[10:n]
	i := bytes.IndexByte(b, ' ')
	id, _ := strconv.ParseInt(string(b[:i]), 10, 64)
	return id
}

func NewSched(namer func(gid int64, point string) string) *Sched {
	s := &Sched{actors: map[string]*Actor{}, byGid: map[int64]*Actor{}, namer: namer, selfGid: goid(),
		stackBuf: make([]byte, 1<<18), foreign: map[int64]bool{}}
	n := runtime.Stack(s.stackBuf, true)
	for _, m := range gHeader.FindAllSubmatch(s.stackBuf[:n], -1) {
		id, _ := strconv.ParseInt(string(m[1]), 10, 64)
		if id != s.selfGid {
			s.foreign[id] = true
		}
	}
	return s
}

// Register makes the calling goroutine the actor `name` (state running).
func (s *Sched) Register(name string) *Actor {
	gid := goid()
	s.mu.Lock()
	defer s.mu.Unlock()
	_, known := s.actors[name]
	a := &Actor{name: name, gid: gid, state: stRunning, release: make(chan struct{}, 1)}
	s.actors[name] = a
	s.byGid[gid] = a
	if !known {
		s.order = append(s.order, name)
	}
	return a
}

// Finish marks the calling goroutine's actor as finished.
func (s *Sched) Finish(a *Actor, panicv string) {
	s.mu.Lock()
	a.state = stFinished
	a.panicv = panicv
	delete(s.byGid, a.gid)
	s.mu.Unlock()
}

// Yield parks the calling goroutine at `point` until released.
func (s *Sched) Yield(point string) {
	gid := goid()
	if s.foreign[gid] {
		return // a goroutine of an earlier run (the map is read-only after NewSched)
	}
	s.mu.Lock()
	if s.free {
		s.mu.Unlock()
		return
	}
	a := s.byGid[gid]
	if a == nil {
		name := s.namer(gid, point)
		if old, ok := s.actors[name]; ok && old.state != stFinished {
			name = fmt.Sprintf("%s#%d", name, gid)
		}
		_, known := s.actors[name]
		a = &Actor{name: name, gid: gid, release: make(chan struct{}, 1)}
		s.actors[name] = a
		s.byGid[gid] = a
		if !known {
			s.order = append(s.order, name)
		}
	}
	a.state = stParked
	a.point = point
	s.mu.Unlock()
	<-a.release
}

// Release lets a parked actor continue.
func (s *Sched) Release(a *Actor) {
	s.mu.Lock()
	a.state = stRunning
	s.mu.Unlock()
	a.release <- struct{}{}
}

// FreeRun releases everything and makes all later yields pass through.
func (s *Sched) FreeRun() {
	s.mu.Lock()
	s.free = true
	for _, a := range s.actors {
		if a.state == stParked {
			a.state = stRunning
			select {
			case a.release <- struct{}{}:
			default:
			}
		}
	}
	s.mu.Unlock()
}

var dbgStates map[string]int

var gHeader = regexp.MustCompile(`(?m)^goroutine (\d+) \[([^\],]+)`)

// waitingState: the goroutine cannot continue unless another goroutine acts. Only the states of the
// blocking primitives the resolver uses count; anything else (running, runnable, syscall, GC assist,
// ...) is treated as "may still progress".
func waitingState(st string) bool {
	switch st {
	case "chan receive", "chan send", "select", "semacquire", "sync.Mutex.Lock", "sync.RWMutex.RLock", "sync.RWMutex.Lock",
		"sync.WaitGroup.Wait", "sync.Cond.Wait", "IO wait", "chan receive (nil chan)", "chan send (nil chan)", "select (no cases)":
		return true
	}
	return false
}

// WaitQuiescent returns when no goroutine other than the caller can make progress on its own.
// Actors that are neither parked nor finished but sit in a blocking primitive are marked blocked.
func (s *Sched) WaitQuiescent() bool {
	deadline := time.Now().Add(5 * time.Second)
	stable := 0
	for {
		// cheap pre-check: somebody still flagged running and not yet visible as blocked
		n := runtime.Stack(s.stackBuf, true)
		s.polls++
		all := gHeader.FindAllSubmatch(s.stackBuf[:n], -1)
		quiet := true
		states := map[int64]string{}
		for _, m := range all {
			id, _ := strconv.ParseInt(string(m[1]), 10, 64)
			if id == s.selfGid {
				continue
			}
			st := string(m[2])
			states[id] = st
			if !waitingState(st) {
				quiet = false
				if dbgStates != nil {
					dbgStates[st]++
				}
			}
		}
		if quiet {
			anyRunning := false
			s.mu.Lock()
			for _, a := range s.actors {
				if a.state == stRunning {
					if _, alive := states[a.gid]; alive {
						anyRunning = true // still there but not progressing: looks blocked
					}
				}
			}
			s.mu.Unlock()
			stable++
			need := 2
			if anyRunning {
				// an actor that is neither parked nor finished looks blocked: a semaphore wait can be
				// transient (runtime internals, GC), so insist on a longer stable period
				need = 6
				time.Sleep(40 * time.Microsecond)
			}
			if stable >= need {
				s.markBlocked(states)
				return true
			}
			continue
		}
		stable = 0
		if time.Now().After(deadline) {
			return false
		}
		runtime.Gosched()
	}
}

// markBlocked classifies the actors that are neither parked nor finished once the process is quiescent.
func (s *Sched) markBlocked(states map[int64]string) {
	s.mu.Lock()
	defer s.mu.Unlock()
	for _, a := range s.actors {
		if a.state == stRunning || a.state == stBlocked {
			if _, alive := states[a.gid]; alive {
				a.state = stBlocked
			} else {
				// goroutine gone without Finish (an internal goroutine of the library that ended)
				a.state = stFinished
				delete(s.byGid, a.gid)
			}
		}
	}
}

// Status of an actor as an S-expression.
func (a *Actor) Status() string {
	switch a.state {
	case stParked:
		return "(at " + a.point + ")"
	case stFinished:
		if a.panicv != "" {
			return "(panic)"
		}
		return "(fin)"
	case stBlocked:
		return "(blk)"
	}
	return "(run)"
}

// Changes lists the actors (other than `except`) whose status differs from the last report.
func (s *Sched) Changes(except *Actor) []string {
	s.mu.Lock()
	defer s.mu.Unlock()
	var out []string
	for _, n := range s.order {
		a := s.actors[n]
		if a == nil {
			continue
		}
		changed := !a.seen || a.repState != a.state || a.repPoint != a.point
		a.seen = true
		a.repState, a.repPoint = a.state, a.point
		if a == except || !changed {
			continue
		}
		out = append(out, "("+a.name+" "+a.Status()+")")
	}
	return out
}

func (s *Sched) Parked() []*Actor {
	s.mu.Lock()
	defer s.mu.Unlock()
	var out []*Actor
	for _, n := range s.order {
		if a := s.actors[n]; a != nil && a.state == stParked {
			out = append(out, a)
		}
	}
	return out
}

func (s *Sched) Get(name string) *Actor {
	s.mu.Lock()
	defer s.mu.Unlock()
	return s.actors[name]
}
