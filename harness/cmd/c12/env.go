package main

// The scripted world around one Resolver: data source (gated hook / Start, scripted outcomes),
// recording writers, recording reporter, per-subscriber contexts that reveal which goroutine works
// for which subscriber.

import (
	"context"
	"errors"
	"fmt"
	"io"
	"net/http"
	"strconv"
	"strings"
	"sync"
	"sync/atomic"
	"time"

	"github.com/cespare/xxhash/v2"

	"github.com/wundergraph/graphql-go-tools/v2/pkg/engine/resolve"
)

type SubCfg struct {
	Sid, Key, Conn int
	Hb, Sync       bool
	Flt            int // 0 none, 1 k in [0], 2 k in [0,1], 3 invalid template (filter error)
	WFail, FFail   int // event whose Write / Flush fails (-1: never)
	HbFail         bool
	Hook           string // ok | fail | emit
	HookEv         int
	Start          string // ok | fail
}

type Env struct {
	mu                               sync.Mutex
	sc                               *Scenario
	sched                            *Sched
	res                              *resolve.Resolver
	rcancel                          context.CancelFunc
	rctxv                            context.Context
	obs                              []string
	seq                              int
	pending                          map[int64]string // goroutine id -> actor name to adopt at its first yield
	subs                             map[int]*subRT
	updaters                         map[int]resolve.SubscriptionUpdater // by sid of the starter
	trigCtx                          map[int]context.Context
	trigSeen                         map[int]bool
	startKey                         map[int]int
	subInc, subDec, trigInc, trigDec int
	decBy                            map[int64]int // goroutine id -> subscriptions it reported as removed (SubscriptionCountDec)
	violations                       []string
}

type subRT struct {
	cfg    SubCfg
	ctx    *subCtx
	cancel context.CancelFunc
	w      *recWriter
	added  bool
	gone   int // seq at which the subscriber was known gone (0: not)
	plan   *resolve.GraphQLSubscription
	rctx   *resolve.Context
	id     resolve.SubscriptionIdentifier
}

// ---- per-subscriber context: reveals the goroutine that derives a context from it
type subCtx struct {
	context.Context
	env *Env
	sid int
}

func (c *subCtx) Deadline() (time.Time, bool) {
	gid := goid()
	c.env.sched.mu.Lock()
	_, known := c.env.sched.byGid[gid]
	c.env.sched.mu.Unlock()
	if !known {
		c.env.mu.Lock()
		if _, ok := c.env.pending[gid]; !ok {
			c.env.pending[gid] = "ch:" + strconv.Itoa(c.sid)
		}
		c.env.mu.Unlock()
	}
	return c.Context.Deadline()
}

func (e *Env) namer(gid int64, point string) string {
	e.mu.Lock()
	defer e.mu.Unlock()
	if n, ok := e.pending[gid]; ok {
		delete(e.pending, gid)
		return n
	}
	switch point {
	case "c12.hb.R":
		return "hb"
	case "c12.shut.R":
		return "sh"
	}
	return "g" + strconv.FormatInt(gid, 10)
}

func (e *Env) log(format string, a ...any) {
	e.mu.Lock()
	e.seq++
	e.obs = append(e.obs, fmt.Sprintf(format, a...))
	e.mu.Unlock()
}

func (e *Env) drain() []string {
	e.mu.Lock()
	o := e.obs
	e.obs = nil
	e.mu.Unlock()
	return o
}

// ---- recording writer
//
// The writer is a parking point of the cooperative scheduler: every call on it is an interval.  The
// entry of a call is logged as (w sid kind ev), the goroutine then parks at "ext.w" INSIDE the call
// (in the real code it holds writeMu there) and the return is logged as (we sid kind ev) once it is
// released.  A response is written in several chunks: the message Write is entered at the chunk that
// identifies the event (parked there), and returns when the next writer call (Flush) is made or the
// scripted failure is reported.
type recWriter struct {
	env     *Env
	sid     int
	cfg     SubCfg
	lastEv  int
	buf     []byte
	bufLate bool
	open    int          // event of the message Write in progress (-2: none)
	busy    atomic.Int32 // writer calls in progress (writes_exclusive on the implementation side)
}

func (w *recWriter) enter() {
	if w.busy.Add(1) != 1 {
		w.env.log("(overlap %d)", w.sid)
	}
}
func (w *recWriter) leave() { w.busy.Add(-1) }

func parseCounter(p []byte) int {
	s := string(p)
	i := strings.Index(s, `"counter":`)
	if i < 0 {
		return -1
	}
	s = s[i+len(`"counter":`):]
	j := 0
	for j < len(s) && s[j] >= '0' && s[j] <= '9' {
		j++
	}
	if j == 0 || j == len(s) {
		return -1 // no digits yet, or the number may continue in the next chunk
	}
	n, err := strconv.Atoi(s[:j])
	if err != nil {
		return -1
	}
	return n
}

// ev logs the entry ("w") or the return ("we") of a writer call.
func (w *recWriter) ev(tag, kind string, e int, forceLate bool) {
	w.env.mu.Lock()
	w.env.seq++
	late := ""
	if rt := w.env.subs[w.sid]; forceLate || (rt != nil && rt.gone != 0) {
		late = " late"
		w.env.violations = append(w.env.violations, fmt.Sprintf("%s %s on %d after gone", tag, kind, w.sid))
	}
	w.env.obs = append(w.env.obs, fmt.Sprintf("(%s %d %s %d%s)", tag, w.sid, kind, e, late))
	w.env.mu.Unlock()
}

// call = one whole writer call: entry, park inside, return.
func (w *recWriter) call(kind string, e int) {
	w.ev("w", kind, e, false)
	w.env.sched.Yield("ext.w")
	w.ev("we", kind, e, false)
}

func (w *recWriter) Write(p []byte) (int, error) {
	w.enter()
	defer w.leave()
	if len(w.buf) == 0 {
		w.env.mu.Lock()
		rt := w.env.subs[w.sid]
		w.bufLate = rt != nil && rt.gone != 0
		w.env.mu.Unlock()
	}
	w.buf = append(w.buf, p...)
	if w.open != -2 {
		return len(p), nil // the rest of a message whose Write is already in progress
	}
	e := parseCounter(w.buf)
	if e < 0 {
		return len(p), nil
	}
	w.lastEv = e
	if e == w.cfg.WFail {
		w.buf = w.buf[:0]
		w.ev("w", "writefail", e, w.bufLate)
		w.env.sched.Yield("ext.w")
		w.ev("we", "writefail", e, false)
		return 0, errors.New("scripted write failure")
	}
	w.open = e
	w.ev("w", "write", e, w.bufLate)
	w.env.sched.Yield("ext.w")
	return len(p), nil
}

// closeMsg: the message Write in progress returns (the next writer call is being made).
func (w *recWriter) closeMsg() {
	if w.open != -2 {
		e := w.open
		w.open = -2
		w.buf = w.buf[:0]
		w.ev("we", "write", e, false)
		return
	}
	if len(w.buf) > 0 { // a message without an event number (not produced by the scenarios)
		w.buf = w.buf[:0]
		w.lastEv = -1
		w.ev("w", "write", -1, w.bufLate)
		w.ev("we", "write", -1, false)
	}
}
func (w *recWriter) Flush() error {
	w.enter()
	defer w.leave()
	w.closeMsg()
	if w.lastEv >= 0 && w.lastEv == w.cfg.FFail {
		w.call("flushfail", 0)
		return errors.New("scripted flush failure")
	}
	w.call("flush", 0)
	return nil
}
func (w *recWriter) Complete()         { w.enter(); defer w.leave(); w.closeMsg(); w.call("complete", 0) }
func (w *recWriter) Error(data []byte) { w.enter(); defer w.leave(); w.closeMsg(); w.call("error", 0) }
func (w *recWriter) Heartbeat() error {
	w.enter()
	defer w.leave()
	w.closeMsg()
	if w.cfg.HbFail {
		w.call("hbfail", 0)
		return errors.New("scripted heartbeat failure")
	}
	w.call("hb", 0)
	return nil
}

type errWriter struct{ env *Env }

func (ew *errWriter) WriteError(ctx *resolve.Context, err error, res *resolve.GraphQLResponse, w io.Writer) {
	if rw, ok := w.(*recWriter); ok {
		rw.enter()
		defer rw.leave()
		rw.open = -2
		rw.buf = rw.buf[:0]
		rw.call("werr", 0)
	}
}

// ---- reporter
type reporter struct{ env *Env }

func (r *reporter) SubscriptionUpdateSent() {}
func (r *reporter) SubscriptionCountInc(n int) {
	r.env.mu.Lock()
	r.env.subInc += n
	r.env.mu.Unlock()
	r.env.log("(subinc %d)", n)
}
func (r *reporter) SubscriptionCountDec(n int) {
	gid := goid()
	r.env.mu.Lock()
	r.env.subDec += n
	r.env.decBy[gid] += n
	r.env.mu.Unlock()
	r.env.log("(subdec %d)", n)
}
func (r *reporter) TriggerCountInc(n int) {
	r.env.mu.Lock()
	r.env.trigInc += n
	r.env.mu.Unlock()
	r.env.log("(triginc %d)", n)
}
func (r *reporter) TriggerCountDec(n int) {
	r.env.mu.Lock()
	r.env.trigDec += n
	r.env.mu.Unlock()
	r.env.log("(trigdec %d)", n)
}

// ---- headers (key 2 = input of key 0 with a different forwarded-header hash)
type hdrs struct{ hash uint64 }

func (h hdrs) HeadersForSubgraph(string) (http.Header, uint64) {
	return http.Header{"X-K": []string{strconv.FormatUint(h.hash, 10)}}, h.hash
}
func (h hdrs) HashAll() uint64 { return h.hash }

func keyInput(k int) []byte {
	if k == 1 {
		return []byte(`{"k":1}`)
	}
	return []byte(`{"k":0}`)
}
func keyOf(input []byte, headers http.Header) int {
	if strings.Contains(string(input), `"k":1`) {
		return 1
	}
	if headers.Get("X-K") == "7" {
		return 2
	}
	return 0
}

// ---- data source
type source struct{ env *Env }

func (s *source) HashTriggerInput(input []byte, xxh *xxhash.Digest) error {
	_, err := xxh.Write(input)
	return err
}

func (s *source) SubscriptionOnStart(ctx resolve.StartupHookContext, input []byte) error {
	sc, ok := ctx.Context.(*subCtx)
	if !ok {
		return errors.New("unknown context")
	}
	e := s.env
	gid := goid()
	e.mu.Lock()
	e.pending[gid] = "st:" + strconv.Itoa(sc.sid)
	cfg := e.subs[sc.sid].cfg
	e.mu.Unlock()
	e.sched.Yield("ext.hook")
	switch cfg.Hook {
	case "fail":
		return errors.New("scripted hook failure")
	case "emit":
		ctx.Updater(payload(cfg.HookEv))
	}
	return nil
}

func (s *source) Start(ctx *resolve.Context, headers http.Header, input []byte, updater resolve.SubscriptionUpdater) error {
	e := s.env
	gid := goid()
	e.sched.mu.Lock()
	a := e.sched.byGid[gid]
	e.sched.mu.Unlock()
	sid := -1
	if a != nil && strings.HasPrefix(a.name, "st:") {
		sid, _ = strconv.Atoi(a.name[3:])
	}
	e.sched.Yield("ext.start")
	e.mu.Lock()
	e.updaters[sid] = updater
	e.trigCtx[sid] = ctx.Context()
	cfg := SubCfg{Start: "ok"}
	if rt := e.subs[sid]; rt != nil {
		cfg = rt.cfg
	}
	k := keyOf(input, headers)
	e.startKey[sid] = k
	e.mu.Unlock()
	e.log("(start %d %d)", sid, k)
	if cfg.Start == "fail" {
		return errors.New("scripted start failure")
	}
	return nil
}

func payload(ev int) []byte {
	if ev >= 100 {
		return []byte(`{"data":`)
	}
	return []byte(fmt.Sprintf(`{"data":{"counter":%d},"k":%d}`, ev, ev%3))
}

// pollCancels logs the first observation of a cancelled trigger context.
func (e *Env) pollCancels() {
	e.mu.Lock()
	var out []int
	for sid, c := range e.trigCtx {
		if !e.trigSeen[sid] && c.Err() != nil {
			e.trigSeen[sid] = true
			out = append(out, sid)
		}
	}
	e.mu.Unlock()
	for _, sid := range out {
		e.log("(cancel %d)", sid)
	}
}

func staticTemplate(s string) resolve.InputTemplate {
	return resolve.InputTemplate{Segments: []resolve.TemplateSegment{{SegmentType: resolve.StaticSegmentType, Data: []byte(s)}}}
}

func (e *Env) newSub(cfg SubCfg, src *source) *subRT {
	inner, cancel := context.WithCancel(context.Background())
	sc := &subCtx{Context: inner, env: e, sid: cfg.Sid}
	rctx := resolve.NewContext(sc)
	rctx.ExecutionOptions.SendHeartbeat = cfg.Hb
	if cfg.Key == 2 {
		rctx.SubgraphHeadersBuilder = hdrs{hash: 7}
	}
	var flt *resolve.SubscriptionFilter
	switch cfg.Flt {
	case 1:
		flt = &resolve.SubscriptionFilter{In: &resolve.SubscriptionFieldFilter{FieldPath: []string{"k"}, Values: []resolve.InputTemplate{staticTemplate("0")}}}
	case 2:
		flt = &resolve.SubscriptionFilter{In: &resolve.SubscriptionFieldFilter{FieldPath: []string{"k"}, Values: []resolve.InputTemplate{staticTemplate("0"), staticTemplate("1")}}}
	case 3:
		flt = &resolve.SubscriptionFilter{In: &resolve.SubscriptionFieldFilter{FieldPath: []string{"k"}, Values: []resolve.InputTemplate{staticTemplate("[1][2]")}}}
	}
	plan := &resolve.GraphQLSubscription{
		Trigger: resolve.GraphQLSubscriptionTrigger{
			Source:        src,
			InputTemplate: staticTemplate(string(keyInput(cfg.Key))),
			PostProcessing: resolve.PostProcessingConfiguration{
				SelectResponseDataPath:   []string{"data"},
				SelectResponseErrorsPath: []string{"errors"},
			},
			SourceName: "src",
		},
		Response: &resolve.GraphQLResponse{
			Data: &resolve.Object{Fields: []*resolve.Field{{
				Name:  []byte("counter"),
				Value: &resolve.Integer{Path: []string{"counter"}},
			}}},
			Fetches: resolve.Sequence(),
		},
		Filter: flt,
	}
	w := &recWriter{env: e, sid: cfg.Sid, cfg: cfg, lastEv: -1, open: -2}
	return &subRT{cfg: cfg, ctx: sc, cancel: cancel, w: w, plan: plan, rctx: rctx,
		id: resolve.SubscriptionIdentifier{ConnectionID: resolve.ConnectionID(1000 + cfg.Conn), SubscriptionID: int64(cfg.Sid)}}
}
