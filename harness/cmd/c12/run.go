package main

// One run = one fresh Resolver driven through one schedule of one scenario.

import (
	"context"
	"fmt"
	"runtime"
	"sort"
	"strconv"
	"strings"
	"time"

	"github.com/wundergraph/graphql-go-tools/v2/pkg/engine/resolve"
)

type Op struct {
	Kind string // sub unsub rmclient cancelctx shutdown | update complete error done close
	A, B int
}

func (o Op) isSrc() bool {
	switch o.Kind {
	case "update", "complete", "error", "done", "close":
		return true
	}
	return false
}

func (o Op) sexp() string {
	switch o.Kind {
	case "shutdown":
		return "(shutdown)"
	case "update", "close":
		return fmt.Sprintf("(%s %d %d)", o.Kind, o.A, o.B)
	}
	return fmt.Sprintf("(%s %d)", o.Kind, o.A)
}

type Scenario struct {
	Subs     []SubCfg
	Lanes    [][]Op
	MaxTicks int
}

func b2s(b bool) string {
	if b {
		return "t"
	}
	return "f"
}

func (sc *Scenario) sexp() string {
	var sb strings.Builder
	sb.WriteString("(subs")
	for _, c := range sc.Subs {
		fmt.Fprintf(&sb, " (%d %d %d %s %s %d %d %d %s %s %d %s)", c.Sid, c.Key, c.Conn, b2s(c.Hb), b2s(c.Sync), c.Flt,
			c.WFail, c.FFail, b2s(c.HbFail), c.Hook, c.HookEv, c.Start)
	}
	sb.WriteString(") (lanes")
	for _, l := range sc.Lanes {
		sb.WriteString(" (")
		for i, o := range l {
			if i > 0 {
				sb.WriteString(" ")
			}
			sb.WriteString(o.sexp())
		}
		sb.WriteString(")")
	}
	fmt.Fprintf(&sb, ") (ticks %d)", sc.MaxTicks)
	return sb.String()
}

type lane struct {
	idx   int
	ops   []Op
	next  int
	actor *Actor
	name  string
}

type Result struct {
	Line    string
	Sched   []string
	Choices []int
	Widths  []int
	Steps   int
	Stuck   bool
}

// chooser returns an index in [0,n).
type chooser func(step int, labels []string) int

func runSchedule(sc *Scenario, choose chooser, maxSteps int) Result {
	e := &Env{sc: sc, pending: map[int64]string{}, subs: map[int]*subRT{}, updaters: map[int]resolve.SubscriptionUpdater{},
		trigCtx: map[int]context.Context{}, trigSeen: map[int]bool{}, startKey: map[int]int{}, decBy: map[int64]int{}}
	e.sched = NewSched(e.namer)
	resolve.SetVerifYield(e.sched.Yield)
	baseline := runtime.NumGoroutine()
	src := &source{env: e}
	for _, c := range sc.Subs {
		e.subs[c.Sid] = e.newSub(c, src)
	}
	rctx, rcancel := context.WithCancel(context.Background())
	e.rcancel = rcancel
	e.rctxv = rctx
	e.res = resolve.New(rctx, resolve.ResolverOptions{
		MaxConcurrency:                1024,
		Reporter:                      &reporter{env: e},
		AsyncErrorWriter:              &errWriter{env: e},
		SubscriptionHeartbeatInterval: time.Nanosecond,
	})
	res := Result{}
	var steps []string
	ok := e.sched.WaitQuiescent()
	e.sched.Changes(nil)
	lanes := make([]*lane, len(sc.Lanes))
	for i, l := range sc.Lanes {
		lanes[i] = &lane{idx: i, ops: l}
	}
	opn := 0
	ticks := 0
	for step := 0; ok && step < maxSteps; step++ {
		// candidates
		type cand struct {
			kind  int // 0 start lane, 1 release actor
			lane  *lane
			actor *Actor
			label string
		}
		var cands []cand
		laneActors := map[*Actor]bool{}
		for _, l := range lanes {
			if l.actor != nil {
				if l.actor.state == stFinished {
					l.actor = nil
				} else {
					laneActors[l.actor] = true
				}
			}
			if l.actor == nil && l.next < len(l.ops) {
				o := l.ops[l.next]
				startable := true
				if o.isSrc() {
					e.mu.Lock()
					_, startable = e.updaters[o.A]
					e.mu.Unlock()
				}
				if startable {
					cands = append(cands, cand{kind: 0, lane: l, label: "L" + strconv.Itoa(l.idx)})
				}
			}
		}
		for _, a := range e.sched.Parked() {
			if a.name == "hb" && a.point == "c12.hb.R" && ticks >= sc.MaxTicks {
				continue // no further heartbeat tick; a heartbeat parked inside a writer call is always releasable
			}
			cands = append(cands, cand{kind: 1, actor: a, label: a.name})
		}
		if len(cands) == 0 {
			break
		}
		labels := make([]string, len(cands))
		for i, c := range cands {
			labels[i] = c.label
		}
		ci := choose(step, labels)
		if ci < 0 || ci >= len(cands) {
			ci = 0
		}
		res.Choices = append(res.Choices, ci)
		res.Sched = append(res.Sched, labels[ci])
		res.Widths = append(res.Widths, len(cands))
		c := cands[ci]
		var acted *Actor
		var what string
		if c.kind == 0 {
			l := c.lane
			o := l.ops[l.next]
			l.next++
			opn++
			name := "cl:" + strconv.Itoa(opn)
			if o.isSrc() {
				name = "src:" + strconv.Itoa(opn)
			}
			started := make(chan *Actor)
			go func() {
				a := e.sched.Register(name)
				started <- a
				pv := ""
				defer func() {
					if r := recover(); r != nil {
						pv = fmt.Sprint(r)
						e.log("(panic %q)", pv)
					}
					e.sched.Finish(a, pv)
				}()
				e.doOp(o)
			}()
			acted = <-started
			l.actor = acted
			what = "(start " + name + " " + o.sexp() + ")"
		} else {
			acted = c.actor
			if acted.name == "hb" && acted.point == "c12.hb.R" {
				ticks++
			}
			what = "(go " + acted.name + ")"
			e.sched.Release(acted)
		}
		ok = e.sched.WaitQuiescent()
		e.pollCancels()
		obs := e.drain()
		ch := e.sched.Changes(acted)
		e.sched.mu.Lock()
		status := acted.Status()
		e.sched.mu.Unlock()
		steps = append(steps, fmt.Sprintf("(%s %s (obs %s) (ch %s))", what, status, strings.Join(obs, " "), strings.Join(ch, " ")))
		res.Steps++
	}
	if !ok {
		res.Stuck = true
	}
	t, s, c := e.res.VerifRegistrySizes()
	uncancelled := 0
	e.mu.Lock()
	for sid, cx := range e.trigCtx {
		_ = sid
		if cx.Err() == nil {
			uncancelled++
		}
	}
	var late []string
	late = append(late, e.violations...)
	final := fmt.Sprintf("(final (sizes %d %d %d) (counters %d %d %d %d) (uncancelled %d) (stuck %s) (pending %d))", t, s, c,
		e.subInc, e.subDec, e.trigInc, e.trigDec, uncancelled, b2s(res.Stuck), len(e.sched.Parked()))
	e.mu.Unlock()
	res.Line = "(c12 " + sc.sexp() + " (steps " + strings.Join(steps, " ") + ") " + final + ")"
	// teardown
	e.sched.FreeRun()
	rcancel()
	for _, rt := range e.subs {
		rt.cancel()
	}
	e.mu.Lock()
	var us []resolve.SubscriptionUpdater
	for _, u := range e.updaters {
		us = append(us, u)
	}
	e.mu.Unlock()
	for _, u := range us {
		u.Done()
	}
	deadline := time.Now().Add(2 * time.Second)
	for runtime.NumGoroutine() > baseline && time.Now().Before(deadline) {
		time.Sleep(50 * time.Microsecond)
	}
	return res
}

func (e *Env) markGone(sid int) {
	e.mu.Lock()
	rt := e.subs[sid]
	if rt != nil && rt.added && rt.gone == 0 {
		e.seq++
		rt.gone = e.seq
		e.obs = append(e.obs, fmt.Sprintf("(gone %d)", sid))
	}
	e.mu.Unlock()
}

func (e *Env) doOp(o Op) {
	switch o.Kind {
	case "sub":
		rt := e.subs[o.A]
		if rt.cfg.Sync {
			e.mu.Lock()
			rt.added = true // registration happens inside; the call only returns at the end
			e.mu.Unlock()
			err := e.res.ResolveGraphQLSubscription(rt.rctx, rt.plan, rt.w)
			if err == nil {
				e.markGone(o.A)
			} else {
				e.log("(syncerr %d)", o.A)
			}
			return
		}
		err := e.res.AsyncResolveGraphQLSubscription(rt.rctx, rt.plan, rt.w, rt.id)
		if err == nil {
			e.mu.Lock()
			rt.added = true
			e.mu.Unlock()
		} else {
			e.log("(adderr %d)", o.A)
		}
	case "unsub":
		// "gone" = the completed channel of the subscription is known to be closed.  For an asynchronous subscriber
		// the only witness is the return of the call that removed it (the one that reported SubscriptionCountDec(1):
		// it won the removed CAS and ran done()); a call that found nothing to remove proves nothing.
		rt := e.subs[o.A]
		e.mu.Lock()
		was := rt.added
		e.mu.Unlock()
		before := e.decByMe()
		err := e.res.UnsubscribeSubscription(rt.id)
		if err == nil && was && e.decByMe()-before == 1 {
			e.markGone(o.A)
		}
	case "rmclient":
		before := e.decByMe()
		_ = e.res.UnsubscribeClient(resolve.ConnectionID(1000 + o.A))
		// The call removed (and completed) exactly n subscriptions of the connection.  Which ones is only known when
		// n covers every subscription of the connection that was ever added and is not yet known to be gone (the
		// removed ones are among these; candidates are taken AFTER the call, the operation may have waited long).
		n := e.decByMe() - before
		var sids []int
		e.mu.Lock()
		for sid, rt := range e.subs {
			if rt.cfg.Conn == o.A && rt.added && !rt.cfg.Sync && rt.gone == 0 {
				sids = append(sids, sid)
			}
		}
		e.mu.Unlock()
		sort.Ints(sids)
		if n > 0 && n == len(sids) {
			for _, sid := range sids {
				e.markGone(sid)
			}
		}
	case "cancelctx":
		e.subs[o.A].cancel()
	case "shutdown":
		e.rcancel()
	case "update":
		e.updater(o.A).Update(payload(o.B))
	case "complete":
		e.updater(o.A).Complete()
	case "error":
		e.updater(o.A).Error([]byte(`{"errors":[{"message":"upstream"}]}`))
	case "done":
		e.updater(o.A).Done()
	case "close":
		e.updater(o.A).CloseSubscription(e.subs[o.B].id)
	}
}

func (e *Env) decByMe() int {
	gid := goid()
	e.mu.Lock()
	defer e.mu.Unlock()
	return e.decBy[gid]
}

func (e *Env) updater(sid int) resolve.SubscriptionUpdater {
	e.mu.Lock()
	defer e.mu.Unlock()
	return e.updaters[sid]
}
