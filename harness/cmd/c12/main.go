// Command c12: schedule harness for C12/C13 (resolver subscription registry).
//
//	c12 explore -seed N -ms BUDGET -perfam K -nrand N -perrand K -out FILE
//	c12 replay  -scn "<family> <index> <seed>" -choices "L0,cl:1,st:1,..." -out FILE
//	c12 corpus  -in corpus/C12/cases.txt -out FILE
//	c12 ident   -seed N [-nrand K] -out FILE      (trigger identity on the real SubscriptionSource, see ident.go)
//
// Every output line of explore / replay / corpus is one run: scenario, steps (who was started / released, where it
// stopped, the observables of that step, status changes of bystanders), final registry sizes and counters.
// Parking points: the verifYield call sites of package resolve, the gates of the scripted data source (ext.hook,
// ext.start) and every call on a subscriber's writer (ext.w: the goroutine parks INSIDE Write / Flush / Complete /
// Error / Heartbeat / WriteError; entry and return of the call are logged as (w ...) and (we ...)).
package main

import (
	"fmt"
	"os"
	"strconv"
	"strings"
	"time"

	"gvh/common"
)

func sub(sid, key, conn int) SubCfg {
	return SubCfg{Sid: sid, Key: key, Conn: conn, WFail: -1, FFail: -1, Hook: "ok", Start: "ok"}
}

// fixed families: small scenarios enumerated exhaustively (up to the run cap)
func family(f int) *Scenario {
	switch f {
	case 0: // source Complete racing a client unsubscribe
		return &Scenario{Subs: []SubCfg{sub(1, 0, 1)},
			Lanes: [][]Op{{{"sub", 1, 0}, {"unsub", 1, 0}}, {{"update", 1, 3}, {"complete", 1, 0}, {"done", 1, 0}}}}
	case 1: // removal racing markTriggerInitialized
		return &Scenario{Subs: []SubCfg{sub(1, 0, 1)}, Lanes: [][]Op{{{"sub", 1, 0}, {"unsub", 1, 0}}}}
	case 2: // same trigger id re-used after teardown: late Done of the old source
		return &Scenario{Subs: []SubCfg{sub(1, 0, 1), sub(2, 0, 2)},
			Lanes: [][]Op{{{"sub", 1, 0}, {"unsub", 1, 0}, {"sub", 2, 0}}, {{"done", 1, 0}}, {{"update", 2, 0}, {"unsub", 2, 0}}}}
	case 3: // two subscribers on one trigger, one leaves during fan-out; filter on the second
		a, b := sub(1, 0, 1), sub(2, 0, 2)
		b.Flt = 1
		return &Scenario{Subs: []SubCfg{a, b},
			Lanes: [][]Op{{{"sub", 1, 0}, {"unsub", 1, 0}}, {{"sub", 2, 0}}, {{"update", 1, 0}, {"update", 1, 1}, {"done", 1, 0}}}}
	case 4: // same input different headers, different input
		return &Scenario{Subs: []SubCfg{sub(1, 0, 1), sub(2, 2, 1), sub(3, 1, 2)},
			Lanes: [][]Op{{{"sub", 1, 0}, {"sub", 2, 0}, {"sub", 3, 0}, {"rmclient", 1, 0}}, {{"update", 1, 1}}, {{"update", 2, 2}}, {{"update", 3, 3}, {"shutdown", 0, 0}}}}
	case 5: // start failure with a joiner
		a, b := sub(1, 0, 1), sub(2, 0, 2)
		a.Start = "fail"
		return &Scenario{Subs: []SubCfg{a, b}, Lanes: [][]Op{{{"sub", 1, 0}}, {{"sub", 2, 0}, {"unsub", 2, 0}}}}
	case 6: // hook failure of a joiner, hook emission of the starter
		a, b := sub(1, 0, 1), sub(2, 0, 2)
		a.Hook, a.HookEv = "emit", 6
		b.Hook = "fail"
		return &Scenario{Subs: []SubCfg{a, b}, Lanes: [][]Op{{{"sub", 1, 0}}, {{"sub", 2, 0}}, {{"update", 1, 1}, {"error", 1, 0}, {"done", 1, 0}}}}
	case 7: // heartbeat racing removal; failing heartbeat; flush failure
		a, b := sub(1, 0, 1), sub(2, 0, 2)
		a.Hb, b.Hb, b.HbFail = true, true, true
		a.FFail = 4
		return &Scenario{Subs: []SubCfg{a, b}, MaxTicks: 2,
			Lanes: [][]Op{{{"sub", 1, 0}, {"sub", 2, 0}}, {{"update", 1, 4}, {"update", 1, 5}}, {{"rmclient", 1, 0}, {"rmclient", 2, 0}}}}
	case 8: // shutdown racing subscribe and start
		return &Scenario{Subs: []SubCfg{sub(1, 0, 1), sub(2, 1, 2)},
			Lanes: [][]Op{{{"sub", 1, 0}}, {{"shutdown", 0, 0}}, {{"sub", 2, 0}}, {{"update", 1, 1}, {"done", 1, 0}}}}
	case 9: // synchronous subscriber: completion by the source, by ctx cancel
		a := sub(1, 0, 1)
		a.Sync = true
		return &Scenario{Subs: []SubCfg{a},
			Lanes: [][]Op{{{"sub", 1, 0}}, {{"cancelctx", 1, 0}}, {{"update", 1, 1}, {"complete", 1, 0}, {"done", 1, 0}}}}
	case 10: // bad event, write failure, filter error, close by the source
		a, b := sub(1, 0, 1), sub(2, 0, 2)
		a.WFail = 2
		b.Flt = 3
		return &Scenario{Subs: []SubCfg{a, b},
			Lanes: [][]Op{{{"sub", 1, 0}, {"sub", 2, 0}}, {{"update", 1, 2}, {"update", 1, 100}, {"close", 1, 2}, {"update", 1, 3}, {"done", 1, 0}}, {{"unsub", 1, 0}}}}
	case 11: // slow client: an update is inside Write / Flush while the client unsubscribes
		return &Scenario{Subs: []SubCfg{sub(1, 0, 1)},
			Lanes: [][]Op{{{"sub", 1, 0}}, {{"update", 1, 3}, {"update", 1, 4}}, {{"unsub", 1, 0}}}}
	case 12: // the same for a synchronous subscriber whose request context is cancelled
		a := sub(1, 0, 1)
		a.Sync = true
		return &Scenario{Subs: []SubCfg{a},
			Lanes: [][]Op{{{"sub", 1, 0}}, {{"update", 1, 3}}, {{"cancelctx", 1, 0}}}}
	case 13: // resolver shutdown / removeClient while two subscribers of one connection are being written to
		return &Scenario{Subs: []SubCfg{sub(1, 0, 1), sub(2, 0, 1)},
			Lanes: [][]Op{{{"sub", 1, 0}, {"sub", 2, 0}}, {{"update", 1, 3}}, {{"rmclient", 1, 0}}, {{"shutdown", 0, 0}}}}
	case 14: // a source that calls the updater from two goroutines: Update(4) is called while Update(3) is in flight
		return &Scenario{Subs: []SubCfg{sub(1, 0, 1), sub(2, 0, 2)},
			Lanes: [][]Op{{{"sub", 1, 0}, {"sub", 2, 0}}, {{"update", 1, 3}}, {{"update", 1, 4}}}}
	case 15: // three emitting goroutines: stream, a second stream goroutine, and a joiner's start-up hook (UpdateSubscription)
		a, b := sub(1, 0, 1), sub(2, 0, 2)
		b.Hook, b.HookEv = "emit", 6
		return &Scenario{Subs: []SubCfg{a, b},
			Lanes: [][]Op{{{"sub", 1, 0}}, {{"sub", 2, 0}}, {{"update", 1, 3}, {"update", 1, 5}}, {{"update", 1, 4}, {"complete", 1, 0}}, {{"done", 1, 0}}}}
	case 16: // Start fails; a second subscriber with the same input joins while the error is written; a third comes later.
		// Nobody asks 1 and 2 to leave: the failed start-up has to complete them and free the trigger id.
		a, b, c := sub(1, 0, 1), sub(2, 0, 2), sub(3, 0, 3)
		a.Start = "fail"
		return &Scenario{Subs: []SubCfg{a, b, c}, Lanes: [][]Op{{{"sub", 1, 0}}, {{"sub", 2, 0}}, {{"sub", 3, 0}, {"unsub", 3, 0}}}}
	case 17: // the start-up hook of the first subscriber fails; a synchronous subscriber with the same input joins meanwhile
		a, b := sub(1, 0, 1), sub(2, 0, 2)
		a.Hook = "fail"
		b.Sync = true
		return &Scenario{Subs: []SubCfg{a, b}, Lanes: [][]Op{{{"sub", 1, 0}}, {{"sub", 2, 0}}}}
	case 18: // the subscriber that CREATED the trigger is synchronous and leaves by request-context cancellation while a
		// second subscriber shares the trigger; the source goes on emitting, completes, and says Done
		a, b := sub(1, 0, 1), sub(2, 0, 2)
		a.Sync = true
		return &Scenario{Subs: []SubCfg{a, b},
			Lanes: [][]Op{{{"sub", 1, 0}}, {{"sub", 2, 0}}, {{"cancelctx", 1, 0}},
				{{"update", 1, 3}, {"update", 1, 4}, {"complete", 1, 0}, {"done", 1, 0}}}}
	case 19: // the same with an asynchronous creator whose context the router cancels before it unsubscribes it; a filter on
		// the survivor; the stream ends with an error
		a, b := sub(1, 0, 1), sub(2, 0, 2)
		b.Flt = 2
		return &Scenario{Subs: []SubCfg{a, b},
			Lanes: [][]Op{{{"sub", 1, 0}, {"cancelctx", 1, 0}, {"unsub", 1, 0}}, {{"sub", 2, 0}},
				{{"update", 1, 3}, {"update", 1, 4}, {"update", 1, 5}, {"error", 1, 0}, {"done", 1, 0}}}}
	case 20: // three subscribers on one trigger: the creator and one joiner leave by context cancellation (one synchronous),
		// the third stays while the source emits from two goroutines
		a, b, c := sub(1, 0, 1), sub(2, 0, 2), sub(3, 0, 3)
		b.Sync = true
		return &Scenario{Subs: []SubCfg{a, b, c},
			Lanes: [][]Op{{{"sub", 1, 0}, {"cancelctx", 1, 0}, {"unsub", 1, 0}}, {{"sub", 2, 0}}, {{"cancelctx", 2, 0}}, {{"sub", 3, 0}},
				{{"update", 1, 3}, {"update", 1, 6}, {"complete", 1, 0}}, {{"update", 1, 4}}}}
	case 21: // slow client and a FAILED update: the event is not valid JSON, the error is being written (WriteError parks inside
		// the call) while the client unsubscribes / a heartbeat tick arrives / the next update comes
		a := sub(1, 0, 1)
		a.Hb = true
		return &Scenario{Subs: []SubCfg{a}, MaxTicks: 1,
			Lanes: [][]Op{{{"sub", 1, 0}}, {{"update", 1, 100}, {"update", 1, 3}}, {{"unsub", 1, 0}}}}
	case 22: // a SYNCHRONOUS subscriber whose Flush fails (connection broken while an event is written): the failed flush
		// removes it, ResolveGraphQLSubscription has to return; a second, asynchronous subscriber shares the trigger
		a, b := sub(1, 0, 1), sub(2, 0, 2)
		a.Sync = true
		a.FFail = 4
		return &Scenario{Subs: []SubCfg{a, b},
			Lanes: [][]Op{{{"sub", 1, 0}}, {{"sub", 2, 0}, {"unsub", 2, 0}}, {{"update", 1, 4}, {"update", 1, 5}}}}
	}
	return nil
}

const nFamilies = 23

// random scenarios: 1-3 subscribers on 1-2 triggers, random outcomes and op lanes
func genScenario(r *common.Rand) *Scenario {
	n := 1 + r.Pick(3)
	sc := &Scenario{}
	keys := []int{0, 0, 0, 2, 1}
	evn := 0
	var evs []int
	newEv := func() int { // pairwise distinct events; the residue mod 3 drives the filters
		evn++
		e := 3*evn + r.Pick(3)
		evs = append(evs, e)
		return e
	}
	for i := 1; i <= n; i++ {
		c := sub(i, common.PickOf(r, keys), 1+r.Pick(2))
		c.Hb = r.Chance(1, 3)
		c.HbFail = c.Hb && r.Chance(1, 4)
		c.Flt = common.PickOf(r, []int{0, 0, 0, 1, 2, 3})
		c.Hook = common.PickOf(r, []string{"ok", "ok", "ok", "ok", "fail", "emit"})
		c.HookEv = newEv()
		c.Start = common.PickOf(r, []string{"ok", "ok", "ok", "ok", "fail"})
		c.Sync = r.Chance(1, 8)
		sc.Subs = append(sc.Subs, c)
	}
	if r.Chance(1, 2) {
		sc.MaxTicks = 1 + r.Pick(2)
	}
	// client lanes
	for i := 1; i <= n; i++ {
		l := []Op{{"sub", i, 0}}
		if sc.Subs[i-1].Sync {
			if r.Chance(1, 2) {
				l = append(l, Op{"cancelctx", i, 0})
			}
			// the cancel must be able to overtake the blocked call: own lane
			sc.Lanes = append(sc.Lanes, l[:1])
			if len(l) > 1 {
				sc.Lanes = append(sc.Lanes, l[1:])
			}
			continue
		}
		switch r.Pick(5) {
		case 0:
			l = append(l, Op{"unsub", i, 0})
		case 1:
			l = append(l, Op{"rmclient", sc.Subs[i-1].Conn, 0})
		case 2:
			l = append(l, Op{"cancelctx", i, 0}, Op{"unsub", i, 0})
		}
		sc.Lanes = append(sc.Lanes, l)
	}
	// source lanes (a source op needs the updater of a subscriber that started a trigger)
	nsrc := 1 + r.Pick(2)
	for j := 0; j < nsrc; j++ {
		owner := 1 + r.Pick(n)
		var l []Op
		m := 1 + r.Pick(3)
		for k := 0; k < m; k++ {
			ev := newEv()
			if r.Chance(1, 10) {
				ev = 100 + evn
			}
			l = append(l, Op{"update", owner, ev})
		}
		switch r.Pick(5) {
		case 0:
			l = append(l, Op{"complete", owner, 0}, Op{"done", owner, 0})
		case 1:
			l = append(l, Op{"error", owner, 0}, Op{"done", owner, 0})
		case 2:
			l = append(l, Op{"done", owner, 0})
		case 3:
			// CloseSubscription names the subscription by its identifier, which the harness only knows for asynchronous subscribers
			tgt := 1 + r.Pick(n)
			if !sc.Subs[tgt-1].Sync {
				l = append(l, Op{"close", owner, tgt})
			}
		}
		sc.Lanes = append(sc.Lanes, l)
	}
	// a source that calls the updater from a second goroutine: another lane on the trigger of the first source lane
	if r.Chance(1, 3) {
		owner := sc.Lanes[len(sc.Lanes)-nsrc][0].A
		l := []Op{{"update", owner, newEv()}}
		if r.Chance(1, 2) {
			l = append(l, Op{"update", owner, newEv()})
		}
		sc.Lanes = append(sc.Lanes, l)
	}
	for i := range sc.Subs {
		if r.Chance(1, 6) {
			sc.Subs[i].WFail = common.PickOf(r, evs)
		}
		if r.Chance(1, 6) {
			sc.Subs[i].FFail = common.PickOf(r, evs)
		}
	}
	// cleanup lane: every run ends with all clients gone or the resolver shut down
	var cl []Op
	if r.Chance(1, 5) {
		// nobody is asked to leave: only a failed start-up or the source's Done ends the subscriptions
		return sc
	}
	if r.Chance(1, 3) {
		cl = append(cl, Op{"shutdown", 0, 0})
	} else {
		for i := 1; i <= n; i++ {
			if !sc.Subs[i-1].Sync {
				cl = append(cl, Op{"unsub", i, 0})
			} else {
				cl = append(cl, Op{"cancelctx", i, 0})
			}
		}
	}
	sc.Lanes = append(sc.Lanes, cl)
	return sc
}

func scenarioOf(fam, idx int, seed uint64) *Scenario {
	if fam >= 0 {
		return family(fam)
	}
	r := common.NewRand(seed*1000003 + uint64(idx))
	return genScenario(r)
}

func parseChoices(s string) []int {
	var out []int
	for _, p := range strings.Split(s, ",") {
		p = strings.TrimSpace(p)
		if p == "" {
			continue
		}
		n, _ := strconv.Atoi(p)
		out = append(out, n)
	}
	return out
}

func choicesStr(c []int) string {
	parts := make([]string, len(c))
	for i, x := range c {
		parts[i] = strconv.Itoa(x)
	}
	return strings.Join(parts, ",")
}

func emit(out *common.Out, fam, idx int, seed uint64, res Result) {
	out.Line(fmt.Sprintf("(run (scn %d %d %d) (choices %q) %s)", fam, idx, seed, strings.Join(res.Sched, ","), res.Line))
}

// byName replays a schedule given as labels (lane "L<i>" to start its next op, actor name to
// release); a label that is not available falls back to the first candidate.
func byName(sched []string) chooser {
	return func(step int, labels []string) int {
		if step < len(sched) {
			for i, l := range labels {
				if l == sched[step] {
					return i
				}
			}
		}
		return 0
	}
}

func byIndex(prefix []int) chooser {
	return func(step int, labels []string) int {
		if step < len(prefix) && prefix[step] < len(labels) {
			return prefix[step]
		}
		return 0
	}
}

func splitSched(s string) []string {
	var out []string
	for _, p := range strings.Split(s, ",") {
		p = strings.TrimSpace(p)
		if p != "" {
			out = append(out, p)
		}
	}
	return out
}

func main() {
	if len(os.Args) < 2 {
		fmt.Println("usage: c12 explore|replay ...")
		os.Exit(2)
	}
	args := common.Args(os.Args[2:])
	out := common.NewOut(args["out"])
	defer out.Close()
	seed := common.ArgU64(args, "seed", 1)
	maxSteps := common.ArgInt(args, "maxsteps", 120)
	switch os.Args[1] {
	case "replay":
		var fam, idx int
		var sd uint64
		fmt.Sscanf(args["scn"], "%d %d %d", &fam, &idx, &sd)
		sc := scenarioOf(fam, idx, sd)
		res := runSchedule(sc, byName(splitSched(args["choices"])), maxSteps)
		emit(out, fam, idx, sd, res)
	case "corpus":
		// lines: "<family> <index> <seed> <choices>"  (# comments)
		data, err := os.ReadFile(args["in"])
		if err != nil {
			fmt.Fprintln(os.Stderr, err)
			os.Exit(1)
		}
		for _, ln := range strings.Split(string(data), "\n") {
			ln = strings.TrimSpace(ln)
			if ln == "" || strings.HasPrefix(ln, "#") {
				continue
			}
			f := strings.Fields(ln)
			if len(f) < 3 {
				continue
			}
			fam, _ := strconv.Atoi(f[0])
			idx, _ := strconv.Atoi(f[1])
			sd, _ := strconv.ParseUint(f[2], 10, 64)
			var ch []string
			if len(f) > 3 {
				ch = splitSched(f[3])
			}
			sc := scenarioOf(fam, idx, sd)
			if sc == nil {
				continue
			}
			res := runSchedule(sc, byName(ch), maxSteps)
			emit(out, fam, idx, sd, res)
		}
	case "ident":
		runIdent(out, seed, common.ArgInt(args, "nrand", 24))
	case "explore":
		if os.Getenv("C12_DEBUG") != "" {
			dbgStates = map[string]int{}
		}
		budget := time.Duration(common.ArgInt(args, "ms", 20000)) * time.Millisecond
		perFam := common.ArgInt(args, "perfam", 150)
		nrand := common.ArgInt(args, "nrand", 400)
		perRand := common.ArgInt(args, "perrand", 3)
		t0 := time.Now()
		runs := 0
		r := common.NewRand(seed)
		// exhaustive DFS (stateless: re-execute from scratch) per fixed family, capped
		// the fixed families share 60% of the budget in equal slices (2/3 of a slice depth-first, 1/3 random
		// schedules), the random scenarios get the rest
		famSlice := budget * 6 / 10 / nFamilies
		for fam := 0; fam < nFamilies; fam++ {
			sc := family(fam)
			var prefix []int
			t1 := time.Now()
			for k := 0; k < perFam && time.Since(t0) < budget && time.Since(t1) < famSlice*2/3; k++ {
				res := runSchedule(sc, byIndex(prefix), maxSteps)
				emit(out, fam, 0, seed, res)
				runs++
				// next prefix: increment the last position that has an untried alternative
				ch, w := res.Choices, res.Widths
				i := len(ch) - 1
				for i >= 0 && ch[i]+1 >= w[i] {
					i--
				}
				if i < 0 {
					break
				}
				prefix = append(append([]int{}, ch[:i]...), ch[i]+1)
			}
			// plus seeded random schedules of the same family
			for k := 0; k < perFam/2 && time.Since(t0) < budget && time.Since(t1) < famSlice; k++ {
				res := runSchedule(sc, func(step int, labels []string) int { return r.Pick(len(labels)) }, maxSteps)
				emit(out, fam, 0, seed, res)
				runs++
			}
		}
		for idx := 0; idx < nrand && time.Since(t0) < budget; idx++ {
			sc := scenarioOf(-1, idx, seed)
			for k := 0; k < perRand && time.Since(t0) < budget; k++ {
				res := runSchedule(sc, func(step int, labels []string) int { return r.Pick(len(labels)) }, maxSteps)
				emit(out, -1, idx, seed, res)
				runs++
			}
		}
		fmt.Fprintf(os.Stderr, "runs=%d wall=%s\n", runs, time.Since(t0))
		if dbgStates != nil {
			fmt.Fprintln(os.Stderr, dbgStates)
		}
	}
}
