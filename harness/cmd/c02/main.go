// c02: runs the real resolve.Resolvable (default options) on generated (plan tree, payload) pairs.
package main

import (
	"bytes"
	"context"
	"encoding/json"
	"fmt"
	"io"
	"os"
	"strings"

	"gvh/common"
	"gvh/plan"

	"github.com/tidwall/gjson"
	"github.com/wundergraph/astjson"
	"github.com/wundergraph/graphql-go-tools/v2/pkg/ast"
	"github.com/wundergraph/graphql-go-tools/v2/pkg/engine/resolve"
)

func errKind(msg string) int {
	switch {
	case strings.HasPrefix(msg, "Cannot return null for non-nullable field"):
		return 1
	case strings.HasPrefix(msg, "Object cannot represent non-object value"):
		return 2
	case strings.Contains(msg, "for __typename field"):
		return 3
	case strings.HasPrefix(msg, "String cannot represent non-string value"):
		return 4
	case strings.HasPrefix(msg, "Bool cannot represent non-boolean value"):
		return 5
	case strings.HasPrefix(msg, "Int cannot represent non-integer value"):
		return 6
	case strings.HasPrefix(msg, "Float cannot represent non-float value"):
		return 7
	case strings.HasPrefix(msg, "Enum \""):
		return 8
	case strings.HasPrefix(msg, "Invalid value found for"):
		return 9
	case strings.HasPrefix(msg, "Array cannot represent non-array value"):
		return 10
	case strings.HasPrefix(msg, "Unable to resolve field"):
		return 11
	case strings.HasPrefix(msg, "Unauthorized to load field"):
		return 12
	}
	return 99
}

type authz struct{ deny map[string]bool }

func (a *authz) AuthorizePreFetch(ctx *resolve.Context, dataSourceID string, input json.RawMessage, coordinate resolve.GraphCoordinate) (*resolve.AuthorizationDeny, error) {
	return nil, nil
}
func (a *authz) AuthorizeObjectField(ctx *resolve.Context, dataSourceID string, object json.RawMessage, coordinate resolve.GraphCoordinate) (*resolve.AuthorizationDeny, error) {
	if a.deny[coordinate.TypeName+"."+coordinate.FieldName] {
		return &resolve.AuthorizationDeny{Reason: "no"}, nil
	}
	return nil, nil
}
func (a *authz) HasResponseExtensionData(ctx *resolve.Context) bool { return false }
func (a *authz) RenderResponseExtension(ctx *resolve.Context, out io.Writer) error {
	return nil
}

// Run executes the real renderer; returns output bytes and a recovered panic message.
func Run(root *plan.Node, payload string, deny map[string]bool) (out []byte, panicMsg string, initErr error) {
	defer func() {
		if p := recover(); p != nil {
			panicMsg = fmt.Sprint(p)
		}
	}()
	ctx := resolve.NewContext(context.Background())
	if deny != nil {
		setAuthorizer(ctx, deny)
	}
	r := resolve.NewResolvable(nil, resolve.ResolvableOptions{})
	if err := r.Init(ctx, []byte(payload), ast.OperationTypeQuery); err != nil {
		return nil, "", err
	}
	buf := &bytes.Buffer{}
	obj := root.Build().(*resolve.Object)
	err := r.Resolve(context.Background(), obj, nil, buf)
	if err != nil {
		return buf.Bytes(), "", fmt.Errorf("resolve: %w", err)
	}
	return buf.Bytes(), "", nil
}

// errorItems reduces each error object to (kind, path).
func errorItems(e gjson.Result) []string {
	var items []string
	e.ForEach(func(_, item gjson.Result) bool {
		ps := []string{"path"}
		item.Get("path").ForEach(func(_, pe gjson.Result) bool {
			if pe.Type == gjson.String {
				ps = append(ps, common.L("n", common.QS(pe.String())))
			} else {
				ps = append(ps, common.L("i", common.I(int(pe.Int()))))
			}
			return true
		})
		items = append(items, common.L("e", common.I(errKind(item.Get("message").String())), common.L(ps...)))
		return true
	})
	return items
}

// brokenDataMember cuts the data member out of an output that is not valid JSON as a whole.
func brokenDataMember(out []byte) (data string, errs []string) {
	rest := out
	if bytes.HasPrefix(rest, []byte(`{"errors":`)) {
		dec := json.NewDecoder(bytes.NewReader(rest[len(`{"errors":`):]))
		var arr json.RawMessage
		if dec.Decode(&arr) != nil {
			return "", nil
		}
		rest = rest[len(`{"errors":`)+int(dec.InputOffset()):]
		if !bytes.HasPrefix(rest, []byte(`,"data":`)) {
			return "", nil
		}
		rest = rest[len(`,"data":`):]
		errs = errorItems(gjson.ParseBytes(arr))
	} else if bytes.HasPrefix(rest, []byte(`{"data":`)) {
		rest = rest[len(`{"data":`):]
	} else {
		return "", nil
	}
	if len(rest) == 0 || rest[len(rest)-1] != '}' {
		return "", nil
	}
	return string(rest[:len(rest)-1]), errs
}

func observe(root *plan.Node, payload string, deny map[string]bool, labels []string) string {
	out, pmsg, err := Run(root, payload, deny)
	pv, perr := astjson.Parse(payload)
	if perr != nil {
		return ""
	}
	denyS := []string{"deny"}
	for k, v := range deny {
		if v {
			denyS = append(denyS, common.QS(k))
		}
	}
	valid := json.Valid(out)
	errsS := []string{"errs"}
	dataRaw := ""
	envOK := false
	dtree := "(none)"
	if valid {
		if ov, e := astjson.ParseBytes(out); e == nil {
			dtree = common.L("some", plan.JSONSexp(ov.Get("data")))
		}
		res := gjson.ParseBytes(out)
		dataRaw = res.Get("data").Raw
		errsRaw := ""
		if e := res.Get("errors"); e.Exists() {
			errsRaw = e.Raw
			errsS = append(errsS, errorItems(e)...)
		}
		want := "{"
		if errsRaw != "" {
			want += `"errors":` + errsRaw + ","
		}
		want += `"data":` + dataRaw + "}"
		envOK = want == string(out)
	}
	if !valid && pmsg == "" && err == nil {
		// not JSON: still hand the bytes written for the data member and the errors to the correspondence
		// ({"errors":<valid JSON array>,"data":<bytes>} or {"data":<bytes>})
		var es []string
		dataRaw, es = brokenDataMember(out)
		errsS = append(errsS, es...)
	}
	status := "ok"
	if pmsg != "" {
		status = "panic"
	} else if err != nil {
		status = "error"
	}
	return common.L("c02", root.Sexp(), plan.JSONSexp(pv), common.L(denyS...),
		common.L("out", common.Q(out)), common.L("data", common.QS(dataRaw)), common.L(errsS...),
		common.L("valid", common.B(valid)), common.L("env", common.B(envOK)), common.L("status", status), common.L("dtree", dtree),
		common.L("mut", common.QS(strings.Join(labels, ","))))
}

func main() {
	if len(os.Args) < 2 {
		fmt.Fprintln(os.Stderr, "usage: c02 gen -seed S -n N -out F [-auth 1] [-depth D] [-paths 1 [-overlap 1] [-stats F]] [-tn 1 [-tstats F]]")
		os.Exit(2)
	}
	a := common.Args(os.Args[2:])
	out := common.NewOut(a["out"])
	defer out.Close()
	switch os.Args[1] {
	case "gen":
		r := common.NewRand(common.ArgU64(a, "seed", 1))
		n := common.ArgInt(a, "n", 1000)
		auth := common.ArgInt(a, "auth", 0) == 1
		g := &plan.Gen{R: r, MaxDepth: common.ArgInt(a, "depth", 5), Auth: auth}
		if common.ArgInt(a, "paths", 0) == 1 {
			// data paths of length 0..3 on every node (harness/plan/paths.go)
			g.Paths = true
			g.Overlap = common.ArgInt(a, "overlap", 0) == 1
			g.Stats = &plan.PathStats{}
		}
		if common.ArgInt(a, "tn", 0) == 1 {
			// (TypeName, PossibleTypes) shapes x __typename data kinds, String{IsTypeName:true} leaves (harness/plan/typeshapes.go)
			g.TypeShapes = true
			g.TStats = &plan.TypeStats{}
		}
		defer func() {
			if g.TStats != nil && a["tstats"] != "" {
				b, _ := json.Marshal(g.TStats)
				_ = os.WriteFile(a["tstats"], b, 0o644)
			}
			if g.Stats != nil && a["stats"] != "" {
				b, _ := json.Marshal(g.Stats)
				_ = os.WriteFile(a["stats"], b, 0o644)
			}
		}()
		for i := 0; i < n; {
			tree := g.Tree()
			// several payloads per tree
			k := 1 + r.Pick(4)
			for j := 0; j < k && i < n; j++ {
				payload, labels := g.Payload(tree)
				var deny map[string]bool
				if auth {
					deny = map[string]bool{}
					for _, tn := range []string{"A", "B", "C", "D", "I", "Query", "Z", "X"} {
						for _, fn := range []string{"a", "b", "c", "d", "e", "f", "g"} {
							if r.Chance(1, 3) {
								deny[tn+"."+fn] = true
							}
						}
					}
				}
				if g.Overlap {
					labels = append(labels, "overlap")
				}
				line := observe(tree, payload, deny, labels)
				if line != "" {
					out.Line(line)
					i++
				}
			}
		}
	case "replay":
		// c02 replay -in F -out G : F holds case lines as written by gen; the implementation is re-run
		// on the (tree, payload, deny) of each line
		data, err := os.ReadFile(a["in"])
		if err != nil {
			fmt.Fprintln(os.Stderr, err)
			os.Exit(2)
		}
		for _, line := range strings.Split(string(data), "\n") {
			if strings.TrimSpace(line) == "" {
				continue
			}
			x, err := common.ParseSexp(line)
			if err != nil || x.Head() != "c02" {
				fmt.Fprintln(os.Stderr, "bad case line")
				os.Exit(2)
			}
			tree := plan.FromSexp(x.List[1])
			payload := plan.JSONText(x.List[2])
			var deny map[string]bool
			if len(x.List[3].List) > 1 {
				deny = map[string]bool{}
				for _, d := range x.List[3].List[1:] {
					deny[string(d.Str)] = true
				}
			}
			out.Line(observe(tree, payload, deny, []string{"replay"}))
		}
	}
}
