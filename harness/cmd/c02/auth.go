package main

import "github.com/wundergraph/graphql-go-tools/v2/pkg/engine/resolve"

func setAuthorizer(ctx *resolve.Context, deny map[string]bool) {
	ctx.SetAuthorizer(&authz{deny: deny})
}
