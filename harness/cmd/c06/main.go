package main

import (
	"fmt"
	"os"

	"github.com/wundergraph/graphql-go-tools/execution/graphql"
	"github.com/wundergraph/graphql-go-tools/v2/pkg/astnormalization"
	"github.com/wundergraph/graphql-go-tools/v2/pkg/astvalidation"
	"github.com/wundergraph/graphql-go-tools/v2/pkg/operationreport"
	"github.com/wundergraph/graphql-go-tools/v2/pkg/variablesvalidation"
)

type pipeRes struct {
	stage string // "" ok
	msg   string
	vars  string
}

func pipeline(schema *graphql.Schema, query, vars string, disable bool) (res pipeRes) {
	defer func() {
		if r := recover(); r != nil {
			res = pipeRes{stage: "panic", msg: fmt.Sprint(r)}
		}
	}()
	req := &graphql.Request{Query: query, Variables: []byte(vars)}
	r1, err := req.Normalize(schema,
		astnormalization.WithRemoveFragmentDefinitions(),
		astnormalization.WithRemoveUnusedVariables(),
		astnormalization.WithInlineFragmentSpreads(),
		astnormalization.WithEnableDefer(),
		astnormalization.WithPrevalidationRules(
			astvalidation.DeferStreamOnValidOperations(),
			astvalidation.DeferStreamHaveUniqueLabels(),
			astvalidation.DirectivesAreInValidLocations(),
			astvalidation.StreamAppliedToListFieldsOnly()))
	if err != nil {
		return pipeRes{stage: "norm1", msg: err.Error()}
	} else if !r1.Successful {
		return pipeRes{stage: "norm1", msg: r1.Errors.Error()}
	}
	if r, err := req.ValidateForSchema(schema); err != nil {
		return pipeRes{stage: "validate", msg: err.Error()}
	} else if !r.Valid {
		return pipeRes{stage: "validate", msg: r.Errors.Error()}
	}
	r2, err := req.Normalize(schema, astnormalization.WithExtractVariables())
	if err != nil {
		return pipeRes{stage: "norm2", msg: err.Error()}
	} else if !r2.Successful {
		return pipeRes{stage: "norm2", msg: r2.Errors.Error()}
	}
	var rep operationreport.Report
	remap := astnormalization.NewVariablesMapper().NormalizeOperation(req.Document(), schema.Document(), &rep)
	if rep.HasErrors() {
		return pipeRes{stage: "remap", msg: rep.Error()}
	}
	out := pipeRes{vars: string(req.Variables)}
	if len(req.Variables) > 0 && req.Variables[0] == '{' {
		v := variablesvalidation.NewVariablesValidator(variablesvalidation.VariablesValidatorOptions{DisableExposingVariablesContent: disable})
		if err := v.ValidateWithRemap(req.Document(), schema.Document(), req.Variables, remap); err != nil {
			out.stage = "vars"
			out.msg = err.Error()
		}
	}
	return out
}

func main() {
	if len(os.Args) > 1 && os.Args[1] == "exp" {
		schema, err := graphql.NewSchemaFromString(os.Args[2])
		if err != nil {
			fmt.Println("schema error:", err)
			return
		}
		r := pipeline(schema, os.Args[3], os.Args[4], false)
		fmt.Printf("stage=%q msg=%q vars=%s\n", r.stage, r.msg, r.vars)
		return
	}
}
