// c06: drives the execution engine's variable pipeline (operation normalisation with variable
// processing, variables mapper, variablesvalidation.ValidateWithRemap -- the statements of
// ExecutionEngine.Execute up to the validator) and the bare VariablesValidator on generated
// (schema, operation, variables) triples, and prints per case the inputs as S-expressions in the shape
// of coq/lib/Gql.v / Json.v together with the implementation's observables:
//
//	(c06 (schema T..) (vars V..) (json J)
//	     (direct R)                 bare validator on the raw variables
//	     (pipe STAGE J' R))         engine pipeline: stage reached, normalised variables, verdict
//
// R = (ok) | (err kind "var" "path" "a1" "a2" (msg "...")) with the message classified by its template.
package main

import (
	"bufio"
	"fmt"
	"os"
	"regexp"
	"strconv"
	"strings"

	"gvh/common"

	"github.com/wundergraph/graphql-go-tools/execution/graphql"
	"github.com/wundergraph/graphql-go-tools/v2/pkg/astnormalization"
	"github.com/wundergraph/graphql-go-tools/v2/pkg/astparser"
	"github.com/wundergraph/graphql-go-tools/v2/pkg/astvalidation"
	"github.com/wundergraph/graphql-go-tools/v2/pkg/operationreport"
	"github.com/wundergraph/graphql-go-tools/v2/pkg/variablesvalidation"
)

// ---------------------------------------------------------------- data structures (the generator's own)

type Ty struct {
	K    int // 0 named, 1 list, 2 non-null
	Name string
	Of   *Ty
}

func Named(n string) *Ty { return &Ty{K: 0, Name: n} }
func ListOf(t *Ty) *Ty   { return &Ty{K: 1, Of: t} }
func NonNull(t *Ty) *Ty {
	if t.K == 2 {
		return t
	}
	return &Ty{K: 2, Of: t}
}
func (t *Ty) String() string {
	switch t.K {
	case 0:
		return t.Name
	case 1:
		return "[" + t.Of.String() + "]"
	}
	return t.Of.String() + "!"
}
func (t *Ty) Sexp() string {
	switch t.K {
	case 0:
		return common.L("n", common.QS(t.Name))
	case 1:
		return common.L("l", t.Of.Sexp())
	}
	return common.L("nn", t.Of.Sexp())
}
func (t *Ty) Base() string {
	for t.K != 0 {
		t = t.Of
	}
	return t.Name
}
func (t *Ty) Strip() *Ty {
	for t.K == 2 {
		t = t.Of
	}
	return t
}

// J is a JSON tree that keeps member order and raw number tokens; it also serves as GraphQL literal
// (Enum marks a string that prints as an enum value in SDL).
type J struct {
	K    int // 0 null 1 bool 2 num 3 str 4 arr 5 obj
	B    bool
	S    string // raw number token / string content
	A    []*J
	O    []Member
	Enum bool
}
type Member struct {
	K string
	V *J
}

func jNull() *J           { return &J{K: 0} }
func jBool(b bool) *J     { return &J{K: 1, B: b} }
func jNum(s string) *J    { return &J{K: 2, S: s} }
func jStr(s string) *J    { return &J{K: 3, S: s} }
func jEnum(s string) *J   { return &J{K: 3, S: s, Enum: true} }
func jArr(a ...*J) *J     { return &J{K: 4, A: a} }
func jObj(m ...Member) *J { return &J{K: 5, O: m} }

func jsonQuote(s string) string {
	var sb strings.Builder
	sb.WriteByte('"')
	for i := 0; i < len(s); i++ {
		c := s[i]
		switch {
		case c == '"' || c == '\\':
			sb.WriteByte('\\')
			sb.WriteByte(c)
		case c < 0x20:
			fmt.Fprintf(&sb, "\\u%04x", c)
		default:
			sb.WriteByte(c)
		}
	}
	sb.WriteByte('"')
	return sb.String()
}

func (j *J) JSON() string {
	switch j.K {
	case 0:
		return "null"
	case 1:
		if j.B {
			return "true"
		}
		return "false"
	case 2:
		return j.S
	case 3:
		return jsonQuote(j.S)
	case 4:
		parts := make([]string, len(j.A))
		for i, x := range j.A {
			parts[i] = x.JSON()
		}
		return "[" + strings.Join(parts, ",") + "]"
	}
	parts := make([]string, len(j.O))
	for i, m := range j.O {
		parts[i] = jsonQuote(m.K) + ":" + m.V.JSON()
	}
	return "{" + strings.Join(parts, ",") + "}"
}

func (j *J) Sexp() string {
	switch j.K {
	case 0:
		return "(null)"
	case 1:
		return common.L("b", common.B(j.B))
	case 2:
		return common.L("num", common.QS(j.S))
	case 3:
		return common.L("str", common.QS(j.S))
	case 4:
		parts := []string{"arr"}
		for _, x := range j.A {
			parts = append(parts, x.Sexp())
		}
		return common.L(parts...)
	}
	parts := []string{"obj"}
	for _, m := range j.O {
		parts = append(parts, common.L(common.QS(m.K), m.V.Sexp()))
	}
	return common.L(parts...)
}

// GraphQL literal syntax (defaults in SDL / operation)
func (j *J) GQL() string {
	switch j.K {
	case 3:
		if j.Enum {
			return j.S
		}
		return jsonQuote(j.S)
	case 4:
		parts := make([]string, len(j.A))
		for i, x := range j.A {
			parts[i] = x.GQL()
		}
		return "[" + strings.Join(parts, ", ") + "]"
	case 5:
		parts := make([]string, len(j.O))
		for i, m := range j.O {
			parts[i] = m.K + ": " + m.V.GQL()
		}
		return "{" + strings.Join(parts, ", ") + "}"
	}
	return j.JSON()
}

// as lib/Gql.v value
func (j *J) ValueSexp() string {
	switch j.K {
	case 0:
		return "(vnull)"
	case 1:
		return common.L("vbool", common.B(j.B))
	case 2:
		if strings.ContainsAny(j.S, ".eE") {
			return common.L("vfloat", common.QS(j.S))
		}
		return common.L("vint", common.QS(j.S))
	case 3:
		if j.Enum {
			return common.L("venum", common.QS(j.S))
		}
		return common.L("vstr", common.QS(j.S))
	case 4:
		parts := []string{"vlist"}
		for _, x := range j.A {
			parts = append(parts, x.ValueSexp())
		}
		return common.L(parts...)
	}
	parts := []string{"vobj"}
	for _, m := range j.O {
		parts = append(parts, common.L(common.QS(m.K), m.V.ValueSexp()))
	}
	return common.L(parts...)
}

// minimal JSON reader (order, raw numbers, duplicate keys preserved); input is the engine's output
type jparser struct {
	s     string
	i     int
	enums bool // bare words are enum values (corpus defaults)
}

func (p *jparser) ws() {
	for p.i < len(p.s) && (p.s[p.i] == ' ' || p.s[p.i] == '\t' || p.s[p.i] == '\n' || p.s[p.i] == '\r') {
		p.i++
	}
}
func (p *jparser) str() (string, bool) {
	if p.i >= len(p.s) || p.s[p.i] != '"' {
		return "", false
	}
	p.i++
	var sb strings.Builder
	for p.i < len(p.s) {
		c := p.s[p.i]
		if c == '"' {
			p.i++
			return sb.String(), true
		}
		if c == '\\' && p.i+1 < len(p.s) {
			n := p.s[p.i+1]
			switch n {
			case 'n':
				sb.WriteByte('\n')
			case 't':
				sb.WriteByte('\t')
			case 'r':
				sb.WriteByte('\r')
			case 'b':
				sb.WriteByte('\b')
			case 'f':
				sb.WriteByte('\f')
			case 'u':
				if p.i+5 < len(p.s) {
					v, _ := strconv.ParseUint(p.s[p.i+2:p.i+6], 16, 32)
					sb.WriteRune(rune(v))
					p.i += 4
				}
			default:
				sb.WriteByte(n)
			}
			p.i += 2
			continue
		}
		sb.WriteByte(c)
		p.i++
	}
	return "", false
}
func (p *jparser) val() (*J, bool) {
	p.ws()
	if p.i >= len(p.s) {
		return nil, false
	}
	switch c := p.s[p.i]; {
	case c == '{':
		p.i++
		o := jObj()
		p.ws()
		if p.i < len(p.s) && p.s[p.i] == '}' {
			p.i++
			return o, true
		}
		for {
			p.ws()
			k, ok := p.str()
			if !ok {
				return nil, false
			}
			p.ws()
			if p.i >= len(p.s) || p.s[p.i] != ':' {
				return nil, false
			}
			p.i++
			v, ok := p.val()
			if !ok {
				return nil, false
			}
			o.O = append(o.O, Member{k, v})
			p.ws()
			if p.i < len(p.s) && p.s[p.i] == ',' {
				p.i++
				continue
			}
			if p.i < len(p.s) && p.s[p.i] == '}' {
				p.i++
				return o, true
			}
			return nil, false
		}
	case c == '[':
		p.i++
		a := jArr()
		p.ws()
		if p.i < len(p.s) && p.s[p.i] == ']' {
			p.i++
			return a, true
		}
		for {
			v, ok := p.val()
			if !ok {
				return nil, false
			}
			a.A = append(a.A, v)
			p.ws()
			if p.i < len(p.s) && p.s[p.i] == ',' {
				p.i++
				continue
			}
			if p.i < len(p.s) && p.s[p.i] == ']' {
				p.i++
				return a, true
			}
			return nil, false
		}
	case c == '"':
		s, ok := p.str()
		return jStr(s), ok
	case strings.HasPrefix(p.s[p.i:], "null"):
		p.i += 4
		return jNull(), true
	case strings.HasPrefix(p.s[p.i:], "true"):
		p.i += 4
		return jBool(true), true
	case strings.HasPrefix(p.s[p.i:], "false"):
		p.i += 5
		return jBool(false), true
	default:
		if p.enums && (c == '_' || (c >= 'A' && c <= 'Z') || (c >= 'a' && c <= 'z')) {
			st := p.i
			for p.i < len(p.s) && (p.s[p.i] == '_' || (p.s[p.i] >= 'A' && p.s[p.i] <= 'Z') || (p.s[p.i] >= 'a' && p.s[p.i] <= 'z') || (p.s[p.i] >= '0' && p.s[p.i] <= '9')) {
				p.i++
			}
			return jEnum(p.s[st:p.i]), true
		}
		st := p.i
		for p.i < len(p.s) && strings.IndexByte("+-0123456789.eE", p.s[p.i]) >= 0 {
			p.i++
		}
		if p.i == st {
			return nil, false
		}
		return jNum(p.s[st:p.i]), true
	}
}
func parseJSON(s string) (*J, bool) {
	p := &jparser{s: s}
	v, ok := p.val()
	if !ok {
		return nil, false
	}
	p.ws()
	return v, p.i == len(p.s)
}

type Field struct {
	Name string
	T    *Ty
	Def  *J
}
type EnumVal struct {
	Name         string
	Inaccessible bool
}
type TypeDef struct {
	Kind   string // scalar enum input
	Name   string
	Values []EnumVal
	Fields []Field
	OneOf  bool
}
type Schema struct {
	Types []*TypeDef
}
type VarDef struct {
	Name string
	T    *Ty
	Def  *J
}

func (s *Schema) find(n string) *TypeDef {
	for _, t := range s.Types {
		if t.Name == n {
			return t
		}
	}
	return nil
}

var builtins = []string{"Int", "Float", "String", "Boolean", "ID"}

func isBuiltin(n string) bool {
	for _, b := range builtins {
		if b == n {
			return true
		}
	}
	return false
}

func (s *Schema) SDL(vars []VarDef) string {
	var sb strings.Builder
	for _, t := range s.Types {
		switch t.Kind {
		case "scalar":
			fmt.Fprintf(&sb, "scalar %s\n", t.Name)
		case "enum":
			fmt.Fprintf(&sb, "enum %s {", t.Name)
			for _, v := range t.Values {
				sb.WriteString(" " + v.Name)
				if v.Inaccessible {
					sb.WriteString(" @inaccessible")
				}
			}
			sb.WriteString(" }\n")
		case "input":
			fmt.Fprintf(&sb, "input %s", t.Name)
			if t.OneOf {
				sb.WriteString(" @oneOf")
			}
			sb.WriteString(" {")
			for _, f := range t.Fields {
				fmt.Fprintf(&sb, " %s: %s", f.Name, f.T)
				if f.Def != nil {
					sb.WriteString(" = " + f.Def.GQL())
				}
			}
			sb.WriteString(" }\n")
		}
	}
	sb.WriteString("type Query {")
	for i, v := range vars {
		fmt.Fprintf(&sb, " f%d(a: %s): Int", i, v.T)
	}
	if len(vars) == 0 {
		sb.WriteString(" z: Int")
	}
	sb.WriteString(" }\n")
	return sb.String()
}

func defSexp(d *J) string {
	if d == nil {
		return "(none)"
	}
	return common.L("some", d.ValueSexp())
}

// user types in document order, then the base schema's scalars (appended by the merge)
func (s *Schema) Sexp() string {
	parts := []string{"schema"}
	for _, t := range s.Types {
		switch t.Kind {
		case "scalar":
			parts = append(parts, common.L("scalar", common.QS(t.Name)))
		case "enum":
			p := []string{"enum", common.QS(t.Name)}
			for _, v := range t.Values {
				p = append(p, common.L(common.QS(v.Name), common.B(v.Inaccessible)))
			}
			parts = append(parts, common.L(p...))
		case "input":
			p := []string{"input", common.QS(t.Name), common.B(t.OneOf)}
			for _, f := range t.Fields {
				p = append(p, common.L(common.QS(f.Name), f.T.Sexp(), defSexp(f.Def)))
			}
			parts = append(parts, common.L(p...))
		}
	}
	for _, b := range builtins {
		parts = append(parts, common.L("scalar", common.QS(b)))
	}
	return common.L(parts...)
}

func operationText(vars []VarDef) string {
	var sb strings.Builder
	sb.WriteString("query Q")
	if len(vars) > 0 {
		sb.WriteString("(")
		for i, v := range vars {
			if i > 0 {
				sb.WriteString(", ")
			}
			fmt.Fprintf(&sb, "$%s: %s", v.Name, v.T)
			if v.Def != nil {
				sb.WriteString(" = " + v.Def.GQL())
			}
		}
		sb.WriteString(")")
	}
	sb.WriteString(" {")
	for i, v := range vars {
		fmt.Fprintf(&sb, " f%d(a: $%s)", i, v.Name)
	}
	if len(vars) == 0 {
		sb.WriteString(" z")
	}
	sb.WriteString(" }")
	return sb.String()
}

func varsSexp(vars []VarDef) string {
	parts := []string{"vars"}
	for _, v := range vars {
		parts = append(parts, common.L(common.QS(v.Name), v.T.Sexp(), defSexp(v.Def)))
	}
	return common.L(parts...)
}

// ---------------------------------------------------------------- implementation observables

type pipeRes struct {
	stage string // ok vars norm panic other:<stage>
	msg   string
	vars  string
}

// the statements of ExecutionEngine.Execute up to and including variable validation
func pipeline(schema *graphql.Schema, query, vars string, disable bool) (res pipeRes) {
	defer func() {
		if r := recover(); r != nil {
			res = pipeRes{stage: "panic", msg: fmt.Sprint(r)}
		}
	}()
	req := &graphql.Request{Query: query, Variables: []byte(vars)}
	r1, err := req.Normalize(schema,
		astnormalization.WithRemoveFragmentDefinitions(),
		astnormalization.WithRemoveUnusedVariables(),
		astnormalization.WithInlineFragmentSpreads(),
		astnormalization.WithEnableDefer(),
		astnormalization.WithPrevalidationRules(
			astvalidation.DeferStreamOnValidOperations(),
			astvalidation.DeferStreamHaveUniqueLabels(),
			astvalidation.DirectivesAreDefined(),
			astvalidation.DirectivesAreInValidLocations(),
			astvalidation.DirectivesAreUniquePerLocation(),
			astvalidation.StreamAppliedToListFieldsOnly()))
	if err != nil {
		return pipeRes{stage: "other:norm1", msg: err.Error()}
	} else if !r1.Successful {
		return pipeRes{stage: "other:norm1", msg: r1.Errors.Error()}
	}
	if r, err := req.ValidateForSchema(schema); err != nil {
		return pipeRes{stage: "other:validate", msg: err.Error()}
	} else if !r.Valid {
		return pipeRes{stage: "other:validate", msg: r.Errors.Error()}
	}
	r2, err := req.Normalize(schema, astnormalization.WithExtractVariables())
	if err != nil {
		return pipeRes{stage: "norm", msg: err.Error()}
	} else if !r2.Successful {
		return pipeRes{stage: "norm", msg: r2.Errors.Error()}
	}
	var rep operationreport.Report
	remap := astnormalization.NewVariablesMapper().NormalizeOperation(req.Document(), schema.Document(), &rep)
	if rep.HasErrors() {
		return pipeRes{stage: "other:remap", msg: rep.Error()}
	}
	out := pipeRes{stage: "ok", vars: string(req.Variables)}
	if len(req.Variables) > 0 && req.Variables[0] == '{' {
		v := variablesvalidation.NewVariablesValidator(variablesvalidation.VariablesValidatorOptions{DisableExposingVariablesContent: disable})
		if err := v.ValidateWithRemap(req.Document(), schema.Document(), req.Variables, remap); err != nil {
			out.stage = "vars"
			out.msg = err.Error()
		}
	}
	return out
}

// the bare validator on the raw variables (no normalisation)
func direct(schema *graphql.Schema, query, vars string, disable bool) (ok bool, msg string) {
	defer func() {
		if r := recover(); r != nil {
			ok, msg = false, "panic: "+fmt.Sprint(r)
		}
	}()
	op, rep := astparser.ParseGraphqlDocumentString(query)
	if rep.HasErrors() {
		return false, "parse: " + rep.Error()
	}
	op.Input.Variables = []byte(vars)
	v := variablesvalidation.NewVariablesValidator(variablesvalidation.VariablesValidatorOptions{DisableExposingVariablesContent: disable})
	if err := v.Validate(&op, schema.Document(), op.Input.Variables); err != nil {
		return false, err.Error()
	}
	return true, ""
}

// classification of a message by its template (DisableExposingVariablesContent = true)
type tmpl struct {
	kind string
	re   *regexp.Regexp
	// group indexes: var, path (0 = none), a1, a2
	v, p, a1, a2 int
}

const nm = `([^"]*)`

var templates = []tmpl{
	{"var_required", regexp.MustCompile(`^Variable "\$` + nm + `" of required type "` + nm + `" was not provided\.$`), 1, 0, 2, 0},
	{"var_null", regexp.MustCompile(`^Variable "\$` + nm + `" got invalid value null; Expected non-nullable type "` + nm + `" not to be null\.$`), 1, 0, 2, 0},
	{"not_object", regexp.MustCompile(`^Variable "\$` + nm + `" got invalid value; Expected type "` + nm + `" to be an object\.$`), 1, 0, 2, 0},
	{"field_required", regexp.MustCompile(`^Variable "\$` + nm + `" got invalid value; Field "` + nm + `" of required type "` + nm + `" was not provided\.$`), 1, 0, 2, 3},
	{"scalar", regexp.MustCompile(`^Variable "\$` + nm + `" got invalid value(?: at "` + nm + `")?; (String|Int|Float|Boolean|ID) cannot represent (?:a non string|non-integer|non numeric|a non boolean|a non-string and non-integer) value$`), 1, 2, 3, 0},
	{"want_list", regexp.MustCompile(`^Variable "\$` + nm + `" got invalid value(?: at "` + nm + `")?; Got input type "` + nm + `", want: "\[` + nm + `\]"$`), 1, 2, 3, 4},
	{"enum_nonstring", regexp.MustCompile(`^Variable "\$` + nm + `" got invalid value(?: at "` + nm + `")?; Enum "` + nm + `" cannot represent non-string value\.$`), 1, 2, 3, 0},
	{"unknown_field", regexp.MustCompile(`^Variable "\$` + nm + `" got invalid value at "` + nm + `"; Field "` + nm + `" is not defined by type "` + nm + `"\.$`), 1, 2, 3, 4},
	{"enum_value", regexp.MustCompile(`^Variable "\$` + nm + `" got invalid value(?: at "` + nm + `")?; Value does not exist in "` + nm + `" enum\.$`), 1, 2, 3, 0},
	{"oneof_count", regexp.MustCompile(`^Variable "\$` + nm + `" got invalid value(?: at "` + nm + `")?; OneOf input object "` + nm + `" must have exactly one field provided, but (\d+) fields were provided\.$`), 1, 2, 3, 4},
	{"oneof_null", regexp.MustCompile(`^Variable "\$` + nm + `" got invalid value(?: at "` + nm + `")?; OneOf input object "` + nm + `" field "` + nm + `" value must be non-null\.$`), 1, 2, 3, 4},
}

func classify(msg string) string {
	for _, t := range templates {
		m := t.re.FindStringSubmatch(msg)
		if m == nil {
			continue
		}
		g := func(i int) string {
			if i == 0 {
				return ""
			}
			return m[i]
		}
		if t.kind == "want_list" && g(t.a1) != g(t.a2) {
			continue
		}
		a2 := g(t.a2)
		if t.kind == "want_list" {
			a2 = ""
		}
		return common.L("err", t.kind, common.QS(g(t.v)), common.QS(g(t.p)), common.QS(g(t.a1)), common.QS(a2), common.L("msg", common.QS(msg)))
	}
	return common.L("err", "unclassified", common.QS(""), common.QS(""), common.QS(""), common.QS(""), common.L("msg", common.QS(msg)))
}

func verdictSexp(ok bool, msg string) string {
	if ok {
		return "(ok)"
	}
	return classify(msg)
}

type caseT struct {
	schema *Schema
	vars   []VarDef
	json   *J
	note   string
}

// runCase returns the case line, or "" with a reason when the case never reached the variables stage
func runCase(c *caseT, cache map[string]*graphql.Schema) (string, string) {
	sdl := c.schema.SDL(c.vars)
	gs, ok := cache[sdl]
	if !ok {
		var err error
		gs, err = graphql.NewSchemaFromString(sdl)
		if err != nil {
			return "", "schema: " + err.Error()
		}
		if len(cache) > 64 {
			for k := range cache {
				delete(cache, k)
			}
		}
		cache[sdl] = gs
	}
	op := operationText(c.vars)
	vj := c.json.JSON()
	dok, dmsg := direct(gs, op, vj, true)
	dok2, _ := direct(gs, op, vj, false)
	p := pipeline(gs, op, vj, true)
	p2 := pipeline(gs, op, vj, false)
	if strings.HasPrefix(p.stage, "other:") {
		return "", p.stage + ": " + p.msg + " | " + op + " | " + sdl
	}
	modes := "same"
	if dok != dok2 || p.stage != p2.stage || p.vars != p2.vars {
		modes = "differ"
	}
	norm := "(none)"
	if p.stage == "ok" || p.stage == "vars" {
		if t, ok := parseJSON(p.vars); ok {
			norm = t.Sexp()
		} else {
			norm = common.L("unparsed", common.QS(p.vars))
		}
	}
	pv := "(ok)"
	switch p.stage {
	case "vars":
		pv = classify(p.msg)
	case "norm", "panic":
		pv = common.L("fail", common.QS(p.msg))
	}
	line := common.L("c06", c.schema.Sexp(), varsSexp(c.vars), common.L("json", c.json.Sexp()),
		common.L("direct", verdictSexp(dok, dmsg)),
		common.L("pipe", p.stage, norm, pv),
		common.L("modes", modes), common.L("note", common.QS(c.note)))
	return line, ""
}

// ---------------------------------------------------------------- generator

type gen struct {
	r      *common.Rand
	s      *Schema
	budget int      // mutations still allowed in the current value
	muts   []string // mutations applied
}

var strPool = []string{"abc", "s0", "A", "B", "C", "x y"}
var reparsePool = []string{"{}", "null", "5", "[]", "true"}

func (g *gen) genSchema() {
	r := g.r
	s := &Schema{}
	g.s = s
	s.Types = append(s.Types, &TypeDef{Kind: "scalar", Name: "JSON"})
	withUpload := r.Chance(1, 4)
	if withUpload {
		s.Types = append(s.Types, &TypeDef{Kind: "scalar", Name: "Upload"})
	}
	nEnum := 1 + r.Pick(2)
	nIn := r.Pick(5)
	// interleave enums and inputs in document order
	var order []string
	for i := 0; i < nEnum; i++ {
		order = append(order, fmt.Sprintf("E%d", i))
	}
	for i := 0; i < nIn; i++ {
		order = append(order, fmt.Sprintf("In%d", i))
	}
	r.Shuffle(len(order), func(i, j int) { order[i], order[j] = order[j], order[i] })
	for _, n := range order {
		if n[0] == 'E' {
			td := &TypeDef{Kind: "enum", Name: n}
			td.Values = []EnumVal{{"A", false}, {"B", r.Chance(1, 2)}}
			if r.Chance(1, 2) {
				td.Values = append(td.Values, EnumVal{"C", r.Chance(1, 3)})
			}
			s.Types = append(s.Types, td)
		} else {
			s.Types = append(s.Types, &TypeDef{Kind: "input", Name: n})
		}
	}
	// fields; defaults only reference lower-numbered inputs so that default injection terminates
	for idx := 0; idx < nIn; idx++ {
		td := s.find(fmt.Sprintf("In%d", idx))
		td.OneOf = r.Chance(1, 6)
		nf := 1 + r.Pick(4)
		for k := 0; k < nf; k++ {
			f := Field{Name: string(rune('a' + k))}
			f.T = g.genType(nIn, idx, td.OneOf, 3)
			if !td.OneOf && r.Chance(1, 3) {
				f.Def = g.genDefault(f.T, idx)
			}
			td.Fields = append(td.Fields, f)
		}
	}
}

// a type for a field of In<self>; recursion through a non-null, non-list reference is avoided
func (g *gen) genType(nIn, self int, oneOf bool, depth int) *Ty {
	r := g.r
	var base *Ty
	switch k := r.Pick(12); {
	case k < 5:
		base = Named(builtins[r.Pick(len(builtins))])
	case k == 5:
		base = Named("JSON")
	case k == 6 && g.s.find("Upload") != nil:
		base = Named("Upload")
	case k < 9:
		base = Named(fmt.Sprintf("E%d", r.Pick(g.countKind("enum"))))
	default:
		if nIn == 0 {
			base = Named("Int")
		} else {
			base = Named(fmt.Sprintf("In%d", r.Pick(nIn)))
		}
	}
	t := base
	isIn := strings.HasPrefix(base.Name, "In")
	inner := false
	if r.Chance(1, 3) && !(isIn && self >= 0) {
		t = NonNull(t)
		inner = true
	}
	_ = inner
	lists := 0
	switch k := r.Pick(10); {
	case k < 5:
		lists = 0
	case k < 8:
		lists = 1
	case k < 9:
		lists = 2
	default:
		lists = 3
	}
	if lists > depth {
		lists = depth
	}
	for i := 0; i < lists; i++ {
		t = ListOf(t)
		if r.Chance(1, 3) && i < lists-1 {
			t = NonNull(t)
		}
	}
	if !oneOf && r.Chance(1, 3) && !(isIn && lists == 0 && self >= 0) {
		t = NonNull(t)
	}
	return t
}

func (g *gen) countKind(k string) int {
	n := 0
	for _, t := range g.s.Types {
		if t.Kind == k {
			n++
		}
	}
	return n
}

// a literal that is valid for t by construction, with full list nesting; below restricts input object references
func (g *gen) genDefault(t *Ty, below int) *J {
	r := g.r
	switch t.K {
	case 2:
		return g.genDefault(t.Of, below)
	case 1:
		if r.Chance(1, 8) && t.Of.K != 2 {
			return jArr(jNull())
		}
		n := r.Pick(3)
		a := jArr()
		for i := 0; i < n; i++ {
			x := g.genDefault(t.Of, below)
			if x == nil {
				return nil
			}
			a.A = append(a.A, x)
		}
		return a
	}
	switch t.Name {
	case "Int":
		return jNum(common.PickOf(r, []string{"0", "1", "42", "-7"}))
	case "Float":
		return jNum(common.PickOf(r, []string{"1.5", "2", "0.25"}))
	case "String":
		return jStr(common.PickOf(r, []string{"abc", "d"}))
	case "Boolean":
		return jBool(r.Chance(1, 2))
	case "ID":
		return jStr("id1")
	case "JSON", "Upload":
		return jStr("up")
	}
	td := g.s.find(t.Name)
	if td == nil {
		return nil
	}
	if td.Kind == "enum" {
		for _, v := range td.Values {
			if !v.Inaccessible {
				return jEnum(v.Name)
			}
		}
		return nil
	}
	// input object: only earlier ones, to keep defaults acyclic
	var idx int
	fmt.Sscanf(td.Name, "In%d", &idx)
	if idx >= below || td.OneOf {
		return nil
	}
	o := jObj()
	for _, f := range td.Fields {
		if f.T.K == 2 && f.Def == nil {
			x := g.genDefault(f.T, idx)
			if x == nil {
				return nil
			}
			o.O = append(o.O, Member{f.Name, x})
		} else if r.Chance(1, 3) {
			x := g.genDefault(f.T, idx)
			if x != nil {
				o.O = append(o.O, Member{f.Name, x})
			}
		}
	}
	return o
}

func (g *gen) mutate() bool {
	if g.budget > 0 && g.r.Chance(1, 4) {
		g.budget--
		return true
	}
	return false
}
func (g *gen) note(m string) { g.muts = append(g.muts, m) }

var badInts = []string{"1.5", "1e100", "2147483648", "-2147483649", "9999999999999999999999", "-0.5", "3e2"}

// a value for type t: valid by construction, with mutations applied while the budget lasts.
// returns nil for "absent" (only meaningful for object fields / variables).
func (g *gen) genValue(t *Ty, depth int, hasDef bool, canAbsent bool) *J {
	return g.genValueN(t, depth, hasDef, canAbsent, true)
}

// naturalNull: the position is nullable, so a null may be produced without it being a mutation
func (g *gen) genValueN(t *Ty, depth int, hasDef bool, canAbsent bool, naturalNull bool) *J {
	r := g.r
	if g.mutate() {
		switch r.Pick(3) {
		case 0:
			g.note("null")
			return jNull()
		case 1:
			if canAbsent {
				g.note("absent")
				return nil
			}
		}
		g.budget++ // fall through to the type specific mutations below
	}
	if t.K == 2 {
		return g.genValueN(t.Of, depth, false, false, false)
	}
	// nullable position
	if canAbsent && r.Chance(1, 4) {
		return nil
	}
	if naturalNull && r.Chance(1, 8) {
		return jNull()
	}
	if t.K == 1 {
		if g.mutate() {
			switch r.Pick(4) {
			case 0:
				g.note("single-for-list")
				return g.genValue(t.Of, depth, false, false)
			case 1:
				g.note("extra-nesting")
				return jArr(jArr(g.genValue(t.Of, depth, false, false)))
			case 2:
				g.note("object-for-list")
				return jObj(Member{"a", jNum("1")})
			default:
				g.note("null-element")
				x := g.genValue(t.Of, depth, false, false)
				if x == nil {
					x = jNull()
				}
				if r.Chance(1, 2) {
					return jArr(jNull(), x)
				}
				return jArr(x, jNull())
			}
		}
		n := r.Pick(4)
		if depth <= 0 {
			n = 0
		}
		a := jArr()
		for i := 0; i < n; i++ {
			x := g.genValue(t.Of, depth-1, false, false)
			if x == nil {
				x = jNull()
			}
			a.A = append(a.A, x)
		}
		return a
	}
	return g.genNamed(t.Name, depth)
}

func (g *gen) wrongKind(avoid int) *J {
	r := g.r
	for {
		var x *J
		switch r.Pick(6) {
		case 0:
			x = jNum(common.PickOf(r, []string{"5", "0", "1.5"}))
		case 1:
			x = jStr(common.PickOf(r, strPool))
		case 2:
			x = jBool(r.Chance(1, 2))
		case 3:
			x = jObj()
			if r.Chance(1, 2) {
				x.O = append(x.O, Member{"a", jNum("1")})
			}
		case 4:
			x = jArr()
			if r.Chance(1, 2) {
				x.A = append(x.A, jNum("1"))
			}
		default:
			x = jStr(common.PickOf(r, reparsePool))
		}
		if x.K != avoid {
			return x
		}
	}
}

func (g *gen) genNamed(name string, depth int) *J {
	r := g.r
	switch name {
	case "Int":
		if g.mutate() {
			if r.Chance(2, 3) {
				g.note("bad-int")
				return jNum(common.PickOf(r, badInts))
			}
			g.note("wrong-kind")
			return g.wrongKind(2)
		}
		return jNum(common.PickOf(r, []string{"0", "1", "-5", "2147483647", "-2147483648", "77"}))
	case "Float":
		if g.mutate() {
			g.note("wrong-kind")
			return g.wrongKind(2)
		}
		return jNum(common.PickOf(r, []string{"0", "1.5", "-2.25", "1e10", "3"}))
	case "String":
		if g.mutate() {
			g.note("wrong-kind")
			return g.wrongKind(3)
		}
		return jStr(common.PickOf(r, strPool))
	case "Boolean":
		if g.mutate() {
			g.note("wrong-kind")
			return g.wrongKind(1)
		}
		return jBool(r.Chance(1, 2))
	case "ID":
		if g.mutate() {
			if r.Chance(1, 2) {
				g.note("bad-id")
				return jNum(common.PickOf(r, []string{"1.5", "1e3", "-0.5"}))
			}
			g.note("wrong-kind")
			return g.wrongKind(3)
		}
		if r.Chance(1, 2) {
			return jNum(common.PickOf(r, []string{"7", "123456789012345678901"}))
		}
		return jStr("id7")
	case "JSON", "Upload":
		return g.wrongKind(-1)
	}
	td := g.s.find(name)
	if td == nil {
		return jNull()
	}
	if td.Kind == "enum" {
		if g.mutate() {
			switch r.Pick(3) {
			case 0:
				for _, v := range td.Values {
					if v.Inaccessible {
						g.note("inaccessible-enum")
						return jStr(v.Name)
					}
				}
				fallthrough
			case 1:
				g.note("unknown-enum")
				return jStr("ZZ")
			default:
				g.note("wrong-kind")
				return g.wrongKind(3)
			}
		}
		var ok []string
		for _, v := range td.Values {
			if !v.Inaccessible {
				ok = append(ok, v.Name)
			}
		}
		return jStr(common.PickOf(r, ok))
	}
	// input object
	if g.mutate() {
		g.note("wrong-kind")
		return g.wrongKind(5)
	}
	o := jObj()
	if td.OneOf {
		if depth <= 0 {
			g.note("depth-cut")
			return o
		}
		f := td.Fields[r.Pick(len(td.Fields))]
		v := g.genValue(f.T, depth-1, false, false)
		if v == nil || v.K == 0 {
			v = g.genValue(f.T.Strip(), depth-1, false, false)
		}
		if v == nil {
			v = jNull()
		}
		o.O = append(o.O, Member{f.Name, v})
		if g.mutate() {
			switch r.Pick(3) {
			case 0:
				g.note("oneof-two")
				f2 := td.Fields[r.Pick(len(td.Fields))]
				if f2.Name != f.Name {
					v2 := g.genValue(f2.T, depth-1, false, false)
					if v2 == nil {
						v2 = jNull()
					}
					o.O = append(o.O, Member{f2.Name, v2})
				} else {
					o.O = append(o.O, Member{"zz", jNum("1")})
				}
			case 1:
				g.note("oneof-none")
				o.O = nil
			default:
				g.note("oneof-null")
				o.O[0].V = jNull()
			}
		}
		return o
	}
	for _, f := range td.Fields {
		if depth <= 0 && f.T.K != 2 {
			continue
		}
		canAbsent := f.T.K != 2 || f.Def != nil
		v := g.genValue(f.T, depth-1, f.Def != nil, canAbsent)
		if v == nil {
			continue
		}
		o.O = append(o.O, Member{f.Name, v})
	}
	if g.mutate() {
		g.note("unknown-key")
		k := common.PickOf(r, []string{"zz", "secretKey123", "A", "In0"})
		pos := r.Pick(len(o.O) + 1)
		o.O = append(o.O[:pos], append([]Member{{k, jNum("1")}}, o.O[pos:]...)...)
	}
	if g.mutate() && len(o.O) > 0 {
		g.note("drop-field")
		pos := r.Pick(len(o.O))
		o.O = append(o.O[:pos], o.O[pos+1:]...)
	}
	return o
}

func hasNull(j *J) bool {
	switch j.K {
	case 0:
		return true
	case 4:
		for _, x := range j.A {
			if hasNull(x) {
				return true
			}
		}
	case 5:
		for _, m := range j.O {
			if hasNull(m.V) {
				return true
			}
		}
	}
	return false
}

func depthOf(t *Ty) int {
	n := 0
	for t.K != 0 {
		n++
		t = t.Of
	}
	return n
}

func (g *gen) genVars() []VarDef {
	r := g.r
	nv := 1 + r.Pick(3)
	var vars []VarDef
	nIn := g.countKind("input")
	names := []string{"x", "y", "z"}
	if r.Chance(1, 5) {
		// names that collide with what the variables mapper generates
		names = []string{"a", "b", "c"}
		r.Shuffle(3, func(i, j int) { names[i], names[j] = names[j], names[i] })
	}
	for i := 0; i < nv; i++ {
		t := g.genType(nIn, -1, false, 3)
		v := VarDef{Name: names[i], T: t}
		if r.Chance(1, 3) {
			if t.K == 1 && r.Chance(1, 4) {
				v.Def = jNull()
			} else if t.Strip().K == 1 && r.Chance(1, 3) {
				// a default that needs list coercion: 1..depth of the list levels are left out
				inner := t
				for k := 1 + r.Pick(3); k > 0 && inner.Strip().K == 1; k-- {
					inner = inner.Strip().Of
				}
				v.Def = g.genDefault(inner, nIn)
				// an array is read at the OUTER list levels: a null in it could meet a non-null element type
				if v.Def != nil && (v.Def.K == 0 || (v.Def.K == 4 && hasNull(v.Def))) {
					v.Def = g.genDefault(t, nIn)
				}
			} else {
				v.Def = g.genDefault(t, nIn)
			}
		}
		vars = append(vars, v)
	}
	return vars
}

func (g *gen) genJSON(vars []VarDef) *J {
	r := g.r
	g.muts = nil
	switch k := r.Pick(20); {
	case k < 5:
		g.budget = 0
	case k < 14:
		g.budget = 1
	case k < 18:
		g.budget = 2
	default:
		g.budget = 3
	}
	o := jObj()
	for _, v := range vars {
		canAbsent := v.T.K != 2 || v.Def != nil
		x := g.genValue(v.T, 4, v.Def != nil, canAbsent)
		if x == nil {
			continue
		}
		o.O = append(o.O, Member{v.Name, x})
	}
	if r.Chance(1, 30) {
		o.O = append(o.O, Member{"unused", jNum("1")})
	}
	return o
}

// the malformed stream: values unrelated to the declared type
func (g *gen) randomJSON(depth int) *J {
	r := g.r
	switch k := r.Pick(9); {
	case k == 0:
		return jNull()
	case k == 1:
		return jBool(r.Chance(1, 2))
	case k == 2:
		return jNum(common.PickOf(r, append([]string{"0", "7"}, badInts...)))
	case k == 3:
		return jStr(common.PickOf(r, append(strPool, reparsePool...)))
	case k < 6 && depth > 0:
		a := jArr()
		for i := r.Pick(3); i > 0; i-- {
			a.A = append(a.A, g.randomJSON(depth-1))
		}
		return a
	case depth > 0:
		o := jObj()
		used := map[string]bool{}
		for i := r.Pick(4); i > 0; i-- {
			k := common.PickOf(r, []string{"a", "b", "c", "d", "zz"})
			if used[k] {
				continue
			}
			used[k] = true
			o.O = append(o.O, Member{k, g.randomJSON(depth - 1)})
		}
		return o
	}
	return jNum("1")
}

func genAll(seed uint64, n int, out *common.Out) {
	r := common.NewRand(seed)
	g := &gen{r: r}
	cache := map[string]*graphql.Schema{}
	emitted, skipped := 0, 0
	var skipReasons []string
	for emitted < n {
		g.genSchema()
		for k := 0; k < 4 && emitted < n; k++ {
			vars := g.genVars()
			for m := 0; m < 4 && emitted < n; m++ {
				var j *J
				note := ""
				if r.Chance(1, 12) {
					j = jObj()
					for _, v := range vars {
						if r.Chance(3, 4) {
							j.O = append(j.O, Member{v.Name, g.randomJSON(3)})
						}
					}
					note = "malformed"
				} else {
					j = g.genJSON(vars)
					note = strings.Join(g.muts, "+")
				}
				line, why := runCase(&caseT{schema: g.s, vars: vars, json: j, note: note}, cache)
				if line == "" {
					skipped++
					if len(skipReasons) < 5 {
						skipReasons = append(skipReasons, why)
					}
					if skipped > n/2+50 {
						fmt.Fprintln(os.Stderr, "too many skipped cases:", skipReasons)
						os.Exit(3)
					}
					break
				}
				out.Line(line)
				emitted++
			}
		}
	}
	fmt.Fprintf(os.Stderr, "emitted=%d skipped=%d\n", emitted, skipped)
	for _, s := range skipReasons {
		fmt.Fprintln(os.Stderr, "skip:", s)
	}
}

// ---------------------------------------------------------------- corpus: SDL-free textual cases
// corpus line:  <types> ;; <vars> ;; <json>
//   types: space separated  scalar:Name | enum:Name:A,B!,C  (! = inaccessible) | input:Name[@oneOf]:f=Type[=default-json],...
//   vars:  x=Type[=default-json] ...
// default-json is JSON where a bare word stands for an enum value.

func parseTy(s string) *Ty {
	s = strings.TrimSpace(s)
	if strings.HasSuffix(s, "!") {
		return NonNull(parseTy(s[:len(s)-1]))
	}
	if strings.HasPrefix(s, "[") && strings.HasSuffix(s, "]") {
		return ListOf(parseTy(s[1 : len(s)-1]))
	}
	return Named(s)
}

func parseDefault(s string) *J {
	p := &jparser{s: s, enums: true}
	v, ok := p.val()
	if !ok || p.i != len(p.s) {
		fmt.Fprintln(os.Stderr, "corpus: bad default", s)
		os.Exit(2)
	}
	return v
}

// split on sep at bracket depth 0
func splitTop(s string, sep byte) []string {
	var out []string
	depth, st := 0, 0
	inStr := false
	for i := 0; i < len(s); i++ {
		c := s[i]
		if inStr {
			if c == '\\' {
				i++
			} else if c == '"' {
				inStr = false
			}
			continue
		}
		switch c {
		case '"':
			inStr = true
		case '[', '{':
			depth++
		case ']', '}':
			depth--
		default:
			if c == sep && depth == 0 {
				out = append(out, s[st:i])
				st = i + 1
			}
		}
	}
	return append(out, s[st:])
}

func parseFieldSpec(s string) (string, *Ty, *J) {
	eq := strings.IndexByte(s, '=')
	name := s[:eq]
	rest := s[eq+1:]
	parts := splitTop(rest, '=')
	t := parseTy(parts[0])
	var d *J
	if len(parts) > 1 {
		d = parseDefault(strings.Join(parts[1:], "="))
	}
	return name, t, d
}

func parseCorpusLine(line string) (*caseT, error) {
	secs := strings.Split(line, ";;")
	if len(secs) != 3 {
		return nil, fmt.Errorf("want 3 sections")
	}
	s := &Schema{}
	for _, tok := range strings.Fields(secs[0]) {
		p := strings.SplitN(tok, ":", 3)
		switch p[0] {
		case "scalar":
			s.Types = append(s.Types, &TypeDef{Kind: "scalar", Name: p[1]})
		case "enum":
			td := &TypeDef{Kind: "enum", Name: p[1]}
			for _, v := range strings.Split(p[2], ",") {
				if strings.HasSuffix(v, "!") {
					td.Values = append(td.Values, EnumVal{v[:len(v)-1], true})
				} else {
					td.Values = append(td.Values, EnumVal{v, false})
				}
			}
			s.Types = append(s.Types, td)
		case "input":
			td := &TypeDef{Kind: "input", Name: strings.TrimSuffix(p[1], "@oneOf"), OneOf: strings.HasSuffix(p[1], "@oneOf")}
			for _, fs := range splitTop(p[2], ',') {
				n, t, d := parseFieldSpec(fs)
				td.Fields = append(td.Fields, Field{n, t, d})
			}
			s.Types = append(s.Types, td)
		default:
			return nil, fmt.Errorf("type token %q", tok)
		}
	}
	var vars []VarDef
	for _, tok := range strings.Fields(secs[1]) {
		n, t, d := parseFieldSpec(tok)
		vars = append(vars, VarDef{n, t, d})
	}
	j, ok := parseJSON(strings.TrimSpace(secs[2]))
	if !ok {
		return nil, fmt.Errorf("bad json")
	}
	return &caseT{schema: s, vars: vars, json: j, note: "corpus"}, nil
}

func runCorpus(in string, out *common.Out) {
	f, err := os.Open(in)
	if err != nil {
		fmt.Fprintln(os.Stderr, err)
		os.Exit(2)
	}
	defer f.Close()
	sc := bufio.NewScanner(f)
	sc.Buffer(make([]byte, 1<<20), 1<<24)
	cache := map[string]*graphql.Schema{}
	for sc.Scan() {
		line := strings.TrimSpace(sc.Text())
		if line == "" || strings.HasPrefix(line, "#") {
			continue
		}
		c, err := parseCorpusLine(line)
		if err != nil {
			fmt.Fprintln(os.Stderr, "corpus line:", err, line)
			os.Exit(2)
		}
		l, why := runCase(c, cache)
		if l == "" {
			fmt.Fprintln(os.Stderr, "corpus case did not reach the variables stage:", why)
			os.Exit(2)
		}
		out.Line(l)
	}
}

// ---------------------------------------------------------------- replay: a case line back into a case

type sx struct {
	atom string
	str  bool
	list []*sx
}

func parseSx(s string) (*sx, error) {
	i := 0
	var item func() (*sx, error)
	ws := func() {
		for i < len(s) && (s[i] == ' ' || s[i] == '\t' || s[i] == '\n') {
			i++
		}
	}
	item = func() (*sx, error) {
		ws()
		if i >= len(s) {
			return nil, fmt.Errorf("eof")
		}
		switch s[i] {
		case '(':
			i++
			n := &sx{list: []*sx{}}
			for {
				ws()
				if i >= len(s) {
					return nil, fmt.Errorf("eof in list")
				}
				if s[i] == ')' {
					i++
					return n, nil
				}
				x, err := item()
				if err != nil {
					return nil, err
				}
				n.list = append(n.list, x)
			}
		case '"':
			i++
			var sb strings.Builder
			for i < len(s) && s[i] != '"' {
				if s[i] == '\\' && i+2 < len(s) {
					v, _ := strconv.ParseUint(s[i+1:i+3], 16, 8)
					sb.WriteByte(byte(v))
					i += 3
					continue
				}
				sb.WriteByte(s[i])
				i++
			}
			i++
			return &sx{atom: sb.String(), str: true}, nil
		}
		st := i
		for i < len(s) && s[i] != ' ' && s[i] != '(' && s[i] != ')' && s[i] != '"' {
			i++
		}
		return &sx{atom: s[st:i]}, nil
	}
	return item()
}

func (x *sx) head() string {
	if x.list != nil && len(x.list) > 0 {
		return x.list[0].atom
	}
	return ""
}

func tyOfSx(x *sx) *Ty {
	switch x.head() {
	case "n":
		return Named(x.list[1].atom)
	case "l":
		return ListOf(tyOfSx(x.list[1]))
	}
	return &Ty{K: 2, Of: tyOfSx(x.list[1])}
}

func valueOfSx(x *sx) *J {
	switch x.head() {
	case "vnull":
		return jNull()
	case "vbool":
		return jBool(x.list[1].atom == "t")
	case "vint", "vfloat":
		return jNum(x.list[1].atom)
	case "vstr":
		return jStr(x.list[1].atom)
	case "venum":
		return jEnum(x.list[1].atom)
	case "vlist":
		a := jArr()
		for _, y := range x.list[1:] {
			a.A = append(a.A, valueOfSx(y))
		}
		return a
	}
	o := jObj()
	for _, m := range x.list[1:] {
		o.O = append(o.O, Member{m.list[0].atom, valueOfSx(m.list[1])})
	}
	return o
}

func defaultOfSx(x *sx) *J {
	if x.head() == "none" {
		return nil
	}
	return valueOfSx(x.list[1])
}

func jsonOfSx(x *sx) *J {
	switch x.head() {
	case "null":
		return jNull()
	case "b":
		return jBool(x.list[1].atom == "t")
	case "num":
		return jNum(x.list[1].atom)
	case "str":
		return jStr(x.list[1].atom)
	case "arr":
		a := jArr()
		for _, y := range x.list[1:] {
			a.A = append(a.A, jsonOfSx(y))
		}
		return a
	}
	o := jObj()
	for _, m := range x.list[1:] {
		o.O = append(o.O, Member{m.list[0].atom, jsonOfSx(m.list[1])})
	}
	return o
}

func caseOfLine(line string) (*caseT, error) {
	x, err := parseSx(line)
	if err != nil {
		return nil, err
	}
	if x.head() != "c06" || len(x.list) < 4 {
		return nil, fmt.Errorf("not a c06 case")
	}
	s := &Schema{}
	for _, t := range x.list[1].list[1:] {
		switch t.head() {
		case "scalar":
			if !isBuiltin(t.list[1].atom) {
				s.Types = append(s.Types, &TypeDef{Kind: "scalar", Name: t.list[1].atom})
			}
		case "enum":
			td := &TypeDef{Kind: "enum", Name: t.list[1].atom}
			for _, v := range t.list[2:] {
				td.Values = append(td.Values, EnumVal{v.list[0].atom, v.list[1].atom == "t"})
			}
			s.Types = append(s.Types, td)
		case "input":
			td := &TypeDef{Kind: "input", Name: t.list[1].atom, OneOf: t.list[2].atom == "t"}
			for _, f := range t.list[3:] {
				td.Fields = append(td.Fields, Field{f.list[0].atom, tyOfSx(f.list[1]), defaultOfSx(f.list[2])})
			}
			s.Types = append(s.Types, td)
		}
	}
	var vars []VarDef
	for _, v := range x.list[2].list[1:] {
		vars = append(vars, VarDef{v.list[0].atom, tyOfSx(v.list[1]), defaultOfSx(v.list[2])})
	}
	return &caseT{schema: s, vars: vars, json: jsonOfSx(x.list[3].list[1]), note: "replay"}, nil
}

// replay: re-executes the inputs of recorded case lines on the current implementation
func runReplay(in string, out *common.Out) {
	f, err := os.Open(in)
	if err != nil {
		fmt.Fprintln(os.Stderr, err)
		os.Exit(2)
	}
	defer f.Close()
	sc := bufio.NewScanner(f)
	sc.Buffer(make([]byte, 1<<20), 1<<26)
	cache := map[string]*graphql.Schema{}
	for sc.Scan() {
		line := strings.TrimSpace(sc.Text())
		if line == "" {
			continue
		}
		c, err := caseOfLine(line)
		if err != nil {
			fmt.Fprintln(os.Stderr, "replay:", err)
			os.Exit(2)
		}
		l, why := runCase(c, cache)
		if l == "" {
			fmt.Fprintln(os.Stderr, "replayed case did not reach the variables stage:", why)
			os.Exit(2)
		}
		out.Line(l)
	}
}

func main() {
	if len(os.Args) < 2 {
		fmt.Fprintln(os.Stderr, "usage: c06 gen -seed S -n N -out F | corpus -in F -out F | exp SDL OP VARS")
		os.Exit(2)
	}
	switch os.Args[1] {
	case "exp":
		schema, err := graphql.NewSchemaFromString(os.Args[2])
		if err != nil {
			fmt.Println("schema error:", err)
			return
		}
		r := pipeline(schema, os.Args[3], os.Args[4], false)
		fmt.Printf("stage=%q msg=%q vars=%s\n", r.stage, r.msg, r.vars)
		ok, msg := direct(schema, os.Args[3], os.Args[4], true)
		fmt.Printf("direct ok=%v msg=%q\n", ok, msg)
	case "gen":
		a := common.Args(os.Args[2:])
		out := common.NewOut(a["out"])
		genAll(common.ArgU64(a, "seed", 1), common.ArgInt(a, "n", 100), out)
		out.Close()
	case "corpus":
		a := common.Args(os.Args[2:])
		out := common.NewOut(a["out"])
		runCorpus(a["in"], out)
		out.Close()
	case "replay":
		a := common.Args(os.Args[2:])
		out := common.NewOut(a["out"])
		runReplay(a["in"], out)
		out.Close()
	default:
		os.Exit(2)
	}
}
