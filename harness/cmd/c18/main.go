// c18: drives subscriptionclient.Client (WS + SSE transports) against an in-process upstream whose
// accept / connection_ack / per-id frames / drops are released one harness event at a time, with
// harness-controlled subscriber contexts.  No source hooks.  Every harness event is followed by a
// wait for quiescence (the observable log stops growing), so a schedule is a deterministic run.
//
//	c18 gen    -seed S -tier quick|thorough -out F [-par N] [-settle ms]
//	c18 corpus -in FILE -out F          (FILE: one "(idle M) (keys ..) (sched ..)" line per case)
//	c18 stress -kind b0|b1|d -n N -out F
package main

import (
	"bufio"
	"context"
	"encoding/json"
	"errors"
	"fmt"
	"net/http"
	"net/http/httptest"
	"os"
	"runtime"
	"sort"
	"strconv"
	"strings"
	"sync"
	"sync/atomic"
	"time"

	"gvh/common"

	"github.com/coder/websocket"
	"github.com/coder/websocket/wsjson"
	"github.com/jensneuse/abstractlogger"

	client "github.com/wundergraph/graphql-go-tools/v2/pkg/engine/datasource/graphql_datasource/subscriptionclient"
	sc "github.com/wundergraph/graphql-go-tools/v2/pkg/engine/datasource/graphql_datasource/subscriptionclient/common"
)

// ----------------------------------------------------------------------------- schedules

type Ev struct {
	Op   string // sub cancel accept reject ack initfail next complete error nextx junk drop bad tick flush stats frame cancelack sframe
	A, B int    // subscriber / key index / tag / r
	C    int
	D, E int // frame: A conn-of, B type, C id selector, D payload, E tag
}

// frame type codes (both sub-protocols' wire alphabets) and payload codes
const (
	fNext = iota
	fData
	fError
	fComplete
	fConnError
	fPing
	fPong
	fKa
	fAck
	fOther
	fGarbage
)

var fTypeName = []string{"next", "data", "error", "complete", "connection_error", "ping", "pong", "ka", "connection_ack", "bogus", ""}

const (
	plNone = iota
	plObj
	plBad
)

// id selectors of a frame event
const (
	idNone = -1
	idJunk = -2
)

func (e Ev) String() string {
	switch e.Op {
	case "sub", "next", "initfail", "snext":
		return common.L(e.Op, common.I(e.A), common.I(e.B))
	case "nextx":
		return common.L(e.Op, common.I(e.A), common.I(e.B), common.I(e.C))
	case "frame":
		return common.L(e.Op, common.I(e.A), common.I(e.B), common.I(e.C), common.I(e.D), common.I(e.E))
	case "sframe":
		return common.L(e.Op, common.I(e.A), common.I(e.B), common.I(e.C), common.I(e.D))
	case "tick", "flush", "stats":
		return common.L(e.Op)
	}
	return common.L(e.Op, common.I(e.A))
}

// Key: endpoint, sub-protocol (0 auto, 1 graphql-transport-ws, 2 graphql-ws), H = index into hdrVariants (the
// Options.Headers multimap), init payload.  On an upstream connection (sconn.key) H is the IDENTITY the upgrade
// request carried: the first table entry that looks the same to a net/http server (hdrHid).
type Key struct{ E, P, H, IP int }

// the header multimaps a subscriber may pass.  Multi-valued names (Header.Add, forwarded Cookie / X-Forwarded-For /
// scope lists) that agree on the names and on the first value and differ later, in the number of values, in the order
// of the values; the spelling of a name; empty values; a name without values.
var hdrVariants = []http.Header{
	0:  nil,
	1:  {"X-T": {"b"}},
	2:  {"X-Scope": {"read", "tenant-a"}},
	3:  {"X-Scope": {"read", "tenant-b"}},             // differs from 2 at position 1
	4:  {"X-Scope": {"read"}},                         // a prefix of 2, 3, 5
	5:  {"X-Scope": {"read", "admin"}},                // one more value than 4
	6:  {"X-Scope": {"tenant-a", "read"}},             // the values of 2 in another order
	7:  {"x-scope": {"read", "tenant-a"}},             // 2 with the name spelled differently: another key, the same identity
	8:  {"X-E": {""}},                                 // one empty value
	9:  {"X-E": {}},                                   // a name without values: nothing is sent, same key as 0
	10: {"X-E": {"", ""}},                             // two empty values
	11: {"X-Scope": {"read", "tenant-a"}, "X-T": {"b"}},
	12: {"X-Scope": {"read", "tenant-b"}, "X-T": {"b"}},
	13: {"X-Scope": {"read", "tenant-a", "x"}},        // differs from 2 at position 2
	14: {"X-T": {"b", "c"}},                           // 1 with a second value
}

var (
	hdrHid    []int    // variant -> first variant with the same identity at an upgrade
	hdrIdents []string // variant -> identity
	hdrNames  = map[string]int{}
	hdrValues = map[string]int{}
)

// what a net/http server reports for the X- names of an upgrade request that was written from h: names canonicalised
// (values of names that fall together are appended in the order Header.Write writes the names), names without values
// are not there
func identOf(h http.Header) string {
	raw := make([]string, 0, len(h))
	for n := range h {
		raw = append(raw, n)
	}
	sort.Strings(raw)
	canon := http.Header{}
	for _, n := range raw {
		for _, v := range h[n] {
			canon.Add(n, v)
		}
	}
	names := make([]string, 0, len(canon))
	for n := range canon {
		if strings.HasPrefix(n, "X-") && len(canon[n]) > 0 {
			names = append(names, n)
		}
	}
	sort.Strings(names)
	var sb strings.Builder
	for _, n := range names {
		sb.WriteString(n)
		for _, v := range canon[n] {
			sb.WriteString("\x1f")
			sb.WriteString(v)
		}
		sb.WriteString("\x1e")
	}
	return sb.String()
}

func init() {
	for _, h := range hdrVariants {
		id := identOf(h)
		hid := len(hdrIdents)
		for j, x := range hdrIdents {
			if x == id {
				hid = j
				break
			}
		}
		hdrIdents = append(hdrIdents, id)
		hdrHid = append(hdrHid, hid)
		raw := make([]string, 0, len(h))
		for n := range h {
			raw = append(raw, n)
		}
		sort.Strings(raw)
		for _, n := range raw {
			if _, ok := hdrNames[n]; !ok {
				hdrNames[n] = 1 + len(hdrNames)
			}
			for _, v := range h[n] {
				if _, ok := hdrValues[v]; !ok {
					hdrValues[v] = len(hdrValues)
				}
			}
		}
	}
}

// ident: the key with the header variant replaced by the identity it presents (idempotent)
func ident(k Key) Key {
	if k.H >= 0 && k.H < len(hdrHid) {
		k.H = hdrHid[k.H]
	}
	return k
}

// "(h hid (name value...)...)": the multimap in the order Header.Write enumerates the names, strings as numbers
func hdrRow(h int) string {
	parts := []string{common.I(h), common.I(hdrHid[h])}
	hd := hdrVariants[h]
	raw := make([]string, 0, len(hd))
	for n := range hd {
		raw = append(raw, n)
	}
	sort.Strings(raw)
	for _, n := range raw {
		e := []string{common.I(hdrNames[n])}
		for _, v := range hd[n] {
			e = append(e, common.I(hdrValues[v]))
		}
		parts = append(parts, common.L(e...))
	}
	return common.L(parts...)
}

func (k Key) String() string {
	return common.L(common.I(k.E), common.I(k.P), common.I(k.H), common.I(k.IP))
}

type Sched struct {
	Idle int         // 0: IdleTimeout 0, 1: short (tick fires it), 2: one hour
	Keys map[int]Key // subscriber -> option tuple
	Evs  []Ev
	SSE  bool
}

func (s Sched) Head() string {
	ids := make([]int, 0, len(s.Keys))
	for i := range s.Keys {
		ids = append(ids, i)
	}
	sort.Ints(ids)
	ks := []string{"keys"}
	for _, i := range ids {
		k := s.Keys[i]
		ks = append(ks, common.L(common.I(i), common.I(k.E), common.I(k.P), common.I(k.H), common.I(k.IP)))
	}
	es := []string{"sched"}
	for _, e := range s.Evs {
		es = append(es, e.String())
	}
	used := map[int]bool{}
	for _, i := range ids {
		if h := s.Keys[i].H; h >= 0 && h < len(hdrVariants) {
			used[h] = true
			used[hdrHid[h]] = true
		}
	}
	hs := []string{"hdrs"}
	for h := range hdrVariants {
		if used[h] {
			hs = append(hs, hdrRow(h))
		}
	}
	return common.L("idle", common.I(s.Idle)) + " " + common.L(ks...) + " " + common.L(hs...) + " " + common.L(es...)
}

// ----------------------------------------------------------------------------- world

const (
	idleShort = 250 * time.Millisecond
	tickWait  = 420 * time.Millisecond
	ackTO     = 2500 * time.Millisecond
)

type sconn struct {
	n       int
	key     Key
	phase   int // 0 pending accept, 1 accepted (init), 2 acked, 3 dead
	gate    chan string
	ws      *websocket.Conn
	legacy  bool
	closedL bool
	wids    map[int]string // subscriber -> wire id
	wmu     sync.Mutex
	acceptT time.Time
	pongs   atomic.Int32
	owner   int // the subscriber whose Subscribe started this dial (-1: a re-dial seen outside a sub window)
}

type subscriber struct {
	i        int
	ctx      context.Context
	cancel   context.CancelFunc
	returned bool
	cancelFn func()
	canc     bool
	cancelIn bool // cancel from inside the terminal callback
	sseGate  chan string
	sseW     http.ResponseWriter
	sseDone  chan struct{}
	sseState int // 0 none, 1 request pending, 2 streaming, 3 ended
}

type World struct {
	mu      sync.Mutex
	obs     []string
	lastAct atomic.Int64
	busy    atomic.Int32
	srv     *httptest.Server
	conns   []*sconn
	cl      *client.Client
	clStop  context.CancelFunc
	subs    map[int]*subscriber
	widNum  map[string]int
	settle  time.Duration
	idle    int
	credits map[string]int // minus-run: sticky accept/ack per key
	sticky  bool
	skip    map[int]bool // subscribers removed in the minus run
	armAck  map[int]bool // cancelack: cancel this dialler between connection_ack and its subscribe frame
	hookTgt atomic.Int32 // subscriber to cancel at the next "connected" line of the transport's logger (-1: none)
}

// hookLogger: the only place where the harness can stand between a successful protocol init and the
// dialler's subscribe: WSTransport.dial logs its "connected" debug line (the wsTransport.dial line with
// three fields) on the dialling goroutine after Init returned and before the connection is handed out.
type hookLogger struct {
	abstractlogger.Noop
	w *World
}

func (l *hookLogger) Debug(msg string, fields ...abstractlogger.Field) {
	if msg == "wsTransport.dial" && len(fields) == 3 {
		if t := l.w.hookTgt.Swap(-1); t >= 0 {
			l.w.cancelSub(int(t))
		}
	}
}

func (w *World) logf(s string) {
	w.mu.Lock()
	w.obs = append(w.obs, s)
	w.mu.Unlock()
	w.lastAct.Store(time.Now().UnixNano())
}

func (w *World) wid(id string) int {
	// caller holds w.mu
	if n, ok := w.widNum[id]; ok {
		return n
	}
	n := len(w.widNum)
	w.widNum[id] = n
	return n
}

func parseKeyFromReq(r *http.Request) Key {
	k := Key{}
	if strings.HasPrefix(r.URL.Path, "/e1") {
		k.E = 1
	}
	switch r.Header.Get("Sec-WebSocket-Protocol") {
	case "graphql-transport-ws":
		k.P = 1
	case "graphql-ws":
		k.P = 2
	default:
		k.P = 0
	}
	// the identity the upgrade request carried: every value of every X- name
	k.H = 99
	id := identOf(r.Header)
	for j, x := range hdrIdents {
		if x == id {
			k.H = j
			break
		}
	}
	k.IP = -1
	return k
}

func NewWorld(idle int, settle time.Duration) *World {
	w := &World{subs: map[int]*subscriber{}, widNum: map[string]int{}, settle: settle, idle: idle,
		credits: map[string]int{}, skip: map[int]bool{}, armAck: map[int]bool{}}
	w.hookTgt.Store(-1)
	mux := http.NewServeMux()
	mux.HandleFunc("/sse/", w.serveSSE)
	mux.HandleFunc("/", w.serveWS)
	w.srv = httptest.NewServer(mux)
	ctx, stop := context.WithCancel(context.Background())
	w.clStop = stop
	var it time.Duration
	switch idle {
	case 1:
		it = idleShort
	case 2:
		it = time.Hour
	}
	tr := &http.Transport{}
	w.cl = client.New(ctx, client.Config{
		UpgradeClient:   &http.Client{Transport: tr},
		StreamingClient: &http.Client{Transport: tr},
		AckTimeout:      ackTO,
		WriteTimeout:    2 * time.Second,
		WSIdleTimeout:   it,
		Logger:          &hookLogger{w: w},
	})
	return w
}

func (w *World) Close() {
	w.mu.Lock()
	conns := append([]*sconn(nil), w.conns...)
	subs := make([]*subscriber, 0, len(w.subs))
	for _, s := range w.subs {
		subs = append(subs, s)
	}
	w.mu.Unlock()
	for _, s := range subs {
		s.cancel()
		if s.sseGate != nil {
			select {
			case s.sseGate <- "drop":
			default:
			}
		}
	}
	for _, c := range conns {
		select {
		case c.gate <- "reject":
		default:
		}
		if c.ws != nil {
			c.ws.CloseNow()
		}
	}
	w.clStop()
	w.srv.CloseClientConnections()
	w.srv.Close()
}

func (w *World) serveWS(rw http.ResponseWriter, r *http.Request) {
	c := &sconn{key: parseKeyFromReq(r), gate: make(chan string, 4), wids: map[int]string{}, owner: -1}
	w.mu.Lock()
	c.n = len(w.conns)
	w.conns = append(w.conns, c)
	w.obs = append(w.obs, common.L("sdial", common.I(c.n), common.I(c.key.E), common.I(c.key.P), common.I(c.key.H)))
	w.mu.Unlock()
	w.lastAct.Store(time.Now().UnixNano())
	closed := func() {
		w.mu.Lock()
		if !c.closedL {
			c.closedL = true
			c.phase = 3
			w.obs = append(w.obs, common.L("sclosed", common.I(c.n)))
		}
		w.mu.Unlock()
		w.lastAct.Store(time.Now().UnixNano())
	}
	select {
	case cmd := <-c.gate:
		if cmd == "reject" {
			w.mu.Lock()
			c.phase = 3
			w.mu.Unlock()
			rw.WriteHeader(http.StatusForbidden)
			return
		}
	case <-r.Context().Done():
		closed()
		return
	}
	ws, err := websocket.Accept(rw, r, &websocket.AcceptOptions{Subprotocols: []string{"graphql-transport-ws", "graphql-ws"}})
	if err != nil {
		closed()
		return
	}
	ws.SetReadLimit(1 << 20)
	w.mu.Lock()
	c.ws = ws
	c.legacy = ws.Subprotocol() == "graphql-ws"
	c.phase = 1
	c.acceptT = time.Now()
	w.mu.Unlock()
	ctx := context.Background()
	for {
		var m struct {
			ID      string          `json:"id"`
			Type    string          `json:"type"`
			Payload json.RawMessage `json:"payload"`
		}
		if err := wsjson.Read(ctx, ws, &m); err != nil {
			closed()
			ws.CloseNow()
			return
		}
		switch m.Type {
		case "connection_init":
			ip := 0
			var p map[string]any
			if len(m.Payload) > 0 && json.Unmarshal(m.Payload, &p) == nil {
				if v, ok := p["t"].(float64); ok {
					ip = int(v)
				}
			}
			w.mu.Lock()
			c.key.IP = ip
			w.mu.Unlock()
			w.logf(common.L("sinit", common.I(c.n), common.I(ip)))
		case "subscribe", "start":
			var q struct {
				Query string `json:"query"`
			}
			_ = json.Unmarshal(m.Payload, &q)
			i := -1
			if k := strings.Index(q.Query, "{ s"); k >= 0 {
				rest := q.Query[k+3:]
				if e := strings.IndexAny(rest, " }"); e > 0 {
					i, _ = strconv.Atoi(rest[:e])
				}
			}
			w.mu.Lock()
			n := w.wid(m.ID)
			c.wmu.Lock()
			c.wids[i] = m.ID
			c.wmu.Unlock()
			w.obs = append(w.obs, common.L("ssub", common.I(c.n), common.I(n), common.I(i)))
			w.mu.Unlock()
			w.lastAct.Store(time.Now().UnixNano())
		case "pong":
			c.pongs.Add(1)
		case "complete", "stop":
			w.mu.Lock()
			n := w.wid(m.ID)
			w.obs = append(w.obs, common.L("sstop", common.I(c.n), common.I(n)))
			w.mu.Unlock()
			w.lastAct.Store(time.Now().UnixNano())
		}
	}
}

func (w *World) serveSSE(rw http.ResponseWriter, r *http.Request) {
	i, _ := strconv.Atoi(strings.TrimPrefix(r.URL.Path, "/sse/"))
	w.mu.Lock()
	s := w.subs[i]
	w.mu.Unlock()
	if s == nil {
		rw.WriteHeader(500)
		return
	}
	w.logf(common.L("ssereq", common.I(i)))
	fl, _ := rw.(http.Flusher)
	started := false
	for {
		select {
		case cmd := <-s.sseGate:
			switch {
			case cmd == "fail":
				rw.WriteHeader(500)
				return
			case cmd == "ok":
				rw.Header().Set("Content-Type", "text/event-stream")
				rw.WriteHeader(200)
				fl.Flush()
				started = true
			case cmd == "drop":
				if !started {
					rw.WriteHeader(500)
					return
				}
				panic(http.ErrAbortHandler)
			default:
				if !started {
					continue
				}
				fmt.Fprint(rw, cmd)
				fl.Flush()
			}
		case <-r.Context().Done():
			return
		}
	}
}

// quiesce: the log has been silent for settle and no harness-side call is in flight.
func (w *World) quiesce() { w.quiesceB(0) }

// quiesceB: busy is the number of harness calls the caller itself has in flight
func (w *World) quiesceB(busy int32) {
	deadline := time.Now().Add(5 * time.Second)
	for time.Now().Before(deadline) {
		time.Sleep(w.settle / 4)
		if w.busy.Load() <= busy && time.Since(time.Unix(0, w.lastAct.Load())) >= w.settle {
			return
		}
	}
}

func classify(err error) string {
	var fu client.ErrFailedUpgrade
	switch {
	case err == nil:
		return "ok"
	case errors.Is(err, context.Canceled) || errors.Is(err, context.DeadlineExceeded):
		return "ctx"
	case errors.As(err, &fu) || errors.Is(err, client.ErrDialFailed):
		return "dial"
	case errors.Is(err, client.ErrInitFailed):
		return "init"
	case errors.Is(err, client.ErrConnectionClosed):
		return "closed"
	case errors.Is(err, client.ErrSubscriptionExists):
		return "exists"
	}
	return "write"
}

func (w *World) handler(i int, sse bool) sc.Handler {
	return func(m *sc.Message) {
		pfx := "dlv"
		if sse {
			pfx = "ssedlv"
		}
		switch m.Type {
		case sc.MessageTypeData:
			tag := -1
			if m.Payload != nil {
				var d struct {
					V int `json:"v"`
				}
				if json.Unmarshal(m.Payload.Data, &d) == nil {
					tag = d.V
				}
			}
			w.logf(common.L(pfx, common.I(i), "d", common.I(tag)))
		case sc.MessageTypeError:
			w.logf(common.L(pfx, common.I(i), "e"))
			w.cancelInside(i)
		case sc.MessageTypeComplete:
			w.logf(common.L(pfx, common.I(i), "c"))
			w.cancelInside(i)
		case sc.MessageTypeConnectionError:
			// a connection error made by the frame conversion (a payload-less error frame: Err == nil; a
			// legacy connection_error frame: ErrConnectionError; an SSE event with an unusable payload: a
			// json error) is a DELIVERY to this subscription; everything else is the connection going down
			var se *json.SyntaxError
			var ue *json.UnmarshalTypeError
			switch {
			case !sse && m.Err == nil:
				w.logf(common.L(pfx, common.I(i), "x", "0"))
				w.cancelInside(i)
			case !sse && errors.Is(m.Err, client.ErrConnectionError):
				w.logf(common.L(pfx, common.I(i), "x", "1"))
				w.cancelInside(i)
			case sse && (errors.As(m.Err, &se) || errors.As(m.Err, &ue) || (m.Err != nil && strings.Contains(m.Err.Error(), "unexpected end of JSON input"))):
				w.logf(common.L(pfx, common.I(i), "x", "1"))
			case sse:
				w.logf(common.L("sseerr", common.I(i)))
			default:
				w.logf(common.L("cerr", common.I(i)))
			}
		default:
			w.logf(common.L(pfx, common.I(i), "unknown"))
		}
	}
}

// cancelInside: the subscriber reacts to its terminal message by cancelling, synchronously on the
// connection's read goroutine (dispatch has called the handler and has not yet run removeSub) -- what
// updater.Done() + context.AfterFunc(ctx, cancel) do in graphql_subscription_client.go.
func (w *World) cancelInside(i int) {
	w.mu.Lock()
	sb := w.subs[i]
	arm := sb != nil && sb.cancelIn && !sb.canc
	w.mu.Unlock()
	if arm {
		w.cancelSub(i)
	}
}

func (w *World) optsFor(i int, k Key, sse bool) sc.Options {
	if sse {
		return sc.Options{Endpoint: w.srv.URL + "/sse/" + strconv.Itoa(i), Transport: sc.TransportSSE, SSEMethod: sc.SSEMethodPOST}
	}
	o := sc.Options{Transport: sc.TransportWS}
	o.Endpoint = "ws" + strings.TrimPrefix(w.srv.URL, "http") + "/e" + strconv.Itoa(k.E)
	switch k.P {
	case 1:
		o.WSSubprotocol = sc.SubprotocolGraphQLTransportWS
	case 2:
		o.WSSubprotocol = sc.SubprotocolGraphQLWS
	}
	if k.H > 0 && k.H < len(hdrVariants) {
		o.Headers = hdrVariants[k.H].Clone()
	}
	if k.IP > 0 {
		o.InitPayload = map[string]any{"t": k.IP}
	}
	return o
}

func (w *World) startSub(i int, k Key, sse bool, pre bool) {
	ctx, cancel := context.WithCancel(context.Background())
	s := &subscriber{i: i, ctx: ctx, cancel: cancel}
	if sse {
		s.sseGate = make(chan string, 8)
		s.sseState = 1
	}
	w.mu.Lock()
	w.subs[i] = s
	w.mu.Unlock()
	if pre {
		cancel()
		s.canc = true
		w.logf(common.L("cancel", common.I(i)))
	}
	opts := w.optsFor(i, k, sse)
	req := &sc.Request{Query: fmt.Sprintf("subscription { s%d }", i)}
	w.lastAct.Store(time.Now().UnixNano())
	go func() {
		fn, err := w.cl.Subscribe(ctx, req, opts, w.handler(i, sse))
		w.mu.Lock()
		s.returned = true
		s.cancelFn = fn
		if sse {
			if err == nil {
				s.sseState = 2
			} else {
				s.sseState = 3
			}
			w.obs = append(w.obs, common.L("sseret", common.I(i), common.B(err == nil)))
		} else {
			w.obs = append(w.obs, common.L("ret", common.I(i), classify(err)))
		}
		canc := s.canc
		w.mu.Unlock()
		w.lastAct.Store(time.Now().UnixNano())
		if err == nil && canc && fn != nil {
			fn() // context.AfterFunc(ctx, cancel) of the caller fires at once
			w.lastAct.Store(time.Now().UnixNano())
		}
	}()
}


// a Subscribe either returns, reaches the upstream with a new dial, or parks behind another
// subscriber's dial (no observable): wait for one of the first two, at most 3 settle periods.
func (w *World) waitSubProgress(i int, nconns int, k Key) {
	// behind a pending dial for the same endpoint/subprotocol/headers the Subscribe may legitimately
	// park; otherwise it must make progress, so wait for it generously
	wait := time.Second
	k = ident(k)
	w.mu.Lock()
	for _, c := range w.conns {
		if c.phase <= 1 && c.key.E == k.E && c.key.P == k.P && c.key.H == k.H {
			wait = 3 * w.settle
		}
	}
	w.mu.Unlock()
	deadline := time.Now().Add(wait)
	for time.Now().Before(deadline) {
		w.mu.Lock()
		sb := w.subs[i]
		ok := (sb != nil && sb.returned) || len(w.conns) > nconns
		w.mu.Unlock()
		if ok {
			return
		}
		time.Sleep(100 * time.Microsecond)
	}
}

func (w *World) cancelSub(i int) bool {
	w.mu.Lock()
	s := w.subs[i]
	if s == nil || s.canc {
		w.mu.Unlock()
		return false
	}
	s.canc = true
	fn := s.cancelFn
	ret := s.returned
	w.obs = append(w.obs, common.L("cancel", common.I(i)))
	w.mu.Unlock()
	s.cancel()
	if ret && fn != nil {
		fn()
	}
	w.lastAct.Store(time.Now().UnixNano())
	return true
}

func (w *World) pending(keyIdx Key, phase int) *sconn {
	keyIdx = ident(keyIdx)
	w.mu.Lock()
	defer w.mu.Unlock()
	for _, c := range w.conns {
		if c.phase == phase && c.key.E == keyIdx.E && c.key.P == keyIdx.P && c.key.H == keyIdx.H &&
			(phase == 0 || c.key.IP == keyIdx.IP) {
			return c
		}
	}
	return nil
}

func (w *World) liveConn(k Key) *sconn {
	k = ident(k)
	w.mu.Lock()
	defer w.mu.Unlock()
	for j := len(w.conns) - 1; j >= 0; j-- {
		c := w.conns[j]
		if c.phase == 2 && c.key == k {
			return c
		}
	}
	return nil
}

func (w *World) connOf(i int) (*sconn, string) {
	w.mu.Lock()
	defer w.mu.Unlock()
	for j := len(w.conns) - 1; j >= 0; j-- {
		c := w.conns[j]
		c.wmu.Lock()
		id, ok := c.wids[i]
		c.wmu.Unlock()
		if ok {
			return c, id
		}
	}
	return nil, ""
}

// send: the classic per-id frames (next/data with a payload, error with a payload, complete) in the
// connection's own sub-protocol
func (w *World) send(c *sconn, id string, kind string, tag int) bool {
	if c == nil {
		return false
	}
	switch kind {
	case "d":
		t := fNext
		if c.legacy {
			t = fData
		}
		return w.sendFrame(c, t, true, id, plObj, tag)
	case "e":
		return w.sendFrame(c, fError, true, id, plObj, 0)
	}
	return w.sendFrame(c, fComplete, true, id, plNone, 0)
}

// sendFrame writes one frame of the widened alphabet on c: any type of either sub-protocol (also
// the other one's), with or without id, with no / an object / an unusable payload.
func (w *World) sendFrame(c *sconn, ft int, hasID bool, id string, pl int, tag int) bool {
	if c == nil || c.ws == nil {
		return false
	}
	w.mu.Lock()
	ph := c.phase
	w.mu.Unlock()
	if ph != 2 {
		return false
	}
	m := map[string]any{"type": fTypeName[ft]}
	if hasID {
		m["id"] = id
	}
	switch pl {
	case plObj:
		switch ft {
		case fError:
			if c.legacy {
				m["payload"] = map[string]any{"message": "x"}
			} else {
				m["payload"] = []any{map[string]any{"message": "x"}}
			}
		default:
			m["payload"] = map[string]any{"data": map[string]any{"v": tag}}
		}
	case plBad:
		m["payload"] = "oops" // a JSON string: not an execution result
	}
	proto := 0
	if c.legacy {
		proto = 1
	}
	w.mu.Lock()
	n := -1
	if hasID {
		n = w.wid(id)
	}
	w.obs = append(w.obs, common.L("up", common.I(c.n), common.I(proto), common.I(ft), common.I(n), common.I(pl), common.I(tag)))
	w.mu.Unlock()
	ctx, cancel := context.WithTimeout(context.Background(), time.Second)
	defer cancel()
	var err error
	before := c.pongs.Load()
	need := int32(1)
	if ft == fPing {
		need = 2 // the frame itself is answered with a pong too
	}
	if ft == fGarbage {
		err = c.ws.Write(ctx, websocket.MessageText, []byte("}{ not json"))
	} else {
		err = wsjson.Write(ctx, c.ws, m)
	}
	if err != nil {
		w.logf(common.L("upfail", common.I(c.n)))
	} else if !c.legacy {
		// barrier: the client's single read loop answers a ping only after it has dispatched the
		// frame before it (the handler runs synchronously in dispatch)
		if wsjson.Write(ctx, c.ws, map[string]string{"type": "ping"}) == nil {
			for t := 0; t < 5000 && c.pongs.Load() < before+need; t++ {
				w.mu.Lock()
				dead := c.phase == 3
				w.mu.Unlock()
				if dead {
					break
				}
				time.Sleep(200 * time.Microsecond)
			}
		}
	}
	w.lastAct.Store(time.Now().UnixNano())
	return true
}

func keyStr(k Key) string {
	k = ident(k)
	return fmt.Sprintf("%d/%d/%d/%d", k.E, k.P, k.H, k.IP)
}

func (w *World) doAccept(c *sconn) {
	w.logf(common.L("accept", common.I(c.n)))
	c.gate <- "accept"
	// wait until the upgrade finished and connection_init arrived (or the client went away)
	for t := 0; t < 2000; t++ {
		w.mu.Lock()
		ok := (c.phase == 1 && c.key.IP >= 0) || c.phase == 3
		w.mu.Unlock()
		if ok {
			break
		}
		time.Sleep(200 * time.Microsecond)
	}
}

func (w *World) doAck(c *sconn) {
	w.logf(common.L("ack", common.I(c.n)))
	w.mu.Lock()
	c.phase = 2
	if c.owner >= 0 && w.armAck[c.owner] {
		delete(w.armAck, c.owner)
		w.hookTgt.Store(int32(c.owner))
	}
	w.mu.Unlock()
	ctx, cancel := context.WithTimeout(context.Background(), time.Second)
	_ = wsjson.Write(ctx, c.ws, map[string]string{"type": "connection_ack"})
	cancel()
}

// apply one harness event; returns false when it was inapplicable (logged as (skip))
func (w *World) apply(s *Sched, e Ev) {
	applicable := true
	switch e.Op {
	case "sub":
		if w.skip[e.A] {
			return
		}
		w.mu.Lock()
		nc := len(w.conns)
		w.mu.Unlock()
		w.startSub(e.A, s.Keys[e.A], false, false)
		w.waitSubProgress(e.A, nc, s.Keys[e.A])
		w.mu.Lock()
		for _, c := range w.conns[nc:] {
			c.owner = e.A
		}
		w.mu.Unlock()
	case "cancelack": // the dialler A is cancelled between connection_ack and its subscribe frame
		w.mu.Lock()
		ok := false
		if sb := w.subs[e.A]; sb != nil && !sb.canc && !sb.returned {
			for _, c := range w.conns {
				if c.owner == e.A && c.phase <= 1 {
					ok = true
				}
			}
		}
		if ok {
			w.armAck[e.A] = true
		}
		w.mu.Unlock()
		applicable = ok
	case "frame":
		c, _ := w.connOf(e.A)
		id, has := "", true
		switch {
		case e.C == idNone:
			has = false
		case e.C == idJunk:
			id = "junk-id"
		default:
			_, id = w.connOf(e.C)
			if id == "" {
				c = nil
			}
		}
		if c == nil || e.B < 0 || e.B > fGarbage {
			applicable = false
		} else {
			applicable = w.sendFrame(c, e.B, has, id, e.D, e.E)
		}
	case "presub": // Subscribe with an already cancelled ctx
		w.startSub(e.A, s.Keys[e.A], false, true)
	case "cancel":
		if w.skip[e.A] {
			return
		}
		applicable = w.cancelSub(e.A)
	case "cancelin":
		if w.skip[e.A] {
			return
		}
		w.mu.Lock()
		if sb := w.subs[e.A]; sb != nil && !sb.canc {
			sb.cancelIn = true
		} else {
			applicable = false
		}
		w.mu.Unlock()
	case "accept":
		k := keyOfIdx(s, e.A)
		if c := w.pending(k, 0); c != nil {
			w.doAccept(c)
		} else {
			applicable = false
			if w.sticky {
				w.credits["accept/"+keyStr(k)]++
			}
		}
	case "reject":
		if c := w.pending(keyOfIdx(s, e.A), 0); c != nil {
			w.logf(common.L("reject", common.I(c.n)))
			c.gate <- "reject"
		} else {
			applicable = false
		}
	case "ack":
		k := keyOfIdx(s, e.A)
		if c := w.pending(k, 1); c != nil {
			w.doAck(c)
		} else {
			applicable = false
			if w.sticky {
				w.credits["ack/"+keyStr(k)]++
			}
		}
	case "initfail":
		if c := w.pending(keyOfIdx(s, e.A), 1); c != nil {
			w.logf(common.L("initfail", common.I(c.n), common.I(e.B)))
			switch e.B {
			case 0:
				time.Sleep(time.Until(c.acceptT.Add(ackTO + 60*time.Millisecond)))
			case 2:
				c.ws.CloseNow()
			default:
				ctx, cancel := context.WithTimeout(context.Background(), time.Second)
				_ = wsjson.Write(ctx, c.ws, map[string]string{"type": "next", "id": "zz"})
				cancel()
			}
		} else {
			applicable = false
		}
	case "next", "complete", "error":
		if w.skip[e.A] {
			return
		}
		c, id := w.connOf(e.A)
		kind := map[string]string{"next": "d", "complete": "c", "error": "e"}[e.Op]
		applicable = w.send(c, id, kind, e.B)
	case "nextx": // on A's connection, a frame carrying B's wire id
		c, _ := w.connOf(e.A)
		_, id := w.connOf(e.B)
		if c == nil || id == "" {
			applicable = false
		} else {
			applicable = w.send(c, id, "d", e.C)
		}
	case "junk":
		c, _ := w.connOf(e.A)
		if c == nil {
			applicable = false
		} else {
			applicable = w.send(c, "junk-id", "d", 0)
		}
	case "drop", "bad":
		if c := w.liveConn(keyOfIdx(s, e.A)); c != nil {
			w.logf(common.L("drop", common.I(c.n)))
			if e.Op == "bad" {
				ctx, cancel := context.WithTimeout(context.Background(), time.Second)
				_ = wsjson.Write(ctx, c.ws, map[string]string{"type": "bogus"})
				cancel()
			} else {
				c.ws.CloseNow()
			}
		} else {
			applicable = false
		}
	case "tick":
		if w.idle == 1 {
			time.Sleep(tickWait)
		}
	case "flush":
		for r := 0; r < 8; r++ {
			w.mu.Lock()
			var p *sconn
			for _, c := range w.conns {
				if c.phase == 0 || (c.phase == 1 && c.key.IP >= 0) {
					p = c
					break
				}
			}
			w.mu.Unlock()
			if p == nil {
				break
			}
			w.mu.Lock()
			ph0 := p.phase
			w.mu.Unlock()
			if ph0 == 0 {
				w.doAccept(p)
				w.quiesceB(1)
			}
			w.mu.Lock()
			ph := p.phase
			w.mu.Unlock()
			if ph == 1 {
				w.doAck(p)
			}
			w.quiesceB(1)
		}
	case "stats":
		st := w.cl.Stats()
		w.logf(common.L("stats", common.I(st.WSConns), common.I(st.SSEConns)))
	// ---- SSE ----
	case "ssub":
		w.startSub(e.A, Key{}, true, false)
		for t := 0; t < 5000; t++ { // the request must reach the upstream
			w.mu.Lock()
			n := len(w.obs)
			w.mu.Unlock()
			if n > 0 {
				break
			}
			time.Sleep(200 * time.Microsecond)
		}
	case "sok", "sfail", "sdrop", "snext", "scomplete", "serror":
		w.mu.Lock()
		sb := w.subs[e.A]
		st := 0
		if sb != nil {
			st = sb.sseState
		}
		w.mu.Unlock()
		need := 2
		if e.Op == "sok" || e.Op == "sfail" {
			need = 1
		}
		if sb == nil || st != need || sb.canc {
			applicable = false
			break
		}
		switch e.Op {
		case "sok", "sfail":
			sb.sseGate <- strings.TrimPrefix(e.Op, "s")
		case "sdrop":
			sb.sseGate <- "drop"
			w.mu.Lock()
			sb.sseState = 3
			w.mu.Unlock()
		case "snext":
			w.logf(common.L("sseup", common.I(e.A), "0", "2", common.I(e.B)))
			sb.sseGate <- fmt.Sprintf("event: next\ndata: {\"data\":{\"v\":%d}}\n\n", e.B)
		case "scomplete":
			w.logf(common.L("sseup", common.I(e.A), "2", "1", "0"))
			sb.sseGate <- "event: complete\ndata: \n\n"
			w.mu.Lock()
			sb.sseState = 3
			w.mu.Unlock()
		case "serror":
			w.logf(common.L("sseup", common.I(e.A), "1", "2", "0"))
			sb.sseGate <- "event: error\ndata: [{\"message\":\"x\"}]\n\n"
			w.mu.Lock()
			sb.sseState = 3
			w.mu.Unlock()
		}
	case "sframe": // A: stream, B: event type (0 next 1 error 2 complete 3 none 4 other), C: data (0 absent 1 empty 2 object 3 bad), D: tag
		w.mu.Lock()
		sb := w.subs[e.A]
		st := 0
		if sb != nil {
			st = sb.sseState
		}
		w.mu.Unlock()
		if sb == nil || st != 2 || sb.canc {
			applicable = false
			break
		}
		txt := ""
		switch e.B {
		case 0:
			txt = "event: next\n"
		case 1:
			txt = "event: error\n"
		case 2:
			txt = "event: complete\n"
		case 4:
			txt = "event: foo\n"
		}
		switch e.C {
		case 1:
			txt += "data:\n"
		case 2:
			if e.B == 1 {
				txt += "data: [{\"message\":\"x\"}]\n"
			} else {
				txt += fmt.Sprintf("data: {\"data\":{\"v\":%d}}\n", e.D)
			}
		case 3:
			txt += "data: \"oops\"\n"
		}
		if txt == "" {
			txt = ": keep-alive\n"
		}
		w.logf(common.L("sseup", common.I(e.A), common.I(e.B), common.I(e.C), common.I(e.D)))
		sb.sseGate <- txt + "\n"
		if sseEnds(e.B, e.C) {
			w.mu.Lock()
			sb.sseState = 3
			w.mu.Unlock()
		}
	case "scancel":
		w.mu.Lock()
		live := false
		if sb := w.subs[e.A]; sb != nil {
			live = sb.sseState == 1 || sb.sseState == 2
		}
		w.mu.Unlock()
		applicable = live && w.cancelSub(e.A) // a stream that has ended has nothing to cancel
		w.mu.Lock()
		if sb := w.subs[e.A]; sb != nil {
			sb.sseState = 3
		}
		w.mu.Unlock()
	}
	if !applicable {
		w.logf(common.L("skip"))
	}
	// sticky credits (minus run only): a new dial consumes earlier accept / ack releases
	if w.sticky {
		for r := 0; r < 4; r++ {
			w.quiesceB(1)
			progressed := false
			w.mu.Lock()
			conns := append([]*sconn(nil), w.conns...)
			w.mu.Unlock()
			for _, c := range conns {
				w.mu.Lock()
				ph, k := c.phase, c.key
				w.mu.Unlock()
				if ph == 0 {
					for ck, n := range w.credits {
						if n > 0 && strings.HasPrefix(ck, fmt.Sprintf("accept/%d/%d/%d/", k.E, k.P, k.H)) {
							w.credits[ck]--
							w.doAccept(c)
							progressed = true
							break
						}
					}
				} else if ph == 1 && k.IP >= 0 && w.credits["ack/"+keyStr(k)] > 0 {
					w.credits["ack/"+keyStr(k)]--
					w.doAck(c)
					progressed = true
				}
			}
			if !progressed {
				break
			}
		}
	}
}

// sseEnds: does this event end the stream (graphql-sse: error, complete; an unusable payload; an
// untyped / unknown event without data is read as complete)
func sseEnds(t, d int) bool {
	switch t {
	case 0:
		return d != 2
	case 1, 2:
		return true
	case 3:
		return d == 1 || d == 3
	}
	return d != 2
}

func keyOfIdx(s *Sched, sub int) Key { return s.Keys[sub] }

// runSched executes one schedule and returns the windows "(w <event> obs...)".
func runSched(s *Sched, settle time.Duration, minus int) string {
	w := NewWorld(s.Idle, settle)
	defer w.Close()
	if minus >= 0 {
		w.sticky = true
		w.skip[minus] = true
	}
	var wins []string
	for _, e := range s.Evs {
		w.mu.Lock()
		w.obs = nil
		w.mu.Unlock()
		w.lastAct.Store(time.Now().UnixNano())
		w.busy.Add(1)
		w.apply(s, e)
		w.busy.Add(-1)
		w.quiesce()
		w.mu.Lock()
		items := append([]string{"w", e.String()}, w.obs...)
		w.mu.Unlock()
		wins = append(wins, common.L(items...))
	}
	return common.L(append([]string{"wins"}, wins...)...)
}

func caseLine(s *Sched, settle time.Duration, withMinus bool) string {
	kind := "ws"
	if s.SSE {
		kind = "sse"
	}
	parts := []string{"c18", kind, s.Head(), runSched(s, settle, -1)}
	if withMinus && !s.SSE {
		ms := []string{"minus"}
		done := map[int]bool{}
		for _, e := range s.Evs {
			if e.Op == "cancel" && !done[e.A] && len(s.Keys) > 1 {
				done[e.A] = true
				ms = append(ms, common.L(common.I(e.A), runSched(s, settle, e.A)))
			}
		}
		parts = append(parts, common.L(ms...))
	}
	return "(" + strings.Join(parts, " ") + ")"
}

// ----------------------------------------------------------------------------- generation

func merges(seqs [][]Ev, emit func([]Ev)) {
	idx := make([]int, len(seqs))
	total := 0
	for _, s := range seqs {
		total += len(s)
	}
	cur := make([]Ev, 0, total)
	var rec func()
	rec = func() {
		if len(cur) == total {
			emit(append([]Ev(nil), cur...))
			return
		}
		for k := range seqs {
			if idx[k] < len(seqs[k]) {
				cur = append(cur, seqs[k][idx[k]])
				idx[k]++
				rec()
				idx[k]--
				cur = cur[:len(cur)-1]
			}
		}
	}
	rec()
}

var keyVariants = []Key{
	{0, 1, 0, 0}, {1, 1, 0, 0}, {0, 2, 0, 0}, {0, 0, 0, 0}, {0, 1, 1, 0}, {0, 1, 0, 1}, {0, 1, 0, 2},
}

func tail(idle int, subs []int) []Ev {
	t := []Ev{{Op: "flush"}}
	for n, i := range subs {
		t = append(t, Ev{Op: "next", A: i, B: 10 + n})
	}
	if len(subs) > 1 {
		t = append(t, Ev{Op: "nextx", A: subs[0], B: subs[1], C: 77}, Ev{Op: "junk", A: subs[0]})
	}
	t = append(t, Ev{Op: "complete", A: subs[0]})
	for n, i := range subs {
		t = append(t, Ev{Op: "next", A: i, B: 20 + n})
	}
	if idle == 1 {
		t = append(t, Ev{Op: "tick"})
	}
	t = append(t, Ev{Op: "stats"})
	return t
}

func genAll(seed uint64, thorough bool) []*Sched {
	var out []*Sched
	r := common.NewRand(seed)
	add := func(idle int, keys map[int]Key, evs []Ev) {
		out = append(out, &Sched{Idle: idle, Keys: keys, Evs: evs})
	}
	// --- family 1: two subscribers, same key, all interleavings of sub/cancel with the dial's env events
	envs := [][]Ev{
		{{Op: "accept", A: 0}, {Op: "ack", A: 0}},
		{{Op: "accept", A: 0}, {Op: "initfail", A: 0, B: 2}},
		{{Op: "accept", A: 0}, {Op: "initfail", A: 0, B: 3}},
		{{Op: "reject", A: 0}},
		{{Op: "accept", A: 0}, {Op: "ack", A: 0}, {Op: "drop", A: 0}},
		{{Op: "accept", A: 0}, {Op: "ack", A: 0}, {Op: "complete", A: 0}},
		{{Op: "accept", A: 0}, {Op: "ack", A: 0}, {Op: "error", A: 1}},
	}
	progs := [][][]Ev{
		{{{Op: "sub", A: 0, B: 0}}, {{Op: "sub", A: 1, B: 0}}},
		{{{Op: "sub", A: 0, B: 0}, {Op: "cancel", A: 0}}, {{Op: "sub", A: 1, B: 0}}},
		{{{Op: "sub", A: 0, B: 0}, {Op: "cancel", A: 0}}, {{Op: "sub", A: 1, B: 0}, {Op: "cancel", A: 1}}},
	}
	k0 := keyVariants[0]
	for ei, env := range envs {
		for pi, pg := range progs {
			for idle := 0; idle < 3; idle++ {
				if !thorough && idle == 1 && (ei > 1 || pi == 2) {
					continue // tick schedules are slow: keep a subset in the quick tier
				}
				if !thorough && idle == 2 && ei > 0 && ei != 4 {
					continue
				}
				merges([][]Ev{pg[0], pg[1], env}, func(m []Ev) {
					if !thorough && len(m) >= 7 && r.Pick(3) != 0 {
						return
					}
					evs := append(m, tail(idle, []int{0, 1})...)
					add(idle, map[int]Key{0: k0, 1: k0}, evs)
				})
			}
		}
	}
	// --- family 1b: a subscriber cancels from inside its terminal callback (double removal of one id)
	// while the connection is shared with other live subscriptions
	for idle := 0; idle < 3; idle++ {
		for _, term := range []string{"complete", "error"} {
			for who := 0; who < 2; who++ {
				other := 1 - who
				base := []Ev{{Op: "sub", A: 0, B: 0}, {Op: "accept", A: 0}, {Op: "sub", A: 1, B: 0}, {Op: "ack", A: 0}}
				evs := append(base, Ev{Op: "cancelin", A: who}, Ev{Op: "next", A: who, B: 60}, Ev{Op: term, A: who},
					Ev{Op: "next", A: other, B: 61}, Ev{Op: "next", A: who, B: 62})
				if idle == 1 {
					evs = append(evs, Ev{Op: "tick"}, Ev{Op: "next", A: other, B: 63})
				}
				evs = append(evs, Ev{Op: "cancel", A: other})
				if idle == 1 {
					evs = append(evs, Ev{Op: "tick"}) // drain is judged after the idle period
				}
				evs = append(evs, Ev{Op: "stats"})
				add(idle, map[int]Key{0: k0, 1: k0}, evs)
				// three subscriptions: the double removal leaves two
				evs3 := []Ev{{Op: "sub", A: 0, B: 0}, {Op: "sub", A: 1, B: 0}, {Op: "sub", A: 2, B: 0}, {Op: "flush"},
					{Op: "cancelin", A: who}, {Op: term, A: who}, {Op: "next", A: other, B: 64}, {Op: "next", A: 2, B: 65},
					{Op: "cancelin", A: 2}, {Op: "complete", A: 2}, {Op: "next", A: other, B: 66}, {Op: "cancel", A: other}}
				if idle == 1 {
					evs3 = append(evs3, Ev{Op: "tick"})
				}
				evs3 = append(evs3, Ev{Op: "stats"})
				add(idle, map[int]Key{0: k0, 1: k0, 2: k0}, evs3)
			}
		}
	}
	// --- family 1c: the dialler's ctx ends the dial while TWO subscribers wait on it (during the upgrade, or during
	// the protocol init): the waiters have live contexts and must end up subscribed on a fresh connection; and a chain:
	// the waiter that dialled again is cancelled in turn while a third subscriber waits on ITS dial
	for idle := 0; idle < 3; idle++ {
		for phase := 0; phase < 2; phase++ {
			evs := []Ev{{Op: "sub", A: 0, B: 0}}
			if phase == 1 {
				evs = append(evs, Ev{Op: "accept", A: 0})
			}
			evs = append(evs, Ev{Op: "sub", A: 1, B: 0}, Ev{Op: "sub", A: 2, B: 0}, Ev{Op: "cancel", A: 0})
			evs = append(evs, tail(idle, []int{1, 2})...)
			evs = append(evs[:len(evs)-1], Ev{Op: "cancel", A: 1}, Ev{Op: "next", A: 2, B: 33}, Ev{Op: "cancel", A: 2})
			if idle == 1 {
				evs = append(evs, Ev{Op: "tick"})
			}
			add(idle, map[int]Key{0: k0, 1: k0, 2: k0}, append(evs, Ev{Op: "stats"}))

			ch := []Ev{{Op: "sub", A: 0, B: 0}, {Op: "accept", A: 0}, {Op: "sub", A: 1, B: 0}, {Op: "cancel", A: 0}}
			if phase == 1 {
				ch = append(ch, Ev{Op: "accept", A: 1})
			}
			ch = append(ch, Ev{Op: "sub", A: 2, B: 0}, Ev{Op: "cancel", A: 1})
			ch = append(ch, tail(idle, []int{2})...)
			add(idle, map[int]Key{0: k0, 1: k0, 2: k0}, ch)
		}
	}
	// --- family 1d: Subscribe with an ALREADY CANCELLED ctx (presub) on a connection shared with live subscriptions, or
	// behind a pending dial: the caller gets its own ctx error, the socket and the other subscriptions are untouched
	for idle := 0; idle < 3; idle++ {
		evs := []Ev{{Op: "sub", A: 0, B: 0}, {Op: "accept", A: 0}, {Op: "ack", A: 0}, {Op: "presub", A: 1}, {Op: "next", A: 0, B: 70},
			{Op: "sub", A: 2, B: 0}, {Op: "next", A: 2, B: 71}, {Op: "next", A: 0, B: 72}, {Op: "complete", A: 2}, {Op: "next", A: 0, B: 73},
			{Op: "cancel", A: 0}}
		if idle == 1 {
			evs = append(evs, Ev{Op: "tick"})
		}
		add(idle, map[int]Key{0: k0, 1: k0, 2: k0}, append(evs, Ev{Op: "stats"}))
		for phase := 0; phase < 2; phase++ {
			ev2 := []Ev{{Op: "sub", A: 0, B: 0}}
			if phase == 1 {
				ev2 = append(ev2, Ev{Op: "accept", A: 0})
			}
			ev2 = append(ev2, Ev{Op: "presub", A: 1}, Ev{Op: "sub", A: 2, B: 0})
			ev2 = append(ev2, tail(idle, []int{0, 2})...)
			add(idle, map[int]Key{0: k0, 1: k0, 2: k0}, ev2)
		}
	}
	// --- family 1e: the last subscription leaves (own cancel / upstream complete) and the next subscriber arrives: after
	// the close (fresh dial), within the idle period (reuse; the timer then finds the table non-empty), after it
	for idle := 0; idle < 3; idle++ {
		for _, leave := range []string{"cancel", "complete", "error"} {
			for late := 0; late < 2; late++ {
				if late == 1 && idle != 1 {
					continue
				}
				evs := []Ev{{Op: "sub", A: 0, B: 0}, {Op: "flush"}, {Op: "next", A: 0, B: 80}, {Op: leave, A: 0}}
				if late == 1 {
					evs = append(evs, Ev{Op: "tick"})
				}
				evs = append(evs, Ev{Op: "sub", A: 1, B: 0}, Ev{Op: "flush"}, Ev{Op: "next", A: 1, B: 81})
				if idle == 1 {
					evs = append(evs, Ev{Op: "tick"}, Ev{Op: "next", A: 1, B: 82})
				}
				evs = append(evs, Ev{Op: "stats"}, Ev{Op: "cancel", A: 1})
				if idle == 1 {
					evs = append(evs, Ev{Op: "tick"})
				}
				add(idle, map[int]Key{0: k0, 1: k0}, append(evs, Ev{Op: "stats"}))
			}
		}
	}
	// --- family 1f: the DIALLER is cancelled between connection_ack and its subscribe frame (cancelack: from the
	// transport's "connected" log line): nothing may stay behind -- the fresh connection has no subscription and must be
	// closed (at once / by the idle timer); alone, with another key's connection alive, with a later subscriber
	kL := keyVariants[2]
	for idle := 0; idle < 3; idle++ {
		for _, kk := range []Key{k0, kL} {
			drain := func(evs []Ev) []Ev {
				if idle == 1 {
					evs = append(evs, Ev{Op: "tick"})
				}
				return append(evs, Ev{Op: "stats"})
			}
			add(idle, map[int]Key{0: kk}, drain([]Ev{{Op: "sub", A: 0}, {Op: "accept", A: 0}, {Op: "cancelack", A: 0}, {Op: "ack", A: 0}}))
			add(idle, map[int]Key{0: kk}, drain([]Ev{{Op: "sub", A: 0}, {Op: "cancelack", A: 0}, {Op: "flush"}}))
			add(idle, map[int]Key{0: kk, 1: keyVariants[1]}, drain([]Ev{{Op: "sub", A: 1}, {Op: "flush"}, {Op: "sub", A: 0}, {Op: "accept", A: 0},
				{Op: "cancelack", A: 0}, {Op: "ack", A: 0}, {Op: "next", A: 1, B: 85}, {Op: "stats"}, {Op: "cancel", A: 1}}))
			add(idle, map[int]Key{0: kk, 1: kk}, drain([]Ev{{Op: "sub", A: 0}, {Op: "accept", A: 0}, {Op: "cancelack", A: 0}, {Op: "ack", A: 0},
				{Op: "stats"}, {Op: "sub", A: 1}, {Op: "flush"}, {Op: "next", A: 1, B: 86}, {Op: "cancel", A: 1}}))
		}
	}
	// --- family 1g: the whole upstream frame alphabet on a connection shared by two (three) subscriptions, both
	// sub-protocols: every frame type of either protocol x {id of subscriber 0, no id, an id nobody holds, an id held on
	// ANOTHER connection} x {no payload, object, unusable payload}; afterwards both subscribers are probed with a next
	type fr struct{ t, pl int }
	var frs []fr
	for _, t := range []int{fNext, fData, fError} {
		for pl := plNone; pl <= plBad; pl++ {
			frs = append(frs, fr{t, pl})
		}
	}
	for _, t := range []int{fComplete, fConnError, fPing, fPong, fKa, fAck, fOther, fGarbage} {
		frs = append(frs, fr{t, plNone})
	}
	frs = append(frs, fr{fComplete, plObj}, fr{fConnError, plObj})
	nfr := 0
	for _, kk := range []Key{k0, kL} {
		for _, f := range frs {
			for _, sel := range []int{0, idNone, idJunk} {
				nfr++
				idle := 0
				if nfr%5 == 0 {
					idle = 2
				}
				if nfr%11 == 0 {
					idle = 1
				}
				if !thorough && idle == 1 && nfr%3 != 0 {
					idle = 0
				}
				evs := []Ev{{Op: "sub", A: 0}, {Op: "accept", A: 0}, {Op: "sub", A: 1}, {Op: "ack", A: 0}, {Op: "next", A: 0, B: 90},
					{Op: "frame", A: 1, B: f.t, C: sel, D: f.pl, E: 91}, {Op: "next", A: 0, B: 92}, {Op: "next", A: 1, B: 93},
					{Op: "frame", A: 1, B: f.t, C: sel, D: f.pl, E: 94}, {Op: "next", A: 1, B: 95}, {Op: "cancel", A: 0}, {Op: "cancel", A: 1}}
				if idle == 1 {
					evs = append(evs, Ev{Op: "tick"})
				}
				add(idle, map[int]Key{0: kk, 1: kk}, append(evs, Ev{Op: "stats"}))
			}
		}
		// terminal frames for one of three; frames after the terminal one (finished id); the subscriber cancelling from
		// inside the callback of a payload-less error; an id that lives on another connection
		for _, f := range []fr{{fError, plNone}, {fConnError, plNone}, {fError, plObj}, {fComplete, plNone}} {
			add(0, map[int]Key{0: kk, 1: kk, 2: kk}, []Ev{{Op: "sub", A: 0}, {Op: "sub", A: 1}, {Op: "sub", A: 2}, {Op: "flush"},
				{Op: "frame", A: 0, B: f.t, C: 1, D: f.pl}, {Op: "next", A: 0, B: 96}, {Op: "next", A: 1, B: 97}, {Op: "next", A: 2, B: 98},
				{Op: "frame", A: 0, B: fComplete, C: 1}, {Op: "frame", A: 0, B: fError, C: 1}, {Op: "frame", A: 0, B: f.t, C: 1, D: f.pl},
				{Op: "cancelin", A: 2}, {Op: "frame", A: 0, B: f.t, C: 2, D: f.pl}, {Op: "next", A: 0, B: 99}, {Op: "cancel", A: 0}, {Op: "stats"}})
			add(0, map[int]Key{0: kk, 1: kk, 2: keyVariants[1]}, []Ev{{Op: "sub", A: 0}, {Op: "sub", A: 1}, {Op: "sub", A: 2}, {Op: "flush"},
				{Op: "frame", A: 0, B: f.t, C: 2, D: f.pl}, {Op: "next", A: 2, B: 96}, {Op: "frame", A: 2, B: f.t, C: 0, D: f.pl},
				{Op: "next", A: 0, B: 97}, {Op: "next", A: 1, B: 98}, {Op: "cancel", A: 0}, {Op: "cancel", A: 1}, {Op: "cancel", A: 2}, {Op: "stats"}})
		}
	}
	// --- family 2: two subscribers, keys differing in exactly one field: never shared
	for v := 1; v < len(keyVariants); v++ {
		kA, kB := keyVariants[0], keyVariants[v]
		if v == 5 {
			kA = keyVariants[5]
			kB = keyVariants[6]
		}
		base := [][]Ev{
			{{Op: "sub", A: 0, B: 0}, {Op: "accept", A: 0}, {Op: "ack", A: 0}},
			{{Op: "sub", A: 1, B: 1}, {Op: "accept", A: 1}, {Op: "ack", A: 1}},
		}
		n := 0
		merges(base, func(m []Ev) {
			n++
			if !thorough && n%4 != 1 {
				return
			}
			evs := append(m, tail(0, []int{0, 1})...)
			evs = append(evs[:len(evs)-1], Ev{Op: "cancel", A: 0}, Ev{Op: "next", A: 1, B: 31}, Ev{Op: "drop", A: 1}, Ev{Op: "stats"})
			add(0, map[int]Key{0: kA, 1: kB}, evs)
		})
	}
	// --- family 2h: two subscribers whose option tuples differ in the HEADER MULTIMAP only (first values and names
	// agree, a later value / the number of values / the order of the values / the spelling of a name / empty values
	// differ): a connection each, every frame to its own subscriber, the upstream sees each one's own header values.
	// Pairs marked same present one key (a name without values is an absent name): one connection.
	hdrPairs := [][2]int{{2, 3}, {4, 5}, {5, 4}, {2, 6}, {2, 13}, {11, 12}, {1, 14}, {2, 7}, {8, 0}, {8, 10}, {8, 9}, {9, 0}, {0, 9}, {3, 3}}
	for pi, pr := range hdrPairs {
		for _, pp := range []int{1, 2} {
			if !thorough && pp == 2 && pi%3 != 0 {
				continue
			}
			kA, kB := Key{0, pp, pr[0], 0}, Key{0, pp, pr[1], 0}
			base := [][]Ev{
				{{Op: "sub", A: 0, B: 0}, {Op: "accept", A: 0}, {Op: "ack", A: 0}},
				{{Op: "sub", A: 1, B: 1}, {Op: "accept", A: 1}, {Op: "ack", A: 1}},
			}
			n := 0
			merges(base, func(m []Ev) {
				n++
				if !thorough && n%5 != 1 {
					return
				}
				evs := append(m, tail(0, []int{0, 1})...)
				evs = append(evs[:len(evs)-1], Ev{Op: "cancel", A: 0}, Ev{Op: "next", A: 1, B: 31}, Ev{Op: "drop", A: 1}, Ev{Op: "stats"})
				add(0, map[int]Key{0: kA, 1: kB}, evs)
			})
			// a third subscriber with the first one's tuple arrives last: it shares with 0, never with 1
			add(2, map[int]Key{0: kA, 1: kB, 2: kA}, []Ev{{Op: "sub", A: 0}, {Op: "accept", A: 0}, {Op: "ack", A: 0}, {Op: "sub", A: 1},
				{Op: "flush"}, {Op: "sub", A: 2}, {Op: "flush"}, {Op: "next", A: 0, B: 61}, {Op: "next", A: 1, B: 62}, {Op: "next", A: 2, B: 63},
				{Op: "complete", A: 1}, {Op: "next", A: 2, B: 64}, {Op: "cancel", A: 0}, {Op: "next", A: 2, B: 65}, {Op: "cancel", A: 2}, {Op: "stats"}})
		}
	}
	// --- family 3: seeded longer schedules, three subscribers over two keys
	nrand := 120
	if thorough {
		nrand = 3000
	}
	for n := 0; n < nrand; n++ {
		idle := r.Pick(3)
		if !thorough && idle == 1 && r.Pick(3) != 0 {
			idle = 0
		}
		kB := keyVariants[1+r.Pick(len(keyVariants)-1)]
		k0 := k0
		if r.Chance(1, 4) {
			// multi-valued headers: the third subscriber agrees with the others on names and first values
			k0 = Key{0, 1 + r.Pick(2), 2, 0}
			kB = Key{0, k0.P, common.PickOf(r, []int{3, 4, 5, 6, 7, 13}), 0}
		}
		keys := map[int]Key{0: k0, 1: k0, 2: kB}
		if r.Chance(1, 3) {
			keys[2] = k0
		}
		var evs []Ev
		started := map[int]bool{}
		cancelled := map[int]bool{}
		L := 6 + r.Pick(8)
		tag := 40
		for len(evs) < L {
			i := r.Pick(3)
			switch r.Pick(13) {
			case 11:
				if started[i] {
					sel := common.PickOf(r, []int{i, i, idNone, idJunk, r.Pick(3)})
					evs = append(evs, Ev{Op: "frame", A: i, B: r.Pick(fGarbage + 1), C: sel, D: r.Pick(3), E: 50 + len(evs)})
				}
			case 12:
				// only for a subscriber whose key nobody shares: with a waiter behind the dial the order of the
				// dialler's removeSub and the waiter's subscribe is a real race
				if started[2] && !cancelled[2] && keys[2] != k0 {
					evs = append(evs, Ev{Op: "cancelack", A: 2})
				}
			case 0, 1, 2:
				if !started[i] {
					started[i] = true
					evs = append(evs, Ev{Op: "sub", A: i, B: 0})
				}
			case 3:
				if started[i] && !cancelled[i] {
					if r.Chance(1, 3) {
						evs = append(evs, Ev{Op: "cancelin", A: i})
					} else {
						cancelled[i] = true
						evs = append(evs, Ev{Op: "cancel", A: i})
					}
				}
			case 4, 5:
				evs = append(evs, Ev{Op: "accept", A: i})
			case 6, 7:
				evs = append(evs, Ev{Op: "ack", A: i})
			case 8:
				tag++
				evs = append(evs, Ev{Op: "next", A: i, B: tag})
			case 9:
				evs = append(evs, Ev{Op: common.PickOf(r, []string{"complete", "error", "drop", "bad", "reject"}), A: i})
			case 10:
				if idle == 1 && r.Chance(1, 2) {
					evs = append(evs, Ev{Op: "tick"})
				} else {
					evs = append(evs, Ev{Op: "initfail", A: i, B: 2 + r.Pick(2)})
				}
			}
		}
		var subs []int
		for i := 0; i < 3; i++ {
			if started[i] {
				subs = append(subs, i)
			}
		}
		if len(subs) == 0 {
			continue
		}
		evs = append(evs, tail(idle, subs)...)
		add(idle, keys, evs)
	}
	// --- ack timeout (slow): a handful
	for _, pg := range progs[:2] {
		merges([][]Ev{pg[0], pg[1], {{Op: "accept", A: 0}, {Op: "initfail", A: 0, B: 0}}}, func(m []Ev) {
			if thorough || r.Pick(12) == 0 {
				add(0, map[int]Key{0: k0, 1: k0}, append(m, tail(0, []int{0, 1})...))
			}
		})
	}
	// --- SSE
	sseProgs := [][]Ev{
		{{Op: "ssub", A: 0}, {Op: "sok", A: 0}, {Op: "snext", A: 0, B: 1}, {Op: "snext", A: 0, B: 2}, {Op: "scomplete", A: 0}},
		{{Op: "ssub", A: 1}, {Op: "sok", A: 1}, {Op: "snext", A: 1, B: 3}, {Op: "scancel", A: 1}},
		{{Op: "ssub", A: 0}, {Op: "sfail", A: 0}},
		{{Op: "ssub", A: 1}, {Op: "sok", A: 1}, {Op: "snext", A: 1, B: 4}, {Op: "sdrop", A: 1}},
		{{Op: "ssub", A: 1}, {Op: "scancel", A: 1}},
		{{Op: "ssub", A: 0}, {Op: "sok", A: 0}, {Op: "serror", A: 0}},
	}
	// the SSE event alphabet: typed / untyped / unknown-type events x {no data line, empty data, object, unusable data}
	for t := 0; t < 5; t++ {
		for d := 0; d < 4; d++ {
			out = append(out, &Sched{SSE: true, Keys: map[int]Key{}, Evs: []Ev{{Op: "ssub", A: 0}, {Op: "sok", A: 0}, {Op: "ssub", A: 1},
				{Op: "sok", A: 1}, {Op: "snext", A: 0, B: 1}, {Op: "sframe", A: 1, B: t, C: d, D: 5}, {Op: "snext", A: 0, B: 2},
				{Op: "snext", A: 1, B: 3}, {Op: "sframe", A: 0, B: t, C: d, D: 6}, {Op: "snext", A: 0, B: 4}, {Op: "scancel", A: 1}, {Op: "stats"}}})
		}
	}
	for a := 0; a < len(sseProgs); a++ {
		for b := 0; b < len(sseProgs); b++ {
			if sseProgs[a][0].A == sseProgs[b][0].A {
				continue
			}
			n := 0
			merges([][]Ev{sseProgs[a], sseProgs[b]}, func(m []Ev) {
				n++
				if !thorough && n%9 != 1 {
					return
				}
				out = append(out, &Sched{SSE: true, Keys: map[int]Key{}, Evs: append(m, Ev{Op: "stats"})})
			})
		}
	}
	return out
}

// ----------------------------------------------------------------------------- parsing (corpus)

func parseSched(line string) (*Sched, error) {
	// "(idle M) (keys (i e p h ip)...) (sched (op a b)...)" optionally prefixed by "sse "
	s := &Sched{Keys: map[int]Key{}}
	line = strings.TrimSpace(line)
	if strings.HasPrefix(line, "sse ") {
		s.SSE = true
		line = line[4:]
	}
	toks := strings.Fields(strings.NewReplacer("(", " ( ", ")", " ) ").Replace(line))
	pos := 0
	var parse func() any
	parse = func() any {
		if toks[pos] == "(" {
			pos++
			var l []any
			for toks[pos] != ")" {
				l = append(l, parse())
			}
			pos++
			return l
		}
		pos++
		return toks[pos-1]
	}
	atoi := func(x any) int { n, _ := strconv.Atoi(x.(string)); return n }
	for pos < len(toks) {
		l, ok := parse().([]any)
		if !ok || len(l) == 0 {
			return nil, fmt.Errorf("bad schedule")
		}
		switch l[0] {
		case "idle":
			s.Idle = atoi(l[1])
		case "keys":
			for _, k := range l[1:] {
				kk := k.([]any)
				s.Keys[atoi(kk[0])] = Key{atoi(kk[1]), atoi(kk[2]), atoi(kk[3]), atoi(kk[4])}
			}
		case "sched":
			for _, e := range l[1:] {
				ee := e.([]any)
				ev := Ev{Op: ee[0].(string)}
				if len(ee) > 1 {
					ev.A = atoi(ee[1])
				}
				if len(ee) > 2 {
					ev.B = atoi(ee[2])
				}
				if len(ee) > 3 {
					ev.C = atoi(ee[3])
				}
				if len(ee) > 4 {
					ev.D = atoi(ee[4])
				}
				if len(ee) > 5 {
					ev.E = atoi(ee[5])
				}
				s.Evs = append(s.Evs, ev)
			}
		}
	}
	return s, nil
}

// ----------------------------------------------------------------------------- stress (timing windows)

// b0: idle=0, cancel of the last subscriber races with a new Subscribe on the same key.
// b1: idle=short, the idle timer firing races with a new Subscribe.
// d : Subscribe with an already cancelled ctx on a shared connection.
func stress(kind string, n int, out *common.Out) {
	hits, tries := 0, 0
	detail := map[string]int{}
	k0 := keyVariants[0]
	deadline := time.Now().Add(time.Duration(n) * time.Millisecond)
	var mu sync.Mutex
	var wg sync.WaitGroup
	workers := runtime.NumCPU() / 2
	if workers < 2 {
		workers = 2
	}
	for wk := 0; wk < workers; wk++ {
		wg.Add(1)
		go func(wk int) {
			defer wg.Done()
			rnd := common.NewRand(uint64(wk + 1))
			for time.Now().Before(deadline) {
				idle := 0
				if kind == "b1" {
					idle = 1
				}
				var w *World
				if kind == "b1" {
					w = newWorldIdle(3 * time.Millisecond) // a much shorter idle period so that many rounds fit
				} else {
					w = NewWorld(idle, 2*time.Millisecond)
				}
				s := &Sched{Idle: idle, Keys: map[int]Key{0: k0, 1: k0, 2: k0}}
				// autopilot upstream: accept + ack every dial at once
				stop := make(chan struct{})
				go func() {
					for {
						select {
						case <-stop:
							return
						default:
						}
						w.mu.Lock()
						var p *sconn
						for _, c := range w.conns {
							if c.phase == 0 || (c.phase == 1 && c.key.IP >= 0) {
								p = c
								break
							}
						}
						w.mu.Unlock()
						if p == nil {
							time.Sleep(50 * time.Microsecond)
							continue
						}
						w.mu.Lock()
						ph0 := p.phase
						w.mu.Unlock()
						if ph0 == 0 {
							w.doAccept(p)
						}
						w.mu.Lock()
						ph := p.phase
						w.mu.Unlock()
						if ph == 1 {
							w.doAck(p)
						}
					}
				}()
				waitRet := func(i int) bool {
					for t := 0; t < 4000; t++ {
						w.mu.Lock()
						sb := w.subs[i]
						ok := sb != nil && sb.returned
						w.mu.Unlock()
						if ok {
							return true
						}
						time.Sleep(100 * time.Microsecond)
					}
					return false
				}
				for round := 0; round < 30 && time.Now().Before(deadline); round++ {
					a, b := 100+2*round, 101+2*round
					s.Keys[a], s.Keys[b] = k0, k0
					switch kind {
					case "b0":
						w.startSub(a, k0, false, false)
						if !waitRet(a) {
							continue
						}
						go func() {
							for x := 0; x < rnd.Pick(3000); x++ {
							}
							w.cancelSub(a)
						}()
						for x := 0; x < rnd.Pick(60000); x++ {
						}
						w.startSub(b, k0, false, false)
						waitRet(b)
						time.Sleep(2 * time.Millisecond)
					case "b1":
						w.startSub(a, k0, false, false)
						if !waitRet(a) {
							continue
						}
						t0 := time.Now()
						w.cancelSub(a)
						d := 3*time.Millisecond + time.Duration(rnd.Pick(400))*time.Microsecond - 100*time.Microsecond
						for time.Since(t0) < d {
						}
						w.startSub(b, k0, false, false)
						waitRet(b)
						time.Sleep(2 * time.Millisecond)
					case "d":
						w.startSub(a, k0, false, false)
						if !waitRet(a) {
							continue
						}
						w.startSub(b, k0, false, true) // ctx already cancelled
						waitRet(b)
						time.Sleep(3 * time.Millisecond)
					}
					w.mu.Lock()
					obs := strings.Join(w.obs, " ")
					w.mu.Unlock()
					mu.Lock()
					tries++
					switch kind {
					case "b0", "b1":
						// b's ctx is live and the upstream healthy: b must neither fail nor get a connection error
						if strings.Contains(obs, fmt.Sprintf("(cerr %d)", b)) {
							hits++
							detail["cerr"]++
						} else if strings.Contains(obs, fmt.Sprintf("(ret %d closed)", b)) || strings.Contains(obs, fmt.Sprintf("(ret %d write)", b)) {
							hits++
							detail["ret-closed"]++
						} else if strings.Contains(obs, fmt.Sprintf("(ret %d ", b)) && !strings.Contains(obs, fmt.Sprintf("(ret %d ok)", b)) {
							hits++
							detail["ret-other"]++
						}
					case "d":
						// a is a bystander; b's own failure is its own ctx
						if strings.Contains(obs, fmt.Sprintf("(cerr %d)", a)) {
							hits++
							detail["bystander-cerr"]++
						} else if strings.Contains(obs, fmt.Sprintf("(ret %d ", b)) && !strings.Contains(obs, fmt.Sprintf("(ret %d ctx)", b)) {
							hits++
							detail["cancelled-caller-not-ctx"]++
						}
					}
					mu.Unlock()
					if kind != "b1" {
						w.cancelSub(a)
					}
					w.cancelSub(b)
					time.Sleep(time.Millisecond)
					w.mu.Lock()
					w.obs = nil
					w.mu.Unlock()
				}
				close(stop)
				w.Close()
			}
		}(wk)
	}
	wg.Wait()
	ds := []string{}
	for k, v := range detail {
		ds = append(ds, common.L(k, common.I(v)))
	}
	sort.Strings(ds)
	out.Line(common.L("c18", "stress", kind, common.L("tries", common.I(tries)), common.L("hits", common.I(hits)), common.L(append([]string{"detail"}, ds...)...)))
}

func newWorldIdle(it time.Duration) *World {
	w := &World{subs: map[int]*subscriber{}, widNum: map[string]int{}, settle: 2 * time.Millisecond, idle: 1,
		credits: map[string]int{}, skip: map[int]bool{}, armAck: map[int]bool{}}
	w.hookTgt.Store(-1)
	mux := http.NewServeMux()
	mux.HandleFunc("/", w.serveWS)
	w.srv = httptest.NewServer(mux)
	ctx, stop := context.WithCancel(context.Background())
	w.clStop = stop
	tr := &http.Transport{}
	w.cl = client.New(ctx, client.Config{UpgradeClient: &http.Client{Transport: tr}, StreamingClient: &http.Client{Transport: tr},
		AckTimeout: time.Second, WriteTimeout: time.Second, WSIdleTimeout: it})
	return w
}

// ----------------------------------------------------------------------------- main

func runAll(scheds []*Sched, par int, settle time.Duration, out *common.Out) {
	lines := make([]string, len(scheds))
	var wg sync.WaitGroup
	sem := make(chan struct{}, par)
	for n, s := range scheds {
		wg.Add(1)
		sem <- struct{}{}
		go func(n int, s *Sched) {
			defer wg.Done()
			defer func() { <-sem }()
			defer func() {
				if r := recover(); r != nil {
					lines[n] = "(c18 panic " + common.QS(fmt.Sprint(r)) + " " + s.Head() + ")"
				}
			}()
			lines[n] = caseLine(s, settle, true)
		}(n, s)
	}
	wg.Wait()
	for _, l := range lines {
		out.Line(l)
	}
}

func main() {
	if len(os.Args) < 2 {
		fmt.Fprintln(os.Stderr, "usage: c18 gen|corpus|stress ...")
		os.Exit(2)
	}
	args := common.Args(os.Args[2:])
	out := common.NewOut(args["out"])
	defer out.Close()
	par := common.ArgInt(args, "par", 2*runtime.NumCPU())
	settle := time.Duration(common.ArgInt(args, "settle", 6)) * time.Millisecond
	switch os.Args[1] {
	case "gen":
		seed := common.ArgU64(args, "seed", 1)
		scheds := genAll(seed, args["tier"] == "thorough")
		if lim := common.ArgInt(args, "limit", 0); lim > 0 && lim < len(scheds) {
			scheds = scheds[:lim]
		}
		t0 := time.Now()
		runAll(scheds, par, settle, out)
		fmt.Fprintf(os.Stderr, "c18: %d schedules in %.1fs\n", len(scheds), time.Since(t0).Seconds())
	case "corpus":
		f, err := os.Open(args["in"])
		if err != nil {
			fmt.Fprintln(os.Stderr, err)
			os.Exit(1)
		}
		var scheds []*Sched
		scn := bufio.NewScanner(f)
		scn.Buffer(make([]byte, 1<<20), 1<<20)
		for scn.Scan() {
			l := strings.TrimSpace(scn.Text())
			if l == "" || strings.HasPrefix(l, "#") {
				continue
			}
			s, err := parseSched(l)
			if err != nil {
				fmt.Fprintln(os.Stderr, "bad corpus line:", l)
				os.Exit(1)
			}
			scheds = append(scheds, s)
		}
		f.Close()
		runAll(scheds, par, settle, out)
	case "stress":
		stress(args["kind"], common.ArgInt(args, "n", 3000), out)
	default:
		os.Exit(2)
	}
}
