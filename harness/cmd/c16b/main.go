// c16b: histories of client requests over ONE resolve.Resolver and one recording cache
// (loaderlab), each also run without a cache; prints per history one case line with the responses,
// the upstream requests (with their Cache-Control headers) and the cache log.
package main

import (
	"bufio"
	"fmt"
	"os"
	"strconv"
	"strings"
	"time"

	"gvh/common"
	"gvh/loaderlab"
	"gvh/plan"

	"github.com/wundergraph/astjson"
	"github.com/wundergraph/graphql-go-tools/v2/pkg/engine/resolve"
)

func jsonSexpOfText(s string) string {
	v, err := astjson.Parse(s)
	if err != nil {
		return "(n)"
	}
	return plan.JSONSexp(v)
}

type history struct {
	u       *loaderlab.Universe
	plans   []*loaderlab.Plan
	steps   []int                  // plan index per client request
	cc      []map[int][]string     // per step: fetch id -> Cache-Control values
	faults  map[int]loaderlab.CacheFault
	defTTL  time.Duration
	errEnts bool
}

func makeHistory(seed uint64, idx int) *history {
	r := common.NewRand(seed*1000003 + uint64(idx)*104729 + 5)
	h := &history{errEnts: r.Chance(1, 3)}
	g := &loaderlab.Gen{R: r, Opt: loaderlab.GenOptions{MaxDepth: 2 + r.Pick(2), Requires: r.Chance(1, 2), ErrEntities: h.errEnts,
		UnknownEntities: r.Chance(1, 2), Serial: true, SharedOps: true}}
	np := 2 + r.Pick(2)
	if r.Chance(1, 2) {
		// focused: one selection on one entity type, plans differ in which entities they batch; unknown (null) entities
		fo := g.FocusedUniverse()
		h.u = fo.U
		np = 3 + r.Pick(3)
		for i := 0; i < np; i++ {
			h.plans = append(h.plans, fo.Plan(r))
		}
	} else {
		h.u = g.Universe()
		for i := 0; i < np; i++ {
			h.plans = append(h.plans, g.Plan(h.u))
		}
	}
	n := 3 + r.Pick(6)
	for i := 0; i < n; i++ {
		pi := r.Pick(np)
		if i > 0 && r.Chance(1, 3) {
			pi = h.steps[i-1] // repeated request
		}
		h.steps = append(h.steps, pi)
		m := map[int][]string{}
		storable := r.Chance(2, 3) // most steps answer with storable headers, so that the cache fills
		for _, f := range h.plans[pi].Fetches {
			if storable && r.Chance(4, 5) {
				m[f.ID] = []string{common.PickOf(r, []string{"public, max-age=60", "public", "max-age=5, public", "PUBLIC, s-maxage=30, max-age=1", "public, immutable"})}
			} else {
				m[f.ID] = loaderlab.GenCacheControl(r)
			}
		}
		h.cc = append(h.cc, m)
	}
	h.defTTL = common.PickOf(r, []time.Duration{0, time.Second, 30 * time.Second, time.Hour, time.Hour})
	h.faults = map[int]loaderlab.CacheFault{}
	if r.Chance(2, 3) {
		for i := 0; i < 60; i++ {
			if r.Chance(1, 7) {
				h.faults[i] = loaderlab.CFGetErr + loaderlab.CacheFault(r.Pick(5))
			}
		}
	}
	return h
}

func status(res *loaderlab.Result) string {
	switch {
	case res.TimedOut:
		return "timeout"
	case res.Panic != "":
		return "panic"
	case res.Err != nil:
		return "error"
	}
	return "ok"
}

func (h *history) line(lab *loaderlab.Lab, seed uint64, idx int) string {
	cache := loaderlab.NewRecordingCache()
	cache.Faults = h.faults
	curRun := 0
	var curPlan *loaderlab.Plan
	cache.Mark = func() (int, int) { return curRun, curPlan.RequestCount() }
	keyMap := map[string]string{} // engine key -> (k planidx fid "rep")
	answers := map[string]string{}
	var aorder []string
	steps := []string{"hist"}
	for i, pi := range h.steps {
		p := h.plans[pi]
		curRun, curPlan = i, p
		ccOf := func(fid, seq int) []string { return h.cc[i][fid] }
		with := p.Run(lab, loaderlab.RunConfig{Cache: cache, DefaultTTL: h.defTTL, CacheControl: ccOf, NoSingleFlight: true})
		without := p.Run(lab, loaderlab.RunConfig{CacheControl: ccOf, NoSingleFlight: true})
		ups := []string{"ups"}
		for _, res := range []*loaderlab.Result{with, without} {
			for _, a := range res.Answers {
				k := strconv.Itoa(pi) + "\x00" + strconv.Itoa(a.FetchID) + "\x00" + a.Rep
				if _, ok := answers[k]; !ok {
					f := p.Fetches[a.FetchID]
					if f.Kind == loaderlab.FSingle {
						answers[k] = common.L("root", common.I(pi), common.I(a.FetchID), jsonSexpOfText(a.Entity), common.I(a.NErrs))
					} else {
						answers[k] = common.L("ans", common.I(pi), common.I(a.FetchID), common.QS(a.Rep), jsonSexpOfText(a.Entity), common.I(a.NErrs))
					}
					aorder = append(aorder, k)
				}
			}
			for _, rq := range res.Requests {
				f := p.Fetches[rq.FetchID]
				for _, rep := range rq.Reps {
					keyMap[loaderlab.KeyOf(rep, f.Header, f.Footer)] = common.L("k", common.I(pi), common.I(rq.FetchID), common.QS(rep))
				}
			}
		}
		for _, rq := range with.Requests {
			reps := []string{"reps"}
			for _, r := range rq.Reps {
				reps = append(reps, common.QS(r))
			}
			cc := []string{"cc"}
			for _, v := range rq.CC {
				cc = append(cc, common.QS(v))
			}
			ents := []string{"ents"}
			if bv, e := astjson.ParseBytes(rq.Body); e == nil {
				for _, x := range bv.GetArray("data", "_entities") {
					ents = append(ents, plan.JSONSexp(x))
				}
			}
			ups = append(ups, common.L("u", common.I(rq.FetchID), common.I(rq.Seq), common.I(rq.Status), common.I(rq.NErrors), common.L(cc...), common.L(reps...), common.B(rq.BadInput), common.L(ents...)))
		}
		ccs := []string{"hdrs"}
		for _, f := range p.Fetches {
			cc := []string{common.I(f.ID)}
			for _, v := range h.cc[i][f.ID] {
				cc = append(cc, common.QS(v))
			}
			ccs = append(ccs, common.L(cc...))
		}
		o := p.Observe(with.Out)
		nups := []string{"nups"}
		for _, rq := range without.Requests {
			reps := []string{common.I(rq.FetchID)}
			for _, r := range rq.Reps {
				reps = append(reps, common.QS(r))
			}
			nups = append(nups, common.L(reps...))
		}
		steps = append(steps, common.L("step", common.I(pi), common.L("st", status(with), common.QS(fmt.Sprint(with.Err, with.Panic))), common.L("out", common.Q(with.Out)),
			common.L("nst", status(without)), common.L("nocache", common.Q(without.Out)), common.L(ups...), common.L(nups...), common.L(ccs...),
			common.L("cacheerrs", common.I(len(with.CacheErrs))), common.L("valid", common.B(o.Valid)), common.L("draw", common.QS(o.DataRaw)),
			common.L(append([]string{"errs"}, o.Errs...)...)))
	}
	key := func(k string) string {
		if v, ok := keyMap[k]; ok {
			return v
		}
		return common.L("unk", common.QS(k))
	}
	clog := []string{"cachelog"}
	for _, op := range cache.Log {
		if op.Get {
			ks, fs := []string{"keys"}, []string{"found"}
			for _, k := range op.Keys {
				ks = append(ks, key(k))
			}
			for _, k := range op.Found {
				fs = append(fs, key(k))
			}
			clog = append(clog, common.L("get", common.I(op.Run), common.I(op.Seq), common.L(ks...), common.L(fs...), common.B(op.Err), op.Fault.String()))
		} else {
			its, st := []string{"items"}, []string{"stored"}
			for i, k := range op.Keys {
				its = append(its, common.L("it", key(k), jsonSexpOfText(op.Values[i]), common.QS(op.Values[i]), common.I64(op.TTLs[i])))
			}
			for _, k := range op.Stored {
				st = append(st, key(k))
			}
			clog = append(clog, common.L("set", common.I(op.Run), common.I(op.Seq), common.L(its...), common.L(st...), common.B(op.Err), op.Fault.String()))
		}
	}
	plans := []string{"plans"}
	for _, p := range h.plans {
		plans = append(plans, p.Sexp())
	}
	or := []string{"oracle"}
	for _, k := range aorder {
		or = append(or, answers[k])
	}
	cfs := []string{"cachefaults"}
	for i := 0; i < 60; i++ {
		if f, ok := h.faults[i]; ok {
			cfs = append(cfs, common.L(common.I(i), f.String()))
		}
	}
	return common.L("c16b", common.L("meta", common.I64(int64(seed)), common.I(idx), common.B(h.errEnts)), common.L(plans...),
		common.L("default_ttl", common.I64(int64(h.defTTL))), common.L(or...), common.L(cfs...), common.L(steps...), common.L(clog...))
}

func main() {
	if len(os.Args) < 2 {
		fmt.Fprintln(os.Stderr, "usage: c16b gen -seed S -n N -out F | c16b corpus -in F -out F")
		os.Exit(2)
	}
	a := common.Args(os.Args[2:])
	lab := loaderlab.NewLab(resolve.ResolverOptions{})
	defer lab.Close()
	out := common.NewOut(a["out"])
	defer out.Close()
	switch os.Args[1] {
	case "gen":
		seed := common.ArgU64(a, "seed", 1)
		n := common.ArgInt(a, "n", 100)
		for idx := 0; idx < n; idx++ {
			out.Line(makeHistory(seed, idx).line(lab, seed, idx))
		}
	case "corpus":
		f, err := os.Open(a["in"])
		if err != nil {
			return
		}
		defer f.Close()
		sc := bufio.NewScanner(f)
		for sc.Scan() {
			line := sc.Text()
			if strings.HasPrefix(line, "#") || strings.TrimSpace(line) == "" {
				continue
			}
			parts := strings.Split(line, "\t")
			if len(parts) < 2 {
				continue
			}
			s, _ := strconv.ParseUint(parts[0], 10, 64)
			idx, _ := strconv.Atoi(parts[1])
			out.Line(makeHistory(s, idx).line(lab, s, idx))
		}
	}
}
