package main

import (
	"crypto/sha1"
	"encoding/json"
	"fmt"
	"os"

	"gvh/fedlab"
)

func main() {
	b, _ := os.ReadFile(os.Args[1])
	var rp struct {
		Case struct {
			Cfg *fedlab.Config    `json:"config"`
			U   *fedlab.Universe  `json:"universe"`
			Op  *fedlab.Operation `json:"operation"`
		} `json:"case"`
	}
	if err := json.Unmarshal(b, &rp); err != nil {
		panic(err)
	}
	lab, err := fedlab.NewLab(rp.Case.Cfg, rp.Case.U, nil, fedlab.EngineOptions{})
	if err != nil {
		panic(err)
	}
	defer lab.Close()
	seen := map[string]int{}
	first := map[string]string{}
	for i := 0; i < 400; i++ {
		p, err := lab.Plan(rp.Case.Op.Text(), rp.Case.Op.Name)
		if err != nil {
			p = "ERR " + err.Error()
		}
		h := fmt.Sprintf("%x", sha1.Sum([]byte(p)))[:10]
		seen[h]++
		if _, ok := first[h]; !ok {
			first[h] = p
		}
	}
	fmt.Println(seen)
	if len(os.Args) > 2 {
		for h, p := range first {
			os.WriteFile("/tmp/plan-"+h+".txt", []byte(p), 0o644)
		}
	}
}
