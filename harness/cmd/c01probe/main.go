// c01probe: run arbitrary operation text against the configuration / universe of a replay file.
//
//	c01probe FILE 'query' ['{"vars":..}']      -> verdict, requests
//	c01probe FILE -plan 'query'                 -> plan
package main

import (
	"encoding/json"
	"fmt"
	"os"

	"gvh/fedlab"
)

func main() {
	b, _ := os.ReadFile(os.Args[1])
	var rp struct {
		Case struct {
			Cfg *fedlab.Config    `json:"config"`
			U   *fedlab.Universe  `json:"universe"`
			Op  *fedlab.Operation `json:"operation"`
		} `json:"case"`
	}
	if err := json.Unmarshal(b, &rp); err != nil {
		panic(err)
	}
	lab, err := fedlab.NewLab(rp.Case.Cfg, rp.Case.U, nil, fedlab.EngineOptions{})
	if err != nil {
		panic(err)
	}
	defer lab.Close()
	args := os.Args[2:]
	if len(args) > 0 && args[0] == "-plan" {
		p, err := lab.Plan(args[1], "")
		fmt.Println(p, err)
		return
	}
	op := rp.Case.Op.Text()
	vars := []byte(rp.Case.Op.VariablesJSON())
	if len(args) > 0 {
		op = args[0]
		vars = []byte("{}")
	}
	if len(args) > 1 {
		vars = []byte(args[1])
	}
	v := fedlab.Check(lab, op, "", vars, nil)
	fmt.Println("op:", op)
	fmt.Println("failed:", v.Failed(), v.FailDetail(), v.LabError)
	if v.Gateway != nil {
		fmt.Println("gw :", string(v.Gateway.Response))
		for _, q := range v.Gateway.Requests {
			vs := ""
			if q.Variables != nil {
				vs = q.Variables.String()
			}
			fmt.Printf("  [%d %s] %s %s\n      -> %s\n", q.Index, q.Subgraph, q.Query, vs, string(q.Response))
		}
	}
	if v.Ref != nil {
		fmt.Println("ref:", v.Ref.Data.String(), v.Ref.NErrors)
	}
}
