package main

import (
	"fmt"
	"os"

	"github.com/wundergraph/graphql-go-tools/execution/graphql"
	"github.com/wundergraph/graphql-go-tools/v2/pkg/astparser"
	"github.com/wundergraph/graphql-go-tools/v2/pkg/astvalidation"
	"github.com/wundergraph/graphql-go-tools/v2/pkg/operationreport"
)

func main() {
	sdl, _ := os.ReadFile(os.Args[1])
	schema, err := graphql.NewSchemaFromString(string(sdl))
	if err != nil {
		panic(err)
	}
	for _, q := range os.Args[2:] {
		doc, rep := astparser.ParseGraphqlDocumentString(q)
		if rep.HasErrors() {
			fmt.Println("parse", rep.Error())
			continue
		}
		var r operationreport.Report
		astvalidation.DefaultOperationValidator().Validate(&doc, schema.Document(), &r)
		fmt.Println(q, "=>", r.HasErrors(), r.Error())
	}
}
