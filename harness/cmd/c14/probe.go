package main

import (
	"bytes"
	"context"
	"fmt"
	"os"
	"strings"

	"gvh/c14lab"
	"gvh/fedlab"

	"github.com/wundergraph/graphql-go-tools/execution/engine"
	"github.com/wundergraph/graphql-go-tools/execution/graphql"
)

// frameWriter records every flushed frame of an incremental (@defer) response.
type frameWriter struct {
	buf    bytes.Buffer
	frames []string
}

func (w *frameWriter) Write(p []byte) (int, error) { return w.buf.Write(p) }
func (w *frameWriter) Flush() error {
	w.frames = append(w.frames, w.buf.String())
	w.buf.Reset()
	return nil
}
func (w *frameWriter) Complete()        {}
func (w *frameWriter) Heartbeat() error { return nil }
func (w *frameWriter) Error(data []byte) {
	w.frames = append(w.frames, "ERROR "+string(data))
}

// probe: run one operation on a named fixture with a protected set and denials, print everything.
//
//	c14 probe -cfg example|mut|iface -p "T.f,T.g" -deny "T.f" -op '...' [-mode pre|post|both]
func cmdProbe(a map[string]string) {
	cfg, uni := fixtureByName(a["cfg"])
	P := map[string]bool{}
	for _, x := range strings.Split(a["p"], ",") {
		if x = strings.TrimSpace(x); x != "" {
			P[x] = true
		}
	}
	d := c14lab.Decisions{}
	for _, x := range strings.Split(a["deny"], ",") {
		if x = strings.TrimSpace(x); x != "" {
			d[x] = true
		}
	}
	fx, err := c14lab.NewFix(cfg, uni, nil, P)
	if err != nil {
		fmt.Println("fix:", err)
		os.Exit(2)
	}
	defer fx.Close()
	op := a["op"]
	resp, err := fx.Plan(op, "", nil)
	if err != nil {
		fmt.Println("plan:", err)
	} else {
		pd := c14lab.Dump(resp)
		fmt.Println("PLAN", pd.Sexp())
		for _, f := range pd.Fetches {
			fmt.Printf("  fetch %d dep=%v %s ds=%s op=%d roots=%v path=%q\n    query=%s\n", f.ID, f.DependsOn, f.Kind, f.DS, f.OpType, f.Roots, f.Path, f.Query)
		}
	}
	ref, err := fx.Lab.Mono(op, "", nil)
	if err != nil {
		fmt.Println("mono:", err)
	} else {
		fmt.Println("MONO", ref.Data.String(), ref.NErrors)
	}
	modes := []c14lab.Mode{c14lab.None, c14lab.Post, c14lab.Pre}
	for _, m := range modes {
		if a["mode"] != "" && a["mode"] != "both" && a["mode"] != m.String() && m != c14lab.None {
			continue
		}
		res, pf, ba := fx.Run(op, "", nil, m, d)
		fmt.Printf("MODE %s err=%v\n  response=%s\n", m, res.Err, res.Response)
		for _, q := range res.Requests {
			fmt.Printf("  req[%d] %s %s vars=%s\n", q.Index, q.Subgraph, q.Query, q.Variables.String())
		}
		if pf != nil {
			fmt.Printf("  asked object=%v prefetch=%v\n", pf.Object, pf.PreFetch)
		}
		if ba != nil {
			fmt.Printf("  batch calls=%d asked=%v\n", ba.Calls, ba.Asked)
		}
		if a["frames"] != "" {
			// incremental delivery: run once more with a writer that keeps every flushed frame
			fw := &frameWriter{}
			var opts []engine.ExecutionOptions
			var pf2 *c14lab.PostFetch
			switch m {
			case c14lab.Post:
				pf2 = &c14lab.PostFetch{D: d}
				opts = append(opts, engine.WithAuthorizer(pf2))
			case c14lab.Pre:
				opts = append(opts, engine.WithPreFetchFieldAuthorizer(&c14lab.Batch{D: d}))
			}
			err := fx.Lab.Engine.Execute(context.Background(), &graphql.Request{Query: op}, fw, opts...)
			fmt.Printf("  frames err=%v\n", err)
			for i, f := range fw.frames {
				fmt.Printf("   frame[%d] %s\n", i, f)
			}
			if pf2 != nil {
				for _, q := range pf2.Object {
					fmt.Printf("   AuthorizeObjectField ds=%q type=%q field=%q\n", q.DS, q.Type, q.Field)
				}
			}
		}
	}
}

func fixtureByName(n string) (*fedlab.Config, *fedlab.Universe) {
	switch n {
	case "mut":
		return c14lab.MutationFixture()
	case "iface":
		return c14lab.InterfaceFixture()
	case "grid":
		return c14lab.GridFixture()
	}
	return fedlab.Example()
}
