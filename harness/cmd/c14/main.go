// c14: denied fields never reach the client and denied mutations never reach a subgraph --
// the planner / collector / loader part on the federation lab (see tools/props/c14.py).
package main

import (
	"fmt"
	"os"

	"gvh/common"
)

func main() {
	if len(os.Args) < 2 {
		fmt.Println("usage: c14 gen|mut|fixture|probe|one ...")
		os.Exit(2)
	}
	a := common.Args(os.Args[2:])
	switch os.Args[1] {
	case "probe":
		cmdProbe(a)
	case "gen":
		cmdGen(a)
	case "fixture":
		cmdFixture(a)
	default:
		fmt.Println("unknown sub-command", os.Args[1])
		os.Exit(2)
	}
}
