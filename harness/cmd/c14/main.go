// c14: denied fields never reach the client and denied mutations never reach a subgraph --
// the planner / collector / loader part on the federation lab (see tools/props/c14.py; the
// renderer part runs through harness/cmd/c02 -auth 1).
//
//	c14 fixture [-name iface|grid|mut] [-p I] [-op J] [-mode pre|post] [-d "T.f,.."|-] [-hooks none|rl|rlx|tr|rltr] [-maxd N] -out FILE
//	    the hand-written federations of harness/c14lab/fixtures.go: every operation x protected set,
//	    all decision functions (2^n for n <= 6 coordinates, else maxd random), both authorizer modes
//	c14 gen -seed S -n NCFG [-from I] [-p 0|1] [-op J] [-mode ..] [-d ..] [-maxd N] [-knobs K] -out FILE
//	    generated federations (gvh/fedlab) with sentinel universes, two protected sets per configuration
//	c14 probe -cfg example|iface|mut -p "T.f,.." -deny "T.f,.." -op 'operation' [-mode pre|post]
//	    print plan, coordinates, requests and responses of one operation (diagnostics)
//
// Output lines (one S-expression each, read by ocaml/c14/driver.ml):
//
//	(c14 op   (id ..) ..decision-independent part: operation, protected set, un-authorized response, plan dump..)
//	(c14 run  (id ..) (mode ..) (d ..) ..denied positions, response, reference, questions asked, requests, gates..)
//	(c14 skip (id ..) (reason ..))   the un-authorized run already differs from the monolith (C01 territory)
//
// C14_DEBUG=1 prints every request / response of the runs.
package main

import (
	"fmt"
	"os"

	"gvh/common"
)

func main() {
	if len(os.Args) < 2 {
		fmt.Println("usage: c14 gen|mut|fixture|probe|one ...")
		os.Exit(2)
	}
	a := common.Args(os.Args[2:])
	switch os.Args[1] {
	case "probe":
		cmdProbe(a)
	case "gen":
		cmdGen(a)
	case "fixture":
		cmdFixture(a)
	default:
		fmt.Println("unknown sub-command", os.Args[1])
		os.Exit(2)
	}
}
