package main

import (
	"fmt"
	"os"
	"sort"
	"strings"

	"gvh/c14lab"
	"gvh/common"
	"gvh/fedlab"
)

func btoi(b bool) int {
	if b {
		return 1
	}
	return 0
}

func mix(seed uint64, xs ...uint64) uint64 {
	h := seed*0x9e3779b97f4a7c15 + 0x7654321
	for _, x := range xs {
		h ^= x + 0x9e3779b97f4a7c15 + (h << 6) + (h >> 2)
		h *= 0xbf58476d1ce4e5b9
		h ^= h >> 29
	}
	return h
}

type stats struct {
	cfgs, fixes, ops, skipped, runs, labErrors int
	nestedCfgs, nestedFields                   int
	skipReasons                                map[string]int
	exhaustive, sampled                        int
	domainHist                                 map[int]int
}

type genCtx struct {
	exec     *fedlab.ExecServer
	out      *common.Out
	maxd     int
	st       *stats
	verbose  bool
	only     map[string]string // replay filter: mode / d / hooks
	onlyOp   int
	strict   bool // the current fixture's baseline must agree with the monolith (Fixture.StrictBaseline)
	fixture  bool // the hand-written stream: every run also under the loader's other pre-fetch hooks
	hookHist map[string]int
}

// hooksFor: the loader's other pre-fetch hooks (rate limiting, tracing) under which (operation oi, decision di, mode)
// runs.  Hand-written stream: always without, and -- when something is denied -- pre-fetch mode under an allowing
// limiter plus one of (rejecting limiter | tracing | allowing limiter + tracing), legacy mode under one of (allowing
// limiter | tracing | both).  Generated stream: ONE run per (decision, mode): 5/10 without, 2/10 allowing limiter,
// 1/10 each allowing limiter + tracing, tracing, rejecting limiter (pre-fetch mode; legacy mode: allowing limiter).
func (g *genCtx) hooksFor(seed uint64, oi, di int, mode c14lab.Mode, d c14lab.Decisions) []c14lab.Hooks {
	if g.only != nil {
		return []c14lab.Hooks{c14lab.ParseHooks(g.only["hooks"])}
	}
	h := mix(seed, 4242, uint64(oi), uint64(di), uint64(mode))
	if g.fixture {
		out := []c14lab.Hooks{{}}
		if len(d) == 0 {
			return out
		}
		if mode == c14lab.Pre {
			return append(out, c14lab.Hooks{RateLimit: 1}, []c14lab.Hooks{{RateLimit: 2}, {Trace: true}, {RateLimit: 1, Trace: true}}[h%3])
		}
		return append(out, []c14lab.Hooks{{RateLimit: 1}, {Trace: true}, {RateLimit: 1, Trace: true}}[h%3])
	}
	switch k := h % 10; {
	case k < 5:
		return []c14lab.Hooks{{}}
	case k < 7:
		return []c14lab.Hooks{{RateLimit: 1}}
	case k == 7:
		return []c14lab.Hooks{{RateLimit: 1, Trace: true}}
	case k == 8:
		return []c14lab.Hooks{{Trace: true}}
	}
	if mode == c14lab.Pre {
		return []c14lab.Hooks{{RateLimit: 2}}
	}
	return []c14lab.Hooks{{RateLimit: 1}}
}

// decisionsFor enumerates the decision functions over the domain: all of them when the domain
// has at most 6 coordinates, else maxd random ones (always including allow-all and deny-all).
func decisionsFor(r *common.Rand, domain []string, maxd int) (ds []c14lab.Decisions, exhaustive bool) {
	n := len(domain)
	if n <= 6 {
		for m := 0; m < 1<<n; m++ {
			d := c14lab.Decisions{}
			for i, c := range domain {
				if m&(1<<i) != 0 {
					d[c] = true
				}
			}
			ds = append(ds, d)
		}
		return ds, true
	}
	all := c14lab.Decisions{}
	for _, c := range domain {
		all[c] = true
	}
	ds = append(ds, c14lab.Decisions{}, all)
	for len(ds) < maxd {
		d := c14lab.Decisions{}
		num := 1 + r.Pick(5) // density 1/6 .. 5/6
		for _, c := range domain {
			if r.Chance(num, 6) {
				d[c] = true
			}
		}
		ds = append(ds, d)
	}
	return ds, false
}

// runOps: prepare each operation on the fixture and run every (decision, mode).
func (g *genCtx) runOps(fx *c14lab.Fix, idPrefix string, ops []*c14lab.Op, seed uint64) {
	g.runOpsIdx(fx, idPrefix, ops, nil, seed)
}

func (g *genCtx) runOpsIdx(fx *c14lab.Fix, idPrefix string, ops []*c14lab.Op, idx []int, seed uint64) {
	refID := "c14ref"
	ts, tu := c14lab.TwinReference(fx.Lab.Config.Super, fx.Lab.Universe, fx.P)
	if err := g.exec.Def(refID, ts, tu); err != nil {
		g.out.Line(common.L("c14", "op", common.L("id", idPrefix), common.L("laberror", common.QS("twin reference: "+err.Error()))))
		g.st.labErrors++
		return
	}
	defer g.exec.Undef(refID)
	for oi, op := range ops {
		if idx != nil {
			oi = idx[oi]
		}
		if g.onlyOp >= 0 && oi != g.onlyOp {
			continue
		}
		id := common.L("id", idPrefix, common.I(oi))
		g.st.ops++
		c := c14lab.Prepare(fx, id, op, refID)
		if c.Skip != "" {
			g.st.skipped++
			key := strings.SplitN(c.Skip, ":", 2)[0]
			g.st.skipReasons[key]++
			if strings.HasPrefix(c.Skip, "lab") {
				g.st.labErrors++
				g.out.Line(common.L("c14", "op", id, common.L("laberror", common.QS(c.Skip))))
			} else if g.strict && strings.HasPrefix(c.Skip, "baseline") {
				g.out.Line(common.L("c14", "baseline", id, common.L("reason", common.QS(c.Skip)), common.L("text", common.QS(c.Text))))
			} else {
				g.out.Line(common.L("c14", "skip", id, common.L("reason", common.QS(c.Skip)), common.L("text", common.QS(c.Text))))
			}
			continue
		}
		g.out.Line(c.OpLine())
		r := common.NewRand(mix(seed, 99, uint64(oi)))
		ds, ex := decisionsFor(r, c.Domain, g.maxd)
		if ex {
			g.st.exhaustive++
		} else {
			g.st.sampled++
		}
		g.st.domainHist[len(c.Domain)]++
		for di, d := range ds {
			if g.only != nil && g.only["d"] != "" && g.only["d"] != d.String() && !(g.only["d"] == "-" && d.String() == "") {
				continue
			}
			for _, mode := range []c14lab.Mode{c14lab.Post, c14lab.Pre} {
				if g.only != nil && g.only["mode"] != "" && g.only["mode"] != mode.String() {
					continue
				}
				for _, h := range g.hooksFor(seed, oi, di, mode, d) {
					line, _ := c.RunLineHooks(mode, d, h)
					g.out.Line(line)
					g.st.runs++
					g.hookHist[h.String()]++
				}
			}
		}
	}
}

// reachedCoords: the plan-time coordinates the operations reach over the universe (monolithic
// shadow run with every field counted as protected).
func reachedCoords(exec *fedlab.ExecServer, cfg *fedlab.Config, uni *fedlab.Universe, ops []*c14lab.Op) (planTime []string, err error) {
	all := map[string]bool{}
	for _, td := range cfg.Super.Types {
		if td.Kind == fedlab.KObject || td.Kind == fedlab.KInterface {
			for _, fd := range td.Fields {
				all[td.Name+"."+fd.Name] = true
			}
		}
	}
	if err := exec.Def("c14shadow", cfg.Super, uni); err != nil {
		return nil, err
	}
	defer exec.Undef("c14shadow")
	seen := map[string]bool{}
	for _, op := range ops {
		w := c14lab.NewWalker(cfg.Super, op, all)
		dump, err := fedlab.DumpOperation(w.Instrumented().Text())
		if err != nil {
			continue
		}
		vars, _ := fedlab.ParseJSON([]byte(op.VariablesJSON()))
		res, err := exec.Exec("c14shadow", "mono", dump, op.Name, vars)
		if err != nil || res.Invalid != "" {
			continue
		}
		a := w.Analyze(res.Data, c14lab.None, nil)
		for k := range a.Domain {
			seen[k] = true
		}
	}
	return c14lab.SortedKeys(seen), nil
}

// pickP: 2..7 of the reached plan-time coordinates plus up to two unreached ones; closed across
// interfaces unless open is set.
func pickP(r *common.Rand, s *fedlab.Schema, reached []string, open bool) map[string]bool {
	P := map[string]bool{}
	if len(reached) > 0 {
		k := 2 + r.Pick(6)
		for i := 0; i < k; i++ {
			P[common.PickOf(r, reached)] = true
		}
	}
	for i := 0; i < r.Pick(3); i++ {
		td := common.PickOf(r, s.Types)
		if (td.Kind == fedlab.KObject || td.Kind == fedlab.KInterface) && len(td.Fields) > 0 {
			P[td.Name+"."+common.PickOf(r, td.Fields).Name] = true
		}
	}
	if open {
		// rules on a concrete coordinate only, where the same field is also selectable through an
		// interface the type implements (the conditioned occurrence of `f ... on T { f }`)
		var impl []string
		for _, tf := range reached {
			t, f := c14lab.SplitTF(tf)
			if td := s.Type(t); td != nil && td.Kind == fedlab.KObject {
				for _, i := range td.Implements {
					if it := s.Type(i); it != nil && it.Field(f) != nil {
						impl = append(impl, tf)
						break
					}
				}
			}
		}
		for i := 0; len(impl) > 0 && i < 2; i++ {
			P[common.PickOf(r, impl)] = true
		}
		return P
	}
	return c14lab.Closure(s, P)
}

// gen -seed S -n NCFG [-from I] [-maxd 200] [-knobs K] -out FILE
func cmdGen(a map[string]string) {
	seed := common.ArgU64(a, "seed", 1)
	n := common.ArgInt(a, "n", 10)
	from := common.ArgInt(a, "from", 0)
	maxKnobs := fedlab.ParseKnobs(a["knobs"])
	exec, err := fedlab.NewExecServer("")
	if err != nil {
		fmt.Println("exec server:", err)
		os.Exit(2)
	}
	defer exec.Close()
	out := common.NewOut(a["out"])
	defer out.Close()
	g := &genCtx{exec: exec, out: out, maxd: common.ArgInt(a, "maxd", 200), st: &stats{skipReasons: map[string]int{}, domainHist: map[int]int{}}, onlyOp: common.ArgInt(a, "op", -1), hookHist: map[string]int{}}
	if a["mode"] != "" || a["d"] != "" || a["hooks"] != "" {
		g.only = map[string]string{"mode": a["mode"], "d": a["d"], "hooks": a["hooks"]}
	}
	onlyP := common.ArgInt(a, "p", -1)
	for ci := from; ci < from+n; ci++ {
		k := fedlab.KnobsFor(seed, ci, maxKnobs)
		cfg := fedlab.BuildConfig(seed, ci, k)
		uni := c14lab.Sentinelize(cfg.Super, fedlab.BuildUniverse(seed, ci, 0, k, cfg))
		var ops []*c14lab.Op
		for oi := 0; oi < fedlab.OpsPerConfig; oi++ {
			ops = append(ops, &c14lab.Op{Kind: "query", Operation: fedlab.BuildOperation(seed, ci*fedlab.OpsPerConfig+oi, k, cfg, uni)})
		}
		// every fourth configuration: up to three list-valued composite fields become lists of lists
		var nested []string
		if ci%4 == 1 {
			nested = c14lab.NestLists(cfg, uni, common.NewRand(mix(seed, uint64(ci), 77)), 3)
			g.st.nestedCfgs += btoi(len(nested) > 0)
			g.st.nestedFields += len(nested)
		}
		reached, err := reachedCoords(exec, cfg, uni, ops)
		if err != nil {
			out.Line(common.L("c14", "op", common.L("id", "gen", common.I64(int64(seed)), common.I(ci)), common.L("laberror", common.QS(err.Error()))))
			continue
		}
		g.st.cfgs++
		for pi := 0; pi < 2; pi++ {
			if onlyP >= 0 && pi != onlyP {
				continue
			}
			r := common.NewRand(mix(seed, uint64(ci), uint64(pi), 5))
			// the second protected set of every third configuration is NOT closed across interfaces
			open := pi == 1 && ci%3 == 0
			P := pickP(r, cfg.Super, reached, open)
			fx, err := c14lab.NewFix(cfg, uni, exec, P)
			if err != nil {
				out.Line(common.L("c14", "op", common.L("id", "gen", common.I64(int64(seed)), common.I(ci), common.I(pi)), common.L("laberror", common.QS("lab: "+err.Error()))))
				g.st.labErrors++
				continue
			}
			g.st.fixes++
			g.runOps(fx, fmt.Sprintf("gen %d %d %d", seed, ci, pi), ops, mix(seed, uint64(ci), uint64(pi)))
			fx.Close()
		}
	}
	g.summary()
}

func (g *genCtx) summary() {
	var dh []string
	var ks []int
	for k := range g.st.domainHist {
		ks = append(ks, k)
	}
	sort.Ints(ks)
	for _, k := range ks {
		dh = append(dh, fmt.Sprintf("%d:%d", k, g.st.domainHist[k]))
	}
	var sr []string
	for k, v := range g.st.skipReasons {
		sr = append(sr, fmt.Sprintf("%s=%d", k, v))
	}
	sort.Strings(sr)
	var hh []string
	for k, v := range g.hookHist {
		hh = append(hh, fmt.Sprintf("%s=%d", k, v))
	}
	sort.Strings(hh)
	fmt.Printf("c14: cfgs=%d fixes=%d ops=%d skipped=%d (%s) runs=%d exhaustive=%d sampled=%d domain_hist=%s hooks=%s nested_list_cfgs=%d nested_list_fields=%d laberrors=%d execcalls=%d\n",
		g.st.cfgs, g.st.fixes, g.st.ops, g.st.skipped, strings.Join(sr, ","), g.st.runs, g.st.exhaustive, g.st.sampled, strings.Join(dh, " "), strings.Join(hh, ","), g.st.nestedCfgs, g.st.nestedFields, g.st.labErrors, g.exec.Calls)
}

// fixture -out FILE [-name iface|mut] : the hand-written configurations with their operation lists
// and protected sets, all decision functions.
func cmdFixture(a map[string]string) {
	exec, err := fedlab.NewExecServer("")
	if err != nil {
		fmt.Println("exec server:", err)
		os.Exit(2)
	}
	defer exec.Close()
	out := common.NewOut(a["out"])
	defer out.Close()
	g := &genCtx{exec: exec, out: out, maxd: common.ArgInt(a, "maxd", 200), st: &stats{skipReasons: map[string]int{}, domainHist: map[int]int{}}, onlyOp: common.ArgInt(a, "op", -1), hookHist: map[string]int{}, fixture: true}
	if a["mode"] != "" || a["d"] != "" || a["hooks"] != "" {
		g.only = map[string]string{"mode": a["mode"], "d": a["d"], "hooks": a["hooks"]}
	}
	onlyP := common.ArgInt(a, "p", -1)
	for _, f := range c14lab.Fixtures() {
		if a["name"] != "" && a["name"] != f.Name {
			continue
		}
		cfg, uni := f.Build()
		g.strict = f.StrictBaseline
		g.st.cfgs++
		var ops []*c14lab.Op
		for _, t := range f.Ops {
			op, err := c14lab.ParseOp(t, fedlab.JO())
			if err != nil {
				fmt.Println("fixture operation does not parse:", t, err)
				os.Exit(2)
			}
			ops = append(ops, op)
		}
		for pi, pl := range f.Ps {
			if onlyP >= 0 && pi != onlyP {
				continue
			}
			P := map[string]bool{}
			for _, x := range pl {
				P[x] = true
			}
			fx, err := c14lab.NewFix(cfg, uni, exec, P)
			if err != nil {
				out.Line(common.L("c14", "op", common.L("id", "fix", f.Name, common.I(pi)), common.L("laberror", common.QS("lab: "+err.Error()))))
				continue
			}
			g.st.fixes++
			g.runOps(fx, fmt.Sprintf("fix %s %d", f.Name, pi), ops, mix(7, uint64(pi)))
			fx.Close()
		}
	}
	g.summary()
}
