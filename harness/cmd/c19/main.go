// c19: drives the real WebSocket subscription handlers of /repo/execution/subscription
// (websocket.Handle -> subscription.UniversalProtocolHandler -> ProtocolGraphQLTransportWSHandler /
// ProtocolGraphQLWSHandler -> ExecutorEngine) with generated client message sequences and a
// scripted executor pool, and prints per step what reached the TransportClient.
//
// The harness owns three things only: a fake TransportClient (the socket), a scripted
// ExecutorPool (the GraphQL engine behind the server) and an InitFunc.  Every step waits for an
// exactly defined quiescent point -- the read loop is back in ReadBytesFromClient (or has
// returned) and every operation goroutine is parked inside Executor.Execute (or has handed its
// executor back) -- so the interleaving of client messages and executor events is the recorded
// one.  Timers are real: they are configured to one hour ("far") or to a few tens of ms and a
// fired timer is an input event of the recorded sequence.
//
//	c19 gen    -seed S -tier quick|thorough -out FILE
//	c19 corpus -in FILE -out FILE
//
// Output, one line per case:
//
//	(c19 tws|gws CFG (steps (INPUT (outs OUT...) (live (TOK ID s|q)...))...) (exit t|f))
package main

import (
	"bytes"
	"crypto/sha1"
	"context"
	"encoding/json"
	"errors"
	"fmt"
	"net"
	"os"
	"strconv"
	"strings"
	"sync"
	"time"

	"github.com/gobwas/ws"

	"gvh/common"

	"github.com/wundergraph/graphql-go-tools/execution/subscription"
	"github.com/wundergraph/graphql-go-tools/execution/subscription/websocket"
	"github.com/wundergraph/graphql-go-tools/v2/pkg/ast"
	"github.com/wundergraph/graphql-go-tools/v2/pkg/engine/resolve"
)

const (
	watchdog       = 2 * time.Second
	updateInterval = 300 * time.Microsecond // subscription update interval: Execute is re-entered at once
	shortInit      = 40 * time.Millisecond
	shortBeat      = 25 * time.Millisecond
	far            = time.Hour
	// "far" for the init timer: its goroutine cannot be stopped from outside (only by an accepted
	// connection_init), so it is made to end by itself long after the case is over
	farInit = 90 * time.Second
)

// ----------------------------------------------------------------------------- inputs

type inp struct {
	kind    string // init ping pong sub complete start stop terminate badjson wrongshape unknown flush ret inittimeout tick clientclose
	id      int
	arg     string // init: none|accept|reject   sub/start: s|q|nopayload|getfail   ret: ok|data|err
	tok     int    // flush/ret: concrete goroutine token (resolved at run time when pick >= 0)
	pick    int    // flush/ret: choose live[pick % len(live)]; -1: tok is concrete
	variant int    // which wire rendering
	again   bool   // ret: observed -- the goroutine entered Execute again (go) or ended (end)
}

func (x inp) isClient() bool {
	switch x.kind {
	case "flush", "ret", "inittimeout", "tick", "clientclose":
		return false
	}
	return true
}

func (x inp) String() string {
	switch x.kind {
	case "init":
		return "(init " + x.arg + ")"
	case "sub", "start":
		return fmt.Sprintf("(%s %d %s)", x.kind, x.id, x.arg)
	case "complete", "stop":
		return fmt.Sprintf("(%s %d)", x.kind, x.id)
	case "flush":
		return fmt.Sprintf("(flush %d)", x.tok)
	case "ret":
		if x.again {
			return fmt.Sprintf("(ret %d %s go)", x.tok, x.arg)
		}
		return fmt.Sprintf("(ret %d %s end)", x.tok, x.arg)
	}
	return "(" + x.kind + ")"
}

func idField(id int) string {
	if id == 0 {
		return ""
	}
	return fmt.Sprintf(`"id":"%d",`, id)
}

func opPayload(arg string) string {
	switch arg {
	case "s":
		return `,"payload":{"query":"subscription { s }"}`
	case "q":
		return `,"payload":{"query":"query { q }"}`
	case "getfail":
		return `,"payload":{"query":"fail"}`
	}
	return ""
}

var badJSON = []string{`{"type":`, `not json`, `{"type":"ping"} x`, `{"type":"ping"`, `{'type':'ping'}`, "\x00"}
var wrongShape = []string{`{"type":5}`, `[1,2]`, `"str"`, `123`, `{"id":7,"type":"ping"}`, `{"type":["ping"]}`, ``}
var unknownMsg = []string{`{"type":"foo"}`, `{}`, `null`, `{"type":"connection_ack"}`, `{"type":"next","id":"1"}`,
	`{"type":"Subscribe","id":"1"}`, `{"type":"ka"}`, `{"type":"data","id":"1"}`, `{"type":""}`, `{"typ":"ping"}`}

// wire renders a client input as the bytes put on the socket.
func (x inp) wire() []byte {
	v := x.variant
	switch x.kind {
	case "init":
		switch x.arg {
		case "accept":
			return []byte(`{"type":"connection_init","payload":{"ok":true}}`)
		case "reject":
			return []byte(`{"type":"connection_init","payload":{"reject":true}}`)
		}
		return []byte([]string{`{"type":"connection_init"}`, `{"type":"connection_init","extra":1}`, ` {"TYPE":"connection_init"} `}[v%3])
	case "ping":
		return []byte([]string{`{"type":"ping"}`, `{"type":"ping","payload":{"a":1}}`, `{"Type":"ping"}`}[v%3])
	case "pong":
		return []byte(`{"type":"pong"}`)
	case "sub":
		return []byte(`{` + idField(x.id) + `"type":"subscribe"` + opPayload(x.arg) + `}`)
	case "complete":
		return []byte(`{` + idField(x.id) + `"type":"complete"}`)
	case "start":
		return []byte(`{` + idField(x.id) + `"type":"start"` + opPayload(x.arg) + `}`)
	case "stop":
		return []byte(`{` + idField(x.id) + `"type":"stop"}`)
	case "terminate":
		return []byte(`{"type":"connection_terminate"}`)
	case "badjson":
		return []byte(badJSON[v%len(badJSON)])
	case "wrongshape":
		return []byte(wrongShape[v%len(wrongShape)])
	case "unknown":
		return []byte(unknownMsg[v%len(unknownMsg)])
	}
	return nil
}

// ----------------------------------------------------------------------------- the world of one connection

type outEv struct {
	closeCode int // >= 0: close frame
	typ       string
	id        int
	hb        bool
}

func (o outEv) String() string {
	if o.closeCode >= 0 {
		return fmt.Sprintf("(c %d)", o.closeCode)
	}
	if o.hb {
		return fmt.Sprintf("(m %s %d hb)", common.QS(o.typ), o.id)
	}
	return fmt.Sprintf("(m %s %d)", common.QS(o.typ), o.id)
}
func (o outEv) isBeat() bool { return o.closeCode < 0 && (o.hb || o.typ == "ka") }

type world struct {
	mu   sync.Mutex
	cond *sync.Cond

	connected   bool
	readCalls   int
	in          chan []byte
	closedCh    chan struct{}
	outs        []outEv
	handlerDone bool
	panicked    string

	execs []*exec // started operation goroutines, by token
	curID int
}

func newWorld() *world {
	w := &world{connected: true, in: make(chan []byte), closedCh: make(chan struct{})}
	w.cond = sync.NewCond(&w.mu)
	return w
}

// waitUntil blocks until pred() holds (checked under w.mu) or the timeout elapses.
func (w *world) waitUntil(timeout time.Duration, pred func() bool) bool {
	deadline := time.Now().Add(timeout)
	t := time.AfterFunc(timeout, func() { w.mu.Lock(); w.cond.Broadcast(); w.mu.Unlock() })
	defer t.Stop()
	w.mu.Lock()
	defer w.mu.Unlock()
	for !pred() {
		if !time.Now().Before(deadline) {
			return false
		}
		w.cond.Wait()
	}
	return true
}

// --- subscription.TransportClient (mirrors websocket.Client: once disconnected nothing reaches the wire)

func (w *world) ReadBytesFromClient() ([]byte, error) {
	w.mu.Lock()
	if !w.connected {
		w.mu.Unlock()
		return nil, subscription.ErrTransportClientClosedConnection
	}
	w.readCalls++
	w.cond.Broadcast()
	w.mu.Unlock()
	select {
	case b := <-w.in:
		return b, nil
	case <-w.closedCh:
		return nil, subscription.ErrTransportClientClosedConnection
	}
}

func parseID(s string) int {
	if s == "" {
		return 0
	}
	n, err := strconv.Atoi(s)
	if err != nil || n <= 0 {
		return 999999
	}
	return n
}

func (w *world) WriteBytesToClient(b []byte) error {
	var m struct {
		Id      string          `json:"id"`
		Type    string          `json:"type"`
		Payload json.RawMessage `json:"payload"`
	}
	perr := json.Unmarshal(b, &m)
	w.mu.Lock()
	defer w.mu.Unlock()
	if !w.connected {
		return subscription.ErrTransportClientClosedConnection
	}
	ev := outEv{closeCode: -1, typ: m.Type, id: parseID(m.Id)}
	if perr != nil {
		ev.typ = "!unparsable"
	}
	if m.Type == "pong" && bytes.Equal(bytes.TrimSpace(m.Payload), []byte(websocket.GraphQLTransportWSHeartbeatPayload)) {
		ev.hb = true
	}
	w.outs = append(w.outs, ev)
	w.cond.Broadcast()
	return nil
}

func (w *world) IsConnected() bool {
	w.mu.Lock()
	defer w.mu.Unlock()
	return w.connected
}

func (w *world) disconnect(code int, record bool) error {
	w.mu.Lock()
	defer w.mu.Unlock()
	if !w.connected {
		return errors.New("write on closed connection")
	}
	if record {
		w.outs = append(w.outs, outEv{closeCode: code})
	}
	w.connected = false
	close(w.closedCh)
	w.cond.Broadcast()
	return nil
}

func (w *world) Disconnect() error { return w.disconnect(0, true) }

func (w *world) DisconnectWithReason(reason any) error {
	code := 0
	switch r := reason.(type) {
	case websocket.CloseReason:
		p := ws.Frame(r).Payload
		if len(p) >= 2 {
			code = int(p[0])<<8 | int(p[1])
		}
	case websocket.CompiledCloseReason:
		if len(r) >= 4 {
			code = int(r[2])<<8 | int(r[3])
		}
	default:
		code = 4400 // websocket.Client sends 4400 "unknown reason" then
	}
	return w.disconnect(code, true)
}

// --- scripted executor pool

type exec struct {
	w        *world
	kind     string // s | q
	tok      int    // -1 until StartOperation got past the duplicate check
	id       int
	parks    int
	parked   bool
	finished bool
	cmd      chan string
}

type pool struct{ w *world }

func (p pool) Get(payload []byte) (subscription.Executor, error) {
	var req struct {
		Query string `json:"query"`
	}
	if err := json.Unmarshal(payload, &req); err != nil {
		return nil, err
	}
	switch {
	case strings.HasPrefix(req.Query, "subscription"):
		return &exec{w: p.w, kind: "s", tok: -1, cmd: make(chan string)}, nil
	case strings.HasPrefix(req.Query, "query"):
		return &exec{w: p.w, kind: "q", tok: -1, cmd: make(chan string)}, nil
	}
	return nil, errors.New("scripted pool: no executor for this request")
}

func (p pool) Put(e subscription.Executor) error {
	x := e.(*exec)
	p.w.mu.Lock()
	x.finished = true
	x.parked = false
	p.w.cond.Broadcast()
	p.w.mu.Unlock()
	return nil
}

// OperationType is called by StartOperation right after the duplicate-id check passed and right
// before the go statement: from here on the goroutine exists.
func (e *exec) OperationType() ast.OperationType {
	e.w.mu.Lock()
	if e.tok < 0 {
		e.tok = len(e.w.execs)
		e.id = e.w.curID
		e.w.execs = append(e.w.execs, e)
	}
	e.w.mu.Unlock()
	if e.kind == "s" {
		return ast.OperationTypeSubscription
	}
	return ast.OperationTypeQuery
}
func (e *exec) SetContext(context.Context) {}
func (e *exec) Reset()                     {}

var someData = []byte(`{"data":{"x":1}}`)

func (e *exec) Execute(wr resolve.SubscriptionResponseWriter) error {
	for {
		e.w.mu.Lock()
		e.parked = true
		e.parks++
		e.w.cond.Broadcast()
		e.w.mu.Unlock()
		c := <-e.cmd
		e.w.mu.Lock()
		e.parked = false
		e.w.mu.Unlock()
		switch c {
		case "flush":
			_, _ = wr.Write(someData)
			_ = wr.Flush()
		case "data":
			_, _ = wr.Write(someData)
			return nil
		case "err":
			return errors.New("scripted executor error")
		default:
			return nil
		}
	}
}

// ----------------------------------------------------------------------------- running one case

type cfg struct {
	name string // far | inittimeout | hb
	init time.Duration
	beat time.Duration
}

var cfgs = map[string]cfg{
	"far":         {"far", farInit, far},
	"inittimeout": {"inittimeout", shortInit, far},
	"hb":          {"hb", farInit, shortBeat},
}

type step struct {
	in    inp
	outs  []outEv
	live  string
	stuck string
}

type result struct {
	proto string
	cfg   string
	steps []step
	exit  bool
	retry bool // a timer fired inside another step: the run is not usable
}

func (r result) line() string {
	var sb strings.Builder
	sb.WriteString("(c19 " + r.proto + " " + r.cfg + " (steps")
	for _, s := range r.steps {
		sb.WriteString(" (" + s.in.String() + " (outs")
		for _, o := range s.outs {
			sb.WriteString(" " + o.String())
		}
		sb.WriteString(") (live" + s.live + ")")
		if s.stuck != "" {
			sb.WriteString(" (stuck " + common.QS(s.stuck) + ")")
		}
		if k := s.in.kind; k == "badjson" || k == "wrongshape" || k == "unknown" || (s.in.isClient() && s.in.variant != 0) {
			sb.WriteString(" (w " + common.Q(s.in.wire()) + ")")
		}
		sb.WriteString(")")
	}
	sb.WriteString(") (exit " + common.B(r.exit) + "))")
	return sb.String()
}

func (w *world) liveString() (string, []*exec) {
	var sb strings.Builder
	var l []*exec
	for _, e := range w.execs {
		if !e.finished {
			fmt.Fprintf(&sb, " (%d %d %s)", e.tok, e.id, e.kind)
			l = append(l, e)
		}
	}
	return sb.String(), l
}

// settle waits until every started operation goroutine is parked in Execute or gone.
func (w *world) settle() string {
	ok := w.waitUntil(watchdog, func() bool {
		for _, e := range w.execs {
			if !e.finished && !e.parked {
				return false
			}
		}
		return true
	})
	if !ok {
		return "operation goroutine neither parked nor finished"
	}
	return ""
}

func runCase(proto string, c cfg, script []inp) result {
	w := newWorld()
	res := result{proto: proto, cfg: c.name}
	conn, peer := net.Pipe()
	defer peer.Close()
	done := make(chan bool)
	errCh := make(chan error, 1)
	p := websocket.ProtocolGraphQLTransportWS
	if proto == "gws" {
		p = websocket.ProtocolGraphQLWS
	}
	initFunc := func(ctx context.Context, pl websocket.InitPayload) (context.Context, error) {
		if bytes.Contains(pl, []byte("reject")) {
			return ctx, errors.New("rejected by init func")
		}
		return ctx, nil
	}
	go func() {
		defer func() {
			if r := recover(); r != nil {
				w.mu.Lock()
				w.panicked = fmt.Sprint(r)
				w.mu.Unlock()
			}
			w.mu.Lock()
			w.handlerDone = true
			w.cond.Broadcast()
			w.mu.Unlock()
		}()
		websocket.Handle(done, errCh, conn, pool{w},
			websocket.WithProtocol(p),
			websocket.WithCustomClient(w),
			websocket.WithInitFunc(initFunc),
			websocket.WithCustomSubscriptionUpdateInterval(updateInterval),
			websocket.WithCustomKeepAliveInterval(c.beat),
			websocket.WithCustomConnectionInitTimeOut(c.init),
		)
	}()
	select {
	case <-done:
	case <-time.After(watchdog):
		res.steps = append(res.steps, step{in: inp{kind: "clientclose"}, stuck: "handler did not start"})
		return res
	}
	// the read loop reaches its first read only after EventTypeOnConnectionOpened was emitted
	w.waitUntil(watchdog, func() bool { return w.readCalls > 0 || w.handlerDone })

	mark := 0 // outputs before mark belong to earlier steps
	record := func(x inp, stuck string) {
		if s := w.settle(); s != "" && stuck == "" {
			stuck = s
		}
		w.mu.Lock()
		outs := append([]outEv(nil), w.outs[mark:]...)
		mark = len(w.outs)
		live, _ := w.liveString()
		if w.panicked != "" && stuck == "" {
			stuck = "panic: " + w.panicked
		}
		w.mu.Unlock()
		// timers are asynchronous: a heartbeat that arrives during another step is recorded as a
		// tick of its own right after that step; an init timeout that fires during another step
		// makes the run unusable (retried by the caller)
		var own, beats []outEv
		for _, o := range outs {
			if o.isBeat() && x.kind != "tick" {
				beats = append(beats, o)
			} else {
				own = append(own, o)
			}
			if o.closeCode == 4408 && x.kind != "inittimeout" && c.name == "inittimeout" {
				res.retry = true
			}
		}
		if x.kind == "tick" && len(own) > 1 {
			beats = own[1:]
			own = own[:1]
		}
		res.steps = append(res.steps, step{in: x, outs: own, live: live, stuck: stuck})
		for _, b := range beats {
			res.steps = append(res.steps, step{in: inp{kind: "tick"}, outs: []outEv{b}, live: live})
		}
	}

	release := func(e *exec, c string) string {
		w.mu.Lock()
		parks := e.parks
		w.mu.Unlock()
		select {
		case e.cmd <- c:
		case <-time.After(watchdog):
			return "executor not parked"
		}
		if !w.waitUntil(watchdog, func() bool { return e.parks > parks || e.finished }) {
			return "operation goroutine did not come back"
		}
		return ""
	}

	for _, x := range script {
		w.mu.Lock()
		connected := w.connected
		w.mu.Unlock()
		switch {
		case x.isClient():
			if !connected {
				continue // nobody reads any more: not part of the recorded sequence
			}
			w.mu.Lock()
			n := w.readCalls
			w.curID = x.id
			w.mu.Unlock()
			stuck := ""
			select {
			case w.in <- x.wire():
				if !w.waitUntil(watchdog, func() bool { return w.readCalls > n || w.handlerDone }) {
					stuck = "read loop neither reads again nor returns"
				}
			case <-w.closedCh:
				continue
			case <-time.After(watchdog):
				stuck = "read loop does not read"
			}
			record(x, stuck)
		case x.kind == "flush" || x.kind == "ret":
			w.mu.Lock()
			_, live := w.liveString()
			w.mu.Unlock()
			var e *exec
			if x.pick >= 0 {
				if len(live) == 0 {
					continue
				}
				e = live[x.pick%len(live)]
				x.tok = e.tok
				x.pick = -1
			} else {
				for _, l := range live {
					if l.tok == x.tok {
						e = l
					}
				}
			}
			stuck := ""
			if e != nil {
				c := x.arg
				if x.kind == "flush" {
					c = "flush"
				}
				stuck = release(e, c)
				w.mu.Lock()
				x.again = !e.finished
				w.mu.Unlock()
			}
			record(x, stuck)
		case x.kind == "inittimeout":
			w.waitUntil(6*c.init+50*time.Millisecond, func() bool { return !w.connected })
			w.waitUntil(watchdog, func() bool { return w.connected || w.handlerDone })
			record(x, "")
		case x.kind == "tick":
			w.mu.Lock()
			n := len(w.outs)
			w.mu.Unlock()
			w.waitUntil(8*c.beat, func() bool { return len(w.outs) > n })
			record(x, "")
		case x.kind == "clientclose":
			if !connected {
				continue
			}
			_ = w.disconnect(0, false)
			stuck := ""
			if !w.waitUntil(watchdog, func() bool { return w.handlerDone }) {
				stuck = "handler does not return after the client left"
			}
			record(x, stuck)
		}
	}
	// the client leaves, the handler must return, every goroutine must drain
	w.mu.Lock()
	connected := w.connected
	w.mu.Unlock()
	if connected {
		_ = w.disconnect(0, false)
		stuck := ""
		if !w.waitUntil(watchdog, func() bool { return w.handlerDone }) {
			stuck = "handler does not return after the client left"
		}
		record(inp{kind: "clientclose"}, stuck)
	} else {
		w.waitUntil(watchdog, func() bool { return w.handlerDone })
	}
	for {
		w.mu.Lock()
		_, live := w.liveString()
		w.mu.Unlock()
		if len(live) == 0 {
			break
		}
		e := live[0]
		stuck := release(e, "data")
		w.mu.Lock()
		again := !e.finished
		w.mu.Unlock()
		record(inp{kind: "ret", tok: e.tok, arg: "data", pick: -1, again: again}, stuck)
		if stuck != "" {
			break
		}
	}
	w.mu.Lock()
	_, live := w.liveString()
	res.exit = w.handlerDone && len(live) == 0 && w.panicked == ""
	w.mu.Unlock()
	return res
}

func runWithRetry(proto string, c cfg, script []inp) result {
	var r result
	for i := 0; i < 4; i++ {
		r = runCase(proto, c, script)
		if !r.retry {
			break
		}
	}
	return r
}

// ----------------------------------------------------------------------------- generators

type job struct {
	proto  string
	cfg    string
	script []inp
}

func env(kind, arg string, pick int) inp { return inp{kind: kind, arg: arg, pick: pick} }

func alphabet(proto string, wide bool) []inp {
	var a []inp
	if proto == "tws" {
		a = []inp{
			{kind: "init", arg: "none"},
			{kind: "sub", id: 1, arg: "s"}, {kind: "sub", id: 1, arg: "q"}, {kind: "sub", id: 2, arg: "s"},
			{kind: "complete", id: 1},
			{kind: "ping"}, {kind: "badjson"},
		}
		if wide {
			a = append(a, inp{kind: "complete", id: 2}, inp{kind: "unknown"}, inp{kind: "sub", id: 2, arg: "q"})
		}
	} else {
		a = []inp{
			{kind: "init", arg: "none"},
			{kind: "start", id: 1, arg: "s"}, {kind: "start", id: 1, arg: "q"}, {kind: "start", id: 2, arg: "s"},
			{kind: "stop", id: 1},
			{kind: "terminate"}, {kind: "badjson"},
		}
		if wide {
			a = append(a, inp{kind: "stop", id: 2}, inp{kind: "init", arg: "reject"}, inp{kind: "start", id: 2, arg: "q"})
		}
	}
	a = append(a, env("flush", "", 0), env("ret", "data", 0), env("ret", "err", 0), env("ret", "ok", 0))
	if wide {
		a = append(a, env("ret", "data", 1), env("flush", "", 1))
	}
	return a
}

// couldHaveLive: a cheap necessary condition for an environment symbol to find a live goroutine,
// used only to prune the enumeration (the run itself skips environment symbols that find none).
func prune(proto string, seq []inp) bool {
	started := false
	inited := proto == "gws"
	for _, x := range seq {
		switch x.kind {
		case "init":
			inited = true
		case "sub", "start":
			if inited && (x.arg == "s" || x.arg == "q") {
				started = true
			}
		case "flush", "ret":
			if !started {
				return true
			}
		}
	}
	return false
}

func enumerate(proto string, a []inp, maxLen int, prefix []inp, emit func(job)) {
	var rec func(seq []inp)
	rec = func(seq []inp) {
		if len(seq) > len(prefix) {
			emit(job{proto, "far", append([]inp(nil), seq...)})
		}
		if len(seq)-len(prefix) >= maxLen {
			return
		}
		for _, x := range a {
			next := append(seq, x)
			if prune(proto, next) {
				continue
			}
			rec(next)
		}
	}
	rec(append([]inp(nil), prefix...))
}

func randomInput(r *common.Rand, proto string, malformed bool) inp {
	id := r.Pick(4) // 0 = no id
	if r.Chance(3, 4) {
		id = 1 + r.Pick(2)
	}
	pl := func() string {
		switch r.Pick(10) {
		case 0:
			return "nopayload"
		case 1:
			return "getfail"
		case 2, 3, 4:
			return "q"
		}
		return "s"
	}
	v := r.Pick(1000)
	k := r.Pick(100)
	if malformed {
		switch {
		case k < 20:
			return inp{kind: "badjson", variant: v}
		case k < 40:
			return inp{kind: "wrongshape", variant: v}
		case k < 60:
			return inp{kind: "unknown", variant: v}
		case k < 70:
			// the other protocol's vocabulary
			if proto == "tws" {
				return common.PickOf(r, []inp{{kind: "start", id: id, arg: pl()}, {kind: "stop", id: id}, {kind: "terminate"}})
			}
			return common.PickOf(r, []inp{{kind: "sub", id: id, arg: pl()}, {kind: "complete", id: id}, {kind: "ping"}, {kind: "pong"}})
		}
		k = r.Pick(100)
	}
	own := func(a, b inp) inp {
		if proto == "tws" {
			return a
		}
		return b
	}
	switch {
	case k < 10:
		return inp{kind: "init", arg: common.PickOf(r, []string{"none", "none", "accept", "reject"}), variant: v}
	case k < 35:
		return own(inp{kind: "sub", id: id, arg: pl()}, inp{kind: "start", id: id, arg: pl()})
	case k < 50:
		return own(inp{kind: "complete", id: id}, inp{kind: "stop", id: id})
	case k < 55:
		return own(inp{kind: "ping", variant: v}, inp{kind: "terminate"})
	case k < 58:
		return own(inp{kind: "pong"}, inp{kind: "init", arg: "none", variant: v})
	case k < 70:
		return env("flush", "", r.Pick(8))
	case k < 95:
		return env("ret", common.PickOf(r, []string{"ok", "data", "data", "err"}), r.Pick(8))
	case k < 97:
		return inp{kind: "badjson", variant: v}
	case k < 98:
		return inp{kind: "unknown", variant: v}
	}
	return inp{kind: "wrongshape", variant: v}
}

func randomScript(r *common.Rand, proto string, malformed bool) []inp {
	n := 6 + r.Pick(30)
	var s []inp
	if proto == "tws" && r.Chance(9, 10) {
		s = append(s, inp{kind: "init", arg: common.PickOf(r, []string{"none", "accept"})})
	}
	for len(s) < n {
		s = append(s, randomInput(r, proto, malformed && r.Chance(1, 3)))
	}
	return s
}

func timerJobs() []job {
	i := func(a string) inp { return inp{kind: "init", arg: a} }
	to, tick := inp{kind: "inittimeout"}, inp{kind: "tick"}
	sub := func(id int, a string) inp { return inp{kind: "sub", id: id, arg: a} }
	start := func(id int, a string) inp { return inp{kind: "start", id: id, arg: a} }
	return []job{
		{"tws", "inittimeout", []inp{to}},
		{"tws", "inittimeout", []inp{{kind: "ping"}, to}},
		{"tws", "inittimeout", []inp{i("none"), to, sub(1, "s"), env("flush", "", 0)}},
		{"tws", "inittimeout", []inp{i("accept"), sub(1, "q"), to, env("ret", "data", 0)}},
		{"tws", "inittimeout", []inp{{kind: "complete", id: 1}, {kind: "wrongshape"}, to}},
		{"tws", "inittimeout", []inp{{kind: "pong"}, to, to}},
		{"gws", "inittimeout", []inp{to, start(1, "s"), env("flush", "", 0)}},
		{"tws", "hb", []inp{i("none"), tick, sub(1, "s"), env("flush", "", 0), tick, {kind: "complete", id: 1}}},
		{"tws", "hb", []inp{tick}},
		{"tws", "hb", []inp{i("none"), i("none"), tick}},
		{"tws", "hb", []inp{i("none"), {kind: "ping"}, tick, tick}},
		{"gws", "hb", []inp{i("none"), tick, start(1, "q"), tick, env("ret", "data", 0)}},
		{"gws", "hb", []inp{i("none"), i("accept"), tick, tick, tick}},
		{"gws", "hb", []inp{tick}},
		{"gws", "hb", []inp{start(1, "s"), i("reject"), tick, i("none"), tick, {kind: "stop", id: 1}}},
	}
}

// ----------------------------------------------------------------------------- corpus / parsing

func tokens(s string) []string {
	s = strings.NewReplacer("(", " ( ", ")", " ) ").Replace(s)
	return strings.Fields(s)
}

func parseScript(line string) (job, error) {
	t := tokens(line)
	if len(t) < 2 {
		return job{}, errors.New("short line")
	}
	j := job{proto: t[0], cfg: t[1]}
	if j.proto != "tws" && j.proto != "gws" {
		return j, errors.New("protocol " + j.proto)
	}
	if _, ok := cfgs[j.cfg]; !ok {
		return j, errors.New("config " + j.cfg)
	}
	i := 2
	for i < len(t) {
		if t[i] != "(" {
			return j, errors.New("( expected")
		}
		k := i + 1
		for k < len(t) && t[k] != ")" {
			k++
		}
		if k >= len(t) {
			return j, errors.New(") expected")
		}
		f := t[i+1 : k]
		i = k + 1
		if len(f) == 0 {
			return j, errors.New("empty input")
		}
		x := inp{kind: f[0], pick: -1}
		num := func(n int) int {
			if n < len(f) {
				v, _ := strconv.Atoi(f[n])
				return v
			}
			return 0
		}
		arg := func(n int) string {
			if n < len(f) {
				return f[n]
			}
			return ""
		}
		switch x.kind {
		case "init":
			x.arg = arg(1)
		case "sub", "start":
			x.id, x.arg = num(1), arg(2)
		case "complete", "stop":
			x.id = num(1)
		case "flush":
			x.tok = num(1)
		case "ret":
			x.tok, x.arg = num(1), arg(2)
		case "badjson", "wrongshape", "unknown", "ping":
			x.variant = num(1)
		case "pong", "terminate", "inittimeout", "tick", "clientclose":
		default:
			return j, errors.New("input kind " + x.kind)
		}
		j.script = append(j.script, x)
	}
	return j, nil
}

// ----------------------------------------------------------------------------- main

func runJobs(jobs []job, workers int) []string {
	lines := make([]string, len(jobs))
	var wg sync.WaitGroup
	ch := make(chan int, 256)
	for k := 0; k < workers; k++ {
		wg.Add(1)
		go func() {
			defer wg.Done()
			for i := range ch {
				j := jobs[i]
				lines[i] = runWithRetry(j.proto, cfgs[j.cfg], j.script).line()
			}
		}()
	}
	for i := range jobs {
		ch <- i
	}
	close(ch)
	wg.Wait()
	return lines
}

type sink struct {
	out     *common.Out
	workers int
	buf     []job
	seen    map[[20]byte]bool
	written int
}

func (s *sink) add(j job) {
	s.buf = append(s.buf, j)
	if len(s.buf) >= 40000 {
		s.flush()
	}
}

func (s *sink) flush() {
	for _, l := range runJobs(s.buf, s.workers) {
		h := sha1.Sum([]byte(l))
		if !s.seen[h] {
			s.seen[h] = true
			s.out.Line(l)
			s.written++
		}
	}
	s.buf = s.buf[:0]
}

func main() {
	if len(os.Args) < 2 {
		fmt.Fprintln(os.Stderr, "usage: c19 gen|corpus ...")
		os.Exit(2)
	}
	args := common.Args(os.Args[2:])
	out := common.NewOut(args["out"])
	defer out.Close()
	sk := &sink{out: out, workers: common.ArgInt(args, "workers", 16), seen: map[[20]byte]bool{}}
	switch os.Args[1] {
	case "corpus":
		data, err := os.ReadFile(args["in"])
		if err != nil {
			fmt.Fprintln(os.Stderr, err)
			os.Exit(1)
		}
		for n, l := range strings.Split(string(data), "\n") {
			l = strings.TrimSpace(l)
			if l == "" || strings.HasPrefix(l, "#") {
				continue
			}
			j, err := parseScript(l)
			if err != nil {
				fmt.Fprintf(os.Stderr, "corpus line %d: %v\n", n+1, err)
				os.Exit(1)
			}
			sk.add(j)
		}
	case "gen":
		seed := common.ArgU64(args, "seed", 1)
		thorough := args["tier"] == "thorough"
		depth := common.ArgInt(args, "depth", 5)
		nrand := common.ArgInt(args, "n", 3000)
		if thorough {
			depth = common.ArgInt(args, "depth", 6)
			nrand = common.ArgInt(args, "n", 100000)
		}
		for _, j := range timerJobs() {
			sk.add(j)
		}
		for _, proto := range []string{"tws", "gws"} {
			r := common.NewRand(seed*2 + map[string]uint64{"tws": 0, "gws": 1}[proto])
			for k := 0; k < nrand; k++ {
				sk.add(job{proto, "far", randomScript(r, proto, k%3 == 2)})
			}
			a := alphabet(proto, false)
			if proto == "tws" {
				// without an init nothing can start: all sequences to depth-1, and all sequences of
				// length depth+1 that begin with connection_init
				enumerate(proto, a, depth-1, nil, sk.add)
				enumerate(proto, a, depth, []inp{{kind: "init", arg: "none"}}, sk.add)
			} else {
				enumerate(proto, a, depth, nil, sk.add)
			}
			if thorough {
				// the wider alphabet (second ids, rejected init, unknown types, second goroutine picks) one level less deep
				w := alphabet(proto, true)
				if proto == "tws" {
					enumerate(proto, w, depth-1, []inp{{kind: "init", arg: "none"}}, sk.add)
				} else {
					enumerate(proto, w, depth-1, nil, sk.add)
				}
			}
		}
	case "race":
		// not part of the check: TerminateAllSubscriptions ranges over the subCancellations map without
		// its lock while operation goroutines delete from it under the lock
		raceProbe(common.ArgInt(args, "n", 200), common.ArgInt(args, "k", 64))
		return
	default:
		fmt.Fprintln(os.Stderr, "unknown subcommand")
		os.Exit(2)
	}
	sk.flush()
	fmt.Fprintf(os.Stderr, "c19: %d distinct cases\n", sk.written)
}

// raceProbe: K queries in flight on a legacy connection; their results arrive while the client
// sends connection_terminate (or simply leaves: the read loop's deferred TerminateAllSubscriptions).
func raceProbe(n, k int) {
	for it := 0; it < n; it++ {
		w := newWorld()
		conn, peer := net.Pipe()
		done := make(chan bool)
		errCh := make(chan error, 1)
		go func() {
			websocket.Handle(done, errCh, conn, pool{w}, websocket.WithProtocol(websocket.ProtocolGraphQLWS), websocket.WithCustomClient(w),
				websocket.WithCustomSubscriptionUpdateInterval(updateInterval), websocket.WithCustomKeepAliveInterval(far))
			w.mu.Lock()
			w.handlerDone = true
			w.cond.Broadcast()
			w.mu.Unlock()
		}()
		<-done
		for id := 1; id <= k; id++ {
			w.mu.Lock()
			w.curID = id
			w.mu.Unlock()
			w.in <- inp{kind: "start", id: id, arg: "q"}.wire()
		}
		w.waitUntil(watchdog, func() bool { return len(w.execs) == k })
		w.settle()
		w.mu.Lock()
		execs := append([]*exec(nil), w.execs...)
		w.mu.Unlock()
		var wg sync.WaitGroup
		for _, e := range execs {
			wg.Add(1)
			go func(e *exec) { defer wg.Done(); e.cmd <- "data" }(e)
		}
		if it%2 == 0 {
			w.in <- inp{kind: "terminate"}.wire()
		}
		_ = w.disconnect(0, false)
		wg.Wait()
		w.waitUntil(watchdog, func() bool { return w.handlerDone })
		peer.Close()
	}
	fmt.Println("race probe: no crash in", n, "rounds")
}
