package main

import (
	"fmt"
	"os"

	"github.com/wundergraph/graphql-go-tools/v2/pkg/engine/plan"
	"github.com/wundergraph/graphql-go-tools/v2/pkg/engine/postprocess"
	"github.com/wundergraph/graphql-go-tools/v2/pkg/engine/resolve"
)

func main() {
	mk := func(id int, deps ...int) *resolve.FetchItem {
		return &resolve.FetchItem{Fetch: &resolve.SingleFetch{FetchDependencies: resolve.FetchDependencies{FetchID: id, DependsOnFetchIDs: deps}}}
	}
	opts := []postprocess.ProcessorOption{postprocess.DisableDeduplicateSingleFetches(), postprocess.DisableMergeFields(),
		postprocess.DisableAddMissingNestedDependencies(), postprocess.DisableCollectAuthorizationCoordinates(),
		postprocess.DisableResolveInputTemplates()}
	if len(os.Args) > 1 && os.Args[1] == "sched" {
		opts = append(opts, postprocess.EnableScheduleFetches())
	}
	p := postprocess.NewProcessor(opts...)
	r := &resolve.GraphQLResponse{RawFetches: []*resolve.FetchItem{mk(0), mk(1, 2), mk(2, 1)}}
	defer func() { fmt.Println("recovered:", recover()) }()
	p.Process(&plan.SynchronousResponsePlan{Response: r})
	fmt.Println("returned", r.Fetches.Kind, len(r.Fetches.ChildNodes))
}
