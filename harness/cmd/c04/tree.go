package main

// The generator's own trees (schema and executable documents), their GraphQL text printer and
// their FEDLAB S-expression dump (used only when Go's parser rejects the text; otherwise the
// parsed ast.Document is dumped and the two dumps are compared as a self-check).

import (
	"strings"

	"gvh/common"
)

// ---------------------------------------------------------------- types
type Ty struct {
	Kind int // 0 named, 1 list, 2 non-null
	Name string
	Of   *Ty
}

func N(n string) *Ty   { return &Ty{Kind: 0, Name: n} }
func LT(t *Ty) *Ty     { return &Ty{Kind: 1, Of: t} }
func NN(t *Ty) *Ty     { return &Ty{Kind: 2, Of: t} }
func (t *Ty) Base() string {
	for t.Kind != 0 {
		t = t.Of
	}
	return t.Name
}
func (t *Ty) String() string {
	switch t.Kind {
	case 1:
		return "[" + t.Of.String() + "]"
	case 2:
		return t.Of.String() + "!"
	}
	return t.Name
}
func (t *Ty) Sexp() string {
	switch t.Kind {
	case 1:
		return "(list " + t.Of.Sexp() + ")"
	case 2:
		return "(nn " + t.Of.Sexp() + ")"
	}
	return "(named " + common.QS(t.Name) + ")"
}
func (t *Ty) IsNN() bool   { return t.Kind == 2 }
func (t *Ty) Nullable() *Ty {
	if t.Kind == 2 {
		return t.Of
	}
	return t
}
func tyEq(a, b *Ty) bool {
	if a.Kind != b.Kind {
		return false
	}
	if a.Kind == 0 {
		return a.Name == b.Name
	}
	return tyEq(a.Of, b.Of)
}

// ---------------------------------------------------------------- values
type ObjF struct {
	K string
	V *Val
}
type Val struct {
	Kind   string // var int float str bool null enum list obj
	S      string // name / raw
	B      bool   // bool value or block-string flag
	Items  []*Val
	Fields []ObjF
}

func (v *Val) Clone() *Val {
	if v == nil {
		return nil
	}
	c := *v
	c.Items = make([]*Val, len(v.Items))
	for i, x := range v.Items {
		c.Items[i] = x.Clone()
	}
	c.Fields = make([]ObjF, len(v.Fields))
	for i, f := range v.Fields {
		c.Fields[i] = ObjF{f.K, f.V.Clone()}
	}
	return &c
}
func (v *Val) Text() string {
	switch v.Kind {
	case "var":
		return "$" + v.S
	case "int", "float", "enum":
		return v.S
	case "str":
		if v.B {
			return `"""` + v.S + `"""`
		}
		return `"` + v.S + `"`
	case "bool":
		if v.B {
			return "true"
		}
		return "false"
	case "null":
		return "null"
	case "list":
		parts := make([]string, len(v.Items))
		for i, x := range v.Items {
			parts[i] = x.Text()
		}
		return "[" + strings.Join(parts, ", ") + "]"
	case "obj":
		parts := make([]string, len(v.Fields))
		for i, f := range v.Fields {
			parts[i] = f.K + ": " + f.V.Text()
		}
		return "{" + strings.Join(parts, ", ") + "}"
	}
	return "null"
}
func (v *Val) Sexp() string {
	switch v.Kind {
	case "var":
		return "(var " + common.QS(v.S) + ")"
	case "int":
		return "(int " + common.QS(v.S) + ")"
	case "float":
		return "(float " + common.QS(v.S) + ")"
	case "enum":
		return "(enum " + common.QS(v.S) + ")"
	case "str":
		return "(str " + common.QS(v.S) + " " + common.B(v.B) + ")"
	case "bool":
		return "(bool " + common.B(v.B) + ")"
	case "null":
		return "(null)"
	case "list":
		parts := []string{"list"}
		for _, x := range v.Items {
			parts = append(parts, x.Sexp())
		}
		return common.L(parts...)
	case "obj":
		parts := []string{"obj"}
		for _, f := range v.Fields {
			parts = append(parts, "("+common.QS(f.K)+" "+f.V.Sexp()+")")
		}
		return common.L(parts...)
	}
	return "(null)"
}
func (v *Val) Vars(acc []string) []string {
	switch v.Kind {
	case "var":
		acc = append(acc, v.S)
	case "list":
		for _, x := range v.Items {
			acc = x.Vars(acc)
		}
	case "obj":
		for _, f := range v.Fields {
			acc = f.V.Vars(acc)
		}
	}
	return acc
}

func VInt(s string) *Val   { return &Val{Kind: "int", S: s} }
func VStr(s string) *Val   { return &Val{Kind: "str", S: s} }
func VBool(b bool) *Val    { return &Val{Kind: "bool", B: b} }
func VNull() *Val          { return &Val{Kind: "null"} }
func VEnum(s string) *Val  { return &Val{Kind: "enum", S: s} }
func VVar(s string) *Val   { return &Val{Kind: "var", S: s} }
func VFloat(s string) *Val { return &Val{Kind: "float", S: s} }
func VList(items ...*Val) *Val {
	return &Val{Kind: "list", Items: items}
}
func VObj(fs ...ObjF) *Val { return &Val{Kind: "obj", Fields: fs} }

// ---------------------------------------------------------------- schema
type IV struct {
	Name string
	T    *Ty
	Def  *Val
}
type FD struct {
	Name string
	Args []IV
	T    *Ty
}
type TD struct {
	Kind    string // scalar object interface union enum input
	Name    string
	Impl    []string
	Fields  []*FD
	Members []string
	Values  []string
	Inputs  []IV
	OneOf   bool
}
type DD struct {
	Name string
	Args []IV
	Locs []string
	Rep  bool
}
type Schema struct {
	Q, M, S string
	Types   []*TD
	Dirs    []*DD
	by      map[string]*TD
}

func (s *Schema) Type(n string) *TD { return s.by[n] }
func (s *Schema) Kind(n string) string {
	if builtinScalars[n] {
		return "scalar"
	}
	if t := s.by[n]; t != nil {
		return t.Kind
	}
	return ""
}
func (s *Schema) IsComposite(n string) bool {
	k := s.Kind(n)
	return k == "object" || k == "interface" || k == "union"
}
func (t *TD) Field(n string) *FD {
	for _, f := range t.Fields {
		if f.Name == n {
			return f
		}
	}
	return nil
}
func (t *TD) Implements(i string) bool {
	for _, x := range t.Impl {
		if x == i {
			return true
		}
	}
	return false
}
func (s *Schema) Possible(n string) []string {
	t := s.by[n]
	if t == nil {
		return nil
	}
	switch t.Kind {
	case "object":
		return []string{n}
	case "union":
		return t.Members
	case "interface":
		var r []string
		for _, o := range s.Types {
			if o.Kind == "object" && o.Implements(n) {
				r = append(r, o.Name)
			}
		}
		return r
	}
	return nil
}
func (s *Schema) Overlap(a, b string) bool {
	pb := map[string]bool{}
	for _, x := range s.Possible(b) {
		pb[x] = true
	}
	for _, x := range s.Possible(a) {
		if pb[x] {
			return true
		}
	}
	return false
}
func (s *Schema) Dir(n string) *DD {
	for _, d := range s.Dirs {
		if d.Name == n {
			return d
		}
	}
	return nil
}

func ivsSDL(ivs []IV) string {
	parts := make([]string, len(ivs))
	for i, a := range ivs {
		parts[i] = a.Name + ": " + a.T.String()
		if a.Def != nil {
			parts[i] += " = " + a.Def.Text()
		}
	}
	return strings.Join(parts, ", ")
}

func (s *Schema) SDL() string {
	var sb strings.Builder
	sb.WriteString("schema { query: " + s.Q)
	if s.M != "" {
		sb.WriteString(" mutation: " + s.M)
	}
	if s.S != "" {
		sb.WriteString(" subscription: " + s.S)
	}
	sb.WriteString(" }\n")
	for _, d := range s.Dirs {
		sb.WriteString("directive @" + d.Name)
		if len(d.Args) > 0 {
			sb.WriteString("(" + ivsSDL(d.Args) + ")")
		}
		if d.Rep {
			sb.WriteString(" repeatable")
		}
		sb.WriteString(" on " + strings.Join(d.Locs, " | ") + "\n")
	}
	for _, t := range s.Types {
		switch t.Kind {
		case "scalar":
			sb.WriteString("scalar " + t.Name + "\n")
		case "enum":
			sb.WriteString("enum " + t.Name + " { " + strings.Join(t.Values, " ") + " }\n")
		case "union":
			sb.WriteString("union " + t.Name + " = " + strings.Join(t.Members, " | ") + "\n")
		case "input":
			sb.WriteString("input " + t.Name)
			if t.OneOf {
				sb.WriteString(" @oneOf")
			}
			sb.WriteString(" { " + strings.ReplaceAll(ivsSDL(t.Inputs), ", ", " ") + " }\n")
		case "object", "interface":
			kw := "type"
			if t.Kind == "interface" {
				kw = "interface"
			}
			sb.WriteString(kw + " " + t.Name)
			if len(t.Impl) > 0 {
				sb.WriteString(" implements " + strings.Join(t.Impl, " & "))
			}
			sb.WriteString(" {")
			for _, f := range t.Fields {
				sb.WriteString(" " + f.Name)
				if len(f.Args) > 0 {
					sb.WriteString("(" + ivsSDL(f.Args) + ")")
				}
				sb.WriteString(": " + f.T.String())
			}
			sb.WriteString(" }\n")
		}
	}
	return sb.String()
}

// ---------------------------------------------------------------- documents
type Arg struct {
	Name string
	V    *Val
}
type Dir struct {
	Name string
	Args []Arg
}
type Sel struct {
	Kind  int // 0 field, 1 inline fragment, 2 spread
	Alias string
	Name  string // field name / fragment name
	Cond  string // inline fragment type condition ("" = none)
	Args  []Arg
	Dirs  []Dir
	Sels  []*Sel
}
type VarDef struct {
	Name string
	T    *Ty
	Def  *Val
	Dirs []Dir
}
type Op struct {
	Kind string
	Name string
	Vars []*VarDef
	Dirs []Dir
	Sels []*Sel
}
type Frag struct {
	Name, On string
	Dirs     []Dir
	Sels     []*Sel
}
type Def struct {
	Op   *Op
	Frag *Frag
}
type Doc struct {
	Defs []Def
}

func cloneArgs(a []Arg) []Arg {
	r := make([]Arg, len(a))
	for i, x := range a {
		r[i] = Arg{x.Name, x.V.Clone()}
	}
	return r
}
func cloneDirs(d []Dir) []Dir {
	r := make([]Dir, len(d))
	for i, x := range d {
		r[i] = Dir{x.Name, cloneArgs(x.Args)}
	}
	return r
}
func (s *Sel) Clone() *Sel {
	c := *s
	c.Args = cloneArgs(s.Args)
	c.Dirs = cloneDirs(s.Dirs)
	c.Sels = cloneSels(s.Sels)
	return &c
}
func cloneSels(l []*Sel) []*Sel {
	r := make([]*Sel, len(l))
	for i, x := range l {
		r[i] = x.Clone()
	}
	return r
}
func (s *Sel) Key() string {
	if s.Alias != "" {
		return s.Alias
	}
	return s.Name
}

func argsText(a []Arg) string {
	if len(a) == 0 {
		return ""
	}
	parts := make([]string, len(a))
	for i, x := range a {
		parts[i] = x.Name + ": " + x.V.Text()
	}
	return "(" + strings.Join(parts, ", ") + ")"
}
func dirsText(d []Dir) string {
	var sb strings.Builder
	for _, x := range d {
		sb.WriteString(" @" + x.Name + argsText(x.Args))
	}
	return sb.String()
}
func selsText(l []*Sel) string {
	if len(l) == 0 {
		return ""
	}
	parts := make([]string, len(l))
	for i, s := range l {
		parts[i] = s.Text()
	}
	return " { " + strings.Join(parts, " ") + " }"
}
func (s *Sel) Text() string {
	switch s.Kind {
	case 0:
		t := s.Name
		if s.Alias != "" {
			t = s.Alias + ": " + s.Name
		}
		return t + argsText(s.Args) + dirsText(s.Dirs) + selsText(s.Sels)
	case 1:
		t := "..."
		if s.Cond != "" {
			t += " on " + s.Cond
		}
		return t + dirsText(s.Dirs) + selsText(s.Sels)
	}
	return "..." + s.Name + dirsText(s.Dirs)
}
func (o *Op) Text() string {
	var sb strings.Builder
	sb.WriteString(o.Kind)
	if o.Name != "" {
		sb.WriteString(" " + o.Name)
	}
	if len(o.Vars) > 0 {
		parts := make([]string, len(o.Vars))
		for i, v := range o.Vars {
			parts[i] = "$" + v.Name + ": " + v.T.String()
			if v.Def != nil {
				parts[i] += " = " + v.Def.Text()
			}
			parts[i] += dirsText(v.Dirs)
		}
		sb.WriteString("(" + strings.Join(parts, ", ") + ")")
	}
	sb.WriteString(dirsText(o.Dirs))
	sb.WriteString(selsText(o.Sels))
	return sb.String()
}
func (d *Doc) Text() string {
	parts := []string{}
	for _, df := range d.Defs {
		if df.Op != nil {
			parts = append(parts, df.Op.Text())
		} else {
			parts = append(parts, "fragment "+df.Frag.Name+" on "+df.Frag.On+dirsText(df.Frag.Dirs)+selsText(df.Frag.Sels))
		}
	}
	return strings.Join(parts, " ")
}

func argsSexp(a []Arg) string {
	parts := []string{"args"}
	for _, x := range a {
		parts = append(parts, "("+common.QS(x.Name)+" "+x.V.Sexp()+")")
	}
	return common.L(parts...)
}
func dirsSexp(d []Dir) string {
	parts := []string{"dirs"}
	for _, x := range d {
		parts = append(parts, common.L("d", common.QS(x.Name), argsSexp(x.Args)))
	}
	return common.L(parts...)
}
func selsSexp(l []*Sel) string {
	parts := []string{"sels"}
	for _, s := range l {
		parts = append(parts, s.Sexp())
	}
	return common.L(parts...)
}
func (s *Sel) Sexp() string {
	switch s.Kind {
	case 0:
		return common.L("f", optQ(s.Alias), common.QS(s.Name), argsSexp(s.Args), dirsSexp(s.Dirs), selsSexp(s.Sels))
	case 1:
		return common.L("i", optQ(s.Cond), dirsSexp(s.Dirs), selsSexp(s.Sels))
	}
	return common.L("sp", common.QS(s.Name), dirsSexp(s.Dirs))
}
func (d *Doc) Sexp() string {
	parts := []string{"doc"}
	for _, df := range d.Defs {
		if df.Op != nil {
			o := df.Op
			vds := []string{"vardefs"}
			for _, v := range o.Vars {
				dv := "(none)"
				if v.Def != nil {
					dv = "(some " + v.Def.Sexp() + ")"
				}
				vds = append(vds, common.L("vd", common.QS(v.Name), v.T.Sexp(), dv, dirsSexp(v.Dirs)))
			}
			parts = append(parts, common.L("op", o.Kind, optQ(o.Name), common.L(vds...), dirsSexp(o.Dirs), selsSexp(o.Sels)))
		} else {
			f := df.Frag
			parts = append(parts, common.L("frag", common.QS(f.Name), common.QS(f.On), dirsSexp(f.Dirs), selsSexp(f.Sels)))
		}
	}
	return common.L(parts...)
}
func (d *Doc) Clone() *Doc {
	c := &Doc{}
	for _, df := range d.Defs {
		if df.Op != nil {
			o := *df.Op
			o.Vars = make([]*VarDef, len(df.Op.Vars))
			for i, v := range df.Op.Vars {
				vv := *v
				vv.Def = v.Def.Clone()
				vv.Dirs = cloneDirs(v.Dirs)
				o.Vars[i] = &vv
			}
			o.Dirs = cloneDirs(df.Op.Dirs)
			o.Sels = cloneSels(df.Op.Sels)
			c.Defs = append(c.Defs, Def{Op: &o})
		} else {
			f := *df.Frag
			f.Dirs = cloneDirs(df.Frag.Dirs)
			f.Sels = cloneSels(df.Frag.Sels)
			c.Defs = append(c.Defs, Def{Frag: &f})
		}
	}
	return c
}
func (d *Doc) Frag(n string) *Frag {
	for _, df := range d.Defs {
		if df.Frag != nil && df.Frag.Name == n {
			return df.Frag
		}
	}
	return nil
}
