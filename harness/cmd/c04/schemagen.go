package main

// Seeded generator of valid GraphQL schemas: objects, interfaces (incl. interface implementing
// interface), unions, enums, input objects (nested, recursive, defaults, oneOf), custom scalars,
// custom directives with arguments / locations / repeatable, custom root type names.

import (
	"fmt"

	"gvh/common"
)

func iv(name string, t *Ty, def *Val) IV { return IV{Name: name, T: t, Def: def} }

// canonical leaf field signatures: the same name has the same signature in every type that has
// it, except for the "alt" variants which give a few names a conflicting type in some objects
func leafPool() []*FD {
	return []*FD{
		{Name: "id", T: NN(N("ID"))},
		{Name: "name", T: N("String")},
		{Name: "n", T: N("Int")},
		{Name: "nn", T: NN(N("Int"))},
		{Name: "fl", T: N("Float")},
		{Name: "b", T: N("Boolean")},
		{Name: "e", T: N("E0")},
		{Name: "dt", T: N("Date")},
		{Name: "li", T: LT(N("Int"))},
		{Name: "ls", T: NN(LT(NN(N("String"))))},
		{Name: "lli", T: LT(LT(N("Int")))},
		{Name: "fa", Args: []IV{iv("x", N("Int"), nil)}, T: N("Int")},
		{Name: "fb", Args: []IV{iv("x", NN(N("Int")), nil), iv("y", N("String"), VStr("d"))}, T: N("String")},
		{Name: "fc", Args: []IV{iv("in", N("In0"), nil)}, T: N("Int")},
		{Name: "fd", Args: []IV{iv("ins", LT(NN(N("In0"))), nil), iv("flag", N("Boolean"), nil)}, T: N("String")},
		{Name: "fe", Args: []IV{iv("e", NN(N("E0")), VEnum("A")), iv("l", LT(NN(N("Int"))), nil)}, T: N("Boolean")},
		{Name: "ff", Args: []IV{iv("one", N("One"), nil)}, T: N("Int")},
		{Name: "fg", Args: []IV{iv("id", N("ID"), nil), iv("f", N("Float"), nil), iv("d", N("Date"), nil)}, T: N("String")},
		{Name: "fh", Args: []IV{iv("ll", LT(LT(N("Int"))), nil), iv("le", LT(N("E0")), nil)}, T: N("Int")},
		{Name: "fi", Args: []IV{iv("req", NN(N("In0")), nil), iv("s", NN(N("String")), VStr("z"))}, T: N("Int")},
		{Name: "fj", Args: []IV{iv("ids", NN(LT(NN(N("ID")))), nil), iv("j", N("JSON"), nil)}, T: N("Float")},
		{Name: "fk", Args: []IV{iv("vals", LT(NN(N("Int"))), VList(VInt("1"))), iv("req", NN(LT(NN(N("Int")))), nil), iv("ll", LT(LT(NN(N("Int")))), nil)}, T: N("Int")},
	}
}

var altTypes = map[string]*Ty{
	"name": N("Int"),
	"n":    NN(N("Int")),
	"li":   N("Int"),
	"fl":   N("String"),
}

func cloneFD(f *FD) *FD {
	c := *f
	c.Args = append([]IV(nil), f.Args...)
	return &c
}

func genSchema(r *common.Rand) *Schema {
	s := &Schema{by: map[string]*TD{}}
	s.Q = common.PickOf(r, []string{"Query", "Query", "Query", "RootQ"})
	if !r.Chance(1, 6) {
		s.M = common.PickOf(r, []string{"Mutation", "Mutation", "RootM"})
	}
	if !r.Chance(1, 6) {
		s.S = common.PickOf(r, []string{"Subscription", "Subscription", "RootS"})
	}
	add := func(t *TD) *TD {
		s.Types = append(s.Types, t)
		s.by[t.Name] = t
		return t
	}
	add(&TD{Kind: "scalar", Name: "Date"})
	add(&TD{Kind: "scalar", Name: "JSON"})
	add(&TD{Kind: "enum", Name: "E0", Values: []string{"A", "B", "C"}})
	if r.Chance(1, 2) {
		add(&TD{Kind: "enum", Name: "E1", Values: []string{"X", "Y"}})
	}
	// input objects
	in1 := &TD{Kind: "input", Name: "In1", Inputs: []IV{iv("a", NN(N("ID")), nil), iv("f", N("Float"), nil)}}
	if r.Chance(1, 2) {
		in1.Inputs = append(in1.Inputs, iv("j", N("JSON"), nil))
	}
	if r.Chance(1, 2) {
		in1.Inputs = append(in1.Inputs, iv("dl", LT(N("Int")), VList(VInt("1"), VInt("2"))))
	}
	in0 := &TD{Kind: "input", Name: "In0", Inputs: []IV{iv("k", N("Int"), nil), iv("r", NN(N("Int")), nil)}}
	opt := []IV{
		iv("d", NN(N("Int")), VInt("3")),
		iv("l", LT(NN(N("Int"))), nil),
		iv("ll", LT(LT(N("Int"))), nil),
		iv("s", N("String"), VStr("x")),
		iv("e", N("E0"), VEnum("A")),
		iv("nested", N("In1"), nil),
		iv("self", N("In0"), nil),
		iv("selfs", LT(NN(N("In0"))), nil),
		iv("od", N("In1"), VObj(ObjF{"a", VStr("1")})),
	}
	for _, o := range opt {
		if r.Chance(2, 3) {
			in0.Inputs = append(in0.Inputs, o)
		}
	}
	add(in0)
	add(in1)
	one := &TD{Kind: "input", Name: "One", OneOf: true, Inputs: []IV{iv("a", N("Int"), nil), iv("b", N("String"), nil)}}
	if r.Chance(1, 2) {
		one.Inputs = append(one.Inputs, iv("c", N("In1"), nil))
	}
	if r.Chance(1, 3) {
		one.Inputs = append(one.Inputs, iv("l", LT(N("Int")), nil))
	}
	add(one)

	pool := leafPool()
	poolBy := map[string]*FD{}
	for _, f := range pool {
		poolBy[f.Name] = f
	}
	nI := 1 + r.Pick(3)
	nO := 3 + r.Pick(4)
	nU := 1 + r.Pick(2)
	var ifaces, objs []*TD
	for i := 0; i < nI; i++ {
		ifaces = append(ifaces, &TD{Kind: "interface", Name: fmt.Sprintf("I%d", i)})
	}
	for i := 0; i < nO; i++ {
		objs = append(objs, &TD{Kind: "object", Name: fmt.Sprintf("O%d", i)})
	}
	// canonical composite field signatures (decided once per name)
	var compTargets []string
	for _, t := range objs {
		compTargets = append(compTargets, t.Name)
	}
	for _, t := range ifaces {
		compTargets = append(compTargets, t.Name)
	}
	for i := 0; i < nU; i++ {
		compTargets = append(compTargets, fmt.Sprintf("U%d", i))
	}
	compSig := map[string]*FD{}
	for _, tn := range compTargets {
		var t *Ty
		switch r.Pick(5) {
		case 0:
			t = LT(N(tn))
		case 1:
			t = NN(LT(NN(N(tn))))
		case 2:
			t = NN(N(tn))
		default:
			t = N(tn)
		}
		f := &FD{Name: "to" + tn, T: t}
		switch r.Pick(4) {
		case 0:
			f.Args = []IV{iv("first", N("Int"), nil)}
		case 1:
			f.Args = []IV{iv("x", N("Int"), nil), iv("w", N("In0"), nil)}
		}
		compSig[f.Name] = f
	}
	pickComp := func() *FD { return cloneFD(compSig["to"+common.PickOf(r, compTargets)]) }
	hasField := func(t *TD, n string) bool { return t.Field(n) != nil }
	// interfaces: 2-3 leaf fields + maybe one composite
	for i, it := range ifaces {
		for len(it.Fields) < 2+r.Pick(2) {
			f := common.PickOf(r, pool)
			if !hasField(it, f.Name) {
				it.Fields = append(it.Fields, cloneFD(f))
			}
		}
		if r.Chance(1, 2) {
			it.Fields = append(it.Fields, pickComp())
		}
		if i > 0 && r.Chance(1, 3) {
			// interface implementing the previous interface (and, transitively, what that one implements)
			p := ifaces[i-1]
			it.Impl = append([]string{p.Name}, p.Impl...)
			for _, f := range p.Fields {
				if !hasField(it, f.Name) {
					it.Fields = append(it.Fields, cloneFD(f))
				}
			}
		}
	}
	// guaranteed material for the object-scope / interface-scope overlap mutations: I0 has name: String
	if !hasField(ifaces[0], "name") {
		ifaces[0].Fields = append(ifaces[0].Fields, cloneFD(poolBy["name"]))
	}
	implement := func(o *TD, it *TD) {
		if o.Implements(it.Name) {
			return
		}
		o.Impl = append(o.Impl, it.Name)
		for _, tr := range it.Impl {
			if !o.Implements(tr) {
				o.Impl = append(o.Impl, tr)
			}
		}
		for _, f := range it.Fields {
			if !hasField(o, f.Name) {
				o.Fields = append(o.Fields, cloneFD(f))
			}
		}
	}
	for i, o := range objs {
		if i < nI {
			implement(o, ifaces[i])
		}
		for _, it := range ifaces {
			if r.Chance(1, 3) {
				implement(o, it)
			}
		}
		mandated := map[string]bool{}
		for _, f := range o.Fields {
			mandated[f.Name] = true
		}
		want := len(o.Fields) + 2 + r.Pick(3)
		for tries := 0; len(o.Fields) < want && tries < 30; tries++ {
			f := cloneFD(common.PickOf(r, pool))
			if hasField(o, f.Name) {
				continue
			}
			if alt, ok := altTypes[f.Name]; ok && r.Chance(1, 4) {
				f.T = alt
			}
			o.Fields = append(o.Fields, f)
		}
		if i == 0 && !hasField(o, "fg") {
			o.Fields = append(o.Fields, cloneFD(poolBy["fg"])) // a second String field besides I0.name
		}
		// every object has at least one plain leaf
		if !hasField(o, "id") && r.Chance(2, 3) {
			o.Fields = append(o.Fields, cloneFD(poolBy["id"]))
		}
		for k := 0; k < 1+r.Pick(2); k++ {
			f := pickComp()
			if !hasField(o, f.Name) {
				o.Fields = append(o.Fields, f)
			}
		}
		_ = mandated
	}
	for _, it := range ifaces {
		add(it)
	}
	for _, o := range objs {
		add(o)
	}
	for i := 0; i < nU; i++ {
		u := &TD{Kind: "union", Name: fmt.Sprintf("U%d", i)}
		k := 2 + r.Pick(2)
		perm := r.Perm(len(objs))
		for j := 0; j < k && j < len(perm); j++ {
			u.Members = append(u.Members, objs[perm[j]].Name)
		}
		if i == 0 {
			has := false
			for _, m := range u.Members {
				has = has || m == objs[0].Name
			}
			if !has {
				u.Members = append(u.Members, objs[0].Name)
			}
		}
		add(u)
	}
	// covariance: an interface-mandated field whose base type is an interface may be narrowed to
	// an object implementing it
	for _, o := range objs {
		for _, f := range o.Fields {
			b := s.by[f.T.Base()]
			if b == nil || b.Kind != "interface" || !r.Chance(1, 4) {
				continue
			}
			mand := false
			for _, in := range o.Impl {
				if s.by[in].Field(f.Name) != nil {
					mand = true
				}
			}
			if !mand {
				continue
			}
			poss := s.Possible(b.Name)
			if len(poss) == 0 {
				continue
			}
			f.T = retarget(f.T, common.PickOf(r, poss))
		}
	}
	// roots
	q := &TD{Kind: "object", Name: s.Q}
	for _, tn := range compTargets {
		f := cloneFD(compSig["to"+tn])
		q.Fields = append(q.Fields, f)
	}
	for _, n := range []string{"fa", "fb", "fc", "fd", "fe", "ff", "fg", "fh", "fi", "fj", "fk", "name", "n", "li"} {
		q.Fields = append(q.Fields, cloneFD(poolBy[n]))
	}
	add(q)
	if s.M != "" {
		m := &TD{Kind: "object", Name: s.M}
		m.Fields = append(m.Fields, &FD{Name: "m1", Args: []IV{iv("in", NN(N("In0")), nil)}, T: N(objs[0].Name)})
		m.Fields = append(m.Fields, &FD{Name: "m2", Args: []IV{iv("x", N("Int"), nil)}, T: N("Int")})
		m.Fields = append(m.Fields, cloneFD(compSig["to"+common.PickOf(r, compTargets)]))
		m.Fields = append(m.Fields, cloneFD(poolBy["ff"]))
		add(m)
	}
	if s.S != "" {
		sub := &TD{Kind: "object", Name: s.S}
		sub.Fields = append(sub.Fields, &FD{Name: "s1", T: N("Int")})
		sub.Fields = append(sub.Fields, &FD{Name: "s2", Args: []IV{iv("x", N("Int"), nil)}, T: N(objs[0].Name)})
		sub.Fields = append(sub.Fields, cloneFD(compSig["to"+common.PickOf(r, compTargets)]))
		sub.Fields = append(sub.Fields, cloneFD(poolBy["fb"]))
		add(sub)
	}
	// directives
	exec := []string{"QUERY", "MUTATION", "SUBSCRIPTION", "FIELD", "FRAGMENT_DEFINITION", "FRAGMENT_SPREAD", "INLINE_FRAGMENT", "VARIABLE_DEFINITION"}
	subset := func(must string) []string {
		l := []string{must}
		for _, e := range exec {
			if e != must && r.Chance(1, 4) {
				l = append(l, e)
			}
		}
		return l
	}
	s.Dirs = append(s.Dirs, &DD{Name: "dq", Locs: []string{"QUERY"}})
	s.Dirs = append(s.Dirs, &DD{Name: "df", Args: []IV{iv("x", NN(N("Int")), nil), iv("y", N("String"), VStr("d"))}, Locs: subset("FIELD")})
	s.Dirs = append(s.Dirs, &DD{Name: "drep", Args: []IV{iv("n", N("Int"), nil)}, Locs: subset("FIELD"), Rep: true})
	// repeatable on every selection kind, with a required and an optional argument
	s.Dirs = append(s.Dirs, &DD{Name: "rtag", Args: []IV{iv("k", NN(N("Int")), nil), iv("s", N("String"), nil)},
		Locs: []string{"FIELD", "INLINE_FRAGMENT", "FRAGMENT_SPREAD"}, Rep: true})
	s.Dirs = append(s.Dirs, &DD{Name: "dfrag", Args: []IV{iv("e", N("E0"), VEnum("B"))}, Locs: []string{"FRAGMENT_DEFINITION", "FRAGMENT_SPREAD", "INLINE_FRAGMENT"}})
	if r.Chance(2, 3) {
		s.Dirs = append(s.Dirs, &DD{Name: "dvar", Locs: []string{"VARIABLE_DEFINITION"}})
	}
	if r.Chance(2, 3) {
		s.Dirs = append(s.Dirs, &DD{Name: "dop", Args: []IV{iv("in", N("In1"), nil)}, Locs: []string{"QUERY", "MUTATION", "SUBSCRIPTION"}})
	}
	return s
}

func retarget(t *Ty, base string) *Ty {
	switch t.Kind {
	case 1:
		return LT(retarget(t.Of, base))
	case 2:
		return NN(retarget(t.Of, base))
	}
	return N(base)
}

// withBuiltins adds the built-in directives the merged base schema provides, so that the
// generator knows their shape (they are NOT printed into the SDL).
func builtinDirs() []*DD {
	return []*DD{
		{Name: "skip", Args: []IV{iv("if", NN(N("Boolean")), nil)}, Locs: []string{"FIELD", "FRAGMENT_SPREAD", "INLINE_FRAGMENT"}},
		{Name: "include", Args: []IV{iv("if", NN(N("Boolean")), nil)}, Locs: []string{"FIELD", "FRAGMENT_SPREAD", "INLINE_FRAGMENT"}},
	}
}
