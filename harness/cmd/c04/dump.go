package main

// Dumpers of index-based ast.Documents to the FEDLAB.md S-expression forms (documents, schema).
// The schema form's last item (ignored by ocaml/common/gqlread.ml) is C04's extension:
//   (directives (dd "name" (args (iv …)…) (locs "FIELD"…) <t|f>)… (oneof "T"…))

import (
	"sort"
	"strings"

	"gvh/common"

	"github.com/wundergraph/graphql-go-tools/v2/pkg/ast"
)

type dumper struct {
	d  *ast.Document
	sb strings.Builder
}

func (x *dumper) w(s string) { x.sb.WriteString(s) }
func (x *dumper) ref(r ast.ByteSliceReference) {
	x.sb.WriteString(common.Q(x.d.Input.ByteSlice(r)))
}

func (x *dumper) typ(ref int) {
	if ref < 0 || ref >= len(x.d.Types) {
		x.w("(named \"?\")")
		return
	}
	t := x.d.Types[ref]
	switch t.TypeKind {
	case ast.TypeKindNamed:
		x.w("(named ")
		x.ref(t.Name)
		x.w(")")
	case ast.TypeKindList:
		x.w("(list ")
		x.typ(t.OfType)
		x.w(")")
	case ast.TypeKindNonNull:
		x.w("(nn ")
		x.typ(t.OfType)
		x.w(")")
	default:
		x.w("(named \"?\")")
	}
}

func (x *dumper) signed(neg bool, raw ast.ByteSliceReference) {
	b := x.d.Input.ByteSlice(raw)
	if neg {
		b = append([]byte{'-'}, b...)
	}
	x.w(common.Q(b))
}

func (x *dumper) value(v ast.Value) {
	d := x.d
	switch v.Kind {
	case ast.ValueKindVariable:
		x.w("(var ")
		x.ref(d.VariableValues[v.Ref].Name)
		x.w(")")
	case ast.ValueKindInteger:
		x.w("(int ")
		iv := d.IntValues[v.Ref]
		x.signed(iv.Negative, iv.Raw)
		x.w(")")
	case ast.ValueKindFloat:
		x.w("(float ")
		fv := d.FloatValues[v.Ref]
		x.signed(fv.Negative, fv.Raw)
		x.w(")")
	case ast.ValueKindString:
		sv := d.StringValues[v.Ref]
		x.w("(str ")
		x.ref(sv.Content)
		x.w(" " + common.B(sv.BlockString) + ")")
	case ast.ValueKindBoolean:
		x.w("(bool " + common.B(bool(d.BooleanValues[v.Ref])) + ")")
	case ast.ValueKindNull:
		x.w("(null)")
	case ast.ValueKindEnum:
		x.w("(enum ")
		x.ref(d.EnumValues[v.Ref].Name)
		x.w(")")
	case ast.ValueKindList:
		x.w("(list")
		for _, r := range d.ListValues[v.Ref].Refs {
			x.w(" ")
			x.value(d.Values[r])
		}
		x.w(")")
	case ast.ValueKindObject:
		x.w("(obj")
		for _, r := range d.ObjectValues[v.Ref].Refs {
			x.w(" (")
			x.ref(d.ObjectFields[r].Name)
			x.w(" ")
			x.value(d.ObjectFields[r].Value)
			x.w(")")
		}
		x.w(")")
	default:
		x.w("(null)")
	}
}

func (x *dumper) args(has bool, refs []int) {
	x.w("(args")
	if has {
		for _, r := range refs {
			x.w(" (")
			x.ref(x.d.Arguments[r].Name)
			x.w(" ")
			x.value(x.d.Arguments[r].Value)
			x.w(")")
		}
	}
	x.w(")")
}

func (x *dumper) dirs(has bool, refs []int) {
	x.w("(dirs")
	if has {
		for _, r := range refs {
			dr := x.d.Directives[r]
			x.w(" (d ")
			x.ref(dr.Name)
			x.w(" ")
			x.args(dr.HasArguments, dr.Arguments.Refs)
			x.w(")")
		}
	}
	x.w(")")
}

func (x *dumper) selset(has bool, ref int) {
	x.w("(sels")
	if has && ref >= 0 && ref < len(x.d.SelectionSets) {
		for _, s := range x.d.SelectionSets[ref].SelectionRefs {
			x.w(" ")
			x.selection(x.d.Selections[s])
		}
	}
	x.w(")")
}

func (x *dumper) optName(defined bool, r ast.ByteSliceReference) {
	if !defined {
		x.w("(none)")
		return
	}
	x.ref(r)
}

func (x *dumper) selection(s ast.Selection) {
	d := x.d
	switch s.Kind {
	case ast.SelectionKindField:
		f := d.Fields[s.Ref]
		x.w("(f ")
		x.optName(f.Alias.IsDefined, f.Alias.Name)
		x.w(" ")
		x.ref(f.Name)
		x.w(" ")
		x.args(f.HasArguments, f.Arguments.Refs)
		x.w(" ")
		x.dirs(f.HasDirectives, f.Directives.Refs)
		x.w(" ")
		x.selset(f.HasSelections, f.SelectionSet)
		x.w(")")
	case ast.SelectionKindInlineFragment:
		f := d.InlineFragments[s.Ref]
		x.w("(i ")
		if f.TypeCondition.Type == ast.InvalidRef {
			x.w("(none)")
		} else {
			x.ref(d.Types[f.TypeCondition.Type].Name)
		}
		x.w(" ")
		x.dirs(f.HasDirectives, f.Directives.Refs)
		x.w(" ")
		x.selset(f.HasSelections, f.SelectionSet)
		x.w(")")
	case ast.SelectionKindFragmentSpread:
		f := d.FragmentSpreads[s.Ref]
		x.w("(sp ")
		x.ref(f.FragmentName)
		x.w(" ")
		x.dirs(f.HasDirectives, f.Directives.Refs)
		x.w(")")
	}
}

func (x *dumper) optValue(dv ast.DefaultValue) {
	if dv.IsDefined {
		x.w("(some ")
		x.value(dv.Value)
		x.w(")")
	} else {
		x.w("(none)")
	}
}

// dumpDocument renders an executable document (operations and fragments in root-node order).
func dumpDocument(doc *ast.Document) string {
	x := &dumper{d: doc}
	d := doc
	x.w("(doc")
	for _, n := range doc.RootNodes {
		switch n.Kind {
		case ast.NodeKindOperationDefinition:
			o := d.OperationDefinitions[n.Ref]
			kind := "query"
			switch o.OperationType {
			case ast.OperationTypeMutation:
				kind = "mutation"
			case ast.OperationTypeSubscription:
				kind = "subscription"
			}
			x.w(" (op " + kind + " ")
			x.optName(o.Name.Length() > 0, o.Name)
			x.w(" (vardefs")
			if o.HasVariableDefinitions {
				for _, r := range o.VariableDefinitions.Refs {
					vd := d.VariableDefinitions[r]
					x.w(" (vd ")
					x.ref(d.VariableValues[vd.VariableValue.Ref].Name)
					x.w(" ")
					x.typ(vd.Type)
					x.w(" ")
					x.optValue(vd.DefaultValue)
					x.w(" ")
					x.dirs(vd.HasDirectives, vd.Directives.Refs)
					x.w(")")
				}
			}
			x.w(") ")
			x.dirs(o.HasDirectives, o.Directives.Refs)
			x.w(" ")
			x.selset(o.HasSelections, o.SelectionSet)
			x.w(")")
		case ast.NodeKindFragmentDefinition:
			f := d.FragmentDefinitions[n.Ref]
			x.w(" (frag ")
			x.ref(f.Name)
			x.w(" ")
			if f.TypeCondition.Type >= 0 && f.TypeCondition.Type < len(d.Types) {
				x.ref(d.Types[f.TypeCondition.Type].Name)
			} else {
				x.w("\"?\"")
			}
			x.w(" ")
			x.dirs(f.HasDirectives, f.Directives.Refs)
			x.w(" ")
			x.selset(f.HasSelections, f.SelectionSet)
			x.w(")")
		}
	}
	x.w(")")
	return x.sb.String()
}

// ---------------------------------------------------------------- schema
func (x *dumper) ivs(tag string, has bool, refs []int) {
	x.w("(" + tag)
	if has {
		for _, r := range refs {
			iv := x.d.InputValueDefinitions[r]
			x.w(" (iv ")
			x.ref(iv.Name)
			x.w(" ")
			x.typ(iv.Type)
			x.w(" ")
			x.optValue(iv.DefaultValue)
			x.w(")")
		}
	}
	x.w(")")
}

func (x *dumper) typeNames(tag string, refs []int) {
	x.w("(" + tag)
	for _, r := range refs {
		x.w(" ")
		x.ref(x.d.Types[r].Name)
	}
	x.w(")")
}

func (x *dumper) fieldDefs(has bool, refs []int) {
	x.w("(fields")
	if has {
		for _, r := range refs {
			fd := x.d.FieldDefinitions[r]
			x.w(" (fd ")
			x.ref(fd.Name)
			x.w(" ")
			x.ivs("args", fd.HasArgumentsDefinitions, fd.ArgumentsDefinition.Refs)
			x.w(" ")
			x.typ(fd.Type)
			x.w(")")
		}
	}
	x.w(")")
}

var builtinScalars = map[string]bool{"Int": true, "Float": true, "String": true, "Boolean": true, "ID": true}

func optQ(s string) string {
	if s == "" {
		return "(none)"
	}
	return common.QS(s)
}

// dumpSchema renders the (merged) definition document the validator sees.
func dumpSchema(def *ast.Document) string {
	x := &dumper{d: def}
	d := def
	q, m, s := "Query", "", ""
	if len(def.Index.QueryTypeName) > 0 {
		q = string(def.Index.QueryTypeName)
	}
	m = string(def.Index.MutationTypeName)
	s = string(def.Index.SubscriptionTypeName)
	x.w("(schema " + common.QS(q) + " " + optQ(m) + " " + optQ(s) + " (types")
	var oneofs []string
	typ := func(kind string, name ast.ByteSliceReference, impl []int, hasF bool, fields []int, hasM bool, members []int, enumVals []int, hasI bool, inputs []int) {
		x.w(" (type " + kind + " ")
		x.ref(name)
		x.w(" ")
		x.typeNames("implements", impl)
		x.w(" ")
		x.fieldDefs(hasF, fields)
		x.w(" ")
		if hasM {
			x.typeNames("members", members)
		} else {
			x.w("(members)")
		}
		x.w(" (values")
		for _, r := range enumVals {
			x.w(" ")
			x.ref(d.EnumValueDefinitions[r].EnumValue)
		}
		x.w(") ")
		x.ivs("inputs", hasI, inputs)
		x.w(")")
	}
	for _, n := range def.RootNodes {
		switch n.Kind {
		case ast.NodeKindObjectTypeDefinition:
			o := d.ObjectTypeDefinitions[n.Ref]
			typ("object", o.Name, o.ImplementsInterfaces.Refs, o.HasFieldDefinitions, o.FieldsDefinition.Refs, false, nil, nil, false, nil)
		case ast.NodeKindInterfaceTypeDefinition:
			o := d.InterfaceTypeDefinitions[n.Ref]
			typ("interface", o.Name, o.ImplementsInterfaces.Refs, o.HasFieldDefinitions, o.FieldsDefinition.Refs, false, nil, nil, false, nil)
		case ast.NodeKindUnionTypeDefinition:
			o := d.UnionTypeDefinitions[n.Ref]
			typ("union", o.Name, nil, false, nil, o.HasUnionMemberTypes, o.UnionMemberTypes.Refs, nil, false, nil)
		case ast.NodeKindEnumTypeDefinition:
			o := d.EnumTypeDefinitions[n.Ref]
			var ev []int
			if o.HasEnumValuesDefinition {
				ev = o.EnumValuesDefinition.Refs
			}
			typ("enum", o.Name, nil, false, nil, false, nil, ev, false, nil)
		case ast.NodeKindScalarTypeDefinition:
			o := d.ScalarTypeDefinitions[n.Ref]
			if builtinScalars[string(d.Input.ByteSlice(o.Name))] {
				continue
			}
			typ("scalar", o.Name, nil, false, nil, false, nil, nil, false, nil)
		case ast.NodeKindInputObjectTypeDefinition:
			o := d.InputObjectTypeDefinitions[n.Ref]
			typ("input", o.Name, nil, false, nil, false, nil, nil, o.HasInputFieldsDefinition, o.InputFieldsDefinition.Refs)
			if o.HasDirectives && o.Directives.HasDirectiveByName(d, "oneOf") {
				oneofs = append(oneofs, string(d.Input.ByteSlice(o.Name)))
			}
		}
	}
	x.w(") (directives")
	for _, n := range def.RootNodes {
		if n.Kind != ast.NodeKindDirectiveDefinition {
			continue
		}
		dd := d.DirectiveDefinitions[n.Ref]
		x.w(" (dd ")
		x.ref(dd.Name)
		x.w(" ")
		x.ivs("args", dd.HasArgumentsDefinitions, dd.ArgumentsDefinition.Refs)
		x.w(" (locs")
		it := dd.DirectiveLocations.Iterable()
		for it.Next() {
			x.w(" " + common.Q(it.Value().LiteralBytes()))
		}
		x.w(") " + common.B(dd.Repeatable.IsRepeatable) + ")")
	}
	sort.Strings(oneofs)
	x.w(" (oneof")
	for _, o := range oneofs {
		x.w(" " + common.QS(o))
	}
	x.w(")))")
	return x.sb.String()
}
