package main

// The admission sequence exactly as execution/engine.ExecutionEngine.Execute runs it on an
// execution/graphql.Request: Normalize (no variable extraction, with the engine's prevalidation
// rules) -> ValidateForSchema (default options) -> Normalize (WithExtractVariables).

import (
	"fmt"
	"strings"

	"github.com/wundergraph/graphql-go-tools/execution/graphql"
	"github.com/wundergraph/graphql-go-tools/v2/pkg/astnormalization"
	"github.com/wundergraph/graphql-go-tools/v2/pkg/astprinter"
	"github.com/wundergraph/graphql-go-tools/v2/pkg/astvalidation"
	"github.com/wundergraph/graphql-go-tools/v2/pkg/graphqlerrors"
	"github.com/wundergraph/graphql-go-tools/v2/pkg/operationreport"
)

type admission struct {
	Accepted bool
	Stage    string // "", normalize1, validate, normalize2, panic
	Message  string // first error message
	Norm1    string // printed document after the first normalisation ("" if it failed)
	Norm1Sexp string // the same document as an S-expression
	Overlap  string // verdict of the FieldSelectionMerging rule run ALONE on that document: t, f, panic
	Final    string
	req      *graphql.Request
}

func admit(schema *graphql.Schema, query, opName, variables string, stopAfterNorm1 bool) (res admission) {
	defer func() {
		if r := recover(); r != nil {
			res.Accepted = false
			res.Stage = "panic"
			res.Message = fmt.Sprint(r)
		}
	}()
	req := &graphql.Request{Query: query, OperationName: opName}
	if variables != "" {
		req.Variables = []byte(variables)
	}
	res.req = req
	r1, err := req.Normalize(schema,
		astnormalization.WithRemoveFragmentDefinitions(),
		astnormalization.WithRemoveUnusedVariables(),
		astnormalization.WithInlineFragmentSpreads(),
		astnormalization.WithEnableDefer(),
		astnormalization.WithPrevalidationRules(
			astvalidation.DeferStreamOnValidOperations(),
			astvalidation.DeferStreamHaveUniqueLabels(),
			astvalidation.DirectivesAreDefined(),
			astvalidation.DirectivesAreInValidLocations(),
			astvalidation.DirectivesAreUniquePerLocation(),
			astvalidation.StreamAppliedToListFieldsOnly()),
	)
	if err != nil || !r1.Successful {
		res.Stage = "normalize1"
		res.Message = firstMsg(err, r1.Errors)
		return
	}
	if s, e := astprinter.PrintString(req.Document()); e == nil {
		res.Norm1 = s
	}
	res.Norm1Sexp = dumpDocument(req.Document())
	res.Overlap = overlapAlone(req, schema)
	if stopAfterNorm1 {
		res.Accepted = true
		return
	}
	v, err := req.ValidateForSchema(schema)
	if err != nil || !v.Valid {
		res.Stage = "validate"
		res.Message = firstMsg(err, v.Errors)
		return
	}
	r2, err := req.Normalize(schema, astnormalization.WithExtractVariables())
	if err != nil || !r2.Successful {
		res.Stage = "normalize2"
		res.Message = firstMsg(err, r2.Errors)
		return
	}
	if s, e := astprinter.PrintString(req.Document()); e == nil {
		res.Final = s
	}
	res.Accepted = true
	return
}

func firstMsg(err error, errs graphqlerrors.Errors) string {
	if errs != nil && errs.Count() > 0 {
		return errs.ErrorByIndex(0).Error()
	}
	if err != nil {
		return err.Error()
	}
	return "?"
}

func oneLine(s string) string { return strings.Join(strings.Fields(s), " ") }

// overlapAlone runs only the FieldSelectionMerging rule on the (normalised) document of the request.
func overlapAlone(req *graphql.Request, schema *graphql.Schema) (verdict string) {
	defer func() {
		if r := recover(); r != nil {
			verdict = "panic"
		}
	}()
	v := astvalidation.NewOperationValidator([]astvalidation.Rule{astvalidation.FieldSelectionMerging()})
	var report operationreport.Report
	v.Validate(req.Document(), schema.Document(), &report)
	if report.HasErrors() {
		return "f"
	}
	return "t"
}
