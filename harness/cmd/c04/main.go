package main

// C04 harness: generates schemas, documents valid by construction and single-mutation mutants,
// runs the real admission sequence (pipeline.go) and writes one case per line for the extracted
// spec checker (ocaml/c04/driver.ml).
//
//   (c04schema N <schema> "SDL")              the SDL only so that a failing case can be stored with its schema
//   (c04 N (meta valid|mutant "operator/variant" (feat "tag"…) "query text") <doc> <opname> (go t|f "stage" "family" "msg"))
//   (c04merge N <doc-before> <doc-after>|(fail "stage" "msg"))
//   (c04overlap N <doc normalised by Go> t|f)      verdict of the FieldSelectionMerging rule run alone

import (
	"bufio"
	"encoding/json"
	"fmt"
	"os"
	"sort"
	"strings"

	"gvh/common"

	"github.com/wundergraph/graphql-go-tools/execution/graphql"
	"github.com/wundergraph/graphql-go-tools/v2/pkg/astparser"
)

type stats struct {
	Cases      int            `json:"cases"`
	Valid      int            `json:"valid"`
	Mutants    int            `json:"mutants"`
	Accepted   int            `json:"go_accepted"`
	Rejected   int            `json:"go_rejected"`
	ValidRej   int            `json:"valid_rejected_by_go"`
	MutantAcc  int            `json:"mutants_accepted_by_go"`
	PerOp      map[string]int `json:"per_operator"`
	PerOpAcc   map[string]int `json:"per_operator_go_accepted"`
	PerFamily  map[string]int `json:"per_go_family"`
	PerFeat    map[string]int `json:"per_feature"`
	PerKind    map[string]int `json:"per_operation_kind"`
	Selfcheck  int            `json:"selfcheck_failures"`
	Schemas    int            `json:"schemas"`
	Inapplic   int            `json:"mutation_not_applicable_retries"`
}

func newStats() *stats {
	return &stats{PerOp: map[string]int{}, PerOpAcc: map[string]int{}, PerFamily: map[string]int{}, PerFeat: map[string]int{}, PerKind: map[string]int{}}
}

type env struct {
	schema *Schema
	gs     *graphql.Schema
	id     int
}

func newEnv(r *common.Rand, id int, out *common.Out) *env {
	for {
		s := genSchema(r)
		gs, err := graphql.NewSchemaFromString(s.SDL())
		if err != nil {
			fmt.Fprintln(os.Stderr, "schema rejected:", err, "\n", s.SDL())
			continue
		}
		if res, err := gs.Validate(); err != nil || !res.Valid {
			fmt.Fprintln(os.Stderr, "schema invalid:", err, res.Errors, "\n", s.SDL())
			continue
		}
		out.Line(common.L("c04schema", common.I(id), dumpSchema(gs.Document()), common.QS(s.SDL())))
		return &env{schema: s, gs: gs, id: id}
	}
}

func trunc(s string, n int) string {
	if len(s) > n {
		return s[:n]
	}
	return s
}

// observe runs Go on the text and renders the case line
func observe(e *env, text string, own *Doc, opName string, kind, opLabel string, feats []string, st *stats) (line string, overlap string) {
	docSexp := ""
	stage := ""
	msg := ""
	parsed, report := astparser.ParseGraphqlDocumentString(text)
	var a admission
	if report.HasErrors() {
		stage, msg = "parse", report.Error()
		if own != nil {
			docSexp = own.Sexp()
		} else {
			docSexp = "(doc)"
		}
	} else {
		docSexp = dumpDocument(&parsed)
		if own != nil && own.Sexp() != docSexp {
			st.Selfcheck++
			fmt.Fprintln(os.Stderr, "selfcheck: dumps differ for", text, "\n own:", own.Sexp(), "\n ast:", docSexp)
		}
		a = admit(e.gs, text, opName, "", false)
		stage, msg = a.Stage, a.Message
		if a.Norm1Sexp != "" && (a.Overlap == "t" || a.Overlap == "f") {
			overlap = common.L("c04overlap", common.I(e.id), a.Norm1Sexp, a.Overlap)
		}
	}
	accepted := stage == "" && a.Accepted
	fam := family(stage, msg)
	st.Cases++
	if accepted {
		st.Accepted++
	} else {
		st.Rejected++
		st.PerFamily[fam]++
	}
	if kind == "valid" {
		st.Valid++
		if !accepted {
			st.ValidRej++
		}
	} else {
		st.Mutants++
		base := strings.SplitN(opLabel, "/", 2)[0]
		st.PerOp[base]++
		if accepted {
			st.MutantAcc++
			st.PerOpAcc[base]++
		}
	}
	sort.Strings(feats)
	fl := []string{"feat"}
	for _, f := range feats {
		fl = append(fl, common.QS(f))
		st.PerFeat[f]++
	}
	on := "(none)"
	if opName != "" {
		on = common.QS(opName)
	}
	return common.L("c04", common.I(e.id), common.L("meta", kind, common.QS(opLabel), common.L(fl...), common.QS(text)), docSexp, on,
		common.L("go", common.B(accepted), common.QS(stage), common.QS(fam), common.QS(trunc(msg, 200)))), overlap
}

func emit2(out *common.Out, line, overlap string) {
	out.Line(line)
	if overlap != "" {
		out.Line(overlap)
	}
}

func cmdGen(args map[string]string) {
	seed := common.ArgU64(args, "seed", 1)
	n := common.ArgInt(args, "n", 1000)
	out := common.NewOut(args["out"])
	defer out.Close()
	r := common.NewRand(seed)
	st := newStats()
	ops := mutOps()
	// the rule families with many sub-variants get more slots in the round-robin
	weight := map[string]int{"wrong-literal-kind": 4, "var-incompatible-type": 3, "null-for-non-null": 2,
		"conflict-different-args": 2, "conflict-different-names": 2, "conflict-different-shapes": 2,
		"var-list-item-nullability": 2, "conflict-object-interface-scopes": 2, "repeated-directive-lost": 4}
	for _, o := range mutOps() {
		for k := 1; k < weight[o.name]; k++ {
			ops = append(ops, o)
		}
	}
	var e *env
	perSchema := 20
	opIdx := 0
	for i := 0; i < n; i++ {
		if i%perSchema == 0 {
			e = newEnv(r, i/perSchema+1, out)
			st.Schemas++
		}
		if r.Chance(45, 100) {
			gd := genValidDoc(r, e.schema, "")
			st.PerKind[gd.kind]++
			l1, l2 := observe(e, gd.doc.Text(), gd.doc, gd.opName, "valid", "", gd.feats, st)
			emit2(out, l1, l2)
			continue
		}
		// mutants: operators in round-robin so that each family is covered evenly
		for tries := 0; ; tries++ {
			op := ops[opIdx%len(ops)]
			gd := genValidDoc(r, e.schema, op.kind)
			if op.kind != "" && gd.kind != op.kind {
				// the schema has no such root type: take the next operator
				opIdx++
				continue
			}
			m := newMut(r, e.schema, gd)
			variant := op.f(m)
			if variant == "" {
				st.Inapplic++
				if tries > 20 {
					opIdx++
				}
				continue
			}
			opIdx++
			st.PerKind[gd.kind]++
			l1, l2 := observe(e, m.doc.Text(), m.doc, gd.opName, "mutant", op.name+"/"+variant, gd.feats, st)
			emit2(out, l1, l2)
			break
		}
	}
	js, _ := json.MarshalIndent(st, "", " ")
	fmt.Fprintln(os.Stderr, string(js))
	if p := args["out"]; p != "" && p != "-" {
		os.WriteFile(p+".dist", js, 0o644)
	}
}

func cmdMerge(args map[string]string) {
	seed := common.ArgU64(args, "seed", 1)
	n := common.ArgInt(args, "n", 300)
	out := common.NewOut(args["out"])
	defer out.Close()
	r := common.NewRand(seed ^ 0x5eed)
	st := newStats()
	var e *env
	for i := 0; i < n; i++ {
		if i%20 == 0 {
			e = newEnv(r, i/20+1, out)
		}
		d := genMergeDoc(r, e.schema)
		text := d.Text()
		parsed, report := astparser.ParseGraphqlDocumentString(text)
		if report.HasErrors() {
			fmt.Fprintln(os.Stderr, "merge doc does not parse:", text, report.Error())
			continue
		}
		before := dumpDocument(&parsed)
		a := admit(e.gs, text, "", "", true)
		after := ""
		if a.Accepted {
			after = dumpDocument(a.req.Document())
		} else {
			after = common.L("fail", common.QS(a.Stage), common.QS(trunc(a.Message, 200)))
		}
		out.Line(common.L("c04merge", common.I(e.id), before, after))
		if a.Accepted && (a.Overlap == "t" || a.Overlap == "f") {
			out.Line(common.L("c04overlap", common.I(e.id), after, a.Overlap))
		}
	}
	_ = st
}

// unq decodes the common.Q quoting
func unq(s string) string {
	var sb strings.Builder
	for i := 0; i < len(s); i++ {
		if s[i] == '\\' && i+2 < len(s) {
			var v int
			fmt.Sscanf(s[i+1:i+3], "%02x", &v)
			sb.WriteByte(byte(v))
			i += 2
		} else {
			sb.WriteByte(s[i])
		}
	}
	return sb.String()
}

// splitCase parses  (case "sdl" "query" "opname"|(none) "label")
func splitCase(line string) (items []string, ok bool) {
	line = strings.TrimSpace(line)
	if !strings.HasPrefix(line, "(case ") || !strings.HasSuffix(line, ")") {
		return nil, false
	}
	body := line[6 : len(line)-1]
	i := 0
	for i < len(body) {
		switch {
		case body[i] == ' ':
			i++
		case body[i] == '"':
			j := i + 1
			for j < len(body) && body[j] != '"' {
				j++
			}
			items = append(items, unq(body[i+1:j]))
			i = j + 1
		case strings.HasPrefix(body[i:], "(none)"):
			items = append(items, "")
			i += 6
		default:
			return nil, false
		}
	}
	return items, len(items) == 4
}

func cmdCorpus(args map[string]string) {
	in, err := os.Open(args["in"])
	if err != nil {
		panic(err)
	}
	defer in.Close()
	out := common.NewOut(args["out"])
	defer out.Close()
	st := newStats()
	sc := bufio.NewScanner(in)
	sc.Buffer(make([]byte, 1<<20), 1<<26)
	id := 0
	for sc.Scan() {
		line := sc.Text()
		if strings.TrimSpace(line) == "" || strings.HasPrefix(line, "#") {
			continue
		}
		items, ok := splitCase(line)
		if !ok {
			fmt.Fprintln(os.Stderr, "bad corpus line:", line)
			os.Exit(2)
		}
		gs, err := graphql.NewSchemaFromString(items[0])
		if err != nil {
			fmt.Fprintln(os.Stderr, "corpus schema rejected:", err)
			os.Exit(2)
		}
		id++
		out.Line(common.L("c04schema", common.I(id), dumpSchema(gs.Document()), common.QS(items[0])))
		e := &env{gs: gs, id: id}
		kind := "mutant"
		label := items[3]
		if label == "valid" {
			kind, label = "valid", ""
		}
		l1, l2 := observe(e, items[1], nil, items[2], kind, label, []string{"corpus"}, st)
		emit2(out, l1, l2)
	}
}

// probe: reads a schema SDL file and queries (one per line) from stdin.
func probe(schemaPath string) {
	sdl, err := os.ReadFile(schemaPath)
	if err != nil {
		panic(err)
	}
	schema, err := graphql.NewSchemaFromString(string(sdl))
	if err != nil {
		fmt.Println("schema error:", err)
		os.Exit(1)
	}
	sc := bufio.NewScanner(os.Stdin)
	sc.Buffer(make([]byte, 1<<20), 1<<24)
	for sc.Scan() {
		q := strings.TrimSpace(sc.Text())
		if q == "" || strings.HasPrefix(q, "#") {
			continue
		}
		a := admit(schema, q, "", "", false)
		if a.Accepted {
			fmt.Printf("ACCEPT  %s\n   norm1: %s\n   final: %s\n", q, oneLine(a.Norm1), oneLine(a.Final))
		} else {
			fmt.Printf("REJECT  %s\n   [%s] %s\n", q, a.Stage, a.Message)
		}
	}
}

func main() {
	if len(os.Args) < 2 {
		fmt.Println("usage: c04 gen|merge|corpus|probe ...")
		os.Exit(2)
	}
	switch os.Args[1] {
	case "probe":
		probe(os.Args[2])
	case "gen":
		cmdGen(common.Args(os.Args[2:]))
	case "merge":
		cmdMerge(common.Args(os.Args[2:]))
	case "corpus":
		cmdCorpus(common.Args(os.Args[2:]))
	case "sdl":
		r := common.NewRand(common.ArgU64(common.Args(os.Args[2:]), "seed", 1))
		fmt.Print(genSchema(r).SDL())
	default:
		fmt.Println("unknown subcommand")
		os.Exit(2)
	}
}
