package main

import (
	"bufio"
	"fmt"
	"os"
	"strings"

	"github.com/wundergraph/graphql-go-tools/execution/graphql"
)

// probe: reads "schema SDL" from -schema file and queries (one per line) from stdin.
func probe(schemaPath string) {
	sdl, err := os.ReadFile(schemaPath)
	if err != nil {
		panic(err)
	}
	schema, err := graphql.NewSchemaFromString(string(sdl))
	if err != nil {
		fmt.Println("schema error:", err)
		os.Exit(1)
	}
	sc := bufio.NewScanner(os.Stdin)
	sc.Buffer(make([]byte, 1<<20), 1<<24)
	for sc.Scan() {
		q := strings.TrimSpace(sc.Text())
		if q == "" || strings.HasPrefix(q, "#") {
			continue
		}
		a := admit(schema, q, "", "", false)
		if a.Accepted {
			fmt.Printf("ACCEPT  %s\n   norm1: %s\n   final: %s\n", q, oneLine(a.Norm1), oneLine(a.Final))
		} else {
			fmt.Printf("REJECT  %s\n   [%s] %s\n", q, a.Stage, a.Message)
		}
	}
}

func main() {
	if len(os.Args) >= 3 && os.Args[1] == "probe" {
		probe(os.Args[2])
		return
	}
	fmt.Println("usage: c04 probe schema.graphql < queries")
}
