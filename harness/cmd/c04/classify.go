package main

import "strings"

// family classifies the first error of the admission sequence by its message template
// (v2/pkg/operationreport/externalerror.go); wording never reaches the comparison.
func family(stage, msg string) string {
	if stage == "" {
		return ""
	}
	if stage == "parse" {
		return "parse"
	}
	if stage == "panic" {
		return "panic"
	}
	has := func(s string) bool { return strings.Contains(msg, s) }
	switch {
	case has("Cannot query field"), has("cannot select field:"):
		return "unknown-field"
	case has("must not have a selection since type"):
		return "leaf-selection"
	case has("must have a selection of subfields"):
		return "missing-selection"
	case has("Unknown argument"):
		return "unknown-argument"
	case has("argument:") && has("must be unique"):
		return "duplicate-argument"
	case has("is required on field"), has("is required on directive"), has("must not be null"):
		return "required-argument"
	case has("OneOf input object"):
		return "oneof"
	case has("found null"):
		return "null-value"
	case has("cannot represent non-enum value"), has("does not exist in"):
		return "enum-value"
	case has("cannot represent"), has("Expected value of type"):
		return "value-type"
	case has("was not provided"):
		return "input-field-missing"
	case has("is not defined by type"):
		return "input-field-unknown"
	case has("only one input field named"):
		return "input-field-duplicate"
	case has("used in position expecting type"):
		return "variable-type"
	case has("is not defined on operation"), has("not defined on argument"):
		return "variable-undefined"
	case has("but never used"):
		return "variable-unused"
	case has("must be unique per operation"):
		return "variable-duplicate"
	case has("cannot be non-input type"):
		return "variable-non-input"
	case has("must be a constant but contains a variable"):
		return "variable-default-const"
	case has("fragment:") && has("must be unique per document"):
		return "fragment-duplicate"
	case has("Unknown type"):
		return "unknown-type"
	case has("fragment:") && has("undefined"):
		return "fragment-undefined"
	case has("forms fragment cycle"):
		return "fragment-cycle"
	case has("Fragment cannot be spread here"), has("must be spread on type"), has("mismatch"):
		return "fragment-spread-impossible"
	case has("disallowed"):
		return "fragment-on-non-composite"
	case has("defined but not used"):
		return "fragment-unused"
	case has("conflict because"), has("differing types"), has("differing fields"), has("same response shape"):
		return "fields-conflict"
	case has("directive:") && has("undefined"):
		return "directive-undefined"
	case has("not allowed on node of kind"):
		return "directive-location"
	case has("can only be used once at this location"):
		return "directive-duplicate"
	case has("must only have one root selection"), has("must not be the introspection field"):
		return "subscription-root"
	case has("unexpected token"), has("unexpected literal"), has("external: unexpected"):
		return "parse"
	}
	return "other"
}
