package main

// Rule-targeted mutation operators: each takes a (clone of a) valid document and makes exactly one
// change in the part reachable from the selected operation.

import (
	"fmt"
	"sort"

	"gvh/common"
)

type scope struct {
	parent string   // type the selections are on
	list   *[]*Sel  // the selection list
	root   bool     // top level of the operation
	inFrag *Frag
}
type fsite struct {
	sel    *Sel
	parent string
	fd     *FD // nil: __typename / unknown
	sc     *scope
}
type vsite struct {
	get     func() *Val
	set     func(*Val)
	t       *Ty
	hasDef  bool
	where   string // arg, list, obj, dirarg
	inOneOf bool
	defs    []IV // for object literals: the input fields of the position's type
}
type dsite struct {
	loc  string
	dirs *[]Dir
}

type mut struct {
	r      *common.Rand
	s      *Schema
	gd     *genDoc
	doc    *Doc
	op     *Op
	scopes []*scope
	fields []*fsite
	values []*vsite
	dsites []*dsite
	frags  []*Frag // reachable
	nfresh int
}

// seq: a per-operator counter shared by all mutants of one run, so that sub-variants rotate
var seqCounters = map[string]int{}

func (m *mut) seq(name string) int {
	seqCounters[name]++
	return seqCounters[name] - 1
}

func (m *mut) fresh(p string) string {
	m.nfresh++
	return fmt.Sprintf("%s%d", p, m.nfresh)
}

func newMut(r *common.Rand, s *Schema, gd *genDoc) *mut {
	doc := gd.doc.Clone()
	m := &mut{r: r, s: s, gd: gd, doc: doc}
	for _, d := range doc.Defs {
		if d.Op != nil && d.Op.Name == gd.main.Name && d.Op.Kind == gd.main.Kind {
			m.op = d.Op
			break
		}
	}
	m.index()
	return m
}

func (m *mut) rootType() string {
	return map[string]string{"query": m.s.Q, "mutation": m.s.M, "subscription": m.s.S}[m.op.Kind]
}

func (m *mut) index() {
	m.scopes, m.fields, m.values, m.dsites, m.frags = nil, nil, nil, nil, nil
	seen := map[string]bool{}
	var walk func(parent string, list *[]*Sel, root bool, fr *Frag)
	var visitFrag func(name string)
	walk = func(parent string, list *[]*Sel, root bool, fr *Frag) {
		sc := &scope{parent: parent, list: list, root: root, inFrag: fr}
		m.scopes = append(m.scopes, sc)
		for _, sel := range *list {
			sel := sel
			loc := map[int]string{0: "FIELD", 1: "INLINE_FRAGMENT", 2: "FRAGMENT_SPREAD"}[sel.Kind]
			m.dsites = append(m.dsites, &dsite{loc: loc, dirs: &sel.Dirs})
			m.dirValues(sel.Dirs)
			switch sel.Kind {
			case 0:
				var fd *FD
				if td := m.s.Type(parent); td != nil && sel.Name != "__typename" {
					fd = td.Field(sel.Name)
				}
				m.fields = append(m.fields, &fsite{sel: sel, parent: parent, fd: fd, sc: sc})
				if fd != nil {
					m.argValues(sel.Args, fd.Args, "arg")
					if len(sel.Sels) > 0 {
						walk(fd.T.Base(), &sel.Sels, false, fr)
					}
				}
			case 1:
				on := parent
				if sel.Cond != "" {
					on = sel.Cond
				}
				walk(on, &sel.Sels, false, fr)
			case 2:
				visitFrag(sel.Name)
			}
		}
	}
	visitFrag = func(name string) {
		if seen[name] {
			return
		}
		seen[name] = true
		f := m.doc.Frag(name)
		if f == nil {
			return
		}
		m.frags = append(m.frags, f)
		m.dsites = append(m.dsites, &dsite{loc: "FRAGMENT_DEFINITION", dirs: &f.Dirs})
		m.dirValues(f.Dirs)
		walk(f.On, &f.Sels, false, f)
	}
	loc := map[string]string{"query": "QUERY", "mutation": "MUTATION", "subscription": "SUBSCRIPTION"}[m.op.Kind]
	m.dsites = append(m.dsites, &dsite{loc: loc, dirs: &m.op.Dirs})
	m.dirValues(m.op.Dirs)
	for _, v := range m.op.Vars {
		m.dsites = append(m.dsites, &dsite{loc: "VARIABLE_DEFINITION", dirs: &v.Dirs})
	}
	walk(m.rootType(), &m.op.Sels, true, nil)
}

func (m *mut) dirValues(dirs []Dir) {
	all := append(append([]*DD{}, m.s.Dirs...), builtinDirs()...)
	for i := range dirs {
		for _, dd := range all {
			if dd.Name == dirs[i].Name {
				m.argValues(dirs[i].Args, dd.Args, "dirarg")
			}
		}
	}
}

func (m *mut) argValues(args []Arg, defs []IV, where string) {
	for i := range args {
		i := i
		for _, d := range defs {
			if d.Name == args[i].Name {
				m.valueSites(func() *Val { return args[i].V }, func(v *Val) { args[i].V = v }, d.T, d.Def != nil, where, false)
			}
		}
	}
}

func (m *mut) valueSites(get func() *Val, set func(*Val), t *Ty, hasDef bool, where string, inOneOf bool) {
	vs := &vsite{get: get, set: set, t: t, hasDef: hasDef, where: where, inOneOf: inOneOf}
	v := get()
	nt := t.Nullable()
	if v.Kind == "obj" && nt.Kind == 0 {
		if td := m.s.Type(nt.Name); td != nil && td.Kind == "input" {
			vs.defs = td.Inputs
			for i := range v.Fields {
				i := i
				for _, d := range td.Inputs {
					if d.Name == v.Fields[i].K {
						m.valueSites(func() *Val { return v.Fields[i].V }, func(x *Val) { v.Fields[i].V = x }, d.T, d.Def != nil, "obj", td.OneOf)
					}
				}
			}
		}
	}
	if v.Kind == "list" && nt.Kind == 1 {
		for i := range v.Items {
			i := i
			m.valueSites(func() *Val { return v.Items[i] }, func(x *Val) { v.Items[i] = x }, nt.Of, false, "list", false)
		}
	}
	m.values = append(m.values, vs)
}

func pick[T any](r *common.Rand, l []T) (T, bool) {
	var z T
	if len(l) == 0 {
		return z, false
	}
	return l[r.Pick(len(l))], true
}

func (m *mut) compositeScopes() []*scope {
	var out []*scope
	for _, sc := range m.scopes {
		if m.s.IsComposite(sc.parent) && !(sc.root && m.op.Kind == "subscription") {
			out = append(out, sc)
		}
	}
	return out
}

// addField adds a new field selection (fresh alias, valid arguments chosen by mk) to some scope whose
// parent type has a field satisfying pred; returns the selection and its definition.
func (m *mut) addField(pred func(*FD) bool) (*Sel, *FD) {
	type cand struct {
		sc *scope
		fd *FD
	}
	var cands []cand
	for _, sc := range m.compositeScopes() {
		td := m.s.Type(sc.parent)
		if td == nil {
			continue
		}
		for _, f := range td.Fields {
			if pred(f) {
				cands = append(cands, cand{sc, f})
			}
		}
	}
	c, ok := pick(m.r, cands)
	if !ok {
		return nil, nil
	}
	g := &gen{r: m.r, s: m.s, keys: map[string]*keyInfo{}, feats: map[string]bool{}, budget: 3, maxDep: 1, noVars: true}
	sel := &Sel{Kind: 0, Alias: m.fresh("mx"), Name: c.fd.Name, Args: g.argsFor(c.fd.Args)}
	if m.s.IsComposite(c.fd.T.Base()) {
		sel.Sels = []*Sel{{Kind: 0, Name: "__typename"}}
	}
	*c.sc.list = append(*c.sc.list, sel)
	return sel, c.fd
}

func (m *mut) setArg(sel *Sel, name string, v *Val) {
	for i := range sel.Args {
		if sel.Args[i].Name == name {
			sel.Args[i].V = v
			return
		}
	}
	sel.Args = append(sel.Args, Arg{name, v})
}

func (m *mut) addVar(name string, t *Ty, def *Val) {
	m.op.Vars = append(m.op.Vars, &VarDef{Name: name, T: t, Def: def})
}

func argOfType(fd *FD, pred func(IV) bool) *IV {
	for i := range fd.Args {
		if pred(fd.Args[i]) {
			return &fd.Args[i]
		}
	}
	return nil
}

func (m *mut) requiredDirArgs(d *DD) []Arg {
	var out []Arg
	g := &gen{r: m.r, s: m.s, keys: map[string]*keyInfo{}, feats: map[string]bool{}, noVars: true}
	for _, a := range d.Args {
		if a.T.Kind == 2 && a.Def == nil {
			out = append(out, Arg{a.Name, g.value(a.T, false, 0)})
		}
	}
	return out
}

type mutOp struct {
	name string
	kind string // required operation kind ("" any)
	f    func(m *mut) string // returns the sub-variant ("" = not applicable)
}

func literalSites(m *mut, pred func(*vsite) bool) []*vsite {
	var out []*vsite
	for _, v := range m.values {
		if pred(v) {
			out = append(out, v)
		}
	}
	return out
}

func mutOps() []mutOp {
	return []mutOp{
		{"unknown-field", "", func(m *mut) string {
			if m.r.Chance(1, 5) {
				var us []*scope
				for _, sc := range m.scopes {
					if m.s.Kind(sc.parent) == "union" {
						us = append(us, sc)
					}
				}
				if sc, ok := pick(m.r, us); ok {
					*sc.list = append(*sc.list, &Sel{Kind: 0, Name: "id"})
					return "on-union"
				}
			}
			var c []*fsite
			for _, f := range m.fields {
				if f.fd != nil && !(f.sc.root && m.op.Kind == "subscription") {
					c = append(c, f)
				}
			}
			f, ok := pick(m.r, c)
			if !ok {
				return ""
			}
			f.sel.Name = "nope"
			if f.sc.inFrag != nil {
				return "in-fragment"
			}
			return "plain"
		}},
		{"leaf-with-selection", "", func(m *mut) string {
			var c []*fsite
			for _, f := range m.fields {
				if f.fd != nil && !m.s.IsComposite(f.fd.T.Base()) {
					c = append(c, f)
				}
			}
			f, ok := pick(m.r, c)
			if !ok {
				return ""
			}
			f.sel.Sels = []*Sel{{Kind: 0, Name: "__typename"}}
			return "plain"
		}},
		{"composite-without-selection", "", func(m *mut) string {
			var c []*fsite
			for _, f := range m.fields {
				if f.fd != nil && m.s.IsComposite(f.fd.T.Base()) {
					c = append(c, f)
				}
			}
			f, ok := pick(m.r, c)
			if !ok {
				return ""
			}
			f.sel.Sels = nil
			return "plain"
		}},
		{"unknown-argument", "", func(m *mut) string {
			var c []*fsite
			for _, f := range m.fields {
				if f.fd != nil {
					c = append(c, f)
				}
			}
			f, ok := pick(m.r, c)
			if !ok {
				return ""
			}
			f.sel.Args = append(f.sel.Args, Arg{"zz", VInt("1")})
			return "plain"
		}},
		{"duplicate-argument", "", func(m *mut) string {
			var c []*fsite
			for _, f := range m.fields {
				if f.fd != nil && len(f.sel.Args) > 0 {
					c = append(c, f)
				}
			}
			f, ok := pick(m.r, c)
			if !ok {
				sel, fd := m.addField(func(f *FD) bool { return len(f.Args) > 0 })
				if sel == nil {
					return ""
				}
				if len(sel.Args) == 0 {
					g := &gen{r: m.r, s: m.s, keys: map[string]*keyInfo{}, feats: map[string]bool{}, noVars: true}
					sel.Args = []Arg{{fd.Args[0].Name, g.literal(fd.Args[0].T, 0, false)}}
				}
				f = &fsite{sel: sel}
			}
			a := f.sel.Args[m.r.Pick(len(f.sel.Args))]
			f.sel.Args = append(f.sel.Args, Arg{a.Name, a.V.Clone()})
			return "plain"
		}},
		{"missing-required-argument", "", func(m *mut) string {
			isReq := func(a IV) bool { return a.T.Kind == 2 && a.Def == nil }
			var c []*fsite
			for _, f := range m.fields {
				if f.fd != nil && argOfType(f.fd, isReq) != nil {
					c = append(c, f)
				}
			}
			f, ok := pick(m.r, c)
			if !ok {
				sel, fd := m.addField(func(f *FD) bool { return argOfType(f, isReq) != nil })
				if sel == nil {
					return ""
				}
				f = &fsite{sel: sel, fd: fd}
			}
			req := argOfType(f.fd, isReq)
			var na []Arg
			for _, a := range f.sel.Args {
				if a.Name != req.Name {
					na = append(na, a)
				}
			}
			f.sel.Args = na
			return "plain"
		}},
		{"wrong-literal-kind", "", func(m *mut) string {
			type v struct {
				name string
				base string
				val  *Val
			}
			vars := []v{
				{"string-for-int", "Int", VStr("x")}, {"int-for-string", "String", VInt("1")}, {"float-for-int", "Int", VFloat("1.5")},
				{"big-int", "Int", VInt("2147483648")}, {"neg-big-int", "Int", VInt("-2147483649")}, {"string-for-enum", "E0", VStr("A")},
				{"unknown-enum-value", "E0", VEnum("ZZZ")}, {"enum-for-string", "String", VEnum("A")}, {"object-for-int", "Int", VObj(ObjF{"a", VInt("1")})},
				{"int-for-input-object", "In0", VInt("1")}, {"bool-for-id", "ID", VBool(true)}, {"string-for-boolean", "Boolean", VStr("true")},
				{"string-for-float", "Float", VStr("1.0")}, {"float-for-id", "ID", VFloat("1.5")}, {"list-for-input-object", "In1", VList(VInt("1"))},
			}
			start := m.r.Pick(len(vars))
			for k := range vars {
				vv := vars[(start+k)%len(vars)]
				c := literalSites(m, func(s *vsite) bool {
					k := s.get().Kind
					return s.t.Nullable().Kind == 0 && s.t.Base() == vv.base && k != "var" && k != "null"
				})
				if s, ok := pick(m.r, c); ok {
					s.set(vv.val.Clone())
					return vv.name + "/" + s.where
				}
			}
			return ""
		}},
		{"var-incompatible-type", "", func(m *mut) string {
			c := literalSites(m, func(s *vsite) bool {
				k := s.get().Kind
				b := s.t.Base()
				return k != "var" && !s.inOneOf && (builtinScalars[b] || m.s.Kind(b) == "enum" || m.s.Kind(b) == "input")
			})
			s, ok := pick(m.r, c)
			if !ok {
				return ""
			}
			name := m.fresh("bv")
			var t *Ty
			variant := ""
			nt := s.t.Nullable()
			switch k := m.r.Pick(5); {
			case k == 0 && s.t.Kind == 2 && !s.hasDef:
				t, variant = s.t.Of, "nullable-for-nonnull"
			case k == 1 && nt.Kind == 1:
				t, variant = nt.Of.Nullable(), "item-for-list"
			case k == 2:
				t, variant = LT(s.t), "list-for-item"
			default:
				other := "String"
				if s.t.Base() == "String" || s.t.Base() == "ID" {
					other = "Int"
				}
				t, variant = retarget(s.t, other), "other-named-type"
			}
			var def *Val
			if m.r.Chance(1, 3) {
				g := &gen{r: m.r, s: m.s, keys: map[string]*keyInfo{}, feats: map[string]bool{}, noVars: true}
				def = g.literal(t, 0, false)
				variant += "+default"
			}
			m.addVar(name, t, def)
			s.set(VVar(name))
			return variant + "/" + s.where
		}},
		{"var-list-item-nullability", "", func(m *mut) string {
			// a list-typed variable used DIRECTLY as an argument value whose ITEM nullability is weaker
			// than the location's; a default on the variable or on the argument never repairs that
			variant := []string{"no-default", "variable-default", "argument-default", "nested-list"}[m.seq("vlin")%4]
			want := func(a IV) bool {
				nt := a.T.Nullable()
				if nt.Kind != 1 || nt.Of.Kind != 2 {
					return false
				}
				switch variant {
				case "argument-default":
					return a.Def != nil && nt.Of.Of.Kind == 0
				case "nested-list":
					return false
				default:
					return a.Def == nil && nt.Of.Of.Kind == 0
				}
			}
			if variant == "nested-list" {
				want = func(a IV) bool { return a.T.String() == "[[Int!]]" }
			}
			sel, fd := m.addField(func(f *FD) bool { return argOfType(f, want) != nil })
			if sel == nil {
				return ""
			}
			a := argOfType(fd, want)
			// the variable's type: the location's type with the item's non-null removed
			var weaken func(t *Ty) *Ty
			weaken = func(t *Ty) *Ty {
				switch t.Kind {
				case 2:
					if t.Of.Kind == 0 {
						return t.Of
					}
					return NN(weaken(t.Of))
				case 1:
					return LT(weaken(t.Of))
				}
				return t
			}
			vt := weaken(a.T)
			var def *Val
			if variant == "variable-default" {
				def = VList(VInt("1"), VInt("2"))
			}
			name := m.fresh("lv")
			m.addVar(name, vt, def)
			m.setArg(sel, a.Name, VVar(name))
			return variant + "/" + a.T.String()
		}},
		{"conflict-object-interface-scopes", "", func(m *mut) string {
			// same response key, different scalar fields of one type, one under an object-typed fragment
			// and one under a fragment on an interface that object implements, beneath another abstract type
			k := m.seq("cois")
			objFirst := k%2 == 0
			named := (k/2)%2 == 1
			noReq := func(f *FD) bool {
				return argOfType(f, func(a IV) bool { return a.T.Kind == 2 && a.Def == nil }) == nil
			}
			scalar := func(t *Ty) bool {
				b := t.Base()
				return builtinScalars[b] || m.s.Kind(b) == "scalar"
			}
			for _, sc := range m.compositeScopes() {
				td := m.s.Type(sc.parent)
				if td == nil {
					continue
				}
				for _, pf := range td.Fields {
					P := pf.T.Base()
					if k := m.s.Kind(P); (k != "interface" && k != "union") || !noReq(pf) {
						continue
					}
					for _, on := range m.s.Possible(P) {
						ot := m.s.Type(on)
						for _, in := range ot.Impl {
							it := m.s.Type(in)
							if in == P || it == nil {
								continue
							}
							for _, f2 := range it.Fields {
								if !scalar(f2.T) || !noReq(f2) {
									continue
								}
								for _, f1 := range ot.Fields {
									if f1.Name == f2.Name || f1.T.String() != f2.T.String() || !noReq(f1) {
										continue
									}
									key := m.fresh("oi")
									so := &Sel{Kind: 0, Alias: key, Name: f1.Name}
									si := &Sel{Kind: 0, Alias: key, Name: f2.Name}
									var a, b *Sel
									if named {
										fo, fi := m.fresh("OiO"), m.fresh("OiI")
										m.doc.Defs = append(m.doc.Defs, Def{Frag: &Frag{Name: fo, On: on, Sels: []*Sel{so}}}, Def{Frag: &Frag{Name: fi, On: in, Sels: []*Sel{si}}})
										a, b = &Sel{Kind: 2, Name: fo}, &Sel{Kind: 2, Name: fi}
									} else {
										a, b = &Sel{Kind: 1, Cond: on, Sels: []*Sel{so}}, &Sel{Kind: 1, Cond: in, Sels: []*Sel{si}}
									}
									if !objFirst {
										a, b = b, a
									}
									g := &gen{r: m.r, s: m.s, keys: map[string]*keyInfo{}, feats: map[string]bool{}, noVars: true}
									*sc.list = append(*sc.list, &Sel{Kind: 0, Alias: m.fresh("mx"), Name: pf.Name, Args: g.argsFor(pf.Args), Sels: []*Sel{a, b}})
									v := "interface-then-object"
									if objFirst {
										v = "object-then-interface"
									}
									if named {
										return v + "/named"
									}
									return v + "/inline"
								}
							}
						}
					}
				}
			}
			return ""
		}},
		{"undefined-variable", "", func(m *mut) string {
			s, ok := pick(m.r, m.values)
			if !ok {
				sel, fd := m.addField(func(f *FD) bool { return len(f.Args) > 0 })
				if sel == nil {
					return ""
				}
				m.setArg(sel, fd.Args[0].Name, VVar("undef"))
				return "arg"
			}
			s.set(VVar("undef"))
			return s.where
		}},
		{"unused-variable", "", func(m *mut) string {
			m.addVar("unused", N("Int"), nil)
			return "plain"
		}},
		{"duplicate-variable", "", func(m *mut) string {
			if len(m.op.Vars) == 0 {
				sel, fd := m.addField(func(f *FD) bool { return argOfType(f, func(a IV) bool { return a.T.String() == "Int" }) != nil })
				if sel == nil {
					return ""
				}
				a := argOfType(fd, func(a IV) bool { return a.T.String() == "Int" })
				m.setArg(sel, a.Name, VVar("dup"))
				m.addVar("dup", N("Int"), nil)
			}
			v := m.op.Vars[m.r.Pick(len(m.op.Vars))]
			c := *v
			m.op.Vars = append(m.op.Vars, &c)
			return "plain"
		}},
		{"non-input-variable-type", "", func(m *mut) string {
			bad := "Nope"
			variant := "unknown-type"
			if m.r.Chance(2, 3) {
				var comps []string
				for _, t := range m.s.Types {
					if m.s.IsComposite(t.Name) {
						comps = append(comps, t.Name)
					}
				}
				bad = common.PickOf(m.r, comps)
				variant = m.s.Kind(bad)
			}
			if len(m.op.Vars) > 0 && m.r.Chance(1, 2) {
				v := m.op.Vars[m.r.Pick(len(m.op.Vars))]
				v.T = retarget(v.T, bad)
				v.Def = nil
				return variant + "/retyped"
			}
			sel, fd := m.addField(func(f *FD) bool { return len(f.Args) > 0 })
			if sel == nil {
				return ""
			}
			m.addVar("bad", N(bad), nil)
			m.setArg(sel, fd.Args[0].Name, VVar("bad"))
			return variant + "/new"
		}},
		{"unknown-fragment", "", func(m *mut) string {
			sc, ok := pick(m.r, m.compositeScopes())
			if !ok {
				return ""
			}
			*sc.list = append(*sc.list, &Sel{Kind: 2, Name: "NoSuchFragment"})
			return "plain"
		}},
		{"duplicate-fragment-name", "", func(m *mut) string {
			f, ok := pick(m.r, m.frags)
			if !ok {
				sc, ok2 := pick(m.r, m.compositeScopes())
				if !ok2 {
					return ""
				}
				n := m.fresh("Dup")
				m.doc.Defs = append(m.doc.Defs, Def{Frag: &Frag{Name: n, On: sc.parent, Sels: []*Sel{{Kind: 0, Name: "__typename"}}}})
				*sc.list = append(*sc.list, &Sel{Kind: 2, Name: n})
				f = m.doc.Frag(n)
			}
			dup := &Frag{Name: f.Name, On: f.On, Sels: []*Sel{{Kind: 0, Alias: m.fresh("dupf"), Name: "__typename"}}}
			if m.r.Chance(1, 2) {
				m.doc.Defs = append(m.doc.Defs, Def{Frag: dup})
				return "after"
			}
			m.doc.Defs = append([]Def{{Frag: dup}}, m.doc.Defs...)
			return "before"
		}},
		{"fragment-cycle", "", func(m *mut) string {
			switch m.r.Pick(3) {
			case 0:
				if f, ok := pick(m.r, m.frags); ok && !(m.op.Kind == "subscription" && f.On == m.s.S) {
					f.Sels = append(f.Sels, &Sel{Kind: 2, Name: f.Name})
					return "self"
				}
				fallthrough
			case 1:
				sc, ok := pick(m.r, m.compositeScopes())
				if !ok {
					return ""
				}
				a, b := m.fresh("CycA"), m.fresh("CycB")
				m.doc.Defs = append(m.doc.Defs, Def{Frag: &Frag{Name: a, On: sc.parent, Sels: []*Sel{{Kind: 0, Name: "__typename"}, {Kind: 2, Name: b}}}})
				m.doc.Defs = append(m.doc.Defs, Def{Frag: &Frag{Name: b, On: sc.parent, Sels: []*Sel{{Kind: 2, Name: a}}}})
				*sc.list = append(*sc.list, &Sel{Kind: 2, Name: a})
				return "two-cycle"
			default:
				// through a nested field: fragment on P { f { ...Frag } } with f returning a type overlapping P
				for _, sc := range m.compositeScopes() {
					td := m.s.Type(sc.parent)
					if td == nil {
						continue
					}
					for _, f := range td.Fields {
						if m.s.IsComposite(f.T.Base()) && m.s.Overlap(f.T.Base(), sc.parent) && argOfType(f, func(a IV) bool { return a.T.Kind == 2 && a.Def == nil }) == nil {
							n := m.fresh("CycN")
							m.doc.Defs = append(m.doc.Defs, Def{Frag: &Frag{Name: n, On: sc.parent, Sels: []*Sel{{Kind: 0, Alias: m.fresh("cy"), Name: f.Name, Sels: []*Sel{{Kind: 2, Name: n}}}}}})
							*sc.list = append(*sc.list, &Sel{Kind: 2, Name: n})
							return "nested-field"
						}
					}
				}
				return ""
			}
		}},
		{"impossible-spread", "", func(m *mut) string {
			scs := m.compositeScopes()
			m.r.Shuffle(len(scs), func(i, j int) { scs[i], scs[j] = scs[j], scs[i] })
			for _, sc := range scs {
				var no []string
				for _, t := range m.s.Types {
					if m.s.IsComposite(t.Name) && !m.s.Overlap(sc.parent, t.Name) {
						no = append(no, t.Name)
					}
				}
				t, ok := pick(m.r, no)
				if !ok {
					continue
				}
				if m.r.Chance(1, 2) {
					*sc.list = append(*sc.list, &Sel{Kind: 1, Cond: t, Sels: []*Sel{{Kind: 0, Name: "__typename"}}})
					return "inline/" + m.s.Kind(t)
				}
				n := m.fresh("Imp")
				m.doc.Defs = append(m.doc.Defs, Def{Frag: &Frag{Name: n, On: t, Sels: []*Sel{{Kind: 0, Name: "__typename"}}}})
				*sc.list = append(*sc.list, &Sel{Kind: 2, Name: n})
				return "named/" + m.s.Kind(t)
			}
			return ""
		}},
		{"fragment-on-non-composite", "", func(m *mut) string {
			sc, ok := pick(m.r, m.compositeScopes())
			if !ok {
				return ""
			}
			t := common.PickOf(m.r, []string{"Int", "String", "E0", "In0", "Date", "NoSuchType"})
			kind := m.s.Kind(t)
			if kind == "" {
				kind = "unknown"
			}
			if m.r.Chance(1, 2) {
				*sc.list = append(*sc.list, &Sel{Kind: 1, Cond: t, Sels: []*Sel{{Kind: 0, Name: "__typename"}}})
				return "inline/" + kind
			}
			n := m.fresh("Bad")
			m.doc.Defs = append(m.doc.Defs, Def{Frag: &Frag{Name: n, On: t, Sels: []*Sel{{Kind: 0, Name: "__typename"}}}})
			*sc.list = append(*sc.list, &Sel{Kind: 2, Name: n})
			return "named/" + kind
		}},
		{"conflict-different-args", "", func(m *mut) string {
			if m.r.Chance(1, 4) {
				// an interface and an object type that does NOT implement it: the parent types are not
				// both object types, so names and arguments must still be identical
				scs := m.compositeScopes()
				m.r.Shuffle(len(scs), func(i, j int) { scs[i], scs[j] = scs[j], scs[i] })
				for _, sc := range scs {
					for _, it := range m.s.Types {
						if it.Kind != "interface" || !m.s.Overlap(sc.parent, it.Name) {
							continue
						}
						for _, ot := range m.s.Types {
							if ot.Kind != "object" || ot.Implements(it.Name) || !m.s.Overlap(sc.parent, ot.Name) {
								continue
							}
							for _, fi := range it.Fields {
								fo := ot.Field(fi.Name)
								if fo == nil || fo.T.String() != fi.T.String() || m.s.IsComposite(fi.T.Base()) {
									continue
								}
								a := argOfType(fi, func(a IV) bool { return a.T.String() == "Int" })
								if a == nil || argOfType(fi, func(a IV) bool { return a.T.Kind == 2 && a.Def == nil && a.T.String() != "Int!" }) != nil {
									continue
								}
								mk := func(v string) []Arg {
									out := []Arg{{a.Name, VInt(v)}}
									for _, o := range fi.Args {
										if o.Name != a.Name && o.T.Kind == 2 && o.Def == nil {
											out = append(out, Arg{o.Name, VInt("5")})
										}
									}
									return out
								}
								k := m.fresh("iv")
								*sc.list = append(*sc.list,
									&Sel{Kind: 1, Cond: it.Name, Sels: []*Sel{{Kind: 0, Alias: k, Name: fi.Name, Args: mk("1")}}},
									&Sel{Kind: 1, Cond: ot.Name, Sels: []*Sel{{Kind: 0, Alias: k, Name: fi.Name, Args: mk("2")}}})
								return "leaf/interface-vs-unrelated-object"
							}
						}
					}
				}
			}
			var c []*fsite
			for _, f := range m.fields {
				if f.fd != nil && len(f.fd.Args) > 0 && !(f.sc.root && m.op.Kind == "subscription") {
					c = append(c, f)
				}
			}
			f, ok := pick(m.r, c)
			if !ok {
				sel, fd := m.addField(func(f *FD) bool { return len(f.Args) > 0 })
				if sel == nil {
					return ""
				}
				m.index()
				for _, x := range m.fields {
					if x.sel == sel {
						f = x
					}
				}
				_ = fd
				if f == nil {
					return ""
				}
			}
			dup := f.sel.Clone()
			dup.Dirs = nil
			kind := "leaf"
			if len(dup.Sels) > 0 {
				kind = "composite"
				if m.r.Chance(1, 2) {
					dup.Sels = []*Sel{{Kind: 0, Name: "__typename"}}
				}
			}
			changed := ""
			for i := range dup.Args {
				v := dup.Args[i].V
				switch v.Kind {
				case "int":
					dup.Args[i].V = VInt(map[bool]string{true: "8", false: "9"}[v.S != "8"])
					changed = "value"
				case "bool":
					dup.Args[i].V = VBool(!v.B)
					changed = "value"
				case "str":
					dup.Args[i].V = VStr(v.S + "y")
					changed = "value"
				}
				if changed != "" {
					break
				}
			}
			if changed == "" {
				for _, a := range f.fd.Args {
					present := false
					for _, x := range dup.Args {
						if x.Name == a.Name {
							present = true
						}
					}
					optional := !(a.T.Kind == 2 && a.Def == nil)
					if !present && optional {
						g := &gen{r: m.r, s: m.s, keys: map[string]*keyInfo{}, feats: map[string]bool{}, noVars: true}
						dup.Args = append(dup.Args, Arg{a.Name, g.literal(a.T, 0, false)})
						changed = "added"
						break
					}
					if present && optional {
						var na []Arg
						for _, x := range dup.Args {
							if x.Name != a.Name {
								na = append(na, x)
							}
						}
						dup.Args = na
						changed = "removed"
						break
					}
				}
			}
			if changed == "" {
				return ""
			}
			*f.sc.list = append(*f.sc.list, dup)
			return kind + "/" + changed
		}},
		{"conflict-different-names", "", func(m *mut) string {
			if m.r.Chance(1, 5) {
				for _, sc := range m.compositeScopes() {
					td := m.s.Type(sc.parent)
					if td == nil || td.Kind == "union" {
						continue
					}
					for _, f := range td.Fields {
						if f.T.String() == "String" && len(f.Args) == 0 {
							k := m.fresh("zt")
							*sc.list = append(*sc.list, &Sel{Kind: 0, Alias: k, Name: "__typename"}, &Sel{Kind: 0, Alias: k, Name: f.Name})
							return "leaf/typename"
						}
					}
				}
			}
			fs := append([]*fsite{}, m.fields...)
			m.r.Shuffle(len(fs), func(i, j int) { fs[i], fs[j] = fs[j], fs[i] })
			for _, f := range fs {
				if f.fd == nil || (f.sc.root && m.op.Kind == "subscription") {
					continue
				}
				td := m.s.Type(f.parent)
				for _, g2 := range td.Fields {
					if g2.Name == f.fd.Name || g2.T.String() != f.fd.T.String() {
						continue
					}
					if argOfType(g2, func(a IV) bool { return a.T.Kind == 2 && a.Def == nil }) != nil {
						continue
					}
					dup := &Sel{Kind: 0, Alias: f.sel.Key(), Name: g2.Name}
					kind := "leaf"
					if m.s.IsComposite(g2.T.Base()) {
						kind = "composite"
						dup.Sels = []*Sel{{Kind: 0, Name: "__typename"}}
					}
					*f.sc.list = append(*f.sc.list, dup)
					return kind
				}
			}
			return ""
		}},
		{"conflict-different-shapes", "", func(m *mut) string {
			shapeDiffers := func(a, b *Ty) bool {
				for {
					if a.Kind != b.Kind {
						return true
					}
					if a.Kind == 0 {
						return a.Name != b.Name
					}
					a, b = a.Of, b.Of
				}
			}
			noReq := func(f *FD) bool {
				return argOfType(f, func(a IV) bool { return a.T.Kind == 2 && a.Def == nil }) == nil
			}
			scs := m.compositeScopes()
			m.r.Shuffle(len(scs), func(i, j int) { scs[i], scs[j] = scs[j], scs[i] })
			if m.r.Chance(1, 4) {
				// a leaf field and a field with a selection set under one response name, in either order
				for _, sc := range scs {
					td := m.s.Type(sc.parent)
					if td == nil || td.Kind == "union" {
						continue
					}
					for _, fa := range td.Fields {
						for _, fb := range td.Fields {
							if m.s.IsComposite(fa.T.Base()) || !m.s.IsComposite(fb.T.Base()) || !noReq(fa) || !noReq(fb) {
								continue
							}
							k := m.fresh("sh")
							leaf := &Sel{Kind: 0, Alias: k, Name: fa.Name}
							comp := &Sel{Kind: 0, Alias: k, Name: fb.Name, Sels: []*Sel{{Kind: 0, Name: "__typename"}}}
							if m.r.Chance(1, 2) {
								*sc.list = append(*sc.list, leaf, comp)
								return "same-parent/leaf-vs-composite"
							}
							*sc.list = append(*sc.list, comp, leaf)
							return "same-parent/composite-vs-leaf"
						}
					}
				}
			}
			if m.r.Chance(1, 4) {
				// composite fields of two different object types whose list / non-null wrappers differ
				wrappersDiffer := func(a, b *Ty) bool {
					for {
						if a.Kind != b.Kind {
							return true
						}
						if a.Kind == 0 {
							return false
						}
						a, b = a.Of, b.Of
					}
				}
				for _, sc := range scs {
					poss := m.s.Possible(sc.parent)
					for _, an := range poss {
						for _, bn := range poss {
							if an == bn {
								continue
							}
							for _, fa := range m.s.Type(an).Fields {
								for _, fb := range m.s.Type(bn).Fields {
									if !m.s.IsComposite(fa.T.Base()) || !m.s.IsComposite(fb.T.Base()) || !noReq(fa) || !noReq(fb) || !wrappersDiffer(fa.T, fb.T) {
										continue
									}
									k := m.fresh("sh")
									*sc.list = append(*sc.list,
										&Sel{Kind: 1, Cond: an, Sels: []*Sel{{Kind: 0, Alias: k, Name: fa.Name, Sels: []*Sel{{Kind: 0, Name: "__typename"}}}}},
										&Sel{Kind: 1, Cond: bn, Sels: []*Sel{{Kind: 0, Alias: k, Name: fb.Name, Sels: []*Sel{{Kind: 0, Name: "__typename"}}}}})
									return "distinct-objects/composite/" + fa.T.String() + "-vs-" + fb.T.String()
								}
							}
						}
					}
				}
			}
			if m.r.Chance(1, 2) {
				// through inline fragments on two different object types
				for _, sc := range scs {
					poss := m.s.Possible(sc.parent)
					if len(poss) < 2 {
						continue
					}
					for _, an := range poss {
						for _, bn := range poss {
							if an == bn {
								continue
							}
							for _, fa := range m.s.Type(an).Fields {
								for _, fb := range m.s.Type(bn).Fields {
									if m.s.IsComposite(fa.T.Base()) || m.s.IsComposite(fb.T.Base()) || !noReq(fa) || !noReq(fb) {
										continue
									}
									if shapeDiffers(fa.T, fb.T) {
										k := m.fresh("sh")
										*sc.list = append(*sc.list,
											&Sel{Kind: 1, Cond: an, Sels: []*Sel{{Kind: 0, Alias: k, Name: fa.Name}}},
											&Sel{Kind: 1, Cond: bn, Sels: []*Sel{{Kind: 0, Alias: k, Name: fb.Name}}})
										return "distinct-objects/" + fa.T.String() + "-vs-" + fb.T.String()
									}
								}
							}
						}
					}
				}
			}
			for _, sc := range scs {
				td := m.s.Type(sc.parent)
				if td == nil || td.Kind == "union" {
					continue
				}
				for _, fa := range td.Fields {
					for _, fb := range td.Fields {
						if fa == fb || m.s.IsComposite(fa.T.Base()) || m.s.IsComposite(fb.T.Base()) || !noReq(fa) || !noReq(fb) {
							continue
						}
						if shapeDiffers(fa.T, fb.T) && m.r.Chance(1, 3) {
							k := m.fresh("sh")
							*sc.list = append(*sc.list, &Sel{Kind: 0, Alias: k, Name: fa.Name}, &Sel{Kind: 0, Alias: k, Name: fb.Name})
							return "same-parent/" + fa.T.String() + "-vs-" + fb.T.String()
						}
					}
				}
			}
			return ""
		}},
		{"unknown-directive", "", func(m *mut) string {
			d, ok := pick(m.r, m.dsites)
			if !ok {
				return ""
			}
			*d.dirs = append(*d.dirs, Dir{Name: "nodir"})
			return d.loc
		}},
		{"directive-wrong-location", "", func(m *mut) string {
			ds := append([]*dsite{}, m.dsites...)
			m.r.Shuffle(len(ds), func(i, j int) { ds[i], ds[j] = ds[j], ds[i] })
			all := append(append([]*DD{}, m.s.Dirs...), builtinDirs()...)
			for _, d := range ds {
				var bad []*DD
				for _, dd := range all {
					if !hasLoc(dd, d.loc) {
						bad = append(bad, dd)
					}
				}
				dd, ok := pick(m.r, bad)
				if !ok {
					continue
				}
				args := m.requiredDirArgs(dd)
				*d.dirs = append(*d.dirs, Dir{Name: dd.Name, Args: args})
				return dd.Name + "-on-" + d.loc
			}
			return ""
		}},
		{"duplicate-directive", "", func(m *mut) string {
			ds := append([]*dsite{}, m.dsites...)
			m.r.Shuffle(len(ds), func(i, j int) { ds[i], ds[j] = ds[j], ds[i] })
			all := append(append([]*DD{}, m.s.Dirs...), builtinDirs()...)
			for _, d := range ds {
				if d.loc == "VARIABLE_DEFINITION" {
					continue
				}
				var ok2 []*DD
				for _, dd := range all {
					if hasLoc(dd, d.loc) && !dd.Rep {
						ok2 = append(ok2, dd)
					}
				}
				dd, ok := pick(m.r, ok2)
				if !ok {
					continue
				}
				var nd []Dir
				for _, x := range *d.dirs {
					if x.Name != dd.Name {
						nd = append(nd, x)
					}
				}
				args := m.requiredDirArgs(dd)
				variant := dd.Name
				if dd.Name == "skip" || dd.Name == "include" {
					// keep the node: @skip(if:false) / @include(if:true), or a variable
					if m.r.Chance(1, 2) {
						m.addVar("dupb", NN(N("Boolean")), nil)
						args = []Arg{{"if", VVar("dupb")}}
						variant += "-var"
					} else {
						args = []Arg{{"if", VBool(dd.Name == "include")}}
						variant += "-literal"
					}
				}
				nd = append(nd, Dir{dd.Name, args}, Dir{dd.Name, cloneArgs(args)})
				*d.dirs = nd
				return variant
			}
			return ""
		}},
		{"missing-directive-argument", "", func(m *mut) string {
			ds := append([]*dsite{}, m.dsites...)
			m.r.Shuffle(len(ds), func(i, j int) { ds[i], ds[j] = ds[j], ds[i] })
			all := append(append([]*DD{}, m.s.Dirs...), builtinDirs()...)
			for _, d := range ds {
				if d.loc == "VARIABLE_DEFINITION" {
					continue
				}
				var ok2 []*DD
				for _, dd := range all {
					if hasLoc(dd, d.loc) && len(m.requiredDirArgs(dd)) > 0 {
						ok2 = append(ok2, dd)
					}
				}
				dd, ok := pick(m.r, ok2)
				if !ok {
					continue
				}
				var nd []Dir
				for _, x := range *d.dirs {
					if x.Name != dd.Name {
						nd = append(nd, x)
					}
				}
				nd = append(nd, Dir{Name: dd.Name})
				*d.dirs = nd
				return dd.Name
			}
			return ""
		}},
		{"unknown-directive-argument", "", func(m *mut) string {
			ds := append([]*dsite{}, m.dsites...)
			m.r.Shuffle(len(ds), func(i, j int) { ds[i], ds[j] = ds[j], ds[i] })
			for _, d := range ds {
				if d.loc == "VARIABLE_DEFINITION" {
					continue
				}
				var ok2 []*DD
				for _, dd := range m.s.Dirs {
					if hasLoc(dd, d.loc) && !dd.Rep {
						ok2 = append(ok2, dd)
					}
				}
				dd, ok := pick(m.r, ok2)
				if !ok {
					continue
				}
				var nd []Dir
				for _, x := range *d.dirs {
					if x.Name != dd.Name {
						nd = append(nd, x)
					}
				}
				nd = append(nd, Dir{Name: dd.Name, Args: append(m.requiredDirArgs(dd), Arg{"zz", VInt("1")})})
				*d.dirs = nd
				return dd.Name
			}
			return ""
		}},
		{"repeated-directive-lost", "", mutRepeatedDirectiveLost},
		{"subscription-two-roots", "subscription", func(m *mut) string {
			td := m.s.Type(m.s.S)
			var other *FD
			used := map[string]bool{}
			for _, f := range m.fields {
				if f.sc.root || f.parent == m.s.S {
					used[f.sel.Key()] = true
				}
			}
			for _, f := range td.Fields {
				if !used[f.Name] && argOfType(f, func(a IV) bool { return a.T.Kind == 2 && a.Def == nil }) == nil {
					other = f
				}
			}
			if other == nil {
				return ""
			}
			sel := &Sel{Kind: 0, Name: other.Name}
			if m.s.IsComposite(other.T.Base()) {
				sel.Sels = []*Sel{{Kind: 0, Name: "__typename"}}
			}
			switch m.r.Pick(3) {
			case 0:
				m.op.Sels = append(m.op.Sels, sel)
				return "direct"
			case 1:
				m.op.Sels = append(m.op.Sels, &Sel{Kind: 1, Cond: m.s.S, Sels: []*Sel{sel}})
				return "inline"
			default:
				n := m.fresh("SubF")
				m.doc.Defs = append(m.doc.Defs, Def{Frag: &Frag{Name: n, On: m.s.S, Sels: []*Sel{sel}}})
				m.op.Sels = append(m.op.Sels, &Sel{Kind: 2, Name: n})
				return "named"
			}
		}},
		{"subscription-introspection-root", "subscription", func(m *mut) string {
			m.op.Sels = []*Sel{{Kind: 0, Name: "__typename"}}
			// drop variables that are no longer used
			m.op.Vars = nil
			m.op.Dirs = nil
			return "plain"
		}},
		{"oneof", "", func(m *mut) string {
			isOne := func(a IV) bool { return a.T.Base() == "One" && a.T.Nullable().Kind == 0 }
			sel, fd := m.addField(func(f *FD) bool { return argOfType(f, isOne) != nil })
			if sel == nil {
				return ""
			}
			a := argOfType(fd, isOne)
			switch m.r.Pick(4) {
			case 0:
				m.setArg(sel, a.Name, VObj(ObjF{"a", VInt("1")}, ObjF{"b", VStr("x")}))
				return "two-fields"
			case 1:
				m.setArg(sel, a.Name, VObj(ObjF{"a", VNull()}))
				return "null-field"
			case 2:
				m.setArg(sel, a.Name, VObj())
				return "no-field"
			default:
				m.addVar("onev", N("Int"), nil)
				m.setArg(sel, a.Name, VObj(ObjF{"a", VVar("onev")}))
				return "nullable-variable"
			}
		}},
		{"null-for-non-null", "", func(m *mut) string {
			c := literalSites(m, func(s *vsite) bool { return s.t.Kind == 2 && s.get().Kind != "null" })
			if s, ok := pick(m.r, c); ok && m.r.Chance(2, 3) {
				s.set(VNull())
				return s.where
			}
			c = literalSites(m, func(s *vsite) bool {
				nt := s.t.Nullable()
				return nt.Kind == 1 && nt.Of.Kind == 2 && s.get().Kind == "list"
			})
			if s, ok := pick(m.r, c); ok {
				v := s.get()
				v.Items = append(v.Items, VNull())
				return "list-item"
			}
			isL := func(a IV) bool { nt := a.T.Nullable(); return nt.Kind == 1 && nt.Of.Kind == 2 && nt.Of.Of.Kind == 0 && nt.Of.Of.Name == "Int" }
			sel, fd := m.addField(func(f *FD) bool { return argOfType(f, isL) != nil })
			if sel == nil {
				return ""
			}
			m.setArg(sel, argOfType(fd, isL).Name, VList(VInt("1"), VNull()))
			return "list-item/new"
		}},
		{"unknown-input-field", "", func(m *mut) string {
			c := literalSites(m, func(s *vsite) bool { return s.defs != nil })
			s, ok := pick(m.r, c)
			if !ok {
				return inputObjectFallback(m, func(v *Val) { v.Fields = append(v.Fields, ObjF{"zz", VInt("1")}) })
			}
			v := s.get()
			v.Fields = append(v.Fields, ObjF{"zz", VInt("1")})
			return s.where
		}},
		{"duplicate-input-field", "", func(m *mut) string {
			c := literalSites(m, func(s *vsite) bool { return s.defs != nil && len(s.get().Fields) > 0 && !s.inOneOf })
			s, ok := pick(m.r, c)
			if !ok {
				return inputObjectFallback(m, func(v *Val) { v.Fields = append(v.Fields, ObjF{v.Fields[0].K, v.Fields[0].V.Clone()}) })
			}
			v := s.get()
			f := v.Fields[m.r.Pick(len(v.Fields))]
			v.Fields = append(v.Fields, ObjF{f.K, f.V.Clone()})
			return s.where
		}},
		{"missing-required-input-field", "", func(m *mut) string {
			c := literalSites(m, func(s *vsite) bool {
				if s.defs == nil {
					return false
				}
				for _, d := range s.defs {
					if d.T.Kind == 2 && d.Def == nil {
						return true
					}
				}
				return false
			})
			drop := func(v *Val, defs []IV) {
				for _, d := range defs {
					if d.T.Kind == 2 && d.Def == nil {
						var nf []ObjF
						for _, f := range v.Fields {
							if f.K != d.Name {
								nf = append(nf, f)
							}
						}
						v.Fields = nf
						return
					}
				}
			}
			s, ok := pick(m.r, c)
			if !ok {
				return inputObjectFallback(m, func(v *Val) { drop(v, m.s.Type("In0").Inputs) })
			}
			drop(s.get(), s.defs)
			return s.where
		}},
		{"list-depth", "", func(m *mut) string {
			c := literalSites(m, func(s *vsite) bool {
				nt := s.t.Nullable()
				k := s.get().Kind
				if k == "var" || k == "null" {
					return false
				}
				return (nt.Kind == 0 && nt.Name == "Int") || (nt.Kind == 1 && nt.Of.Nullable().Kind == 0 && nt.Of.Base() == "Int")
			})
			s, ok := pick(m.r, c)
			if !ok {
				isI := func(a IV) bool { return a.T.String() == "Int" }
				sel, fd := m.addField(func(f *FD) bool { return argOfType(f, isI) != nil })
				if sel == nil {
					return ""
				}
				m.setArg(sel, argOfType(fd, isI).Name, VList(VInt("1")))
				return "list-for-int/new"
			}
			if s.t.Nullable().Kind == 0 {
				s.set(VList(VInt("1")))
				return "list-for-int/" + s.where
			}
			s.set(VList(VList(VInt("1"))))
			return "nested-list-for-list/" + s.where
		}},
		{"variable-in-default", "", func(m *mut) string {
			isLL := func(a IV) bool { return a.T.String() == "[[Int]]" }
			isI := func(a IV) bool { return a.T.String() == "Int" }
			sel, fd := m.addField(func(f *FD) bool { return argOfType(f, isLL) != nil })
			sel2, fd2 := m.addField(func(f *FD) bool { return argOfType(f, isI) != nil })
			if sel2 == nil {
				return ""
			}
			m.addVar("other", N("Int"), nil)
			m.setArg(sel2, argOfType(fd2, isI).Name, VVar("other"))
			if sel != nil && m.r.Chance(1, 2) {
				m.addVar("dv", LT(LT(N("Int"))), VList(VList(VVar("other"))))
				m.setArg(sel, argOfType(fd, isLL).Name, VVar("dv"))
				return "nested-list"
			}
			sel3, fd3 := m.addField(func(f *FD) bool { return argOfType(f, isI) != nil })
			m.addVar("dv", N("Int"), VVar("other"))
			m.setArg(sel3, argOfType(fd3, isI).Name, VVar("dv"))
			return "direct"
		}},
		{"bad-variable-default", "", func(m *mut) string {
			isI := func(a IV) bool { return a.T.String() == "Int" }
			isL := func(a IV) bool { return a.T.String() == "[Int!]" }
			if m.r.Chance(1, 2) {
				sel, fd := m.addField(func(f *FD) bool { return argOfType(f, isL) != nil })
				if sel != nil {
					m.addVar("bd", LT(NN(N("Int"))), VList(VInt("1"), VNull()))
					m.setArg(sel, argOfType(fd, isL).Name, VVar("bd"))
					return "null-item"
				}
			}
			sel, fd := m.addField(func(f *FD) bool { return argOfType(f, isI) != nil })
			if sel == nil {
				return ""
			}
			switch m.r.Pick(3) {
			case 0:
				m.addVar("bd", N("Int"), VStr("x"))
				m.setArg(sel, argOfType(fd, isI).Name, VVar("bd"))
				return "string-for-int"
			case 1:
				m.addVar("bd", NN(N("Int")), VNull())
				m.setArg(sel, argOfType(fd, isI).Name, VVar("bd"))
				return "null-for-nonnull"
			default:
				m.addVar("bd", N("Int"), VList(VInt("1")))
				m.setArg(sel, argOfType(fd, isI).Name, VVar("bd"))
				return "list-for-int"
			}
		}},
		{"mutation-under-static-skip", "", func(m *mut) string {
			var c []*fsite
			for _, f := range m.fields {
				if f.fd != nil && !(f.sc.root && m.op.Kind == "subscription") {
					c = append(c, f)
				}
			}
			f, ok := pick(m.r, c)
			if !ok {
				return ""
			}
			var nd []Dir
			for _, d := range f.sel.Dirs {
				if d.Name != "skip" && d.Name != "include" {
					nd = append(nd, d)
				}
			}
			variant := "skip-true"
			if m.r.Chance(1, 2) {
				nd = append(nd, Dir{"skip", []Arg{{"if", VBool(true)}}})
			} else {
				nd = append(nd, Dir{"include", []Arg{{"if", VBool(false)}}})
				variant = "include-false"
			}
			f.sel.Dirs = nd
			if m.r.Chance(1, 2) {
				f.sel.Name = "nope"
				return variant + "/unknown-field"
			}
			f.sel.Args = append(f.sel.Args, Arg{"zz", VInt("1")})
			return variant + "/unknown-argument"
		}},
	}
}

func inputObjectFallback(m *mut, change func(v *Val)) string {
	isIn := func(a IV) bool { return a.T.Base() == "In0" && a.T.Nullable().Kind == 0 }
	sel, fd := m.addField(func(f *FD) bool { return argOfType(f, isIn) != nil })
	if sel == nil {
		return ""
	}
	v := VObj(ObjF{"r", VInt("1")}, ObjF{"k", VInt("2")})
	change(v)
	m.setArg(sel, argOfType(fd, isIn).Name, v)
	return "arg/new"
}

func mutNames() []string {
	var out []string
	for _, o := range mutOps() {
		out = append(out, o.name)
	}
	sort.Strings(out)
	return out
}
