package main

// The merge stream: small fragment-free, variable-free documents in which
// composite fields with sub-selections (and leaf fields) are repeated in one selection set with
// equal / different arguments, aliases and names.  They exercise exactly the field-merging and
// field-deduplication passes of the normaliser; the documents need not be valid.  About a third of
// the repeated fields carry applications of a repeatable directive (equal lists, permutations,
// lists that are equal as sets but not as multisets, shorter / longer lists).

import (
	"gvh/common"
)

func (g *gen) mergeArgs(fd *FD) []Arg {
	var out []Arg
	for _, d := range fd.Args {
		required := d.T.Kind == 2 && d.Def == nil
		if !required && !g.r.Chance(2, 3) {
			continue
		}
		out = append(out, Arg{d.Name, g.literal(d.T, 0, false)})
	}
	return out
}

func varyArgs(r *common.Rand, a []Arg) []Arg {
	c := cloneArgs(a)
	for i := range c {
		switch c[i].V.Kind {
		case "int":
			c[i].V = VInt("77")
			return c
		case "str":
			c[i].V = VStr("other")
			return c
		case "bool":
			c[i].V = VBool(!c[i].V.B)
			return c
		}
	}
	if len(c) > 0 {
		return c[1:]
	}
	return c
}

// mergeDirs: a list of 1-3 applications of a repeatable FIELD directive (nil most of the time)
func (g *gen) mergeDirs() []Dir {
	dds := repDirsAt(g.s, "FIELD")
	if len(dds) == 0 || !g.r.Chance(1, 3) {
		return nil
	}
	e := g.repEnv()
	dd := common.PickOf(g.r, dds)
	x := e.app(dd)
	switch g.r.Pick(4) {
	case 0:
		return []Dir{x}
	case 1:
		return []Dir{x, cloneDir(x)}
	case 2:
		return []Dir{x, e.other(dd, x)}
	}
	return []Dir{x, e.app(dd), cloneDir(x)}
}

// varyDirs: the directive list of a repeated occurrence
func (g *gen) varyDirs(d []Dir) []Dir {
	c := cloneDirs(d)
	if len(c) == 0 {
		return c
	}
	dd := g.s.Dir(c[0].Name)
	e := g.repEnv()
	switch g.r.Pick(6) {
	case 0: // same length, one application replaced: [X,X] -> [X,Y]
		c[len(c)-1] = e.other(dd, c[0])
	case 1:
		c[0] = e.other(dd, c[0])
	case 2:
		g.r.Shuffle(len(c), func(i, j int) { c[i], c[j] = c[j], c[i] })
	case 3:
		c = c[1:]
	case 4:
		c = append(c, cloneDir(c[0]))
	}
	return c
}

func (g *gen) mergeSels(parent string, depth int) []*Sel {
	r := g.r
	td := g.s.Type(parent)
	var leaves, comps []*FD
	for _, f := range td.Fields {
		if len(f.Name) > 1 && f.Name[0] == '_' {
			continue
		}
		b := f.T.Base()
		if g.s.IsComposite(b) {
			if k := g.s.Kind(b); k == "object" || k == "interface" {
				comps = append(comps, f)
			}
		} else {
			leaves = append(leaves, f)
		}
	}
	var out []*Sel
	nl := 1 + r.Pick(3)
	for i := 0; i < nl && len(leaves) > 0; i++ {
		f := common.PickOf(r, leaves)
		base := &Sel{Kind: 0, Name: f.Name, Args: g.mergeArgs(f), Dirs: g.mergeDirs()}
		if r.Chance(1, 8) {
			base.Alias = f.Name // self alias
		} else if r.Chance(1, 6) {
			base.Alias = "la"
		}
		out = append(out, base)
		for k := r.Pick(3); k > 0; k-- {
			c := base.Clone()
			if len(c.Dirs) > 0 && r.Chance(2, 3) {
				c.Dirs = g.varyDirs(c.Dirs)
			}
			switch r.Pick(5) {
			case 0:
				c.Args = varyArgs(r, c.Args)
			case 1:
				c.Args = reorder(r, c.Args)
			case 2:
				if c.Alias == "" {
					c.Alias = "la"
				} else {
					c.Alias = ""
				}
			}
			out = append(out, c)
		}
	}
	if depth < 2 && len(comps) > 0 {
		nc := 1 + r.Pick(2)
		for i := 0; i < nc; i++ {
			f := common.PickOf(r, comps)
			base := &Sel{Kind: 0, Name: f.Name, Args: g.mergeArgs(f), Dirs: g.mergeDirs()}
			if r.Chance(1, 6) {
				base.Alias = "ca"
			}
			base.Sels = g.mergeSels(f.T.Base(), depth+1)
			out = append(out, base)
			for k := 1 + r.Pick(3); k > 0; k-- {
				c := &Sel{Kind: 0, Alias: base.Alias, Name: base.Name, Args: cloneArgs(base.Args), Dirs: cloneDirs(base.Dirs)}
				if len(c.Dirs) > 0 && r.Chance(2, 3) {
					c.Dirs = g.varyDirs(c.Dirs)
				}
				switch r.Pick(7) {
				case 0:
					c.Args = varyArgs(r, c.Args)
				case 1:
					c.Args = reorder(r, c.Args)
				case 2:
					if c.Alias == "" {
						c.Alias = "ca"
					} else {
						c.Alias = ""
					}
				case 3:
					// different field, same response key
					o := common.PickOf(r, comps)
					c.Alias = base.Key()
					if c.Alias == o.Name {
						c.Alias = ""
					}
					c.Name = o.Name
					c.Args = g.mergeArgs(o)
					f2 := o
					c.Sels = g.mergeSels(f2.T.Base(), depth+1)
				}
				if c.Sels == nil {
					c.Sels = g.mergeSels(g.s.Type(parent).Field(c.Name).T.Base(), depth+1)
				}
				out = append(out, c)
			}
		}
	}
	if len(out) > 1 && r.Chance(1, 2) {
		r.Shuffle(len(out), func(i, j int) { out[i], out[j] = out[j], out[i] })
	}
	if len(out) == 0 {
		out = append(out, &Sel{Kind: 0, Name: "__typename"})
	}
	return out
}

func genMergeDoc(r *common.Rand, s *Schema) *Doc {
	g := &gen{r: r, s: s, keys: map[string]*keyInfo{}, feats: map[string]bool{}, noVars: true}
	op := &Op{Kind: "query", Sels: g.mergeSels(s.Q, 0)}
	return &Doc{Defs: []Def{{Op: op}}}
}
