package main

// Repeated applications of `repeatable` directives on PAIRS OF MERGEABLE SELECTIONS.
//
// Normalisation removes or merges a selection when an earlier selection of the same selection set
// is "equal" to it, directives included (deduplicateFields for leaf fields,
// mergeInlineFragmentSelections for fields with sub-selections and for inline fragments with one
// type condition; both reach each other's selections through fragment spread inlining and the
// inlining of directive-less inline fragments).  Whatever is wrong with a directive application on
// the selection that disappears is lost before validation runs.  The builder below places two such
// selections (in one of eight syntactic forms) and gives each a list of applications of one
// repeatable directive: equal lists, permutations, lists of equal length that differ in one
// application ([X,X] against [X,Y]: equal as SETS, different as multisets), lists of different
// length.  It is used for documents valid by construction (every application valid) and by the
// mutation operator "repeated-directive-lost" (exactly one application invalid).

import (
	"fmt"

	"gvh/common"
)

var repForms = []string{"leaf", "composite", "inline", "spread", "via-fragments-leaf", "via-fragments-composite", "via-inline-leaf", "via-merged-fields"}
var repWays = []string{"wrong-type", "null-for-non-null", "undefined-variable", "unknown-argument", "missing-required-argument"}

type repEnv struct {
	r       *common.Rand
	s       *Schema
	alias   func() string
	addFrag func(on string, sels []*Sel) string
}

type repPair struct {
	sels   []*Sel // what goes into the selection set
	a, b   *Sel   // the two selections that carry the directive lists (b is the later one)
	loc    string
	form   string
	middle bool
}

// repeatable directives allowed at loc; @rtag first when present
func repDirsAt(s *Schema, loc string) []*DD {
	var out []*DD
	for _, d := range s.Dirs {
		if d.Rep && hasLoc(d, loc) && len(d.Args) > 0 {
			out = append(out, d)
		}
	}
	return out
}

func (e *repEnv) typename() *Sel { return &Sel{Kind: 0, Alias: e.alias(), Name: "__typename"} }

func (e *repEnv) leafOn(parent string) *Sel {
	td := e.s.Type(parent)
	if td != nil && td.Kind != "union" && e.r.Chance(2, 3) {
		var c []*FD
		for _, f := range td.Fields {
			if len(f.Name) > 1 && f.Name[0] == '_' {
				continue
			}
			if !e.s.IsComposite(f.T.Base()) {
				c = append(c, f)
			}
		}
		if len(c) > 0 {
			f := common.PickOf(e.r, c)
			g := &gen{r: e.r, s: e.s, keys: map[string]*keyInfo{}, feats: map[string]bool{}, noVars: true}
			return &Sel{Kind: 0, Alias: e.alias(), Name: f.Name, Args: g.argsFor(f.Args)}
		}
	}
	return e.typename()
}

func (e *repEnv) compositeOn(parent string) *Sel {
	td := e.s.Type(parent)
	if td == nil || td.Kind == "union" {
		return nil
	}
	var c []*FD
	for _, f := range td.Fields {
		if len(f.Name) > 1 && f.Name[0] == '_' {
			continue
		}
		if e.s.IsComposite(f.T.Base()) {
			c = append(c, f)
		}
	}
	if len(c) == 0 {
		return nil
	}
	f := common.PickOf(e.r, c)
	g := &gen{r: e.r, s: e.s, keys: map[string]*keyInfo{}, feats: map[string]bool{}, noVars: true}
	return &Sel{Kind: 0, Alias: e.alias(), Name: f.Name, Args: g.argsFor(f.Args), Sels: []*Sel{{Kind: 0, Name: "__typename"}}}
}

// pair builds the two selections in the requested form on a selection set of type parent
// (falls back to a form the parent type allows)
func (e *repEnv) pair(parent, form string) *repPair {
	p := &repPair{form: form}
	second := func(a *Sel) *Sel {
		b := a.Clone()
		if len(b.Sels) > 0 && e.r.Chance(1, 2) {
			b.Sels = []*Sel{e.typename()}
		}
		return b
	}
	switch form {
	case "composite", "via-fragments-composite":
		p.a = e.compositeOn(parent)
		if p.a == nil {
			form = map[string]string{"composite": "leaf", "via-fragments-composite": "via-fragments-leaf"}[form]
			p.form = form
			p.a = e.leafOn(parent)
		}
		p.b = second(p.a)
		p.loc = "FIELD"
	case "via-merged-fields":
		// the pair sits in the sub-selections of two occurrences of one field, which are merged first
		c := e.compositeOn(parent)
		if c == nil {
			p.form = "leaf"
			form = "leaf"
			p.a = e.leafOn(parent)
			p.b = second(p.a)
			p.loc = "FIELD"
			break
		}
		on := e.s.Type(parent).Field(c.Name).T.Base()
		p.a = e.leafOn(on)
		p.b = second(p.a)
		p.loc = "FIELD"
		c2 := c.Clone()
		c.Sels = []*Sel{p.a}
		c2.Sels = []*Sel{p.b}
		p.sels = []*Sel{c, c2}
	case "leaf", "via-fragments-leaf", "via-inline-leaf":
		p.a = e.leafOn(parent)
		p.b = second(p.a)
		p.loc = "FIELD"
	case "inline":
		cond := parent
		if e.r.Chance(1, 4) {
			cond = ""
		} else if e.r.Chance(1, 3) {
			var c []string
			for _, t := range e.s.Types {
				if e.s.IsComposite(t.Name) && e.s.Overlap(parent, t.Name) && !(len(t.Name) > 1 && t.Name[0] == '_') {
					c = append(c, t.Name)
				}
			}
			if len(c) > 0 {
				cond = common.PickOf(e.r, c)
			}
		}
		on := cond
		if on == "" {
			on = parent
		}
		p.a = &Sel{Kind: 1, Cond: cond, Sels: []*Sel{e.leafOn(on)}}
		p.b = &Sel{Kind: 1, Cond: cond, Sels: []*Sel{e.leafOn(on)}}
		p.loc = "INLINE_FRAGMENT"
	case "spread":
		fa := e.addFrag(parent, []*Sel{e.leafOn(parent)})
		fb := fa
		if e.r.Chance(2, 3) {
			fb = e.addFrag(parent, []*Sel{e.leafOn(parent)})
		}
		p.a = &Sel{Kind: 2, Name: fa}
		p.b = &Sel{Kind: 2, Name: fb}
		p.loc = "FRAGMENT_SPREAD"
	}
	switch form {
	case "via-fragments-leaf", "via-fragments-composite":
		fa := e.addFrag(parent, []*Sel{p.a})
		fb := e.addFrag(parent, []*Sel{p.b})
		p.sels = []*Sel{{Kind: 2, Name: fa}, {Kind: 2, Name: fb}}
	case "via-inline-leaf":
		wrap := func(x *Sel) *Sel {
			c := parent
			if e.r.Chance(1, 3) {
				c = ""
			}
			return &Sel{Kind: 1, Cond: c, Sels: []*Sel{x}}
		}
		if e.r.Chance(1, 2) {
			p.sels = []*Sel{wrap(p.a), wrap(p.b)}
		} else {
			p.sels = []*Sel{p.a, wrap(p.b)}
		}
	case "via-merged-fields":
	default:
		p.sels = []*Sel{p.a, p.b}
	}
	if e.r.Chance(1, 3) {
		p.middle = true
		p.sels = []*Sel{p.sels[0], e.typename(), p.sels[1]}
	}
	return p
}

// one valid application of dd, its argument values drawn from a small pool so that equal
// applications are frequent
func (e *repEnv) app(dd *DD) Dir {
	d := Dir{Name: dd.Name}
	for _, a := range dd.Args {
		required := a.T.Kind == 2 && a.Def == nil
		if !required && !e.r.Chance(1, 2) {
			continue
		}
		var v *Val
		switch a.T.Base() {
		case "Int":
			v = VInt(common.PickOf(e.r, []string{"1", "2"}))
		case "String":
			v = VStr(common.PickOf(e.r, []string{"a", "b"}))
		case "Boolean":
			v = VBool(e.r.Chance(1, 2))
		default:
			g := &gen{r: e.r, s: e.s, keys: map[string]*keyInfo{}, feats: map[string]bool{}, noVars: true}
			v = g.literal(a.T, 0, false)
		}
		if a.T.Nullable().Kind == 1 {
			v = VList(v)
		}
		d.Args = append(d.Args, Arg{a.Name, v})
	}
	if len(d.Args) > 1 && e.r.Chance(1, 4) {
		d.Args[0], d.Args[1] = d.Args[1], d.Args[0]
	}
	return d
}

func cloneDir(d Dir) Dir { return Dir{d.Name, cloneArgs(d.Args)} }

func dirText(d Dir) string { return d.Name + argsText(d.Args) }

// a valid application that differs from x (in some argument value or in the arguments given)
func (e *repEnv) other(dd *DD, x Dir) Dir {
	for i := 0; i < 12; i++ {
		y := e.app(dd)
		if dirText(y) != dirText(x) {
			return y
		}
	}
	y := cloneDir(x)
	for i := range y.Args {
		switch y.Args[i].V.Kind {
		case "int":
			y.Args[i].V = VInt("9")
			return y
		case "str":
			y.Args[i].V = VStr("zz")
			return y
		}
	}
	return y
}

// validLists: the directive lists of the two selections of a valid pair
func (e *repEnv) validLists(dd *DD) (a, b []Dir, shape string) {
	x := e.app(dd)
	y := e.other(dd, x)
	z := e.app(dd)
	switch e.r.Pick(9) {
	case 0:
		return []Dir{x, cloneDir(x)}, []Dir{cloneDir(x), y}, "dup-vs-near"
	case 1:
		return []Dir{x, y}, []Dir{cloneDir(x), cloneDir(x)}, "near-vs-dup"
	case 2:
		return []Dir{x, z, cloneDir(x)}, []Dir{cloneDir(z), cloneDir(x), y}, "triple-near"
	case 3:
		return []Dir{x, y}, []Dir{cloneDir(y), cloneDir(x)}, "permuted"
	case 4:
		return []Dir{x, cloneDir(x)}, []Dir{cloneDir(x), cloneDir(x)}, "equal-dup"
	case 5:
		return []Dir{x, cloneDir(x)}, []Dir{cloneDir(x)}, "shorter"
	case 6:
		return []Dir{x}, []Dir{cloneDir(x), y}, "longer"
	case 7:
		return []Dir{x}, []Dir{y}, "single-different"
	}
	return nil, []Dir{x, cloneDir(x), z}, "bare-first"
}

// invalidate makes application d of dd invalid in the given way; ok=false when dd offers no such argument
func invalidate(dd *DD, d Dir, way string) (Dir, bool) {
	y := cloneDir(d)
	find := func(pred func(IV) bool) *IV {
		for i := range dd.Args {
			if pred(dd.Args[i]) {
				return &dd.Args[i]
			}
		}
		return nil
	}
	set := func(name string, v *Val) {
		for i := range y.Args {
			if y.Args[i].Name == name {
				y.Args[i].V = v
				return
			}
		}
		y.Args = append(y.Args, Arg{name, v})
	}
	switch way {
	case "wrong-type":
		a := find(func(a IV) bool { return a.T.Base() == "Int" && a.T.Nullable().Kind == 0 })
		if a != nil {
			set(a.Name, VStr("x"))
			return y, true
		}
		a = find(func(a IV) bool { return a.T.Base() == "String" && a.T.Nullable().Kind == 0 })
		if a != nil {
			set(a.Name, VInt("3"))
			return y, true
		}
	case "null-for-non-null":
		if a := find(func(a IV) bool { return a.T.Kind == 2 }); a != nil {
			set(a.Name, VNull())
			return y, true
		}
	case "undefined-variable":
		if len(y.Args) > 0 {
			y.Args[0].V = VVar("undefinedRep")
			return y, true
		}
		if len(dd.Args) > 0 {
			set(dd.Args[0].Name, VVar("undefinedRep"))
			return y, true
		}
	case "unknown-argument":
		y.Args = append(y.Args, Arg{"zz", VInt("1")})
		return y, true
	case "missing-required-argument":
		if a := find(func(a IV) bool { return a.T.Kind == 2 && a.Def == nil }); a != nil {
			var na []Arg
			for _, x := range y.Args {
				if x.Name != a.Name {
					na = append(na, x)
				}
			}
			y.Args = na
			return y, true
		}
	}
	return y, false
}

// invalidLists: the lists of a pair in which exactly one application (bad) is invalid
func (e *repEnv) invalidLists(dd *DD, bad Dir, x Dir, shape string) (a, b []Dir) {
	z := e.app(dd)
	switch shape {
	case "dup-first":
		if e.r.Chance(1, 2) {
			return []Dir{x, cloneDir(x)}, []Dir{cloneDir(x), bad}
		}
		return []Dir{x, cloneDir(x)}, []Dir{bad, cloneDir(x)}
	case "triple":
		return []Dir{x, z, cloneDir(x)}, []Dir{cloneDir(z), cloneDir(x), bad}
	case "dup-second":
		return []Dir{x, bad}, []Dir{cloneDir(x), cloneDir(x)}
	case "single":
		return []Dir{x}, []Dir{bad}
	case "bare-first":
		return nil, []Dir{bad}
	case "longer":
		return []Dir{x}, []Dir{cloneDir(x), bad}
	}
	return []Dir{x, cloneDir(x)}, []Dir{bad}
}

var repShapes = []string{"dup-first", "dup-first", "triple", "dup-second", "dup-first", "single", "triple", "bare-first", "dup-first", "longer", "shorter"}

// ---- valid documents
func (g *gen) repEnv() *repEnv {
	return &repEnv{r: g.r, s: g.s, alias: g.freshAlias, addFrag: func(on string, sels []*Sel) string {
		f := &Frag{Name: fmt.Sprintf("F%d", len(g.frags)), On: on, Sels: sels}
		g.frags = append(g.frags, f)
		g.feat("named-frag")
		return f.Name
	}}
}

func (g *gen) repDirPattern(parent string) []*Sel {
	e := g.repEnv()
	form := common.PickOf(g.r, repForms)
	p := e.pair(parent, form)
	dds := repDirsAt(g.s, p.loc)
	if len(dds) == 0 {
		return nil
	}
	dd := dds[0]
	if len(dds) > 1 && g.r.Chance(1, 4) {
		dd = common.PickOf(g.r, dds)
	}
	a, b, shape := e.validLists(dd)
	p.a.Dirs, p.b.Dirs = a, b
	// sometimes the same (non-repeatable) conditional directive on both
	if !g.noVars && g.r.Chance(1, 6) {
		v := g.varFor(NN(N("Boolean")), false, false)
		c := Dir{common.PickOf(g.r, []string{"skip", "include"}), []Arg{{"if", v}}}
		p.a.Dirs = append(p.a.Dirs, c)
		p.b.Dirs = append([]Dir{cloneDir(c)}, p.b.Dirs...)
		g.feat("skip-include")
	}
	g.feat("repeated-directive-pair")
	g.feat("repdir:" + p.form)
	g.feat("repdir-shape:" + shape)
	g.budget -= 2
	return p.sels
}

// ---- the mutation operator
func mutRepeatedDirectiveLost(m *mut) string {
	scs := m.compositeScopes()
	sc, ok := pick(m.r, scs)
	if !ok {
		return ""
	}
	idx := m.seq("repeated-directive-lost")
	way := repWays[idx%len(repWays)]
	form := repForms[(idx/len(repWays))%len(repForms)]
	shape := repShapes[m.r.Pick(len(repShapes))]
	e := &repEnv{r: m.r, s: m.s, alias: func() string { return m.fresh("rp") }, addFrag: func(on string, sels []*Sel) string {
		f := &Frag{Name: m.fresh("RF"), On: on, Sels: sels}
		m.doc.Defs = append(m.doc.Defs, Def{Frag: f})
		return f.Name
	}}
	p := e.pair(sc.parent, form)
	dds := repDirsAt(m.s, p.loc)
	m.r.Shuffle(len(dds), func(i, j int) { dds[i], dds[j] = dds[j], dds[i] })
	for i, d := range dds {
		if d.Name == "rtag" && m.r.Chance(3, 4) {
			dds[0], dds[i] = dds[i], dds[0]
		}
	}
	for _, dd := range dds {
		x := e.app(dd)
		bad, ok := invalidate(dd, x, way)
		if !ok {
			continue
		}
		p.a.Dirs, p.b.Dirs = e.invalidLists(dd, bad, x, shape)
		*sc.list = append(*sc.list, p.sels...)
		return p.form + "/" + shape + "/" + way + "/" + dd.Name
	}
	return ""
}
