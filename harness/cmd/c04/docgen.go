package main

// Generator of documents that are VALID by construction (GraphQL spec, October 2021 + oneOf).
// Field merging is kept valid by a document-wide registry: a response key always denotes the
// same field name with the same arguments and the same return type (stricter than the spec
// needs); the only deliberate exception is the "different arguments on distinct object types"
// pattern, which uses reserved keys.

import (
	"fmt"

	"gvh/common"
)

type keyInfo struct {
	field    string
	typ      string
	args     []Arg
	reserved bool
}

type gen struct {
	r      *common.Rand
	s      *Schema
	vars   []*VarDef
	frags  []*Frag
	keys   map[string]*keyInfo
	nalias int
	feats  map[string]bool
	budget int
	maxDep int
	noVars bool
}

func (g *gen) feat(f string) { g.feats[f] = true }

// ---- variable position rules (mirror of the spec's IsVariableUsageAllowed, used to REUSE variables)
func typesCompatible(v, l *Ty) bool {
	if l.Kind == 2 {
		if v.Kind != 2 {
			return false
		}
		return typesCompatible(v.Of, l.Of)
	}
	if v.Kind == 2 {
		return typesCompatible(v.Of, l)
	}
	if l.Kind == 1 {
		if v.Kind != 1 {
			return false
		}
		return typesCompatible(v.Of, l.Of)
	}
	if v.Kind == 1 {
		return false
	}
	return v.Name == l.Name
}
func varAllowed(vd *VarDef, loc *Ty, locHasDefault bool) bool {
	if loc.Kind == 2 && vd.T.Kind != 2 {
		hasDef := vd.Def != nil && vd.Def.Kind != "null"
		if !hasDef && !locHasDefault {
			return false
		}
		return typesCompatible(vd.T, loc.Of)
	}
	return typesCompatible(vd.T, loc)
}

func (g *gen) newVar(t *Ty, def *Val) *VarDef {
	vd := &VarDef{Name: fmt.Sprintf("v%d", len(g.vars)), T: t, Def: def}
	g.vars = append(g.vars, vd)
	g.feat("var")
	return vd
}

// a variable usable at a position of type pos
func (g *gen) varFor(pos *Ty, posHasDefault bool, needNN bool) *Val {
	if !needNN && len(g.vars) > 0 && g.r.Chance(1, 2) {
		var ok []*VarDef
		for _, v := range g.vars {
			if varAllowed(v, pos, posHasDefault) {
				ok = append(ok, v)
			}
		}
		if len(ok) > 0 {
			return VVar(common.PickOf(g.r, ok).Name)
		}
	}
	var t *Ty
	var def *Val
	switch {
	case needNN:
		t = NN(pos.Nullable())
	case pos.Kind != 2 && g.r.Chance(1, 4):
		t = NN(pos)
	case pos.Kind == 2 && posHasDefault && g.r.Chance(1, 3):
		t = pos.Of // nullable variable, the position has a default
		g.feat("var-loc-default")
	case pos.Kind == 2 && g.r.Chance(1, 4):
		t = pos.Of // nullable variable with a non-null default
		def = g.constValue(pos, 0)
		g.feat("var-default-nonnull")
	case pos.Kind != 2 && pos.Kind == 1 && pos.Of.Kind != 2 && g.r.Chance(1, 4):
		t = LT(NN(pos.Of)) // [T!] for [T]
	default:
		t = pos
	}
	if def == nil && g.r.Chance(1, 4) {
		def = g.constValue(t, 0)
		if def.Kind == "null" && t.Kind == 2 {
			def = nil
		}
		g.feat("var-default")
	}
	return VVar(g.newVar(t, def).Name)
}

func (g *gen) constValue(t *Ty, depth int) *Val {
	save := g.noVars
	g.noVars = true
	v := g.value(t, false, depth)
	g.noVars = save
	return v
}

// a valid value for a position of type t
func (g *gen) value(t *Ty, posHasDefault bool, depth int) *Val {
	r := g.r
	if !g.noVars && r.Chance(1, 5) {
		return g.varFor(t, posHasDefault, false)
	}
	if t.Kind == 2 {
		return g.literal(t.Of, depth, true)
	}
	if r.Chance(1, 12) {
		return VNull()
	}
	return g.literal(t, depth, true)
}

// literal: a non-null literal of (nullable) type t; may contain variables in nested positions
func (g *gen) literal(t *Ty, depth int, allowCoerce bool) *Val {
	r := g.r
	switch t.Kind {
	case 2:
		return g.literal(t.Of, depth, allowCoerce)
	case 1:
		if allowCoerce && r.Chance(1, 6) {
			// list input coercion: a single non-list value stands for a one-element list (recursively
			// for nested lists); never a variable (variables are checked against the list type)
			g.feat("list-coercion")
			tt := t
			for tt.Kind != 0 {
				tt = tt.Of
			}
			return g.literal(tt, depth+1, false)
		}
		n := r.Pick(4)
		items := make([]*Val, 0, n)
		for i := 0; i < n; i++ {
			items = append(items, g.value(t.Of, false, depth+1))
		}
		return VList(items...)
	}
	n := t.Name
	switch n {
	case "Int":
		if r.Chance(1, 60) {
			return VInt("-2147483648")
		}
		return VInt(common.PickOf(r, []string{"0", "1", "-1", "42", "7", "2147483647", "-2147483647", "100"}))
	case "Float":
		if r.Chance(1, 4) {
			return VInt(common.PickOf(r, []string{"3", "-2", "0"}))
		}
		return VFloat(common.PickOf(r, []string{"1.5", "-0.5", "1e3", "2.0E-2", "0.0"}))
	case "String":
		if r.Chance(1, 8) {
			return &Val{Kind: "str", S: "blk str", B: true}
		}
		return VStr(common.PickOf(r, []string{"x", "hello world", `a\nb`, "", `q\"q`, "z"}))
	case "Boolean":
		return VBool(r.Chance(1, 2))
	case "ID":
		if r.Chance(1, 3) {
			return VInt(common.PickOf(r, []string{"7", "12"}))
		}
		return VStr(common.PickOf(r, []string{"id1", "2"}))
	}
	td := g.s.Type(n)
	if td == nil {
		return VNull()
	}
	switch td.Kind {
	case "enum":
		return VEnum(common.PickOf(r, td.Values))
	case "scalar":
		switch r.Pick(6) {
		case 0:
			return VInt("5")
		case 1:
			return VStr("2020-01-01")
		case 2:
			return VObj(ObjF{"a", VInt("1")}, ObjF{"b", VList(VBool(true), VNull())})
		case 3:
			return VList(VInt("1"), VStr("s"))
		case 4:
			return VEnum("FOO")
		default:
			return VFloat("1.25")
		}
	case "input":
		if td.OneOf {
			g.feat("oneof")
			f := common.PickOf(r, td.Inputs)
			var v *Val
			if !g.noVars && r.Chance(1, 5) {
				v = g.varFor(f.T, false, true)
			} else {
				v = g.literal(f.T, depth+1, true)
			}
			return VObj(ObjF{f.Name, v})
		}
		var fs []ObjF
		for _, f := range td.Inputs {
			required := f.T.Kind == 2 && f.Def == nil
			recursive := f.T.Base() == td.Name
			if !required {
				if recursive && depth >= 2 {
					continue
				}
				if !r.Chance(1, 2) {
					continue
				}
			}
			fs = append(fs, ObjF{f.Name, g.value(f.T, f.Def != nil, depth+1)})
		}
		if len(fs) > 1 && r.Chance(1, 3) {
			r.Shuffle(len(fs), func(i, j int) { fs[i], fs[j] = fs[j], fs[i] })
		}
		return VObj(fs...)
	}
	return VNull()
}

func (g *gen) argsFor(defs []IV) []Arg {
	var out []Arg
	for _, d := range defs {
		required := d.T.Kind == 2 && d.Def == nil
		if !required && !g.r.Chance(3, 5) {
			continue
		}
		out = append(out, Arg{d.Name, g.value(d.T, d.Def != nil, 0)})
	}
	if len(out) > 1 && g.r.Chance(1, 4) {
		g.r.Shuffle(len(out), func(i, j int) { out[i], out[j] = out[j], out[i] })
	}
	return out
}

func (g *gen) allDirs() []*DD { return append(append([]*DD{}, g.s.Dirs...), builtinDirs()...) }

func hasLoc(d *DD, loc string) bool {
	for _, l := range d.Locs {
		if l == loc {
			return true
		}
	}
	return false
}

// directives valid at a location; skipInclude=false forbids @skip/@include (subscription root)
func (g *gen) dirsFor(loc string, skipInclude bool, p int) []Dir {
	if !g.r.Chance(p, 100) {
		return nil
	}
	var cands []*DD
	for _, d := range g.allDirs() {
		if !hasLoc(d, loc) {
			continue
		}
		if (d.Name == "skip" || d.Name == "include") && !skipInclude {
			continue
		}
		cands = append(cands, d)
	}
	if len(cands) == 0 {
		return nil
	}
	var out []Dir
	used := map[string]bool{}
	for k := 0; k < 1+g.r.Pick(2); k++ {
		d := common.PickOf(g.r, cands)
		if used[d.Name] && !d.Rep {
			continue
		}
		used[d.Name] = true
		if d.Name == "skip" || d.Name == "include" {
			g.feat("skip-include")
			var v *Val
			switch {
			case g.noVars || loc == "VARIABLE_DEFINITION" || g.r.Chance(1, 2):
				// mostly the literal that keeps the node; the removing literal (static skip) is rare
				keep := d.Name == "include"
				if g.r.Chance(1, 12) {
					keep = !keep
					g.feat("static-skip")
				}
				v = VBool(keep)
			default:
				v = g.varFor(NN(N("Boolean")), false, false)
			}
			out = append(out, Dir{d.Name, []Arg{{"if", v}}})
			continue
		}
		g.feat("directive")
		save := g.noVars
		if loc == "VARIABLE_DEFINITION" {
			g.noVars = true
		}
		out = append(out, Dir{d.Name, g.argsFor(d.Args)})
		g.noVars = save
	}
	return out
}

func (g *gen) freshAlias() string {
	g.nalias++
	return fmt.Sprintf("al%d", g.nalias)
}

func reorder(r *common.Rand, a []Arg) []Arg {
	c := cloneArgs(a)
	r.Shuffle(len(c), func(i, j int) { c[i], c[j] = c[j], c[i] })
	return c
}

// one field selection on parent type; fd == nil means __typename
func (g *gen) field(parent string, fd *FD, depth int, root bool) *Sel {
	r := g.r
	g.budget--
	sel := &Sel{Kind: 0}
	if fd == nil {
		sel.Name = "__typename"
		if r.Chance(1, 6) {
			sel.Alias = "tn"
		}
		key := sel.Key()
		if ki := g.keys[key]; ki != nil && (ki.field != "__typename" || ki.reserved) {
			sel.Alias = g.freshAlias()
			key = sel.Alias
		}
		g.keys[key] = &keyInfo{field: "__typename", typ: "String!"}
		return sel
	}
	sel.Name = fd.Name
	key := fd.Name
	ki := g.keys[key]
	compatible := ki != nil && !ki.reserved && ki.field == fd.Name && ki.typ == fd.T.String()
	if (ki != nil && !compatible) || r.Chance(1, 6) {
		key = g.freshAlias()
		sel.Alias = key
		ki = nil
		compatible = false
	}
	if compatible {
		g.feat("overlap")
		if len(ki.args) > 1 && r.Chance(1, 3) {
			sel.Args = reorder(r, ki.args)
			g.feat("arg-reorder")
		} else {
			sel.Args = cloneArgs(ki.args)
		}
	} else {
		sel.Args = g.argsFor(fd.Args)
		g.keys[key] = &keyInfo{field: fd.Name, typ: fd.T.String(), args: cloneArgs(sel.Args)}
	}
	sel.Dirs = g.dirsFor("FIELD", !root, 18)
	base := fd.T.Base()
	if g.s.IsComposite(base) {
		sel.Sels = g.sels(base, depth+1, false)
	}
	return sel
}

func (g *gen) overlapping(parent string) []string {
	var out []string
	for _, t := range g.s.Types {
		if (t.Kind == "object" || t.Kind == "interface" || t.Kind == "union") && g.s.Overlap(parent, t.Name) {
			if len(t.Name) > 1 && t.Name[0] == '_' && t.Name[1] == '_' {
				continue
			}
			out = append(out, t.Name)
		}
	}
	return out
}

func (g *gen) isAbstract(n string) bool {
	k := g.s.Kind(n)
	return k == "interface" || k == "union"
}

// the special valid pattern: same response key, different arguments, on two DIFFERENT object types
func (g *gen) distinctObjectsPattern(parent string) []*Sel {
	poss := g.s.Possible(parent)
	if len(poss) < 2 {
		return nil
	}
	perm := g.r.Perm(len(poss))
	a, b := g.s.Type(poss[perm[0]]), g.s.Type(poss[perm[1]])
	for _, fa := range a.Fields {
		if len(fa.Args) == 0 || g.s.IsComposite(fa.T.Base()) {
			continue
		}
		fb := b.Field(fa.Name)
		if fb == nil || fb.T.String() != fa.T.String() {
			continue
		}
		key := g.freshAlias()
		g.keys[key] = &keyInfo{reserved: true}
		s1 := &Sel{Kind: 0, Alias: key, Name: fa.Name, Args: g.argsFor(fa.Args)}
		s2 := &Sel{Kind: 0, Alias: key, Name: fb.Name, Args: g.argsFor(fb.Args)}
		g.feat("overlap-distinct-objects")
		g.feat("abstract-frag")
		return []*Sel{
			{Kind: 1, Cond: a.Name, Sels: []*Sel{s1}},
			{Kind: 1, Cond: b.Name, Sels: []*Sel{s2}},
		}
	}
	return nil
}

func (g *gen) sels(parent string, depth int, root bool) []*Sel {
	r := g.r
	td := g.s.Type(parent)
	n := 1 + r.Pick(4)
	if depth >= g.maxDep || g.budget <= 0 {
		n = 1 + r.Pick(2)
	}
	var out []*Sel
	leafOnly := depth >= g.maxDep || g.budget <= 0
	for i := 0; i < n; i++ {
		k := r.Pick(100)
		switch {
		case k < 12 && !leafOnly: // inline fragment
			cands := g.overlapping(parent)
			cond := ""
			on := parent
			if len(cands) > 0 && !r.Chance(1, 6) {
				cond = common.PickOf(r, cands)
				on = cond
			}
			if g.isAbstract(on) && cond != "" {
				g.feat("abstract-frag")
			}
			g.feat("inline-frag")
			out = append(out, &Sel{Kind: 1, Cond: cond, Dirs: g.dirsFor("INLINE_FRAGMENT", true, 15), Sels: g.sels(on, depth+1, false)})
		case k < 24 && !leafOnly: // named fragment spread
			var reuse []*Frag
			for _, f := range g.frags {
				if g.s.Overlap(parent, f.On) {
					reuse = append(reuse, f)
				}
			}
			var f *Frag
			if len(reuse) > 0 && r.Chance(2, 5) {
				f = common.PickOf(r, reuse)
				g.feat("frag-reuse")
			} else {
				cands := g.overlapping(parent)
				if len(cands) == 0 {
					continue
				}
				on := common.PickOf(r, cands)
				body := g.sels(on, depth+1, false)
				f = &Frag{Name: fmt.Sprintf("F%d", len(g.frags)), On: on, Sels: body, Dirs: g.dirsFor("FRAGMENT_DEFINITION", false, 10)}
				g.frags = append(g.frags, f)
			}
			if g.isAbstract(f.On) {
				g.feat("abstract-frag")
			}
			g.feat("named-frag")
			out = append(out, &Sel{Kind: 2, Name: f.Name, Dirs: g.dirsFor("FRAGMENT_SPREAD", true, 15)})
		case k < 28 && !leafOnly && g.isAbstract(parent):
			if p := g.distinctObjectsPattern(parent); p != nil {
				out = append(out, p...)
			}
		case k >= 28 && k < 32 && !leafOnly:
			// a pair of mergeable selections carrying repeated applications of a repeatable directive
			if p := g.repDirPattern(parent); p != nil {
				out = append(out, p...)
			}
		case k < 36 || td == nil || td.Kind == "union":
			out = append(out, g.field(parent, nil, depth, false))
		default:
			var cands []*FD
			for _, f := range td.Fields {
				if len(f.Name) > 1 && f.Name[0] == '_' {
					continue
				}
				if leafOnly && g.s.IsComposite(f.T.Base()) {
					continue
				}
				cands = append(cands, f)
			}
			if len(cands) == 0 {
				out = append(out, g.field(parent, nil, depth, false))
				continue
			}
			out = append(out, g.field(parent, common.PickOf(r, cands), depth, false))
		}
	}
	if len(out) == 0 {
		out = append(out, g.field(parent, nil, depth, false))
	}
	return out
}

type genDoc struct {
	doc    *Doc
	opName string // "" = none given to the request
	feats  []string
	main   *Op
	kind   string
}

// genValidDoc builds a valid document against s; wantKind "" = any
func genValidDoc(r *common.Rand, s *Schema, wantKind string) *genDoc {
	g := &gen{r: r, s: s, keys: map[string]*keyInfo{}, feats: map[string]bool{}, budget: 8 + r.Pick(18), maxDep: 2 + r.Pick(3)}
	kind := wantKind
	if kind == "" {
		switch k := r.Pick(10); {
		case k < 7:
			kind = "query"
		case k < 8 && s.M != "":
			kind = "mutation"
		case s.S != "" && k >= 8:
			kind = "subscription"
		default:
			kind = "query"
		}
	}
	if kind == "mutation" && s.M == "" || kind == "subscription" && s.S == "" {
		kind = "query"
	}
	op := &Op{Kind: kind}
	root := map[string]string{"query": s.Q, "mutation": s.M, "subscription": s.S}[kind]
	switch kind {
	case "subscription":
		g.feat("subscription")
		td := s.Type(root)
		fd := common.PickOf(r, td.Fields)
		f := g.field(root, fd, 0, true)
		switch r.Pick(5) {
		case 0:
			op.Sels = []*Sel{{Kind: 1, Cond: root, Sels: []*Sel{f}}}
		case 1:
			fr := &Frag{Name: fmt.Sprintf("F%d", len(g.frags)), On: root, Sels: []*Sel{f}}
			g.frags = append(g.frags, fr)
			g.feat("named-frag")
			op.Sels = []*Sel{{Kind: 2, Name: fr.Name}}
		default:
			op.Sels = []*Sel{f}
		}
	default:
		if kind == "mutation" {
			g.feat("mutation")
		}
		op.Sels = g.sels(root, 0, false)
		if kind == "query" && r.Chance(1, 12) {
			g.feat("introspection")
			if r.Chance(1, 2) {
				op.Sels = append(op.Sels, &Sel{Kind: 0, Name: "__schema", Sels: []*Sel{{Kind: 0, Name: "types", Sels: []*Sel{{Kind: 0, Name: "name"}}}}})
			} else {
				op.Sels = append(op.Sels, &Sel{Kind: 0, Name: "__type", Args: []Arg{{"name", VStr("O0")}}, Sels: []*Sel{{Kind: 0, Name: "name"}, {Kind: 0, Name: "kind"}}})
			}
		}
	}
	loc := map[string]string{"query": "QUERY", "mutation": "MUTATION", "subscription": "SUBSCRIPTION"}[kind]
	op.Dirs = g.dirsFor(loc, false, 15)
	op.Vars = g.vars
	for _, v := range op.Vars {
		save := g.noVars
		g.noVars = true
		v.Dirs = g.dirsFor("VARIABLE_DEFINITION", false, 10)
		g.noVars = save
	}
	op.Vars = g.vars
	doc := &Doc{}
	res := &genDoc{doc: doc, main: op, kind: kind}
	if r.Chance(1, 2) {
		op.Name = common.PickOf(r, []string{"Main", "Q1", "op"})
	}
	multi := r.Chance(1, 8)
	if multi {
		g.feat("multi-op")
		if op.Name == "" {
			op.Name = "Main"
		}
		res.opName = op.Name
	} else if op.Name != "" && r.Chance(1, 3) {
		res.opName = op.Name
	}
	// definition order: fragments before or after the operation
	fragsFirst := r.Chance(1, 3)
	if !fragsFirst {
		doc.Defs = append(doc.Defs, Def{Op: op})
	}
	for _, f := range g.frags {
		doc.Defs = append(doc.Defs, Def{Frag: f})
	}
	if fragsFirst {
		doc.Defs = append(doc.Defs, Def{Op: op})
	}
	if multi {
		doc.Defs = append(doc.Defs, Def{Op: &Op{Kind: "query", Name: "Other", Sels: []*Sel{{Kind: 0, Name: "__typename"}, {Kind: 2, Name: "OtherFrag"}}}})
		doc.Defs = append(doc.Defs, Def{Frag: &Frag{Name: "OtherFrag", On: s.Q, Sels: []*Sel{{Kind: 0, Name: "__typename"}}}})
	}
	for f := range g.feats {
		res.feats = append(res.feats, f)
	}
	return res
}
