package main

import (
	"encoding/json"
	"fmt"
	"os"

	"github.com/wundergraph/graphql-go-tools/v2/pkg/ast"
	"github.com/wundergraph/graphql-go-tools/v2/pkg/astnormalization"
	"github.com/wundergraph/graphql-go-tools/v2/pkg/astparser"
	"github.com/wundergraph/graphql-go-tools/v2/pkg/asttransform"
	"github.com/wundergraph/graphql-go-tools/v2/pkg/operationreport"
)

const schema = `
scalar Any
enum Color { RED GREEN BLUE }
input In { s: String, i: Int, f: Float, b: Boolean, e: Color, l: [String], n: In, any: Any, li: [In], ll: [[Int]] }
type Query { f(a: Any, s: String, i: In, l: [In]): String }
schema { query: Query }
`

func main() {
	def, rep := astparser.ParseGraphqlDocumentString(schema)
	if rep.HasErrors() {
		panic(rep.Error())
	}
	if err := asttransform.MergeDefinitionWithBaseSchema(&def); err != nil {
		panic(err)
	}
	for _, q := range os.Args[1:] {
		fmt.Printf("== %q\n", q)
		op, rep := astparser.ParseGraphqlDocumentString(q)
		if rep.HasErrors() {
			fmt.Println("parse error:", rep.Error())
			continue
		}
		for i := range op.Arguments {
			b, err := op.ValueToJSON(op.Arguments[i].Value)
			fmt.Printf("arg %d: %q err=%v valid=%v\n", i, b, err, json.Valid(b))
		}
		op.Input.Variables = []byte(`{}`)
		n := astnormalization.NewWithOpts(astnormalization.WithExtractVariables())
		var r operationreport.Report
		n.NormalizeOperation(&op, &def, &r)
		if r.HasErrors() {
			fmt.Println("norm error:", r.Error())
			continue
		}
		fmt.Printf("vars: %q valid=%v\n", op.Input.Variables, json.Valid(op.Input.Variables))
	}
	_ = ast.InvalidRef
}
