package main

import (
	"strings"

	x "gvh/c03x"
	"gvh/common"

	"github.com/wundergraph/graphql-go-tools/execution/graphql"
	"github.com/wundergraph/graphql-go-tools/v2/pkg/astparser"
	"github.com/wundergraph/graphql-go-tools/v2/pkg/operationreport"
)

// chain runs the selection-set passes one at a time, each on the output of the previous one (the
// order of setupOperationWalkers), and records every intermediate tree:
//
//	(chain <doc0> <vars> (step "pass" <doc>)...)        or   (chain (failed "pass" "message"))
func chain(schema *graphql.Schema, query string, vars []byte) string {
	doc, rep := astparser.ParseGraphqlDocumentString(query)
	if rep.HasErrors() {
		return "(chain (failed \"parse\" " + common.QS(rep.Error()) + "))"
	}
	doc.Input.Variables = vars
	var sb strings.Builder
	sb.WriteString("(chain " + x.DumpDocument(&doc) + " " + jsonSexpOf(vars))
	for _, p := range x.SelectionPasses {
		var r operationreport.Report
		failed := ""
		func() {
			defer func() {
				if e := recover(); e != nil {
					failed = "panic"
				}
			}()
			p.Run(&doc, schema.Document(), &r)
		}()
		if failed != "" || r.HasErrors() {
			sb.WriteString(" (failed " + common.QS(p.Name) + " " + common.QS(failed+r.Error()) + "))")
			return sb.String()
		}
		sb.WriteString(" (step " + common.QS(p.Name) + " " + x.DumpDocument(&doc) + ")")
	}
	sb.WriteString(")")
	return sb.String()
}

func chainTrace(schema *graphql.Schema, query string, vars []byte) string {
	doc, rep := astparser.ParseGraphqlDocumentString(query)
	if rep.HasErrors() {
		return "parse error"
	}
	doc.Input.Variables = vars
	var sb strings.Builder
	for _, p := range x.SelectionPasses {
		var r operationreport.Report
		p.Run(&doc, schema.Document(), &r)
		sb.WriteString("after " + p.Name + ": " + printDoc(&doc) + "\n")
		if r.HasErrors() {
			sb.WriteString("  error: " + r.Error() + "\n")
			break
		}
	}
	return sb.String()
}
