package main

import (
	"fmt"
	"strconv"

	x "gvh/c03x"
	"gvh/common"
)

// ---------------------------------------------------------------- schema

func optDef(r *common.Rand, num, den int, v *x.Val) *x.Val {
	if r.Chance(num, den) {
		return v
	}
	return nil
}
func vint(n int) *x.Val       { return &x.Val{K: "int", S: strconv.Itoa(n)} }
func vstr(s string) *x.Val    { return &x.Val{K: "str", S: s} }
func venum(s string) *x.Val   { return &x.Val{K: "enum", S: s} }
func vobj(kv ...x.VKV) *x.Val { return &x.Val{K: "obj", O: kv} }
func vlist(l ...*x.Val) *x.Val {
	return &x.Val{K: "list", L: l}
}

func genSchema(r *common.Rand) *x.Schema {
	s := &x.Schema{}
	add := func(t *x.TD) { s.Types = append(s.Types, t) }
	add(&x.TD{Kind: "enum", Name: "Color", Values: []string{"RED", "GREEN", "BLUE"}})
	inner := &x.TD{Kind: "input", Name: "Inner", Inputs: []x.IV{
		{Name: "x", T: x.Named("Int"), Def: optDef(r, 1, 2, vint(3))},
		{Name: "y", T: x.Named("String")},
		{Name: "tags", T: x.List(x.Named("String")), Def: optDef(r, 1, 3, vlist(vstr("t")))},
		{Name: "e", T: x.Named("Color"), Def: optDef(r, 1, 2, venum("GREEN"))},
	}}
	reqNoDefault := false
	if r.Chance(1, 3) {
		iv := x.IV{Name: "req", T: x.NN(x.Named("Int")), Def: optDef(r, 1, 2, vint(9))}
		reqNoDefault = iv.Def == nil
		inner.Inputs = append(inner.Inputs, iv)
	}
	add(inner)
	// default values of type Inner must be valid Inner values
	innerDef := func(kv ...x.VKV) *x.Val {
		if reqNoDefault {
			kv = append(kv, x.VKV{K: "req", V: vint(2)})
		}
		return vobj(kv...)
	}
	filter := &x.TD{Kind: "input", Name: "Filter", Inputs: []x.IV{
		{Name: "n", T: x.Named("Int")},
		{Name: "s", T: x.Named("String"), Def: optDef(r, 1, 2, vstr("d"))},
		{Name: "inner", T: x.Named("Inner"), Def: optDef(r, 1, 3, innerDef(x.VKV{K: "x", V: vint(1)}))},
		{Name: "inners", T: x.List(x.Named("Inner"))},
		{Name: "ids", T: x.List(x.NN(x.Named("ID")))},
		{Name: "deep", T: x.List(x.List(x.Named("Int")))},
	}}
	if r.Chance(1, 2) {
		filter.Inputs = append(filter.Inputs, x.IV{Name: "nn", T: x.NN(x.Named("Int")), Def: vint(5)})
	}
	if r.Chance(1, 3) {
		filter.Inputs = append(filter.Inputs, x.IV{Name: "rec", T: x.Named("Filter")})
	}
	if r.Chance(1, 3) {
		// the inner default of a field whose own default is an object with missing members
		filter.Inputs = append(filter.Inputs, x.IV{Name: "din", T: x.NN(x.Named("Inner")), Def: innerDef(x.VKV{K: "y", V: vstr("q")})})
	}
	add(filter)

	labelArgs := []x.IV{{Name: "prefix", T: x.Named("String"), Def: optDef(r, 2, 3, vstr("p"))}, {Name: "n", T: x.Named("Int")}}
	label := x.FD{Name: "label", Args: labelArgs, T: x.Named("String")}
	node := &x.TD{Kind: "interface", Name: "Node", Fields: []x.FD{
		{Name: "id", T: x.NN(x.Named("ID"))}, label, {Name: "next", T: x.Named("Node")}}}
	named := &x.TD{Kind: "interface", Name: "Named", Fields: []x.FD{{Name: "name", T: x.Named("String")}}}
	if r.Chance(1, 2) {
		named.Fields = append(named.Fields, label)
	}
	add(node)
	add(named)

	e1 := x.FD{Name: "e1", T: x.Named("String"), Args: []x.IV{
		{Name: "i", T: x.Named("Int")}, {Name: "s", T: x.Named("String")}, {Name: "b", T: x.Named("Boolean")},
		{Name: "fl", T: x.Named("Float")}, {Name: "id", T: x.Named("ID")}, {Name: "c", T: x.Named("Color"), Def: optDef(r, 1, 3, venum("RED"))},
		{Name: "n", T: x.NN(x.Named("Int")), Def: vint(1)}}}
	if r.Chance(1, 3) {
		e1.Args = append(e1.Args, x.IV{Name: "r", T: x.NN(x.Named("Int"))})
	}
	e2 := x.FD{Name: "e2", T: x.Named("String"), Args: []x.IV{
		{Name: "f", T: x.Named("Filter")}, {Name: "fs", T: x.List(x.Named("Filter"))}, {Name: "l", T: x.List(x.Named("Int"))},
		{Name: "ll", T: x.List(x.List(x.Named("Int")))}, {Name: "nl", T: x.List(x.NN(x.Named("Int")))}}}
	if r.Chance(1, 3) {
		e2.Args = append(e2.Args, x.IV{Name: "nnl", T: x.NN(x.List(x.NN(x.Named("Int"))))})
	}
	e3 := x.FD{Name: "e3", T: x.Named("String"), Args: []x.IV{{Name: "in", T: x.NN(x.Named("Inner"))}}}
	pick := x.FD{Name: "pick", T: x.Named("A"), Args: []x.IV{{Name: "id", T: x.NN(x.Named("ID"))}}}
	sub := x.FD{Name: "sub", T: x.Named("B"), Args: []x.IV{{Name: "x", T: x.Named("Int")}, {Name: "in", T: x.Named("Inner")}}}

	valTy := map[string]*x.Ty{"A": x.Named("Int"), "B": x.Named("String"), "C": x.Named("Int"), "D": x.List(x.Named("Int"))}
	pool := func(name string) []x.FD {
		return []x.FD{
			{Name: "count", T: x.Named("Int")}, {Name: "flag", T: x.Named("Boolean")}, {Name: "ratio", T: x.Named("Float")},
			{Name: "color", T: x.Named("Color")}, {Name: "val", T: valTy[name]},
			{Name: "a", T: x.Named("A")}, {Name: "b", T: x.Named("B")}, {Name: "node", T: x.Named("Node")},
			{Name: "named", T: x.Named("Named")}, {Name: "u", T: x.Named("U")}, {Name: "nodes", T: x.List(x.Named("Node"))},
			{Name: "as", T: x.List(x.NN(x.Named("A")))}, {Name: "us", T: x.List(x.Named("U"))},
			e1, e2, e3, pick, sub,
		}
	}
	obj := func(name string, impl []string) *x.TD {
		t := &x.TD{Kind: "object", Name: name, Impl: impl}
		have := map[string]bool{}
		for _, in := range impl {
			for _, f := range s.Type(in).Fields {
				if !have[f.Name] {
					have[f.Name] = true
					t.Fields = append(t.Fields, f)
				}
			}
		}
		if !have["name"] && r.Chance(2, 3) {
			t.Fields = append(t.Fields, x.FD{Name: "name", T: x.Named("String")})
			have["name"] = true
		}
		for _, f := range pool(name) {
			if !have[f.Name] && r.Chance(3, 5) {
				t.Fields = append(t.Fields, f)
				have[f.Name] = true
			}
		}
		if len(t.Fields) == 0 {
			t.Fields = append(t.Fields, x.FD{Name: "count", T: x.Named("Int")})
		}
		return t
	}
	add(obj("A", []string{"Node", "Named"}))
	add(obj("B", []string{"Node"}))
	add(obj("C", []string{"Named"}))
	add(obj("D", nil))
	mem := []string{}
	for _, m := range []string{"A", "B", "C", "D"} {
		if r.Chance(2, 3) {
			mem = append(mem, m)
		}
	}
	if len(mem) < 2 {
		mem = []string{"A", "D"}
	}
	add(&x.TD{Kind: "union", Name: "U", Members: mem})
	q := &x.TD{Kind: "object", Name: "Query", Fields: []x.FD{
		{Name: "a", T: x.Named("A")}, {Name: "b", T: x.Named("B")}, {Name: "c", T: x.Named("C")}, {Name: "d", T: x.Named("D")},
		{Name: "node", T: x.Named("Node")}, {Name: "named", T: x.Named("Named")}, {Name: "u", T: x.Named("U")},
		{Name: "us", T: x.List(x.Named("U"))}, {Name: "nodes", T: x.List(x.Named("Node"))}, {Name: "nameds", T: x.NN(x.List(x.NN(x.Named("Named"))))},
		{Name: "count", T: x.Named("Int")}, e1, e2, e3, pick, sub,
	}}
	add(q)
	return s
}

// ---------------------------------------------------------------- universe

var intPool = []string{"0", "1", "-3", "42", "7", "1000"}
var floatPool = []string{"1.5", "-0.25", "2", "3.0", "1e3"}
var strPool = []string{"s", "hello", "a b", "x1", "", "Zed"}
var idPool = []string{"1", "2", "3", "k9"}

func scalarJSON(r *common.Rand, s *x.Schema, n string) *x.J {
	switch n {
	case "Int":
		return x.JNum(common.PickOf(r, intPool))
	case "Float":
		return x.JNum(common.PickOf(r, floatPool))
	case "String":
		return x.JStr(common.PickOf(r, strPool))
	case "Boolean":
		return x.JBool(r.Chance(1, 2))
	case "ID":
		return x.JStr(common.PickOf(r, idPool))
	}
	if t := s.Type(n); t != nil && t.Kind == "enum" {
		return x.JStr(common.PickOf(r, t.Values))
	}
	return x.JNull()
}

func genUniverse(r *common.Rand, s *x.Schema) *x.Universe {
	u := &x.Universe{}
	keys := map[string][]string{}
	for _, t := range s.Types {
		if t.Kind == "object" && t.Name != "Query" {
			n := 2 + r.Pick(2)
			for i := 1; i <= n; i++ {
				keys[t.Name] = append(keys[t.Name], strconv.Itoa(i))
			}
		}
	}
	var fval func(t *x.Ty, nullable bool) *x.FV
	fval = func(t *x.Ty, nullable bool) *x.FV {
		switch t.K {
		case 2:
			return fval(t.Of, false)
		case 1:
			if nullable && r.Chance(1, 10) {
				return &x.FV{K: "nullref"}
			}
			out := &x.FV{K: "lst"}
			for i, n := 0, r.Pick(4); i < n; i++ {
				out.L = append(out.L, fval(t.Of, t.Of.Nullable()))
			}
			return out
		}
		if s.IsComposite(t.N) {
			if nullable && r.Chance(1, 8) {
				return &x.FV{K: "nullref"}
			}
			pt := common.PickOf(r, s.PossibleTypes(t.N))
			return &x.FV{K: "ref", T: pt, S: common.PickOf(r, keys[pt])}
		}
		if nullable && r.Chance(1, 8) {
			return &x.FV{K: "sc", J: x.JNull()}
		}
		if nullable && r.Chance(1, 40) {
			return &x.FV{K: "err"}
		}
		return &x.FV{K: "sc", J: scalarJSON(r, s, t.N)}
	}
	ent := func(t *x.TD, key string) {
		e := &x.Ent{T: t.Name, Key: key}
		for _, f := range t.Fields {
			var v *x.FV
			switch {
			case f.Name == "pick":
				v = &x.FV{K: "lookup", T: "A", S: "id"}
			case f.Name == "id":
				v = &x.FV{K: "sc", J: x.JStr(key)}
			case len(f.Args) > 0 && !s.IsComposite(f.T.Base()):
				v = &x.FV{K: "echo"}
			default:
				v = fval(f.T, f.T.Nullable())
			}
			e.F = append(e.F, x.EntF{Name: f.Name, V: v})
		}
		u.Ents = append(u.Ents, e)
	}
	for _, t := range s.Types {
		if t.Kind != "object" {
			continue
		}
		if t.Name == "Query" {
			ent(t, "")
			continue
		}
		for _, k := range keys[t.Name] {
			ent(t, k)
		}
	}
	return u
}

// ---------------------------------------------------------------- operations

type binding struct{ field, args, typ string }

type genVar struct {
	def     *x.VarDef
	posType string
}

type gen struct {
	r       *common.Rand
	s       *x.Schema
	vars    []*genVar
	json    *x.J
	frags   []*x.Frag
	reg     map[string]binding
	n       int
	flags   map[string]int
	budget  int
	maxDep  int
	pNested int // chance (per 100) of a variable nested inside a list / object literal
}

var userVarNames = []string{"a", "b", "c", "id", "first", "v", "w", "in", "f", "aa", "x"}

func (g *gen) flag(k string) { g.flags[k]++ }

func (g *gen) freshVarName() string {
	for tries := 0; tries < 20; tries++ {
		n := common.PickOf(g.r, userVarNames)
		if g.r.Chance(1, 2) {
			n += strconv.Itoa(g.r.Pick(3))
		}
		ok := true
		for _, v := range g.vars {
			if v.def.Name == n {
				ok = false
			}
		}
		if ok {
			return n
		}
	}
	g.n++
	return "u" + strconv.Itoa(g.n)
}

// literal of type t without variables (used for defaults of variable definitions)
func (g *gen) constLit(t *x.Ty, nullable bool, depth int) *x.Val {
	save := g.pNested
	g.pNested = 0
	before := g.flags["lit_listcoerce"]
	defer func() {
		g.pNested = save
		if g.flags["lit_listcoerce"] > before {
			g.flag("default_listcoerce")
		}
	}()
	return g.lit(t, nullable, depth, false)
}

// lit generates a literal for a position of type t. inner: inside a list / object literal
// (a variable may appear there with probability pNested).
func (g *gen) lit(t *x.Ty, nullable bool, depth int, inner bool) *x.Val {
	if inner && g.pNested > 0 && g.r.Chance(g.pNested, 100) {
		g.flag("nestedvar")
		return g.useVar(t)
	}
	return g.litNoVar(t, nullable, depth)
}

// litNoVar: the value itself is not a variable (variables may occur deeper inside it)
func (g *gen) litNoVar(t *x.Ty, nullable bool, depth int) *x.Val {
	if t.K == 2 {
		return g.litNoVar(t.Of, false, depth)
	}
	if nullable && g.r.Chance(1, 12) {
		g.flag("lit_null")
		return &x.Val{K: "null"}
	}
	if t.K == 1 {
		if g.r.Chance(1, 5) && t.Of.StripNN().K != 1 || g.r.Chance(1, 12) {
			// single value where a list is expected (list input coercion); a variable of the item
			// type would not be a valid use there
			g.flag("lit_listcoerce")
			if t.Of.StripNN().K == 1 {
				// [[Int]] written as [..]: every item is itself coerced to a list, and a variable of the
				// scalar type is no valid use in a [Int] position -- no variables inside
				save := g.pNested
				g.pNested = 0
				defer func() { g.pNested = save }()
			}
			return g.litNoVar(t.Of, false, depth+1)
		}
		out := &x.Val{K: "list"}
		isObj := false
		if td := g.s.Type(t.Of.Base()); td != nil && td.Kind == "input" && t.Of.StripNN().K == 0 {
			isObj = true
		}
		for i, n := 0, g.r.Pick(4); i < n; i++ {
			v := g.lit(t.Of, t.Of.Nullable(), depth+1, true)
			if isObj && v.K == "null" {
				g.flag("null_in_object_list")
			}
			out.L = append(out.L, v)
		}
		return out
	}
	switch t.N {
	case "Int":
		return &x.Val{K: "int", S: common.PickOf(g.r, intPool)}
	case "Float":
		if g.r.Chance(1, 4) {
			return &x.Val{K: "int", S: common.PickOf(g.r, intPool)}
		}
		return &x.Val{K: "float", S: common.PickOf(g.r, []string{"1.5", "-0.25", "3.0", "1e3", "0.0"})}
	case "String":
		return vstr(common.PickOf(g.r, strPool))
	case "Boolean":
		return &x.Val{K: "bool", B: g.r.Chance(1, 2)}
	case "ID":
		if g.r.Chance(1, 3) {
			return &x.Val{K: "int", S: common.PickOf(g.r, []string{"1", "2", "3"})}
		}
		return vstr(common.PickOf(g.r, idPool))
	}
	td := g.s.Type(t.N)
	if td == nil {
		return &x.Val{K: "null"}
	}
	switch td.Kind {
	case "enum":
		return venum(common.PickOf(g.r, td.Values))
	case "input":
		out := &x.Val{K: "obj"}
		idx := g.r.Perm(len(td.Inputs))
		for _, i := range idx {
			iv := td.Inputs[i]
			required := iv.T.K == 2 && iv.Def == nil
			if iv.T.Base() == td.Name && depth > 1 {
				continue
			}
			if required || g.r.Chance(1, 2) {
				out.O = append(out.O, x.VKV{K: iv.Name, V: g.lit(iv.T, iv.T.Nullable(), depth+1, true)})
			} else if iv.Def != nil {
				g.flag("input_default_redex")
			}
		}
		g.flag("lit_obj")
		return out
	}
	return &x.Val{K: "null"}
}

// jsonVal generates a JSON value a client could legally supply for a variable of type t.
func (g *gen) jsonVal(t *x.Ty, nullOK bool, depth int) *x.J {
	if t.K == 2 {
		return g.jsonVal(t.Of, false, depth)
	}
	if nullOK && g.r.Chance(1, 10) {
		return x.JNull()
	}
	if t.K == 1 {
		if g.r.Chance(1, 6) {
			g.flag("var_listcoerce")
			return g.jsonVal(t.Of, false, depth+1)
		}
		out := &x.J{K: 'a'}
		isObj := false
		if td := g.s.Type(t.Of.Base()); td != nil && td.Kind == "input" && t.Of.StripNN().K == 0 {
			isObj = true
		}
		for i, n := 0, g.r.Pick(4); i < n; i++ {
			v := g.jsonVal(t.Of, t.Of.Nullable(), depth+1)
			if isObj && v.K == 'n' {
				g.flag("null_in_object_list")
			}
			out.A = append(out.A, v)
		}
		return out
	}
	td := g.s.Type(t.N)
	if td != nil && td.Kind == "input" {
		out := &x.J{K: 'o'}
		for _, i := range g.r.Perm(len(td.Inputs)) {
			iv := td.Inputs[i]
			required := iv.T.K == 2 && iv.Def == nil
			if iv.T.Base() == td.Name && depth > 1 {
				continue
			}
			if required || g.r.Chance(1, 2) {
				out.O = append(out.O, x.JKV{K: iv.Name, V: g.jsonVal(iv.T, iv.T.Nullable(), depth+1)})
			} else if iv.Def != nil {
				g.flag("input_default_redex")
			}
		}
		return out
	}
	if t.N == "ID" && g.r.Chance(1, 3) {
		return x.JNum(common.PickOf(g.r, []string{"1", "2", "3"}))
	}
	if t.N == "Float" && g.r.Chance(1, 4) {
		return x.JNum(common.PickOf(g.r, intPool))
	}
	return scalarJSON(g.r, g.s, t.N)
}

// useVar returns a variable value for a position of type posT, reusing a variable that was
// created for a position of the same type or defining a new one (with a supplied value and/or a
// default so that the operation stays valid).
func (g *gen) useVar(posT *x.Ty) *x.Val { return g.useVarKey(posT, posT.SDL()) }

// useVarKey: key names the class of positions that may share the variable
func (g *gen) useVarKey(posT *x.Ty, key string) *x.Val {
	var cands []*genVar
	for _, v := range g.vars {
		if v.posType == key {
			cands = append(cands, v)
		}
	}
	if len(cands) > 0 && g.r.Chance(1, 2) {
		g.flag("var_reuse")
		return &x.Val{K: "var", S: common.PickOf(g.r, cands).def.Name}
	}
	vd := &x.VarDef{Name: g.freshVarName()}
	if posT.Nullable() {
		vd.T = posT
		if g.r.Chance(2, 5) {
			vd.T = x.NN(posT)
		}
	} else {
		vd.T = posT
		if g.r.Chance(3, 10) {
			vd.T = posT.StripNN()
			vd.Def = g.constLit(vd.T, false, 1)
			g.flag("var_nullable_default_in_nonnull_pos")
		}
	}
	if vd.Def == nil {
		if vd.T.Nullable() && g.r.Chance(2, 5) {
			vd.Def = g.constLit(vd.T, g.r.Chance(1, 10) && posT.Nullable(), 1)
		} else if !vd.T.Nullable() && g.r.Chance(1, 10) {
			vd.Def = g.constLit(vd.T, false, 1)
		}
	}
	if vd.Def != nil {
		g.flag("var_default")
		if vd.Def.K == "null" && vd.T.StripNN().K == 1 {
			g.flag("default_null_list")
		}
	}
	supply := true
	switch {
	case vd.Def != nil:
		supply = g.r.Chance(1, 2)
	case vd.T.Nullable():
		supply = g.r.Chance(3, 4)
	}
	if supply {
		g.json.O = append(g.json.O, x.JKV{K: vd.Name, V: g.jsonVal(vd.T, posT.Nullable() && vd.T.Nullable(), 1)})
	} else {
		g.flag("var_absent")
	}
	g.vars = append(g.vars, &genVar{def: vd, posType: key})
	g.flag("var")
	return &x.Val{K: "var", S: vd.Name}
}

func (g *gen) argValue(t *x.Ty) *x.Val {
	if g.r.Chance(3, 10) {
		return g.useVar(t)
	}
	g.flag("lit_arg")
	return g.lit(t, t.Nullable(), 1, false)
}

func (g *gen) genArgs(fd *x.FD) []x.Arg {
	var out []x.Arg
	for _, i := range g.r.Perm(len(fd.Args)) {
		a := fd.Args[i]
		required := a.T.K == 2 && a.Def == nil
		if required || g.r.Chance(2, 5) {
			out = append(out, x.Arg{Name: a.Name, V: g.argValue(a.T)})
		}
	}
	return out
}

func (g *gen) boolDir() []x.Dir {
	one := func(name string) x.Dir {
		var v *x.Val
		if g.r.Chance(1, 2) {
			v = &x.Val{K: "bool", B: g.r.Chance(1, 2)}
			g.flag("dir_literal")
		} else {
			v = g.useVar(x.NN(x.Named("Boolean")))
			g.flag("dir_variable")
		}
		return x.Dir{Name: name, Args: []x.Arg{{Name: "if", V: v}}}
	}
	switch g.r.Pick(5) {
	case 0, 1:
		return []x.Dir{one("skip")}
	case 2, 3:
		return []x.Dir{one("include")}
	}
	if g.r.Chance(1, 2) {
		return []x.Dir{one("skip"), one("include")}
	}
	return []x.Dir{one("include"), one("skip")}
}

// customDir: @tag(name: .., n: ..) with literal and variable arguments; most of its variables are
// used nowhere else in the operation (class "dir:" is never shared with field arguments)
func (g *gen) customDir() x.Dir {
	d := x.Dir{Name: "tag"}
	one := func(name string, t *x.Ty) {
		var v *x.Val
		switch g.r.Pick(5) {
		case 0, 1:
			v = g.litNoVar(t, true, 1)
			g.flag("customdir_literal")
		case 2, 3:
			v = g.useVarKey(t, "dir:"+t.SDL())
			g.flag("customdir_own_variable")
		default:
			v = g.useVar(t)
			g.flag("customdir_shared_variable")
		}
		d.Args = append(d.Args, x.Arg{Name: name, V: v})
	}
	switch g.r.Pick(4) {
	case 0:
		one("n", x.Named("Int"))
	case 1:
		one("name", x.Named("String"))
		one("n", x.Named("Int"))
	default:
		one("name", x.Named("String"))
	}
	g.flag("customdir")
	return d
}

func (g *gen) maybeDirs(num, den int) []x.Dir {
	var out []x.Dir
	if g.r.Chance(num, den) {
		out = g.boolDir()
	}
	if g.r.Chance(1, 40) {
		if g.r.Chance(1, 2) {
			out = append(out, g.customDir())
		} else {
			out = append([]x.Dir{g.customDir()}, out...)
		}
	}
	if len(out) >= 3 {
		// a removable directive followed by two more: the walker skips the one after it
		g.flag("three_directives")
	}
	return out
}

var typenameFD = x.FD{Name: "__typename", T: x.NN(x.Named("String"))}

func argsCanon(a []x.Arg) string {
	s := ""
	for _, y := range a {
		s += y.Name + ":" + y.V.GQL() + ","
	}
	return s
}

func (g *gen) bindField(path string, s *x.Sel, fd *x.FD) string {
	resp := s.Name
	if s.Alias != "" {
		resp = s.Alias
	}
	b := binding{fd.Name, argsCanon(s.Args), fd.T.SDL()}
	key := path + "/" + resp
	if old, ok := g.reg[key]; ok && old != b {
		g.n++
		s.Alias = "r" + strconv.Itoa(g.n)
		key = path + "/" + s.Alias
	} else if ok {
		g.flag("same_response_name")
	}
	g.reg[key] = b
	return key
}

func (g *gen) genField(parent *x.TD, path string, depth int) *x.Sel {
	var fd *x.FD
	if parent.Kind == "union" || g.r.Chance(1, 12) {
		fd = &typenameFD
	} else {
		for tries := 0; tries < 8; tries++ {
			fd = &parent.Fields[g.r.Pick(len(parent.Fields))]
			if (depth < g.maxDep && g.budget > 0) || !g.s.IsComposite(fd.T.Base()) {
				break
			}
			fd = &typenameFD
		}
	}
	g.budget--
	s := &x.Sel{K: 0, Name: fd.Name, Args: g.genArgs(fd)}
	if g.r.Chance(1, 6) {
		s.Alias = common.PickOf(g.r, []string{"x", "y", "z", fd.Name, fd.Name})
		if s.Alias == fd.Name {
			g.flag("self_alias")
		}
	}
	key := g.bindField(path, s, fd)
	s.Dirs = g.maybeDirs(1, 5)
	if g.s.IsComposite(fd.T.Base()) {
		s.Sels = g.genSels(fd.T.Base(), key, depth+1)
	}
	return s
}

// candidate type conditions for a fragment inside a selection set of type parent
func (g *gen) conds(parent string) []string {
	var out []string
	for _, t := range g.s.Types {
		if g.s.IsComposite(t.Name) && g.s.Intersects(parent, t.Name) {
			out = append(out, t.Name)
		}
	}
	return out
}

// tryBind checks that the selections, placed at response path `path` under parent type T, are
// consistent with everything generated so far (same response name => same field, arguments and
// type); on success the bindings are committed.
func (g *gen) tryBind(T, path string, sels []*x.Sel) bool {
	tmp := map[string]binding{}
	var walk func(T, path string, sels []*x.Sel, seen map[string]bool) bool
	walk = func(T, path string, sels []*x.Sel, seen map[string]bool) bool {
		td := g.s.Type(T)
		for _, s := range sels {
			switch s.K {
			case 0:
				fd := &typenameFD
				if s.Name != "__typename" {
					fd = td.Field(s.Name)
				}
				if fd == nil {
					return false
				}
				resp := s.Name
				if s.Alias != "" {
					resp = s.Alias
				}
				key := path + "/" + resp
				b := binding{fd.Name, argsCanon(s.Args), fd.T.SDL()}
				if old, ok := g.reg[key]; ok && old != b {
					return false
				}
				if old, ok := tmp[key]; ok && old != b {
					return false
				}
				tmp[key] = b
				if len(s.Sels) > 0 && !walk(fd.T.Base(), key, s.Sels, seen) {
					return false
				}
			case 1:
				c := s.Cond
				if c == "" {
					c = T
				}
				if !walk(c, path, s.Sels, seen) {
					return false
				}
			case 2:
				var fr *x.Frag
				for _, f := range g.frags {
					if f.Name == s.Name {
						fr = f
					}
				}
				if fr == nil || seen[fr.Name] {
					return false
				}
				seen[fr.Name] = true
				ok := walk(fr.On, path, fr.Sels, seen)
				delete(seen, fr.Name)
				if !ok {
					return false
				}
			}
		}
		return true
	}
	if !walk(T, path, sels, map[string]bool{}) {
		return false
	}
	for k, v := range tmp {
		g.reg[k] = v
	}
	return true
}

func (g *gen) genSels(parent string, path string, depth int) []*x.Sel {
	td := g.s.Type(parent)
	var out []*x.Sel
	n := 1 + g.r.Pick(4)
	if depth == 0 {
		n = 2 + g.r.Pick(4)
	}
	for i := 0; i < n; i++ {
		k := g.r.Pick(10)
		if depth >= g.maxDep+1 || g.budget <= 0 {
			k = 0
		}
		if td.Kind == "union" && k < 6 && g.r.Chance(3, 4) {
			k = 6 + g.r.Pick(4)
		}
		switch {
		case k < 6:
			out = append(out, g.genField(td, path, depth))
		case k < 8:
			cs := append(g.conds(parent), "", parent)
			c := common.PickOf(g.r, cs)
			body := c
			if c == "" {
				body = parent
			}
			s := &x.Sel{K: 1, Cond: c, Dirs: g.maybeDirs(3, 10)}
			g.budget--
			s.Sels = g.genSels(body, path, depth+1)
			g.flag("inline_fragment")
			out = append(out, s)
		default:
			// reuse an existing fragment when it fits here, else define a new one
			var reuse []*x.Frag
			for _, f := range g.frags {
				if g.s.Intersects(parent, f.On) {
					reuse = append(reuse, f)
				}
			}
			if len(reuse) > 0 && g.r.Chance(2, 5) {
				f := common.PickOf(g.r, reuse)
				if g.tryBind(f.On, path, f.Sels) {
					g.flag("spread_reuse")
					out = append(out, &x.Sel{K: 2, Name: f.Name, Dirs: g.maybeDirs(1, 4)})
					continue
				}
			}
			c := common.PickOf(g.r, append(g.conds(parent), parent))
			g.n++
			f := &x.Frag{Name: "F" + strconv.Itoa(g.n), On: c}
			g.budget--
			f.Sels = g.genSels(c, path, depth+1)
			g.frags = append(g.frags, f)
			g.flag("spread")
			out = append(out, &x.Sel{K: 2, Name: f.Name, Dirs: g.maybeDirs(1, 4)})
		}
	}
	// deliberate duplicates: a leaf copied verbatim (deduplication), a composite field selected
	// again with another sub-selection (merging), a field repeated inside a fragment with a
	// condition on one of the two occurrences
	if g.r.Chance(2, 5) {
		var fields []*x.Sel
		for _, s := range out {
			if s.K == 0 {
				fields = append(fields, s)
			}
		}
		if len(fields) > 0 {
			src := common.PickOf(g.r, fields)
			c := src.Clone()
			resp := c.Name
			if c.Alias != "" {
				resp = c.Alias
			}
			if len(c.Sels) > 0 {
				fd := td.Field(c.Name)
				c.Sels = g.genSels(fd.T.Base(), path+"/"+resp, depth+1)
				g.flag("dup_composite")
			} else {
				g.flag("dup_leaf")
			}
			switch g.r.Pick(5) {
			case 0:
				c.Dirs = g.maybeDirs(1, 1)
				g.flag("dup_with_directive")
			case 1:
				// cond must be a type on which the field exists: the parent itself or no condition
				w := &x.Sel{K: 1, Cond: common.PickOf(g.r, []string{"", parent}), Dirs: g.maybeDirs(1, 2), Sels: []*x.Sel{c}}
				c = w
				g.flag("dup_in_fragment")
			case 2:
				g.n++
				f := &x.Frag{Name: "F" + strconv.Itoa(g.n), On: parent, Sels: []*x.Sel{c}}
				g.frags = append(g.frags, f)
				c = &x.Sel{K: 2, Name: f.Name, Dirs: g.maybeDirs(1, 2)}
				g.flag("dup_in_fragment")
				g.flag("spread")
			}
			pos := g.r.Pick(len(out) + 1)
			out = append(out[:pos], append([]*x.Sel{c}, out[pos:]...)...)
		}
	}
	// pairs of mergeable selections that carry repeated applications of the repeatable @rtag: the
	// de-duplication / merging passes may fuse them only when the two lists are equal as MULTISETS
	// ([X,X] and [X,Y] are equal as sets and have one length)
	if g.r.Chance(1, 8) {
		out = g.repDirPair(td, parent, out)
	}
	return out
}

func rtagApp(r *common.Rand) x.Dir {
	d := x.Dir{Name: "rtag"}
	if r.Chance(4, 5) {
		d.Args = append(d.Args, x.Arg{Name: "k", V: &x.Val{K: "int", S: common.PickOf(r, []string{"1", "2"})}})
	}
	if len(d.Args) == 0 || r.Chance(1, 3) {
		d.Args = append(d.Args, x.Arg{Name: "s", V: vstr(common.PickOf(r, []string{"a", "b"}))})
	}
	if len(d.Args) == 2 && r.Chance(1, 3) {
		d.Args[0], d.Args[1] = d.Args[1], d.Args[0]
	}
	return d
}

func cloneDir(d x.Dir) x.Dir {
	c := x.Dir{Name: d.Name}
	for _, a := range d.Args {
		c.Args = append(c.Args, x.Arg{Name: a.Name, V: a.V})
	}
	return c
}

// rtagLists: the directive lists of the earlier and the later selection of a pair
func rtagLists(r *common.Rand) (a, b []x.Dir, shape string) {
	xa := rtagApp(r)
	ya := rtagApp(r)
	for i := 0; i < 8 && argsCanon(ya.Args) == argsCanon(xa.Args); i++ {
		ya = rtagApp(r)
	}
	za := rtagApp(r)
	switch r.Pick(8) {
	case 0, 1:
		return []x.Dir{xa, cloneDir(xa)}, []x.Dir{cloneDir(xa), ya}, "dup_vs_near"
	case 2:
		return []x.Dir{xa, za, cloneDir(xa)}, []x.Dir{cloneDir(za), cloneDir(xa), ya}, "triple_near"
	case 3:
		return []x.Dir{xa, ya}, []x.Dir{cloneDir(xa), cloneDir(xa)}, "near_vs_dup"
	case 4:
		return []x.Dir{xa, ya}, []x.Dir{cloneDir(ya), cloneDir(xa)}, "permuted"
	case 5:
		return []x.Dir{xa, cloneDir(xa)}, []x.Dir{cloneDir(xa), cloneDir(xa)}, "equal_dup"
	case 6:
		return []x.Dir{xa, cloneDir(xa)}, []x.Dir{cloneDir(xa)}, "shorter"
	}
	return []x.Dir{xa}, []x.Dir{ya}, "single_different"
}

func (g *gen) repDirPair(td *x.TD, parent string, out []*x.Sel) []*x.Sel {
	a, b, shape := rtagLists(g.r)
	var first, second *x.Sel
	form := g.r.Pick(4)
	var fields []int
	for i, s := range out {
		if s.K == 0 {
			fields = append(fields, i)
		}
	}
	if form < 2 && len(fields) == 0 {
		form = 2
	}
	switch form {
	case 0, 1:
		// an existing field (leaf or with sub-selections) and a copy of it, both keeping what they carry
		i := common.PickOf(g.r, fields)
		first = out[i]
		second = first.Clone()
		if len(first.Sels) > 0 {
			g.flag("repdir_composite")
		} else {
			g.flag("repdir_leaf")
		}
		first.Dirs = append(first.Dirs, a...)
		if g.r.Chance(1, 2) {
			second.Dirs = append(second.Dirs, b...)
		} else {
			second.Dirs = append(b, second.Dirs...)
		}
		switch g.r.Pick(4) {
		case 0:
			g.n++
			f := &x.Frag{Name: "F" + strconv.Itoa(g.n), On: parent, Sels: []*x.Sel{second}}
			g.frags = append(g.frags, f)
			second = &x.Sel{K: 2, Name: f.Name}
			g.flag("spread")
			g.flag("repdir_via_fragment")
		case 1:
			second = &x.Sel{K: 1, Cond: common.PickOf(g.r, []string{"", parent}), Sels: []*x.Sel{second}}
			g.flag("repdir_via_inline")
		}
		pos := i + 1 + g.r.Pick(len(out)-i)
		out = append(out[:pos], append([]*x.Sel{second}, out[pos:]...)...)
	case 2:
		c := common.PickOf(g.r, []string{"", parent, parent})
		first = &x.Sel{K: 1, Cond: c, Dirs: a, Sels: []*x.Sel{{K: 0, Name: "__typename"}}}
		second = &x.Sel{K: 1, Cond: c, Dirs: b, Sels: []*x.Sel{{K: 0, Name: "__typename"}}}
		g.flag("repdir_inline")
		g.flag("inline_fragment")
		out = append(out, first, second)
	default:
		g.n++
		f := &x.Frag{Name: "F" + strconv.Itoa(g.n), On: parent, Sels: []*x.Sel{{K: 0, Name: "__typename"}}}
		g.frags = append(g.frags, f)
		first = &x.Sel{K: 2, Name: f.Name, Dirs: a}
		second = &x.Sel{K: 2, Name: f.Name, Dirs: b}
		g.flag("repdir_spread")
		g.flag("spread")
		out = append(out, first, second)
	}
	g.flag("repdir_pair")
	g.flag("repdir_" + shape)
	return out
}

type genCase struct {
	doc    *x.Doc
	vars   *x.J // nil: the request carries no variables member
	opName string
	flags  map[string]int
}

func genOperation(r *common.Rand, s *x.Schema) *genCase {
	g := &gen{r: r, s: s, json: &x.J{K: 'o'}, reg: map[string]binding{}, flags: map[string]int{},
		budget: 6 + r.Pick(22), maxDep: 2 + r.Pick(3), pNested: 0}
	if r.Chance(1, 8) {
		// variables nested in list / object literals: a known-finding class, kept to a minority of the
		// documents so that it does not mask the rest
		g.pNested = 12
	}
	op := &x.Op{}
	op.Sels = g.genSels("Query", "", 0)
	for _, v := range g.vars {
		op.Vars = append(op.Vars, v.def)
	}
	// variable definitions in random order; JSON members too
	r.Shuffle(len(op.Vars), func(i, j int) { op.Vars[i], op.Vars[j] = op.Vars[j], op.Vars[i] })
	r.Shuffle(len(g.json.O), func(i, j int) { g.json.O[i], g.json.O[j] = g.json.O[j], g.json.O[i] })
	d := &x.Doc{Ops: []*x.Op{op}, Frags: g.frags}
	c := &genCase{doc: d, vars: g.json, flags: g.flags}
	if r.Chance(1, 2) {
		op.Name = common.PickOf(r, []string{"Q", "Main", "op1"})
	}
	if op.Name != "" && r.Chance(1, 3) {
		d.Ops = append(d.Ops, &x.Op{Name: "Other", Sels: []*x.Sel{{K: 0, Name: "__typename"}}})
		c.opName = op.Name
		g.flag("second_operation")
	}
	// definition order: fragments and operations interleaved
	n := len(d.Ops) + len(d.Frags)
	for i := range d.Ops {
		d.Order = append(d.Order, i)
	}
	for i := range d.Frags {
		d.Order = append(d.Order, -(i + 1))
	}
	if r.Chance(1, 2) {
		r.Shuffle(n, func(i, j int) { d.Order[i], d.Order[j] = d.Order[j], d.Order[i] })
	}
	for _, i := range d.Order {
		if i == 1 {
			g.flag("op_not_first")
		}
		if i == 0 {
			break
		}
	}
	if len(g.json.O) == 0 && r.Chance(1, 2) {
		c.vars = nil
	}
	return c
}

// ---------------------------------------------------------------- meaning-preserving rewrites

// walkSelSets calls fn for every selection set of the document with its static parent type.
func walkSelSets(s *x.Schema, d *x.Doc, fn func(parent string, sels *[]*x.Sel)) {
	walkSelSetsF(s, d, func(parent string, sels *[]*x.Sel, _ bool) { fn(parent, sels) })
}

// walkSelSetsF also reports whether the set lies inside a fragment with a type condition (inline
// or definition) since the last field.
func walkSelSetsF(s *x.Schema, d *x.Doc, fn func(parent string, sels *[]*x.Sel, inFrag bool)) {
	var walk func(parent string, sels *[]*x.Sel, inFrag bool)
	walk = func(parent string, sels *[]*x.Sel, inFrag bool) {
		fn(parent, sels, inFrag)
		td := s.Type(parent)
		for _, sel := range *sels {
			switch sel.K {
			case 0:
				if len(sel.Sels) > 0 && td != nil {
					if fd := td.Field(sel.Name); fd != nil {
						walk(fd.T.Base(), &sel.Sels, false)
					}
				}
			case 1:
				c := sel.Cond
				if c == "" {
					c = parent
				}
				walk(c, &sel.Sels, inFrag || sel.Cond != "")
			}
		}
	}
	for _, o := range d.Ops {
		walk("Query", &o.Sels, false)
	}
	for _, f := range d.Frags {
		walk(f.On, &f.Sels, true)
	}
}

type rewriter struct {
	r    *common.Rand
	s    *x.Schema
	d    *x.Doc
	vars *x.J
	n    int
}

func onlyFields(ss []*x.Sel) bool {
	for _, s := range ss {
		if s.K != 0 {
			return false
		}
	}
	return true
}

// fragWrap: a contiguous run of selections is moved into an inline fragment or a named fragment
// whose type condition the normaliser resolves at the same place.
func (w *rewriter) fragWrap() string {
	type site struct {
		parent string
		sels   *[]*x.Sel
		inFrag bool
	}
	var sites []site
	walkSelSetsF(w.s, w.d, func(p string, sels *[]*x.Sel, in bool) { sites = append(sites, site{p, sels, in}) })
	st := common.PickOf(w.r, sites)
	ss := *st.sels
	i := w.r.Pick(len(ss))
	j := i + 1 + w.r.Pick(len(ss)-i)
	run := append([]*x.Sel(nil), ss[i:j]...)
	conds := []string{st.parent, st.parent}
	td := w.s.Type(st.parent)
	if td.Kind == "object" && onlyFields(run) {
		conds = append(conds, td.Impl...)
		// fields of the run must exist on the interface
		var ok []string
		for _, c := range conds {
			good := true
			for _, f := range run {
				if f.Name != "__typename" && w.s.Type(c).Field(f.Name) == nil {
					good = false
				}
			}
			if good {
				ok = append(ok, c)
			}
		}
		conds = ok
	}
	var repl *x.Sel
	if w.r.Chance(1, 2) {
		c := common.PickOf(w.r, append(conds, ""))
		repl = &x.Sel{K: 1, Cond: c, Sels: run}
	} else {
		w.n++
		f := &x.Frag{Name: "W" + strconv.Itoa(w.n), On: common.PickOf(w.r, conds), Sels: run}
		w.d.Frags = append(w.d.Frags, f)
		w.d.Order = append(w.d.Order, -len(w.d.Frags))
		repl = &x.Sel{K: 2, Name: f.Name}
	}
	ns := append([]*x.Sel(nil), ss[:i]...)
	ns = append(ns, repl)
	ns = append(ns, ss[j:]...)
	*st.sels = ns
	if st.inFrag {
		return "fragwrap_in_fragment"
	}
	return "fragwrap"
}

func (w *rewriter) dupLeaf() bool {
	type site struct {
		sels *[]*x.Sel
		i    int
	}
	var sites []site
	walkSelSets(w.s, w.d, func(p string, sels *[]*x.Sel) {
		for i, s := range *sels {
			if s.K == 0 && len(s.Sels) == 0 {
				sites = append(sites, site{sels, i})
			}
		}
	})
	if len(sites) == 0 {
		return false
	}
	st := common.PickOf(w.r, sites)
	ss := *st.sels
	c := ss[st.i].Clone()
	pos := st.i + 1 + w.r.Pick(len(ss)-st.i)
	ns := append([]*x.Sel(nil), ss[:pos]...)
	ns = append(ns, c)
	ns = append(ns, ss[pos:]...)
	*st.sels = ns
	return true
}

func forEachValue(d *x.Doc, fn func(v *x.Val)) {
	var sels func(ss []*x.Sel)
	sels = func(ss []*x.Sel) {
		for _, s := range ss {
			for _, a := range s.Args {
				fn(a.V)
			}
			for _, dd := range s.Dirs {
				for _, a := range dd.Args {
					fn(a.V)
				}
			}
			sels(s.Sels)
		}
	}
	for _, o := range d.Ops {
		sels(o.Sels)
	}
	for _, f := range d.Frags {
		sels(f.Sels)
	}
}

func (w *rewriter) renameVars() bool {
	op := w.d.Ops[0]
	if len(op.Vars) == 0 {
		return false
	}
	m := map[string]string{}
	for i, v := range op.Vars {
		m[v.Name] = fmt.Sprintf("n%d_%s", len(op.Vars)-i, v.Name)
	}
	for _, v := range op.Vars {
		v.Name = m[v.Name]
	}
	forEachValue(w.d, func(v *x.Val) { v.RenameVars(m) })
	w.r.Shuffle(len(op.Vars), func(i, j int) { op.Vars[i], op.Vars[j] = op.Vars[j], op.Vars[i] })
	if w.vars != nil {
		for i := range w.vars.O {
			if n, ok := m[w.vars.O[i].K]; ok {
				w.vars.O[i].K = n
			}
		}
		w.r.Shuffle(len(w.vars.O), func(i, j int) { w.vars.O[i], w.vars.O[j] = w.vars.O[j], w.vars.O[i] })
	}
	return true
}

// litToVar: every variable-free literal argument of some classes (same JSON text, same argument
// type) is replaced by one user variable of exactly the argument's type holding that value.
func (w *rewriter) litToVar() bool {
	type occ struct {
		arg *x.Arg
		t   *x.Ty
	}
	classes := map[string][]occ{}
	var order []string
	walkSelSets(w.s, w.d, func(p string, sels *[]*x.Sel) {
		td := w.s.Type(p)
		for _, s := range *sels {
			if s.K != 0 || td == nil {
				continue
			}
			fd := td.Field(s.Name)
			if fd == nil {
				continue
			}
			for i := range s.Args {
				a := &s.Args[i]
				if a.V.K == "var" || a.V.HasVar() {
					continue
				}
				var t *x.Ty
				for _, iv := range fd.Args {
					if iv.Name == a.Name {
						t = iv.T
					}
				}
				if t == nil {
					continue
				}
				k := t.SDL() + "|" + a.V.JSON().Text()
				if _, ok := classes[k]; !ok {
					order = append(order, k)
				}
				classes[k] = append(classes[k], occ{a, t})
			}
		}
	})
	if len(order) == 0 {
		return false
	}
	if w.vars == nil {
		w.vars = &x.J{K: 'o'}
	}
	did := false
	for _, k := range order {
		if !w.r.Chance(1, 2) {
			continue
		}
		w.n++
		name := "lv" + strconv.Itoa(w.n)
		os := classes[k]
		w.vars.O = append(w.vars.O, x.JKV{K: name, V: os[0].arg.V.JSON()})
		w.d.Ops[0].Vars = append(w.d.Ops[0].Vars, &x.VarDef{Name: name, T: os[0].t})
		for _, o := range os {
			o.arg.V = &x.Val{K: "var", S: name}
		}
		did = true
	}
	return did
}

// rewrite produces a variant of (doc, vars) with the same meaning; kinds lists what was applied.
func rewrite(r *common.Rand, s *x.Schema, c *genCase) (*genCase, []string) {
	w := &rewriter{r: r, s: s, d: c.doc.Clone()}
	if c.vars != nil {
		cp, _ := x.ParseJSON([]byte(c.vars.Text()))
		w.vars = cp
	}
	var kinds []string
	for tries := 0; tries < 4 && len(kinds) == 0; tries++ {
		if r.Chance(1, 2) {
			kinds = append(kinds, w.fragWrap())
		}
		if r.Chance(1, 3) {
			kinds = append(kinds, w.fragWrap())
		}
		if r.Chance(1, 2) && w.dupLeaf() {
			kinds = append(kinds, "dupleaf")
		}
		if r.Chance(1, 2) && w.litToVar() {
			kinds = append(kinds, "lit2var")
		}
		if r.Chance(1, 2) && w.renameVars() {
			kinds = append(kinds, "renamevars")
		}
	}
	return &genCase{doc: w.d, vars: w.vars, opName: c.opName, flags: map[string]int{}}, kinds
}

// ---------------------------------------------------------------- malformed stream

// mutate damages a valid document so that it (mostly) violates a validation rule the passes rely
// on: same response name with different arguments / different fields, a fragment spread where it
// cannot apply.  Only the per-pass model correspondence is checked on these.
func mutate(r *common.Rand, s *x.Schema, c *genCase) (*genCase, string) {
	d := c.doc.Clone()
	type site struct {
		parent string
		sels   *[]*x.Sel
		i      int
	}
	var fields, comps []site
	var sets []site
	walkSelSets(s, d, func(p string, sels *[]*x.Sel) {
		sets = append(sets, site{p, sels, 0})
		for i, sel := range *sels {
			if sel.K == 0 {
				fields = append(fields, site{p, sels, i})
				if len(sel.Sels) > 0 {
					comps = append(comps, site{p, sels, i})
				}
			}
		}
	})
	out := &genCase{doc: d, vars: c.vars, opName: c.opName, flags: map[string]int{"malformed": 1}}
	changeArgs := func(f *x.Sel) {
		if len(f.Args) > 0 && r.Chance(2, 3) {
			k := r.Pick(len(f.Args))
			if r.Chance(1, 2) {
				f.Args[k].V = &x.Val{K: "int", S: common.PickOf(r, []string{"77", "78"})}
			} else {
				f.Args = append(f.Args[:k], f.Args[k+1:]...)
			}
		} else {
			f.Args = append(f.Args, x.Arg{Name: common.PickOf(r, []string{"n", "x", "i", "zz"}), V: &x.Val{K: "int", S: "77"}})
		}
	}
	switch k := r.Pick(4); {
	case k == 0 && len(comps) > 0:
		// a composite field selected twice with different arguments
		st := common.PickOf(r, comps)
		cl := (*st.sels)[st.i].Clone()
		changeArgs(cl)
		pos := st.i + 1 + r.Pick(len(*st.sels)-st.i)
		ns := append([]*x.Sel(nil), (*st.sels)[:pos]...)
		ns = append(ns, cl)
		*st.sels = append(ns, (*st.sels)[pos:]...)
		return out, "composite_args_differ"
	case k == 1 && len(fields) > 0:
		st := common.PickOf(r, fields)
		cl := (*st.sels)[st.i].Clone()
		changeArgs(cl)
		*st.sels = append(*st.sels, cl)
		return out, "field_args_differ"
	case k == 2 && len(fields) > 1:
		// two different fields under one response name
		a, b := common.PickOf(r, fields), common.PickOf(r, fields)
		fa, fb := (*a.sels)[a.i], (*b.sels)[b.i]
		resp := fa.Name
		if fa.Alias != "" {
			resp = fa.Alias
		}
		fb.Alias = resp
		return out, "alias_collision"
	default:
		// only inside operations: a spread placed in a fragment definition could close a cycle, and
		// the inlining pass on its own (without the cycle guard of the first stage) does not terminate
		var opsets []site
		walkSelSets(s, &x.Doc{Ops: d.Ops}, func(p string, sels *[]*x.Sel) { opsets = append(opsets, site{p, sels, 0}) })
		if len(d.Frags) > 0 && len(opsets) > 0 {
			st := common.PickOf(r, opsets)
			f := common.PickOf(r, d.Frags)
			*st.sels = append(*st.sels, &x.Sel{K: 2, Name: f.Name})
			return out, "spread_anywhere"
		}
	}
	return nil, ""
}
