package main

import (
	"fmt"
	"gvh/c03x"
	"github.com/wundergraph/graphql-go-tools/v2/pkg/astvisitor"
)

func main() {
	w := astvisitor.NewWalker(8)
	c03x.RemoveSelfAliasing(&w)
	fmt.Println("ok")
}
