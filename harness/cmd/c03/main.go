// c03: normalisation preserves meaning, validity, is idempotent and canonical.
//
//	c03 gen    -seed S -n N -out FILE [-dump FILE]   generated cases
//	c03 corpus -in FILE -out FILE                    stored cases (JSON lines, the -dump format)
//	c03 one    -in FILE [-i K]                       human-readable trace of one stored case
//
// Every case is run through the REAL normalisation in the order and with the options
// ExecutionEngine.Execute uses (graphql.Request.Normalize / ValidateForSchema / Normalize with
// extraction / VariablesMapper / variables validation); the observables are written as one
// S-expression per line for the extracted checker (ocaml/c03/driver.ml).
package main

import (
	"bufio"
	"encoding/json"
	"fmt"
	"os"
	"sort"
	"strings"

	x "gvh/c03x"
	"gvh/common"

	"github.com/wundergraph/graphql-go-tools/execution/graphql"
	"github.com/wundergraph/graphql-go-tools/v2/pkg/ast"
	"github.com/wundergraph/graphql-go-tools/v2/pkg/astnormalization"
	"github.com/wundergraph/graphql-go-tools/v2/pkg/astparser"
	"github.com/wundergraph/graphql-go-tools/v2/pkg/astprinter"
	"github.com/wundergraph/graphql-go-tools/v2/pkg/astvalidation"
	"github.com/wundergraph/graphql-go-tools/v2/pkg/operationreport"
	"github.com/wundergraph/graphql-go-tools/v2/pkg/variablesvalidation"
)

// entry is one stored case: everything needed to re-run it (also the corpus format).
type entry struct {
	ID        string   `json:"id"`
	SDL       string   `json:"sdl"`
	Schema    string   `json:"schema"`    // FEDLAB schema S-expression of the same SDL
	Universes []string `json:"universes"` // FEDLAB universe S-expressions
	Query     string   `json:"query"`
	Op        string   `json:"op"`
	Vars      *string  `json:"vars"` // JSON text; null = request without variables
	Query2    string   `json:"query2,omitempty"`
	Vars2     *string  `json:"vars2,omitempty"`
	Kinds     []string `json:"kinds,omitempty"`
	Flags     []string `json:"flags,omitempty"`
	origSexp  string
}

type seqOut struct {
	stage      string // "" = completed; else the step that rejected the request
	msg        string
	norm1      string // printed after the first normalisation
	normDoc    string // S-expression after the second normalisation
	normPr     string
	normVars   []byte
	mapDoc     string
	mapPr      string
	mapping    map[string]string // new name -> old name
	mapVars    *x.J
	validFinal bool
	finalMsg   string
}

func printDoc(d *ast.Document) string {
	s, err := astprinter.PrintString(d)
	if err != nil {
		return "<print error: " + err.Error() + ">"
	}
	return s
}

func errText(err error, errs error) string {
	if err != nil {
		return err.Error()
	}
	if errs != nil {
		return errs.Error()
	}
	return ""
}

// engineSequence mirrors execution/engine.(*ExecutionEngine).Execute up to and including the
// variables validation (lines "normalize := !operation.IsNormalized()" .. "ValidateWithRemap").
func engineSequence(schema *graphql.Schema, query, opName string, vars []byte) *seqOut {
	out := &seqOut{}
	operation := &graphql.Request{OperationName: opName, Variables: vars, Query: query}
	func() {
		defer func() {
			if r := recover(); r != nil {
				out.stage = "panic"
				out.msg = fmt.Sprint(r)
			}
		}()
		result, err := operation.Normalize(schema,
			astnormalization.WithRemoveFragmentDefinitions(),
			astnormalization.WithRemoveUnusedVariables(),
			astnormalization.WithInlineFragmentSpreads(),
			astnormalization.WithEnableDefer(),
			astnormalization.WithPrevalidationRules(
				astvalidation.DeferStreamOnValidOperations(),
				astvalidation.DeferStreamHaveUniqueLabels(),
				astvalidation.DirectivesAreDefined(),
				astvalidation.DirectivesAreInValidLocations(),
				astvalidation.DirectivesAreUniquePerLocation(),
				astvalidation.StreamAppliedToListFieldsOnly()),
		)
		if err != nil || !result.Successful {
			out.stage, out.msg = "norm1", errText(err, result.Errors)
			return
		}
		out.norm1 = printDoc(operation.Document())
		if result, err := operation.ValidateForSchema(schema); err != nil || !result.Valid {
			out.stage, out.msg = "validate", errText(err, result.Errors)
			return
		}
		result, err = operation.Normalize(schema, astnormalization.WithExtractVariables())
		if err != nil || !result.Successful {
			out.stage, out.msg = "norm2", errText(err, result.Errors)
			return
		}
		out.normDoc = x.DumpDocument(operation.Document())
		out.normPr = printDoc(operation.Document())
		out.normVars = append([]byte(nil), operation.Variables...)

		var remapReport operationreport.Report
		remap := astnormalization.NewVariablesMapper().NormalizeOperation(operation.Document(), schema.Document(), &remapReport)
		if remapReport.HasErrors() {
			out.stage, out.msg = "remap", remapReport.Error()
			return
		}
		out.mapping = remap
		out.mapDoc = x.DumpDocument(operation.Document())
		out.mapPr = printDoc(operation.Document())
		if len(operation.Variables) > 0 && operation.Variables[0] == '{' {
			validator := variablesvalidation.NewVariablesValidator(variablesvalidation.VariablesValidatorOptions{})
			if err := validator.ValidateWithRemap(operation.Document(), schema.Document(), operation.Variables, remap); err != nil {
				out.stage, out.msg = "varsvalidate", err.Error()
				return
			}
		}
		// the variables as the resolver sees them through RemapVariables: new name -> value of old name
		vj := &x.J{K: 'o'}
		if len(operation.Variables) > 0 {
			p, err := x.ParseJSON(operation.Variables)
			if err != nil {
				out.stage, out.msg = "varsjson", err.Error()
				return
			}
			vj = p
		}
		inv := map[string]string{}
		for n, o := range remap {
			inv[o] = n
		}
		mv := &x.J{K: 'o'}
		for _, kv := range vj.O {
			if n, ok := inv[kv.K]; ok {
				mv.O = append(mv.O, x.JKV{K: n, V: kv.V})
			} else {
				mv.O = append(mv.O, kv)
			}
		}
		out.mapVars = mv
		// validity of the final document (the engine itself does not validate again)
		var rep operationreport.Report
		astvalidation.DefaultOperationValidator().Validate(operation.Document(), schema.Document(), &rep)
		out.validFinal = !rep.HasErrors()
		if rep.HasErrors() {
			out.finalMsg = rep.Error()
		}
	}()
	return out
}

func rawValid(schema *graphql.Schema, query string) (bool, string) {
	doc, rep := astparser.ParseGraphqlDocumentString(query)
	if rep.HasErrors() {
		return false, "parse: " + rep.Error()
	}
	var r operationreport.Report
	astvalidation.DefaultOperationValidator().Validate(&doc, schema.Document(), &r)
	if r.HasErrors() {
		return false, r.Error()
	}
	return true, ""
}

func varsBytes(v *string) []byte {
	if v == nil {
		return nil
	}
	return []byte(*v)
}

func jsonSexpOf(b []byte) string {
	if len(b) == 0 {
		return "(o)"
	}
	j, err := x.ParseJSON(b)
	if err != nil {
		return "(s " + common.QS("unparsable: "+string(b)) + ")"
	}
	return j.Sexp()
}

func optS(s string) string {
	if s == "" {
		return "(none)"
	}
	return common.QS(s)
}

type stats struct {
	stages map[string]int
	flags  map[string]int
	kinds  map[string]int
	sizes  []int
}

func process(e *entry, st *stats) string {
	schema, err := graphql.NewSchemaFromString(e.SDL)
	if err != nil {
		return "(bad " + common.QS(e.ID) + " " + common.QS("schema: "+err.Error()) + ")"
	}
	var sb strings.Builder
	sb.WriteString("(case " + common.QS(e.ID) + " (flags")
	for _, f := range e.Flags {
		sb.WriteString(" " + common.QS(f))
	}
	sb.WriteString(") " + e.Schema + " (universes " + strings.Join(e.Universes, " ") + ")")

	// the original request, in tree form
	origDoc, rep := astparser.ParseGraphqlDocumentString(e.Query)
	if rep.HasErrors() {
		return "(bad " + common.QS(e.ID) + " " + common.QS("parse: "+rep.Error()) + ")"
	}
	dumped := x.DumpDocument(&origDoc)
	if e.origSexp != "" && e.origSexp != dumped {
		return "(bad " + common.QS(e.ID) + " " + common.QS("harness: generator tree and parsed tree differ: "+e.origSexp+" vs "+dumped) + ")"
	}
	sb.WriteString(" (orig " + dumped + " " + optS(e.Op) + " " + jsonSexpOf(varsBytes(e.Vars)) + ")")

	o := engineSequence(schema, e.Query, e.Op, varsBytes(e.Vars))
	st.stages[o.stage]++
	sb.WriteString(" (go (stage " + common.QS(o.stage) + " " + common.QS(o.msg) + ")")
	if o.stage == "" {
		sb.WriteString(" (norm1 " + common.QS(o.norm1) + ")")
		sb.WriteString(" (norm " + o.normDoc + " " + jsonSexpOf(o.normVars) + " " + common.QS(o.normPr) + ")")
		sb.WriteString(" (mapped " + o.mapDoc + " " + o.mapVars.Sexp() + " " + common.QS(o.mapPr) + ")")
		sb.WriteString(" (validfinal " + common.B(o.validFinal) + " " + common.QS(o.finalMsg) + ")")
		// idempotence on the real code: feed the engine its own output
		// (a) the form before variable canonicalisation, with the variables the engine holds
		o2 := engineSequence(schema, o.normPr, e.Op, o.normVars)
		sb.WriteString(" (again_norm " + common.QS(o2.stage) + " " + common.QS(o2.msg) + " " + common.QS(o2.normPr) + " " + jsonSexpOf(o2.normVars) + ")")
		// (b) the canonical form, with the variables under their canonical names
		o3 := engineSequence(schema, o.mapPr, e.Op, []byte(o.mapVars.Text()))
		mv := "(o)"
		if o3.mapVars != nil {
			mv = o3.mapVars.Sexp()
		}
		sb.WriteString(" (again_mapped " + common.QS(o3.stage) + " " + common.QS(o3.msg) + " " + common.QS(o3.mapPr) + " " + mv + ")")
	}
	sb.WriteString(")")

	// per-pass chain for the model correspondence
	sb.WriteString(" " + chain(schema, e.Query, varsBytes(e.Vars)))

	// canonical form of a variant with the same meaning
	if e.Query2 != "" {
		ov := engineSequence(schema, e.Query2, e.Op, varsBytes(e.Vars2))
		for _, k := range e.Kinds {
			st.kinds[k]++
		}
		sb.WriteString(" (canon (kinds")
		for _, k := range e.Kinds {
			sb.WriteString(" " + common.QS(k))
		}
		sb.WriteString(") (stages " + common.QS(o.stage) + " " + common.QS(ov.stage) + " " + common.QS(ov.msg) + ")")
		if o.stage == "" && ov.stage == "" {
			sb.WriteString(" " + common.QS(o.mapPr) + " " + common.QS(ov.mapPr) + " " + o.mapVars.SortedTop().Sexp() + " " + ov.mapVars.SortedTop().Sexp())
		}
		sb.WriteString(" " + common.QS(e.Query2) + " " + jsonSexpOf(varsBytes(e.Vars2)) + ")")
	}
	sb.WriteString(")")
	return sb.String()
}

func buildEntry(r *common.Rand, id string, s *x.Schema, sdl, ssexp string, unis []string, c *genCase, withVariant bool) *entry {
	e := &entry{ID: id, SDL: sdl, Schema: ssexp, Universes: unis, Query: c.doc.GQL(), Op: c.opName, origSexp: c.doc.Sexp()}
	if c.vars != nil {
		t := c.vars.Text()
		e.Vars = &t
	}
	var fl []string
	for k := range c.flags {
		fl = append(fl, k)
	}
	sort.Strings(fl)
	e.Flags = fl
	if withVariant {
		v, kinds := rewrite(r, s, c)
		if len(kinds) > 0 {
			e.Query2 = v.doc.GQL()
			if v.vars != nil {
				t := v.vars.Text()
				e.Vars2 = &t
			}
			e.Kinds = kinds
		}
	}
	return e
}

func main() {
	if len(os.Args) < 2 {
		fmt.Fprintln(os.Stderr, "usage: c03 gen|corpus|one ...")
		os.Exit(2)
	}
	a := common.Args(os.Args[2:])
	st := &stats{stages: map[string]int{}, flags: map[string]int{}, kinds: map[string]int{}}
	switch os.Args[1] {
	case "gen":
		seed := common.ArgU64(a, "seed", 1)
		n := common.ArgInt(a, "n", 100)
		out := common.NewOut(a["out"])
		defer out.Close()
		var dump *common.Out
		if a["dump"] != "" {
			dump = common.NewOut(a["dump"])
			defer dump.Close()
		}
		r := common.NewRand(seed)
		var s *x.Schema
		var sdl, ssexp string
		var unis []string
		for i := 0; i < n; i++ {
			if i%8 == 0 {
				s = genSchema(r)
				sdl, ssexp = s.SDL(), s.Sexp()
			}
			if i%4 == 0 {
				unis = nil
				for k, m := 0, 2+r.Pick(2); k < m; k++ {
					unis = append(unis, genUniverse(r, s).Sexp())
				}
			}
			c := genOperation(r, s)
			id := fmt.Sprintf("g%d-%d", seed, i)
			e := buildEntry(r, id, s, sdl, ssexp, unis, c, true)
			for k := range c.flags {
				st.flags[k]++
			}
			st.sizes = append(st.sizes, len(e.Query))
			if dump != nil {
				b, _ := json.Marshal(e)
				dump.Line(string(b))
			}
			out.Line(process(e, st))
			// malformed stream: one damaged copy of every fourth document (model correspondence only)
			if i%4 == 0 {
				if m, kind := mutate(r, s, c); m != nil {
					em := buildEntry(r, id+"m", s, sdl, ssexp, nil, m, false)
					em.Flags = []string{"malformed", kind}
					st.kinds["malformed:"+kind]++
					out.Line(process(em, st))
				}
			}
			// the variant is a case of its own too
			if e.Query2 != "" {
				e2 := &entry{ID: id + "v", SDL: sdl, Schema: ssexp, Universes: unis, Query: e.Query2, Op: e.Op, Vars: e.Vars2, Flags: append(append([]string{"variant"}, e.Kinds...), e.Flags...)}
				if dump != nil {
					b, _ := json.Marshal(e2)
					dump.Line(string(b))
				}
				out.Line(process(e2, st))
			}
		}
		writeStats(a["stats"], st)
	case "corpus":
		f, err := os.Open(a["in"])
		if err != nil {
			panic(err)
		}
		defer f.Close()
		out := common.NewOut(a["out"])
		defer out.Close()
		sc := bufio.NewScanner(f)
		sc.Buffer(make([]byte, 1<<20), 1<<26)
		for sc.Scan() {
			line := strings.TrimSpace(sc.Text())
			if line == "" || line[0] == '#' {
				continue
			}
			var e entry
			if err := json.Unmarshal([]byte(line), &e); err != nil {
				out.Line("(bad \"corpus\" " + common.QS(err.Error()) + ")")
				continue
			}
			out.Line(process(&e, st))
		}
		writeStats(a["stats"], st)
	case "one":
		f, err := os.Open(a["in"])
		if err != nil {
			panic(err)
		}
		defer f.Close()
		sc := bufio.NewScanner(f)
		sc.Buffer(make([]byte, 1<<20), 1<<26)
		want := a["id"]
		for sc.Scan() {
			var e entry
			if json.Unmarshal(sc.Bytes(), &e) != nil || (want != "" && e.ID != want) {
				continue
			}
			trace(&e)
		}
	case "mkentry":
		// build a corpus line from hand-written pieces: -sdl FILE -q QUERY [-v VARS] [-op NAME] -u UNIVERSE-SEXP -id ID [-q2 .. -v2 .. -kinds a,b] [-flags a,b]
		sdl, err := os.ReadFile(a["sdl"])
		if err != nil {
			panic(err)
		}
		sc, err := x.SchemaFromSDL(string(sdl))
		if err != nil {
			panic(err)
		}
		e := &entry{ID: a["id"], SDL: string(sdl), Schema: sc.Sexp(), Universes: []string{a["u"]}, Query: a["q"], Op: a["op"]}
		if v, ok := a["v"]; ok {
			e.Vars = &v
		}
		if q2, ok := a["q2"]; ok {
			e.Query2 = q2
			if v2, ok := a["v2"]; ok {
				e.Vars2 = &v2
			}
			e.Kinds = strings.Split(a["kinds"], ",")
		}
		if f, ok := a["flags"]; ok {
			e.Flags = strings.Split(f, ",")
		}
		b, _ := json.Marshal(e)
		fmt.Println(string(b))
	case "adhoc":
		sdl, err := os.ReadFile(a["sdl"])
		if err != nil {
			panic(err)
		}
		e := &entry{ID: "adhoc", SDL: string(sdl), Query: a["q"], Op: a["op"]}
		if v, ok := a["v"]; ok {
			e.Vars = &v
		}
		trace(e)
	default:
		fmt.Fprintln(os.Stderr, "unknown command")
		os.Exit(2)
	}
}

func writeStats(path string, st *stats) {
	if path == "" {
		return
	}
	m := map[string]any{"stages": st.stages, "flags": st.flags, "variant_kinds": st.kinds}
	if len(st.sizes) > 0 {
		sort.Ints(st.sizes)
		m["query_bytes"] = map[string]int{"min": st.sizes[0], "median": st.sizes[len(st.sizes)/2], "max": st.sizes[len(st.sizes)-1]}
	}
	b, _ := json.MarshalIndent(m, "", " ")
	os.WriteFile(path, b, 0o644)
}

func trace(e *entry) {
	schema, err := graphql.NewSchemaFromString(e.SDL)
	if err != nil {
		fmt.Println("schema error:", err)
		return
	}
	fmt.Println("== case", e.ID)
	fmt.Println("query:", e.Query)
	fmt.Println("op:", e.Op, "vars:", string(varsBytes(e.Vars)))
	o := engineSequence(schema, e.Query, e.Op, varsBytes(e.Vars))
	fmt.Println("stage:", o.stage, o.msg)
	fmt.Println("norm1 :", o.norm1)
	fmt.Println("norm2 :", o.normPr, " vars:", string(o.normVars))
	fmt.Println("mapped:", o.mapPr, " mapping:", o.mapping)
	if o.mapVars != nil {
		fmt.Println("mapped vars:", o.mapVars.Text())
	}
	fmt.Println("valid final:", o.validFinal, o.finalMsg)
	rv, msg := rawValid(schema, e.Query)
	fmt.Println("raw valid:", rv, msg)
	if e.Query2 != "" {
		fmt.Println("-- variant", e.Kinds)
		fmt.Println("query2:", e.Query2, " vars2:", string(varsBytes(e.Vars2)))
		ov := engineSequence(schema, e.Query2, e.Op, varsBytes(e.Vars2))
		fmt.Println("stage:", ov.stage, ov.msg)
		fmt.Println("mapped:", ov.mapPr)
		if ov.mapVars != nil {
			fmt.Println("mapped vars:", ov.mapVars.Text())
		}
	}
	fmt.Println(chainTrace(schema, e.Query, varsBytes(e.Vars)))
}
