package main

import (
	"encoding/json"
	"fmt"
	"os"
	"regexp"
	"strings"
	"time"

	"gvh/common"
	"gvh/fedlab"
)

// savedCase makes a replay self-contained: the shrunk configuration is no longer what
// (seed, index) generates.
type savedCase struct {
	Seed  uint64            `json:"seed"`
	Index int               `json:"index"`
	Uni   int               `json:"uni"`
	Knobs string            `json:"knobs"`
	Cfg   *fedlab.Config    `json:"config"`
	U     *fedlab.Universe  `json:"universe"`
	Op    *fedlab.Operation `json:"operation"`
}

func saveCase(c *fedlab.Case) *savedCase {
	return &savedCase{Seed: c.Seed, Index: c.Index, Uni: c.UniIdx, Knobs: c.Knobs.String(), Cfg: c.Cfg, U: c.Uni, Op: c.Op}
}

func (s *savedCase) toCase() *fedlab.Case {
	return &fedlab.Case{Seed: s.Seed, Index: s.Index, UniIdx: s.Uni, Knobs: fedlab.ParseKnobs(s.Knobs), Cfg: s.Cfg, Uni: s.U, Op: s.Op}
}

var shrinkCtr int

func contains(xs []string, x string) bool {
	for _, y := range xs {
		if y == x {
			return true
		}
	}
	return false
}

// attempt runs a candidate; it counts as "still failing" only when the operation is valid for
// the repo's validator and the same clause fails.
func (r *runner) attempt(c *fedlab.Case, kind string) (*fedlab.Verdict, bool) {
	shrinkCtr++
	v, err := r.run(c, fmt.Sprintf("shrink/%d", shrinkCtr))
	if err != nil || v.LabError != "" {
		return nil, false
	}
	if !contains(v.Failed(), kind) {
		if os.Getenv("C01_DEBUG") != "" {
			fmt.Fprintln(os.Stderr, "shrink: candidate passes:", v.Failed(), c.Op.Text())
		}
		return v, false
	}
	// C01_SHRINK_KEEP: a regular expression the failure detail must keep matching (keeps the shrinker from
	// drifting into another finding that fails the same clause)
	if keep := os.Getenv("C01_SHRINK_KEEP"); keep != "" {
		if ok, _ := regexp.MatchString(keep, v.FailDetail()); !ok {
			return v, false
		}
	}
	// the candidate must fail in the same way as the case being shrunk (see failureShape)
	if r.shrinkShape != "" && failureShape(v) != r.shrinkShape {
		return v, false
	}
	if r.lab != nil {
		if err := r.lab.Validate(c.Op.Text()); err != nil {
			if os.Getenv("C01_DEBUG") != "" {
				fmt.Fprintln(os.Stderr, "shrink: candidate invalid:", err)
			}
			return v, false
		}
	}
	return v, true
}

var digitsRE = regexp.MustCompile(`[0-9]+`)

// failureShape abstracts a failure so that shrinking does not drift from one finding into another one that fails
// the same clause: for a data difference the features the classification looks at (upstream merge aliases on the way,
// inherited parent type conditions on the plan fields of the position, what kind of difference), otherwise the
// beginning of the message without its numbers.
func failureShape(v *fedlab.Verdict) string {
	f := v.Failed()
	if len(f) == 0 {
		return ""
	}
	d := v.FailDetail()
	if f[0] == "data_equal" {
		if k := strings.Index(d, " ;; position "); k >= 0 {
			kind := "value"
			switch {
			case strings.Contains(d[:k], ": members {"):
				kind = "members"
			case strings.Contains(d[:k], ": null vs "):
				kind = "null"
			}
			return fmt.Sprintf("data_equal/%s/alias=%v/parentOn=%v", kind, !strings.Contains(d[k:], "upstream merge aliases {}"),
				strings.Contains(d[k:], "parentOn=["))
		}
	}
	if len(d) > 70 {
		d = d[:70]
	}
	return f[0] + "/" + digitsRE.ReplaceAllString(d, "N")
}

// selection lists of an operation, addressable for deletion
func selLists(o *fedlab.Operation) []*[]*fedlab.Sel {
	var out []*[]*fedlab.Sel
	var walk func(l *[]*fedlab.Sel)
	walk = func(l *[]*fedlab.Sel) {
		out = append(out, l)
		for _, s := range *l {
			if len(s.Sels) > 0 {
				walk(&s.Sels)
			}
		}
	}
	walk(&o.Sels)
	for _, f := range o.Frags {
		walk(&f.Sels)
	}
	return out
}

// shrink minimises a failing case: knobs off (regenerating from the same seed/index), then
// selections deleted, directives dropped, then the configuration pruned to what the operation
// touches.  Returns the path of the shrunk replay ("" when nothing could be written).
func (r *runner) shrink(c *fedlab.Case, v *fedlab.Verdict) string {
	kind := v.Failed()[0]
	r.shrinkShape = failureShape(v)
	defer func() { r.shrinkShape = "" }()
	deadline := time.Now().Add(40 * time.Second)
	var steps []string
	best, bestV := c, v
	// 1. knobs
	for i := len(fedlab.AllKnobsV3) - 1; i >= 0 && time.Now().Before(deadline); i-- {
		kn := fedlab.AllKnobsV3[i]
		if !best.Knobs[kn] {
			continue
		}
		k2 := best.Knobs.Clone()
		delete(k2, kn)
		cand := fedlab.BuildCase(c.Seed, c.Index, c.UniIdx, k2, true)
		if v2, ok := r.attempt(cand, kind); ok {
			best, bestV = cand, v2
			steps = append(steps, "knob off: "+kn)
		}
	}
	// 2. operation
	for progress := true; progress && time.Now().Before(deadline); {
		progress = false
	search:
		for li := range selLists(best.Op) {
			n := len(*selLists(best.Op)[li])
			if n <= 1 {
				continue
			}
			for si := n - 1; si >= 0 && time.Now().Before(deadline); si-- {
				op2 := best.Op.Clone()
				l2 := selLists(op2)[li]
				*l2 = append(append([]*fedlab.Sel{}, (*l2)[:si]...), (*l2)[si+1:]...)
				fedlab.PruneOperation(op2)
				cand := *best
				cand.Op = op2
				if v2, ok := r.attempt(&cand, kind); ok {
					best, bestV = &cand, v2
					progress = true
					steps = append(steps, "selection deleted")
					break search
				}
			}
		}
		if progress {
			continue
		}
		// directives
		op2 := best.Op.Clone()
		had := false
		for _, l := range selLists(op2) {
			for _, s := range *l {
				if len(s.Dirs) > 0 {
					s.Dirs = nil
					had = true
				}
			}
		}
		if had {
			fedlab.PruneOperation(op2)
			cand := *best
			cand.Op = op2
			if v2, ok := r.attempt(&cand, kind); ok {
				best, bestV = &cand, v2
				progress = true
				steps = append(steps, "directives dropped")
			}
		}
	}
	// 3. configuration
	if time.Now().Before(deadline) {
		cand := fedlab.PruneCase(best)
		if v2, ok := r.attempt(cand, kind); ok {
			best, bestV = cand, v2
			steps = append(steps, "configuration pruned to the operation")
		}
	}
	if len(steps) == 0 {
		return ""
	}
	rp := mkReplay(best, bestV, true, r.lab)
	rp.ShrunkFrom = fmt.Sprintf("seed %d index %d uni %d knobs %s", c.Seed, c.Index, c.UniIdx, c.Knobs.String())
	rp.ShrinkSteps = steps
	rp.Case = saveCase(best)
	rp.Rerun = "harness/bin/c01 replay -in <this file> -v 1"
	return r.writeReplay(rp, "-min")
}

func cmdShrink(a map[string]string) {
	seed := common.ArgU64(a, "seed", 1)
	idx := common.ArgInt(a, "index", 0)
	uni := common.ArgInt(a, "uni", 0)
	c := fedlab.BuildCase(seed, idx, uni, fedlab.ParseKnobs(a["knobs"]), a["exact"] == "1")
	r := &runner{replays: a["replaydir"]}
	if r.replays == "" {
		r.replays = "."
	}
	defer r.close()
	v, err := r.run(c, "shrink0")
	if err != nil || v.LabError != "" {
		fmt.Println("lab error:", err, v)
		os.Exit(2)
	}
	if len(v.Failed()) == 0 {
		fmt.Println("case does not fail")
		return
	}
	p := r.shrink(c, v)
	fmt.Println("shrunk replay:", p)
}

// cmdReplay re-runs a self-contained replay file (or every *.json of a directory).
func loadSaved(path string) (*savedCase, error) {
	b, err := os.ReadFile(path)
	if err != nil {
		return nil, err
	}
	var rp struct {
		Case *savedCase `json:"case"`
	}
	if err := json.Unmarshal(b, &rp); err != nil {
		return nil, err
	}
	if rp.Case == nil {
		return nil, fmt.Errorf("%s holds no self-contained case", path)
	}
	return rp.Case, nil
}

// cmdProbe runs an arbitrary operation against the configuration / universe of a replay file
// (narrowing a finding by hand):  c01 probe -in FILE [-op 'query'] [-vars '{}'] [-plan 1]
func cmdProbe(a map[string]string) {
	sc, err := loadSaved(a["in"])
	if err != nil {
		fmt.Println(err)
		os.Exit(2)
	}
	lab, err := fedlab.NewLab(sc.Cfg, sc.U, nil, fedlab.EngineOptions{})
	if err != nil {
		fmt.Println(err)
		os.Exit(2)
	}
	defer lab.Close()
	op, vars := sc.Op.Text(), []byte(sc.Op.VariablesJSON())
	if a["op"] != "" {
		op, vars = a["op"], []byte("{}")
	}
	if a["vars"] != "" {
		vars = []byte(a["vars"])
	}
	if a["plan"] == "1" {
		p, err := lab.Plan(op, "")
		fmt.Println(p, err)
	}
	v := fedlab.Check(lab, op, "", vars, nil)
	fmt.Println("op:", op)
	fmt.Println("failed:", v.Failed(), v.FailDetail(), v.LabError)
	if v.Gateway != nil {
		fmt.Println("gateway:", string(v.Gateway.Response))
		for _, q := range v.Gateway.Requests {
			vs := ""
			if q.Variables != nil {
				vs = q.Variables.String()
			}
			fmt.Printf("  [%d %s] %s %s\n      -> %s\n", q.Index, q.Subgraph, q.Query, vs, string(q.Response))
		}
	}
	if v.Ref != nil {
		fmt.Println("reference:", v.Ref.Data.String(), "errors:", v.Ref.NErrors)
	}
}
